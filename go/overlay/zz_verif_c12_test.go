//go:build verif

package certmagic

// C12 — the certificate cache and its name index always agree, within capacity.
//
// Operation sequences (hand-written scenarios, bounded-exhaustive, random, and concurrent
// mixes) are applied to the REAL Cache through its real entry points; after every critical
// section both maps are read in-package and written, canonicalised, into one trace line
// per history. The Lean driver replays the history on the model (CM/Model/Cache.lean),
// compares every intermediate state, and evaluates the invariant on the IMPLEMENTATION's
// maps (the executable specification). The eviction victim is read off the implementation
// and handed to the model as an input of the event.

import (
	"bytes"
	"context"
	"crypto/ecdsa"
	"crypto/elliptic"
	"crypto/rand"
	"crypto/tls"
	"encoding/json"
	"errors"
	"fmt"
	"io"
	mrand "math/rand"
	"net"
	"net/http"
	"sort"
	"strconv"
	"strings"
	"sync"
	"testing"
	"time"

	"github.com/mholt/acmez/v3/acme"
	"go.uber.org/zap"
	"golang.org/x/crypto/ocsp"
)

type c12Conn struct {
	net.Conn
	local, remote net.Addr
}

func (c c12Conn) LocalAddr() net.Addr  { return c.local }
func (c c12Conn) RemoteAddr() net.Addr { return c.remote }

type c12PoolCert struct {
	cert    Certificate // as makeCertificate built it (+ managed, issuerKey, stale OCSP)
	tlsCert tls.Certificate
	pem     []byte
	key     []byte
	uniq    string // a name only this certificate lists ("" if none): SNI for the handshake op
}

type c12Pool struct {
	ca      *vCA
	certs   []c12PoolCert
	hashTok map[string]string
	names   []string // universe of names for lookups
}

const c12OCSPURL = "http://ocsp.c12.example/"

// an OCSP responder behind http.DefaultClient (the client the library uses): Good for whatever
// serial is asked about, fresh for a week — so that a maintenance pass finds every (stale)
// staple of the pool changed and writes it back
type c12Responder struct{ ca *vCA }

func (rt c12Responder) RoundTrip(req *http.Request) (*http.Response, error) {
	var b []byte
	if req.Body != nil {
		b, _ = io.ReadAll(req.Body)
		req.Body.Close()
	}
	oreq, err := ocsp.ParseRequest(b)
	if err != nil {
		return nil, err
	}
	now := time.Now()
	der, err := ocsp.CreateResponse(rt.ca.Cert, rt.ca.Cert, ocsp.Response{Status: ocsp.Good, SerialNumber: oreq.SerialNumber,
		ThisUpdate: now.Add(-time.Hour), NextUpdate: now.Add(7 * 24 * time.Hour)}, rt.ca.Key)
	if err != nil {
		return nil, err
	}
	return &http.Response{StatusCode: 200, Status: "200 OK", Proto: "HTTP/1.1", ProtoMajor: 1, ProtoMinor: 1,
		Header: http.Header{"Content-Type": []string{"application/ocsp-response"}}, Body: io.NopCloser(bytes.NewReader(der)),
		ContentLength: int64(len(der)), Request: req}, nil
}

func c12MakePool(t testing.TB) *c12Pool {
	ca := vNewCA("c12")
	ca.OCSP = c12OCSPURL
	now := time.Now()
	type spec struct {
		cn      string
		dns     []string
		managed bool
		issuer  string
		uris    []string
	}
	specs := []spec{
		{"", []string{"a.example", "b.example", "u0.example"}, true, "i1", nil},
		{"", []string{"a.example", "u1.example"}, true, "i2", nil},
		{"", []string{"*.example", "b.example"}, false, "", nil},
		{"a.example", []string{"a.example", "c.example", "c.example", "u3.example"}, true, "i1", nil}, // duplicate name
		{"", []string{"c.example"}, false, "", []string{"urn:Mixed-Case-Svc"}}, // a name the library keeps with its case
		{"", []string{"b.example", "u5.example", "b.example", "*.b.example"}, true, "i2", nil}, // duplicate name
	}
	p := &c12Pool{hashTok: map[string]string{}, ca: ca}
	seen := map[string]bool{}
	for i, s := range specs {
		priv, err := ecdsa.GenerateKey(elliptic.P256(), rand.Reader)
		if err != nil {
			t.Fatal(err)
		}
		keyPEM, err := PEMEncodePrivateKey(priv)
		if err != nil {
			t.Fatal(err)
		}
		certPEM, _ := ca.Sign(vLeafSpec{DNS: s.dns, CN: s.cn, NotBefore: now.Add(-time.Hour), NotAfter: now.Add(90 * 24 * time.Hour),
			Pub: &priv.PublicKey, URIs: s.uris})
		c, err := makeCertificate(certPEM, keyPEM)
		if err != nil {
			t.Fatal(err)
		}
		tlsCert := c.Certificate
		if s.managed {
			c.managed = true
			c.issuerKey = s.issuer
			// a staple that needs refreshing, so that the handshake's maintenance takes the
			// branch that writes its copy back into the cache
			c.ocsp = &ocsp.Response{Status: ocsp.Good, ThisUpdate: now.Add(-72 * time.Hour), NextUpdate: now.Add(-24 * time.Hour)}
		}
		pc := c12PoolCert{cert: c, tlsCert: tlsCert, pem: certPEM, key: keyPEM}
		for _, n := range c.Names {
			if strings.HasPrefix(n, "u") {
				pc.uniq = n
			}
			if !seen[n] {
				seen[n] = true
				p.names = append(p.names, n)
			}
		}
		p.certs = append(p.certs, pc)
		p.hashTok[c.hash] = fmt.Sprintf("h%d", i)
	}
	p.names = append(p.names, "x.example", "x.b.example", "y.x.example", "example", "")
	sort.Strings(p.names)
	return p
}

// names go over the wire as opaque tokens; `:` and `/` (URI names) are separators there
var c12WireRepl = strings.NewReplacer(":", "~", "/", "|")

func c12List(l []string) string {
	if len(l) == 0 {
		return "-"
	}
	return c12WireRepl.Replace(strings.Join(l, ","))
}

func c12Dash(s string) string {
	if s == "" {
		return "-"
	}
	return s
}

func (p *c12Pool) tok(hash string) string {
	if hash == "" {
		return "-"
	}
	if t, ok := p.hashTok[hash]; ok {
		return t
	}
	if len(hash) > 8 {
		hash = hash[:8]
	}
	return "x" + hash
}

func c12Stamp(c Certificate) int {
	n, _ := strconv.Atoi(c.ari.ExplanationURL)
	return n
}

// the part of a Certificate the model looks at
func (p *c12Pool) desc(c Certificate) string {
	m := "0"
	if c.managed {
		m = "1"
	}
	return fmt.Sprintf("%s/%s/%s/%s/%s/%d", p.tok(c.hash), c12List(c.Names), c12List(c.Tags), m, c12Dash(c.issuerKey), c12Stamp(c))
}

// canonical rendering of both maps (read under the cache's lock)
func (p *c12Pool) state(cache *Cache) (string, map[string]bool) {
	cache.mu.RLock()
	defer cache.mu.RUnlock()
	keys := map[string]bool{}
	var cs, is []string
	for k, c := range cache.cache {
		keys[k] = true
		cs = append(cs, p.tok(k)+"/"+p.desc(c))
	}
	for n, hs := range cache.cacheIndex {
		ts := make([]string, len(hs))
		for i, h := range hs {
			ts[i] = p.tok(h)
		}
		is = append(is, c12Dash(c12WireRepl.Replace(n))+"="+c12List(ts))
	}
	sort.Strings(cs)
	sort.Strings(is)
	a, b := "-", "-"
	if len(cs) > 0 {
		a = strings.Join(cs, ";")
	}
	if len(is) > 0 {
		b = strings.Join(is, ";")
	}
	return a + "#" + b, keys
}

// ---------------------------------------------------------------- operations

type c12Op struct {
	kind string // add rm rmm rep rmc ari hs
	i, j int    // pool indices
	tags []string
	hs   []int       // rm: pool indices, -1 = a hash that is not cached
	subs [][2]string // rmm
	mid  *c12Op      // hs / ari: operation performed at the storage yield point inside the real call
	flip bool        // add: the same certificate (same hash) offered with the other managed flag
}

func (op c12Op) String() string {
	s := fmt.Sprintf("%s(%d,%d,%v,%v,%v)", op.kind, op.i, op.j, op.tags, op.hs, op.subs)
	if op.flip {
		s += "~"
	}
	if op.mid != nil {
		s += "{" + op.mid.String() + "}"
	}
	return s
}

type c12Run struct {
	p      *c12Pool
	cache  *Cache
	cfgU   *Config // unmanaged adds (no stapling)
	cfgH   *Config // handshakes: on-demand (deny all), stapling on
	st     *vMem
	cap    int
	evs    []string
	states []string
	ariK   int
	hook   func()
	hookOn string // "ocsp" | "meta"
}

var errC12Denied = errors.New("verif: on-demand issuance denied")

func c12New(p *c12Pool, capacity int) *c12Run {
	r := &c12Run{p: p, cap: capacity, st: vNewMem()}
	var cfg *Config
	r.cache = NewCache(CacheOptions{
		GetConfigForCert: func(Certificate) (*Config, error) { return cfg, nil },
		Capacity:         capacity,
		Logger:           zap.NewNop(),
	})
	iss := []Issuer{vNewIssuer("i1", nil), vNewIssuer("i2", nil)}
	r.cfgU = New(r.cache, Config{Storage: r.st, Issuers: iss, Logger: zap.NewNop(), DisableStorageCheck: true,
		OCSP: OCSPConfig{DisableStapling: true}, DisableARI: true})
	r.cfgH = New(r.cache, Config{Storage: r.st, Issuers: iss, Logger: zap.NewNop(), DisableStorageCheck: true,
		DisableARI: true,
		OnDemand:   &OnDemandConfig{DecisionFunc: func(context.Context, string) error { return errC12Denied }}})
	cfg = r.cfgH
	r.st.OnOp = func(n int, kind, key string) {
		if r.hook == nil || kind != "Load" {
			return
		}
		if (r.hookOn == "ocsp" && strings.HasPrefix(key, prefixOCSP+"/")) || (r.hookOn == "meta" && strings.HasSuffix(key, ".json")) {
			h := r.hook
			r.hook = nil
			h()
		}
	}
	return r
}

func (r *c12Run) close() { r.cache.Stop() }

// record one critical section: the event and the state the implementation is in after it
func (r *c12Run) emit(ev string) map[string]bool {
	s, keys := r.p.state(r.cache)
	r.evs = append(r.evs, ev)
	r.states = append(r.states, s)
	return keys
}

func (r *c12Run) keys() map[string]bool {
	r.cache.mu.RLock()
	defer r.cache.mu.RUnlock()
	k := make(map[string]bool, len(r.cache.cache))
	for h := range r.cache.cache {
		k[h] = true
	}
	return k
}

// the evicted hash: a key that disappeared although the operation itself did not remove it
func (r *c12Run) victim(before map[string]bool, removed string) string {
	after := r.keys()
	var v []string
	for h := range before {
		if !after[h] && h != removed {
			v = append(v, r.p.tok(h))
		}
	}
	sort.Strings(v)
	if len(v) == 0 {
		return "-"
	}
	return strings.Join(v, "+") // more than one would be rejected by the model
}

func (r *c12Run) copyOf(i int, tags []string) Certificate {
	c := r.p.certs[i].cert
	c.Tags = append([]string(nil), tags...)
	return c
}

// current cached value of pool certificate i (what a handshake or a maintenance pass would
// have read), or the pool value if it is not cached
func (r *c12Run) cachedOr(i int) Certificate {
	r.cache.mu.RLock()
	defer r.cache.mu.RUnlock()
	if c, ok := r.cache.cache[r.p.certs[i].cert.hash]; ok {
		c.Tags = append([]string(nil), c.Tags...)
		return c
	}
	return r.p.certs[i].cert
}

func (r *c12Run) exec(op c12Op, k int) {
	ctx := context.Background()
	switch op.kind {
	case "add":
		pc := r.p.certs[op.i]
		before := r.keys()
		var c Certificate
		if op.flip {
			// a certificate first loaded as unmanaged and later put under management (or the other
			// way round): same bytes, same hash, the other flag — it must still be one cache entry
			c = r.copyOf(op.i, op.tags)
			c.managed = !c.managed
			r.cache.cacheCertificate(c)
		} else if pc.cert.managed {
			c = r.copyOf(op.i, op.tags)
			r.cache.cacheCertificate(c) // what CacheManagedCertificate does with the loaded bundle
		} else {
			c = r.copyOf(op.i, op.tags)
			var err error
			if k%5 == 4 {
				_, err = r.cfgU.CacheUnmanagedCertificatePEMBytes(ctx, pc.pem, pc.key, append([]string(nil), op.tags...))
			} else {
				_, err = r.cfgU.CacheUnmanagedTLSCertificate(ctx, pc.tlsCert, append([]string(nil), op.tags...))
			}
			if err != nil {
				panic(err)
			}
		}
		r.emit("add:" + r.p.desc(c) + ":" + r.victim(before, ""))
	case "rm":
		var hs, toks []string
		for _, i := range op.hs {
			h := "0000000000000000000000000000000000000000000000000000000000000000"
			if i >= 0 {
				h = r.p.certs[i].cert.hash
			}
			hs = append(hs, h)
			toks = append(toks, r.p.tok(h))
		}
		r.cache.Remove(hs)
		r.emit("rm:" + c12List(toks))
	case "rmm":
		var subs []SubjectIssuer
		var toks []string
		for _, s := range op.subs {
			subs = append(subs, SubjectIssuer{Subject: s[0], IssuerKey: s[1]})
			toks = append(toks, s[0]+"@"+c12Dash(s[1]))
		}
		r.cache.RemoveManaged(subs)
		r.emit("rmm:" + c12List(toks))
	case "rep":
		before := r.keys()
		o, n := r.cachedOr(op.i), r.copyOf(op.j, op.tags)
		r.cache.replaceCertificate(o, n)
		r.emit("rep:" + r.p.desc(o) + ":" + r.p.desc(n) + ":" + r.victim(before, o.hash))
	case "rmc":
		c := r.cachedOr(op.i)
		r.cache.mu.Lock()
		r.cache.removeCertificate(c) // as renewDynamicCertificate / forceRenew / queueRenewalTask do
		r.cache.mu.Unlock()
		r.emit("rmc:" + r.p.desc(c))
	case "ari":
		// the real updateARI finds newer renewal information in storage and writes it into
		// the cached certificate (guarded read-modify-write under the cache's lock)
		c := r.cachedOr(op.i)
		r.ariK++
		stamp := r.ariK
		ra := time.Now().Add(time.Duration(stamp) * time.Hour)
		ri := acme.RenewalInfo{RetryAfter: &ra, ExplanationURL: strconv.Itoa(stamp)}
		meta, _ := json.Marshal(acme.Certificate{RenewalInfo: &ri})
		res, _ := json.Marshal(CertificateResource{SANs: c.Names, IssuerData: meta})
		r.st.mu.Lock()
		r.st.data[StorageKeys.SiteMeta(c.issuerKey, c.Names[0])] = res
		r.st.mu.Unlock()
		if op.mid != nil {
			mid := *op.mid
			r.hookOn, r.hook = "meta", func() { r.exec(mid, k) }
		}
		_, _, err := r.cfgH.updateARI(ctx, c, zap.NewNop())
		r.hook = nil
		if err != nil {
			panic(err)
		}
		r.emit(fmt.Sprintf("ari:%s:%d", r.p.tok(c.hash), stamp))
	case "ocsp":
		// a maintenance pass over the staples: every managed certificate's (stale) staple is
		// refreshed on a COPY taken at the start of the pass; the write-back touches the staple of
		// whatever is in the cache THEN, nothing else (for the model: nothing changes — the event
		// is the removal of a hash that is not cached)
		if op.mid != nil {
			mid := *op.mid
			r.hookOn, r.hook = "ocsp", func() { r.exec(mid, k) }
		}
		r.cache.updateOCSPStaples(ctx)
		r.hook = nil
		r.emit("rm:" + r.p.tok("0000000000000000000000000000000000000000000000000000000000000000"))
	case "hs":
		// a real handshake for a name only pool certificate i lists; its maintenance refreshes
		// the (stale) staple on a COPY and writes the copy back
		pc := r.p.certs[op.i]
		c := r.cachedOr(op.i)
		if op.mid != nil {
			mid := *op.mid
			r.hookOn, r.hook = "ocsp", func() { r.exec(mid, k) }
		}
		hello := &tls.ClientHelloInfo{ServerName: pc.uniq,
			Conn: c12Conn{local: &net.TCPAddr{IP: net.IPv4(127, 0, 0, 1), Port: 443}, remote: &net.TCPAddr{IP: net.IPv4(127, 0, 0, 2), Port: 5000}}}
		r.cfgH.GetCertificate(hello)
		r.hook = nil
		r.emit("hs:" + r.p.desc(c))
	default:
		panic("unknown op " + op.kind)
	}
}

func (r *c12Run) line(o *vOut) {
	o.Line("trace %d %s => %s", r.cap, strings.Join(r.evs, " "), strings.Join(r.states, " "))
	o.Stat("traces_validated", 1)
	o.Stat("events", len(r.evs))
}

// AllMatchingCertificates(name) must return exactly the cached certificates that list the
// name or one of its wildcard forms (reference computed from a copy of the cache map)
func (r *c12Run) checkLookups(o *vOut, ops []c12Op) {
	r.cache.mu.RLock()
	snap := make(map[string][]string, len(r.cache.cache))
	for h, c := range r.cache.cache {
		snap[h] = c.Names
	}
	r.cache.mu.RUnlock()
	for _, name := range r.p.names {
		cands := []string{name}
		labels := strings.Split(name, ".")
		for i := range labels {
			labels[i] = "*"
			cands = append(cands, strings.Join(labels, "."))
		}
		var want []string
		for h, names := range snap {
			for _, cand := range cands {
				for _, n := range names {
					if n == cand {
						want = append(want, r.p.tok(h))
					}
				}
			}
		}
		var got []string
		for _, c := range r.cache.AllMatchingCertificates(name) {
			got = append(got, r.p.tok(c.hash))
		}
		sort.Strings(want)
		sort.Strings(got)
		if strings.Join(want, ",") != strings.Join(got, ",") {
			o.Mon("C12 lookup-mismatch", map[string]any{"capacity": r.cap, "ops": fmt.Sprint(ops), "events": r.evs,
				"name": name, "got": got, "want": want})
		}
		o.Stat("lookups_checked", 1)
	}
}

func c12RunTrace(o *vOut, p *c12Pool, capacity int, ops []c12Op, lookups bool) {
	r := c12New(p, capacity)
	defer r.close()
	for k, op := range ops {
		r.exec(op, k)
	}
	r.line(o)
	if lookups {
		r.checkLookups(o, ops)
	}
}

// ---------------------------------------------------------------- generators

func c12Alphabet(p *c12Pool, pool []int, full bool) []c12Op {
	var a []c12Op
	managed := func(i int) bool { return p.certs[i].cert.managed }
	for _, i := range pool {
		a = append(a, c12Op{kind: "add", i: i})
		if i == pool[0] || (full && i == pool[len(pool)-1]) {
			a = append(a, c12Op{kind: "add", i: i, tags: []string{"t5"}, flip: true})
		}
		if full || i == pool[0] {
			a = append(a, c12Op{kind: "add", i: i, tags: []string{"t2", "t1"}})
		}
		if full && i%2 == 0 {
			a = append(a, c12Op{kind: "add", i: i, tags: []string{"t1"}})
		}
		a = append(a, c12Op{kind: "rm", hs: []int{i}})
	}
	a = append(a, c12Op{kind: "rmm", subs: [][2]string{{"a.example", ""}}})
	a = append(a, c12Op{kind: "rmm", subs: [][2]string{{"b.example", "i2"}, {"c.example", "i1"}}})
	for _, i := range pool {
		for _, j := range pool {
			if i != j || full {
				a = append(a, c12Op{kind: "rep", i: i, j: j})
			}
		}
	}
	for _, i := range pool {
		if !managed(i) {
			continue
		}
		rm := c12Op{kind: "rm", hs: []int{i}}
		a = append(a, c12Op{kind: "hs", i: i})
		a = append(a, c12Op{kind: "hs", i: i, mid: &rm})
		a = append(a, c12Op{kind: "ari", i: i})
		if full {
			a = append(a, c12Op{kind: "ari", i: i, mid: &rm})
		}
	}
	other := pool[len(pool)-1]
	add := c12Op{kind: "add", i: other, tags: []string{"t3"}}
	a = append(a, c12Op{kind: "hs", i: pool[0], mid: &add}) // eviction (or a tag merge) in the middle of a handshake
	if full {
		a = append(a, c12Op{kind: "rm", hs: []int{-1}})
		a = append(a, c12Op{kind: "rm", hs: []int{pool[0], -1, pool[0], pool[1]}})
		a = append(a, c12Op{kind: "rmm", subs: [][2]string{{"*.example", ""}, {"b.example", ""}, {"u0.example", "i9"}}})
		for _, i := range pool {
			a = append(a, c12Op{kind: "rmc", i: i})
		}
		rep := c12Op{kind: "rep", i: pool[0], j: pool[1]}
		a = append(a, c12Op{kind: "hs", i: pool[0], mid: &rep}) // renewal replaces the certificate in the middle of a handshake
		ari := c12Op{kind: "ari", i: pool[0]}
		a = append(a, c12Op{kind: "hs", i: pool[0], mid: &ari}) // lost update, but never a broken index
		readd := c12Op{kind: "add", i: pool[0], tags: []string{"t9"}}
		a = append(a, c12Op{kind: "hs", i: pool[0], mid: &readd})
	}
	return a
}

func c12Exhaustive(o *vOut, p *c12Pool, alpha []c12Op, depth int, caps []int, budget *int) {
	idx := make([]int, depth)
	ops := make([]c12Op, depth)
	for {
		for d := range idx {
			ops[d] = alpha[idx[d]]
		}
		for _, c := range caps {
			if *budget <= 0 {
				o.Stat("exhaustive_truncated", 1)
				return
			}
			*budget--
			c12RunTrace(o, p, c, ops, false)
			o.Stat(fmt.Sprintf("exhaustive_depth%d", depth), 1)
		}
		d := depth - 1
		for d >= 0 {
			idx[d]++
			if idx[d] < len(alpha) {
				break
			}
			idx[d] = 0
			d--
		}
		if d < 0 {
			return
		}
	}
}

func c12RandomOp(rng *mrand.Rand, p *c12Pool, allowMid bool) c12Op {
	n := len(p.certs)
	tagsets := [][]string{nil, nil, {"t1"}, {"t2", "t1"}, {"t3"}, {"t1", "t1", "t4"}}
	switch x := rng.Intn(20); {
	case x < 7:
		return c12Op{kind: "add", i: rng.Intn(n), tags: tagsets[rng.Intn(len(tagsets))], flip: rng.Intn(6) == 0}
	case x < 9:
		var hs []int
		for k := 1 + rng.Intn(3); k > 0; k-- {
			hs = append(hs, rng.Intn(n+1)-1)
		}
		return c12Op{kind: "rm", hs: hs}
	case x < 11:
		subjects := []string{"a.example", "b.example", "c.example", "*.example", "u0.example", "u5.example", "*.b.example", "nope.example"}
		issuers := []string{"", "", "i1", "i2", "i9"}
		var subs [][2]string
		for k := 1 + rng.Intn(3); k > 0; k-- {
			subs = append(subs, [2]string{subjects[rng.Intn(len(subjects))], issuers[rng.Intn(len(issuers))]})
		}
		return c12Op{kind: "rmm", subs: subs}
	case x < 14:
		return c12Op{kind: "rep", i: rng.Intn(n), j: rng.Intn(n), tags: tagsets[rng.Intn(len(tagsets))]}
	case x < 15:
		return c12Op{kind: "rmc", i: rng.Intn(n)}
	}
	var managed []int
	for i, c := range p.certs {
		if c.cert.managed {
			managed = append(managed, i)
		}
	}
	kind := "hs"
	i := managed[rng.Intn(len(managed))]
	if rng.Intn(3) == 0 {
		kind = "ari"
		i = rng.Intn(n)
	}
	op := c12Op{kind: kind, i: i}
	if allowMid && rng.Intn(2) == 0 {
		var mid c12Op
		switch rng.Intn(4) {
		case 0:
			mid = c12Op{kind: "rm", hs: []int{i}}
		case 1:
			mid = c12Op{kind: "rep", i: i, j: rng.Intn(n)}
		default:
			mid = c12RandomOp(rng, p, false)
			if mid.kind == "hs" {
				mid.kind = "ari"
			}
		}
		if kind == "ari" && mid.kind == "ari" {
			// updateARI serialises on a storage lock; a nested call would wait for itself
			mid = c12Op{kind: "rmc", i: i}
		}
		op.mid = &mid
	}
	return op
}

// real goroutines, real scheduler: the invariant is judged at the quiescent point
func c12Concurrent(o *vOut, p *c12Pool, rng *mrand.Rand, capacity int) {
	r := c12New(p, capacity)
	defer r.close()
	r.st.OnOp = nil
	var wg sync.WaitGroup
	var ariMu sync.Mutex
	for g := 0; g < 4; g++ {
		seed := rng.Int63()
		wg.Add(1)
		go func() {
			defer wg.Done()
			lr := mrand.New(mrand.NewSource(seed))
			q := &c12Run{p: p, cache: r.cache, cfgU: r.cfgU, cfgH: r.cfgH, st: r.st, cap: capacity}
			for k := 0; k < 40; k++ {
				op := c12RandomOp(lr, p, false)
				if op.kind == "ari" {
					ariMu.Lock() // the stamps in storage are per run; keep them ordered
					r.ariK++
					q.ariK = r.ariK - 1
					q.exec(op, k)
					ariMu.Unlock()
					continue
				}
				q.exec(op, k)
			}
		}()
	}
	wg.Wait()
	s, _ := p.state(r.cache)
	o.Line("quiesce %d %s", capacity, s)
	o.Stat("concurrent_mixes", 1)
}

func TestVerifC12(t *testing.T) {
	o := vOpen(t, "C12")
	defer o.Close()
	rng := vRand()
	p := c12MakePool(t)
	oldT := http.DefaultClient.Transport
	http.DefaultClient.Transport = c12Responder{p.ca}
	defer func() { http.DefaultClient.Transport = oldT }()
	for i, c := range p.certs {
		o.Note(fmt.Sprintf("pool_h%d", i), fmt.Sprintf("%v managed=%v issuer=%q", c.cert.Names, c.cert.managed, c.cert.issuerKey))
	}

	// 1. scenarios that run first: a staple/ARI update racing with a removal, an eviction, a
	// replacement (deterministic: the other operation runs at the storage access inside the
	// real handshake / updateARI)
	rm0 := c12Op{kind: "rm", hs: []int{0}}
	add1 := c12Op{kind: "add", i: 1}
	rep03 := c12Op{kind: "rep", i: 0, j: 3}
	rmm := c12Op{kind: "rmm", subs: [][2]string{{"a.example", ""}}}
	for _, c := range []int{0, 1, 2, 3} {
		c12RunTrace(o, p, c, []c12Op{{kind: "add", i: 0, tags: []string{"t1"}}, {kind: "hs", i: 0, mid: &rm0}}, true)
		c12RunTrace(o, p, c, []c12Op{{kind: "add", i: 0}, {kind: "hs", i: 0, mid: &add1}, {kind: "add", i: 2}}, true)
		c12RunTrace(o, p, c, []c12Op{{kind: "add", i: 0}, {kind: "hs", i: 0, mid: &rep03}}, true)
		c12RunTrace(o, p, c, []c12Op{{kind: "add", i: 0}, {kind: "add", i: 1}, {kind: "hs", i: 0, mid: &rmm}}, true)
		c12RunTrace(o, p, c, []c12Op{{kind: "add", i: 0}, {kind: "ari", i: 0, mid: &rm0}, {kind: "ari", i: 0}}, true)
		readd := c12Op{kind: "add", i: 0, tags: []string{"t7"}}
		c12RunTrace(o, p, c, []c12Op{{kind: "add", i: 0, tags: []string{"t1"}}, {kind: "add", i: 1}, {kind: "ocsp", mid: &readd}, {kind: "ocsp"}}, true)
		c12RunTrace(o, p, c, []c12Op{{kind: "add", i: 0}, {kind: "add", i: 3}, {kind: "ocsp", mid: &rm0}, {kind: "ocsp", mid: &rep03}}, true)
		c12RunTrace(o, p, c, []c12Op{{kind: "add", i: 3}, {kind: "add", i: 4}, {kind: "add", i: 5}, {kind: "rm", hs: []int{3}},
			{kind: "rep", i: 5, j: 3}, {kind: "rmm", subs: [][2]string{{"c.example", "i1"}}}}, true)
		o.Stat("scenarios", 6)
	}

	// 2. bounded-exhaustive: every sequence of the given length (hence every shorter one, as
	// a prefix: the states after every step are compared)
	full := c12Alphabet(p, []int{0, 1, 2, 3, 4, 5}, true)
	mid := c12Alphabet(p, []int{0, 1, 2, 3}, false)
	small := c12Alphabet(p, []int{0, 2, 3}, false)
	o.Note("alphabet_sizes", map[string]int{"full": len(full), "mid": len(mid), "small": len(small)})
	caps := []int{0, 1, 2, 3}
	if vThorough() {
		budget := 2000000
		c12Exhaustive(o, p, full, 2, caps, &budget)
		c12Exhaustive(o, p, mid, 3, caps, &budget)
		c12Exhaustive(o, p, small, 4, []int{1, 2}, &budget)
		c12Exhaustive(o, p, full, 3, []int{1 + int(vSeed()%2)}, &budget)
	} else {
		budget := 60000
		c12Exhaustive(o, p, full, 2, caps, &budget)
		c12Exhaustive(o, p, small, 3, []int{1, 2}, &budget)
	}

	// 3. random histories over the whole pool
	n := 3000
	if vThorough() {
		n = 150000
	}
	for k := 0; k < n; k++ {
		capacity := rng.Intn(4)
		if rng.Intn(10) == 0 {
			capacity = 4 + rng.Intn(2)
		}
		ops := make([]c12Op, 1+rng.Intn(12))
		for i := range ops {
			ops[i] = c12RandomOp(rng, p, true)
		}
		c12RunTrace(o, p, capacity, ops, k%4 == 0)
		o.Stat("random_traces", 1)
	}

	// 4. concurrent mixes, judged at quiescence
	m := 150
	if vThorough() {
		m = 3000
	}
	for k := 0; k < m; k++ {
		c12Concurrent(o, p, rng, rng.Intn(4))
	}
	if left := vLeftovers(); len(left) > 0 {
		o.Mon("C12 leftover-locks", left)
	}
}
