//go:build verif

package certmagic

// C19, "no job is lost", under the REAL scheduler: a job manager at its concurrency limit
// (one worker) receives tiny bursts of jobs; between bursts the worker runs dry and exits.
// A job submitted in the instant between the worker's last look at the queue and its exit
// must still run (the worker's exit decision and the decrement of the worker count are one
// critical section with that look). Every burst is awaited: a job that has not run 2 s after
// its submission, with nothing else going on, is lost.

import (
	"runtime"
	"sync"
	"sync/atomic"
	"testing"
	"time"

	"go.uber.org/zap"
)

func c19Stress(t *testing.T, o *vOut) {
	iterations := int64(40000)
	if vThorough() {
		iterations = 400000
	}
	managers := runtime.GOMAXPROCS(0) / 2
	if managers > 6 {
		managers = 6
	}
	if managers < 1 {
		managers = 1
	}
	logger := zap.NewNop()
	var wg sync.WaitGroup
	var stop atomic.Bool
	var done atomic.Int64
	for p := 0; p < managers; p++ {
		wg.Add(1)
		go func(p int) {
			defer wg.Done()
			jm := &jobManager{maxConcurrentJobs: 1}
			var ran atomic.Int64
			job := func() error { ran.Add(1); return nil }
			for i := int64(1); i <= iterations && !stop.Load(); i++ {
				jm.Submit(logger, "", job)
				// busy-wait, to be submitting again in the very instant the worker runs dry and exits
				var since time.Time
				for spins := 0; ran.Load() < i; spins++ {
					if spins%4096 != 4095 {
						continue
					}
					if since.IsZero() {
						since = time.Now()
					}
					if time.Since(since) < 2*time.Second {
						runtime.Gosched()
						continue
					}
					jm.mu.Lock()
					q, w := len(jm.queue), jm.activeWorkers
					jm.mu.Unlock()
					o.Mon("C19 jobs submitted-job-never-ran", map[string]any{"manager": p, "job": i, "queued": q, "active_workers": w, "limit": jm.maxConcurrentJobs})
					stop.Store(true)
					return
				}
				done.Add(1)
			}
		}(p)
	}
	wg.Wait()
	o.Stat("stress_jobs_run", int(done.Load()))
	o.Stat("stress_managers", managers)
}
