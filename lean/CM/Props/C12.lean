import CM.Model.Cache
import CM.Proofs.Cache
/-!
# C12 — the certificate cache and its name index always agree, within capacity

The state is the pair of maps of `cache.go` plus the capacity; an event is one critical
section of `Cache.mu` (see `CM.Cache.Ev`). `Inv` says: no hash is stored twice, keys are the
hashes of their certificates, `h` is listed under `n` exactly as often as `n` occurs among
the names of the cached certificate with hash `h` (so: index ⊆ cache and cache ⊆ index),
no index key has an empty list, and the size is within a positive capacity.

The theorems hold for EVERY finite history of events, every capacity, and every choice of
eviction victim (the victim is an input of the event).
-/
namespace CM.Cache

/-- the empty cache satisfies the invariant -/
theorem C12_inv_init (cap : Nat) : Inv (init cap) := inv_init cap

/-- every operation (add with dedup/tag-merge/eviction of ANY victim, `Remove`,
`RemoveManaged`, `replaceCertificate`, removal of a caller's copy, the guarded write-backs of
maintain.go, the handshake's write-back) preserves the invariant -/
theorem C12_inv_step (s s' : State) (e : Ev) (hI : Inv s) (h : step s e = some s') : Inv s' :=
  inv_step hI h

/-- … hence so does every finite history -/
theorem C12_inv_run (es : List Ev) (s s' : State) (hI : Inv s) (h : run s es = some s') : Inv s' :=
  inv_run es hI h

/-- every state reachable from the empty cache, for any capacity -/
theorem C12_inv_reachable (cap : Nat) (es : List Ev) (s : State) (h : run (init cap) es = some s) :
    Inv s := inv_run es (inv_init cap) h

/-- the number of cached certificates never exceeds a positive capacity -/
theorem C12_within_capacity (cap : Nat) (es : List Ev) (s : State) (h : run (init cap) es = some s)
    (hc : cap > 0) : s.cache.length ≤ cap := by
  have hI := C12_inv_reachable cap es s h
  have hcap : s.cap = cap := by
    clear hI
    have key : ∀ (es : List Ev) (s0 s1 : State), run s0 es = some s1 → s1.cap = s0.cap := by
      intro es
      induction es with
      | nil => intro s0 s1 h; simp only [run, Option.some.injEq] at h; rw [h]
      | cons e r ih =>
        intro s0 s1 h
        simp only [run] at h
        split at h
        · rename_i s2 h2
          rw [ih _ _ h]
          -- one step keeps the capacity
          have step_cap : ∀ (s a : State) (e : Ev), step s e = some a → a.cap = s.cap := by
            intro s a e hs
            have add_cap : ∀ (c : Cert) (v : Option Hash) (s a : State), addCert c v s = some a → a.cap = s.cap := by
              intro c v s a ha
              unfold addCert at ha
              repeat' split at ha
              all_goals first | (simp at ha; done) | (cases ha; rfl)
            have rm_cap : ∀ (hs : List Hash) (s : State), (removeHashes hs s).cap = s.cap := by
              intro hs
              induction hs with
              | nil => intro s; rfl
              | cons h r ih => intro s; exact ih _
            cases e with
            | add c v => simp only [step] at hs; split at hs; · simp at hs
                         · exact add_cap _ _ _ _ hs
            | remove l => simp only [step, Option.some.injEq] at hs; rw [← hs]; exact rm_cap _ _
            | removeManaged l => simp only [step, Option.some.injEq] at hs; rw [← hs]; exact rm_cap _ _
            | replace o n v =>
              simp only [step] at hs
              repeat' split at hs
              all_goals first | (simp at hs; done) | (have := add_cap _ _ _ _ hs; exact this)
            | removeCopy c => simp only [step] at hs; split at hs; · cases hs; rfl
                              · simp at hs
            | ariWB h k => simp only [step, Option.some.injEq] at hs; rw [← hs]; unfold ariWriteBack; split <;> rfl
            | hsWB c => simp only [step] at hs; split at hs
                        · cases hs; unfold hsWriteBack; split <;> rfl
                        · simp at hs
          exact step_cap _ _ _ h2
        · simp at h
    exact key es _ _ h
  have := hI.capOK (hcap ▸ hc)
  omega

/-- index ⊆ cache: a hash listed under a name belongs to a cached certificate that lists
that name -/
theorem C12_index_sound (s : State) (hI : Inv s) (n : Name) (h : Hash) (hm : h ∈ hashesOf s n) :
    ∃ c, get? h s.cache = some c ∧ c.hash = h ∧ n ∈ c.names := by
  have hag := hI.agree n h
  have hpos : 0 < (hashesOf s n).count h := List.count_pos_iff.mpr hm
  cases hg : get? h s.cache with
  | none => rw [hg] at hag; simp only at hag; omega
  | some c =>
    rw [hg] at hag; simp only at hag
    refine ⟨c, rfl, (hI.keyHash h c hg).1, ?_⟩
    exact List.count_pos_iff.mp (by omega)

/-- cache ⊆ index: every cached certificate is listed under each of its names -/
theorem C12_index_complete (s : State) (hI : Inv s) (h : Hash) (c : Cert) (hg : get? h s.cache = some c)
    (n : Name) (hn : n ∈ c.names) : h ∈ hashesOf s n := by
  have hag := hI.agree n h
  rw [hg] at hag; simp only at hag
  have : 0 < c.names.count n := List.count_pos_iff.mpr hn
  exact List.count_pos_iff.mp (by omega)

/-- looking up a name (`getAllMatchingCerts`) returns exactly the cached certificates that
list that name -/
theorem C12_lookup_exact (s : State) (hI : Inv s) (n : Name) (c : Cert) :
    c ∈ matching s n ↔ (get? c.hash s.cache = some c ∧ n ∈ c.names) := by
  constructor
  · intro hm
    obtain ⟨h, hh, rfl⟩ := List.mem_map.mp hm
    obtain ⟨c, hg, hk, hn⟩ := C12_index_sound s hI n h hh
    simp only [hg, Option.getD_some]
    exact ⟨hk ▸ hg, hn⟩
  · rintro ⟨hg, hn⟩
    have := C12_index_complete s hI c.hash c hg n hn
    exact List.mem_map.mpr ⟨c.hash, this, by simp [hg]⟩

/-- no lookup ever yields Go's zero certificate -/
theorem C12_lookup_nonzero (s : State) (hI : Inv s) (n : Name) (c : Cert) (hm : c ∈ matching s n) :
    c.hash ≠ "" := by
  have := (C12_lookup_exact s hI n c).mp hm
  exact (hI.keyHash _ _ this.1).2

theorem mem_mergeTags (old new : List Tag) (t : Tag) : t ∈ mergeTags old new ↔ t ∈ old ∨ t ∈ new := by
  unfold mergeTags
  induction new generalizing old with
  | nil => simp
  | cons a r ih =>
    rw [List.foldl_cons, ih]
    by_cases ha : a ∈ old
    · simp only [ha, if_true, List.mem_cons]
      constructor
      · rintro (h | h)
        · exact Or.inl h
        · exact Or.inr (Or.inr h)
      · rintro (h | h | h)
        · exact Or.inl h
        · exact Or.inl (h ▸ ha)
        · exact Or.inr h
    · simp only [ha, if_false, List.mem_append, List.mem_cons, List.not_mem_nil, or_false]
      constructor
      · rintro ((h | h) | h)
        · exact Or.inl h
        · exact Or.inr (Or.inl h)
        · exact Or.inr (Or.inr h)
      · rintro (h | h | h)
        · exact Or.inl (Or.inl h)
        · exact Or.inl (Or.inr h)
        · exact Or.inr h

theorem mergeTags_prefix (old new : List Tag) : old <+: mergeTags old new := by
  unfold mergeTags
  induction new generalizing old with
  | nil => exact List.prefix_refl _
  | cons a r ih =>
    rw [List.foldl_cons]
    by_cases ha : a ∈ old
    · simp only [ha, if_true]; exact ih old
    · simp only [ha, if_false]
      exact List.IsPrefix.trans (List.prefix_append old [a]) (ih _)

/-- re-adding a cached certificate stores nothing twice: the index and the set of cached
hashes are unchanged, the entry keeps its names and its existing tags (in order) and gains
exactly the missing tags of the re-added copy -/
theorem C12_readd_merges_tags (s s' : State) (c e : Cert) (hg : get? c.hash s.cache = some e)
    (h : step s (.add c none) = some s') :
    s'.index = s.index ∧
    (∀ h', (get? h' s'.cache).isSome = (get? h' s.cache).isSome) ∧
    (∃ e', get? c.hash s'.cache = some e' ∧ e'.names = e.names ∧ e'.hash = e.hash ∧
      e.tags <+: e'.tags ∧ ∀ t, t ∈ e'.tags ↔ t ∈ e.tags ∨ t ∈ c.tags) := by
  simp only [step] at h
  split at h
  · simp at h
  · unfold addCert at h
    rw [hg] at h
    simp only at h
    split at h
    · rename_i ht
      cases h
      refine ⟨rfl, fun _ => rfl, e, hg, rfl, rfl, List.prefix_refl _, ?_⟩
      intro t; rw [ht]; simp
    · cases h
      refine ⟨rfl, ?_, { e with tags := mergeTags e.tags c.tags }, get?_put_self _ _ _, rfl, rfl,
        mergeTags_prefix _ _, mem_mergeTags _ _⟩
      intro h'
      simp only
      rw [get?_put]
      split
      · rename_i e1; rw [e1, hg]; rfl
      · rfl

theorem addCert_get_self {s s' : State} {c : Cert} {v : Option Hash} (ha : agrees s c = true)
    (h : addCert c v s = some s') : ∃ c', get? c.hash s'.cache = some c' ∧ c'.names = c.names := by
  unfold addCert at h
  split at h
  · rename_i e hg
    unfold agrees at ha
    simp only [hg, decide_eq_true_eq] at ha
    split at h
    · simp at h
    · split at h
      · cases h; exact ⟨e, hg, ha⟩
      · cases h; exact ⟨_, get?_put_self _ _ _, ha⟩
  · repeat' split at h
    all_goals first | (simp at h; done) | (cases h; exact ⟨c, get?_put_self _ _ _, rfl⟩)

theorem addCert_absent_stays {s s' : State} {c : Cert} {v : Option Hash} {h' : Hash} (hne : h' ≠ c.hash)
    (hn : get? h' s.cache = none) (h : addCert c v s = some s') : get? h' s'.cache = none := by
  unfold addCert at h
  split at h
  · split at h
    · simp at h
    · split at h
      · cases h; exact hn
      · cases h; simp only; rw [get?_put_ne hne]; exact hn
  · repeat' split at h
    all_goals first
      | (simp at h; done)
      | (cases h; simp only [insertNew, removeCert]; rw [get?_put_ne hne, get?_erase]; split <;> first | rfl | exact hn)
      | (cases h; simp only [insertNew]; rw [get?_put_ne hne]; exact hn)

/-- after `replaceCertificate(old, new)` every name of `new` resolves to `new`'s hash, whose
cached certificate has `new`'s names; and (if the hashes differ) `old` is gone from the cache
and from every index entry -/
theorem C12_replace (s s' : State) (old new : Cert) (v : Option Hash) (hI : Inv s)
    (hnew : agrees s new = true) (h : step s (.replace old new v) = some s') :
    (∃ c', get? new.hash s'.cache = some c' ∧ c'.names = new.names) ∧
    (∀ n, n ∈ new.names → new.hash ∈ hashesOf s' n) ∧
    (old.hash ≠ new.hash → get? old.hash s'.cache = none ∧ ∀ n, old.hash ∉ hashesOf s' n) := by
  have hI' : Inv s' := inv_step hI h
  simp only [step] at h
  split at h
  · simp at h
  · split at h
    · have hnew' : agrees (removeCert old s) new = true := by
        unfold agrees at hnew ⊢
        simp only [removeCert]
        rw [get?_erase]
        by_cases hne : new.hash = old.hash
        · simp [hne]
        · simp only [hne, if_false]; exact hnew
      obtain ⟨c', hc', hn'⟩ := addCert_get_self hnew' h
      refine ⟨⟨c', hc', hn'⟩, ?_, ?_⟩
      · intro n hn
        exact C12_index_complete s' hI' new.hash c' hc' n (hn' ▸ hn)
      · intro hne
        have hgone : get? old.hash s'.cache = none :=
          addCert_absent_stays hne (by simp only [removeCert]; exact get?_erase_self _ _) h
        refine ⟨hgone, ?_⟩
        intro n hm
        obtain ⟨c, hg, _, _⟩ := C12_index_sound s' hI' n old.hash hm
        rw [hgone] at hg; simp at hg
    · simp at h

/-- the executable check used by the driver on the IMPLEMENTATION's maps is sound: a state it
accepts satisfies the invariant (so a passing run certifies `Inv` of every observed state) -/
theorem C12_invCheck_sound (s : State) (h : invCheck s = none) : Inv s := by
  unfold invCheck at h
  simp only at h
  split at h; · simp at h
  rename_i h1
  split at h; · simp at h
  rename_i h2
  split at h; · simp at h
  rename_i h3
  split at h; · simp at h
  rename_i h4
  split at h; · simp at h
  rename_i h5
  split at h; · simp at h
  rename_i h6
  split at h; · simp at h
  rename_i h7
  split at h; · simp at h
  rename_i h8
  clear h
  have h1' : nodupB (keys s.cache) = true := by simpa using h1
  have h2' : nodupB (keys s.index) = true := by simpa using h2
  have hk : ∀ k c, (k, c) ∈ s.cache → c.hash = k ∧ k ≠ "" := by
    intro k c hm
    simp only [List.any_eq_true, not_exists, not_and, Bool.or_eq_true, decide_eq_true_eq, not_or] at h3
    have := h3 (k, c) hm
    exact ⟨Classical.not_not.mp this.1, this.2⟩
  refine ⟨nodupB_sound _ h1', nodupB_sound _ h2', ?_, ?_, ?_, ?_⟩
  · intro k c hg
    exact hk k c (mem_of_get? hg)
  · intro n k
    simp only [List.any_eq_true, not_exists, not_and, Bool.and_eq_true, decide_eq_true_eq, Option.isNone_iff_eq_none] at h6 h7 h8
    cases hg : get? k s.cache with
    | some c =>
      simp only
      have hm := mem_of_get? hg
      by_cases hn : n ∈ c.names
      · have hnn : n ∈ keys s.index ++ List.flatMap (fun p => p.snd.names) s.cache :=
          List.mem_append_right _ (List.mem_flatMap.mpr ⟨(k, c), hm, hn⟩)
        have a := h7 (k, c) hm n hn
        have b := h8 (k, c) hm n hnn
        simp only at a b
        omega
      · rw [List.count_eq_zero.mpr hn]
        by_cases hnn : n ∈ keys s.index ++ List.flatMap (fun p => p.snd.names) s.cache
        · have b := h8 (k, c) hm n hnn
          simp only [List.count_eq_zero.mpr hn] at b
          omega
        · apply List.count_eq_zero.mpr
          intro hmem
          exact hnn (List.mem_append_left _ (idxGet_mem_keys hmem).1)
    | none =>
      simp only
      apply Classical.byContradiction
      intro hne
      have hmem : k ∈ hashesOf s n := by
        apply Classical.byContradiction
        intro hnm
        exact hne (List.count_eq_zero.mpr hnm)
      obtain ⟨hkn, l, hl, hkl⟩ := idxGet_mem_keys hmem
      have hkh : k ∈ keys s.cache ++ List.flatMap (fun p => p.snd) s.index :=
        List.mem_append_right _ (List.mem_flatMap.mpr ⟨(n, l), hl, hkl⟩)
      exact h6 k hkh hg n (List.mem_append_left _ hkn) hne
  · intro n l hg
    simp only [List.any_eq_true, not_exists, not_and, decide_eq_true_eq] at h4
    exact h4 (n, l) (mem_of_get? hg)
  · intro hc
    simp only [Bool.and_eq_true, decide_eq_true_eq, not_and, Nat.not_lt] at h5
    exact h5 hc

/-! ### why the handshake's write-back had to be guarded (defect D6) -/

def wA : Cert := { hash := "hA", names := ["a.example".toList], tags := [], managed := true, issuer := "i", ari := 0 }
def wB : Cert := { hash := "hB", names := ["b.example".toList], tags := [], managed := true, issuer := "i", ari := 0 }

/-- the unguarded write-back `cache[hash] = copy` does NOT preserve the invariant: after the
certificate was removed (here: evicted at capacity 1) it comes back without index entries
and beyond the capacity -/
theorem C12_unguarded_writeback_breaks_inv :
    ∃ s c, Inv s ∧ agrees s c = true ∧ ¬ Inv (hsWriteBackUnguarded c s) := by
  refine ⟨(insertNew wB (init 1)), wA, ?_, by decide, ?_⟩
  · exact inv_insertNew (inv_init 1) rfl (by decide) (by intro _; decide)
  · intro hI
    have := hI.capOK (by decide)
    revert this
    decide

/-! ### non-vacuity: concrete histories the theorems speak about -/

/-- two certificates sharing a name, capacity 2, then a third: one of them (the input
`victim`) is evicted; then `Remove`, `RemoveManaged`, a write-back to a removed hash -/
example :
    let c1 : Cert := { hash := "h1", names := ["a".toList, "b".toList, "a".toList], tags := ["t"], managed := true, issuer := "i", ari := 0 }
    let c2 : Cert := { hash := "h2", names := ["a".toList], tags := [], managed := false, issuer := "", ari := 0 }
    let c3 : Cert := { hash := "h3", names := ["b".toList], tags := [], managed := true, issuer := "j", ari := 0 }
    (run (init 2) [.add c1 none, .add c2 none, .add { c1 with tags := ["u"] } none, .add c3 (some "h2"),
        .ariWB "h1" 7, .remove ["h3", "zz"], .hsWB c3, .removeManaged [("a".toList, "")],
        .replace c1 c2 none]).map
      (fun s => (s.cache.map (·.1), s.cache.map (·.2.tags), hashesOf s "a".toList, hashesOf s "b".toList))
      = some (["h2"], [[]], ["h2"], []) := by decide

/-- the history above as far as the eviction: index lists in insertion order, duplicates kept -/
example :
    let c1 : Cert := { hash := "h1", names := ["a".toList, "b".toList, "a".toList], tags := ["t"], managed := true, issuer := "i", ari := 0 }
    let c2 : Cert := { hash := "h2", names := ["a".toList], tags := [], managed := false, issuer := "", ari := 0 }
    (run (init 2) [.add c1 none, .add c2 none, .add { c1 with tags := ["u", "t"] } none]).map
      (fun s => (hashesOf s "a".toList, (get? "h1" s.cache).map (·.tags), invCheck s))
      = some (["h1", "h1", "h2"], some ["t", "u"], none) := by decide

/-- an event that is not a behaviour of the code is rejected (wrong victim) -/
example : run (init 1) [.add wA none, .add wB (some "nope")] = none := by decide

/-- the executable invariant check rejects the state the unfixed write-back produced -/
example : invCheck (hsWriteBackUnguarded wA (insertNew wB (init 1))) = some "over-capacity" := by decide
example : invCheck (hsWriteBackUnguarded wA (insertNew wB (init 0))) = some "cached-cert-not-indexed" := by decide

end CM.Cache
