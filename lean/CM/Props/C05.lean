import CM.Proofs.Maintain
/-!
# C05 — maintenance renews what is due, once, and keeps serving valid certificates

All statements are about the executable model `CM/Model/Maintain.lean` (the definitions the
driver runs against the real code) and hold for **every** "due" predicate, every cache
content, every set of names and every history; the standing hypothesis `Inv s` (cache and
index agree, certificate identities are coherent, at most one job per job-manager name) is
itself proved for every reachable state (`C05_invariant`).

`classify due s e` is the queue the scan under the read lock puts entry `e` on
(`.skip` = not selected: unmanaged, on-demand configuration, or not due).
-/
namespace CM.Maintain

variable (due : Int → Cert → Bool)

/-! ### the invariant, for every history -/

/-- every state reachable by any history of events satisfies the invariant -/
theorem C05_invariant (life : Int) (evs : List Ev) : Inv (run due (init life) evs) :=
  run_inv due evs _ (inv_init life)

/-- … in particular at most one job per job-manager name is ever queued or running -/
theorem C05_one_job_per_name (life : Int) (evs : List Ev) (n : Name) :
    (run due (init life) evs).jobs.countP (named n) ≤ 1 :=
  (C05_invariant due life evs).one n

/-! ### managing a name -/

/-- a loadable certificate is loaded and cached: managing never obtains and never fails then -/
theorem C05_manage_loads_first (r d : Bool) :
    manageDecision false .ok r d = .cacheOnly ∨ manageDecision false .ok r d = .cacheThenRenew ∨
      manageDecision false .ok r d = .cacheThenForce := by
  cases r <;> cases d <;> simp [manageDecision]

/-- … and when the stored certificate is usable (not due, not revoked) managing the name is
exactly "load it into the cache": no issuer call, no storage write, no job -/
theorem C05_manage_loads_usable (s : State) (k : Name) (a : Bool) (c : Cert)
    (hod : s.od = false) (hlock : lockHeld s k = false) (hmode : s.mode k = .ok)
    (ham : alreadyManaged s k = false) (hst : s.store k = .ok c)
    (hdue : due s.now c = false) (hrev : revokedNow s c = false) :
    manage due s k a false = ({ s with cache := s.cache.add ⟨c, true⟩ }, .ok) := by
  have hsc : storedCert s k = c := by simp [storedCert, hst]
  unfold manage
  simp [hod, hlock, hmode, ham, loadRes, hst, hsc, hdue, hrev, manageDecision]

/-- a certificate is obtained only when there is none in storage -/
theorem C05_manage_obtains_only_if_absent (am : Bool) (l : LoadRes) (r d : Bool) :
    manageDecision am l r d = .obtainThenCache ↔ am = false ∧ l = .notexist := by
  cases am <;> cases l <;> cases r <;> cases d <;> simp [manageDecision]

/-- a certificate is renewed only when the stored one is due, force-renewed only when revoked -/
theorem C05_manage_renews_only_if_due (am : Bool) (l : LoadRes) (r d : Bool) :
    (manageDecision am l r d = .cacheThenRenew ↔ am = false ∧ l = .ok ∧ r = false ∧ d = true) ∧
    (manageDecision am l r d = .cacheThenForce ↔ am = false ∧ l = .ok ∧ r = true) := by
  cases am <;> cases l <;> cases r <;> cases d <;> simp [manageDecision]

/-- the code under the C01 lock reaches the issuer only when it has to: obtaining with nothing
in storage; renewing a stored bundle that is due (or unparseable), or forced -/
theorem C05_issuer_only_when_needed (s : State) (k : Name) (core : Core)
    (h : (attempt due s k core).2.log ≠ s.log) :
    (core = .obtain ∧ s.store k = .none) ∨
      (∃ force, core = .renew force ∧ s.store k ≠ .none ∧ (force = true ∨ storedDue due s.now (s.store k) = true)) := by
  unfold attempt at h
  cases hn : needIssue due s k core with
  | none => rw [hn] at h; exact absurd rfl h
  | some b =>
    cases b with
    | false => rw [hn] at h; exact absurd rfl h
    | true =>
      unfold needIssue at hn
      cases core with
      | obtain =>
        left
        cases hs : s.store k <;> rw [hs] at hn <;> simp at hn ⊢
      | renew force =>
        right
        refine ⟨force, rfl, ?_⟩
        cases hs : s.store k with
        | none => rw [hs] at hn; simp at hn
        | corrupt => simp [storedDue]
        | ok c =>
          rw [hs] at hn
          simp only [Option.some.injEq, Bool.or_eq_true] at hn
          exact ⟨by simp, hn⟩

/-- managing a name contacts the issuer only if storage has no bundle for it, or the stored
certificate is due or revoked -/
theorem C05_manage_issues_only_if_needed (s : State) (k : Name) (a f : Bool)
    (h : (manage due s k a f).1.log ≠ s.log) :
    s.store k = .none ∨ ∃ c, s.store k = .ok c ∧ (due s.now c = true ∨ revokedNow s c = true) := by
  unfold manage at h
  split at h
  · exact absurd rfl h
  split at h
  · exact absurd rfl h
  split at h
  · exact absurd rfl h
  simp only at h
  split at h
  · exact absurd rfl h
  · exact absurd rfl h
  · exact absurd rfl h
  · rename_i hd
    have := (C05_manage_obtains_only_if_absent _ _ _ _).mp hd
    left
    have hl := this.2
    unfold loadRes at hl
    split at hl
    · cases hl
    · cases hs : s.store k <;> rw [hs] at hl <;> simp at hl ⊢
  · rename_i hd
    have := ((C05_manage_renews_only_if_due _ _ _ _).1.mp hd)
    exact Or.inr ⟨_, storedCert_eq s k f this.2.1, Or.inl this.2.2.2⟩
  · rename_i hd
    have := ((C05_manage_renews_only_if_due _ _ _ _).2.mp hd)
    exact Or.inr ⟨_, storedCert_eq s k f this.2.1, Or.inr this.2.2⟩

/-! ### the maintenance pass -/

/-- **untouched.** A cache entry the scan does not select (unmanaged, on-demand
configuration, or not due) is still there after the pass, in every index row it was in -/
theorem C05_untouched {s : State} (h : Inv s) (e : Entry) (he : e ∈ s.cache.entries)
    (hskip : classify due s e = .skip) :
    e ∈ (pass due s).cache.entries ∧ ∀ n, e.cert.id ∈ s.cache.index n → e.cert.id ∈ (pass due s).cache.index n :=
  ⟨(pass_keeps due h.wf e he hskip).1 e he rfl, (pass_keeps due h.wf e he hskip).2⟩

/-- … and the pass calls the issuer only for first names of entries it put on the renew
queue (managed, not on-demand, due, stored version due or unreadable): never "for" an
untouched certificate -/
theorem C05_untouched_no_issuer_call (s : State) :
    ∃ l, (pass due s).log = s.log ++ l ∧ ∀ le ∈ l, le.inst = 0 ∧
      ∃ e ∈ s.cache.entries, classify due s e = .renew ∧ le.subj = e.cert.names.headD 0 :=
  pass_log due s

/-- a pass that selects nothing changes nothing (cache, storage, jobs, issuer log) -/
theorem C05_quiet_pass (s : State) (h : ∀ e ∈ s.cache.entries, classify due s e = .skip) : pass due s = s :=
  pass_quiet due s h

/-- **adopt.** A due certificate whose stored version `v` is not due: after the pass `v` is in
the index row of each of its names, the old hash is in no row and no entry, storage still
holds `v`, and the pass made no issuer call for that subject -/
theorem C05_adopt {s : State} (h : Inv s) (e : Entry) (he : e ∈ s.cache.entries) (k : Name)
    (rest : List Name) (hn : e.cert.names = k :: rest) (hcl : classify due s e = .reload)
    (v : Cert) (hv : s.store k = .ok v) (hown : e.cert.id.name = k) :
    (∀ n ∈ v.names, v.id ∈ (pass due s).cache.index n) ∧
      (∀ n, e.cert.id ∉ (pass due s).cache.index n) ∧ (∀ e' ∈ (pass due s).cache.entries, e'.cert.id ≠ e.cert.id) ∧
      (pass due s).log.filter (fun le => le.subj == k) = s.log.filter (fun le => le.subj == k) ∧
      (pass due s).store k = .ok v := by
  obtain ⟨⟨a1, a2, a3⟩, b, c⟩ := pass_adopts due h e he k rest hn hcl v hv hown
  exact ⟨a1, a3, a2, b, c⟩

/-- the reload-queue classification is exactly "managed, not on-demand, due, stored version not due" -/
theorem C05_adopt_condition {s : State} {e : Entry} (h : classify due s e = .reload) :
    e.managed = true ∧ s.od = false ∧ due s.now e.cert = true ∧
      ∃ k rest v, e.cert.names = k :: rest ∧ s.store k = .ok v ∧ due s.now v = false :=
  classify_reload due h

/-- **renew once.** A due certificate whose stored version is due too, issuer working, no job
for its name yet, the only queued certificate with that first name: the pass makes exactly
one issuer call for the subject — a successful one —, storage holds the new version, the new
version is in the index row of its name, the old hash is gone, and the job has finished -/
theorem C05_renew_once {s : State} (h : Inv s) (e : Entry) (he : e ∈ s.cache.entries) (k : Name)
    (rest : List Name) (hn : e.cert.names = k :: rest) (hcl : classify due s e = .renew)
    (hst : s.store k ≠ .none) (hmode : s.mode k = .ok) (hjobs : s.jobs.countP (named k) = 0)
    (honly : ∀ e' ∈ s.cache.entries, classify due s e' = .renew → e'.cert.names.headD 0 = k → e' = e)
    (hown : e.cert.id.name = k) :
    (pass due s).store k = .ok (newCert s k) ∧
      (pass due s).log.filter (fun le => le.subj == k) =
        s.log.filter (fun le => le.subj == k) ++ [⟨0, k, .ok (s.ver k + 1)⟩] ∧
      (newCert s k).id ∈ (pass due s).cache.index k ∧
      (∀ n, e.cert.id ∉ (pass due s).cache.index n) ∧
      (pass due s).jobs.countP (named k) = 0 := by
  obtain ⟨a, b, ⟨c1, _, c3⟩, d⟩ := pass_renews_once due h e he k rest hn hcl hst hmode hjobs honly hown
  exact ⟨a, b, c1 k (by simp [newCert]), c3, d⟩

/-- … **whatever the number of overlapping passes**: while a job named `k` is queued or
running (blocked in the issuer, or waiting to retry), any number of further passes leaves
exactly that job in the table and makes no issuer call for `k` -/
theorem C05_renew_once_overlap {s : State} (h : Inv s) (k : Name) (hjob : 0 < s.jobs.countP (named k))
    (n : Nat) :
    (passN due n s).jobs.countP (named k) = 1 ∧
      (passN due n s).log.filter (fun le => le.subj == k) = s.log.filter (fun le => le.subj == k) := by
  obtain ⟨a, b⟩ := passN_overlap due n s k hjob
  have := h.one k
  exact ⟨by rw [a]; omega, b⟩

/-- **failure keeps.** A job that does not end well (issuer refused; issuer unavailable, be it
with retries to come or at the end of the retry window; or still blocked) leaves cache and
index exactly as they were — unless the configuration is on-demand (pass job) or the
certificate was revoked (forced renewal) -/
theorem C05_failure_keeps (s : State) (j : Job) (r : Res) (hr : r ≠ .done)
    (hod : ∀ old, j.kind = .pass old → s.od = false) (hforce : ∀ c, j.kind ≠ .mforce c) :
    (settle s j r).cache = s.cache :=
  settle_fail_cache s j r hr hod hforce

/-- … for a whole pass: a due certificate whose issuer does not deliver is still in the cache
and in all its index rows after the pass -/
theorem C05_failure_keeps_pass {s : State} (h : Inv s) (e : Entry) (he : e ∈ s.cache.entries) (k : Name)
    (rest : List Name) (hn : e.cert.names = k :: rest) (hcl : classify due s e = .renew)
    (hmode : s.mode k ≠ .ok)
    (honly : ∀ e' ∈ s.cache.entries, classify due s e' = .renew → e'.cert.names.headD 0 = k → e' = e) :
    e ∈ (pass due s).cache.entries ∧ ∀ n, e.cert.id ∈ s.cache.index n → e.cert.id ∈ (pass due s).cache.index n :=
  ⟨(pass_failure_keeps due h e he k rest hn hcl hmode honly).1 e he rfl,
   (pass_failure_keeps due h e he k rest hn hcl hmode honly).2⟩

/-- a revoked certificate is taken out of the cache only when its replacement failed; when
the forced renewal succeeded it is replaced by what storage then holds -/
theorem C05_revoked_removed_only_on_failure (s : State) (j : Job) (c : Cert) (hk : j.kind = .mforce c) :
    (settle s j .hardErr).cache = s.cache.remove c ∧
      (∀ w, s.store j.subj = .ok w → (settle s j .done).cache = s.cache.replace c ⟨w, true⟩) := by
  constructor
  · simp [settle, finishFail, hk]
  · intro w hw
    simp [settle, finishOk, hk, reload, loadEntry, hw]

/-- what `GetCertificate` serves when every hash in the name's row is `v` -/
theorem C05_served_of_row (now : Int) (c : Cache) (n : Name) (v : CertId)
    (hall : ∀ e ∈ c.row n, e.cert.id = v) (hne : c.row n ≠ []) : served now c n = some v := by
  unfold served
  cases hs : select now (c.row n) with
  | none => exact absurd (select_none now _ hs) hne
  | some x => simp [hall x (select_mem now _ x hs)]

/-! ### non-vacuity: concrete histories satisfying the hypotheses above -/

/-- "due" = in the last third of the validity -/
def dueEx (now : Int) (c : Cert) : Bool := decide (3 * (c.na - now) < c.na - c.nb)

/-- names 0 and 1 managed at time 0 (lifetime 90), an unmanaged short-lived certificate for
name 2; at time 70 another instance renews name 1 -/
def exS : State :=
  run dueEx (init 90) [.manage 0 false false, .manage 1 true false, .unm 2 5, .adv 70, .oren 1]

def exE0 : Entry := ⟨⟨⟨0, 1⟩, [0], 0, 90⟩, true⟩
def exE1 : Entry := ⟨⟨⟨1, 1⟩, [1], 0, 90⟩, true⟩
def exU : Entry := ⟨⟨⟨2, 1⟩, [2], 0, 5⟩, false⟩
def exV1 : Cert := ⟨⟨1, 2⟩, [1], 70, 160⟩

example : Inv exS := C05_invariant dueEx 90 _
example : exS.cache.entries = [exE0, exE1, exU] := by decide
example : classify dueEx exS exE0 = .renew ∧ classify dueEx exS exE1 = .reload ∧ classify dueEx exS exU = .skip := by
  decide
example : exS.store 1 = .ok exV1 ∧ dueEx exS.now exV1 = false ∧ dueEx exS.now exE1.cert = true := by decide

-- C05_untouched: the expired unmanaged certificate stays
example : exU ∈ (pass dueEx exS).cache.entries :=
  (C05_untouched dueEx (C05_invariant dueEx 90 _) exU (by decide) (by decide)).1

-- C05_adopt: name 1 is served by the version the other instance stored, without an issuer call
example : exV1.id ∈ (pass dueEx exS).cache.index 1 ∧ exE1.cert.id ∉ (pass dueEx exS).cache.index 1 :=
  have h := C05_adopt dueEx (C05_invariant dueEx 90 _) exE1 (by decide) 1 [] rfl (by decide) exV1 (by decide) rfl
  ⟨h.1 1 (by decide), h.2.1 1⟩

-- C05_renew_once: name 0 is renewed with one successful issuer call
example : (pass dueEx exS).store 0 = .ok (newCert exS 0) :=
  (C05_renew_once dueEx (C05_invariant dueEx 90 _) exE0 (by decide) 0 [] rfl (by decide) (by decide) (by decide)
    (by decide) (by decide) rfl).1

example : served (pass dueEx exS).now (pass dueEx exS).cache 0 = some ⟨0, 2⟩ ∧
    served (pass dueEx exS).now (pass dueEx exS).cache 1 = some ⟨1, 2⟩ ∧
    served (pass dueEx exS).now (pass dueEx exS).cache 2 = some ⟨2, 1⟩ := by decide

/-- the renewal of name 0 hangs inside the issuer -/
def exH : State := run dueEx (init 90) [.manage 0 false false, .adv 70, .mode 0 .hold, .pass]

example : 0 < exH.jobs.countP (named 0) := by decide
example : (passN dueEx 5 exH).jobs.countP (named 0) = 1 :=
  (C05_renew_once_overlap dueEx (C05_invariant dueEx 90 _) 0 (by decide) 5).1
example : ((passN dueEx 5 exH).log.filter (fun le => le.subj == 0)).length = 2 := by decide  -- obtain, then the one pending call

/-- the issuer refuses name 0 -/
def exF : State := run dueEx (init 90) [.manage 0 false false, .adv 70, .mode 0 .hard]

example : exE0 ∈ (pass dueEx exF).cache.entries :=
  (C05_failure_keeps_pass dueEx (C05_invariant dueEx 90 _) exE0 (by decide) 0 [] rfl (by decide) (by decide)
    (by decide)).1
example : (pass dueEx exF).log.length = exF.log.length + 1 := by decide   -- it did try, once

-- C05_manage_loads_usable: a fresh instance manages name 1 after the other instance stored it
example : (manage dueEx { exS with cache := Cache.empty } 1 false false).1.log = exS.log := by
  rw [C05_manage_loads_usable dueEx _ 1 false exV1 (by decide) (by decide) (by decide) (by decide) (by decide)
    (by decide) (by decide)]

-- C05_quiet_pass: at time 10 nothing is selected
example : ∀ e ∈ (run dueEx (init 90) [.manage 0 false false, .adv 10]).cache.entries,
    classify dueEx (run dueEx (init 90) [.manage 0 false false, .adv 10]) e = .skip := by decide

-- with the C04 decision as the predicate: a 90-day certificate is not due at day 60, due one second later
example : dueC04 (60 * 86400) ⟨⟨0, 1⟩, [0], 0, 90 * 86400⟩ = false ∧
    dueC04 (60 * 86400 + 1) ⟨⟨0, 1⟩, [0], 0, 90 * 86400⟩ = true := by decide

end CM.Maintain
