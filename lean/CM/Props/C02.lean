import CM.Model.Handshake
/-!
# C02 — on-demand TLS never issues or loads for names the policy does not permit

All statements are about the effect program `getCert c f` (one handshake,
`getCertDuringHandshake(ctx, hello, true)`) and `reentry c f own` (the code a handshake runs
when it re-enters with loading disabled after a wait), for EVERY configuration class, every
name, every allow-list and every oracle (= every behaviour of cache, storage, policy
function, issuer, managers, other goroutines). `decide` is used only on the finite program
trees, one per configuration class; `allPaths_sound` lifts it to all oracles.
-/
namespace CM.Props.C02
open CM.Prog CM.Handshake

/-- the facts of a handshake's name that the program depends on (DESIGN §9: the policy is
the decision function if set, otherwise the allow-list, enforced only when non-empty) -/
def factsOf (idnaOK : Bool) (name : List Char) (allowlist : List (List Char)) : Facts :=
  ⟨idnaOK, qualifies name, allowlist.isEmpty || allowlist.contains name⟩

/-! ## the finite trees (one `decide` each; the quantified Booleans are the class) -/

set_option maxRecDepth 100000 in
theorem tree_gated : ∀ (od fn mg af ar i q al : Bool),
    gated G (reify (getCert ⟨od, fn, mg, af, ar⟩ ⟨i, q, al⟩)) false = true := by decide +kernel

set_option maxRecDepth 100000 in
theorem tree_gated_reentry : ∀ (od fn mg af ar i q al own : Bool),
    gated G (reify (reentry ⟨od, fn, mg, af, ar⟩ ⟨i, q, al⟩ own)) false = true := by decide +kernel

set_option maxRecDepth 100000 in
theorem tree_off : ∀ (fn mg af ar i q al : Bool),
    never isIssue (reify (getCert ⟨false, fn, mg, af, ar⟩ ⟨i, q, al⟩)) = true := by decide +kernel

set_option maxRecDepth 100000 in
theorem tree_off_reentry : ∀ (od fn mg af ar i q al own : Bool),
    never guardedEff (reify (reentry ⟨od, fn, mg, af, ar⟩ ⟨i, q, al⟩ own)) = true := by decide +kernel

set_option maxRecDepth 100000 in
theorem tree_unqualified : ∀ (od fn mg af ar i al : Bool),
    never guardedEff (reify (getCert ⟨od, fn, mg, af, ar⟩ ⟨i, false, al⟩)) = true := by decide +kernel

set_option maxRecDepth 100000 in
theorem tree_not_allowed : ∀ (mg af ar i q : Bool),
    never guardedEff (reify (getCert ⟨true, false, mg, af, ar⟩ ⟨i, q, false⟩)) = true := by decide +kernel

/-- the decision function is consulted only for qualifying names, with on-demand TLS enabled
and a decision function configured -/
def isGate : Eff → Bool
  | .gate => true
  | _ => false

/-- a decision taken without the decision function, with verdict *permit* -/
def isStaticPermit : Eff → Bool
  | .allow true => true
  | _ => false

set_option maxRecDepth 100000 in
theorem tree_gate_only_func : ∀ (od fn mg af ar i q al : Bool), (od && fn && q) = false →
    never isGate (reify (getCert ⟨od, fn, mg, af, ar⟩ ⟨i, q, al⟩)) = true := by decide +kernel

set_option maxRecDepth 100000 in
theorem tree_static_permit : ∀ (od fn mg af ar i q al : Bool), (q && (!od || (!fn && al))) = false →
    never isStaticPermit (reify (getCert ⟨od, fn, mg, af, ar⟩ ⟨i, q, al⟩)) = true := by decide +kernel

/-! ## C02_gated -/

/-- **C02_gated.** In every run of a handshake — any configuration, any name, any allow-list,
any behaviour of the environment — every issuer call and every certificate load, in the
handshake's own thread and in every goroutine it starts, is performed while the most recent
policy verdict *of the same thread* is "permit" (a goroutine starts without a permit). -/
theorem C02_gated (c : Cfg) (idnaOK : Bool) (name : List Char) (allowlist : List (List Char))
    (o : Nat → Bool) (n : Nat) :
    outGated G (run (reify (getCert c (factsOf idnaOK name allowlist))) o n) false = true := by
  obtain ⟨od, fn, mg, af, ar⟩ := c
  exact gated_sound G _ false (tree_gated od fn mg af ar idnaOK _ _) o n

/-- the same for the code run on re-entry after a wait (`reenter` events of `C02_gated`'s
traces stand for such segments; see `C02_splice`) -/
theorem C02_gated_reentry (c : Cfg) (idnaOK : Bool) (name : List Char) (allowlist : List (List Char))
    (own : Bool) (o : Nat → Bool) (n : Nat) :
    outGated G (run (reify (reentry c (factsOf idnaOK name allowlist) own)) o n) false = true := by
  obtain ⟨od, fn, mg, af, ar⟩ := c
  exact gated_sound G _ false (tree_gated_reentry od fn mg af ar idnaOK _ _ own) o n

/-- **C02_gated, declarative form.** Whenever a thread's trace splits as
`pre ++ (e, r) :: post` with `e` an issuer call or a certificate load, `pre` contains a
policy verdict *permit* that is the last verdict in `pre`. -/
theorem C02_gated_spec (c : Cfg) (idnaOK : Bool) (name : List Char) (allowlist : List (List Char))
    (o : Nat → Bool) (n : Nat) (t : Trace Eff)
    (ht : t ∈ (run (reify (getCert c (factsOf idnaOK name allowlist))) o n).threads)
    (pre post : Trace Eff) (e : Eff) (r : Bool) (hs : t = pre ++ (e, r) :: post)
    (he : isIssue e = true ∨ isLoad e = true) : PermitBefore G pre := by
  have h := C02_gated c idnaOK name allowlist o n
  simp only [outGated, Bool.and_eq_true, List.all_eq_true] at h
  have hg : G.guarded e = true := by
    show guardedEff e = true
    unfold guardedEff
    rcases he with he | he <;> simp [he]
  simp only [Out.threads, List.mem_cons] at ht
  rcases ht with rfl | ht
  · exact traceGated_spec G _ h.1 pre post e r hs hg
  · exact traceGated_spec G _ (h.2 t ht) pre post e r hs hg

/-- a verdict *permit* is what it says: either the decision function answered "permit", or
the decision was taken without it (`allow true`) — and see `C02_static_permit_means` -/
theorem C02_permit_events (e : Eff) (r : Bool) (h : G.verdict e r = some true) :
    (e = .gate ∧ r = true) ∨ e = .allow true := by
  cases e <;> simp [G, verdictOf] at h
  · exact Or.inl ⟨rfl, h⟩
  · exact Or.inr (by rw [h])

/-- a decision "permit" taken without the decision function occurs only for a qualifying name
and either with on-demand TLS off (where only issuance is at stake: `C02_off`) or with no
decision function and an allow-list that is empty or contains the name -/
theorem C02_static_permit_means (c : Cfg) (idnaOK : Bool) (name : List Char) (allowlist : List (List Char))
    (o : Nat → Bool) (n : Nat) (t : Trace Eff)
    (ht : t ∈ (run (reify (getCert c (factsOf idnaOK name allowlist))) o n).threads)
    (x : Eff × Bool) (hx : x ∈ t) (hp : x.1 = .allow true) :
    qualifies name = true ∧ (c.onDemand = true → c.func = false ∧ (allowlist = [] ∨ name ∈ allowlist)) := by
  obtain ⟨od, fn, mg, af, ar⟩ := c
  have key : (qualifies name && (!od || (!fn && (allowlist.isEmpty || allowlist.contains name)))) = true := by
    cases hk : (qualifies name && (!od || (!fn && (allowlist.isEmpty || allowlist.contains name))))
    · have hn := never_sound isStaticPermit _ (tree_static_permit od fn mg af ar idnaOK _ _ hk) o n
      have := outNever_mem isStaticPermit _ hn t ht x hx
      rw [hp] at this
      simp [isStaticPermit] at this
    · rfl
  simp only [Bool.and_eq_true, Bool.or_eq_true, Bool.not_eq_true', List.isEmpty_iff,
    List.contains_iff_mem] at key
  refine ⟨key.1, ?_⟩
  intro hod
  simp only at hod
  rcases key.2 with h | h
  · rw [hod] at h; cases h
  · exact h

/-- the decision function is called only with on-demand TLS enabled, a decision function
configured, and a qualifying name -/
theorem C02_gate_means (c : Cfg) (idnaOK : Bool) (name : List Char) (allowlist : List (List Char))
    (o : Nat → Bool) (n : Nat) (t : Trace Eff)
    (ht : t ∈ (run (reify (getCert c (factsOf idnaOK name allowlist))) o n).threads)
    (x : Eff × Bool) (hx : x ∈ t) (hp : x.1 = .gate) :
    c.onDemand = true ∧ c.func = true ∧ qualifies name = true := by
  obtain ⟨od, fn, mg, af, ar⟩ := c
  have key : (od && fn && qualifies name) = true := by
    cases hk : (od && fn && qualifies name)
    · have hn := never_sound isGate _ (tree_gate_only_func od fn mg af ar idnaOK _ (allowlist.isEmpty || allowlist.contains name) hk) o n
      have := outNever_mem isGate _ hn t ht x hx
      rw [hp] at this
      simp [isGate] at this
    · rfl
  simpa [Bool.and_eq_true, and_assoc] using key

/-- **C02_qualifying_only.** For a name that does not qualify syntactically no issuer call
and no certificate load happens at all. -/
theorem C02_qualifying_only (c : Cfg) (idnaOK : Bool) (name : List Char) (allowlist : List (List Char))
    (hq : qualifies name = false) (o : Nat → Bool) (n : Nat) :
    outNever guardedEff (run (reify (getCert c (factsOf idnaOK name allowlist))) o n) = true := by
  obtain ⟨od, fn, mg, af, ar⟩ := c
  unfold factsOf
  rw [hq]
  exact never_sound guardedEff _ (tree_unqualified od fn mg af ar idnaOK _) o n

/-- **C02_allowlist.** On-demand TLS without a decision function and with a non-empty
allow-list not containing the name: no issuer call and no certificate load. -/
theorem C02_allowlist (c : Cfg) (idnaOK : Bool) (name : List Char) (allowlist : List (List Char))
    (hod : c.onDemand = true) (hf : c.func = false) (hne : allowlist ≠ []) (hnm : name ∉ allowlist)
    (o : Nat → Bool) (n : Nat) :
    outNever guardedEff (run (reify (getCert c (factsOf idnaOK name allowlist))) o n) = true := by
  obtain ⟨od, fn, mg, af, ar⟩ := c
  simp only at hod hf
  subst hod hf
  have : (allowlist.isEmpty || allowlist.contains name) = false := by
    simp [hne, hnm]
  unfold factsOf
  rw [this]
  exact never_sound guardedEff _ (tree_not_allowed mg af ar idnaOK _) o n

/-- **C02_off.** When on-demand TLS is not enabled, a handshake never causes any issuance. -/
theorem C02_off (c : Cfg) (hod : c.onDemand = false) (idnaOK : Bool) (name : List Char)
    (allowlist : List (List Char)) (o : Nat → Bool) (n : Nat) :
    outNever isIssue (run (reify (getCert c (factsOf idnaOK name allowlist))) o n) = true := by
  obtain ⟨od, fn, mg, af, ar⟩ := c
  simp only at hod
  subst hod
  exact never_sound isIssue _ (tree_off fn mg af ar idnaOK _ _) o n

/-- a re-entry (loading disabled) performs no issuer call and no certificate load at all -/
theorem C02_reentry_inert (c : Cfg) (f : Facts) (own : Bool) (o : Nat → Bool) (n : Nat) :
    outNever guardedEff (run (reify (reentry c f own)) o n) = true := by
  obtain ⟨od, fn, mg, af, ar⟩ := c
  obtain ⟨i, q, al⟩ := f
  exact never_sound guardedEff _ (tree_off_reentry od fn mg af ar i q al own) o n

/-- **C02_splice.** A `reenter` event resets the gating flag, so a trace in which it is
replaced by the (gated) trace of the re-entry it stands for is gated again: the statement
of `C02_gated` carries over to the fully expanded trace of a handshake. -/
theorem C02_splice (t1 t2 seg : Trace Eff) (r g : Bool)
    (h : traceGated G (t1 ++ (Eff.reenter, r) :: t2) g = true) (hs : traceGated G seg false = true) :
    traceGated G (t1 ++ seg ++ t2) g = true :=
  traceGated_splice G t1 t2 seg (Eff.reenter, r) g rfl h hs

/-! ## C02_qualifies -/

/-- what the property calls a malformed subject -/
def Malformed (s : List Char) : Prop :=
  (∀ c ∈ s, isSpace c = true) ∨                      -- empty after trimming white space
  s.head? = some '.' ∨ s.getLast? = some '.' ∨        -- leading / trailing dot
  ('*' ∈ s ∧ ¬ (s = ['*'] ∨ ∃ t, s = '*' :: '.' :: t)) ∨  -- `*` other than as the whole left-most label
  (∃ c ∈ s, c ∈ forbidden)                            -- a forbidden character

theorem startsWith_dot (s : List Char) : startsWith ['.'] s = true ↔ s.head? = some '.' := by
  cases s with
  | nil => simp [startsWith, List.isPrefixOf]
  | cons a t =>
    simp only [startsWith, List.isPrefixOf, Bool.and_true, beq_iff_eq, List.head?_cons, Option.some.injEq]
    exact eq_comm

theorem startsWith_stardot (s : List Char) : startsWith ['*', '.'] s = true ↔ ∃ t, s = '*' :: '.' :: t := by
  unfold startsWith
  constructor
  · intro h
    obtain ⟨t, ht⟩ := List.isPrefixOf_iff_prefix.1 h
    exact ⟨t, by simpa using ht.symm⟩
  · rintro ⟨t, rfl⟩
    exact List.isPrefixOf_iff_prefix.2 ⟨t, rfl⟩

/-- **C02_qualifies.** The model of `SubjectQualifiesForCert` rejects exactly the malformed
subjects. -/
theorem C02_qualifies (s : List Char) : qualifies s = true ↔ ¬ Malformed s := by
  unfold qualifies Malformed endsWithDot
  simp only [Bool.and_eq_true, Bool.not_eq_true', Bool.or_eq_true, List.all_eq_true,
    List.any_eq_true, List.contains_iff_mem, decide_eq_true_eq, not_or, ← startsWith_dot,
    ← startsWith_stardot]
  constructor
  · rintro ⟨⟨⟨⟨h1, h2⟩, h3⟩, h4⟩, h5⟩
    refine ⟨?_, ?_, ?_, ?_, ?_⟩
    · intro hall
      have : (s.all isSpace) = true := List.all_eq_true.2 hall
      rw [this] at h1; cases h1
    · rw [h2]; simp
    · simpa using h3
    · rintro ⟨hm, hn1, hn2⟩
      rcases h4 with (h | h) | h
      · exact absurd hm (by simpa using h)
      · exact hn2 h
      · exact hn1 h
    · rintro ⟨c, hc, hf⟩
      have : (s.any fun c => forbidden.contains c) = true := List.any_eq_true.2 ⟨c, hc, by simpa using hf⟩
      rw [this] at h5; cases h5
  · rintro ⟨h1, h2, h3, h4, h5⟩
    refine ⟨⟨⟨⟨?_, ?_⟩, ?_⟩, ?_⟩, ?_⟩
    · cases hall : s.all isSpace
      · rfl
      · exact absurd (List.all_eq_true.1 hall) h1
    · cases hs : startsWith ['.'] s
      · rfl
      · exact absurd hs h2
    · simpa using h3
    · by_cases hm : '*' ∈ s
      · by_cases ha : startsWith ['*', '.'] s = true
        · exact Or.inl (Or.inr ha)
        · by_cases hb : s = ['*']
          · exact Or.inr hb
          · exact absurd ⟨hm, hb, ha⟩ h4
      · exact Or.inl (Or.inl (by simpa using hm))
    · cases ha : s.any fun c => forbidden.contains c
      · rfl
      · obtain ⟨c, hc, hf⟩ := List.any_eq_true.1 ha
        exact absurd ⟨c, hc, by simpa using hf⟩ h5

/-! ## non-vacuity -/

/-- responses from a list, `false` beyond its end -/
def orc (l : List Bool) : Nat → Bool := fun i => l.getD i false

def cfgFunc : Cfg := ⟨true, true, false, false, false⟩

/-- cache miss, nobody loading, decision function permits, nothing in storage, nobody
obtaining, storage check, lock, re-check, issuer ok, no previous bundle, saved, bundle loaded, not revoked, not
due: the trace contains `gate ↦ permit` followed by an `issue` and two `load`s, and the
handshake answers with the new certificate -/
example :
    let r := run (reify (getCert cfgFunc ⟨true, true, true⟩))
      (orc [false, false, true, true, false, true, false, true, false, true, false, true, false, true, false, true, true, true, true, false, false]) 0
    r.main.any (fun x => isIssue x.1) = true ∧ r.main.contains (Eff.gate, true) = true ∧
      r.res = Code.enc Res.new := by decide

/-- cached managed certificate, due, still valid, nobody renewing: the handshake answers with
the current certificate at once and a goroutine asks the policy and renews -/
example :
    let r := run (reify (getCert cfgFunc ⟨true, true, true⟩))
      (orc [true, true, false, true, true, true, false, true, true, true, true, true, true, true, true, true]) 0
    r.res = Code.enc Res.cur ∧ r.kids.any (fun t => t.any (fun x => isIssue x.1)) = true ∧
      r.main.all (fun x => !guardedEff x.1) = true := by decide

/-- on-demand off, cache almost full: the bundle is loaded from storage (loads happen), but
nothing is issued -/
example :
    let r := run (reify (getCert ⟨false, false, false, true, false⟩ ⟨true, true, true⟩))
      (orc [false, false, true, true, true, false, false]) 0
    r.main.any (fun x => isLoad x.1) = true ∧ outNever isIssue r = true := by decide

example : qualifies "example.com".toList = true := by decide
example : qualifies "*.example.com".toList = true := by decide
example : qualifies "*".toList = true := by decide
example : qualifies ".example.com".toList = false := by decide
example : qualifies "example.com.".toList = false := by decide
example : qualifies "a*.example.com".toList = false := by decide
example : qualifies "ex ample.com".toList = false := by decide
example : qualifies " \t".toList = false := by decide
example : qualifies "a;b".toList = false := by decide
example : Malformed "sub.*.example.com".toList := by
  refine Or.inr (Or.inr (Or.inr (Or.inl ⟨by decide, ?_⟩)))
  rintro (h | ⟨t, h⟩) <;> simp at h

end CM.Props.C02
