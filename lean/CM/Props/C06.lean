import CM.Model.Bundle
/-!
# C06 — a reported success leaves a complete, matching, reloadable bundle

Over abstract key identifiers: every key, every serial, every prior storage content.
-/
namespace CM.Bundle

theorem obtain_eq (e : Env) (s : Slots) (h : hasAll s = false) :
    obtain e s = { key := some (obtainKey e s), crt := some { pub := obtainKey e s, ser := e.ser, nb := e.now },
                   mta := some e.ser, compromised := s.compromised } := by
  simp only [obtain, h]
  simp [applyFirst, saveWrites, applyW]

/-- **Complete, matching, reloadable** (obtain): when `obtainCert` does its work (storage
did not already hold all three keys) and reports success, all three keys exist, loading
yields exactly the key it used and the certificate the issuer returned, and the key is the
leaf's. -/
theorem C06_obtain_complete (e : Env) (s : Slots) (h : hasAll s = false) :
    hasAll (obtain e s) = true ∧
    load (obtain e s) = .ok (obtainKey e s) { pub := obtainKey e s, ser := e.ser, nb := e.now } ∧
    (obtain e s).mta = some e.ser := by
  rw [obtain_eq e s h]
  simp [hasAll, load]

/-- … and when storage already holds all three keys, obtain is a no-op -/
theorem C06_obtain_noop (e : Env) (s : Slots) (h : hasAll s = true) : obtain e s = s := by
  simp [obtain, h]

/-- **Complete, matching, reloadable** (renew) -/
theorem C06_renew_complete (e : Env) (s : Slots) (k0 : KeyId) (c0 : Crt) (h : load s = .ok k0 c0) :
    ∃ s', renew e s = some s' ∧ hasAll s' = true ∧
      load s' = .ok (renewKey e k0) { pub := renewKey e k0, ser := e.ser, nb := e.now } ∧
      s'.mta = some e.ser := by
  have hr : renew e s = some (applyFirst 3 (saveWrites (renewKey e k0)
      { pub := renewKey e k0, ser := e.ser, nb := e.now }) s) := by
    simp only [renew, h]
  refine ⟨_, hr, ?_⟩
  simp [applyFirst, saveWrites, applyW, hasAll, load]

/-- renew reports success only if there was a loadable bundle -/
theorem C06_renew_needs_bundle (e : Env) (s s' : Slots) (h : renew e s = some s') :
    ∃ k c, load s = .ok k c := by
  unfold renew at h
  split at h
  · rename_i k c hl; exact ⟨k, c, hl⟩
  · cases h

/-- **Fresh key**: unless key reuse is configured every issuance uses the generator's key -/
theorem C06_fresh_key (e : Env) (s : Slots) (hr : e.reuse = false) :
    obtainKey e s = e.fresh ∧ ∀ old, renewKey e old = e.fresh := by
  simp [obtainKey, renewKey, hr]

/-- **Reuse keeps the stored key** -/
theorem C06_reuse_keeps (e : Env) (s : Slots) (k : KeyId) (hr : e.reuse = true) (hk : s.key = some k) :
    obtainKey e s = k ∧ renewKey e k = k := by
  simp [obtainKey, renewKey, hr, hk]

/-- **A compromised key is never used for the replacement**: after the certificate was
revoked for key compromise, the key is quarantined and the replacement's key is the
generator's — even with key reuse configured — hence different from the quarantined one
whenever the generator does not repeat it. -/
theorem C06_compromised_never_reused (e : Env) (s : Slots) (k : KeyId) (hk : s.key = some k)
    (hf : e.fresh ≠ k) :
    (replaceCompromised e s).compromised = some k ∧
    load (replaceCompromised e s) = .ok e.fresh { pub := e.fresh, ser := e.ser, nb := e.now } ∧
    (replaceCompromised e s).key ≠ some k := by
  have hq : hasAll (quarantine s) = false := by simp [quarantine, hk, hasAll]
  have hkey : obtainKey e (quarantine s) = e.fresh := by
    simp [obtainKey, quarantine, hk]
  refine ⟨?_, ?_, ?_⟩
  · unfold replaceCompromised; rw [obtain_eq _ _ hq]; simp [quarantine, hk]
  · have := (C06_obtain_complete e (quarantine s) hq).2.1
    rw [hkey] at this
    exact this
  · unfold replaceCompromised; rw [obtain_eq _ _ hq, hkey]; simpa using hf

/-- … with several issuers: after the quarantine no issuer's bundle loads with the compromised
key, so whatever is adopted or loaded as the replacement (`C06_newest_issuer`: one of the
loadable bundles) does not use it -/
theorem C06_compromised_never_loaded (k : KeyId) (l : List Slots) :
    ∀ s ∈ quarantineAll k l, ∀ k' c, load s = .ok k' c → k' ≠ k := by
  intro s hs k' c hl
  unfold quarantineAll at hs
  obtain ⟨t, _, rfl⟩ := List.mem_map.mp hs
  by_cases hk : t.key = some k
  · simp [hk, load] at hl
  · simp only [hk, if_false] at hl
    intro he; subst he
    unfold load at hl
    cases htk : t.key with
    | none => simp [htk] at hl
    | some k0 =>
      simp only [htk] at hl
      cases htc : t.crt with
      | none => simp [htc] at hl
      | some c0 =>
        simp only [htc] at hl
        cases htm : t.mta with
        | none => simp [htm] at hl
        | some m =>
          simp only [htm] at hl
          split at hl
          · simp at hl; exact hk (by rw [htk, hl.1])
          · cases hl

/-- **Newest issuer**: with several issuers the bundle loaded is a loadable one with the
latest NotBefore among all loadable ones -/
theorem C06_newest_issuer (l : List Slots) (c : Crt) (h : newest l = some c) :
    (∃ s ∈ l, ∃ k, load s = .ok k c) ∧ ∀ s ∈ l, ∀ k d, load s = .ok k d → d.nb ≤ c.nb := by
  induction l generalizing c with
  | nil => simp [newest] at h
  | cons s rest ih =>
    simp only [newest] at h
    cases hl : load s with
    | ok k c0 =>
      cases hr : newest rest with
      | none =>
        simp only [hl, hr] at h
        cases h
        refine ⟨⟨s, by simp, k, hl⟩, ?_⟩
        intro t ht k' d hd
        rcases List.mem_cons.mp ht with rfl | ht
        · rw [hl] at hd; cases hd; exact Nat.le_refl _
        · -- nothing in `rest` is loadable
          exfalso
          have : ∀ (r : List Slots), newest r = none → ∀ t ∈ r, ∀ k d, load t ≠ .ok k d := by
            intro r
            induction r with
            | nil => intro _ t ht; simp at ht
            | cons a r ihr =>
              intro hn t ht k d
              simp only [newest] at hn
              cases hla : load a with
              | ok ka ca => cases hrr : newest r <;> simp [hla, hrr] at hn <;> (split at hn <;> cases hn)
              | notexist =>
                simp only [hla] at hn
                rcases List.mem_cons.mp ht with rfl | ht
                · simp [hla]
                · exact ihr hn t ht k d
              | mismatch =>
                simp only [hla] at hn
                rcases List.mem_cons.mp ht with rfl | ht
                · simp [hla]
                · exact ihr hn t ht k d
          exact this rest hr t ht k' d hd
      | some d0 =>
        simp only [hl, hr] at h
        obtain ⟨⟨t0, ht0, k0, hk0⟩, hmax⟩ := ih d0 hr
        split at h
        · rename_i hgt
          cases h
          refine ⟨⟨t0, List.mem_cons_of_mem _ ht0, k0, hk0⟩, ?_⟩
          intro t ht k' d hd
          rcases List.mem_cons.mp ht with rfl | ht
          · rw [hl] at hd; cases hd; omega
          · exact hmax t ht k' d hd
        · rename_i hle
          cases h
          refine ⟨⟨s, by simp, k, hl⟩, ?_⟩
          intro t ht k' d hd
          rcases List.mem_cons.mp ht with rfl | ht
          · rw [hl] at hd; cases hd; exact Nat.le_refl _
          · have := hmax t ht k' d hd; omega
    | notexist =>
      simp only [hl] at h
      obtain ⟨⟨t0, ht0, k0, hk0⟩, hmax⟩ := ih c h
      refine ⟨⟨t0, List.mem_cons_of_mem _ ht0, k0, hk0⟩, ?_⟩
      intro t ht k' d hd
      rcases List.mem_cons.mp ht with rfl | ht
      · rw [hl] at hd; cases hd
      · exact hmax t ht k' d hd
    | mismatch =>
      simp only [hl] at h
      obtain ⟨⟨t0, ht0, k0, hk0⟩, hmax⟩ := ih c h
      refine ⟨⟨t0, List.mem_cons_of_mem _ ht0, k0, hk0⟩, ?_⟩
      intro t ht k' d hd
      rcases List.mem_cons.mp ht with rfl | ht
      · rw [hl] at hd; cases hd
      · exact hmax t ht k' d hd

/-! ### non-vacuity -/
example : load (obtain { reuse := true, fresh := 4, ser := 2, now := 9 }
    { key := some 3, crt := none, mta := none, compromised := none }) = .ok 3 { pub := 3, ser := 2, nb := 9 } := by decide
example : (replaceCompromised { reuse := true, fresh := 4, ser := 2, now := 9 }
    { key := some 3, crt := some { pub := 3, ser := 1, nb := 1 }, mta := some 1, compromised := none }).key = some 4 := by decide
example : (quarantineAll 3 [ { key := some 3, crt := some { pub := 3, ser := 2, nb := 8 }, mta := some 2, compromised := none },
                             { key := some 3, crt := some { pub := 3, ser := 1, nb := 5 }, mta := some 1, compromised := none } ]).map load
    = [.notexist, .notexist] := by decide
example : newest [ { key := some 1, crt := some { pub := 1, ser := 1, nb := 5 }, mta := some 1, compromised := none },
                   { key := some 2, crt := some { pub := 2, ser := 2, nb := 8 }, mta := some 2, compromised := none } ]
    = some { pub := 2, ser := 2, nb := 8 } := by decide

end CM.Bundle
