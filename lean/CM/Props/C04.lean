import CM.Model.Renew
/-!
# C04 — renewal is decided neither too late nor spuriously

Theorems over every `(now, notBefore, notAfter, ratio, interval, ARI state)`.
-/
namespace CM.Renew

/-- the statement's "must renew" conditions, as a proposition -/
def Must (i : In) : Prop :=
  let exp := expiresAt i.na
  inWindow i.now i.nb exp i.rnum i.rden = true ∨           -- configured final fraction
  inWindow i.now i.nb exp 1 emergencyDen = true ∨            -- emergency fraction
  exp - i.now < i.interval * intervalFactor ∨              -- emergency margin before expiry
  (i.disableARI = false ∧ ∃ t, effSelected i = .some t ∧
     (i.now > t - i.interval ∨                             -- ARI-selected time less one interval
      inWindow i.now i.nb exp 1 ariEmergencyDen = true))   -- ARI cannot postpone past the final 1/20

@[simp] theorem ofBool_yes (b : Bool) : Verdict.ofBool b = .yes ↔ b = true := by
  cases b <;> simp [Verdict.ofBool]

@[simp] theorem ofBool_ne_panics (b : Bool) : Verdict.ofBool b ≠ .panics := by
  cases b <;> simp [Verdict.ofBool]

theorem baseDue_iff (i : In) : baseDue i = true ↔
    (inWindow i.now i.nb (expiresAt i.na) i.rnum i.rden = true ∨
     inWindow i.now i.nb (expiresAt i.na) 1 emergencyDen = true ∨
     expiresAt i.na - i.now < i.interval * intervalFactor) := by
  simp [baseDue, or_assoc]

/-- no miss and nothing spurious: whenever the decision does not panic, it says "renew"
exactly when one of the statement's conditions holds -/
theorem C04_exact (i : In) (hp : needsRenewal i ≠ .panics) : needsRenewal i = .yes ↔ Must i := by
  unfold needsRenewal at hp ⊢
  unfold Must
  cases hd : i.disableARI
  · simp only [hd, Bool.false_eq_true, if_false] at hp ⊢
    cases hs : effSelected i with
    | panics => simp [hs] at hp
    | none => simp [baseDue_iff]
    | some t =>
      simp only [ofBool_yes, Bool.or_eq_true, baseDue_iff, decide_eq_true_eq, true_and]
      constructor
      · rintro ((h | h) | h)
        · exact Or.inr (Or.inr (Or.inr ⟨t, rfl, Or.inl h⟩))
        · exact Or.inr (Or.inr (Or.inr ⟨t, rfl, Or.inr h⟩))
        · rcases h with h | h | h
          · exact Or.inl h
          · exact Or.inr (Or.inl h)
          · exact Or.inr (Or.inr (Or.inl h))
      · rintro (h | h | h | ⟨t', ht', h⟩)
        · exact Or.inr (Or.inl h)
        · exact Or.inr (Or.inr (Or.inl h))
        · exact Or.inr (Or.inr (Or.inr h))
        · cases ht'
          rcases h with h | h
          · exact Or.inl (Or.inl h)
          · exact Or.inl (Or.inr h)
  · simp [baseDue_iff]

/-- no miss (one direction of `C04_exact`, stated on its own) -/
theorem C04_no_miss (i : In) (hp : needsRenewal i ≠ .panics) (h : Must i) : needsRenewal i = .yes :=
  (C04_exact i hp).mpr h

/-- no spurious renewal -/
theorem C04_no_spurious (i : In) (h : ¬ Must i) : needsRenewal i ≠ .yes := by
  intro hy
  exact h ((C04_exact i (by rw [hy]; decide)).mp hy)

/-- a certificate that has expired is always due (for a non-negative lifetime and a
positive interval) -/
theorem C04_expired_due (i : In) (hp : needsRenewal i ≠ .panics) (hi : 0 < i.interval)
    (hx : i.now > expiresAt i.na) : needsRenewal i = .yes := by
  apply C04_no_miss i hp
  right; right; left
  simp only [intervalFactor]; omega

/-- renewal information can never postpone renewal: whatever the ARI state, if the
decision without ARI says "renew" then so does the decision with it -/
theorem C04_ari_cannot_postpone (i : In) (hp : needsRenewal i ≠ .panics)
    (h : needsRenewal { i with disableARI := true } = .yes) : needsRenewal i = .yes := by
  have hb : baseDue i = true := by
    unfold needsRenewal at h
    simp only [if_true, ofBool_yes] at h
    exact h
  unfold needsRenewal at hp ⊢
  cases hd : i.disableARI
  · simp only [hd, Bool.false_eq_true, if_false] at hp ⊢
    cases hs : effSelected i with
    | panics => simp [hs] at hp
    | none => simp [hb]
    | some t => simp [hb]
  · simp [hb]

/-- … and once the final 1/20 of the lifetime has begun, a selected time cannot hold it back -/
theorem C04_final_twentieth (i : In) (t : Int) (hd : i.disableARI = false)
    (hs : effSelected i = .some t)
    (h : inWindow i.now i.nb (expiresAt i.na) 1 ariEmergencyDen = true) : needsRenewal i = .yes := by
  unfold needsRenewal
  simp [hd, hs, h, Verdict.ofBool]

/-- renewal information whose (selected or improvised) time lies more than one interval in
the future never triggers a renewal by itself: outside the final 1/20 the verdict is the
one without ARI. (This is the statement that was false before the `fix:` commit.) -/
theorem C04_future_window (i : In) (t : Int) (hd : i.disableARI = false)
    (hs : effSelected i = .some t) (hfut : i.now ≤ t - i.interval)
    (h20 : inWindow i.now i.nb (expiresAt i.na) 1 ariEmergencyDen = false) :
    needsRenewal i = needsRenewal { i with disableARI := true } := by
  have hb : baseDue { i with disableARI := true } = baseDue i := rfl
  unfold needsRenewal
  simp only [hd, hs, h20, if_true, hb]
  have : decide (i.now > t - i.interval) = false := by simp; omega
  simp [this]

/-- an improvised time lies strictly inside the suggested window -/
theorem effSelected_in_window (i : In) (ws we t : Int) (hsel : i.selected = none)
    (hw : i.window = some (ws, we)) (hr0 : 0 ≤ i.rnd) (hr1 : i.rnd < we / sec - (ws / sec + 1))
    (hs : effSelected i = .some t) : ws < t ∧ t ≤ we := by
  unfold effSelected at hs
  simp only [hsel, hw] at hs
  split at hs
  · cases hs
  · cases hs
    simp only [sec] at *
    omega

/-- hence: a suggested window that starts later than `now + interval` never triggers -/
theorem C04_future_window' (i : In) (ws we : Int) (hd : i.disableARI = false)
    (hsel : i.selected = none) (hw : i.window = some (ws, we))
    (hr0 : 0 ≤ i.rnd) (hr1 : i.rnd < we / sec - (ws / sec + 1))
    (hfut : i.now + i.interval ≤ ws)
    (h20 : inWindow i.now i.nb (expiresAt i.na) 1 ariEmergencyDen = false) :
    needsRenewal i = needsRenewal { i with disableARI := true } := by
  cases hs : effSelected i with
  | none => unfold effSelected at hs; simp only [hsel, hw] at hs; split at hs <;> cases hs
  | panics =>
    unfold effSelected at hs; simp only [hsel, hw] at hs
    split at hs
    · omega
    · cases hs
  | some t =>
    have := effSelected_in_window i ws we t hsel hw hr0 hr1 hs
    exact C04_future_window i t hd hs (by omega) h20

/-- with a stored selected time, or no renewal information, or ARI disabled, the verdict
never goes back from "renew" to "wait" as time advances -/
theorem C04_monotone (i : In) (now' : Int) (hle : i.now ≤ now')
    (hfix : i.disableARI = true ∨ i.selected.isSome ∨ i.window = none)
    (h : needsRenewal i = .yes) : needsRenewal { i with now := now' } = .yes := by
  have hp : needsRenewal i ≠ .panics := by rw [h]; decide
  have hm := (C04_exact i hp).mp h
  have hsel : effSelected { i with now := now' } = effSelected i := rfl
  have hp' : needsRenewal { i with now := now' } ≠ .panics := by
    unfold needsRenewal at hp ⊢
    simp only [hsel]
    cases hd : i.disableARI
    · simp only [hd, Bool.false_eq_true, if_false] at hp ⊢
      cases hs : effSelected i with
      | panics => simp [hs] at hp
      | none => simp
      | some t => simp
    · simp
  apply (C04_exact _ hp').mpr
  unfold Must at hm ⊢
  simp only [hsel, inWindow, decide_eq_true_eq] at hm ⊢
  rcases hm with h | h | h | ⟨hd, t, ht, h⟩
  · left; omega
  · right; left; omega
  · right; right; left; omega
  · right; right; right
    refine ⟨hd, t, ht, ?_⟩
    rcases h with h | h
    · left; omega
    · right; omega

/-- the threshold of a ratio check is exactly `expiresAt − ⌊lifetime·ratio⌋`, compared strictly -/
theorem C04_threshold (now nb exp : Int) (num den : Nat) (hn : num ≠ 0) :
    inWindow now nb exp num den = true ↔ now > exp - scale (exp - nb) num den := by
  simp [inWindow, windowStart, hn]

/-- the decision panics exactly when ARI is on, no time is stored, and the suggested window
is too short for `rand.Int63n` (end.sec − start.sec − 1 ≤ 0) -/
theorem C04_panics_iff (i : In) : needsRenewal i = .panics ↔
    (i.disableARI = false ∧ i.selected = none ∧
     ∃ ws we, i.window = some (ws, we) ∧ we / sec - (ws / sec + 1) ≤ 0) := by
  unfold needsRenewal
  cases hd : i.disableARI
  · simp only [Bool.false_eq_true, if_false, true_and]
    unfold effSelected
    cases hsel : i.selected with
    | some t => simp
    | none =>
      cases hw : i.window with
      | none => simp
      | some w =>
        obtain ⟨ws, we⟩ := w
        simp only [true_and]
        by_cases hle : we / sec - (ws / sec + 1) ≤ 0
        · simp only [hle, if_true, true_iff]
          exact ⟨ws, we, rfl, hle⟩
        · simp only [hle, if_false]
          constructor
          · intro h; exact absurd h (ofBool_ne_panics _)
          · rintro ⟨ws', we', h, hle'⟩
            cases h
            exact absurd hle' hle
  · simp

/-! ### non-vacuity -/

/-- 90-day certificate at day 10, ARI window on days 60–62, no selected time: not due
(this input was answered "renew" before the fix) -/
def ex1 : In := { now := 10 * 86400 * sec, nb := 0, na := 90 * 86400 * sec, rnum := 0, rden := 1
                  interval := 600 * sec, disableARI := false
                  window := some (60 * 86400 * sec, 62 * 86400 * sec), selected := none, rnd := 5 }

example : needsRenewal ex1 = .no := by decide
example : needsRenewal { ex1 with now := 61 * 86400 * sec } = .yes := by decide
example : needsRenewal { ex1 with window := some (5 * sec, 5 * sec + 1) } = .panics := by decide
example : Must { ex1 with now := 61 * 86400 * sec } := by
  right; right; right; exact ⟨rfl, _, rfl, by decide⟩

end CM.Renew
