import CM.Proofs.AtomicFile
import CM.Proofs.FileTree
/-!
# C10 — file-storage reads see whole values; keys and prefixes behave as documented

Property theorems only. Models: `CM/Model/AtomicFile.lean` (write protocol of
`FileStorage.Store` / read of `FileStorage.Load`, any number of writers and readers, any
interleaving, writer death at any step), `CM/Lib/KV.lean` (the `Storage` contract) and
`CM/Model/FileTree.lean` (`FileStorage` on a POSIX tree). Helper lemmas:
`CM/Proofs/AtomicFile.lean`, `CM/Proofs/FileTree.lean`.
-/
namespace CM.AtomicFile

variable {val : Nat → Bytes} {init : Option Bytes}

/-- **Reads see whole values.** In every reachable state, a reader that has completed
returns exactly the value the destination had at the instant of its `open`: the complete
value of the last writer whose `rename` preceded the open, or the initial value if there
was none (`a` is the number of renames that preceded the open). Never a prefix, never a
mixture, never empty unless that value is empty, and not-exist only if the key was absent
initially and nobody had renamed yet. -/
theorem C10_whole_values {s : State} (h : Reachable val init s) (r : Nat) (res : Option Bytes) (a : Nat)
    (hr : s.r r = .done res a) :
    a ≤ s.renamed.length ∧ res = current val init (s.renamed.take a) ∧
    (res = init ∨ ∃ w ∈ s.renamed.take a, res = some (val w)) := by
  obtain ⟨h1, h2⟩ := (inv_reachable h).done_ok r res a hr
  refine ⟨h1, h2, ?_⟩
  rw [h2]
  unfold current
  cases hl : (s.renamed.take a).getLast? with
  | none => exact Or.inl rfl
  | some w => exact Or.inr ⟨w, List.mem_of_getLast? hl, rfl⟩

/-- a reader in mid-read has only ever seen a prefix of that one complete value (it can
never be handed bytes of two different writers) -/
theorem C10_reading_prefix {s : State} (h : Reachable val init s) (r i : Nat) (buf : Bytes) (a : Nat)
    (hr : s.r r = .reading i buf a) :
    ∃ v, current val init (s.renamed.take a) = some v ∧ buf <+: v := by
  obtain ⟨_, _, _, h4, h5⟩ := (inv_reachable h).rd_ok r i buf a hr
  exact ⟨s.ino i, h4.symm, h5⟩

/-- **Last store wins.** In every reachable state the destination name holds exactly the
complete value of the last `rename` (or the initial value) … -/
theorem C10_last_wins {s : State} (h : Reachable val init s) :
    dstContent s = current val init s.renamed := by
  have I := inv_reachable h
  unfold dstContent
  cases hd : s.dst with
  | none => simp [I.dst_none hd]
  | some i => simpa using (I.dst_ok i hd).2.2

/-- … so a reader that opens once the Stores have completed (`a = renamed.length`: no
rename happened after its open) returns the value of the last Store that renamed. -/
theorem C10_last_wins_read {s : State} (h : Reachable val init s) (r : Nat) (res : Option Bytes)
    (hr : s.r r = .done res s.renamed.length) (w : Nat) (hw : s.renamed.getLast? = some w) :
    res = some (val w) := by
  have := (C10_whole_values h r res _ hr).2.1
  rw [List.take_length] at this
  rw [this]; simp [current, hw]

/-- **A killed writer leaves the old or the new value.** Killing writer `w` at any point
does not change what the destination holds, which is a *complete* value — the initial one
or that of a writer whose rename happened; `w`'s own value is there only if `w` had
already renamed (killed between the rename and the return of `Store`). -/
theorem C10_crash_old_or_new {s s' : State} (h : Reachable val init s) (w : Nat)
    (hs : step val s (.wCrash w) = some s') :
    dstContent s' = dstContent s ∧ dstContent s' = current val init s'.renamed ∧
    (s'.w w = .crashed → w ∉ s'.renamed) ∧ (s'.w w = .crashedAfter → w ∈ s'.renamed) := by
  have h' : Reachable val init s' := .step h hs
  have I' := inv_reachable h'
  refine ⟨?_, C10_last_wins h', ?_, ?_⟩
  · simp only [step] at hs
    split at hs <;> cases hs <;> rfl
  · intro hc hm
    have := (I'.ren_iff w).mp hm
    rw [hc] at this; simp at this
  · intro hc
    exact (I'.ren_iff w).mpr (Or.inr hc)

/-- with a single writer `w` (all others idle) the destination holds the old value or the
complete new one, whatever happened to `w` -/
theorem C10_crash_single_writer {s : State} (h : Reachable val init s) (w : Nat)
    (hidle : ∀ x, x ≠ w → s.w x = .idle) :
    dstContent s = init ∨ dstContent s = some (val w) := by
  rw [C10_last_wins h]
  unfold current
  cases hl : s.renamed.getLast? with
  | none => exact Or.inl rfl
  | some x =>
    have hx := ((inv_reachable h).ren_iff x).mp (List.mem_of_getLast? hl)
    by_cases hxw : x = w
    · subst hxw; exact Or.inr rfl
    · rw [hidle x hxw] at hx; simp at hx

/-! ### non-vacuity: a concrete interleaving -/

/-- writer 1 stores `[1,2,3]`, writer 2 stores `[7,8]` -/
def exVal : Nat → Bytes := fun w => if w = 1 then [1, 2, 3] else [7, 8]

/-- writer 1 creates and writes in two chunks; reader 0 opens (sees the initial value's
inode); writer 1 renames; reader 5 opens; writer 2 writes and renames; both readers finish -/
def exRun : List Ev :=
  [.wCreate 1, .wWrite 1 2, .rOpen 0, .wWrite 1 5, .wSync 1, .wClose 1, .rRead 0 1, .wRename 1,
   .rOpen 5, .wCreate 2, .wWrite 2 1, .rRead 5 2, .wWrite 2 1, .wSync 2, .wClose 2, .wRename 2,
   .rRead 5 9, .rEOF 5, .rRead 0 1, .rEOF 0, .wCreate 3, .wWrite 3 1, .wCrash 3]

example : ((run exVal (initState (some [4, 4])) exRun).map
    (fun s => (s.r 0, s.r 5, dstContent s, s.renamed, s.w 3))) =
    some (.done (some [4, 4]) 0, .done (some [1, 2, 3]) 1, some [7, 8], [1, 2], .crashed) := by decide

/-- a reader of an absent key gets not-exist -/
example : ((run exVal (initState none) [.rOpen 0, .wCreate 1]).map (fun s => s.r 0)) =
    some (.done none 0) := by decide

/-- `rename` is not enabled before `sync` and `close` (the order the tie checks) -/
example : ((run exVal (initState none) [.wCreate 1, .wWrite 1 3, .wRename 1]).isNone) = true := by decide
example : ((run exVal (initState none) [.wCreate 1, .wWrite 1 2, .wSync 1]).isNone) = true := by decide

end CM.AtomicFile

namespace CM.KV
variable {κ : Type} [DecidableEq κ] {ν : Type}

/-! ### the documented key/prefix semantics (laws of the contract `CM.KV`) -/

theorem C10_load_store (s : Store κ ν) (k k' : Key κ) (v : ν) :
    load (store s k v) k' = if k' = k then some v else load s k' := load_store s k k' v

theorem C10_exists_iff (s : Store κ ν) (k : Key κ) :
    «exists» s k = true ↔ ∃ k' v, load s k' = some v ∧ k <+: k' := exists_iff s k

/-- deleting a prefix removes everything under it — by whole components — and nothing else -/
theorem C10_delete_prefix_exact (s : Store κ ν) (p k : Key κ) :
    load (delete s p) k = if p <+: k then none else load s k := delete_prefix_exact s p k

/-- non-recursive List returns exactly the direct children -/
theorem C10_list_nonrecursive (s : Store κ ν) (p : Key κ) (h : p = [] ∨ «exists» s p = true) :
    ∃ l, list s p false = some l ∧ ∀ x, x ∈ l ↔ ((∃ c, x = p ++ [c]) ∧ «exists» s x = true) :=
  ⟨children s p, list_some s p false h, list_nonrecursive s p⟩

/-- recursive List returns exactly the descendants -/
theorem C10_list_recursive (s : Store κ ν) (p : Key κ) (h : p = [] ∨ «exists» s p = true) :
    ∃ l, list s p true = some l ∧ ∀ x, x ∈ l ↔ (p <+: x ∧ x ≠ p ∧ «exists» s x = true) :=
  ⟨descendants s p, list_some s p true h, list_recursive s p⟩

/-- missing keys report not-exist (Load, Stat, List) and deleting them changes nothing -/
theorem C10_missing_notexist (sz : ν → Nat) (s : Store κ ν) (k : Key κ) (h : «exists» s k = false) :
    load s k = none ∧ stat sz s k = none ∧ (k ≠ [] → ∀ r, list s k r = none) ∧
    (∀ k', load (delete s k) k' = load s k') := missing_notexist sz s k h

/-- prefixes are matched by whole components: `a` is no prefix of `ab/c` -/
example : load (delete (store ([] : Store String Nat) ["ab", "c"] 2) ["a"]) ["ab", "c"] = some 2 := by decide

end CM.KV

namespace CM.FileTree
open CM.KV
variable {κ : Type} [DecidableEq κ] {ν : Type}

/-! ### `FileStorage` on a POSIX tree refines the contract where the contract is definite -/

/-- the stored values evolve exactly as in the contract: a successful Store is `KV.store`,
a Delete that does not run through a file is `KV.delete` -/
theorem C10_fs_store_delete (t : FS κ ν) (k : Key κ) (v : ν) :
    ((fsStore t k v).1 = .ok () → (fsStore t k v).2.files = KV.store t.files k v) ∧
    ((fsStore t k v).1 ≠ .ok () → (fsStore t k v).2.files = t.files) ∧
    ((fsDelete t k).1 = .ok () → (fsDelete t k).2.files = KV.delete t.files k) :=
  fs_store_delete t k v

/-- Load returns a value exactly when the contract has one (paths through a file aside) -/
theorem C10_fs_load (t : FS κ ν) (k : Key κ) (h : thruFile t k = false) (v : ν) :
    fsLoad t k = .ok v ↔ KV.load t.files k = some v := fs_load t k h v

/-- on a well-formed tree, for every key that is a file, a directory of the contract or
missing (i.e. not a path through a file and not an empty directory left on disk),
Exists / Stat / Load answer what the contract says, and a missing key reports not-exist
from Load, Stat and List -/
theorem C10_fs_refines (sz : ν → Nat) (t : FS κ ν) (W : WF t) (k : Key κ) (hk : k ≠ [])
    (hc : classify t k = .file ∨ classify t k = .dir ∨ classify t k = .missing) :
    fsExists t k = KV.exists t.files k ∧
    fsStat sz t k = (match KV.stat sz t.files k with | some i => .ok i | none => .notexist) ∧
    (classify t k = .missing → fsLoad t k = .notexist ∧ ∀ r, fsList t k r = .notexist) :=
  fs_refines sz t W k hk hc

/-- well-formedness is an invariant of the operations -/
theorem C10_fs_wf_store (t : FS κ ν) (W : WF t) (k : Key κ) (hk : k ≠ []) (v : ν) : WF (fsStore t k v).2 :=
  wf_store t W k hk v

theorem C10_fs_wf_delete (t : FS κ ν) (W : WF t) (k : Key κ) : WF (fsDelete t k).2 :=
  wf_delete t W k

/-- on a well-formed tree a listing of a directory contains every node the contract lists,
and anything else it contains is an empty directory left on disk -/
theorem C10_fs_list (t : FS κ ν) (W : WF t) (p : Key κ) (r : Bool)
    (hp : p = [] ∨ classify t p = .dir) :
    ∃ l, fsList t p r = .ok l ∧
      (∀ x, (∃ want, KV.list t.files p r = some want ∧ x ∈ want) → x ∈ l) ∧
      (∀ x ∈ l, (∃ want, KV.list t.files p r = some want ∧ x ∈ want) ∨ classify t x = .linger) :=
  fs_list t W p r hp

example : WF (fsStore (FS.empty : FS Nat Nat) [1, 2] 5).2 := C10_fs_wf_store _ wf_empty _ (by decide) _

end CM.FileTree
