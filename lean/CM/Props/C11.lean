import CM.Proofs.Safe
/-!
# C11 — names sanitise to one safe path component; keys stay in their namespace

Property theorems only (helper lemmas: `CM/Proofs/Safe.lean`; model: `CM/Model/Safe.lean`).
Every theorem quantifies over **every** string (list of Unicode scalars) and every
`Env` (Unicode lower-casing / white-space class); the three facts about `Env` that
idempotence needs are the explicit hypothesis `Env.Good`.
-/
namespace CM.Safe

/-- every character of the output is in the safe alphabet `[0-9A-Za-z_@.-]` -/
theorem C11_alphabet (E : Env) (s : Str) : ∀ c ∈ safe E s, keep c = true := by
  intro c hc
  have h1 := stripDD_mem hc
  unfold filt at h1
  exact (List.mem_filter.mp h1).2

/-- no path separator (either flavour) and no NUL in the output -/
theorem C11_no_separator (E : Env) (s : Str) :
    '/' ∉ safe E s ∧ '\\' ∉ safe E s ∧ Char.ofNat 0 ∉ safe E s := by
  refine ⟨?_, ?_, ?_⟩ <;> intro h <;> have := C11_alphabet E s _ h <;> revert this <;> decide

/-- the output does not contain `..` (hence is not `..`) -/
theorem C11_no_dotdot (E : Env) (s : Str) : ¬ dotdot <:+: safe E s := by
  rw [← hasDD_iff_infix]
  simp [safe, stripDD_noDD]

theorem C11_not_dotdot (E : Env) (s : Str) : safe E s ≠ dotdot := by
  intro h
  exact C11_no_dotdot E s (h ▸ List.infix_refl _)

/-- the output has no upper-case ASCII letter -/
theorem safe_not_upper (E : Env) (hE : E.Good) (s : Str) : ∀ c ∈ safe E s, isUpperA c = false := by
  intro c hc
  have h1 := stripDD_mem hc
  have h2 := (List.mem_filter.mp h1).1
  unfold repl at h2
  obtain ⟨a, ha, hca⟩ := List.mem_flatMap.mp h2
  refine replC_not_upper a c hca ?_
  have h3 : a ∈ s.map E.lower := by
    unfold trim at ha
    have := List.mem_reverse.mp ha
    have := (List.dropWhile_sublist _).subset this
    have := List.mem_reverse.mp this
    exact (List.dropWhile_sublist _).subset this
  obtain ⟨b, _, rfl⟩ := List.mem_map.mp h3
  exact hE.lower_not_upper b

/-- sanitising twice = sanitising once -/
theorem C11_idempotent (E : Env) (hE : E.Good) (s : Str) : safe E (safe E s) = safe E s := by
  have hk := C11_alphabet E s
  have hu := safe_not_upper E hE s
  have hd : hasDD (safe E s) = false := by simp [safe, stripDD_noDD]
  generalize safe E s = o at hk hu hd
  have h1 : o.map E.lower = o := by
    conv => rhs; rw [← List.map_id o]
    exact List.map_congr_left (fun c hc => hE.lower_fix c (hk c hc) (hu c hc))
  unfold safe
  rw [h1, trim_id_of_forall _ _ (fun c hc => hE.keep_not_space c (hk c hc)),
      repl_id_of_keep _ hk, filt_id_of_keep _ hk, stripDD_id_of_noDD _ hd]

/-! ### consequences for keys and paths -/

/-- a sanitised name with an extension is exactly one path component -/
theorem splitSlash_of_no_slash : ∀ (s : Str), '/' ∉ s → splitSlash s = [s]
  | [], _ => rfl
  | c :: cs, h => by
    have hc : c ≠ '/' := fun e => h (by simp [e])
    have ih := splitSlash_of_no_slash cs (fun m => h (List.mem_cons_of_mem _ m))
    simp [splitSlash, hc, ih]

/-- what joining a sanitised name does to a component list: appends it, or nothing if
it is empty or a single dot -/
theorem joinRaw_safe (E : Env) (base : List Str) (s : Str) :
    joinRaw base (safe E s) =
      if safe E s = [] ∨ safe E s = dot then base else base ++ [safe E s] := by
  unfold joinRaw
  rw [splitSlash_of_no_slash _ (C11_no_separator E s).1]
  simp only [List.foldl, pushComp]
  split
  · rfl
  · simp [C11_not_dotdot E s]

/-- same for a sanitised name with an extension of length ≥ 3 that has no `/`: always
appends exactly one component -/
theorem joinRaw_safe_ext (E : Env) (base : List Str) (s ext : Str)
    (hext : '/' ∉ ext) (hlen : 3 ≤ ext.length) :
    joinRaw base (safe E s ++ ext) = base ++ [safe E s ++ ext] := by
  unfold joinRaw
  have hns : '/' ∉ safe E s ++ ext := by
    intro h
    rcases List.mem_append.mp h with h | h
    · exact (C11_no_separator E s).1 h
    · exact hext h
  rw [splitSlash_of_no_slash _ hns]
  have hl : 3 ≤ (safe E s ++ ext).length := by simp; omega
  have h0 : safe E s ++ ext ≠ [] := by intro e; rw [e] at hl; simp at hl
  have h1 : safe E s ++ ext ≠ dot := by intro e; rw [e] at hl; simp [dot] at hl
  have h2 : safe E s ++ ext ≠ dotdot := by intro e; rw [e] at hl; simp [dotdot] at hl
  simp [List.foldl, pushComp, h0, h1, h2]

/-- every site key lies under the issuer's prefix, which lies under `certificates`;
its last component is the sanitised name plus the extension -/
theorem C11_key_in_namespace (E : Env) (ext : String) (hext : '/' ∉ ext.toList)
    (hlen : 3 ≤ ext.toList.length) (issuer domain : Str) :
    [prefixCerts] <+: certsPrefix E issuer ∧
    certsPrefix E issuer <+: certsSitePrefix E issuer domain ∧
    siteAsset E ext issuer domain = certsSitePrefix E issuer domain ++ [safe E domain ++ str ext] := by
  refine ⟨?_, ?_, ?_⟩
  · unfold certsPrefix; rw [joinRaw_safe]; split
    · exact List.prefix_refl _
    · exact List.prefix_append _ _
  · unfold certsSitePrefix; rw [joinRaw_safe]; split
    · exact List.prefix_refl _
    · exact List.prefix_append _ _
  · unfold siteAsset; exact joinRaw_safe_ext E _ _ _ hext hlen

/-- no component of a site key is `..`, empty or `.` … -/
def plainComp (c : Str) : Prop := c ≠ [] ∧ c ≠ dot ∧ c ≠ dotdot ∧ '/' ∉ c

theorem plain_prefixCerts : plainComp prefixCerts := by
  refine ⟨?_, ?_, ?_, ?_⟩ <;> decide

theorem certsPrefix_plain (E : Env) (issuer : Str) : ∀ c ∈ certsPrefix E issuer, plainComp c := by
  unfold certsPrefix; rw [joinRaw_safe]
  split
  · intro c hc; simp at hc; subst hc; exact plain_prefixCerts
  · rename_i h
    intro c hc
    simp at hc
    rcases hc with rfl | rfl
    · exact plain_prefixCerts
    · exact ⟨fun e => h (Or.inl e), fun e => h (Or.inr e), C11_not_dotdot E issuer,
             (C11_no_separator E issuer).1⟩

theorem certsSitePrefix_plain (E : Env) (issuer domain : Str) :
    ∀ c ∈ certsSitePrefix E issuer domain, plainComp c := by
  unfold certsSitePrefix; rw [joinRaw_safe]
  split
  · exact certsPrefix_plain E issuer
  · rename_i h
    intro c hc
    rcases List.mem_append.mp hc with hc | hc
    · exact certsPrefix_plain E issuer c hc
    · simp at hc; subst hc
      exact ⟨fun e => h (Or.inl e), fun e => h (Or.inr e), C11_not_dotdot E domain,
             (C11_no_separator E domain).1⟩

theorem siteAsset_plain (E : Env) (ext : String) (hext : '/' ∉ ext.toList)
    (hlen : 3 ≤ ext.toList.length) (issuer domain : Str) :
    ∀ c ∈ siteAsset E ext issuer domain, plainComp c := by
  rw [(C11_key_in_namespace E ext hext hlen issuer domain).2.2]
  intro c hc
  rcases List.mem_append.mp hc with hc | hc
  · exact certsSitePrefix_plain E issuer domain c hc
  · simp at hc; subst hc
    have hl : 3 ≤ (safe E domain ++ str ext).length := by simp [str]; omega
    refine ⟨?_, ?_, ?_, ?_⟩
    · intro e; rw [e] at hl; simp at hl
    · intro e; rw [e] at hl; simp [dot] at hl
    · intro e; rw [e] at hl; simp [dotdot] at hl
    · intro h
      rcases List.mem_append.mp h with h | h
      · exact (C11_no_separator E domain).1 h
      · exact hext h

/-- … hence the file path of a key made of plain components is the root followed by the key -/
theorem filename_plain (root key : List Str) (h : ∀ c ∈ key, plainComp c) :
    filename root key = root ++ key := by
  unfold filename
  induction key generalizing root with
  | nil => simp
  | cons c cs ih =>
    obtain ⟨h0, h1, h2, _⟩ := h c (by simp)
    simp only [List.foldl]
    rw [ih _ (fun x hx => h x (List.mem_cons_of_mem _ hx))]
    simp [pushComp, h0, h1, h2]

/-- every file path derived from a site key stays under the storage root -/
theorem C11_path_under_root (E : Env) (ext : String) (hext : '/' ∉ ext.toList)
    (hlen : 3 ≤ ext.toList.length) (root : List Str) (issuer domain : Str) :
    root <+: filename root (siteAsset E ext issuer domain) ∧
    root ++ [prefixCerts] <+: filename root (siteAsset E ext issuer domain) := by
  rw [filename_plain _ _ (siteAsset_plain E ext hext hlen issuer domain)]
  refine ⟨List.prefix_append _ _, ?_⟩
  have h := C11_key_in_namespace E ext hext hlen issuer domain
  obtain ⟨t1, ht1⟩ := h.1
  obtain ⟨t2, ht2⟩ := h.2.1
  rw [h.2.2, ← ht2, ← ht1]
  exact ⟨t1 ++ t2 ++ [safe E domain ++ str ext], by simp⟩

/-- every lock file is a direct child of the locks directory -/
theorem C11_lock_in_lockdir (E : Env) (root : List Str) (name : Str) :
    lockFile E name = [str "locks", safe E name ++ str ".lock"] ∧
    filename root (lockFile E name) = root ++ [str "locks", safe E name ++ str ".lock"] := by
  have h1 : lockFile E name = [str "locks", safe E name ++ str ".lock"] := by
    unfold lockFile
    rw [joinRaw_safe_ext E _ _ _ (by decide) (by decide)]
    rfl
  refine ⟨h1, ?_⟩
  rw [h1]
  apply filename_plain
  intro c hc
  simp at hc
  rcases hc with rfl | rfl
  · refine ⟨?_, ?_, ?_, ?_⟩ <;> decide
  · have hl : 5 ≤ (safe E name ++ str ".lock").length := by simp [str]
    refine ⟨?_, ?_, ?_, ?_⟩
    · intro e; rw [e] at hl; simp at hl
    · intro e; rw [e] at hl; simp [dot] at hl
    · intro e; rw [e] at hl; simp [dotdot] at hl
    · intro h
      rcases List.mem_append.mp h with h | h
      · exact (C11_no_separator E name).1 h
      · revert h; decide

/-! ### non-vacuity: a concrete environment satisfies `Env.Good` on ASCII, and the
theorems say something on the string that used to escape -/

/-- ASCII environment used by the examples (the driver uses the same one, extended by a
per-line table for the non-ASCII characters of the input) -/
def asciiEnv : Env where
  lower c := if isUpperA c then Char.ofNat (c.toNat + 32) else c
  isSpace c := c == ' ' || c == '\t' || c == '\n' || c == '\r' || c == Char.ofNat 11 || c == Char.ofNat 12

example : safe asciiEnv "./.".toList = [] := by decide
example : safe asciiEnv " *.Ex+ample.COM ".toList = "wildcard_.ex_plus_ample.com".toList := by decide
example : siteCert asciiEnv "./.".toList "./.".toList = [prefixCerts, ".crt".toList] := by decide
example : safe asciiEnv "a./.b/...c".toList = "ab.c".toList := by decide

end CM.Safe
