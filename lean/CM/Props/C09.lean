import CM.Lib.Skel
/-!
# C09 — every operation releases the storage locks it took, on every exit path

The property is a statement about *programs* (every path through each operation, with a
failure, panic or cancellation at any call). It is decided by a verified checker: the
theorem below is proved once, for every skeleton program; `CM/Tie/C09.lean` then
evaluates the checker (by `decide`, in the kernel) on the skeletons regenerated from
`/repo` on this run, for EVERY function that calls `acquireLock`.
-/
namespace CM.Skel

/-- Lock discipline, function level: if the checker accepts a function body entered with
no pending lock, then on every execution — normal completion, return, or a panic raised
by any call, whatever fails and wherever — no lock acquired by the function is left that
is neither released nor covered by a registered deferred release (which Go runs on every
exit, return or panic). -/
theorem C09_lock_discipline_sound (body : Sk) (h : check body 0 = some 0)
    (o : Out) (r : Nat) (he : Exec body 0 o r) : r = 0 := by
  have := check_sound h he
  cases o
  · exact this.1 rfl
  · exact this.2 (by decide)
  · exact this.2 (by decide)

/-- the same for any accepted block entered with `p` pending locks -/
theorem C09_block_sound {s : Sk} {p q : Nat} {o : Out} {r : Nat}
    (hc : check s p = some q) (he : Exec s p o r) :
    (o = .normal → r = q) ∧ (o ≠ .normal → r = 0) := check_sound hc he

/-! ### the checker is not vacuous: it accepts the idiom and rejects its broken variants -/

/-- `err := acquireLock(); if err != nil {return}; defer release(); loop { call | return }; return` -/
def idiom : Sk :=
  .seq (.acq .ret) (.seq (.dfr (.fn (.seq (.act "releaseLock") (.br "err != nil" .skip .skip))))
    (.seq (.loop (.br "?" (.act "storage.Store") .ret)) .ret))

example : check idiom 0 = some 0 := by decide
/-- defer removed: rejected -/
example : check (.seq (.acq .ret) (.seq (.act "storage.Store") (.seq (.act "releaseLock") .ret))) 0 = none := by decide
/-- early return inserted between the acquire and the defer: rejected -/
example : check (.seq (.acq .ret) (.seq (.br "x" .ret .skip) (.seq (.dfr (.act "releaseLock")) .ret))) 0 = none := by decide
/-- release only on one branch: rejected -/
example : check (.seq (.acq .ret) (.seq (.br "x" (.dfr (.act "releaseLock")) .skip) .ret)) 0 = none := by decide
/-- an execution of the idiom in which the second call panics ends with nothing pending -/
example : Exec idiom 0 .panicked 0 := by
  apply Exec.seqGo Exec.acqOk
  apply Exec.seqGo (Exec.dfrRel rfl)
  apply Exec.seqStop (by decide)
  apply Exec.loopGo (Exec.brL (Exec.actOk (by decide)))
  apply Exec.loopStop (by decide)
  exact Exec.brL (Exec.actPanic (by decide))

end CM.Skel
