import CM.Proofs.SingleFlight
/-!
# C13 — concurrent handshakes share one load/obtain/renew and are never left hanging

Theorems about every reachable state of the single-flight LTS (`CM.SingleFlight`, repaired
code): any number of threads, any schedule, any behaviour of cache / storage / policy /
issuer (their answers are event parameters), every worker outcome.
-/
namespace CM.Props.C13
open CM.SingleFlight

/-- **C13_one_worker.** At most one thread holds the registration of each map, and the
threads inside the issuer (obtaining / renewing, foreground or goroutine) resp. inside the
storage load are among them: two workers of the same kind are the same thread. -/
theorem C13_one_worker {s : State} (hr : Reachable s) (t u : Nat) :
    (isWorkerPC (s.pc t) → isWorkerPC (s.pc u) → t = u) ∧
    (s.pc t = .loading → s.pc u = .loading → t = u) ∧
    (∀ c d, s.ownO t = some c → s.ownO u = some d → t = u) ∧
    (∀ c d, s.ownL t = some c → s.ownL u = some d → t = u) := by
  have hi := inv_reachable hr
  have hO : ∀ c d, s.ownO t = some c → s.ownO u = some d → t = u := by
    intro c d h1 h2
    have a := hi.a4 t c h1
    have b := hi.a4 u d h2
    rw [a] at b
    simp only [Option.some.injEq, Prod.mk.injEq] at b
    exact b.2
  have hL : ∀ c d, s.ownL t = some c → s.ownL u = some d → t = u := by
    intro c d h1 h2
    have a := hi.a2 t c h1
    have b := hi.a2 u d h2
    rw [a] at b
    simp only [Option.some.injEq, Prod.mk.injEq] at b
    exact b.2
  refine ⟨?_, ?_, hO, hL⟩
  · intro h1 h2
    obtain ⟨c, hc⟩ := hi.p2 t h1
    obtain ⟨d, hd⟩ := hi.p2 u h2
    exact hO c d hc hd
  · intro h1 h2
    obtain ⟨c, hc⟩ := hi.p4 t (Or.inr h1)
    obtain ⟨d, hd⟩ := hi.p4 u (Or.inr h2)
    exact hL c d hc hd

/-- a thread is live: started and not finished -/
def Live (p : PC) : Prop := ¬ isEndPC p

/-- **C13_no_lost_wakeup.** A thread waiting on a channel that is still open: the map still
holds exactly that channel, and a live thread other than the waiter owns it (for the obtain
map: a thread that is inside the worker code). Closing and deleting are one atomic step
(`finish`, `ret`), so there is no state in which an open channel has left its map. -/
theorem C13_no_lost_wakeup {s : State} (hr : Reachable s) (t c : Nat) :
    (s.pc t = .waitLoad c → s.closedL c = false →
      ∃ u, s.loadCh = some (c, u) ∧ u ≠ t ∧ s.ownL u = some c ∧ Live (s.pc u)) ∧
    (s.pc t = .waitObtain c → s.closedO c = false →
      ∃ u, s.obtCh = some (c, u) ∧ u ≠ t ∧ s.ownO u = some c ∧ isWorkerPC (s.pc u)) := by
  have hi := inv_reachable hr
  constructor
  · intro hpc hcl
    obtain ⟨_, hnone, hex⟩ := hi.w1 t c hpc
    obtain ⟨u, hu⟩ := hex hcl
    obtain ⟨ho, _, _⟩ := hi.a1 c u hu
    refine ⟨u, hu, ?_, ho, ?_⟩
    · intro e; subst e; rw [hnone] at ho; cases ho
    · intro hend
      rw [(hi.p1 u hend).1] at ho; cases ho
  · intro hpc hcl
    obtain ⟨_, hex⟩ := hi.w2 t c hpc
    obtain ⟨u, hu⟩ := hex hcl
    obtain ⟨ho, _, _⟩ := hi.a3 c u hu
    have hw := hi.p3 u c ho
    refine ⟨u, hu, ?_, ho, hw⟩
    intro e; subst e
    rw [hpc] at hw
    rcases hw with h | ⟨b, h⟩ <;> cases h

/-- a channel registered in a map is open: there is no "closed but still registered" and,
with the previous theorem, no "open but no longer registered while somebody waits" -/
theorem C13_registered_open {s : State} (hr : Reachable s) (c u : Nat) :
    (s.loadCh = some (c, u) → s.closedL c = false) ∧ (s.obtCh = some (c, u) → s.closedO c = false) :=
  ⟨fun h => ((inv_reachable hr).a1 c u h).2.1, fun h => ((inv_reachable hr).a3 c u h).2.1⟩

/-- a channel is closed only by the thread that registered it, in the step that also deletes
it from the map -/
theorem C13_closed_only_by_owner {s s' : State} (e : Ev) (h : step true s e = some s') (c : Nat) :
    (s'.closedO c = true → s.closedO c = true ∨
      ∃ t ok, e = .finish t ok ∧ s.ownO t = some c ∧ s'.obtCh = none) ∧
    (s'.closedL c = true → s.closedL c = true ∨ ∃ t, e = .ret t ∧ s.ownL t = some c ∧ s'.loadCh = none) := by
  cases e with
  | finish t ok =>
    simp only [step] at h
    split at h
    · rename_i cc hpc ho
      simp only [Option.some.injEq] at h; subst h
      refine ⟨?_, fun h => Or.inl h⟩
      intro hc
      by_cases hcc : c = cc
      · subst hcc; exact Or.inr ⟨t, ok, rfl, ho, rfl⟩
      · simp only [upd_other _ _ _ _ hcc] at hc; exact Or.inl hc
    · rename_i b cc hpc ho
      simp only [Option.some.injEq] at h; subst h
      refine ⟨?_, fun h => Or.inl h⟩
      intro hc
      by_cases hcc : c = cc
      · subst hcc; exact Or.inr ⟨t, ok, rfl, ho, rfl⟩
      · simp only [upd_other _ _ _ _ hcc] at hc; exact Or.inl hc
    · cases h
  | ret t =>
    simp only [step] at h
    split at h
    · split at h
      · rename_i r hpc cc ho
        simp only [Option.some.injEq] at h; subst h
        refine ⟨fun h => Or.inl h, ?_⟩
        intro hc
        by_cases hcc : c = cc
        · subst hcc; exact Or.inr ⟨t, rfl, ho, rfl⟩
        · simp only [upd_other _ _ _ _ hcc] at hc; exact Or.inl hc
      · simp only [Option.some.injEq] at h; subst h
        exact ⟨fun h => Or.inl h, fun h => Or.inl h⟩
    · cases h
  | _ =>
    simp only [step] at h
    repeat' split at h
    all_goals first
      | (simp only [Option.some.injEq] at h; subst h; exact ⟨fun h => Or.inl h, fun h => Or.inl h⟩)
      | cases h

/-- **C13_released.** Whatever the worker's outcome (`ok` or not: success, issuer error, policy
denial, cancellation, time-out), its exit step is enabled, closes its channel and empties the
map in one step, and in the resulting state every thread that waits on that channel can take
its `wake` step at once. -/
theorem C13_released {s : State} (hr : Reachable s) (u c : Nat) (ho : s.ownO u = some c) (ok : Bool) :
    ∃ s', step true s (.finish u ok) = some s' ∧ s'.closedO c = true ∧ s'.obtCh = none ∧
      ∀ t, t ≠ u → s.pc t = .waitObtain c → ∃ s'', step true s' (.wake t) = some s'' ∧ s''.pc t = .lookup false := by
  have hi := inv_reachable hr
  have hw := hi.p3 u c ho
  have key : ∀ s', step true s (.finish u ok) = some s' → s'.closedO c = true ∧ s'.obtCh = none ∧
      ∀ t, t ≠ u → s.pc t = .waitObtain c → ∃ s'', step true s' (.wake t) = some s'' ∧ s''.pc t = .lookup false := by
    intro s' hs
    have hs' : s' = { s with pc := upd s.pc u (.unwind (if ok then .other else .err)), ownO := upd s.ownO u none,
                             obtCh := none, closedO := upd s.closedO c true } := by
      rcases hw with hpc | ⟨b, hpc⟩ <;> simp only [step, hpc, ho, Option.some.injEq] at hs <;> exact hs.symm
    subst hs'
    refine ⟨by simp, rfl, ?_⟩
    intro t htu ht
    refine ⟨{ s with pc := upd (upd s.pc u (.unwind (if ok then .other else .err))) t (.lookup false),
                     ownO := upd s.ownO u none, obtCh := none, closedO := upd s.closedO c true }, ?_, by simp⟩
    simp only [step, upd_other _ _ _ _ htu, ht, upd_same, if_true]
  cases hs : step true s (.finish u ok) with
  | none => rcases hw with hpc | ⟨b, hpc⟩ <;> simp [step, hpc, ho] at hs
  | some s' => exact ⟨s', rfl, key s' hs⟩

/-- … and the same for the load map: leaving getCertDuringHandshake closes and deletes the
registered load channel in one step, on every path (result `r` arbitrary), and releases every
waiter -/
theorem C13_released_load {s : State} (u c : Nat) (r : Res) (ho : s.ownL u = some c)
    (hpc : s.pc u = .unwind r) :
    ∃ s', step true s (.ret u) = some s' ∧ s'.closedL c = true ∧ s'.loadCh = none ∧
      ∀ t, t ≠ u → s.pc t = .waitLoad c → ∃ s'', step true s' (.wake t) = some s'' ∧ s''.pc t = .lookup false := by
  refine ⟨{ s with pc := upd s.pc u (.done r), ownL := upd s.ownL u none, loadCh := none,
                   closedL := upd s.closedL c true }, by simp only [step, hpc, ho], by simp, rfl, ?_⟩
  intro t htu ht
  refine ⟨{ s with pc := upd (upd s.pc u (.done r)) t (.lookup false), ownL := upd s.ownL u none, loadCh := none,
                   closedL := upd s.closedL c true }, ?_, by simp⟩
  simp only [step, upd_other _ _ _ _ htu, ht, upd_same, if_true]

/-- a thread that holds a registration is live, and a thread that holds the obtain channel is
inside the worker code, whose exit (previous theorems) is always enabled: a registration is
never orphaned -/
theorem C13_owner_live {s : State} (hr : Reachable s) (u c : Nat) :
    (s.ownL u = some c → Live (s.pc u)) ∧ (s.ownO u = some c → isWorkerPC (s.pc u)) := by
  have hi := inv_reachable hr
  refine ⟨?_, hi.p3 u c⟩
  intro h hend
  rw [(hi.p1 u hend).1] at h; cases h

/-- **C13_bounded.** Every waiting state has its time-out arm: the `timeout` step is enabled
in every state in which a thread waits, and takes it out of the wait with an error.
(Structural counterpart: every waiting `select` in the source has a timer arm — tie; the
numeric bounds `waiterTimeout` etc. are regenerated constants.) -/
theorem C13_bounded (s : State) (t c : Nat) (h : s.pc t = .waitLoad c ∨ s.pc t = .waitObtain c) :
    step true s (.timeout t) = some { s with pc := upd s.pc t (.unwind .err) } := by
  rcases h with h | h <;> simp only [step, h]

/-- nobody is stuck: every live thread has an enabled step (a spare idle index is needed
only where a goroutine is started) -/
theorem C13_progress {s : State} (hr : Reachable s) (t : Nat) (hl : Live (s.pc t))
    (u : Nat) (hu : u ≠ t ∧ s.pc u = .idle) :
    ∃ e, e.actor = t ∧ (step true s e).isSome = true := by
  have hi := inv_reachable hr
  cases hpc : s.pc t with
  | idle => exact absurd (Or.inl hpc) hl
  | done r => exact absurd (Or.inr ⟨r, hpc⟩) hl
  | lookup load => exact ⟨.look t false false false false, rfl, by simp [step, hpc]⟩
  | loadSF load =>
    refine ⟨.enterLoad t, rfl, ?_⟩
    simp only [step, hpc]
    split
    · rfl
    · split <;> rfl
  | waitLoad c => exact ⟨.timeout t, rfl, by simp [step, hpc]⟩
  | gate load => exact ⟨.gated t false .err, rfl, by simp [step, hpc]⟩
  | loading => exact ⟨.loaded t false false false false, rfl, by simp [step, hpc]⟩
  | maint tl rv =>
    refine ⟨.maintGo t false false, rfl, ?_⟩
    simp only [step, hpc]
    split <;> simp
  | obtainSF =>
    refine ⟨.enterObtain t, rfl, ?_⟩
    simp only [step, hpc]
    split <;> rfl
  | renewSF tl rv =>
    refine ⟨.enterRenew t u, rfl, ?_⟩
    simp only [step, hpc]
    split
    · split <;> rfl
    · split
      · simp [hu.1, hu.2]
      · rfl
  | waitObtain c => exact ⟨.timeout t, rfl, by simp [step, hpc]⟩
  | obtaining =>
    obtain ⟨c, hc⟩ := hi.p2 t (Or.inl hpc)
    exact ⟨.finish t true, rfl, by simp [step, hpc, hc]⟩
  | renewing bg =>
    obtain ⟨c, hc⟩ := hi.p2 t (Or.inr ⟨bg, hpc⟩)
    exact ⟨.finish t true, rfl, by simp [step, hpc, hc]⟩
  | unwind r =>
    refine ⟨.ret t, rfl, ?_⟩
    simp only [step, hpc]
    split <;> rfl

/-- the decision of renewDynamicCertificate as the LTS takes it -/
theorem C13_decision (s s' : State) (t u : Nat) (tl rv : Bool) (hpc : s.pc t = .renewSF tl rv)
    (h : step true s (.enterRenew t u) = some s') :
    match decision tl rv s.obtCh.isSome with
    | .serveCurrent => s'.pc t = .unwind .cur ∧ s'.obtCh = s.obtCh
    | .waitThenReenter => ∃ c w, s.obtCh = some (c, w) ∧ s'.pc t = .waitObtain c
    | .blockAndRenew => s'.pc t = .renewing false ∧ s'.obtCh = some (s.nextO, t)
    | .serveAndRenewInBackground => s'.pc t = .unwind .cur ∧ s'.pc u = .renewing true ∧ s'.obtCh = some (s.nextO, u) := by
  simp only [step, hpc] at h
  cases hch : s.obtCh with
  | some cw =>
    obtain ⟨c, w⟩ := cw
    simp only [hch] at h
    cases htr : (tl && !rv)
    · simp only [htr, Bool.false_eq_true, if_false, Option.some.injEq] at h
      subst h
      simp [decision, htr]
    · simp only [htr, if_true, Option.some.injEq] at h
      subst h
      simp [decision, htr, hch]
  | none =>
    simp only [hch] at h
    cases tl
    · simp only [Bool.false_eq_true, if_false, Option.some.injEq] at h
      subst h
      simp [decision]
    · simp only [if_true] at h
      split at h
      · rename_i hu
        simp only [Option.some.injEq] at h
        subst h
        simp [decision, upd_other _ _ _ _ (Ne.symm hu.1)]
      · cases h

/-- **C13_serve_while_renewing.** A handshake that finds its certificate due but still valid
(`timeLeft > 0`) and not revoked is answered with the current certificate by its very next
step — whether a renewal is already in flight (nothing is registered, nothing waited for) or
not (the renewal goes to a goroutine) — and never enters a waiting state. -/
theorem C13_serve_while_renewing (s s' : State) (t : Nat) (e : Ev) (hpc : s.pc t = .renewSF true false)
    (ha : e.actor = t) (h : step true s e = some s') :
    s'.pc t = .unwind .cur ∧ (∀ c, s'.pc t ≠ .waitObtain c ∧ s'.pc t ≠ .waitLoad c) := by
  have key : s'.pc t = .unwind .cur := by
    cases e <;> simp only [Ev.actor] at ha <;> subst ha <;> simp only [step, hpc] at h <;> try (cases h; done)
    rename_i u
    have := C13_decision s s' _ u true false hpc (by simp only [step, hpc]; exact h)
    cases hch : s.obtCh with
    | some cw => simp only [decision, hch, Option.isSome_some, if_true, Bool.not_false, Bool.and_self] at this; exact this.1
    | none => simp only [decision, hch, Option.isSome_none, Bool.false_eq_true, if_false, if_true] at this; exact this.1
  refine ⟨key, ?_⟩
  intro c
  rw [key]
  exact ⟨by simp, by simp⟩

/-- … and its result is the current certificate -/
theorem C13_serve_result (s s' : State) (t : Nat) (e : Ev) (hpc : s.pc t = .unwind .cur)
    (ha : e.actor = t) (h : step true s e = some s') : s'.pc t = .done .cur := by
  cases e <;> simp only [Ev.actor] at ha <;> subst ha <;> simp only [step, hpc] at h <;> try (cases h; done)
  split at h <;> (simp only [Option.some.injEq] at h; subst h; simp)

/-- **C13_no_expired_while_renewable.** A handshake whose certificate has expired
(`timeLeft ≤ 0`) is not answered from the renew site: its next step either makes it wait on
the channel of the renewal in flight, or makes it the (foreground) renewer itself. -/
theorem C13_no_expired_while_renewable (s s' : State) (t : Nat) (e : Ev) (rv : Bool)
    (hpc : s.pc t = .renewSF false rv) (ha : e.actor = t) (h : step true s e = some s') :
    (∃ c w, s.obtCh = some (c, w) ∧ s'.pc t = .waitObtain c) ∨
    (s.obtCh = none ∧ s'.pc t = .renewing false) := by
  cases e <;> simp only [Ev.actor] at ha <;> subst ha <;> simp only [step, hpc] at h <;> try (cases h; done)
  rename_i u
  have := C13_decision s s' _ u false rv hpc (by simp only [step, hpc]; exact h)
  cases hch : s.obtCh with
  | some cw =>
    simp only [decision, hch, Option.isSome_some, if_true, Bool.false_and, Bool.false_eq_true, if_false] at this
    obtain ⟨c, w, h1, h2⟩ := this
    exact Or.inl ⟨c, w, by simpa [hch] using h1, h2⟩
  | none =>
    simp only [decision, hch, Option.isSome_none, Bool.false_eq_true, if_false] at this
    exact Or.inr ⟨rfl, this.1⟩

/-- … and a waiting thread leaves its wait only because the channel has been closed (the
worker finished, `C13_closed_only_by_owner`) or because its deadline passed -/
theorem C13_wait_ends (s s' : State) (t c : Nat) (e : Ev) (hpc : s.pc t = .waitObtain c)
    (ha : e.actor = t) (h : step true s e = some s') :
    (e = .wake t ∧ s.closedO c = true ∧ s'.pc t = .lookup false) ∨ (e = .timeout t ∧ s'.pc t = .unwind .err) := by
  cases e <;> simp only [Ev.actor] at ha <;> subst ha <;> simp only [step, hpc] at h <;> try (cases h; done)
  · split at h
    · rename_i hc
      simp only [Option.some.injEq] at h; subst h
      exact Or.inl ⟨rfl, hc, by simp⟩
    · cases h
  · simp only [Option.some.injEq] at h; subst h
    exact Or.inr ⟨rfl, by simp⟩

/-! ## D9: the history that the unrepaired code allows -/

/-- the defective history (unrepaired `enterLoad`): thread 1 renews in the foreground (cache
hit, expired); thread 0 misses the cache, becomes the LOAD worker, loads the expired bundle,
finds the renewal in flight and waits for it; the renewal is denied by the policy (the
certificate leaves the cache); thread 0 re-enters, misses the cache, finds a load channel
registered — its own — and waits on it. -/
def d9Script : List Ev :=
  [.begin 1, .look 1 true true false false, .maintGo 1 false false, .enterRenew 1 9,
   .begin 0, .look 0 false false false false, .enterLoad 0, .gated 0 true .err,
   .loaded 0 true true false false, .maintGo 0 false false, .enterRenew 0 9,
   .finish 1 false, .wake 0, .look 0 false false false false, .enterLoad 0]

/-- unrepaired: thread 0 ends up waiting on its OWN open load channel — nobody else can ever
close it, only the 2-minute timer ends the wait (D9) -/
theorem C13_D9_unrepaired :
    ∃ s, run false init d9Script = some s ∧ s.pc 0 = .waitLoad 0 ∧ s.ownL 0 = some 0 ∧
      s.loadCh = some (0, 0) ∧ s.closedL 0 = false := by
  refine ⟨_, rfl, ?_, ?_, ?_, ?_⟩ <;> decide

/-- repaired: the same script leaves thread 0 at the policy gate of the re-entry, not waiting -/
theorem C13_D9_repaired :
    ∃ s, run true init d9Script = some s ∧ s.pc 0 = .gate false ∧ Reachable s :=
  ⟨_, rfl, by decide, run_reachable _ _ d9Script Reachable.init rfl⟩

/-! ## non-vacuity: reachable states satisfying the hypotheses above -/

/-- three threads: 0 obtains (worker inside the issuer), 1 waits on 0's load channel, 2 found
the certificate due but valid while 3's renewal … (separately below) -/
def obtainScript : List Ev :=
  [.begin 0, .look 0 false false false false, .enterLoad 0, .gated 0 true .err, .loaded 0 false false false false,
   .enterObtain 0, .begin 1, .look 1 false false false false, .enterLoad 1]

example : ∃ s, run true init obtainScript = some s ∧ s.pc 0 = .obtaining ∧ s.pc 1 = .waitLoad 0 ∧
    s.closedL 0 = false ∧ s.ownO 0 = some 0 := ⟨_, rfl, by decide, by decide, by decide, by decide⟩

/-- a renewal in flight (thread 1, foreground, expired certificate) and a second thread with an
expired certificate at the renew site (hypothesis of C13_no_expired_while_renewable), then
waiting on the obtain channel (hypothesis of C13_no_lost_wakeup / C13_wait_ends) -/
def renewScript : List Ev :=
  [.begin 1, .look 1 true true false false, .maintGo 1 false false, .enterRenew 1 9,
   .begin 2, .look 2 true true false false, .maintGo 2 false false]

example : ∃ s, run true init renewScript = some s ∧ s.pc 1 = .renewing false ∧ s.pc 2 = .renewSF false false ∧
    s.obtCh = some (0, 1) := ⟨_, rfl, by decide, by decide, by decide⟩

example : ∃ s, run true init (renewScript ++ [.enterRenew 2 9]) = some s ∧ s.pc 2 = .waitObtain 0 ∧
    s.closedO 0 = false := ⟨_, rfl, by decide, by decide⟩

/-- a due but valid certificate with a renewal (goroutine 9) in flight: the hypothesis of
C13_serve_while_renewing, in both variants (in flight / not yet) -/
def serveScript : List Ev :=
  [.begin 1, .look 1 true true true false, .maintGo 1 false false, .enterRenew 1 9,
   .begin 2, .look 2 true true true false, .maintGo 2 false false]

example : ∃ s, run true init serveScript = some s ∧ s.pc 2 = .renewSF true false ∧ s.pc 9 = .renewing true ∧
    s.pc 1 = .unwind .cur ∧ s.obtCh = some (0, 9) := ⟨_, rfl, by decide, by decide, by decide, by decide⟩

example : decision true false true = .serveCurrent ∧ decision false false true = .waitThenReenter ∧
    decision true true true = .waitThenReenter ∧ decision false false false = .blockAndRenew ∧
    decision true false false = .serveAndRenewInBackground := by decide

end CM.Props.C13
