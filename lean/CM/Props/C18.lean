import CM.Proofs.Clean
/-!
# C18 — storage cleaning removes only expired material and nothing else

Theorems for every store (any association list of keys and values), every option
record and every `now`. `s' = (clean o now s).1` is the store after one `CleanStorage`.
-/
namespace CM.Clean

theorem certs_ne_last : certsC ≠ lastC := by decide
theorem ocsp_ne_last : ocspC ≠ lastC := by decide
theorem ocsp_ne_certs : ocspC ≠ certsC := by decide

/-- writing `last_clean.json` does not disturb a justification -/
theorem justified_put {o : Opts} {now : Int} {s cur : Store} (v : Val) {k : Key}
    (h : Justified o now s cur k) : Justified o now s (put lastKey v cur) k := by
  rcases h with h | ⟨ho, i, st, hk, hd, hall⟩
  · exact Or.inl h
  · refine Or.inr ⟨ho, i, st, hk, hd, ?_⟩
    intro k' hp
    rw [get_put]
    have : lastKey ≠ k' := by
      intro he
      subst he
      subst hk
      simp only [lastKey, List.cons_prefix_cons] at hp
      exact certs_ne_last hp.1
    rw [if_neg this]
    exact hall k' hp

/-- the core statement: apart from `last_clean.json`, every key has its original value
after the cleaning, or is gone and justified -/
theorem clean_core (o : Opts) (now : Int) (s : Store) (k : Key) (hk : k ≠ lastKey) :
    get (clean o now s).1 k = get s k ∨
    (get (clean o now s).1 k = none ∧ Justified o now s (clean o now s).1 k) := by
  unfold clean
  split
  · exact Or.inl rfl
  · exact Or.inl rfl
  · exact Or.inl rfl
  · simp only []
    rw [get_put, if_neg (Ne.symm hk)]
    rcases body_inv o now s k with h | ⟨hn, hj⟩
    · exact Or.inl h
    · exact Or.inr ⟨hn, justified_put _ hj⟩

/-- **only expired material is removed**: a key that disappears is (or lies below) a direct
child of `ocsp/` that is unparseable or past its NextUpdate, or the `.crt`/`.key`/`.json` of
a certificate with `now − expiresAt ≥ grace`, or it is a site folder left empty -/
theorem C18_only_expired (o : Opts) (now : Int) (s : Store) (k : Key)
    (hpres : get s k ≠ none) (hgone : get (clean o now s).1 k = none) :
    Justified o now s (clean o now s).1 k := by
  by_cases hk : k = lastKey
  · -- last_clean.json itself is never removed
    subst hk
    unfold clean at hgone
    split at hgone
    · exact absurd hgone hpres
    · exact absurd hgone hpres
    · exact absurd hgone hpres
    · simp [get_put] at hgone
  · rcases clean_core o now s k hk with h | ⟨_, hj⟩
    · rw [h] at hgone; exact absurd hgone hpres
    · exact hj

/-- **frame**: every other key — accounts, locks, unexpired bundles, foreign files,
`*.compromised`, directories — has exactly its original value; nothing is created -/
theorem C18_frame (o : Opts) (now : Int) (s : Store) (k : Key) (hk : k ≠ lastKey)
    (hnj : ¬ Justified o now s (clean o now s).1 k) : get (clean o now s).1 k = get s k := by
  rcases clean_core o now s k hk with h | ⟨_, hj⟩
  · exact h
  · exact absurd hj hnj

/-- no value is ever altered: a key that is still there has its original value -/
theorem C18_never_altered (o : Opts) (now : Int) (s : Store) (k : Key) (hk : k ≠ lastKey) (v : Val)
    (h : get (clean o now s).1 k = some v) : get s k = some v := by
  rcases clean_core o now s k hk with h' | ⟨hn, _⟩
  · rw [← h', h]
  · rw [hn] at h; cases h

/-- with a non-negative grace period, the `.crt`, `.key` and `.json` of a certificate that
has not expired (`now < expiresAt`) are kept with their values -/
theorem C18_unexpired_kept (o : Opts) (now : Int) (s : Store) (hg : 0 ≤ o.grace)
    (i st stem : Comp) (r : Readings) (na : Int)
    (hc : get s [certsC, i, st, stem ++ crtExt] = some (.file r)) (hna : r.cert = some na)
    (hlive : now < expiresAt na) (ext : List Char)
    (hext : ext = crtExt ∨ ext = keyExt ∨ ext = jsonExt) :
    get (clean o now s).1 [certsC, i, st, stem ++ ext] = get s [certsC, i, st, stem ++ ext] := by
  apply C18_frame
  · simp [lastKey]
  · intro hj
    rcases hj with ⟨d, hd, hs | hcd⟩ | ⟨_, i', st', hk, _⟩
    · obtain ⟨_, c, _, hdc, _⟩ := hs
      subst hdc
      simp only [List.cons_prefix_cons] at hd
      exact ocsp_ne_certs hd.1
    · obtain ⟨_, i', st', stem', r', na', hc', hna', hexp, hdd⟩ := hcd
      -- d has four components and is a prefix of a key with four components: they are equal
      have hlen : ∀ a : Comp, d = [certsC, i', st', a] → [certsC, i', st', a] = [certsC, i, st, stem ++ ext] := by
        intro a ha
        subst ha
        simp only [List.cons_prefix_cons, List.prefix_nil] at hd
        obtain ⟨_, h2, h3, h4, _⟩ := hd
        rw [h2, h3, h4]
      have hsame : stem' = stem := by
        -- the stems agree because the extensions have distinct last characters / equal length
        have key : ∀ e' : List Char, (e' = crtExt ∨ e' = keyExt ∨ e' = jsonExt) →
            stem' ++ e' = stem ++ ext → stem' = stem := by
          intro e' he' heq
          have hr := congrArg List.reverse heq
          simp only [List.reverse_append] at hr
          rcases he' with rfl | rfl | rfl <;> rcases hext with rfl | rfl | rfl <;>
            simp [crtExt, keyExt, jsonExt] at hr <;>
            (try exact hr)
        rcases hdd with h | h | h
        · have := hlen _ h; simp only [List.cons.injEq, true_and, and_true] at this
          exact key _ (Or.inl rfl) this.2.2
        · have := hlen _ h; simp only [List.cons.injEq, true_and, and_true] at this
          exact key _ (Or.inr (Or.inl rfl)) this.2.2
        · have := hlen _ h; simp only [List.cons.injEq, true_and, and_true] at this
          exact key _ (Or.inr (Or.inr rfl)) this.2.2
      have hi : i' = i ∧ st' = st := by
        rcases hdd with h | h | h <;>
          (have := hlen _ h; simp only [List.cons.injEq, true_and, and_true] at this; exact ⟨this.1, this.2.1⟩)
      obtain ⟨rfl, rfl⟩ := hi
      subst hsame
      rw [hc] at hc'
      cases hc'
      rw [hna] at hna'
      cases hna'
      omega
    · simp at hk

/-- **options**: nothing under `ocsp/` changes unless `OCSPStaples` is set -/
theorem C18_options_ocsp (o : Opts) (now : Int) (s : Store) (ho : o.ocsp = false) (t : Key) :
    get (clean o now s).1 (ocspC :: t) = get s (ocspC :: t) := by
  apply C18_frame
  · simp only [lastKey, ne_eq, List.cons.injEq, not_and]
    intro h; exact absurd h ocsp_ne_last
  · intro hj
    rcases hj with ⟨d, hd, hs | hcd⟩ | ⟨_, i', st', hk, _⟩
    · rw [hs.1] at ho; cases ho
    · obtain ⟨_, i', st', stem', r', na', _, _, _, hdd⟩ := hcd
      rcases hdd with h | h | h <;>
        (subst h; simp only [List.cons_prefix_cons] at hd; exact ocsp_ne_certs hd.1.symm)
    · simp only [List.cons.injEq] at hk
      exact ocsp_ne_certs hk.1

/-- **options**: nothing under `certificates/` changes unless `ExpiredCerts` is set -/
theorem C18_options_certs (o : Opts) (now : Int) (s : Store) (ho : o.certs = false) (t : Key) :
    get (clean o now s).1 (certsC :: t) = get s (certsC :: t) := by
  apply C18_frame
  · simp only [lastKey, ne_eq, List.cons.injEq, not_and]
    intro h; exact absurd h certs_ne_last
  · intro hj
    rcases hj with ⟨d, hd, hs | hcd⟩ | ⟨hc, _⟩
    · obtain ⟨_, c, _, hdc, _⟩ := hs
      subst hdc
      simp only [List.cons_prefix_cons] at hd
      exact ocsp_ne_certs hd.1
    · rw [hcd.1] at ho; cases ho
    · rw [hc] at ho; cases ho

/-- keys outside `ocsp/` and `certificates/` (accounts, locks, anything else) never change,
whatever the options -/
theorem C18_unrelated (o : Opts) (now : Int) (s : Store) (c : Comp) (t : Key)
    (h1 : c ≠ ocspC) (h2 : c ≠ certsC) (h3 : c :: t ≠ lastKey) :
    get (clean o now s).1 (c :: t) = get s (c :: t) := by
  apply C18_frame _ _ _ _ h3
  intro hj
  rcases hj with ⟨d, hd, hs | hcd⟩ | ⟨_, i', st', hk, _⟩
  · obtain ⟨_, c', _, hdc, _⟩ := hs
    subst hdc
    simp only [List.cons_prefix_cons] at hd
    exact h1 hd.1.symm
  · obtain ⟨_, i', st', stem', r', na', _, _, _, hdd⟩ := hcd
    rcases hdd with h | h | h <;>
      (subst h; simp only [List.cons_prefix_cons] at hd; exact h2 hd.1.symm)
  · simp only [List.cons.injEq] at hk
    exact h2 hk.1

/-- **interval**: a recorded cleaning younger than `Interval` ⇒ the store is unchanged and
no storage call other than lock/unlock is made -/
theorem C18_interval (o : Opts) (now : Int) (s : Store) (r : Readings) (t : Int) (who : List Char)
    (hi : o.interval > 0) (hl : get s lastKey = some (.file r)) (hr : r.last = some (some t, who))
    (hrecent : now - t < o.interval) :
    (clean o now s).1 = s ∧ acts o now s = [.lock, .unlock] := by
  have hc : lastCheck o now s = .recent := by
    unfold lastCheck
    simp [hi, hl, hr, hrecent]
  unfold acts clean
  simp [hc]

/-- **records**: a cleaning either leaves the store exactly as it was (skipped, or the
record could not be read) or ends with `last_clean.json` holding `now` and the instance id -/
theorem C18_records (o : Opts) (now : Int) (s : Store) :
    ((clean o now s).2.ran = false ∧ (clean o now s).1 = s) ∨
    ((clean o now s).2.ran = true ∧ get (clean o now s).1 lastKey = some (record now o.inst)) := by
  unfold clean
  split
  · exact Or.inl ⟨rfl, rfl⟩
  · exact Or.inl ⟨rfl, rfl⟩
  · exact Or.inl ⟨rfl, rfl⟩
  · right; simp [get_put]

/-- … and it does run whenever no interval is configured, no cleaning is recorded, or
the recorded one is at least `Interval` old -/
theorem C18_runs_when_due (o : Opts) (now : Int) (s : Store)
    (h : o.interval ≤ 0 ∨ get s lastKey = none ∨
      ∃ r t who, get s lastKey = some (.file r) ∧ r.last = some (t, who) ∧
        ∀ t', t = some t' → now - t' ≥ o.interval) :
    (clean o now s).2.ran = true := by
  have hc : lastCheck o now s = .go := by
    unfold lastCheck
    rcases h with h | h | ⟨r, t, who, hl, hr, ht⟩
    · have : ¬ o.interval > 0 := by omega
      simp [this]
    · split
      · simp [h]
      · rfl
    · split
      · simp only [hl, hr]
        cases t with
        | none => rfl
        | some t' =>
          have := ht t' rfl
          have : ¬ now - t' < o.interval := by omega
          simp [this]
      · rfl
  unfold clean
  simp [hc]

/-- **locked**: the mutating storage calls of a cleaning are `Lock(storage_clean)`, then only
deletions and the final store of `last_clean.json`, then `Unlock` — the whole body lies in
the critical section (that the real function has this shape is `C18_tie_locked`) -/
theorem C18_locked (o : Opts) (now : Int) (s : Store) :
    ∃ body, acts o now s = .lock :: body ++ [.unlock] ∧
      ∀ a ∈ body, (∃ k, a = .delete k) ∨ a = .store lastKey := by
  refine ⟨_, rfl, ?_⟩
  intro a ha
  rw [List.mem_append] at ha
  rcases ha with ha | ha
  · rw [List.mem_map] at ha
    obtain ⟨k, _, hk⟩ := ha
    exact Or.inl ⟨k, hk.symm⟩
  · split at ha
    · simp at ha; exact Or.inr ha
    · cases ha

/-! ### non-vacuity -/

def day : Int := 86400 * sec
def other : Val := .file { staple := none, cert := none, last := none }
def certV (na : Int) : Val := .file { staple := none, cert := some na, last := none }
def stapleV (nu : Int) : Val := .file { staple := some (some nu), cert := none, last := none }
def k (l : List String) : Key := l.map String.toList

/-- two issuers; a long-expired bundle, one expired exactly the grace period ago, a live one,
a foreign file directly under an issuer, a corrupt and a fresh staple, an account and a lock -/
def exStore : Store := [
  (k ["acme", "acct.json"], other),
  (k ["certificates", "ca1"], .dir),
  (k ["certificates", "ca1", "foreign.txt"], other),
  (k ["certificates", "ca1", "old.example"], .dir),
  (k ["certificates", "ca1", "old.example", "old.example.crt"], certV (100 * day)),
  (k ["certificates", "ca1", "old.example", "old.example.json"], other),
  (k ["certificates", "ca1", "old.example", "old.example.key"], other),
  (k ["certificates", "ca1", "live.example", "live.example.crt"], certV (300 * day)),
  (k ["certificates", "ca1", "live.example", "live.example.key"], other),
  (k ["certificates", "ca2", "edge.example", "edge.example.crt"], certV (190 * day - sec)),
  (k ["certificates", "ca2", "edge.example", "edge.example.key.compromised"], other),
  (k ["locks", "issue_cert_live.example.lock"], other),
  (k ["ocsp", "corrupt"], other),
  (k ["ocsp", "fresh"], stapleV (201 * day))]

def exOpts : Opts := { interval := day, ocsp := true, certs := true, grace := 10 * day, inst := "i1".toList }

/-- what is left after cleaning at day 200 with a 10-day grace period -/
example : ((clean exOpts (200 * day) exStore).1.map (·.1)) = [
    lastKey,
    k ["acme", "acct.json"],
    k ["certificates", "ca1"],
    k ["certificates", "ca1", "foreign.txt"],
    k ["certificates", "ca1", "live.example", "live.example.crt"],
    k ["certificates", "ca1", "live.example", "live.example.key"],
    k ["certificates", "ca2", "edge.example", "edge.example.key.compromised"],
    k ["locks", "issue_cert_live.example.lock"],
    k ["ocsp", "fresh"]] := by decide

/-- hypotheses of `C18_only_expired` hold of a deleted key, of `C18_unexpired_kept` of a live one -/
example : get exStore (k ["certificates", "ca1", "old.example", "old.example.key"]) ≠ none ∧
    get (clean exOpts (200 * day) exStore).1 (k ["certificates", "ca1", "old.example", "old.example.key"]) = none := by
  decide
example : (200 * day : Int) < expiresAt (300 * day) ∧ (0 : Int) ≤ exOpts.grace := by decide
/-- one nanosecond earlier the certificate that expired exactly the grace period ago is kept -/
example : get (clean exOpts (200 * day - 1) exStore).1 (k ["certificates", "ca2", "edge.example", "edge.example.crt"]) ≠ none := by
  decide
/-- the second cleaning one hour later is skipped (`C18_interval`), one a day later is not -/
example : (clean exOpts (200 * day + 3600 * sec) (clean exOpts (200 * day) exStore).1).2.ran = false := by decide
example : (clean exOpts (201 * day) (clean exOpts (200 * day) exStore).1).2.ran = true := by decide
example : acts exOpts (200 * day) exStore ≠ [.lock, .unlock] := by decide

/-- the executable specification the driver evaluates on the IMPLEMENTATION's observed
before/after difference is sound for `Justified`: a deletion it accepts is justified -/
theorem C18_spec_sound (o : Opts) (now : Int) (s s' : Store) (k : Key)
    (h : justifiedB o now s s' k = true) : Justified o now s s' k :=
  justifiedB_sound h

/-- … and it accepts everything the model does (so a correct implementation is never blamed
for a deletion the model also makes): for a key the cleaning removes, `Justified` holds -/
example : justifiedB exOpts (200 * day) exStore (clean exOpts (200 * day) exStore).1
    (k ["certificates", "ca1", "old.example", "old.example.key"]) = true := by decide
example : justifiedB exOpts (200 * day) exStore (clean exOpts (200 * day) exStore).1
    (k ["certificates", "ca1", "foreign.txt"]) = false := by decide

end CM.Clean
