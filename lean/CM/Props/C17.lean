import CM.Proofs.RateLimit
/-!
# C17 — the rate limiter never admits more than N events per window

Theorems about **every** run of the model `CM.RateLimit.step` (ratelimiter.go: `loop`,
`permit`, `Wait`, `Allow`, `SetMaxEvents`, `SetWindow`, `Stop`) — any number of waiters, any
arrival pattern, any interleaving of reconfigurations with the steps of the scheduling
goroutine, any delay between a hand-off and its record.

`s.adm` is the list of admission (ticket hand-off) instants since the last effective
change of configuration, newest first; `s.ring.length` is the limit `N`; `s.W` the window.
"After the limit or the window has been changed" is read as in DESIGN.md §9: the bound is
claimed for the admissions of a period of constant configuration, including the one
admission that was scheduled before the change and completes after it.
-/
namespace CM.RateLimit
open Abs

/-! ### the ring -/

/-- In every reachable state the cursor is inside the ring, the newest `min(N, k)` slots
(read from the cursor, oldest first) hold exactly the last `k` record instants made since
the last configuration change, in order — whatever the ring held at the change —, and no
slot lies in the future. -/
theorem C17_ring_inv {s : St} (h : Reachable s) :
    CurOK s.ring s.cursor ∧
    (∀ i t, s.recs[i]? = some t → i < s.ring.length →
        (view s.ring s.cursor)[s.ring.length - 1 - i]? = some (some t)) ∧
    (∀ t, some t ∈ s.ring → t ≤ s.now) := by
  have hi := inv_reachable h
  refine ⟨hi.r.cur, ?_, hi.p.rpast⟩
  intro i t ht hlt
  have hlen : i < s.recs.length := by
    rcases Nat.lt_or_ge i s.recs.length with h' | h'
    · exact h'
    · simp [List.getElem?_eq_none h'] at ht
  have := hi.r.a.view i (by show i < (view s.ring s.cursor).length; rw [view_length]; exact hlt) hlen
  simp only [abs, view_length] at this
  rw [this, ht]

/-- A limiter whose limit was never changed (any number of `SetWindow`s): the slots not yet
overwritten — the first `N - k` of the view after `k` records in all — are still zero
("zeros first"); with `C17_ring_inv` this fixes the whole ring. -/
theorem C17_ring_zeros_first {N W T : Nat} (hv : ¬ (N = 0 ∧ W ≠ 0)) (es : List Ev) (s : St)
    (hr : run (init N W T) es = some s) (hns : ∀ e ∈ es, ∀ n, e ≠ Ev.setMax n) :
    s.ring.length = N ∧ ∀ j, j + s.nrec < N → (view s.ring s.cursor)[j]? = some none := by
  have h0 : ZInv N (init N W T) := by
    refine ⟨List.length_replicate, ?_⟩
    intro j hj
    show (view (List.replicate N none) 0)[j]? = some none
    rw [view_zero, List.getElem?_replicate, if_pos (by omega)]
  have := zinv_run (inv_init ⟨N, W, T, hv, rfl⟩) h0 es s hr hns
  exact ⟨this.1, this.2⟩

/-! ### the sliding-window bound -/

/-- **Headline.** In every reachable state — after any history of waiting, cancelling,
`SetMaxEvents` and `SetWindow` — any `N + 1` consecutive admissions of the current period of
constant configuration span at least `W`. -/
theorem C17_bound {s : St} (h : Reachable s) :
    ∀ (i x y : Nat), s.adm[i]? = some x → s.adm[i + s.ring.length]? = some y → y + s.W ≤ x :=
  bound_of_inv (inv_reachable h)

/-- **Headline, on histories.** The executable specification `boundOK` — the fold of `checkAdm`,
the function the driver evaluates on the admission instants of the IMPLEMENTATION — accepts what an
observer sees of any run of the model from `NewRateLimiter(N, W)`: in every period of
constant configuration, any `N + 1` consecutive admissions span at least `W`. -/
theorem C17_bound_trace {s0 : St} (h0 : Init s0) (es : List Ev) (s : St) (hr : run s0 es = some s) :
    boundOK s0.ring.length s0.W [] (observe s0 es) = true := by
  have := boundOK_run (inv_init h0) es s hr
  obtain ⟨N, W, T, _, rfl⟩ := h0
  exact this

/-- **The statement, literally.** In every reachable state, every interval `[a, a + W)`
contains at most `N` of the admissions of the current period of constant configuration. -/
theorem C17_window_count {s : St} (h : Reachable s) (a : Nat) :
    (s.adm.filter (fun x => decide (a ≤ x ∧ x < a + s.W))).length ≤ s.ring.length :=
  count_window (inv_reachable h).p.sorted (C17_bound h) a

/-- the instant written by a `record` is never earlier than the hand-off it belongs to
(the code calls `time.Now()` after the ticket was received) — the reason the ring
under-approximates nothing. -/
theorem C17_record_after_handoff {s : St} (h : Reachable s) (hp : pend s.phase = 0) :
    ∀ (i x y : Nat), s.adm[i]? = some x → s.recs[i]? = some y → x ≤ y := by
  intro i x y hx hy
  have hi := (inv_reachable h).r.a
  have hc : counted (abs s) = s.adm := by
    apply counted_eq_adm
    show s.phase ≠ Phase.recording true
    intro h'; rw [h'] at hp; simp [pend] at hp
  exact hi.pairE i x y (by rw [hc]; exact hx) hy

/-! ### cancellation -/

/-- A waiter that returned `context.Canceled` never received a ticket; records correspond
one-to-one to hand-offs (`nrec` records for the first `nrec` hand-offs), so none is
attributed to it; cancelling touches nothing but the waiter itself (no slot, no time), and
afterwards no ticket can go to that waiter. -/
theorem C17_cancel_no_slot {s : St} (h : Reachable s) (w : Nat) :
    (s.ws w = .cancelled → w ∉ s.got) ∧
    s.nrec ≤ s.got.length ∧
    (∀ s', step s (.cancel w) = some s' →
        s'.ring = s.ring ∧ s'.cursor = s.cursor ∧ s'.adm = s.adm ∧ s'.got = s.got ∧
        s'.nrec = s.nrec ∧ s'.phase = s.phase ∧ s'.now = s.now ∧ s'.ws w = .cancelled) ∧
    (s.ws w = .cancelled → step s (.handoff w) = none ∧ step s (.allow w) = none ∧
        step s (.call w) = none) := by
  have hi := (inv_reachable h).w
  refine ⟨?_, ?_, ?_, ?_⟩
  · intro hc hg
    have := (hi.gotI w).mp hg
    rw [hc] at this; cases this
  · have := hi.nrecI; omega
  · intro s' hs
    simp only [step] at hs
    split at hs
    · simp only [Option.some.injEq] at hs; subst hs
      exact ⟨rfl, rfl, rfl, rfl, rfl, rfl, rfl, setW_same _ _ _⟩
    · simp at hs
  · intro hc
    refine ⟨?_, ?_, ?_⟩
    · simp only [step]; split
      · simp [hc]
      · rfl
    · simp [step, hc]
    · simp [step, hc]

/-! ### zero window, invalid configuration -/

/-- With a zero window an iteration that read the configuration never sleeps: its timer
is due at once (`fire` is enabled in the very state `compute` produced, and stays so). -/
theorem C17_zero_window {s : St} (h : Reachable s) (hW : s.W = 0) (t : Nat)
    (hp : s.phase = .sleeping t true) : t ≤ s.now ∧ (step s .fire).isSome = true := by
  have := (inv_reachable h).p.slpW t hp
  have hle : t ≤ s.now := by omega
  refine ⟨hle, ?_⟩
  simp [step, hp, hle]

/-- … and with an empty ring (`maxEvents = 0`, limiting disabled) `compute` goes straight to
offering the ticket; the loop's `panic("invalid configuration")` is unreachable. -/
theorem C17_no_panic {s : St} (h : Reachable s) (h0 : s.ring.length = 0) :
    s.W = 0 ∧ (s.phase = .idle → (step s .compute).map (·.phase) = some (.offering true)) := by
  have hz := (inv_reachable h).r.a.zero
  have hW : s.W = 0 := hz (by
    show view s.ring s.cursor = []
    exact view_eq_nil.mpr (List.eq_nil_of_length_eq_zero h0))
  refine ⟨hW, ?_⟩
  intro hp
  simp [step, hp, h0, hW]

/-! ### SetMaxEvents -/

/-- The two loops of `SetMaxEvents(n)` (fast-forward, copy until full or "come full circle")
install — with cursor 0 — the newest `n` timestamps in their order when shrinking, and all
timestamps followed by free (zero) slots when growing. -/
theorem C17_resize_keeps_newest {ring : List (Option Nat)} {cursor : Nat} (hc : CurOK ring cursor) (n : Nat) :
    resize ring cursor n =
      (if n ≤ ring.length then (view ring cursor).drop (ring.length - n)
       else view ring cursor ++ List.replicate (n - ring.length) none) ∧
    (resize ring cursor n).length = n := by
  refine ⟨?_, resize_length n⟩
  rw [resize_eq_spec hc]
  unfold resizeSpec
  rw [view_length]

/-- in a reachable state, therefore: after an effective `setMax n` the view is the old
view's newest `n` entries (or all of them plus free slots) -/
theorem C17_setMax_view {s s' : St} (h : Reachable s) (n : Nat) (hs : step s (.setMax n) = some s')
    (hne : n ≠ s.ring.length) :
    view s'.ring s'.cursor = resizeSpec (view s.ring s.cursor) n := by
  have hc := (inv_reachable h).r.cur
  simp only [step] at hs
  split at hs
  · simp at hs
  · simp only [Option.some.injEq] at hs; subst hs
    show view (resize s.ring s.cursor n) 0 = _
    rw [view_zero, resize_eq_spec hc]

/-- `SetWindow` — accepted or refused, effective or not — leaves the remembered admissions
alone: the ring, the cursor and the record of admissions are those of before (the driver's
rule `window-change-forgot-admissions` is this statement on the implementation's `Q W Q`) -/
theorem C17_setWindow_keeps_ring {s s' : St} (w : Nat) (hs : step s (.setWindow w) = some s') :
    s'.ring = s.ring ∧ s'.cursor = s.cursor ∧ s'.got = s.got := by
  simp only [step] at hs
  split at hs
  · simp at hs
  · split at hs <;> (simp only [Option.some.injEq] at hs; subst hs; exact ⟨rfl, rfl, rfl⟩)

/-! ### non-vacuity: concrete runs that exercise the hypotheses -/

/-- N = 2, W = 10: two admissions at 0, the third must wait until 10 -/
def exRun : List Ev :=
  [.compute, .fire, .call 0, .call 1, .call 2, .handoff 0, .record, .compute, .fire, .handoff 1,
   .record, .compute, .tick 10, .fire, .handoff 2]

example : (run (init 2 10 0) exRun).map (·.adm) = some [10, 0, 0] := by decide
example : (run (init 2 10 0) exRun).map (fun s => (s.ring, s.cursor)) = some ([some 0, some 0], 0) := by decide
example : Reachable ((run (init 2 10 0) exRun).get (by decide)) :=
  ⟨init 2 10 0, exRun, ⟨2, 10, 0, by decide, rfl⟩, by simp⟩
/-- the third admission is NOT possible earlier: at 9 the timer has not fired -/
example : run (init 2 10 0) [.compute, .fire, .call 0, .call 1, .call 2, .handoff 0, .record, .compute,
    .fire, .handoff 1, .record, .compute, .tick 9, .fire] = none := by decide
/-- what the observer sees, and that the executable specification can say no -/
example : boundOK 2 10 [] (observe (init 2 10 0) exRun) = true := by decide
example : (observe (init 2 10 0) exRun).length = 3 := by decide
example : boundOK 2 10 [] [.adm 0, .adm 0, .adm 5] = false := by decide
example : boundOK 2 10 [] [.adm 0, .adm 0, .cfg 3 10, .adm 5] = true := by decide
/-- a reconfiguration in mid-flight: `SetMaxEvents(1)` + `SetWindow(5)` while the third waiter sleeps -/
example : (run (init 2 10 0) [.compute, .fire, .call 0, .call 1, .call 2, .call 3, .handoff 0, .record,
    .compute, .fire, .handoff 1, .record, .compute, .tick 3, .setMax 1, .setWindow 5, .tick 7, .fire,
    .handoff 2, .record, .compute, .tick 5, .fire, .handoff 3]).map (fun s => (s.adm, s.ring)) =
    some ([15, 10], [some 10]) := by decide
/-- cancellation: waiter 1 cancels while waiting; it is not in `got` and the ring is untouched -/
example : (run (init 1 10 0) [.compute, .fire, .call 0, .call 1, .handoff 0, .record, .compute, .tick 4,
    .cancel 1]).map (fun s => (s.got, s.ring, s.ws 1)) = some ([0], [some 0], .cancelled) := by decide
/-- zero window: a fresh sleeping phase with `t ≤ now` exists -/
example : (run (init 1 0 7) [.compute, .fire, .call 0, .handoff 0, .record, .compute]).map (·.phase) =
    some (.sleeping 7 true) := by decide
/-- disabled limiter (N = 0, W = 0) -/
example : (run (init 0 0 7) [.compute, .call 0, .handoff 0, .record, .compute]).map (·.phase) =
    some (.offering true) := by decide
/-- shrinking keeps the newest, growing keeps all and adds free slots -/
example : resize [some 5, some 6, some 3, some 4] 2 2 = [some 5, some 6] := by decide
example : resize [some 5, some 6, some 3, some 4] 2 6 = [some 3, some 4, some 5, some 6, none, none] := by decide
example : CurOK [some 5, some 6, some 3, some 4] 2 := Or.inl (by decide)

end CM.RateLimit
