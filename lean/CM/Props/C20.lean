import CM.Proofs.Account
import CM.Proofs.AccountW
/-!
# C20 — one ACME account per CA and contact: registered once, persisted, always reused

Theorems about the transition system of `CM/Model/Account.lean`: for EVERY number of
processes (instances × constructions × restarts: processes are indexed by `Nat`), every
schedule, every pattern of storage faults and CA failures — the quantifier is over all
reachable states / all event lists, by inductive invariants (`CM/Proofs/Account.lean`).
The HTTPS rule is over all configured strings, given Go's `url.Parse` facts.
-/
namespace CM.Account

theorem run_reach {s : St} (hr : Reach s) : ∀ {tr : List Ev} {s' : St}, run s tr = some s' → Reach s' := by
  intro tr
  induction tr generalizing s with
  | nil => intro s' h; simp [run] at h; subst h; exact hr
  | cons e t ih =>
    intro s' h
    simp only [run] at h
    split at h
    · rename_i s1 hs1; exact ih (Reach.step hr hs1) h
    · simp at h

/-! ## registered at most once -/

/-- In a run without storage faults (and in which the CA forgets nothing), the CA creates at
most one account for the (CA, contact) — whatever the number of concurrent first issuances,
instances and restarts, and however they interleave. -/
theorem C20_register_once {s : St} (h : Reach s) (hf : s.faults = 0) (hg : s.forgets = 0) :
    s.registers ≤ 1 :=
  (once_reach h hf hg).2.1

/-- the same for histories: every run of the model from the empty storage -/
theorem C20_register_once_run {tr : List Ev} {s : St} (h : run init tr = some s)
    (hf : s.faults = 0) (hg : s.forgets = 0) : s.registers ≤ 1 :=
  C20_register_once (run_reach Reach.init h) hf hg

/-- non-vacuity: three processes race for the first registration; exactly one registers,
the second finds the account after the lock, the third loads it without locking -/
def raceTrace : List Ev :=
  [.start 0, .start 1, .loadReg 0 false, .loadReg 1 false, .acq 1 true, .reload 1 false 0,
   .register 1 .ok, .savePre 1 false, .saveReg 1 true, .start 2, .loadReg 2 false, .loadKey 2 false,
   .saveKey 1 true, .rel 1 true, .acq 0 true, .reload 0 false 1, .rel 0 true, .acq 2 true,
   .reload 2 false 1, .rel 2 true, .order 0, .order 1, .order 2]

example : (run init raceTrace).map (view 3) =
    some ⟨1, 0, 0, some 0, some 0, none, [.ready 0 0, .ready 0 0, .ready 0 0]⟩ := by decide

/-- … and the hypothesis is needed: a save that fails after the CA has registered leads to
a second registration later (inherent: the key was never persisted) -/
example : (run init [.start 0, .loadReg 0 false, .acq 0 true, .reload 0 false 0, .register 0 .ok, .savePre 0 false,
    .saveReg 0 false, .rel 0 true, .start 0, .loadReg 0 false, .acq 0 true, .reload 0 false 1, .register 0 .ok]).map
    (fun s => (s.registers, s.faults)) = some (2, 1) := by decide

/-! ## persisted together -/

/-- After ANY run — any storage faults during the save (failed stores, failed roll-backs,
failed unlocks, lost CA answers), any schedule — what `loadAccount` finds is either nothing
(a missing file makes it report not-exist, so both are treated as absent) or the registration
and the key of ONE account; the only excluded fault is a failed deletion of the key file in
the recreate path (see `C20_persisted_together_full_refuted`). -/
theorem C20_persisted_together {s : St} (h : Reach s) (hd : s.delKeyFaults = 0) :
    stored s = none ∨ ∃ a, s.reg = some a ∧ s.key = some a := by
  cases hr : s.reg with
  | none => left; simp [stored, hr]
  | some a =>
    cases hk : s.key with
    | none => left; simp [stored, hr, hk]
    | some b =>
      right
      rcases nomix_reach h hd b hk with h' | ⟨p, c, hp⟩
      · rw [hr] at h'; simp at h'; subst h'; exact ⟨a, rfl, rfl⟩
      · have := (inv1_reach h).loc p; rw [hp] at this; simp only [Loc] at this
        rw [hr] at this; simp at this

/-- the statement without the exclusion … -/
def C20_persisted_together_full : Prop :=
  ∀ s, Reach s → stored s = none ∨ ∃ a, s.reg = some a ∧ s.key = some a

/-- … is false of the code: the recreate path deletes the registration, fails to delete
the key; the next save writes a new registration, fails to write the new key and fails to
put things back — the registration of account 1 now sits beside the key of account 0 -/
def mixTrace : List Ev :=
  [.start 0, .loadReg 0 false, .acq 0 true, .reload 0 false 0, .register 0 .ok, .savePre 0 false, .saveReg 0 true,
   .saveKey 0 true, .rel 0 true, .caForget 0, .order 0, .dneAcq 0 true, .dneCheck 0 false, .dneDelReg 0 true,
   .dneDelKey 0 false, .dneRel 0 true, .start 0, .loadReg 0 false, .acq 0 true, .reload 0 false 1, .register 0 .ok,
   .savePre 0 false, .saveReg 0 true, .saveKey 0 false, .rollback 0 false, .rel 0 true]

theorem C20_persisted_together_full_refuted : ¬ C20_persisted_together_full := by
  intro h
  have hrun : (run init mixTrace).isSome = true := by decide
  obtain ⟨s, hs⟩ := Option.isSome_iff_exists.mp hrun
  have hv : (run init mixTrace).map (fun s => (s.reg, s.key)) = some (some 1, some 0) := by decide
  rw [hs] at hv; simp at hv
  rcases h s (run_reach Reach.init hs) with h0 | ⟨a, ha, hb⟩
  · simp [stored, hv.1, hv.2] at h0
  · rw [hv.1] at ha; rw [hv.2] at hb; simp at ha hb; omega

/-- non-vacuity of `C20_persisted_together`: a save with a failed key store and a failed
roll-back leaves a lone registration, which load treats as absent -/
example : (run init [.start 0, .loadReg 0 false, .acq 0 true, .reload 0 false 0, .register 0 .ok, .savePre 0 false,
    .saveReg 0 true, .saveKey 0 false, .rollback 0 false, .rel 0 false]).map
    (fun s => (s.reg, s.key, stored s, s.delKeyFaults, s.faults)) = some (some 0, none, none, 0, 3) := by decide

/-! ## never replaced -/

/-- which steps write the two account files -/
inductive Writes (s s' : St) (e : Ev) : Prop
  | none : s'.reg = s.reg → s'.key = s.key → Writes s s' e
  | saveReg (p k : Nat) : e = .saveReg p true → s.pc p = .saveReg k → s'.reg = some k → s'.key = s.key → Writes s s' e
  | saveKey (p k : Nat) (prev : Option Nat) : e = .saveKey p true → s.pc p = .saveKey k prev →
      s'.reg = s.reg → s'.key = some k → Writes s s' e
  | rollback (p k : Nat) (prev : Option Nat) : e = .rollback p true → s.pc p = .rollback k prev →
      s'.reg = prev → s'.key = s.key → Writes s s' e
  | dneDelReg (p a : Nat) : e = .dneDelReg p true → s.pc p = .dneDelReg a → s'.reg = .none → s'.key = s.key → Writes s s' e
  | dneDelKey (p a : Nat) : e = .dneDelKey p true → s.pc p = .dneDelKey a → s'.reg = s.reg → s'.key = .none → Writes s s' e

theorem step_writes {s : St} {e : Ev} {s' : St} (h : step s e = some s') : Writes s s' e := by
  cases e <;> simp only [step] at h <;> (repeat' split at h) <;> simp at h <;> subst h
  all_goals first
    | exact .none rfl rfl
    | skip
  · rename_i hc hok; subst hok; exact .saveReg _ _ rfl hc rfl rfl
  · rename_i hc hok; subst hok; exact .saveKey _ _ _ rfl hc rfl rfl
  · rename_i hc hok; subst hok; exact .rollback _ _ _ rfl hc rfl rfl
  · rename_i hc hok; subst hok; exact .dneDelReg _ _ rfl hc rfl rfl
  · rename_i hc hok; subst hok; exact .dneDelKey _ _ rfl hc rfl rfl

/-- An account that is present in storage (registration and key of account `a`) stops being
the stored account only by the deletion of the recreate path handling the CA's
account-does-not-exist answer FOR THAT VERY ACCOUNT: no save, roll-back, concurrent
construction or recreate on behalf of another account ever replaces or removes it — for
every schedule and every fault pattern. -/
theorem C20_never_replaced {s : St} {e : Ev} {s' : St} {a : Nat} (hr : Reach s) (h : step s e = some s')
    (hreg : s.reg = some a) (hkey : s.key = some a) (hch : ¬ (s'.reg = some a ∧ s'.key = some a)) :
    ∃ p, e = .dneDelReg p true ∧ s.pc p = .dneDelReg a ∧ s.dneAns a = true := by
  have hloc := (inv1_reach hr).loc
  have hst : stored s = some (a, a) := by simp [stored, hreg, hkey]
  cases step_writes h with
  | none h1 h2 => exact absurd ⟨h1 ▸ hreg, h2 ▸ hkey⟩ hch
  | saveReg p k _ hc _ _ =>
    have := hloc p; rw [hc] at this; simp only [Loc] at this
    rw [this.2.1] at hst; simp at hst
  | saveKey p k prev _ hc h1 h2 =>
    have := hloc p; rw [hc] at this; simp only [Loc] at this
    have hk : k = a := by have := this.2.1; rw [hreg] at this; simp at this; exact this.symm
    exact absurd ⟨h1 ▸ hreg, by rw [h2, hk]⟩ hch
  | rollback p k prev _ hc _ _ =>
    have := hloc p; rw [hc] at this; simp only [Loc] at this
    have hk : k = a := by have := this.2.1; rw [hreg] at this; simp at this; exact this.symm
    exact absurd (hk ▸ hkey) this.2.2.2
  | dneDelReg p b he hc _ _ =>
    have := hloc p; rw [hc] at this; simp only [Loc] at this
    obtain ⟨_, hda, hor⟩ := this
    rcases hor with h' | h'
    · rw [hreg] at h'; simp at h'; subst h'; exact ⟨p, he, hc, hda⟩
    · rw [h'] at hst; simp at hst
  | dneDelKey p b _ hc _ _ =>
    have := hloc p; rw [hc] at this; simp only [Loc] at this
    rw [hreg] at this; simp at this

/-- … and the recreate path is entered only through the CA's answer: the flag "the CA has
said that `a` does not exist" is raised only by an order of a client holding `a`, at a
moment when the CA indeed does not know `a` -/
theorem C20_recreate_only_on_dne {s : St} {e : Ev} {s' : St} {a : Nat} (h : step s e = some s')
    (h0 : s.dneAns a = false) (h1 : s'.dneAns a = true) :
    ∃ p k, e = .order p ∧ s.pc p = .ready a k ∧ s.ca a = false := by
  cases e <;> simp only [step] at h <;> (repeat' split at h) <;> simp at h <;> subst h
  all_goals first
    | (simp [h0] at h1; done)
    | skip
  rename_i p x b k hc hca
  by_cases hab : a = b
  · subst hab; exact ⟨p, k, rfl, hc, hca⟩
  · simp [updB, hab, h0] at h1

/-- every process in the recreate path is there on behalf of an account the CA disowned -/
theorem C20_recreate_has_answer {s : St} (hr : Reach s) {p a : Nat}
    (h : s.pc p = .dneLock a ∨ s.pc p = .dneCheck a ∨ s.pc p = .dneDelReg a ∨ s.pc p = .dneDelKey a) :
    s.dneAns a = true := by
  have := (inv1_reach hr).loc p
  rcases h with h | h | h | h <;> rw [h] at this <;> simp only [Loc] at this
  · exact this
  · exact this.2
  · exact this.2.1
  · exact this.2.1

/-- non-vacuity: the CA forgets account 0; the client's order is answered does-not-exist,
the stored account is deleted under the lock and account 1 is registered and stored; a
second client still holding account 0 is answered does-not-exist too, finds account 1 in
storage, leaves it alone and reuses it -/
def recreateTrace : List Ev :=
  [.start 0, .loadReg 0 false, .acq 0 true, .reload 0 false 0, .register 0 .ok, .savePre 0 false, .saveReg 0 true,
   .saveKey 0 true, .rel 0 true, .start 1, .loadReg 1 false, .loadKey 1 false, .caForget 0,
   .order 0, .order 1, .dneAcq 0 true, .dneCheck 0 false, .dneDelReg 0 true, .dneDelKey 0 true, .dneRel 0 true,
   .loadReg 0 false, .acq 0 true, .reload 0 false 1, .register 0 .ok, .savePre 0 false, .saveReg 0 true, .saveKey 0 true,
   .rel 0 true, .dneAcq 1 true, .dneCheck 1 false, .dneRel 1 true, .loadReg 1 false, .loadKey 1 false, .order 0, .order 1]

example : (run init recreateTrace).map (fun s => (view 2 s, s.dneAns 0, s.dneAns 1)) =
    some (⟨2, 0, 1, some 1, some 1, none, [.ready 1 1, .ready 1 1]⟩, true, false) := by decide

/-! ## reused -/

theorem dneAns_mono {s : St} {e : Ev} {s' : St} {a : Nat} (h : step s e = some s') (h1 : s.dneAns a = true) :
    s'.dneAns a = true := by
  cases e <;> simp only [step] at h <;> (repeat' split at h) <;> simp at h <;> subst h
  all_goals first
    | exact h1
    | exact updB_mono h1

/-- An account present in storage stays there, through every continuation of the run (any
number of further constructions, orders, faults, recreations on behalf of other accounts),
for as long as the CA has not answered that this account does not exist … -/
theorem C20_present_persists {s : St} {a : Nat} (hr : Reach s) (hreg : s.reg = some a) (hkey : s.key = some a) :
    ∀ {tr : List Ev} {s' : St}, run s tr = some s' → s'.dneAns a = false → s'.reg = some a ∧ s'.key = some a := by
  intro tr
  induction tr generalizing s with
  | nil => intro s' h _; simp [run] at h; subst h; exact ⟨hreg, hkey⟩
  | cons e t ih =>
    intro s' h hd
    simp only [run] at h
    split at h
    · rename_i s1 hs1
      by_cases hch : s1.reg = some a ∧ s1.key = some a
      · exact ih (Reach.step hr hs1) hch.1 hch.2 h hd
      · obtain ⟨p, _, _, hda⟩ := C20_never_replaced hr hs1 hreg hkey hch
        have h1 : s1.dneAns a = true := dneAns_mono hs1 hda
        have : s'.dneAns a = true := by
          clear ih hch
          revert h1 h
          generalize s1 = u
          induction t generalizing u with
          | nil => intro h h1; simp [run] at h; subst h; exact h1
          | cons e2 t2 ih2 =>
            intro h h1; simp only [run] at h
            split at h
            · rename_i u1 hu1; exact ih2 u1 h (dneAns_mono hu1 h1)
            · simp at h
        rw [this] at hd; simp at hd
    · simp at h

/-- … and every construction that begins while it is there returns exactly it, without
taking the lock and without any request to the CA. Together: once an account is present,
every later construction in any instance reuses it. -/
theorem C20_reuse {s : St} {a p : Nat} (hr : Reach s) (hreg : s.reg = some a) (hkey : s.key = some a)
    {tr : List Ev} {s1 : St} (hrun : run s tr = some s1) (hd : s1.dneAns a = false)
    (hp : (s1.pc p).canStart = true) :
    (run s1 [.start p, .loadReg p false, .loadKey p false]).map
        (fun s2 => (s2.pc p, s2.registers, s2.lock, s2.reg, s2.key)) =
      some (.ready a a, s1.registers, s1.lock, some a, some a) := by
  obtain ⟨h1, h2⟩ := C20_present_persists hr hreg hkey hrun hd
  simp [run, step, hp, h1, h2]

/-- no account is ever created at the CA while a complete account is in storage -/
theorem C20_no_register_while_present {s : St} {p : Nat} {out : RegOut} {s' : St} (hr : Reach s)
    (h : step s (.register p out) = some s') : stored s = none := by
  simp only [step] at h
  split at h <;> try (simp at h; done)
  rename_i k hc
  have := (inv1_reach hr).loc p; rw [hc] at this; exact this.2.1

/-- non-vacuity of `C20_reuse`: after the race above a fourth process constructs a client -/
example : (run init (raceTrace ++ [.start 3, .loadReg 3 false, .loadKey 3 false])).map
    (fun s => (s.pc 3, s.registers)) = some (.ready 0 0, 1) := by decide

/-- In a run without storage faults in which the CA forgets nothing, every client that has
been constructed — in any instance, at any time — holds exactly the account that is in
storage, registration and key of one account: every order is placed with the stored account,
and all clients share it. -/
theorem C20_orders_use_stored {s : St} (hr : Reach s) (hf : s.faults = 0) (hg : s.forgets = 0)
    {p a b : Nat} (hp : s.pc p = .ready a b) : a = b ∧ s.reg = some a ∧ s.key = some a := by
  have := (stable_reach hr hf hg).1 p
  rw [hp] at this; exact this

theorem C20_one_account_for_all {s : St} (hr : Reach s) (hf : s.faults = 0) (hg : s.forgets = 0)
    {p q a b c d : Nat} (hp : s.pc p = .ready a b) (hq : s.pc q = .ready c d) : a = c ∧ b = d := by
  obtain ⟨h1, h2, _⟩ := C20_orders_use_stored hr hf hg hp
  obtain ⟨h3, h4, _⟩ := C20_orders_use_stored hr hf hg hq
  rw [h2] at h4; simp at h4; omega

/-- **With faults too.** Whatever storage faults, lost answers, refused registrations and
forgetting CAs a run contains: the account a constructed client holds (and places its orders
with) has been written to storage successfully at some time, registration and private key —
a client never goes on with an account that exists only in memory because its save failed. -/
theorem C20_orders_only_with_persisted {s : St} (hr : Reach s) {p a b : Nat} (hp : s.pc p = .ready a b) :
    s.regW a = true ∧ s.keyW b = true := by
  have := (winv_reach hr).pcs p
  rw [hp] at this; exact this

/-- non-vacuity: the save of a fresh account fails at the key (the registration is rolled back);
the process ends `failed`, not `ready`, and nothing counts as written for the key; a second
process then registers, saves, and is `ready` with an account whose two files were written -/
example : (run init [.start 0, .loadReg 0 false, .acq 0 true, .reload 0 false 0, .register 0 .ok, .savePre 0 false,
    .saveReg 0 true, .saveKey 0 false, .rollback 0 true, .rel 0 true,
    .start 1, .loadReg 1 false, .acq 1 true, .reload 1 false 1, .register 1 .ok, .savePre 1 false,
    .saveReg 1 true, .saveKey 1 true, .rel 1 true]).map
    (fun s => (s.pc 0, s.pc 1, s.regW 0, s.keyW 0, s.regW 1, s.keyW 1)) =
    some (.failed, .ready 1 1, true, false, true, true) := by decide

/-! ## mutual exclusion of everything that writes the account -/

/-- two processes that are registering, saving, rolling back, checking or deleting are the
same process -/
theorem C20_writers_exclusive {s : St} (hr : Reach s) {p q : Nat} (hp : (s.pc p).inCS = true)
    (hq : (s.pc q).inCS = true) : p = q := by
  have a := loc_lock ((inv1_reach hr).loc p) hp
  have b := loc_lock ((inv1_reach hr).loc q) hq
  rw [a] at b; simpa using b

/-! ## the HTTPS rule -/

theorem secureCA_iff (u : UrlFacts) :
    secureCA u = true ↔ u.parseOK = true ∧ (u.scheme = httpsL ∨ u.internal = true) := by
  simp [secureCA]

/-- Whenever `newACMEClient` (hence `newACMEClientWithAccount`, `Issue`, `Revoke`,
`GetRenewalInfo`) succeeds, the URL that became the client's directory — the CA's or, on
retries, the test CA's — has scheme https or an internal host; for every pair of configured
strings. -/
theorem C20_https (ca test : UrlFacts) (testSet useTest : Bool) (w : Which)
    (h : newClient ca test testSet useTest = some w) :
    (w.pick ca test).scheme = httpsL ∨ (w.pick ca test).internal = true := by
  unfold newClient at h
  split at h
  · rename_i hca
    split at h
    · split at h
      · rename_i ht; simp at h; subst h; exact ((secureCA_iff test).mp ht).2
      · simp at h
    · simp at h; subst h; exact ((secureCA_iff ca).mp hca).2
  · simp at h

/-- the CA's own URL is always checked, also when the test CA is the one contacted -/
theorem C20_https_ca_checked (ca test : UrlFacts) (testSet useTest : Bool) (w : Which)
    (h : newClient ca test testSet useTest = some w) : ca.scheme = httpsL ∨ ca.internal = true := by
  unfold newClient at h
  split at h
  · rename_i hca; exact ((secureCA_iff ca).mp hca).2
  · simp at h

theorem hasSep_append_left (a b : List Char) (h : hasSep a = true) : hasSep (a ++ b) = true := by
  induction a with
  | nil => simp [hasSep] at h
  | cons c t ih =>
    simp only [hasSep, Bool.or_eq_true, Bool.and_eq_true] at h
    simp only [List.cons_append, hasSep, Bool.or_eq_true, Bool.and_eq_true]
    rcases h with ⟨h1, h2⟩ | h
    · left
      refine ⟨h1, ?_⟩
      cases t with
      | nil => simp at h2
      | cons x r =>
        cases r with
        | nil => simp at h2
        | cons y r' => simpa using h2
    · exact Or.inr (ih h)

/-- a string without "://" is parsed with "https://" in front of it (https is assumed), a
string with "://" is parsed as it is; the parsed string always has a scheme separator -/
theorem C20_https_assumed (s : List Char) :
    (hasSep s = false → withScheme s = httpsPrefix ++ s) ∧ (hasSep s = true → withScheme s = s) ∧
    hasSep (withScheme s) = true := by
  refine ⟨fun h => by simp [withScheme, h], fun h => by simp [withScheme, h], ?_⟩
  unfold withScheme
  split
  · assumption
  · exact hasSep_append_left _ _ (by decide)

/-- non-vacuity, and the defect D19 that the rule now excludes: an https CA with a plain-http
public test CA is refused on retries (it used to be contacted in the clear) -/
example : newClient ⟨true, httpsL, false⟩ ⟨true, "http".toList, false⟩ true true = none ∧
    newClient ⟨true, httpsL, false⟩ ⟨true, "http".toList, false⟩ true false = some .ca ∧
    newClient ⟨true, httpsL, false⟩ ⟨true, "http".toList, true⟩ true true = some .test ∧
    newClient ⟨true, "http".toList, true⟩ ⟨true, httpsL, false⟩ false true = some .ca := by decide

example : withScheme "acme.example/dir".toList = "https://acme.example/dir".toList ∧
    withScheme "HTTP://acme.example/dir".toList = "HTTP://acme.example/dir".toList := by decide

/-! ### internal hosts -/

/-- the private IPv4 ranges, spelled out: the table-driven `internalIP` is exactly this -/
theorem C20_internal_ipv4 (a b c d : Nat) :
    internalIP [a, b, c, d] = (a == 127 || (a == 0 && b == 0) || a == 10 || (a == 172 && 16 ≤ b && b < 32) ||
      (a == 192 && b == 168) || (a == 169 && b == 254)) := by
  rw [Bool.eq_iff_iff]
  simp [internalIP, privateNetworks, inNet]
  omega

/-- … and the IPv6 ones (`::1/7` as written in the source is the network `::/7`) -/
theorem C20_internal_ipv6 (b0 b1 x2 x3 x4 x5 x6 x7 x8 x9 x10 x11 x12 x13 x14 x15 : Nat) :
    internalIP [b0, b1, x2, x3, x4, x5, x6, x7, x8, x9, x10, x11, x12, x13, x14, x15] =
      (b0 / 2 == 0 || (b0 == 0xfe && b1 / 64 == 2) || b0 / 2 == 0x7e) := by
  rw [Bool.eq_iff_iff]
  simp [internalIP, privateNetworks, inNet]
  omega

example : internalHost "ca.internal".toList [] = true ∧ internalHost "localhost".toList [] = true ∧
    internalHost "internal.example.com".toList [] = false ∧ internalHost "127.0.0.1".toList [127, 0, 0, 1] = true ∧
    internalHost "172.32.0.1".toList [172, 32, 0, 1] = false := by decide

/-! ## a later run recovers -/

/-- From every reachable state in which nobody holds the lock — whatever faults, crashes
between the two stores, failed roll-backs or abandoned constructions came before (a failed
key deletion of the recreate path excepted) — a single fault-free construction ends with a
complete account in storage and that account in hand. -/
theorem C20_recovers {s : St} {p : Nat} (hr : Reach s) (hd : s.delKeyFaults = 0) (hl : s.lock = none)
    (hp : (s.pc p).canStart = true) :
    ∃ tr a, (run s tr).map (fun s' => (s'.faults, s'.reg, s'.key, s'.pc p, s'.lock)) =
      some (s.faults, some a, some a, .ready a a, none) := by
  rcases C20_persisted_together hr hd with h0 | ⟨a, h1, h2⟩
  · rw [stored_none_iff] at h0
    cases hreg : s.reg with
    | none =>
      refine ⟨[.start p, .loadReg p false, .acq p true, .reload p false s.nextKey, .register p .ok, .savePre p false,
        .saveReg p true, .saveKey p true, .rel p true], s.nextKey, ?_⟩
      simp [run, step, hp, hl, hreg, stored]
    | some x =>
      have hkey : s.key = none := by rcases h0 with h | h; · rw [hreg] at h; simp at h
                                     · exact h
      refine ⟨[.start p, .loadReg p false, .loadKey p false, .acq p true, .reload p false s.nextKey, .register p .ok,
        .savePre p false, .saveReg p true, .saveKey p true, .rel p true], s.nextKey, ?_⟩
      simp [run, step, hp, hl, hreg, hkey, stored]
  · exact ⟨[.start p, .loadReg p false, .loadKey p false], a, by simp [run, step, hp, hl, h1, h2]⟩

/-- non-vacuity: after a save that failed twice (key store, roll-back) the next construction
re-registers and completes -/
example : (run init [.start 0, .loadReg 0 false, .acq 0 true, .reload 0 false 0, .register 0 .ok, .savePre 0 false,
    .saveReg 0 true, .saveKey 0 false, .rollback 0 false, .rel 0 true,
    .start 1, .loadReg 1 false, .loadKey 1 false, .acq 1 true, .reload 1 false 1, .register 1 .ok, .savePre 1 false,
    .saveReg 1 true, .saveKey 1 true, .rel 1 true]).map (view 2) =
    some ⟨2, 2, 0, some 1, some 1, none, [.failed, .ready 1 1]⟩ := by decide

end CM.Account
