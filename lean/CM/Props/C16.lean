import CM.Proofs.Solvers
/-!
# C16 — solving challenges leaves nothing behind

Property theorems only (model: `CM/Model/Solvers.lean`, invariants: `CM/Proofs/Solvers.lean`).
`Reach P p0 s`: `s` is reachable from the empty state (DNS provider holding `p0`) by *any*
sequence of `Present` / `CleanUp` calls — any number of challenges of the three types, any
sharing of listen addresses, identifier keys and record names, any interleaving, any
outcome of every call (bind succeeded / address in use / bind error, token store failed,
no challenge certificate, provider error, **context cancelled**) — subject only to acmez's
discipline (a `CleanUp` for a challenge presented and not yet cleaned up; that is `step`'s
guard) and to the restriction `P` on the environment where one is stated.
`s.active` is the list of challenges presented and not yet cleaned up.

The statement's first sentence (“issuance succeeds against a conforming ACME server”) is
not a theorem; see `props.d/C16.json`.
-/
namespace CM.Solvers

/-- **Count.** The count of every listen address is the number of pending challenges using
it — whatever failed, whatever was cancelled. -/
theorem C16_count (p0 : List (Nat × Nat)) (s : State) (h : Reach anyEv p0 s) (a : Nat) :
    s.cnt a = ((s.active.countP (uses a) : Nat) : Int) := inv_count h a

/-- **Listener ⇔ use.** Our listener on an address is open only while some pending challenge
uses the address; when none does, the listener is closed and the entry gone; the `solvers`
map has an entry exactly for the addresses in use. -/
theorem C16_listener_iff (p0 : List (Nat × Nat)) (s : State) (h : Reach anyEv p0 s) (a : Nat) :
    (s.lis a = true → ∃ c ∈ s.active, uses a c = true) ∧
    ((∀ c ∈ s.active, uses a c = false) → s.lis a = false ∧ s.ent a = false ∧ s.cnt a = 0) ∧
    (s.ent a = true ↔ ∃ c ∈ s.active, uses a c = true) := by
  have hc := inv_count h a
  obtain ⟨h1, h2⟩ := inv_listener h a
  have pos_iff : 0 < s.cnt a ↔ ∃ c ∈ s.active, uses a c = true := by
    rw [hc]
    constructor
    · intro hp
      have : 0 < s.active.countP (uses a) := by omega
      exact List.countP_pos_iff.mp this
    · intro he
      have := List.countP_pos_iff.mpr he
      omega
  refine ⟨fun hl => pos_iff.mp (h1 hl), ?_, h2.trans pos_iff⟩
  intro hn
  have hz : ¬ 0 < s.cnt a := by
    intro hp
    obtain ⟨c, hc1, hc2⟩ := pos_iff.mp hp
    rw [hn c hc1] at hc2; cases hc2
  have hcz : s.cnt a = 0 := by
    have : 0 ≤ s.cnt a := by rw [hc]; omega
    omega
  refine ⟨?_, ?_, hcz⟩
  · cases hl : s.lis a
    · rfl
    · exact absurd (h1 hl) hz
  · cases he : s.ent a
    · rfl
    · exact absurd (h2.mp he) hz

/-- **Stays open.** No event closes an open listener while a challenge using its address
remains pending afterwards. -/
theorem C16_stays_open (p0 : List (Nat × Nat)) (s s' : State) (e : Ev) (h : Reach anyEv p0 s)
    (hs : step s e = some s') (a : Nat) (hl : s.lis a = true)
    (hu : ∃ c ∈ s'.active, uses a c = true) : s'.lis a = true := by
  have hc' := inv_count (Reach.next h (by trivial : anyEv e) hs) a
  cases e with
  | present c r =>
    rw [step_present hs, lis_present, hl]; rfl
  | cleanUp c r =>
    obtain ⟨_, rfl⟩ := step_cleanUp hs
    rw [lis_cleanUp]
    rw [cnt_cleanUp] at hc'
    have hp := List.countP_pos_iff.mpr hu
    split
    · rename_i hx
      rw [hx.1] at hc'
      simp only [if_true] at hc'
      omega
    · exact hl

/-- **First in opens.** A `Present` whose bind succeeds leaves our listener open. -/
theorem C16_opens (s s' : State) (c : Ch) (r : PRes) (hs : step s (.present c r) = some s')
    (ht : c.typ ≠ .dns) (hb : r.bind = .ok) (hcert : r.cert = true) : s'.lis c.addr = true := by
  rw [step_present hs, lis_present]
  have : uses c.addr c = true := by cases hc : c.typ <;> simp_all [uses, Typ.listens]
  have ho : opens c r = true := by cases hc : c.typ <;> simp_all [opens]
  simp [this, ho]

/-- **Last out closes.** The `CleanUp` after which no pending challenge uses the address
closes the listener and deletes the entry. -/
theorem C16_last_closes (p0 : List (Nat × Nat)) (s s' : State) (c : Ch) (r : CRes)
    (h : Reach anyEv p0 s) (hs : step s (.cleanUp c r) = some s')
    (hn : ∀ c' ∈ s'.active, uses c.addr c' = false) :
    s'.lis c.addr = false ∧ s'.ent c.addr = false :=
  let h' := (C16_listener_iff p0 s' (Reach.next h (by trivial : anyEv _) hs) c.addr).2.1 hn
  ⟨h'.1, h'.2.1⟩

/-- **Memory gone.** A memory entry always belongs to a pending challenge; after the last
`CleanUp` the challenge memory is empty — whatever failed, whatever was cancelled. -/
theorem C16_memory_gone (p0 : List (Nat × Nat)) (s : State) (h : Reach anyEv p0 s) :
    (∀ k, s.mem k = true → ∃ c ∈ s.active, c.key = k) ∧ (s.active = [] → ∀ k, s.mem k = false) := by
  refine ⟨inv_mem h, fun he k => ?_⟩
  cases hm : s.mem k
  · rfl
  · obtain ⟨c, hc, _⟩ := inv_mem h k hm
    rw [he] at hc; cases hc

/-- **Tokens gone.** Provided the storage does not fail a delete issued with a live context
(cancellation of the *caller's* context is allowed on every call): a token file always
belongs to a pending HTTP-01 / TLS-ALPN-01 challenge; after the last `CleanUp` no token file
is left. -/
theorem C16_tokens_gone (p0 : List (Nat × Nat)) (s : State) (h : Reach storageDeletes p0 s) :
    (∀ k, s.tok k = true → ∃ c ∈ s.active, c.typ ≠ .dns ∧ c.key = k) ∧
    (s.active = [] → ∀ k, s.tok k = false) := by
  refine ⟨inv_tok h, fun he k => ?_⟩
  cases hm : s.tok k
  · rfl
  · obtain ⟨c, hc, _⟩ := inv_tok h k hm
    rw [he] at hc; cases hc

/-- **Records gone.** Remembered DNS records never outnumber the pending DNS-01 challenges
for them (also when several share one name, or even name and value); provided the provider
does not fail a delete, it holds its initial records plus the remembered ones; so after
the last `CleanUp` nothing is remembered and the provider's record set is the initial one
(as a multiset) — also when every `CleanUp` ran with a cancelled context. -/
theorem C16_records_gone (p0 : List (Nat × Nat)) (s : State) (h : Reach providerDeletes p0 s) :
    (∀ p, s.recMem.count p ≤ s.active.countP (hasRec p)) ∧
    (∀ p, s.provider.count p = p0.count p + s.recMem.count p) ∧
    (s.active = [] → s.recMem = [] ∧ s.provider.Perm p0) := by
  refine ⟨inv_recMem h, inv_provider h, fun he => ?_⟩
  have hr : s.recMem = [] := by
    cases hm : s.recMem with
    | nil => rfl
    | cons p t =>
      have := inv_recMem h p
      rw [he, hm] at this
      simp at this
  refine ⟨hr, ?_⟩
  rw [List.perm_iff_count]
  intro p
  have := inv_provider h p
  rw [hr] at this
  simpa using this

/-- **Cancellation is irrelevant to what `CleanUp` does** (the model of the repaired code
does not consult the flag; the harness checks that the code does not either). -/
theorem C16_cancel_irrelevant (s : State) (c : Ch) (r : CRes) (b : Bool) :
    step s (.cleanUp c { r with cancelled := b }) = step s (.cleanUp c r) := by
  simp only [step]
  obtain ⟨id, typ, addr, key, rn, rv⟩ := c
  cases typ <;> rfl

/-- a run of events is a reachable state (links the driver's `run` to the theorems) -/
theorem reach_of_run (P : Ev → Prop) (p0 : List (Nat × Nat)) :
    ∀ (es : List Ev) (s s' : State), Reach P p0 s → (∀ e ∈ es, P e) → run s es = some s' → Reach P p0 s'
  | [], s, s', hr, _, h => by simp [run] at h; subst h; exact hr
  | e :: es, s, s', hr, hp, h => by
    simp only [run] at h
    split at h
    · rename_i s1 hs
      exact reach_of_run P p0 es s1 s' (Reach.next hr (hp e (by simp)) hs)
        (fun x hx => hp x (by simp [hx])) h
    · cases h

/-! ### non-vacuity -/

section examples

def okP : PRes := { store := true, cert := true, bind := .ok, prov := true }
def okC : CRes := { cancelled := false, del := true, prov := true }
def cancelledC : CRes := { cancelled := true, del := true, prov := true }

def h1 : Ch := { id := 1, typ := .http, addr := 80, key := 10, rname := 0, rval := 0 }
def h2 : Ch := { id := 2, typ := .http, addr := 80, key := 11, rname := 0, rval := 0 }
def a3 : Ch := { id := 3, typ := .alpn, addr := 443, key := 12, rname := 0, rval := 0 }
/-- `example.com` and `*.example.com`: one record name, two values -/
def d4 : Ch := { id := 4, typ := .dns, addr := 0, key := 20, rname := 7, rval := 100 }
def d5 : Ch := { id := 5, typ := .dns, addr := 0, key := 20, rname := 7, rval := 101 }

def exInit : List (Nat × Nat) := [(7, 1), (9, 9)]

/-- two HTTP-01 challenges on one address (the second store fails, the third bind finds the
address taken), a TLS-ALPN-01 one without certificate, two DNS-01 ones sharing a name -/
def exTrace : List Ev :=
  [.present h1 okP, .present h2 { okP with store := false }, .present a3 { okP with cert := false },
   .present d4 okP, .present d5 okP, .cleanUp h1 cancelledC]

def exAll : List Ev :=
  exTrace ++ [.cleanUp d5 cancelledC, .cleanUp h2 cancelledC, .cleanUp d4 cancelledC, .cleanUp a3 okC]

theorem exTrace_ok : (run (State.init exInit) exTrace).isSome = true := by decide
theorem exAll_ok : (run (State.init exInit) exAll).isSome = true := by decide
def exMid : State := (run (State.init exInit) exTrace).get exTrace_ok
def exEnd : State := (run (State.init exInit) exAll).get exAll_ok

theorem exMid_reach : Reach (fun e => anyEv e ∧ storageDeletes e ∧ providerDeletes e) exInit exMid :=
  reach_of_run _ _ exTrace _ _ Reach.init
    (by intro e he
        simp only [exTrace, List.mem_cons, List.not_mem_nil, or_false] at he
        rcases he with rfl | rfl | rfl | rfl | rfl | rfl <;>
          simp [anyEv, storageDeletes, providerDeletes, cancelledC])
    (Option.some_get exTrace_ok).symm

-- in the middle: the listener on 80 is still open for h2 although h1 was cleaned with a cancelled context
example : exMid.lis 80 = true ∧ exMid.cnt 80 = 1 ∧ exMid.cnt 443 = 1 ∧ exMid.lis 443 = false := by decide
example : exMid.tok 10 = false ∧ exMid.tok 12 = true ∧ exMid.tok 11 = false ∧ exMid.mem 11 = true := by decide
example : exMid.recMem = [(7, 100), (7, 101)] ∧ exMid.provider = [(7, 101), (7, 100), (7, 1), (9, 9)] := by decide
-- at the end: everything is gone
example : exEnd.active = [] ∧ exEnd.lis 80 = false ∧ exEnd.ent 80 = false ∧ exEnd.ent 443 = false ∧
    exEnd.tok 12 = false ∧ exEnd.mem 12 = false ∧ exEnd.mem 20 = false ∧ exEnd.recMem = [] ∧
    exEnd.provider = exInit := by decide
-- the discipline rejects a second clean-up
example : step exEnd (.cleanUp h1 okC) = none := by decide

end examples

end CM.Solvers
