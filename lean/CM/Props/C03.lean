import CM.Model.Lookup
import CM.Proofs.Lookup
import CM.Props.C12
/-!
# C03 — a handshake gets a complete covering certificate, or an error

Theorems over EVERY cache state satisfying C12's invariant, every (normalised) server name,
every default/fallback configuration, every capacity and fill level, every storage content,
every answer of `hello.SupportsCertificate` and every clock value.
-/
namespace CM.Lookup
open CM.Cache

/-- `c` is a certificate of the cache (stored under its own hash) -/
def Cached (s : State) (c : Cert) : Prop := get? c.hash s.cache = some c

/-- the reasons the statement allows for answering with a certificate whose names are `names`:
it covers the requested name (exactly or by wildcard); for a hello without SNI it lists the
connection's local IP, or the configured default name; or it lists the configured fallback name -/
def Justified (cfg : Cfg) (h : Hello) (names : List Name) : Prop :=
  (h.sni ≠ [] ∧ covers h.sni names) ∨
  (h.sni = [] ∧ ∃ ip, h.conn = some ip ∧ ip ∈ names) ∨
  (h.sni = [] ∧ ∃ d, cfg.defaultName = some d ∧ d ∈ names) ∨
  (∃ f, cfg.fallbackName = some f ∧ f ∈ names)

/-- the certificate is the managed bundle stored for the request's name (or its wildcard form),
loaded because the cache is almost full (it may have been evicted) -/
def FromStorage (cfg : Cfg) (s : State) (h : Hello) (r : Req) (c : Cert) : Prop :=
  almostFull s = true ∧ ∃ name, requestName cfg h r = some name ∧ qualifies name = true ∧
    loadStored r.stored name = some c

/-- the model of `MatchWildcard` decides exactly the reference relation: a subject without
empty labels matches a certificate name `w` iff `w` is the subject itself or the subject with
its leftmost 1…k labels replaced by `*` -/
theorem C03_covers_iff_matchWildcard (n w : Name) (hn : ∀ l ∈ splitDot n, l ≠ []) :
    matchWildcard n w = true ↔ (n = w ∨ ∃ k, 1 ≤ k ∧ k ≤ (splitDot n).length ∧ w = wildAt n k) := by
  rw [← mem_candidates]
  unfold matchWildcard
  by_cases h1 : n = w
  · simp [h1]
  · simp only [h1, if_false, false_or]
    by_cases h2 : '*' ∈ w
    · simp only [h2, not_true_eq_false, if_false]
      exact mwLoop_iff w (splitDot n) [] hn
    · simp only [h2, not_false_eq_true, if_true]
      constructor
      · intro h; simp at h
      · intro h
        exact absurd (star_mem_of_mem_candLoop _ _ h) h2

/-- … hence `covers` is "some name of the certificate `MatchWildcard`s the subject" -/
theorem C03_covers_iff_some_name_matches (n : Name) (names : List Name) (hn : ∀ l ∈ splitDot n, l ≠ []) :
    covers n names ↔ ∃ w, w ∈ names ∧ matchWildcard n w = true := by
  unfold covers
  constructor
  · rintro (h | ⟨k, h1, h2, h3⟩)
    · exact ⟨n, h, (C03_covers_iff_matchWildcard n n hn).mpr (Or.inl rfl)⟩
    · exact ⟨_, h3, (C03_covers_iff_matchWildcard n _ hn).mpr (Or.inr ⟨k, h1, h2, rfl⟩)⟩
  · rintro ⟨w, hw, hm⟩
    rcases (C03_covers_iff_matchWildcard n w hn).mp hm with h | ⟨k, h1, h2, h3⟩
    · exact Or.inl (h ▸ hw)
    · exact Or.inr ⟨k, h1, h2, h3 ▸ hw⟩

theorem selectCert_cached {e : Env} {s : State} {n : Name} {c : Cert} (hI : Inv s)
    (h : selectCert e s n = some c) : Cached s c ∧ n ∈ c.names :=
  (C12_lookup_exact s hI n c).mp (selectDefault_mem h)

theorem matching_ne_nil {s : State} {n : Name} {c : Cert} (hI : Inv s) (hc : Cached s c) (hn : n ∈ c.names) :
    matching s n ≠ [] := by
  intro h
  have := (C12_lookup_exact s hI n c).mpr ⟨hc, hn⟩
  rw [h] at this; simp at this

theorem origin_justified {cfg : Cfg} {h : Hello} {key : Name} {how : How} {names : List Name}
    (ho : Origin cfg h key how) (hk : key ∈ names) : Justified cfg h names := by
  cases ho with
  | ip h1 h2 => exact Or.inr (Or.inl ⟨h1, key, h2, hk⟩)
  | name h1 h2 => exact Or.inl ⟨h1, (covers_iff_candidates _ _).mpr ⟨key, h2, hk⟩⟩
  | dflt h1 h2 => exact Or.inr (Or.inr (Or.inl ⟨h1, key, h2, hk⟩))
  | fallback h1 => exact Or.inr (Or.inr (Or.inr ⟨key, h1, hk⟩))

theorem afterMiss_ok {cfg : Cfg} {s : State} {h : Hello} {r : Req} {d : Option Cert} {c : Cert}
    (ha : afterMiss cfg s h r d = .ok c) : FromStorage cfg s h r c ∨ d = some c := by
  unfold afterMiss at ha
  split at ha
  · simp at ha
  · rename_i name hname
    split at ha
    · simp at ha
    · rename_i hq
      split at ha
      · rename_i c' hl
        simp only [Ans.ok.injEq] at ha
        left
        by_cases haf : almostFull s = true
        · simp only [haf, if_true] at hl
          exact ⟨haf, name, hname, by simpa using hq, ha ▸ hl⟩
        · simp [haf] at hl
      · split at ha
        · simp only [Ans.ok.injEq] at ha; right; rw [ha]
        · simp at ha

/-- **soundness**: an answer without error is a certificate of the cache that is justified
by the hello and the configuration — or the bundle loaded from storage for that name -/
theorem C03_sound (e : Env) (cfg : Cfg) (s : State) (h : Hello) (r : Req) (c : Cert) (hI : Inv s)
    (hg : getCert e cfg s h r = .ok c) :
    (Cached s c ∧ Justified cfg h c.names) ∨ FromStorage cfg s h r c := by
  unfold getCert at hg
  split at hg
  · rename_i c' hf
    simp only [Ans.ok.injEq] at hg
    subst hg
    obtain ⟨key, hsel, ho⟩ := fromCache_some hf
    have := selectCert_cached hI hsel
    exact Or.inl ⟨this.1, origin_justified ho this.2⟩
  · rename_i c' hf
    rcases afterMiss_ok hg with h1 | h1
    · exact Or.inr h1
    · simp only [Option.some.injEq] at h1
      subst h1
      obtain ⟨key, hsel, ho⟩ := fromCache_some hf
      have := selectCert_cached hI hsel
      exact Or.inl ⟨this.1, origin_justified ho this.2⟩
  · rcases afterMiss_ok hg with h1 | h1
    · exact Or.inr h1
    · simp at h1

/-- **totality**: the answer is an error, or a real certificate (never Go's empty
`Certificate{}`), complete whenever the cached and stored certificates are -/
theorem C03_total (e : Env) (cfg : Cfg) (s : State) (h : Hello) (r : Req) (hI : Inv s)
    (hstored : ∀ n c, (n, c) ∈ r.stored → c.hash ≠ "" ∧ (e.view c.hash).complete = true)
    (hcached : ∀ c, Cached s c → (e.view c.hash).complete = true) :
    getCert e cfg s h r = .err ∨
      ∃ c, getCert e cfg s h r = .ok c ∧ c.hash ≠ "" ∧ c ≠ zeroCert ∧ (e.view c.hash).complete = true := by
  cases hg : getCert e cfg s h r with
  | err => exact Or.inl rfl
  | ok c =>
    right
    refine ⟨c, rfl, ?_⟩
    have key : c.hash ≠ "" ∧ (e.view c.hash).complete = true := by
      rcases C03_sound e cfg s h r c hI hg with ⟨hc, _⟩ | ⟨_, name, _, _, hl⟩
      · exact ⟨(hI.keyHash _ _ hc).2, hcached c hc⟩
      · unfold loadStored at hl
        split at hl
        · rename_i c' hget
          simp only [Option.some.injEq] at hl
          exact hl ▸ hstored _ _ (mem_of_get? hget)
        · exact hstored _ _ (mem_of_get? hl)
    refine ⟨key.1, ?_, key.2⟩
    intro hz
    exact key.1 (by rw [hz]; rfl)

/-- **exact match first**: if some cached certificate lists the requested name exactly, the
answer is a cached certificate that lists it exactly (whatever wildcards are cached) -/
theorem C03_exact_first (e : Env) (cfg : Cfg) (s : State) (h : Hello) (r : Req) (hI : Inv s)
    (hsni : h.sni ≠ []) (hex : ∃ c0, Cached s c0 ∧ h.sni ∈ c0.names) :
    ∃ c, getCert e cfg s h r = .ok c ∧ Cached s c ∧ h.sni ∈ c.names := by
  obtain ⟨c0, hc0, hn0⟩ := hex
  have hne := matching_ne_nil hI hc0 hn0
  cases hsel : selectCert e s h.sni with
  | none => exact absurd (selectCert_none.mp hsel) hne
  | some c =>
    have hf : fromCache e cfg s h = some (c, .matched) := by
      unfold fromCache
      simp only [hsni, if_false, firstMatch, hsel]
    refine ⟨c, ?_, selectCert_cached hI hsel⟩
    unfold getCert
    rw [hf]

/-- **local IP first**: without SNI, if some cached certificate lists the connection's local
IP address, the answer is a cached certificate listing that address (the default and
fallback names are not consulted) -/
theorem C03_ip_first (e : Env) (cfg : Cfg) (s : State) (h : Hello) (r : Req) (hI : Inv s) (ip : Name)
    (hsni : h.sni = []) (hconn : h.conn = some ip) (hex : ∃ c0, Cached s c0 ∧ ip ∈ c0.names) :
    ∃ c, getCert e cfg s h r = .ok c ∧ Cached s c ∧ ip ∈ c.names := by
  obtain ⟨c0, hc0, hn0⟩ := hex
  have hne := matching_ne_nil hI hc0 hn0
  cases hsel : selectCert e s ip with
  | none => exact absurd (selectCert_none.mp hsel) hne
  | some c =>
    have hf : fromCache e cfg s h = some (c, .matched) := by
      unfold fromCache
      simp only [hsni, if_true, hconn, tryName, hsel]
    refine ⟨c, ?_, selectCert_cached hI hsel⟩
    unfold getCert
    rw [hf]

/-- **an unexpired supported certificate is preferred**: an answer from the cache is the
selector's choice among ALL cached certificates listing the index key that matched, and if
one of those is supported by the client and currently valid, so is the answer -/
theorem C03_prefers_valid (e : Env) (cfg : Cfg) (s : State) (h : Hello) (r : Req) (c : Cert) (hI : Inv s)
    (hg : getCert e cfg s h r = .ok c) :
    FromStorage cfg s h r c ∨
    ∃ key how, Origin cfg h key how ∧ c ∈ matching s key ∧
      (∀ c', Cached s c' → key ∈ c'.names → e.good c' = true → e.good c = true) := by
  have fromSel : ∀ how, fromCache e cfg s h = some (c, how) →
      ∃ key how, Origin cfg h key how ∧ c ∈ matching s key ∧
        (∀ c', Cached s c' → key ∈ c'.names → e.good c' = true → e.good c = true) := by
    intro how hf
    obtain ⟨key, hsel, ho⟩ := fromCache_some hf
    refine ⟨key, how, ho, selectDefault_mem hsel, ?_⟩
    intro c' hc' hk hgood
    exact selectDefault_good hsel ⟨c', (C12_lookup_exact s hI key c').mpr ⟨hc', hk⟩, hgood⟩
  unfold getCert at hg
  split at hg
  · rename_i c' hf
    simp only [Ans.ok.injEq] at hg; subst hg
    exact Or.inr (fromSel _ hf)
  · rename_i c' hf
    rcases afterMiss_ok hg with h1 | h1
    · exact Or.inl h1
    · simp only [Option.some.injEq] at h1; subst h1
      exact Or.inr (fromSel _ hf)
  · rcases afterMiss_ok hg with h1 | h1
    · exact Or.inl h1
    · simp at h1

/-- the selector itself: first supported-and-valid choice, else the last supported one, else
the first choice; in particular a supported valid choice is never passed over -/
theorem C03_selector_prefers_valid (e : Env) (l : List Cert) (c : Cert) (h : selectDefault e l = some c) :
    c ∈ l ∧ ((∃ c', c' ∈ l ∧ e.good c' = true) → e.good c = true) :=
  ⟨selectDefault_mem h, selectDefault_good h⟩

/-- an unusable request name is an error unless the cache matched: IDNA conversion failed, or
the name does not qualify (empty, leading/trailing dot, misplaced `*`, special characters) -/
theorem C03_error_bad_name (e : Env) (cfg : Cfg) (s : State) (h : Hello) (r : Req)
    (hnm : ∀ c, fromCache e cfg s h ≠ some (c, .matched))
    (hbad : requestName cfg h r = none ∨ ∃ name, requestName cfg h r = some name ∧ qualifies name = false) :
    getCert e cfg s h r = .err := by
  have ham : ∀ d, afterMiss cfg s h r d = .err := by
    intro d
    unfold afterMiss
    rcases hbad with h1 | ⟨name, h1, h2⟩
    · rw [h1]
    · rw [h1]; simp [h2]
  unfold getCert
  split
  · rename_i c hf; exact absurd hf (hnm c)
  · exact ham _
  · exact ham _

/-- **error iff nothing is available**: for a usable request name and nothing loaded from
storage, the lookup fails exactly when no cached certificate lists any of the keys tried —
the name, its wildcard forms (or the local IP and the default name when there is no SNI),
and the fallback name -/
theorem C03_error_iff_none (e : Env) (cfg : Cfg) (s : State) (h : Hello) (r : Req) (hI : Inv s) (name : Name)
    (hname : requestName cfg h r = some name) (hq : qualifies name = true)
    (hst : almostFull s = false ∨ loadStored r.stored name = none) :
    getCert e cfg s h r = .err ↔ ∀ n, n ∈ keysTried cfg h → ∀ c, Cached s c → n ∉ c.names := by
  have ham : ∀ d, afterMiss cfg s h r d = (match d with | some c => .ok c | none => .err) := by
    intro d
    unfold afterMiss
    rw [hname]
    simp only [hq, Bool.not_true, Bool.false_eq_true, if_false]
    have : (if almostFull s = true then loadStored r.stored name else none) = none := by
      rcases hst with h1 | h1
      · simp [h1]
      · simp [h1]
    rw [this]
    rfl
  have hnone : fromCache e cfg s h = none ↔ ∀ n, n ∈ keysTried cfg h → ∀ c, Cached s c → n ∉ c.names := by
    rw [fromCache_none]
    constructor
    · intro hall n hn c hc hin
      exact matching_ne_nil hI hc hin (hall n hn)
    · intro hall n hn
      cases hm : matching s n with
      | nil => rfl
      | cons c l =>
        have hc := (C12_lookup_exact s hI n c).mp (by rw [hm]; exact List.mem_cons_self)
        exact absurd hc.2 (hall n hn c hc.1)
  rw [← hnone]
  unfold getCert
  cases hf : fromCache e cfg s h with
  | none => simp [ham]
  | some p =>
    obtain ⟨c, how⟩ := p
    cases how <;> simp [ham]

/-- when the cache is almost full, a bundle stored for the name is served before the
default/fallback certificate -/
theorem C03_storage_before_default (e : Env) (cfg : Cfg) (s : State) (h : Hello) (r : Req) (name : Name) (c : Cert)
    (hnm : ∀ c', fromCache e cfg s h ≠ some (c', .matched))
    (hname : requestName cfg h r = some name) (hq : qualifies name = true)
    (haf : almostFull s = true) (hl : loadStored r.stored name = some c) :
    getCert e cfg s h r = .ok c := by
  have ham : ∀ d, afterMiss cfg s h r d = .ok c := by
    intro d
    unfold afterMiss
    rw [hname]
    simp [hq, haf, hl]
  unfold getCert
  split
  · rename_i c' hf; exact absurd hf (hnm c')
  · exact ham _
  · exact ham _

/-! ### non-vacuity: a concrete cache, hellos and configurations -/

section Examples

def cA : Cert := { hash := "hA", names := ["a.example".toList], tags := [], managed := false, issuer := "", ari := 0 }
def cA2 : Cert := { hash := "hA2", names := ["a.example".toList, "10.0.0.1".toList], tags := [], managed := false, issuer := "", ari := 0 }
def cW : Cert := { hash := "hW", names := ["*.example".toList], tags := [], managed := false, issuer := "", ari := 0 }
def cD : Cert := { hash := "hD", names := ["default.test".toList], tags := [], managed := true, issuer := "i", ari := 0 }

/-- capacity 4 holding four certificates (so: almost full); `a.example` is listed by an
expired certificate (`hA`) and by a valid one (`hA2`) -/
def exState : State := insertNew cD (insertNew cW (insertNew cA2 (insertNew cA (init 4))))

def exEnv : Env :=
  { now := 100 * sec
    view := fun h => { supported := true, nb := 0, na := if h = "hA" then 50 * sec else 200 * sec, complete := true } }

def exCfg : Cfg := { defaultName := some "default.test".toList, fallbackName := none }
def exReq (n : String) : Req := { idna := some n.toList, stored := [("s.other".toList, cD)] }
def exHello (n : String) : Hello := { sni := n.toList, conn := some "10.0.0.1".toList }

example : Inv exState := C12_inv_run [.add cA none, .add cA2 none, .add cW none, .add cD none] (init 4) exState
  (C12_inv_init 4) (by decide)
example : almostFull exState = true := by decide
-- exact match, and the valid certificate is preferred over the expired one listed first
example : getCert exEnv exCfg exState (exHello "a.example") (exReq "a.example") = .ok cA2 := by decide
example : matching exState "a.example".toList = [cA, cA2] ∧ exEnv.good cA = false ∧ exEnv.good cA2 = true := by decide
-- wildcard match by replacing the leftmost label
example : getCert exEnv exCfg exState (exHello "b.example") (exReq "b.example") = .ok cW := by decide
example : covers "b.example".toList cW.names := Or.inr ⟨1, by decide, by decide, by decide⟩
-- two labels replaced: not covered by `*.example`; almost full, nothing stored: error (fix D3)
example : getCert exEnv { exCfg with defaultName := none } exState (exHello "x.y.example") (exReq "x.y.example") = .err := by decide
-- no SNI: local IP first, although a default name is configured
example : getCert exEnv exCfg exState (exHello "") (exReq "") = .ok cA2 := by decide
-- no SNI, no certificate for the local IP: the default name's certificate
example : getCert exEnv exCfg exState { sni := [], conn := some "10.9.9.9".toList } (exReq "") = .ok cD := by decide
-- almost full and the name's bundle is in storage: that one is served
example : getCert exEnv exCfg exState (exHello "s.other") (exReq "s.other") = .ok cD := by decide
-- a name that does not qualify is an error even though a fallback exists
example : getCert exEnv { defaultName := none, fallbackName := some "default.test".toList } exState
    (exHello "bad name.test") (exReq "bad name.test") = .err := by decide
example : getCert exEnv { defaultName := none, fallbackName := some "default.test".toList } exState
    (exHello "good-name.test") (exReq "good-name.test") = .ok cD := by decide
example : matchWildcard "x.y.example".toList "*.*.example".toList = true ∧
    matchWildcard "x.y.example".toList "*.example".toList = false := by decide

end Examples

end CM.Lookup
