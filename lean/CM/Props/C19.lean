import CM.Proofs.Async
/-!
# C19 — background work retries with back-off; no job is lost

Theorems about the models of `CM/Model/Async.lean`:

* (a) `doWithRetry`, for every script of outcomes and durations of the attempts, every instant
  of cancellation and every resolution of a simultaneous timer/cancellation;
* (b) the job manager, for every reachable state of its transition system, i.e. every
  interleaving of submissions with running, failing and panicking jobs and any number of
  workers;
* (c) `ACMEIssuer.Issue`, for every attempt number, CA / test CA configuration and outcome of
  the one or two orders.

Trace positions are 0-based: the entry at position `p` is the `(p+1)`-th attempt.
-/
namespace CM.Async

/-! ## (a) doWithRetry -/

/-- **Attempt numbers.** The i-th attempt (0-based) reads the value `i` from the attempts
counter: issuers see 0, 1, 2, … — for any table and maximum duration. -/
theorem C19_attempt_numbers (tbl : List Nat) (mx : Nat) (i : RetryIn) (p n t : Nat)
    (h : (retryWith tbl mx i).trace[p]? = some (n, t)) : n = p := by
  have := loop_numbers tbl mx i (mx + 2) 0 none 0 p n t h
  omega

example : ∃ i : RetryIn, (retry i).trace = [(0, 0), (1, 60000000000), (2, 180000000007)] :=
  ⟨{ script := fun k => if k = 1 then ⟨.fail, 7⟩ else if k = 2 then ⟨.ok, 0⟩ else ⟨.fail, 0⟩
     cancelAt := none, tie := fun _ => false }, by decide +kernel⟩

/-- the first attempt is made at once -/
theorem C19_first_immediate (tbl : List Nat) (mx : Nat) (i : RetryIn) (n t : Nat)
    (h : (retryWith tbl mx i).trace[0]? = some (n, t)) : t = 0 := by
  have := loop_head tbl mx i (mx + 2) 0 none 0 n t h
  simp only [waitOf] at this
  omega

/-- **Back-off, any table.** Attempt `p+1` starts exactly `tbl[min(p, last)]` after attempt
`p` ended (attempt `p` started at `t` and took `(script p).dur`), and for a positive table
that pause is never zero. In 1-based numbering: the wait before attempt `k ≥ 2` is
`tbl[min(k-2, last)]`. -/
theorem C19_backoff_any (tbl : List Nat) (hp : Positive tbl) (mx : Nat) (i : RetryIn)
    (p n t n' t' : Nat)
    (h : (retryWith tbl mx i).trace[p]? = some (n, t))
    (h' : (retryWith tbl mx i).trace[p + 1]? = some (n', t')) :
    t' = t + (i.script p).dur + tbl.getD (min p (tbl.length - 1)) 0 ∧
    0 < tbl.getD (min p (tbl.length - 1)) 0 := by
  have hg := loop_gap tbl mx i (mx + 2) 0 none 0 p n t n' t' h h'
  rw [idxAfter_none tbl hp.1 p] at hg
  simp only [waitOf, Nat.zero_add] at hg
  refine ⟨hg, ?_⟩
  have hl : 0 < tbl.length := List.length_pos_iff.mpr hp.1
  have hj : min p (tbl.length - 1) < tbl.length := by omega
  have : tbl.getD (min p (tbl.length - 1)) 0 = tbl[min p (tbl.length - 1)] := by simp [List.getD, hj]
  rw [this]; exact hp.2 _ (List.getElem_mem hj)

theorem C19_table_positive : Positive table := by
  refine ⟨by decide, ?_⟩
  decide

theorem C19_table_ge_minute : ∀ j, j ≤ 24 → minute ≤ table.getD j 0 := by decide

/-- **Back-off, the table of async.go.** Attempt `p+1` starts exactly `table[min(p, 24)]`
after attempt `p` ended, and that pause is at least one minute — never an immediate retry. -/
theorem C19_backoff (i : RetryIn) (p n t n' t' : Nat)
    (h : (retry i).trace[p]? = some (n, t)) (h' : (retry i).trace[p + 1]? = some (n', t')) :
    t' = t + (i.script p).dur + table.getD (min p 24) 0 ∧ minute ≤ table.getD (min p 24) 0 := by
  have := (C19_backoff_any table C19_table_positive maxDur i p n t n' t' h h').1
  have hl : table.length - 1 = 24 := by decide
  rw [hl] at this
  exact ⟨this, C19_table_ge_minute _ (by omega)⟩

/-- non-vacuity: 30 failures then success; the table's 25 entries add up to 24 h, and every
later attempt waits the last entry (6 h) -/
example : ∃ i : RetryIn, (retry i).trace.length = 31 ∧ (retry i).res = .ok ∧
    (retry i).trace[25]? = some (25, 86400000000000) ∧
    (retry i).trace[26]? = some (26, 86400000000000 + 6 * hour) ∧
    (retry i).trace[27]? = some (27, 86400000000000 + 12 * hour) :=
  ⟨{ script := fun k => if k < 30 then ⟨.fail, 0⟩ else ⟨.ok, 0⟩, cancelAt := none, tie := fun _ => false },
   by decide +kernel⟩

/-- **Stopping.** (1) An attempt that is followed by another attempt failed with a plain
(retryable) error: nothing is attempted after a success, a non-retryable error or a
cancellation error. (2) With a positive table no attempt starts after the instant of
cancellation. (3) If the loop ends by cancellation it returns at the instant of cancellation —
or, if an attempt was in progress then, when that attempt ends — and, by (2), without a further
attempt. (4) In every other case it returns when its last attempt ends, with the result that
attempt's outcome dictates; it gives up — returning that attempt's error (`gaveUpErr`), never nil —
only when the maximum duration has elapsed. -/
theorem C19_stops (tbl : List Nat) (mx : Nat) (i : RetryIn) :
    (∀ (p n t : Nat) (x : Nat × Nat), (retryWith tbl mx i).trace[p]? = some (n, t) →
        (retryWith tbl mx i).trace[p + 1]? = some x → (i.script p).out = .fail) ∧
    (Positive tbl → ∀ c, i.cancelAt = some c →
        ∀ (p n t : Nat), (retryWith tbl mx i).trace[p]? = some (n, t) → t ≤ c) ∧
    ((retryWith tbl mx i).res = .canceled → ∃ c, i.cancelAt = some c ∧
        (retryWith tbl mx i).ret = max c (lastEnd i (retryWith tbl mx i).trace)) ∧
    ((retryWith tbl mx i).res ≠ .canceled → (retryWith tbl mx i).res ≠ .outOfFuel →
        (retryWith tbl mx i).ret = lastEnd i (retryWith tbl mx i).trace ∧
        ∃ n t, (retryWith tbl mx i).trace.getLast? = some (n, t) ∧
          ResMatches (retryWith tbl mx i).res (i.script n).out ∧
          ((retryWith tbl mx i).res = .gaveUpErr → mx ≤ t + (i.script n).dur)) := by
  refine ⟨?_, ?_, ?_, ?_⟩
  · intro p n t x h h'
    have := (loop_fails tbl mx i (mx + 2) 0 none 0 p n t x h h').1
    rwa [Nat.zero_add] at this
  · intro hp c hc p n t h
    exact loop_cancel_bound tbl hp mx i c hc (mx + 2) 0 none 0 (Or.inl ⟨rfl, rfl⟩) p n t h
  · exact (loop_ends tbl mx i (mx + 2) 0 none 0).1
  · exact (loop_ends tbl mx i (mx + 2) 0 none 0).2

/-- non-vacuity: cancelled at 90 s, after two attempts (0 s, 60 s): returns at 90 s -/
example : ∃ i : RetryIn, (retry i).trace = [(0, 0), (1, 60000000000)] ∧ (retry i).res = .canceled ∧
    (retry i).ret = 90000000000 :=
  ⟨{ script := fun _ => ⟨.fail, 0⟩, cancelAt := some 90000000000, tie := fun _ => false }, by decide +kernel⟩

/-- non-vacuity: a non-retryable error at the second attempt stops the loop -/
example : ∃ i : RetryIn, (retry i).trace = [(0, 0), (1, 60000000003)] ∧ (retry i).res = .noRetry :=
  ⟨{ script := fun k => if k = 0 then ⟨.fail, 3⟩ else ⟨.noRetry, 0⟩, cancelAt := none, tie := fun _ => false },
   by decide +kernel⟩

/-- **Giving up / termination.** (1) With a positive table the recursion never runs out of its
fuel `mx + 2`: the model's trace is the complete, finite behaviour for every (infinite) script.
(2) The pause before a retry always begins before `mx` has elapsed: no retry is scheduled once
the maximum duration is over. (3) If every attempt fails and nobody cancels, the loop gives up
(its result is the last attempt's error),
and it does so when an attempt ends at or after `mx`. (4) The trace has at most `mx + 2` entries. -/
theorem C19_gives_up (tbl : List Nat) (hp : Positive tbl) (mx : Nat) (i : RetryIn) :
    (retryWith tbl mx i).res ≠ .outOfFuel ∧
    (∀ (p n t : Nat) (x : Nat × Nat), (retryWith tbl mx i).trace[p]? = some (n, t) →
        (retryWith tbl mx i).trace[p + 1]? = some x → t + (i.script p).dur < mx) ∧
    ((∀ k, (i.script k).out = .fail) → i.cancelAt = none →
        (retryWith tbl mx i).res = .gaveUpErr ∧ mx ≤ lastEnd i (retryWith tbl mx i).trace) ∧
    (retryWith tbl mx i).trace.length ≤ mx + 2 := by
  have hf := retryWith_fuel tbl hp mx i
  refine ⟨hf, ?_, ?_, loop_length tbl mx i (mx + 2) 0 none 0⟩
  · intro p n t x h h'
    have := (loop_fails tbl mx i (mx + 2) 0 none 0 p n t x h h').2
    rwa [Nat.zero_add] at this
  · intro hall hnc
    obtain ⟨h1, h2⟩ := loop_ends tbl mx i (mx + 2) 0 none 0
    have hncl : (retryWith tbl mx i).res ≠ .canceled := by
      intro h
      obtain ⟨c, hc, _⟩ := h1 h
      rw [hnc] at hc; cases hc
    obtain ⟨hr, n, t, hl, hm, hg⟩ := h2 hncl hf
    have hres : (retryWith tbl mx i).res = .gaveUpErr := by
      rcases hm with ⟨_, ho⟩ | ⟨_, ho⟩ | ⟨_, ho⟩ | ⟨hr, _⟩
      · rw [hall n] at ho; cases ho
      · rw [hall n] at ho; cases ho
      · rw [hall n] at ho; cases ho
      · exact hr
    refine ⟨hres, ?_⟩
    have := hg hres
    show mx ≤ lastEnd i (loop tbl mx i (mx + 2) 0 none 0).trace
    unfold lastEnd
    have hl' : (loop tbl mx i (mx + 2) 0 none 0).trace.getLast? = some (n, t) := hl
    rw [hl']
    exact this

/-- non-vacuity with the constants of async.go: all attempts fail (each taking 1 s) ⇒ 142
attempts, the last one starting 29 d 18 h 2 min 20 s after the start, then the loop gives up
30 d 0 h 2 min 22 s after the start -/
example : ∃ i : RetryIn, (∀ k, (i.script k).out = .fail) ∧ (retry i).res = .gaveUpErr ∧
    (retry i).trace.length = 142 ∧ (retry i).ret = 2592142000000000 :=
  ⟨{ script := fun _ => ⟨.fail, 1000000000⟩, cancelAt := none, tie := fun _ => false },
   fun _ => rfl, by decide +kernel⟩

/-- the attempt part of the executable specification accepts every suffix of a model trace -/
theorem C19_spec_attempts_model (i : RetryIn) : ∀ (tr : List (Nat × Nat)) (p : Nat),
    (∀ q, tr[q]? = (retry i).trace[p + q]?) → specGo i.script i.cancelAt p tr = none := by
  intro tr
  induction tr with
  | nil => intro p _; rfl
  | cons a rest ih =>
    intro p h
    obtain ⟨n, t⟩ := a
    have h0 : (retry i).trace[p]? = some (n, t) := by
      have := h 0
      simp only [List.getElem?_cons_zero, Nat.add_zero] at this
      exact this.symm
    have hn : n = p := C19_attempt_numbers table maxDur i p n t h0
    have hc : ∀ c, i.cancelAt = some c → t ≤ c := fun c hc =>
      (C19_stops table maxDur i).2.1 C19_table_positive c hc p n t h0
    have hcan : afterCancel i.cancelAt t = false := by
      unfold afterCancel
      cases hca : i.cancelAt with
      | none => rfl
      | some c => have := hc c hca; simp; omega
    cases rest with
    | nil =>
      unfold specGo
      rw [if_neg (show ¬ n ≠ p from fun h => h hn), hcan]
      simp
    | cons b rest' =>
      obtain ⟨n', t'⟩ := b
      have h1 : (retry i).trace[p + 1]? = some (n', t') := by
        have := h 1
        simp only [List.getElem?_cons_succ, List.getElem?_cons_zero] at this
        exact this.symm
      have hf : (i.script p).out = .fail := (C19_stops table maxDur i).1 p n t (n', t') h0 h1
      obtain ⟨hgap, hmin⟩ := C19_backoff i p n t n' t' h0 h1
      have hlt := (C19_gives_up table C19_table_positive maxDur i).2.1 p n t (n', t') h0 h1
      have hl : table.length - 1 = 24 := by decide
      have ih' := ih (p + 1) (by
        intro q
        have := h (q + 1)
        simp only [List.getElem?_cons_succ] at this
        rw [this]; congr 1; omega)
      unfold specGo
      rw [if_neg (show ¬ n ≠ p from fun h => h hn), hcan]
      simp only [Bool.false_eq_true, if_false]
      rw [if_neg (show ¬ (i.script p).out ≠ .fail from fun h => h hf)]
      rw [if_neg (show ¬ t' < t + (i.script p).dur + minute by omega)]
      rw [if_neg (show ¬ t' ≠ t + (i.script p).dur + table.getD (min p (table.length - 1)) 0 by rw [hl]; omega)]
      rw [if_neg (show ¬ maxDur ≤ t + (i.script p).dur by omega)]
      exact ih'

/-- **The executable specification is implied by the theorems**: it accepts every run of the
model (`retry`), attempts and end, for every script, cancellation instant and tie resolution.
So a `bad:` verdict on an implementation trace always marks behaviour that no run of the model
has. -/
theorem C19_spec_accepts_model (i : RetryIn) :
    specAttempts i.script i.cancelAt (retry i).trace = none ∧
    specEnd i.script i.cancelAt (retry i).trace (retry i).res (retry i).ret = none := by
  refine ⟨C19_spec_attempts_model i _ 0 (fun q => by rw [Nat.zero_add]), ?_⟩
  show specEnd i.script i.cancelAt (retryWith table maxDur i).trace (retryWith table maxDur i).res
    (retryWith table maxDur i).ret = none
  have hfuel := (C19_gives_up table C19_table_positive maxDur i).1
  obtain ⟨_, _, h3, h4⟩ := C19_stops table maxDur i
  have hle : ∀ tr, lastEnd { script := i.script, cancelAt := i.cancelAt, tie := fun _ => false } tr = lastEnd i tr :=
    fun _ => rfl
  generalize retryWith table maxDur i = o at *
  unfold specEnd
  simp only [hle]
  cases hres : o.res with
  | outOfFuel => exact absurd hres hfuel
  | canceled =>
    obtain ⟨c, hc, hr⟩ := h3 hres
    simp only [hc]
    rw [if_pos hr]
  | ok =>
    obtain ⟨hr, n, t, hl, hm, _⟩ := h4 (by rw [hres]; decide) hfuel
    rw [hres] at hm
    simp only [hl]
    rw [if_neg (fun h => h hr)]
    rcases hm with ⟨_, ho⟩ | ⟨h, _⟩ | ⟨h, _⟩ | ⟨h, _⟩ <;> first | (simp [ho]) | cases h
  | noRetry =>
    obtain ⟨hr, n, t, hl, hm, _⟩ := h4 (by rw [hres]; decide) hfuel
    rw [hres] at hm
    simp only [hl]
    rw [if_neg (fun h => h hr)]
    rcases hm with ⟨h, _⟩ | ⟨h, _⟩ | ⟨_, ho⟩ | ⟨h, _⟩ <;> first | (simp [ho]) | cases h
  | canceledErr =>
    obtain ⟨hr, n, t, hl, hm, _⟩ := h4 (by rw [hres]; decide) hfuel
    rw [hres] at hm
    simp only [hl]
    rw [if_neg (fun h => h hr)]
    rcases hm with ⟨h, _⟩ | ⟨_, ho⟩ | ⟨h, _⟩ | ⟨h, _⟩ <;> first | (simp [ho]) | cases h
  | gaveUpErr =>
    obtain ⟨hr, n, t, hl, hm, hg⟩ := h4 (by rw [hres]; decide) hfuel
    rw [hres] at hm
    have hge := hg hres
    simp only [hl]
    rw [if_neg (fun h => h hr)]
    have hle2 : lastEnd i o.trace = t + (i.script n).dur := by
      unfold lastEnd; rw [hl]
    rcases hm with ⟨h, _⟩ | ⟨h, _⟩ | ⟨h, _⟩ | ⟨_, ho⟩
    · cases h
    · cases h
    · cases h
    · simp only [ho]
      rw [if_pos (by rw [hle2]; exact hge)]

/-- non-vacuity of the specification itself: it rejects an immediate retry, a repeated attempt
number, and an attempt after a success -/
example : specAttempts (fun _ => ⟨.fail, 0⟩) none [(0, 0), (1, 0)] = some "retry-too-soon" ∧
    specAttempts (fun _ => ⟨.fail, 0⟩) none [(0, 0), (0, 60000000000)] = some "attempt-number" ∧
    specAttempts (fun _ => ⟨.ok, 0⟩) none [(0, 0), (1, 60000000000)] = some "attempt-after-terminal" ∧
    specAttempts (fun _ => ⟨.fail, 0⟩) (some 5) [(0, 0), (1, 60000000000)] = some "attempt-after-cancel" := by
  decide

/-! ## (b) the job manager -/

/-- **At most one job per name.** In every reachable state, for every non-empty name `n`, at
most one job named `n` is queued, running, or finished-but-not-yet-released; concretely: two
queue positions never carry the same name, a name held by a worker is not in the queue, and two
workers never hold the same name. -/
theorem C19_jobs_unique {m : Nat} {s : JM} (hr : Reachable m s) (n : String) (hn : n ≠ "") :
    occ s n ≤ 1 ∧
    (∀ (a b : Nat) ja jb, s.queue[a]? = some ja → s.queue[b]? = some jb →
        ja.name = n → jb.name = n → a = b) ∧
    (∀ w j, (s.ws w = .running j ∨ s.ws w = .finishing j) → j.name = n →
        (∀ j' ∈ s.queue, j'.name ≠ n) ∧
        ∀ w' j', w' ≠ w → (s.ws w' = .running j' ∨ s.ws w' = .finishing j') → j'.name ≠ n) := by
  have hi := inv_reachable hr
  have hu := hi.uniq n hn
  have h1 : occ s n ≤ 1 := by rw [hu]; split <;> omega
  refine ⟨h1, ?_, ?_⟩
  · intro a b ja jb ha hb hja hjb
    unfold occ at h1
    exact countP_le_one_unique (fun (j : Job) => decide (j.name = n)) s.queue (by omega) a b ja jb ha hb
      (by simp [hja]) (by simp [hjb])
  · intro w j hw hj
    have hoff : s.ws w ≠ .off := by rcases hw with h | h <;> rw [h] <;> intro h' <;> cases h'
    have hwl := lt_nextW hi hoff
    have hh : holdsW n (s.ws w) = 1 := by rcases hw with h | h <;> simp [h, holdsW, hj]
    unfold occ at h1
    refine ⟨?_, ?_⟩
    · intro j' hj' hn'
      have : 0 < s.queue.countP (fun (j : Job) => decide (j.name = n)) :=
        List.countP_pos_iff.mpr ⟨j', hj', by simp [hn']⟩
      have := le_sumW (g := holdsW n) (f := s.ws) s.nextW w hwl
      omega
    · intro w' j' hne hw' hn'
      have hoff' : s.ws w' ≠ .off := by rcases hw' with h | h <;> rw [h] <;> intro h' <;> cases h'
      have hwl' := lt_nextW hi hoff'
      have hh' : holdsW n (s.ws w') = 1 := by rcases hw' with h | h <;> simp [h, holdsW, hn']
      have := two_le_sumW (g := holdsW n) (f := s.ws) s.nextW w w' hwl hwl' (fun h => hne h.symm)
      omega

/-- the events of a small history: two workers, a duplicate submission, a panic -/
def demoRun : List Ev :=
  [.submit 1 "a", .take 0, .submit 2 "b", .take 1, .submit 3 "a", .submit 4 "c",
   .jobPanic 0, .release 0, .take 0]

/-- non-vacuity: the history is a run of the model from the initial state with two workers;
afterwards job 2 ("b") and job 4 ("c") are running, "a" is free again -/
example : ∃ s, run (init 2) demoRun = some s ∧ s.queue = [] ∧ s.active = 2 ∧
    s.ws 0 = .running ⟨4, "c"⟩ ∧ s.ws 1 = .running ⟨2, "b"⟩ ∧
    s.names "a" = false ∧ s.names "b" = true ∧ occ s "b" = 1 := by
  refine ⟨_, rfl, ?_⟩
  decide

/-- the number of live workers is `activeWorkers` and never exceeds `maxConcurrentJobs` -/
theorem C19_jobs_bounded {m : Nat} {s : JM} (hr : Reachable m s) :
    s.active ≤ m ∧ s.active = sumW aliveW s.ws s.nextW := by
  have hi := inv_reachable hr
  exact ⟨by have := hi.bound; rw [hi.maxW] at this; exact this, hi.act⟩

/-- **Every submitted job runs** (`maxConcurrentJobs ≥ 1`). In every reachable state:

1. a non-empty queue has a live worker: `activeWorkers > 0` and some started worker goroutine
   has not exited;
2. while the queue is non-empty some worker event is enabled — a stall can only come from a job
   that does not terminate (`jobReturn`/`jobPanic` never happening) or from the scheduler;
3. the job at queue position `p` is dequeued — as the `p`-th job dequeued from here on, i.e. in
   FIFO order — in every run from this state that contains more than `mu s p = 3·p + Σ_w work(w)`
   worker events (`work` = 2 for a worker inside a job, 1 for one about to release a name, 0
   otherwise), whatever submissions are interleaved. Every worker event other than dequeuing
   that very job strictly lowers `mu`; this is the measure argument. "Jobs terminate and workers
   are scheduled" is the hypothesis "worker events keep occurring". -/
theorem C19_jobs_run {m : Nat} (hm : 1 ≤ m) {s : JM} (hr : Reachable m s) :
    (s.queue ≠ [] → 0 < s.active ∧ ∃ w, w < s.nextW ∧ s.ws w ≠ .off) ∧
    (s.queue ≠ [] → ∃ e, e.isWorker = true ∧ (step s e).isSome = true) ∧
    (∀ (p : Nat) (j : Job) (es : List Ev) (s' : JM), s.queue[p]? = some j → run s es = some s' →
        mu s p < workerEvents es → (takenJobs s es)[p]? = some j) := by
  have hi := inv_reachable hr
  refine ⟨?_, worker_enabled hm hi, ?_⟩
  · intro hq
    have ha := hi.live hm hq
    refine ⟨ha, ?_⟩
    rw [hi.act] at ha
    obtain ⟨w, hw, hg⟩ := sumW_pos _ ha
    refine ⟨w, hw, ?_⟩
    intro h; rw [h] at hg; simp [aliveW] at hg
  · intro p j es s' hq hrun hmu
    exact taken_bound es s s' p j hi hrun hq hmu

/-- non-vacuity: one worker busy with job 1, jobs 2 and 3 queued; `mu` for job 3 (position 1)
is 3·1 + 2 = 5, and the run return, release, take 2, return, release, take 3 (6 worker events)
dequeues job 3 second -/
example : ∃ s, run (init 1) [.submit 1 "a", .take 0, .submit 2 "b", .submit 3 ""] = some s ∧
    s.queue[1]? = some ⟨3, ""⟩ ∧ mu s 1 = 5 ∧
    (takenJobs s [.jobReturn 0 true, .release 0, .take 0, .jobReturn 0 false, .release 0, .take 0])[1]?
      = some ⟨3, ""⟩ := by
  refine ⟨_, rfl, ?_⟩
  decide

/-- **Jobs are independent.** (1) In a reachable state in which no job named `n` is queued,
running or unreleased, `Submit(n)` is accepted: the job is appended to the queue — no name is
ever stuck. (2) When the job of worker `w` ends — by returning nil, returning an error, or
**panicking** — the release step is enabled; after it the worker is alive and looking at the
queue again (its slot is not lost), the job's name is free, and a later `Submit` of that name is
accepted. -/
theorem C19_jobs_independent {m : Nat} {s : JM} (hr : Reachable m s) :
    (∀ n id, occ s n = 0 → ∃ s', step s (.submit id n) = some s' ∧ s'.queue = s.queue ++ [⟨id, n⟩]) ∧
    (∀ w j e, s.ws w = .running j → (e = .jobReturn w true ∨ e = .jobReturn w false ∨ e = .jobPanic w) →
      ∃ s1 s2, step s e = some s1 ∧ step s1 (.release w) = some s2 ∧
        s2.ws w = .idle ∧ s2.active = s.active ∧ s2.names j.name = false ∧
        ∀ id, ∃ s3, step s2 (.submit id j.name) = some s3 ∧ s3.queue = s2.queue ++ [⟨id, j.name⟩]) := by
  have hi := inv_reachable hr
  have accept : ∀ (t : JM) (n : String) (id : Nat), t.names n = false →
      ∃ t', step t (.submit id n) = some t' ∧ t'.queue = t.queue ++ [⟨id, n⟩] := by
    intro t n id hf
    simp only [step, hf, Bool.false_eq_true, and_false, if_false]
    split
    · exact ⟨_, rfl, rfl⟩
    · exact ⟨_, rfl, rfl⟩
  refine ⟨?_, ?_⟩
  · intro n id h0
    apply accept
    by_cases hn : n = ""
    · rw [hn]; exact hi.noEmpty
    · have := hi.uniq n hn
      rw [h0] at this
      cases hb : s.names n with
      | false => rfl
      | true => simp [hb] at this
  · intro w j e hws he
    have hs1 : step s e = some { s with ws := upd s.ws w (.finishing j) } := by
      rcases he with h | h | h <;> subst h <;> simp [step, hws]
    refine ⟨{ s with ws := upd s.ws w (.finishing j) },
      { s with names := if j.name = "" then s.names else setName s.names j.name false
               ws := upd (upd s.ws w (.finishing j)) w .idle }, hs1, ?_, ?_, ?_, ?_, ?_⟩
    · simp only [step, upd_same]
    · simp only [upd_same]
    · rfl
    · show (if j.name = "" then s.names else setName s.names j.name false) j.name = false
      by_cases hn : j.name = ""
      · simp only [hn, if_true]; exact hi.noEmpty
      · simp only [hn, if_false, setName, if_true]
    · intro id
      apply accept
      show (if j.name = "" then s.names else setName s.names j.name false) j.name = false
      by_cases hn : j.name = ""
      · simp only [hn, if_true]; exact hi.noEmpty
      · simp only [hn, if_false, setName, if_true]

/-- non-vacuity: after the panic of job 1 ("a") and the release, "a" can be submitted again
and is queued (job 5) behind nothing, on the single worker -/
example : ∃ s, run (init 1) [.submit 1 "a", .take 0, .submit 9 "a", .jobPanic 0, .release 0,
      .submit 5 "a", .take 0] = some s ∧ s.ws 0 = .running ⟨5, "a"⟩ ∧ s.active = 1 ∧ s.queue = [] := by
  refine ⟨_, rfl, ?_⟩
  decide

/-! ## (c) which CA `Issue` uses -/

/-- **Test CA first.** On a retry (`attempts > 0`) with a test CA configured that differs from
the CA, the first order goes to the test CA's directory and is not throttled by the internal
rate limiter. -/
theorem C19_test_ca_first (i : IssueIn) (ha : i.attempts > 0) (ht : i.testCA ≠ "")
    (_hd : i.testCA ≠ i.ca) :
    (issue i).calls.head? = some { dir := i.testCA, throttled := false, usingTest := true } := by
  have hc : doIssue i i.attempts = { dir := i.testCA, throttled := false, usingTest := true } := by
    simp [doIssue, directory, usingTestCA, ha, ht]
  unfold issue
  rw [hc]
  cases i.first <;> simp only [List.head?_cons]
  split
  · cases i.second <;> simp only [List.head?_cons]
  · simp only [List.head?_cons]

/-- the first attempt (and every order of a first attempt) goes to the production directory
and is throttled -/
theorem C19_first_attempt_prod (i : IssueIn) (ha : i.attempts = 0) :
    (issue i).calls = [{ dir := prodDir i, throttled := true, usingTest := usingTestCA i (prodDir i) }] := by
  have hc : doIssue i i.attempts = { dir := prodDir i, throttled := true, usingTest := usingTestCA i (prodDir i) } := by
    simp [doIssue, directory, ha]
  unfold issue
  rw [hc]
  cases i.first <;> simp [ha]

/-- non-vacuity: a first attempt with a scheme-less CA: one throttled order to "https://" ++ CA -/
example : (issue { attempts := 0, ca := "ca.example/dir", testCA := "https://stg.example/dir"
                   defaultCA := "", first := .err, second := .ok }).calls =
    [{ dir := "https://ca.example/dir", throttled := true, usingTest := false }] := by decide

/-- **Never a test certificate.** Whenever `Issue` returns a certificate, it was issued through
the production directory (`newBasicACMEClient`'s URL for `CA`) — or, in the one remaining case,
through the directory literally configured as `CA` (this is when `TestCA` and `CA` are the same
string, so that "the test CA" *is* the configured CA). For every input. -/
theorem C19_never_test_cert (i : IssueIn) (d : String) (h : (issue i).cert = some d) :
    d = prodDir i ∨ (i.testCA = i.ca ∧ d = i.ca) := by
  unfold issue at h
  cases hf : i.first with
  | err => simp [hf] at h
  | rateLimited => simp [hf] at h
  | ok =>
    simp only [hf] at h
    split at h
    · cases hs : i.second with
      | ok =>
        simp only [hs] at h
        left
        simp only [Option.some.injEq] at h
        rw [← h]
        simp [doIssue, directory]
      | err => simp [hs] at h
      | rateLimited => simp [hs] at h
    · rename_i hcond
      simp only [Option.some.injEq] at h
      rw [← h]
      by_cases ha : i.attempts > 0
      · by_cases ht : i.testCA = ""
        · left; simp [doIssue, directory, ht]
        · right
          have hu : (doIssue i i.attempts).usingTest = true := by
            simp [doIssue, directory, usingTestCA, ha, ht]
          have hd : (doIssue i i.attempts).dir = i.testCA := by
            simp [doIssue, directory, ha, ht]
          have heq : i.ca = i.testCA := by
            apply Classical.byContradiction
            intro hne
            exact hcond ⟨by simp [ha], hu, hne⟩
          exact ⟨heq.symm, by rw [hd, heq]⟩
      · left
        have : i.attempts = 0 := by omega
        simp [doIssue, directory, this]

/-- with a CA URL that carries its scheme, the returned certificate always comes from `CA` itself -/
theorem C19_never_test_cert_wf (i : IssueIn) (hs : hasScheme i.ca.toList = true) (hne : i.ca ≠ "")
    (d : String) (h : (issue i).cert = some d) : d = i.ca := by
  have hp : prodDir i = i.ca := by simp [prodDir, hne, hs]
  rcases C19_never_test_cert i d h with h | ⟨_, h⟩
  · rw [h, hp]
  · exact h

/-- non-vacuity for the hypothesis of `C19_never_test_cert_wf`, in the corner `TestCA = CA` -/
example : hasScheme "https://ca.example/dir".toList = true ∧
    (issue { attempts := 4, ca := "https://ca.example/dir", testCA := "https://ca.example/dir"
             defaultCA := "", first := .ok, second := .err }).cert = some "https://ca.example/dir" := by decide

/-- non-vacuity: second attempt, distinct staging CA: test CA first, then production; the
certificate returned is the production one -/
example : issue { attempts := 1, ca := "https://ca.example/dir", testCA := "https://stg.example/dir"
                  defaultCA := "https://default.example/dir", first := .ok, second := .ok } =
    { calls := [{ dir := "https://stg.example/dir", throttled := false, usingTest := true },
                { dir := "https://ca.example/dir", throttled := true, usingTest := false }]
      cert := some "https://ca.example/dir", err := .none } := by decide

/-- **Error classes.** `Issue` returns a certificate exactly when it returns no error. The
error is marked non-retryable exactly when, on a retry, the test CA (different from the CA)
succeeded and the production CA then failed with something other than a 429; a 429 from the
production CA at that point — like any failure of the first order — stays retryable. -/
theorem C19_issue_errors (i : IssueIn) :
    ((issue i).cert.isSome = true ↔ (issue i).err = .none) ∧
    ((issue i).err = .noRetry ↔
      (i.attempts > 0 ∧ i.testCA ≠ "" ∧ i.ca ≠ i.testCA ∧ i.first = .ok ∧ i.second = .err)) ∧
    (i.first ≠ .ok → (issue i).err = .retryable ∧ (issue i).calls.length = 1) ∧
    (i.first = .ok → i.second = .rateLimited → (issue i).calls.length = 2 → (issue i).err = .retryable) := by
  have hu : ∀ (h : i.attempts > 0), (doIssue i i.attempts).usingTest = decide (i.testCA ≠ "") := by
    intro h
    by_cases ht : i.testCA = "" <;> simp [doIssue, directory, usingTestCA, h, ht]
  refine ⟨?_, ?_, ?_, ?_⟩
  · unfold issue
    cases i.first <;> simp
    split
    · cases i.second <;> simp
    · simp
  · unfold issue
    cases hf : i.first <;> simp
    split
    · rename_i hc
      obtain ⟨h1, h2, h3⟩ := hc
      have ha : i.attempts > 0 := by simpa using h1
      rw [hu ha] at h2
      have ht : i.testCA ≠ "" := by simpa using h2
      cases hs : i.second <;> simp [ha, ht, h3]
    · rename_i hc
      simp only
      constructor
      · intro h; cases h
      · intro ⟨ha, ht, hne, _⟩
        exact absurd ⟨by simp [ha], by rw [hu ha]; simp [ht], hne⟩ hc
  · intro h
    unfold issue
    cases hf : i.first <;> simp
    exact absurd hf h
  · intro hf hs hl
    unfold issue at hl ⊢
    simp only [hf] at hl ⊢
    by_cases hc : (decide (i.attempts > 0) = true ∧ (doIssue i i.attempts).usingTest = true ∧ i.ca ≠ i.testCA)
    · rw [if_pos hc]; simp [hs]
    · rw [if_neg hc] at hl; simp at hl

/-- non-vacuity: production answers 429 after the test CA succeeded: retryable; any other
production failure: not retryable -/
example : (issue { attempts := 3, ca := "a.example/dir", testCA := "https://stg.example/dir"
                   defaultCA := "", first := .ok, second := .rateLimited }).err = .retryable ∧
          (issue { attempts := 3, ca := "a.example/dir", testCA := "https://stg.example/dir"
                   defaultCA := "", first := .ok, second := .err }).err = .noRetry := by decide

/-- what the retry loop does with it: a 429 from production keeps the loop going, the
non-retryable class stops it -/
example : ErrClass.toOutcome .retryable = .fail ∧ ErrClass.toOutcome .noRetry = .noRetry := ⟨rfl, rfl⟩

end CM.Async
