import CM.Model.Bundle
/-!
# C07 — no crash or storage fault during obtain/renew leaves storage unrecoverable

For every number `j` of stores that reached storage before the process died, and for every
index at which a store failed; abstract key identifiers (so: every key, every serial).
The full statement is FALSE for one crash window of the unchanged code (D7a, a recorded
known finding): it is kept as `C07_recovers_full`, refuted by `C07_recovers_refuted`, and
proved for everything else (`…_obtain`, `…_renew_reuse`, `…_renew_noreuse_partial`,
`…_failAt`).
-/
namespace CM.Bundle

theorem slots_eta (s : Slots) :
    ({ key := s.key, crt := s.crt, mta := s.mta, compromised := s.compromised } : Slots) = s := by
  cases s; rfl

/-- **Any failing store is rolled back completely**: whichever of the three stores of the
transaction fails, the bundle is afterwards exactly what it was before (after the `fix:`
commit; `storeTx` used to delete, destroying the previous key and certificate). -/
theorem C07_failAt_restores (i : Nat) (k : KeyId) (c : Crt) (s : Slots) :
    storeTxFailAt i (saveWrites k c) s = s := by
  match i with
  | 0 => simp [storeTxFailAt, applyFirst]
  | 1 => cases s; simp [storeTxFailAt, applyFirst, saveWrites, applyW, restoreW]
  | 2 => cases s; simp [storeTxFailAt, applyFirst, saveWrites, applyW, restoreW]
  | n + 3 => cases s; simp [storeTxFailAt, applyFirst, saveWrites, applyW, restoreW]

/-- hence a certificate that was loadable before a failed renewal (or obtain) remains so -/
theorem C07_old_survives (i : Nat) (k : KeyId) (c : Crt) (s : Slots) (h : usable s = true) :
    usable (storeTxFailAt i (saveWrites k c) s) = true := by
  rw [C07_failAt_restores]; exact h

/-- a successful obtain (from any state without a complete bundle) leaves a usable bundle -/
theorem obtain_usable (e : Env) (s : Slots) (h : hasAll s = false) : usable (obtain e s) = true := by
  simp [obtain, h, applyFirst, saveWrites, applyW, usable, load]

/-- **Obtain, death after any store**: starting from storage in which the metadata or the
certificate is missing (empty, or whatever an earlier interrupted obtain left: the
metadata is written last), whatever number `j` of the three stores reached storage, a fresh
instance managing the name ends with a usable bundle — with or without key reuse, whatever
key the recovering instance generates. -/
theorem C07_recovers_obtain (e e' : Env) (s : Slots) (j : Nat) (c : Crt)
    (hinit : s.crt = none ∨ s.mta = none) (hc : c.pub = obtainKey e s) :
    usable (recover e' (applyFirst j (saveWrites (obtainKey e s) c) s)) = true := by
  have hrec : ∀ t : Slots, (hasAll t = false → load t = .notexist) → (hasAll t = true → usable t = true) →
      usable (recover e' t) = true := by
    intro t h1 h2
    cases ha : hasAll t
    · simp [recover, h1 ha, obtain_usable e' t ha]
    · have := h2 ha
      unfold usable at this
      unfold recover
      split at this
      · rename_i hl; simp [hl, usable]
      · cases this
  apply hrec
  · -- not all three exist ⇒ the load reports not-exist
    intro ha
    generalize applyFirst j (saveWrites (obtainKey e s) c) s = t at ha
    unfold hasAll at ha
    unfold load
    cases hk : t.key <;> cases hcr : t.crt <;> cases hm : t.mta <;> simp [hk, hcr, hm] at ha ⊢
  · intro ha
    match j with
    | 0 =>
      simp [applyFirst] at ha
      rcases hinit with h | h <;> simp [hasAll, h] at ha
    | 1 =>
      simp [applyFirst, saveWrites, applyW] at ha
      rcases hinit with h | h <;> simp [hasAll, h] at ha
    | 2 =>
      simp only [applyFirst, saveWrites, List.take, List.foldl, applyW] at ha ⊢
      rcases hinit with h | h
      · cases hm : s.mta with
        | none => simp [hasAll, hm] at ha
        | some m => simp [usable, load, hm, hc]
      · simp [hasAll, h] at ha
    | n + 3 =>
      simp [applyFirst, saveWrites, applyW, usable, load, hc]

/-- **Renew with key reuse, death after any store**: the bundle stays usable throughout
(the key file is rewritten with the same key). -/
theorem C07_recovers_renew_reuse (e e' : Env) (s : Slots) (j : Nat) (k0 : KeyId) (c0 c1 : Crt)
    (hl : load s = .ok k0 c0) (hr : e.reuse = true) (hc : c1.pub = renewKey e k0) :
    usable (recover e' (applyFirst j (saveWrites (renewKey e k0) c1) s)) = true := by
  have hk : renewKey e k0 = k0 := by simp [renewKey, hr]
  rw [hk] at hc ⊢
  -- unpack what "loadable" says about s
  unfold load at hl
  cases hsk : s.key with
  | none => simp [hsk] at hl
  | some k =>
    cases hsc : s.crt with
    | none => simp [hsk, hsc] at hl
    | some c =>
      cases hsm : s.mta with
      | none => simp [hsk, hsc, hsm] at hl
      | some m =>
        simp only [hsk, hsc, hsm] at hl
        split at hl
        · rename_i hkc
          simp at hl
          obtain ⟨rfl, rfl⟩ := hl
          match j with
          | 0 => simp [applyFirst, recover, load, usable, hsk, hsc, hsm, hkc]
          | 1 => simp [applyFirst, saveWrites, applyW, recover, load, usable, hsc, hsm, hkc]
          | 2 => simp [applyFirst, saveWrites, applyW, recover, load, usable, hsm, hc]
          | n + 3 => simp [applyFirst, saveWrites, applyW, recover, load, usable, hc]
        · cases hl

/-- **Renew without key reuse**: every crash point except "after the key, before the
certificate" leaves a usable bundle. -/
theorem C07_recovers_renew_noreuse_partial (e e' : Env) (s : Slots) (j : Nat) (k0 : KeyId) (c0 c1 : Crt)
    (hl : load s = .ok k0 c0) (hc : c1.pub = renewKey e k0) (hj : j ≠ 1) :
    usable (recover e' (applyFirst j (saveWrites (renewKey e k0) c1) s)) = true := by
  unfold load at hl
  cases hsk : s.key with
  | none => simp [hsk] at hl
  | some k =>
    cases hsc : s.crt with
    | none => simp [hsk, hsc] at hl
    | some c =>
      cases hsm : s.mta with
      | none => simp [hsk, hsc, hsm] at hl
      | some m =>
        simp only [hsk, hsc, hsm] at hl
        split at hl
        · rename_i hkc
          simp at hl
          obtain ⟨rfl, rfl⟩ := hl
          match j with
          | 0 => simp [applyFirst, recover, load, usable, hsk, hsc, hsm, hkc]
          | 1 => exact absurd rfl hj
          | 2 => simp [applyFirst, saveWrites, applyW, recover, load, usable, hsm, hc]
          | n + 3 => simp [applyFirst, saveWrites, applyW, recover, load, usable, hc]
        · cases hl

/-- the full statement (kept visible) -/
def C07_recovers_full : Prop :=
  ∀ (e e' : Env) (s : Slots) (j : Nat) (k0 : KeyId) (c0 c1 : Crt),
    load s = .ok k0 c0 → c1.pub = renewKey e k0 →
    usable (recover e' (applyFirst j (saveWrites (renewKey e k0) c1) s)) = true

/-- **D7a**: renewal without key reuse, death between the key store and the certificate
store: new key + old certificate + old metadata all exist, the load fails with a mismatch
that is not not-exist, and managing the name never obtains again. For EVERY loadable
bundle and every fresh key different from the stored one. -/
theorem C07_crash_window_unrecoverable (e e' : Env) (s : Slots) (k0 : KeyId) (c0 c1 : Crt)
    (hl : load s = .ok k0 c0) (hr : e.reuse = false) (hf : e.fresh ≠ k0) :
    usable (recover e' (applyFirst 1 (saveWrites (renewKey e k0) c1) s)) = false := by
  have hk : renewKey e k0 = e.fresh := by simp [renewKey, hr]
  rw [hk]
  unfold load at hl
  cases hsk : s.key with
  | none => simp [hsk] at hl
  | some k =>
    cases hsc : s.crt with
    | none => simp [hsk, hsc] at hl
    | some c =>
      cases hsm : s.mta with
      | none => simp [hsk, hsc, hsm] at hl
      | some m =>
        simp only [hsk, hsc, hsm] at hl
        split at hl
        · rename_i hkc
          simp at hl
          obtain ⟨rfl, rfl⟩ := hl
          have : e.fresh ≠ c.pub := by rw [← hkc]; exact hf
          simp [applyFirst, saveWrites, applyW, recover, load, usable, hsc, hsm, this]
        · cases hl

theorem C07_recovers_refuted : ¬ C07_recovers_full := by
  intro h
  have := h { reuse := false, fresh := 7, ser := 2, now := 5 } { reuse := false, fresh := 8, ser := 3, now := 6 }
    { key := some 1, crt := some { pub := 1, ser := 1, nb := 0 }, mta := some 1, compromised := none } 1 1
    { pub := 1, ser := 1, nb := 0 } { pub := 7, ser := 2, nb := 5 } (by decide) (by decide)
  revert this
  decide

/-! ### non-vacuity -/
example : load { key := some 1, crt := some { pub := 1, ser := 1, nb := 0 }, mta := some 1, compromised := none }
    = .ok 1 { pub := 1, ser := 1, nb := 0 } := by decide
example : usable (recover { reuse := false, fresh := 9, ser := 4, now := 1 }
    (applyFirst 1 (saveWrites 5 { pub := 5, ser := 3, nb := 0 }) Slots.empty)) = true := by decide

end CM.Bundle
