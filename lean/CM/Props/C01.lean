import CM.Proofs.Issue
import CM.Proofs.IssueTerm
/-!
# C01 — issuance for a name is serialised and never repeated cluster-wide

Theorems about the LTS of `CM/Model/Issue.lean`, for **every number of requests**, every
mix of obtain / renew / manage, sync or async, every schedule, every pattern of issuer and
storage failures, and holders dying with the lock. Assumed (H_lock): the `Locker` grants a
name to one holder at a time and takes a lock over only from a dead holder (C08 for
`FileStorage`); that all spellings of a subject map to one lock and one storage key is
checked on the real key builders by the harness (after the `fix:` commit that
canonicalises the subject at the entry of obtain/renew).
-/
namespace CM.Issue

variable {due : Ver → Bool}

/-- **Serialised**: in every reachable state, two requests that are inside the issuer are
the same request. -/
theorem C01_mutex {s : St} (h : Reach due s) (p q : Nat)
    (hp : s.pc p = .issuing) (hq : s.pc q = .issuing) : p = q :=
  holder_unique (inv_reach h) (by simp [hp, PC.inCS]) (by simp [hq, PC.inCS])

/-- the same for the whole "decided to issue … saved" region, and it implies holding the lock -/
theorem C01_issuer_holds_lock {s : St} (h : Reach due s) (p : Nat)
    (hp : (s.pc p).wantsIssue = true) : s.lock = some p :=
  (inv_reach h).cs_holds p (wantsIssue_inCS hp)

/-- once a fresh bundle is stored, no step changes what is stored -/
theorem fresh_stable {s s' : St} {e : Ev} (hi : Inv due s) (hf : fresh due s = true)
    (h : step due s e = some s') : s'.stored = s.stored := by
  cases e with
  | saveOk p =>
    simp only [step] at h
    split at h
    · rename_i hc
      have := hi.issue_not_fresh p (by simp [hc, PC.wantsIssue])
      rw [hf] at this; cases this
    · simp at h
  | saveFail p k =>
    simp only [step] at h
    split at h
    · rename_i hc
      have := hi.issue_not_fresh p (by simp [hc, PC.wantsIssue])
      rw [hf] at this; cases this
    · simp at h
  | pre p =>
    simp only [step] at h
    split at h
    · split at h
      · simp at h; subst h; rfl
      · simp at h; subst h; rfl
      · split at h
        · simp at h; subst h; rfl
        · split at h <;> (simp at h; subst h; rfl)
    · simp at h
  | acq p => simp only [step] at h; split at h <;> simp at h; subst h; rfl
  | recheck p =>
    simp only [step] at h
    split at h
    · split at h
      · split at h <;> (simp at h; subst h; rfl)
      · simp at h; subst h; rfl
    · simp at h
  | issueBegin p => simp only [step] at h; split at h <;> simp at h; subst h; rfl
  | issueEnd p ok => simp only [step] at h; split at h <;> simp at h; subst h; rfl
  | retry p => simp only [step] at h; split at h <;> simp at h; subst h; rfl
  | giveUp p => simp only [step] at h; split at h <;> simp at h; subst h; rfl
  | rel p => simp only [step] at h; split at h <;> simp at h; subst h; rfl
  | die p => simp only [step] at h; split at h <;> simp at h; subst h; rfl
  | expire =>
    simp only [step] at h
    split at h
    · split at h <;> simp at h; subst h; rfl
    · simp at h

/-- with a fresh bundle stored, no request can begin an issuance -/
theorem no_issue_when_fresh {s : St} (hi : Inv due s) (hf : fresh due s = true) (p : Nat) :
    step due s (.issueBegin p) = none := by
  simp only [step]
  split
  · rename_i hc
    have := hi.issue_not_fresh p (by simp [hc, PC.wantsIssue])
    rw [hf] at this; cases this
  · rfl

def Ev.isIssueBegin : Ev → Bool
  | .issueBegin _ => true
  | _ => false

/-- **Never repeated**: from any reachable state in which a fresh bundle is stored, along
every continuation of the run no issuance begins and the stored bundle stays the same —
so all requests end up with the same stored certificate. -/
theorem C01_no_repeat {s : St} (h : Reach due s) (hf : fresh due s = true) :
    ∀ (es : List Ev) (s' : St), run due s es = some s' →
      s'.stored = s.stored ∧ es.all (fun e => !e.isIssueBegin) = true := by
  intro es
  induction es generalizing s with
  | nil => intro s' hr; simp [run] at hr; subst hr; simp
  | cons e es ih =>
    intro s' hr
    simp only [run] at hr
    cases hs : step due s e with
    | none => simp [hs] at hr
    | some s1 =>
      simp only [hs] at hr
      have hi := inv_reach h
      have hst := fresh_stable hi hf hs
      have hf1 : fresh due s1 = true := by rw [fresh_congr hst]; exact hf
      have := ih (Reach.step h hs) hf1 s' hr
      refine ⟨this.1.trans hst, ?_⟩
      simp only [List.all_cons, this.2, Bool.and_true]
      cases e with
      | issueBegin p => rw [no_issue_when_fresh hi hf p] at hs; cases hs
      | _ => rfl

/-- a request that has not contacted the issuer and is at a point from which, with a fresh
bundle stored, it can only go on to succeed -/
def quietPC : PC → Bool
  | .start | .wantLock | .recheck | .release true | .done true | .dead => true
  | _ => false

def Quiet (s : St) (p : Nat) : Prop := s.contacted p = false ∧ quietPC (s.pc p) = true

theorem quiet_step {s s' : St} {e : Ev} (hf : fresh due s = true) (p : Nat)
    (hq : Quiet s p) (h : step due s e = some s') : Quiet s' p := by
  obtain ⟨hc, hpc⟩ := hq
  have hst : ∃ v, s.stored = some v ∧ due v = false := by
    unfold fresh at hf
    split at hf
    · cases hf
    · rename_i v hv; exact ⟨v, hv, by simpa using hf⟩
  obtain ⟨v, hv, hdv⟩ := hst
  -- a step of another process never changes p's pc or its ghost
  cases e with
  | pre r =>
    simp only [step] at h
    split at h
    · split at h
      · simp at h; subst h
        refine ⟨hc, ?_⟩
        by_cases hrp : p = r
        · subst hrp; simp [hv, quietPC]
        · simp only [upd_other _ _ _ _ hrp]; exact hpc
      · simp at h; subst h
        refine ⟨hc, ?_⟩
        by_cases hrp : p = r
        · subst hrp; simp [quietPC]
        · simp only [upd_other _ _ _ _ hrp]; exact hpc
      · simp only [hv] at h
        split at h
        · rename_i hd; rw [hdv] at hd; cases hd
        · simp at h; subst h
          refine ⟨hc, ?_⟩
          by_cases hrp : p = r
          · subst hrp; simp [quietPC]
          · simp only [upd_other _ _ _ _ hrp]; exact hpc
    · simp at h
  | acq r =>
    simp only [step] at h
    split at h
    · simp at h; subst h
      refine ⟨hc, ?_⟩
      by_cases hrp : p = r
      · subst hrp; simp [quietPC]
      · simp only [upd_other _ _ _ _ hrp]; exact hpc
    · simp at h
  | recheck r =>
    simp only [step] at h
    split at h
    · split at h
      · simp only [hv] at h
        simp at h; subst h
        refine ⟨hc, ?_⟩
        by_cases hrp : p = r
        · subst hrp; simp [hdv, quietPC]
        · simp only [upd_other _ _ _ _ hrp]; exact hpc
      · simp at h; subst h
        refine ⟨hc, ?_⟩
        by_cases hrp : p = r
        · subst hrp; simp [hv, quietPC]
        · simp only [upd_other _ _ _ _ hrp]; exact hpc
    · simp at h
  | issueBegin r =>
    simp only [step] at h
    split at h
    · rename_i hr
      simp at h; subst h
      by_cases hrp : p = r
      · subst hrp; simp [hr, quietPC] at hpc
      · exact ⟨by simp only [upd_other _ _ _ _ hrp]; exact hc, by simp only [upd_other _ _ _ _ hrp]; exact hpc⟩
    · simp at h
  | issueEnd r ok =>
    simp only [step] at h
    split at h
    · rename_i hr
      simp at h; subst h
      by_cases hrp : p = r
      · subst hrp; simp [hr, quietPC] at hpc
      · exact ⟨hc, by simp only [upd_other _ _ _ _ hrp]; exact hpc⟩
    · simp at h
  | saveOk r =>
    simp only [step] at h
    split at h
    · rename_i hr
      simp at h; subst h
      by_cases hrp : p = r
      · subst hrp; simp [hr, quietPC] at hpc
      · exact ⟨hc, by simp only [upd_other _ _ _ _ hrp]; exact hpc⟩
    · simp at h
  | saveFail r k =>
    simp only [step] at h
    split at h
    · rename_i hr
      simp at h; subst h
      by_cases hrp : p = r
      · subst hrp; simp [hr, quietPC] at hpc
      · exact ⟨hc, by simp only [upd_other _ _ _ _ hrp]; exact hpc⟩
    · simp at h
  | retry r =>
    simp only [step] at h
    split at h
    · rename_i hr
      simp at h; subst h
      by_cases hrp : p = r
      · subst hrp; simp [hr.1, quietPC] at hpc
      · exact ⟨hc, by simp only [upd_other _ _ _ _ hrp]; exact hpc⟩
    · simp at h
  | giveUp r =>
    simp only [step] at h
    split at h
    · rename_i hr
      simp at h; subst h
      by_cases hrp : p = r
      · subst hrp; simp [hr, quietPC] at hpc
      · exact ⟨hc, by simp only [upd_other _ _ _ _ hrp]; exact hpc⟩
    · simp at h
  | rel r =>
    simp only [step] at h
    split at h
    · rename_i ok hr
      simp at h; subst h
      refine ⟨hc, ?_⟩
      by_cases hrp : p = r
      · subst hrp
        simp only [upd_same]
        rw [hr] at hpc
        cases ok <;> simp [quietPC] at hpc ⊢
      · simp only [upd_other _ _ _ _ hrp]; exact hpc
    · simp at h
  | die r =>
    simp only [step] at h
    split at h
    · simp at h
    · simp at h
    · simp at h; subst h
      refine ⟨hc, ?_⟩
      by_cases hrp : p = r
      · subst hrp; simp [quietPC]
      · simp only [upd_other _ _ _ _ hrp]; exact hpc
  | expire =>
    simp only [step] at h
    split at h
    · split at h <;> simp at h
      subst h; exact ⟨hc, hpc⟩
    · simp at h

/-- **Waiters and late arrivals succeed without the issuer**: once a fresh bundle is
stored, every request that has not yet begun, is waiting for the lock, or holds it for its
re-check, completes — along every continuation — with success and without ever contacting
the issuer. -/
theorem C01_waiters_succeed {s : St} (h : Reach due s) (hf : fresh due s = true) (p : Nat)
    (hq : Quiet s p) :
    ∀ (es : List Ev) (s' : St), run due s es = some s' →
      s'.contacted p = false ∧ ∀ ok, s'.pc p = .done ok → ok = true := by
  intro es
  induction es generalizing s with
  | nil =>
    intro s' hr; simp [run] at hr; subst hr
    refine ⟨hq.1, ?_⟩
    intro ok hd
    have := hq.2; rw [hd] at this
    cases ok <;> simp [quietPC] at this ⊢
  | cons e es ih =>
    intro s' hr
    simp only [run] at hr
    cases hs : step due s e with
    | none => simp [hs] at hr
    | some s1 =>
      simp only [hs] at hr
      have hst := fresh_stable (inv_reach h) hf hs
      have hf1 : fresh due s1 = true := by rw [fresh_congr hst]; exact hf
      exact ih (Reach.step h hs) hf1 (quiet_step hf p hq hs) s' hr

/-! ### take-over: nobody waits for a lock that nobody can release -/

/-- second invariant: the recorded holder is inside its critical section, or dead -/
def HolderOk (s : St) : Prop :=
  ∀ q, s.lock = some q → (s.pc q).inCS = true ∨ s.pc q = .dead

theorem holderOk_initial {s : St} (h : initial s) : HolderOk s := by
  intro q hq; rw [h.1] at hq; cases hq

theorem holderOk_step {s s' : St} {e : Ev} (hi : Inv due s) (ho : HolderOk s)
    (h : step due s e = some s') : HolderOk s' := by
  intro q hq
  -- a process outside the critical section that is not dead does not hold the lock
  cases e with
  | pre p =>
    simp only [step] at h
    split at h
    · rename_i hc
      have hpq : s.lock = some q → q ≠ p := by
        intro hl heq; subst heq
        rcases ho q hl with h1 | h1 <;> simp [hc, PC.inCS] at h1
      split at h
      · simp at h; subst h
        simp only at hq ⊢
        rw [upd_other _ _ _ _ (hpq hq)]; exact ho q hq
      · simp at h; subst h
        simp only at hq ⊢
        rw [upd_other _ _ _ _ (hpq hq)]; exact ho q hq
      · split at h
        · simp at h; subst h; exact ho q hq
        · split at h
          · simp at h; subst h; exact ho q hq
          · simp at h; subst h
            simp only at hq ⊢
            rw [upd_other _ _ _ _ (hpq hq)]; exact ho q hq
    · simp at h
  | acq p =>
    simp only [step] at h
    split at h
    · simp at h; subst h
      simp only at hq ⊢
      simp at hq; subst hq
      left; simp [PC.inCS]
    · simp at h
  | recheck p =>
    simp only [step] at h
    split at h
    · rename_i hc
      have hl : s.lock = some p := hi.cs_holds p (by simp [hc, PC.inCS])
      have hqp : q = p := by
        have : s'.lock = s.lock := by
          split at h
          · split at h <;> (simp at h; subst h; rfl)
          · simp at h; subst h; rfl
        rw [this, hl] at hq; simpa using hq.symm
      subst hqp
      left
      split at h
      · split at h
        · simp at h; subst h; simp [PC.inCS]
        · simp at h; subst h; simp only [upd_same]; split <;> simp [PC.inCS]
      · simp at h; subst h; simp only [upd_same]; split <;> simp [PC.inCS]
    · simp at h
  | issueBegin p =>
    simp only [step] at h
    split at h
    · rename_i hc
      have hl : s.lock = some p := hi.cs_holds p (by simp [hc, PC.inCS])
      simp at h; subst h
      simp only at hq ⊢
      rw [hl] at hq; simp at hq; subst hq
      left; simp [PC.inCS]
    · simp at h
  | issueEnd p ok =>
    simp only [step] at h
    split at h
    · rename_i hc
      have hl : s.lock = some p := hi.cs_holds p (by simp [hc, PC.inCS])
      simp at h; subst h
      simp only at hq ⊢
      rw [hl] at hq; simp at hq; subst hq
      left; simp only [upd_same]; split <;> simp [PC.inCS]
    · simp at h
  | saveOk p =>
    simp only [step] at h
    split at h
    · rename_i hc
      have hl : s.lock = some p := hi.cs_holds p (by simp [hc, PC.inCS])
      simp at h; subst h
      simp only at hq ⊢
      rw [hl] at hq; simp at hq; subst hq
      left; simp [PC.inCS]
    · simp at h
  | saveFail p k =>
    simp only [step] at h
    split at h
    · rename_i hc
      have hl : s.lock = some p := hi.cs_holds p (by simp [hc, PC.inCS])
      simp at h; subst h
      simp only at hq ⊢
      rw [hl] at hq; simp at hq; subst hq
      left; simp [PC.inCS]
    · simp at h
  | retry p =>
    simp only [step] at h
    split at h
    · rename_i hc
      have hl : s.lock = some p := hi.cs_holds p (by simp [hc.1, PC.inCS])
      simp at h; subst h
      simp only at hq ⊢
      rw [hl] at hq; simp at hq; subst hq
      left; simp [PC.inCS]
    · simp at h
  | giveUp p =>
    simp only [step] at h
    split at h
    · rename_i hc
      have hl : s.lock = some p := hi.cs_holds p (by simp [hc, PC.inCS])
      simp at h; subst h
      simp only at hq ⊢
      rw [hl] at hq; simp at hq; subst hq
      left; simp [PC.inCS]
    · simp at h
  | rel p =>
    simp only [step] at h
    split at h
    · simp at h; subst h; simp at hq
    · simp at h
  | die p =>
    simp only [step] at h
    split at h
    · simp at h
    · simp at h
    · simp at h; subst h
      simp only at hq ⊢
      by_cases hqp : q = p
      · subst hqp; right; simp
      · rw [upd_other _ _ _ _ hqp]; exact ho q hq
  | expire =>
    simp only [step] at h
    split at h
    · split at h <;> simp at h
      subst h; simp at hq
    · simp at h

theorem holderOk_reach {s : St} (h : Reach due s) : HolderOk s := by
  induction h with
  | init hi => exact holderOk_initial hi
  | step hr hs ih => exact holderOk_step (inv_reach hr) ih hs

/-- **Take-over**: in every reachable state in which some request waits for the lock, a
step is enabled that moves things forward: the waiter acquires the free lock, or the live
holder takes its next step (every point of the critical section has one, so a failing
leader releases), or the dead holder's lock is taken over. Nobody waits on nothing. -/
theorem C01_takeover {s : St} (h : Reach due s) (p : Nat) (hp : s.pc p = .wantLock) :
    (s.lock = none ∧ (step due s (.acq p)).isSome = true) ∨
    (∃ q, s.lock = some q ∧ s.pc q = .dead ∧ (step due s .expire).isSome = true) ∨
    (∃ q e, s.lock = some q ∧ (s.pc q).inCS = true ∧ (step due s e).isSome = true ∧
       (e = .recheck q ∨ e = .issueBegin q ∨ e = .issueEnd q true ∨ e = .saveOk q ∨
        e = .giveUp q ∨ e = .rel q)) := by
  rcases Option.eq_none_or_eq_some s.lock with hl | ⟨q, hl⟩
  · left; exact ⟨hl, by simp [step, hp, hl]⟩
  · right
    rcases holderOk_reach h q hl with hcs | hd
    · right
      refine ⟨q, ?_⟩
      cases hq : s.pc q with
      | start => simp [hq, PC.inCS] at hcs
      | wantLock => simp [hq, PC.inCS] at hcs
      | done ok => simp [hq, PC.inCS] at hcs
      | dead => simp [hq, PC.inCS] at hcs
      | recheck =>
        refine ⟨.recheck q, hl, by simp [PC.inCS], ?_, by simp⟩
        simp only [step, hq, if_true]
        cases s.kind q <;> (try cases s.stored) <;> simp
      | issueBegin => exact ⟨.issueBegin q, hl, by simp [PC.inCS], by simp [step, hq], by simp⟩
      | issuing => exact ⟨.issueEnd q true, hl, by simp [PC.inCS], by simp [step, hq], by simp⟩
      | save => exact ⟨.saveOk q, hl, by simp [PC.inCS], by simp [step, hq], by simp⟩
      | failed => exact ⟨.giveUp q, hl, by simp [PC.inCS], by simp [step, hq], by simp⟩
      | release ok => exact ⟨.rel q, hl, by simp [PC.inCS], by simp [step, hq], by simp⟩
    · left
      exact ⟨q, hl, hd, by simp [step, hl, hd]⟩

/-- **Nobody hangs (1)**: every run of `n` requests is finite, with an explicit bound — each
step strictly decreases a measure built from the program counters and the remaining retry
budgets (`doWithRetry` gives up after its maximum duration). -/
theorem C01_terminates {s s' : St} (h : Reach due s) (n : Nat) (es : List Ev)
    (hn : ∀ e ∈ es, ∀ p, e.proc = some p → p < n) (hr : run due s es = some s') :
    es.length ≤ mu n s := by
  have := run_length_le es s s' (inv_reach h) hn hr
  omega

/-- **Nobody hangs (2)**: a state in which no step is enabled has nobody waiting for the
lock — so every maximal run ends with every request finished (or dead), none left hanging
behind a failed or dead leader. -/
theorem C01_final_no_waiter {s : St} (h : Reach due s) (hfin : ∀ e, step due s e = none) (p : Nat) :
    s.pc p ≠ .wantLock := by
  intro hp
  rcases C01_takeover h p hp with ⟨_, h1⟩ | ⟨q, _, _, h1⟩ | ⟨q, e, _, _, h1, _⟩
  · rw [hfin] at h1; cases h1
  · rw [hfin] at h1; cases h1
  · rw [hfin] at h1; cases h1

/-! ### non-vacuity: a concrete run with a failing leader -/

/-- three requests on an empty store: 0 = async obtain, 1 = renew, 2 = manage -/
def ex0 : St := { lock := none, stored := none, next := 1, pc := fun _ => .start
                  kind := fun p => if p = 0 then .obtain else if p = 1 then .renew else .manage
                  async := fun p => p = 0, budget := fun _ => 3, contacted := fun _ => false, issuedBy := fun _ => 0 }

example : initial ex0 := by
  refine ⟨rfl, fun _ => rfl, fun _ => rfl, fun _ => rfl, Or.inl rfl, rfl⟩

/-- request 0 leads, its first attempt fails, it retries inside the lock and saves; the
manage request (2), which had found nothing and become an obtain, then finds the bundle;
the renew request (1) acquires afterwards and finds it not due -/
def exRun : List Ev :=
  [.pre 0, .pre 2, .pre 2, .acq 0, .recheck 0, .issueBegin 0, .issueEnd 0 false, .retry 0, .recheck 0,
   .issueBegin 0, .issueEnd 0 true, .saveOk 0, .rel 0, .pre 1, .acq 2, .recheck 2, .rel 2,
   .acq 1, .recheck 1, .rel 1]

example : mu 3 ex0 = 127 := by decide

example : (run (fun _ => false) ex0 exRun).map
    (fun s => (s.stored, s.pc 0, s.pc 1, s.pc 2, s.contacted 1, s.contacted 2, s.issuedBy 0)) =
    some (some 1, .done true, .done true, .done true, false, false, 1) := by rfl

/-! ### what H_lock is needed for: the stale-lock race of the file-system locker (finding D27)

The theorems above are about the LTS whose `acq` needs `lock = none` and whose `expire` frees
only a DEAD holder's lock — the contract H_lock of `Locker`. `FileStorage` departs from it in
one documented situation (package comment; the file-lock model's example "Documented
non-guarantee", `CM/Props/C08.lean`): a waiter that read the lock file while it was stale
removes "it" after another waiter has already created its own — it takes the lock from a
LIVE holder. Adding exactly that step refutes mutual exclusion, with the history the
OS-process rig observed on the real code (leader killed inside the issuer, two waiters). -/

/-- the racing take-over: `p` waits, a live `q` holds the lock, `p` takes it all the same -/
def stealStep (s : St) (p : Nat) : Option St :=
  match s.lock with
  | some q =>
    if s.pc p = .wantLock ∧ q ≠ p ∧ (s.pc q).inCS = true then
      some { s with lock := some p, pc := upd s.pc p .recheck }
    else none
  | none => none

/-- runs of the LTS extended with the racing take-over (`.inr p`) -/
def runR (due : Ver → Bool) : St → List (Ev ⊕ Nat) → Option St
  | s, [] => some s
  | s, .inl e :: es => (step due s e).bind (fun s' => runR due s' es)
  | s, .inr p :: es => (stealStep s p).bind (fun s' => runR due s' es)

/-- three obtain requests on an empty store -/
def exR0 : St := { ex0 with kind := fun _ => .obtain, async := fun _ => false }

/-- request 0 leads and is killed inside the issuer; its lock goes stale and is taken over by
request 1 (a legitimate `expire` + `acq`), which enters the issuer; request 2, which had seen
the same stale file, takes the lock from the live request 1 and enters the issuer as well -/
def exRace : List (Ev ⊕ Nat) :=
  [.inl (.pre 0), .inl (.acq 0), .inl (.recheck 0), .inl (.issueBegin 0), .inl (.die 0),
   .inl (.pre 1), .inl (.pre 2), .inl .expire, .inl (.acq 1), .inl (.recheck 1), .inl (.issueBegin 1),
   .inr 2, .inl (.recheck 2), .inl (.issueBegin 2)]

/-- **C01_mutex needs H_lock**: with the racing take-over two live requests are inside the
issuer at once (known finding D27; compare `C01_mutex`, which excludes it for every run of the
LTS proper) -/
theorem C01_mutex_refuted_by_stale_race :
    (runR (fun _ => false) exR0 exRace).map (fun s => (s.pc 0, s.pc 1, s.pc 2, s.lock)) =
      some (.dead, .issuing, .issuing, some 2) := by rfl

/-- … and the race is the ONLY thing added: without its step the same prefix leaves request 2
waiting (the `acq` of the LTS proper is not enabled while request 1 holds the lock) -/
theorem C01_no_race_no_overlap :
    (runR (fun _ => false) exR0 (exRace.take 11)).bind (fun s => step (fun _ => false) s (.acq 2)) = none := by rfl

end CM.Issue
