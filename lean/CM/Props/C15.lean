import CM.Proofs.Challenge
/-!
# C15 — challenge material goes only to the matching validation request, on any node

Property theorems only (model: `CM/Model/Challenge.lean`, invariant: `CM/Proofs/Challenge.lean`).
They hold for **every** environment `E` (sanitiser and case folding — in particular for a
sanitiser that maps different names to the same key, which is what made D12 possible),
every reachable state of the present / clean-up system (any number of nodes, issuers,
challenges, any order of calls obeying acmez's discipline and CertMagic's name lock),
every node, every list of searched prefixes, and every request / ClientHello.
`(n0, p0, c) ∈ S.active` reads “challenge `c` was presented by node `n0` under the issuer
prefix `p0` and has not been cleaned up”: *pending*.
-/
namespace CM.Challenge

/-- the challenge is pending and visible to node `n` searching the prefixes `ps` -/
def PendingFor (S : State) (n : Nat) (ps : List Str) (c : Chal) : Prop :=
  ∃ n0 p0, (n0, p0, c) ∈ S.active ∧ (n0 = n ∨ p0 ∈ ps)

/-- **HTTP-01, only the matching request.** If the handler writes a body, then the
challenge handling is enabled, the request is a `GET`, and the body is the key
authorisation of a *pending* challenge whose resource path is exactly the request path and
whose identifier is, case-insensitively, the request's host. -/
theorem C15_http_only_match (E : Env) (S : State) (hR : Reachable E S) (n : Nat) (ps : List Str)
    (disabled : Bool) (r : HttpReq) (body : Str)
    (h : httpAnswer E S n ps disabled r = .serve body) :
    disabled = false ∧ r.method = GET ∧
    ∃ c, body = c.keyAuth ∧ r.path = resourcePath c ∧ eqFold E r.host c.ident = true ∧
      PendingFor S n ps c := by
  have hI := inv_reachable hR
  unfold httpAnswer at h
  split at h; · cases h
  rename_i hd
  split at h; · cases h
  split at h; · cases h
  split at h; · cases h
  rename_i e hl
  split at h
  · rename_i hs
    injection h with h
    simp only [solves, Bool.and_eq_true, beq_iff_eq] at hs
    obtain ⟨_, n0, p0, ha, hv⟩ := lookup_sound hI hl
    exact ⟨by simpa using hd, hs.2, e.chal, h.symm, hs.1.1, hs.1.2, n0, p0, ha, hv⟩
  · cases h

/-- **HTTP-01, everything else is passed on.** The handler either passes the request to
the wrapped handler having written nothing, or serves; and it passes it on whenever no
pending challenge visible to this node is solved by the request (wrong method, any other
path — prefix, suffix, other token —, another host, challenge cleaned up, handling disabled). -/
theorem C15_http_passthrough (E : Env) (S : State) (hR : Reachable E S) (n : Nat) (ps : List Str)
    (disabled : Bool) (r : HttpReq)
    (h : disabled = true ∨ r.method ≠ GET ∨ ∀ c, PendingFor S n ps c → solves E r c = false) :
    httpAnswer E S n ps disabled r = .pass := by
  cases hh : httpAnswer E S n ps disabled r with
  | pass => rfl
  | serve body =>
    obtain ⟨h1, h2, c, _, h4, h5, h6⟩ := C15_http_only_match E S hR n ps disabled r body hh
    rcases h with h | h | h
    · rw [h1] at h; cases h
    · exact absurd h2 h
    · have := h c h6
      simp [solves, h4, h5, h2] at this

/-- **TLS-ALPN-01, only the matching hello.** If a challenge certificate is returned, then
the hello offered solely `acme-tls/1`, had a server name, and the certificate is that of a
*pending* challenge whose key (its identifier; for an IP identifier its reverse-DNS name)
is, case-insensitively, that server name. (False before D12 was repaired.) -/
theorem C15_alpn_only_match (E : Env) (S : State) (hR : Reachable E S) (n : Nat) (ps : List Str)
    (h : Hello) (c : Chal) (cached : Bool) (ha : alpnAnswer E S n ps h = .cert c cached) :
    h.protos = [acmeTLS1] ∧ h.sni ≠ [] ∧ eqFold E (challengeKey c) h.sni = true ∧
    PendingFor S n ps c := by
  have hI := inv_reachable hR
  unfold alpnAnswer at ha
  split at ha
  · rename_i hc
    split at ha; · cases ha
    rename_i e hl
    obtain ⟨h1, h2⟩ := lookup_sound hI hl
    have : e.chal = c := by
      split at ha
      · injection ha
      · split at ha
        · injection ha
        · cases ha
    subst this
    exact ⟨hc.2, hc.1, h1, h2⟩
  · cases ha

/-- **TLS-ALPN-01, every other hello** (no server name, or an ALPN list other than exactly
`[acme-tls/1]` — empty, `acme-tls/1` among others, another protocol) takes the ordinary
certificate selection. -/
theorem C15_alpn_other (E : Env) (S : State) (n : Nat) (ps : List Str) (h : Hello)
    (hh : h.sni = [] ∨ h.protos ≠ [acmeTLS1]) : alpnAnswer E S n ps h = .normal := by
  unfold alpnAnswer
  rw [if_neg]
  rintro ⟨h1, h2⟩
  rcases hh with hh | hh
  · exact h1 hh
  · exact hh h2

/-- the validation request a CA sends for an HTTP-01 challenge -/
def reqFor (c : Chal) : HttpReq := { method := GET, path := resourcePath c, host := c.ident }

/-- the validation hello a CA sends for a TLS-ALPN-01 challenge -/
def helloFor (c : Chal) : Hello := { sni := challengeKey c, protos := [acmeTLS1] }

/-- **Any node, while pending (HTTP-01).** While a challenge is pending, *every* node —
the one that presented it, and any node that shares only the storage and whose
configuration searches the issuer prefix it was presented under — answers its validation
request with its key authorisation. -/
theorem C15_any_node (E : Env) (S : State) (hR : Reachable E S) (n : Nat) (ps : List Str)
    (c : Chal) (hp : PendingFor S n ps c) (hk : challengeKey c = c.ident) :
    httpAnswer E S n ps false (reqFor c) = .serve c.keyAuth := by
  have hI := inv_reachable hR
  obtain ⟨n0, p0, ha, hv⟩ := hp
  obtain ⟨d, hl⟩ := lookup_complete hI (n := n) (ps := ps) ha hv
  rw [hk] at hl
  have hpre : basePath.isPrefixOf (resourcePath c) = true := by
    simp [resourcePath]
  simp [httpAnswer, reqFor, hl, solves, eqFold_refl, hpre]

/-- **Any node, while pending (TLS-ALPN-01).** -/
theorem C15_any_node_alpn (E : Env) (S : State) (hR : Reachable E S) (n : Nat) (ps : List Str)
    (c : Chal) (hp : PendingFor S n ps c) (hne : challengeKey c ≠ []) (hid : c.idnaOK = true) :
    ∃ d, alpnAnswer E S n ps (helloFor c) = .cert c d := by
  have hI := inv_reachable hR
  obtain ⟨n0, p0, ha, hv⟩ := hp
  obtain ⟨d, hl⟩ := lookup_complete hI (n := n) (ps := ps) ha hv
  cases d <;> simp [alpnAnswer, helloFor, hl, hne, hid]

/-- **… whichever CA the order was placed with.** The prefix an issuer presents under —
its production CA's, or its test CA's on a retry — is among the prefixes every node
configured with that issuer searches. (False before D17 was repaired.) -/
theorem C15_any_node_prefix (is : List Issuer) (i : Issuer) (hi : i ∈ is) (useTest : Bool) :
    presentPrefix i useTest ∈ searchPrefixes is := by
  unfold searchPrefixes
  rw [List.mem_flatMap]
  refine ⟨i, hi, ?_⟩
  unfold presentPrefix
  cases useTest <;> cases i.test <;> simp

/-- **… whatever the configured issuer's Go type.** A node whose configuration holds the
issuer behind the `Issuer` interface only (an application's wrapper reporting the inner
`IssuerKey()`) still searches the prefix of every order placed with the production CA. -/
theorem C15_any_node_wrapped (is : List Issuer) (i : Issuer) (hi : i ∈ is) :
    presentPrefix i false ∈ searchPrefixes (is.map ifaceView) := by
  unfold searchPrefixes
  rw [List.mem_flatMap]
  refine ⟨ifaceView i, List.mem_map.mpr ⟨i, hi, rfl⟩, ?_⟩
  simp [presentPrefix, ifaceView]

example : presentPrefix ⟨"acme/a".toList, some "acme/t".toList⟩ false ∈
    searchPrefixes ([⟨"acme/b".toList, none⟩, ⟨"acme/a".toList, some "acme/t".toList⟩].map ifaceView) :=
  C15_any_node_wrapped _ _ (by simp)

/-- **Exactly while pending.** In every reachable state a challenge is pending iff it is
in its node's memory and its token file is in storage under its prefix … -/
theorem C15_exactly_while_pending (E : Env) (S : State) (hR : Reachable E S) (n : Nat) (p : Str)
    (c : Chal) :
    (n, p, c) ∈ S.active ↔
      (S.mem n (challengeKey c) = some ⟨c, setsData c⟩ ∧ S.store p (E.safe (challengeKey c)) = some c) := by
  have hI := inv_reachable hR
  constructor
  · intro h; exact hI.act_ok _ h
  · rintro ⟨h1, h2⟩
    obtain ⟨_, _, q, h3⟩ := hI.mem_ok _ _ _ h1
    obtain ⟨_, m, h4⟩ := hI.store_ok _ _ _ h2
    have : (n, q, c) = (m, p, c) := same_of_skey hI.distinct h3 h4 rfl
    injection this with a b; injection b with b _
    subst b; exact h3

/-- … it becomes so by `Present` … -/
theorem C15_pending_after_present (E : Env) (S S' : State) (n : Nat) (p : Str) (c : Chal)
    (hs : step E S (.present n p c) = some S') : (n, p, c) ∈ S'.active := by
  simp only [step] at hs
  split at hs
  · injection hs with hs; subst hs; simp [apply]
  · cases hs

/-- … and after `CleanUp` neither the memory entry nor the token file exists, and the
challenge is no longer pending: no request or hello is answered with it any more
(`C15_http_only_match`, `C15_alpn_only_match`). -/
theorem C15_gone_after_cleanUp (E : Env) (S S' : State) (hR : Reachable E S) (n : Nat) (p : Str)
    (c : Chal) (hs : step E S (.cleanUp n p c) = some S') :
    S'.mem n (challengeKey c) = none ∧ S'.store p (E.safe (challengeKey c)) = none ∧
    (n, p, c) ∉ S'.active := by
  have hI := inv_reachable hR
  simp only [step] at hs
  split at hs
  · injection hs with hs; subst hs
    refine ⟨by rw [mem_cleanUp]; simp, by rw [store_cleanUp]; simp, ?_⟩
    have hnd := nodup_of_distinct hI.distinct
    simp only [apply]
    rw [hnd.mem_erase_iff]
    simp
  · cases hs

/-! ### non-vacuity: concrete states, requests and hellos -/

section examples

/-- a sanitiser that drops `!` and lower-cases ASCII (so `vic!tim.example` and
`victim.example` collide, as under `StorageKeys.Safe`) -/
def exEnv : Env where
  safe s := (s.filter (· != '!')).map Char.toLower
  fold c := c.toLower

def exChal : Chal :=
  { typ := .http01, isIP := false, ident := "victim.example".toList, rev := none, idnaOK := true
    token := "tok".toList, keyAuth := "tok.thumb".toList }

def exAlpn : Chal :=
  { typ := .tlsalpn01, isIP := true, ident := "10.0.0.1".toList
    rev := some "1.0.0.10.in-addr.arpa".toList, idnaOK := true
    token := "tok2".toList, keyAuth := "tok2.thumb".toList }

def exPfx : Str := "acme/ca".toList

/-- node 0 presented both challenges -/
def exTrace : List Ev := [.present 0 exPfx exChal, .present 0 exPfx exAlpn]

theorem exRun_some : (run exEnv State.empty exTrace).isSome = true := by decide

def exState : State := (run exEnv State.empty exTrace).get exRun_some

theorem exState_reachable : Reachable exEnv exState :=
  ⟨exTrace, (Option.some_get exRun_some).symm⟩

-- node 7 shares only the storage: the exact request is served …
example : httpAnswer exEnv exState 7 [exPfx] false (reqFor exChal) = .serve "tok.thumb".toList := by decide
-- … also with another case and (Go strips the port) …
example : httpAnswer exEnv exState 7 [exPfx] false { reqFor exChal with host := "VICTIM.example".toList }
    = .serve "tok.thumb".toList := by decide
-- … but not a host that merely sanitises to the same key, a longer path, or a POST
example : httpAnswer exEnv exState 7 [exPfx] false { reqFor exChal with host := "vic!tim.example".toList } = .pass := by decide
example : httpAnswer exEnv exState 7 [exPfx] false { reqFor exChal with path := (resourcePath exChal) ++ ['/'] } = .pass := by decide
example : httpAnswer exEnv exState 7 [exPfx] false { reqFor exChal with method := "POST".toList } = .pass := by decide
-- a node that does not search the prefix cannot answer
example : httpAnswer exEnv exState 7 ["acme/other".toList] false (reqFor exChal) = .pass := by decide
-- TLS-ALPN: the reverse name of the IP identifier selects the challenge certificate, on any node
example : alpnAnswer exEnv exState 7 [exPfx] (helloFor exAlpn) = .cert exAlpn false := by decide
example : alpnAnswer exEnv exState 0 [exPfx] (helloFor exAlpn) = .cert exAlpn true := by decide
-- D12's witness: an SNI that only sanitises to the identifier gets an error, not the certificate
example : alpnAnswer exEnv exState 7 [exPfx] { sni := "vic!tim.example".toList, protos := [acmeTLS1] } = .fail := by decide
example : alpnAnswer exEnv exState 7 [exPfx] { sni := "victim.example".toList, protos := [acmeTLS1, "h2".toList] } = .normal := by decide
-- hypotheses of the theorems are satisfiable
example : PendingFor exState 7 [exPfx] exChal := ⟨0, exPfx, by decide, Or.inr (by decide)⟩
example : ∃ S', step exEnv exState (.cleanUp 0 exPfx exChal) = some S' ∧
    httpAnswer exEnv S' 7 [exPfx] false (reqFor exChal) = .pass := ⟨_, rfl, by decide⟩
example : presentPrefix ⟨"acme/prod".toList, some "acme/staging".toList⟩ true ∈
    searchPrefixes [⟨"acme/prod".toList, some "acme/staging".toList⟩] := by decide

end examples

end CM.Challenge
