import CM.Proofs.FileLock
import CM.Proofs.FileLockSolo
import CM.Props.C11
/-!
# C08 — file locks exclude each other while holders live and recover after a crash

Property theorems only. Model: `CM/Model/FileLock.lean` (timed LTS of one lock file, any
number of actors, every file-system call a step; the code with the repairs D8, D18, D21 of
/verif/patches applied), `CM/Model/FileLockSim.lean` (schedulers built on its `step`).
Helper lemmas: `CM/Proofs/FileLock.lean`, `CM/Proofs/FileLockSolo.lean`.

The scheduler/file-system assumptions are explicit, named hypotheses on the transitions of
a run (`HTimely`, `HLive`, `HEmpty` in the model file) — C08 is *partial* in that respect
(DESIGN §10): they are exercised by the harness, not proved.
-/
namespace CM.FileLock

/-- no assumption on the run -/
abbrev Any : State → Ev → State → Prop := fun _ _ _ => True

/-- **A live, timely holder never looks stale.** In every reachable state — any schedule,
any number of actors, zombies' heartbeats included, whatever file was there initially —
if actor `p` holds inode `i`, that inode still has the lock file's name and carries a
stamp, and `p`'s last completed heartbeat is at most `H + J` ago with `H + J < factor·H`
(`J < H` for the code's factor 2), then `fileLockIsStale` is false of what a contender
reads now: no read of a live holder's file observes `now − updated > 2H`. -/
theorem C08_fresh_never_stale (c : Params) (J t0 : Nat) (f0 : Option Content) {A : State → Ev → State → Prop}
    {s : State} (h : Reach c A (initState t0 f0) s) (hJ : c.H + J < c.factor * c.H)
    (p i cp cr u : Nat) (hp : s.pc p = .holding i cp) (hf : s.file = some (i, .stamp cr u))
    (ht : s.now ≤ s.beat p + c.H + J) : stale c s.now cr u = false :=
  not_stale_of_fresh c J s.now (s.beat p) cr u hJ ((inv_reach h).fresh p i cp cr u hp hf) ht

/-- the code's factor 2 tolerates every lateness below a full period -/
theorem C08_jitter_tolerance (J : Nat) (hJ : J < codeParams.H) :
    codeParams.H + J < codeParams.factor * codeParams.H := by
  simp only [codeParams] at hJ ⊢; omega

/-- **Mutual exclusion while holders live.** Start with the lock file absent. In every run
that satisfies H_live (nobody dies between its create and its Unlock), H_timely (every
holder's last heartbeat is at most `H + J` ago, `H + J < factor·H`) and H_empty (no
contender reads a live owner's file as empty/undecodable `N` times in a row), for any
number of actors and any interleaving of their file-system calls: at most one actor is
between its successful create and its Unlock — in particular at most one is `holding`. -/
theorem C08_mutex (c : Params) (J t0 : Nat) (hJ : c.H + J < c.factor * c.H) {s : State}
    (h : Reach c (Assumed c J) (initState t0 none) s) (p q : Nat) (hp : owner s p) (hq : owner s q) : p = q := by
  obtain ⟨I, M⟩ := minv_reach hJ h
  obtain ⟨i, hi⟩ := hp
  obtain ⟨j, hj⟩ := hq
  obtain ⟨c1, h1⟩ := M.owner_file p i hi
  obtain ⟨c2, h2⟩ := M.owner_file q j hj
  rw [h1] at h2
  simp only [Option.some.injEq, Prod.mk.injEq] at h2
  obtain ⟨rfl, _⟩ := h2
  exact I.own_inj p q i hi hj

theorem C08_mutex_holding (c : Params) (J t0 : Nat) (hJ : c.H + J < c.factor * c.H) {s : State}
    (h : Reach c (Assumed c J) (initState t0 none) s) (p q i j cp cq : Nat)
    (hp : s.pc p = .holding i cp) (hq : s.pc q = .holding j cq) : p = q :=
  C08_mutex c J t0 hJ h p q ⟨i, own_of_holding hp⟩ ⟨j, own_of_holding hq⟩

/-- **A waiter acquires only after the holder has released.** Under the same assumptions,
at the step at which an actor's create succeeds nobody else is between create and Unlock:
every earlier holder's `unlock` step has already happened. Moreover while somebody owns
the lock, the file is never removed by anybody else (no actor is ever `removing`). -/
theorem C08_acquire_after_release (c : Params) (J t0 : Nat) (hJ : c.H + J < c.factor * c.H) {s s' : State}
    (h : Reach c (Assumed c J) (initState t0 none) s) (p i : Nat)
    (hs : step c s (.tryCreate p) = some s') (hc : s'.pc p = .created i) :
    (∀ q, ¬ owner s q) ∧ (∀ q e, s.pc q ≠ .removing e) := by
  obtain ⟨I, M⟩ := minv_reach hJ h
  refine ⟨?_, M.no_remover⟩
  rintro q ⟨j, hj⟩
  obtain ⟨cont, hfile⟩ := M.owner_file q j hj
  simp only [step] at hs
  split at hs
  · split at hs
    · rename_i hnone; rw [hnone] at hfile; cases hfile
    · simp only [Option.some.injEq] at hs; subst hs
      simp at hc
  · cases hs

/-- **Cancellation.** From every waiting state of `Lock` (the two `select`s) a cancelled
context leads to `return ctx.Err()` in one step of that actor … -/
theorem C08_cancel (c : Params) (s : State) (p : Nat)
    (h : (∃ e due, s.pc p = .sleepE e due) ∨ (∃ e due, s.pc p = .poll e due)) :
    ∃ s', step c s (.cancel p) = some s' ∧ s'.pc p = .cancelled := by
  rcases h with ⟨e, due, h⟩ | ⟨e, due, h⟩
  · exact ⟨{ s with pc := upd s.pc p .cancelled }, by simp [step, h], by simp⟩
  · exact ⟨{ s with pc := upd s.pc p .cancelled }, by simp [step, h], by simp⟩

/-- … and those are the only states in which a `Lock` call can wait: in every other state
of the loop the actor has a step that is enabled at once, whatever the others do -/
theorem C08_waits_only_in_select (c : Params) (s : State) (p : Nat)
    (h : (∃ e, s.pc p = .try_ e) ∨ (∃ i, s.pc p = .created i) ∨ (∃ e, s.pc p = .exists_ e) ∨ (∃ e, s.pc p = .removing e)) :
    ∃ ev s', step c s ev = some s' ∧ (ev = .tryCreate p ∨ ev = .writeMeta p ∨ ev = .observe p ∨ ev = .remove p) := by
  rcases h with ⟨e, h⟩ | ⟨i, h⟩ | ⟨e, h⟩ | ⟨e, h⟩
  · cases hf : s.file with
    | none => exact ⟨.tryCreate p, _, by simp [step, h, hf]; rfl, Or.inl rfl⟩
    | some f => exact ⟨.tryCreate p, _, by simp [step, h, hf]; rfl, Or.inl rfl⟩
  · exact ⟨.writeMeta p, _, by simp [step, h]; rfl, Or.inr (Or.inl rfl)⟩
  · refine ⟨.observe p, ?_⟩
    cases hf : s.file with
    | none => exact ⟨_, by simp [step, h, hf]; rfl, Or.inr (Or.inr (Or.inl rfl))⟩
    | some f =>
      obtain ⟨i, cont⟩ := f
      cases cont with
      | empty => exact ⟨_, by simp [step, h, hf]; rfl, Or.inr (Or.inr (Or.inl rfl))⟩
      | garbage => exact ⟨_, by simp [step, h, hf]; rfl, Or.inr (Or.inr (Or.inl rfl))⟩
      | stamp cr u =>
        cases hs : stale c s.now cr u
        · exact ⟨_, by simp [step, h, hf, hs]; rfl, Or.inr (Or.inr (Or.inl rfl))⟩
        · exact ⟨_, by simp [step, h, hf, hs]; rfl, Or.inr (Or.inr (Or.inl rfl))⟩
  · exact ⟨.remove p, _, by simp [step, h]; rfl, Or.inr (Or.inr (Or.inr rfl))⟩

/-- **Recovery within a bound.** A lock file nobody alive owns (its holder was killed; with
D21 repaired no other process's heartbeat adopts it), found at instant `t` by a contender
that keeps polling alone with exact timers: the contender holds the lock at an instant
`t' ≤ recoverBound`, i.e. by `max t (ref + factor·H + P)` if the file carries a stamp
(`ref` = updated, or created), by `t + (N − 1)·E` if it is empty or undecodable (D8
repaired). For the code's constants: `max(t, ref + 11 s)` and `t + 1.75 s`. -/
theorem C08_recovers (c : Params) (hP : 0 < c.P) (hE : 0 < c.E) (hN : 0 < c.N)
    (s : State) (p i t : Nat) (cont : Content)
    (hp : s.pc p = .try_ 0) (hf : s.file = some (i, cont)) (hn : s.now = t) :
    ∃ n j t', (soloRun c n s p).pc p = .holding j t' ∧ (soloRun c n s p).now = t' ∧
      t' ≤ recoverBound c cont t := by
  have F : Frame s p (.try_ 0) (some (i, cont)) t := ⟨hp, hf, hn⟩
  cases cont with
  | stamp cr u =>
    have hm : refOf cr u + c.factor * c.H < t + (refOf cr u + c.factor * c.H + 1) * c.P := by
      have : refOf cr u + c.factor * c.H + 1 ≤ (refOf cr u + c.factor * c.H + 1) * c.P :=
        Nat.le_mul_of_pos_right _ hP
      omega
    exact solo_recovers_stamp c hP i cr u p _ s 0 t F hm
  | empty =>
    obtain ⟨n, j, h1, h2⟩ := solo_recovers_empty c hE i p .empty (Or.inl rfl) (c.N - 1) s 0 t F (by omega)
    exact ⟨n, j, _, h1, h2, Nat.le_refl _⟩
  | garbage =>
    obtain ⟨n, j, h1, h2⟩ := solo_recovers_empty c hE i p .garbage (Or.inr rfl) (c.N - 1) s 0 t F (by omega)
    exact ⟨n, j, _, h1, h2, Nat.le_refl _⟩

/-- the bound for the code's constants: 2·5 s + 1 s = 11 s after the last stamp (or at once
if that is past); 7 · 250 ms = 1.75 s for an empty or undecodable file -/
theorem C08_recover_bound_code :
    codeParams.factor * codeParams.H + codeParams.P = 11000000000 ∧
    (codeParams.N - 1) * codeParams.E = 1750000000 := by decide

/-! ### distinct names never block each other -/

/-- a world of lock files, one LTS per file (index = the file, i.e. the sanitised name) -/
abbrev World := Nat → State

def wstep (c : Params) (w : World) (f : Nat) (e : Ev) : Option World :=
  (step c (w f) e).map (fun s' => upd w f s')

/-- **Independence.** A step on lock file `f` leaves every other file's system untouched,
so it neither enables nor disables any step on `g ≠ f`, and steps on different files
commute. -/
theorem C08_independent (c : Params) (w : World) (f g : Nat) (hfg : f ≠ g) (e1 e2 : Ev) :
    (∀ w1, wstep c w f e1 = some w1 → w1 g = w g ∧ step c (w1 g) e2 = step c (w g) e2) ∧
    ((wstep c w f e1).bind (fun w1 => wstep c w1 g e2) = (wstep c w g e2).bind (fun w2 => wstep c w2 f e1)) := by
  have hgf : g ≠ f := fun e => hfg e.symm
  refine ⟨?_, ?_⟩
  · intro w1 h1
    unfold wstep at h1
    cases hs : step c (w f) e1 with
    | none => rw [hs] at h1; cases h1
    | some s1 =>
      rw [hs] at h1
      simp only [Option.map_some, Option.some.injEq] at h1
      subst h1
      rw [upd_other _ _ _ _ hgf]
      exact ⟨rfl, rfl⟩
  · unfold wstep
    cases h1 : step c (w f) e1 with
    | none =>
      cases h2 : step c (w g) e2 with
      | none => simp
      | some s2 => simp [upd_other _ _ _ _ hfg, h1]
    | some s1 =>
      cases h2 : step c (w g) e2 with
      | none => simp [upd_other _ _ _ _ hgf, h2]
      | some s2 =>
        simp only [Option.map_some, Option.bind_some, upd_other _ _ _ _ hgf, upd_other _ _ _ _ hfg, h1, h2,
          Option.some.injEq]
        funext x
        by_cases hxf : x = f
        · subst hxf; simp [upd, hfg]
        · by_cases hxg : x = g
          · subst hxg; simp [upd, hgf]
          · simp [upd, hxf, hxg]

/-- two lock names use the same lock file iff their sanitised forms are equal (C11), so
"distinct names" in the statement means distinct *sanitised* names (DESIGN §9) -/
theorem C08_same_file_iff_same_safe_name (E : CM.Safe.Env) (a b : CM.Safe.Str) :
    CM.Safe.lockFile E a = CM.Safe.lockFile E b ↔ CM.Safe.safe E a = CM.Safe.safe E b := by
  rw [(CM.Safe.C11_lock_in_lockdir E [] a).1, (CM.Safe.C11_lock_in_lockdir E [] b).1]
  constructor
  · intro h
    simp only [List.cons.injEq, and_true, true_and] at h
    exact List.append_cancel_right h
  · intro h; rw [h]

/-! ### non-vacuity and documented non-guarantees (examples, not claims) -/

/-- the hypotheses of `C08_mutex` are satisfiable by a non-trivial run: actor 0 acquires,
actor 1 finds the lock and polls, actor 0 beats (open, truncate, write), unlocks, actor 1
wakes up and acquires — every transition satisfies the three assumptions with `J = 0` -/
def exEvents : List Ev :=
  [.lock 0, .tryCreate 0, .writeMeta 0, .lock 1, .tryCreate 1, .observe 1, .tick 1000000000, .wake 1,
   .tryCreate 1, .observe 1, .tick 4000000000, .hbOpen 0, .hbTrunc 0, .hbWrite 0, .unlock 0,
   .tick 1000000000, .wake 1, .tryCreate 1, .writeMeta 1]

example : ((run codeParams (initState 100 none) exEvents).map (fun s => (s.pc 0, s.pc 1, s.now))) =
    some (.released, .holding 2 6000000100, 6000000100) := by decide

/-- … and formally: a state with a holder (actor 0) and a polling contender (actor 1) is
reachable by a run every transition of which satisfies H_live, H_timely (J = 0), H_empty -/
example : ∃ s, Reach codeParams (Assumed codeParams 0) (initState 100 none) s ∧ owner s 0 ∧
    s.pc 1 = .poll 0 1000000100 ∧ s.file = some (1, .stamp 100 100) :=
  ⟨ex6, ex_reach, ⟨1, rfl⟩, rfl, rfl⟩

/-- `C08_fresh_never_stale` is not vacuous: after 9.9 s without a beat (lateness 4.9 s < H)
the holder's stamp is still fresh for a contender; the model's `stale` is the code's test -/
example : stale codeParams (100 + 9900000000) 100 100 = false := by decide
example : stale codeParams (100 + 10000000001) 100 100 = true := by decide

/-- `C08_recovers` on concrete dead files -/
example : ((soloRun codeParams 40 { initState 20000000000 (some (.stamp 12000000000 14000000000)) with
      pc := fun p => if p = 3 then .try_ 0 else .idle } 3).pc 3) = .holding 1 25000000000 := by decide
example : ((soloRun codeParams 40 { initState 20000000000 (some .garbage) with
      pc := fun p => if p = 3 then .try_ 0 else .idle } 3).pc 3) = .holding 1 21750000000 := by decide

/-- **Documented non-guarantee** (package comment of `FileStorage`): two contenders racing
for a STALE file can both end up holding — the second one's `os.Remove` deletes the lock
the first one has just created. This is why `C08_mutex` starts from an absent file and
assumes H_live. -/
example : ((run codeParams (initState 50000000000 (some (.stamp 1 1)))
    [.lock 0, .lock 1, .tryCreate 0, .tryCreate 1, .observe 0, .observe 1,
     .remove 0, .tryCreate 0, .writeMeta 0, .remove 1, .tryCreate 1, .writeMeta 1]).map
    (fun s => (s.pc 0, s.pc 1))) = some (.holding 1 50000000000, .holding 2 50000000000) := by decide

/-- **Why H_empty is an assumption** (with D18 repaired: eight reads *in a row*): a
contender that reads the file eight consecutive times inside truncate/rewrite windows of a
live holder's heartbeat declares it stale and takes the lock from the live holder. -/
example : ((run { codeParams with N := 2 } (initState 100 none)
    [.lock 0, .tryCreate 0, .writeMeta 0, .tick 5000000000, .hbOpen 0, .hbTrunc 0,
     .lock 1, .tryCreate 1, .observe 1, .tick 250000000, .wake 1, .tryCreate 1, .observe 1,
     .remove 1, .tryCreate 1, .writeMeta 1]).map
    (fun s => (s.pc 0, s.pc 1))) = some (.holding 1 100, .holding 2 5250000100) := by decide

end CM.FileLock
