import CM.Model.OCSP
/-!
# C14 — only a Good, in-date OCSP response for that certificate is ever stapled

Theorems for every input of `staple` (the model of `stapleOCSP` after the D4 repair):
whatever is persisted, however the responder behaves, for every `now` and validity.
-/
namespace CM.OCSP

theorem finish_stapled {i : StapleIn} {s src : Source} {r' r : Resp} {d : Bool}
    (h : (finish i s r' d).stapled = some (src, r)) :
    s = src ∧ r' = r ∧ r.status = .good ∧ pastExpiry i r = false := by
  unfold finish at h
  by_cases hpe : pastExpiry i r' = true
  · simp [hpe] at h
  · by_cases hg : r'.status = .good
    · simp only [hpe, hg, if_true, Bool.false_eq_true, if_false, Option.some.injEq, Prod.mk.injEq] at h
      obtain ⟨rfl, rfl⟩ := h
      exact ⟨rfl, rfl, hg, by simpa using hpe⟩
    · simp [hpe, hg] at h

theorem pastExpiry_false {i : StapleIn} {r : Resp} (h : pastExpiry i r = false) (nu : Int)
    (hnu : r.nextUpdate = some nu) : nu ≤ expiresAt i.notAfter := by
  unfold pastExpiry at h
  simp only [hnu, decide_eq_false_iff_not] at h
  omega

theorem usable_some {i : StapleIn} {r : Resp} (h : (usable i).1 = some r) :
    i.persisted = .parsed r ∧ storedVerifies i r = true ∧ fresh i.now r = true ∧ current i.now r = true := by
  unfold usable at h
  cases hp : i.persisted with
  | absent => simp [hp] at h
  | corrupt => simp [hp] at h
  | parsed rp =>
    simp only [hp] at h
    by_cases hv : storedVerifies i rp = true
    · by_cases hfc : (fresh i.now rp && current i.now rp) = true
      · simp only [hv, hfc, if_true, Option.some.injEq] at h
        subst h
        simp only [Bool.and_eq_true] at hfc
        exact ⟨rfl, hv, hfc.1, hfc.2⟩
      · simp [hv, hfc] at h
    · simp [hv] at h

theorem query_ok {i : StapleIn} {r : Resp} (h : query i = .ok r) :
    i.responder = .answer r ∧ answerVerifies r = true ∧ current i.now r = true := by
  unfold query at h
  cases hr : i.responder with
  | answer ra =>
    simp only [hr] at h
    by_cases hc : (answerVerifies ra && current i.now ra) = true
    · simp only [hc, if_true, Query.ok.injEq] at h
      subst h
      simp only [Bool.and_eq_true] at hc
      exact ⟨rfl, hc.1, hc.2⟩
    · simp [hc] at h
  | _ => simp [hr] at h

/-- everything that holds of a response this call staples, in one lemma -/
theorem staple_stapled (i : StapleIn) (src : Source) (r : Resp)
    (h : (staple i).stapled = some (src, r)) :
    r.status = .good ∧
    (∀ nu, r.nextUpdate = some nu → nu ≤ expiresAt i.notAfter) ∧
    current i.now r = true ∧
    ((src = .storage ∧ i.persisted = .parsed r ∧ storedVerifies i r = true ∧ fresh i.now r = true) ∨
     (src = .responder ∧ i.responder = .answer r ∧ answerVerifies r = true)) := by
  unfold staple at h
  by_cases hd : i.disabled = true
  · simp [hd, nothing] at h
  · simp only [hd, Bool.false_eq_true, if_false] at h
    cases hu : (usable i).1 with
    | some ru =>
      simp only [hu] at h
      obtain ⟨rfl, rfl, hg, hpe⟩ := finish_stapled h
      obtain ⟨hp, hv, hf, hc⟩ := usable_some hu
      exact ⟨hg, pastExpiry_false hpe, hc, Or.inl ⟨rfl, hp, hv, hf⟩⟩
    | none =>
      simp only [hu] at h
      cases hq : query i with
      | fail c => simp [hq, nothing] at h
      | ok rq =>
        simp only [hq] at h
        obtain ⟨rfl, rfl, hg, hpe⟩ := finish_stapled h
        obtain ⟨hr, hv, hc⟩ := query_ok hq
        exact ⟨hg, pastExpiry_false hpe, hc, Or.inr ⟨rfl, hr, hv⟩⟩

/-- **Good only**: Revoked and Unknown responses are never stapled -/
theorem C14_good_only (i : StapleIn) (src : Source) (r : Resp)
    (h : (staple i).stapled = some (src, r)) : r.status = .good :=
  (staple_stapled i src r h).1

/-- **not past expiry**: the validity of a stapled response does not extend past the
certificate's expiry -/
theorem C14_not_past_expiry (i : StapleIn) (src : Source) (r : Resp)
    (h : (staple i).stapled = some (src, r)) (nu : Int) (hnu : r.nextUpdate = some nu) :
    nu ≤ expiresAt i.notAfter :=
  (staple_stapled i src r h).2.1 nu hnu

/-- **for this certificate**: a stapled response carries the certificate's serial, and its
signature verifies for the issuer — always for a fresh answer, and for a stored staple
whenever the chain carries the issuer -/
theorem C14_for_this_cert (i : StapleIn) (src : Source) (r : Resp)
    (h : (staple i).stapled = some (src, r)) :
    r.serialMatches = true ∧ (r.signedByIssuer = true ∨ (src = .storage ∧ i.issuerInChain = false)) := by
  rcases (staple_stapled i src r h).2.2.2 with ⟨hs, _, hv, _⟩ | ⟨_, _, hv⟩
  · unfold storedVerifies at hv
    simp only [Bool.and_eq_true, Bool.or_eq_true, Bool.not_eq_true'] at hv
    refine ⟨hv.1, ?_⟩
    rcases hv.2 with h1 | h1
    · exact Or.inr ⟨hs, h1⟩
    · exact Or.inl h1
  · unfold answerVerifies at hv
    simp only [Bool.and_eq_true] at hv
    exact ⟨hv.1, Or.inl hv.2⟩

/-- **current**: a response is stapled only inside its own validity period -/
theorem C14_current (i : StapleIn) (src : Source) (r : Resp)
    (h : (staple i).stapled = some (src, r)) :
    r.thisUpdate ≤ i.now ∧ ∀ nu, r.nextUpdate = some nu → i.now ≤ nu := by
  have hc := (staple_stapled i src r h).2.2.1
  unfold current at hc
  simp only [Bool.and_eq_true, decide_eq_true_eq] at hc
  refine ⟨hc.1, ?_⟩
  intro nu hnu
  have := hc.2
  simp only [hnu, decide_eq_true_eq] at this
  exact this

/-- a stapled response is one of the two inputs: the stored staple or the responder's answer -/
theorem C14_provenance (i : StapleIn) (src : Source) (r : Resp)
    (h : (staple i).stapled = some (src, r)) :
    (src = .storage ∧ i.persisted = .parsed r) ∨ (src = .responder ∧ i.responder = .answer r) := by
  rcases (staple_stapled i src r h).2.2.2 with ⟨hs, hp, _⟩ | ⟨hs, hr, _⟩
  · exact Or.inl ⟨hs, hp⟩
  · exact Or.inr ⟨hs, hr⟩

/-- only a verified Good response is ever written to storage, and it is the one stapled -/
theorem C14_persist_verified (i : StapleIn) (h : (staple i).stored = true) :
    ∃ r, (staple i).stapled = some (.responder, r) := by
  have fin : ∀ (s : Source) (r' : Resp) (d : Bool), (finish i s r' d).stored = true →
      (finish i s r' d).stapled = some (.responder, r') := by
    intro s r' d hf
    unfold finish at hf ⊢
    by_cases hpe : pastExpiry i r' = true
    · simp [hpe] at hf
    · by_cases hg : r'.status = .good
      · simp only [hpe, hg, if_true, Bool.false_eq_true, if_false, decide_eq_true_eq] at hf ⊢
        rw [hf]
      · simp [hpe, hg] at hf
  unfold staple at h ⊢
  by_cases hd : i.disabled = true
  · simp [hd, nothing] at h
  · simp only [hd, Bool.false_eq_true, if_false] at h ⊢
    cases hu : (usable i).1 with
    | some ru => simp only [hu] at h ⊢; exact ⟨ru, fin _ _ _ h⟩
    | none =>
      simp only [hu] at h ⊢
      cases hq : query i with
      | fail c => simp [hq, nothing] at h
      | ok rq => simp only [hq] at h ⊢; exact ⟨rq, fin _ _ _ h⟩

/-- the responder fails: no server, disabled by override, no issuer, transport error, garbage,
or an answer that does not verify for this certificate or is outside its validity period -/
def ResponderFails (i : StapleIn) : Prop :=
  i.responder = .noServer ∨ i.responder = .overrideEmpty ∨ i.responder = .noIssuer ∨
  i.responder = .transportErr ∨ i.responder = .garbage ∨
  ∃ r, i.responder = .answer r ∧ (answerVerifies r = false ∨ current i.now r = false)

theorem query_fails {i : StapleIn} (h : ResponderFails i) : ∃ c, query i = .fail c := by
  unfold query
  rcases h with h | h | h | h | h | ⟨r, h, hv⟩
  · exact ⟨false, by simp [h]⟩
  · exact ⟨false, by simp [h]⟩
  · exact ⟨false, by simp [h]⟩
  · exact ⟨true, by simp [h]⟩
  · exact ⟨true, by simp [h]⟩
  · refine ⟨true, ?_⟩
    rcases hv with hv | hv <;> simp [h, hv]

/-- **failure is not fatal**: whatever the responder does wrong, the certificate is still
produced and cached; it carries no staple, or the stored one (which then satisfies all of
the above) -/
theorem C14_failure_not_fatal (i : StapleIn) (h : ResponderFails i) :
    (cacheWithOCSP i).cached = true ∧
    ((cacheWithOCSP i).staple = none ∨ ∃ r, (cacheWithOCSP i).staple = some (.storage, r)) := by
  refine ⟨rfl, ?_⟩
  unfold cacheWithOCSP
  simp only []
  cases hs : (staple i).stapled with
  | none => exact Or.inl rfl
  | some p =>
    obtain ⟨src, r⟩ := p
    have hv := staple_stapled i src r hs
    rcases hv.2.2.2 with ⟨rfl, _⟩ | ⟨_, hr, hav⟩
    · exact Or.inr ⟨r, rfl⟩
    · exfalso
      obtain ⟨c, hq⟩ := query_fails h
      have : query i = .ok r := by
        unfold query
        simp [hr, hav, hv.2.2.1]
      rw [this] at hq
      cases hq

/-- … and in maintenance a failed refresh leaves the cached entry exactly as it was -/
theorem C14_failure_keeps_entry (e : Entry) (i : StapleIn) (sc : Bool) (renew : Renew)
    (hs : scan i.now e = .refresh) (herr : (staple i).err = true) :
    (maintain e i sc renew).after = .kept e.ocsp e.staple ∧ (maintain e i sc renew).forced = false := by
  unfold maintain
  rw [hs]
  simp only [herr, if_true, and_self]

/-- **reuse**: a stored staple that verifies for the certificate, is fresh and current is
used without contacting the responder (this is the whole of a cold start: the model has no
other state), and it is stapled if it is Good and does not outlive the certificate -/
theorem C14_reuse_fresh (i : StapleIn) (r : Resp) (hd : i.disabled = false)
    (hp : i.persisted = .parsed r) (hv : storedVerifies i r = true)
    (hf : fresh i.now r = true) (hc : current i.now r = true) :
    (staple i).contacted = false ∧ (staple i).deleted = false ∧ (staple i).stored = false ∧
    (r.status = .good → (∀ nu, r.nextUpdate = some nu → nu ≤ expiresAt i.notAfter) →
      (staple i).stapled = some (.storage, r)) := by
  have hu : usable i = (some r, false) := by
    unfold usable
    simp [hp, hv, hf, hc]
  unfold staple
  simp only [hd, Bool.false_eq_true, if_false, hu]
  unfold finish
  by_cases hpe : pastExpiry i r = true
  · simp only [hpe, if_true]
    refine ⟨by simp, by simp, by simp, ?_⟩
    intro _ hall
    unfold pastExpiry at hpe
    cases hnu : r.nextUpdate with
    | none => simp [hnu] at hpe
    | some nu =>
      simp only [hnu, decide_eq_true_eq] at hpe
      have := hall nu hnu
      omega
  · by_cases hg : r.status = .good
    · simp [hpe, hg]
    · simp [hpe, hg]

/-- the latest response for the entry is Revoked: it already was, or this pass's refresh
succeeded and attached a Revoked response -/
def LatestRevoked (e : Entry) (i : StapleIn) : Prop :=
  (∃ r, e.ocsp = some r ∧ r.status = .revoked) ∨
  (scan i.now e = .refresh ∧ (staple i).err = false ∧ ∃ r, (staple i).ocspSet = some r ∧ r.status = .revoked)

/-- **revoked ⇒ replaced or removed**: for a managed, unexpired certificate whose latest
response is Revoked the pass calls `forceRenew`; afterwards the cache holds a newly
obtained certificate in its place (the renewal succeeded) or no entry at all (it failed,
at once or after the retry budget was spent). The one other outcome the code has — the
renewal succeeded and re-loading it from storage failed — is excluded by `hr`. -/
theorem C14_revoked_replaced_or_removed (e : Entry) (i : StapleIn) (sc : Bool) (renew : Renew)
    (hm : e.managed = true) (hn : e.hasNames = true) (hl : e.leafNil = false) (hx : e.expired = false)
    (hrev : LatestRevoked e i) (hr : renew ≠ .reloadFail) :
    (maintain e i sc renew).forced = true ∧
    ((maintain e i sc renew).after = .replaced ∨ (maintain e i sc renew).after = .removed) ∧
    ((maintain e i sc renew).after = .replaced ↔ renew = .ok) := by
  have key : ∀ w, (afterForce renew w = .replaced ∨ afterForce renew w = .removed) ∧
      (afterForce renew w = .replaced ↔ renew = .ok) := by
    intro w
    unfold afterForce
    cases renew <;> simp at hr ⊢
  rcases hrev with ⟨r, he, hrr⟩ | ⟨hs, herr, r, hset, hrr⟩
  · have hsc : scan i.now e = .forceRenew := by
      unfold scan shouldForce
      simp [hl, hx, hm, hn, he, hrr]
    unfold maintain
    rw [hsc]
    exact ⟨rfl, key _⟩
  · have hf : shouldForce e.managed e.hasNames (localOcsp e (staple i)) = true := by
      unfold shouldForce localOcsp; simp [hm, hn, hrr, hset]
    unfold maintain
    rw [hs]
    simp only [herr, Bool.false_eq_true, if_false, hf, if_true]
    exact ⟨trivial, key _⟩

theorem written_kept (e : Entry) (o : StapleOut) (sc : Bool) : ∃ a b, written e o sc = .kept a b := by
  unfold written
  split
  · exact ⟨_, _, rfl⟩
  · exact ⟨_, _, rfl⟩

/-- an unmanaged certificate is never force-renewed or removed by the pass -/
theorem C14_unmanaged_never_forced (e : Entry) (i : StapleIn) (sc : Bool) (renew : Renew)
    (hm : e.managed = false) :
    (maintain e i sc renew).forced = false ∧ ∃ a b, (maintain e i sc renew).after = .kept a b := by
  have hf : ∀ o, shouldForce e.managed e.hasNames o = false := by
    intro o; unfold shouldForce; simp [hm]
  have hne : scan i.now e ≠ .forceRenew := by
    unfold scan
    simp only [hf, Bool.false_eq_true, if_false]
    split
    · simp
    · split
      · split <;> simp
      · simp
  unfold maintain
  cases hs : scan i.now e with
  | skip => exact ⟨rfl, _, _, rfl⟩
  | forceRenew => exact absurd hs hne
  | refresh =>
    simp only [hf, Bool.false_eq_true, if_false]
    by_cases herr : (staple i).err = true
    · simp only [herr, if_true]; exact ⟨trivial, _, _, rfl⟩
    · have herr' : (staple i).err = false := by simpa using herr
      simp only [herr', Bool.false_eq_true, if_false]; exact ⟨trivial, written_kept _ _ _⟩

/-- whatever the pass leaves as the staple of a kept entry is the old staple or a response
this pass stapled (hence Good, current, for this certificate: `staple_stapled`) -/
theorem C14_writeback_sound (e : Entry) (i : StapleIn) (sc : Bool) (renew : Renew) (a b : Option Resp)
    (h : (maintain e i sc renew).after = .kept a b) :
    b = e.staple ∨ ∃ src r, (staple i).stapled = some (src, r) ∧ b = some r := by
  have hw : ∀ a b, written e (staple i) sc = .kept a b →
      b = e.staple ∨ ∃ src r, (staple i).stapled = some (src, r) ∧ b = some r := by
    intro a b hw
    unfold written at hw
    split at hw
    · simp only [After.kept.injEq] at hw
      unfold localStaple at hw
      cases hst : (staple i).stapled with
      | none => rw [hst] at hw; exact Or.inl hw.2.symm
      | some p =>
        obtain ⟨src, r⟩ := p
        rw [hst] at hw
        exact Or.inr ⟨src, r, rfl, hw.2.symm⟩
    · simp only [After.kept.injEq] at hw
      exact Or.inl hw.2.symm
  have hforce : ∀ w, afterForce renew w = .kept a b → w = .kept a b := by
    intro w hw
    unfold afterForce at hw
    cases renew <;> simp at hw
    exact hw
  unfold maintain at h
  cases hs : scan i.now e with
  | skip => rw [hs] at h; simp only [After.kept.injEq] at h; exact Or.inl h.2.symm
  | forceRenew =>
    rw [hs] at h
    have := hforce _ h
    simp only [After.kept.injEq] at this
    exact Or.inl this.2.symm
  | refresh =>
    rw [hs] at h
    simp only [] at h
    split at h
    · simp only [After.kept.injEq] at h; exact Or.inl h.2.symm
    · split at h
      · exact hw _ _ (hforce _ h)
      · exact hw _ _ h

/-! ### non-vacuity -/

def hour : Int := 3600 * sec
def goodNow : Resp := { status := .good, serialMatches := true, signedByIssuer := true
                        thisUpdate := 100 * day - hour, nextUpdate := some (100 * day + 3 * hour), responderNotAfter := none }
def exIn : StapleIn := { disabled := false, persisted := .absent, responder := .answer goodNow, issuerInChain := true
                         notBefore := 50 * day, notAfter := 140 * day, now := 100 * day, storeFails := false }

/-- a Good, current answer for this certificate is stapled and persisted -/
example : (staple exIn).stapled = some (.responder, goodNow) ∧ (staple exIn).stored = true := by decide
/-- the same answer for another serial, or expired, or not yet valid, or outliving the
certificate, or Revoked: nothing is stapled (the first three were stapled before the repair) -/
example : (staple { exIn with responder := .answer { goodNow with serialMatches := false } }).stapled = none := by decide
example : (staple { exIn with responder := .answer { goodNow with nextUpdate := some (100 * day - 1) } }).stapled = none := by decide
example : (staple { exIn with responder := .answer { goodNow with thisUpdate := 100 * day + 1 } }).stapled = none := by decide
example : (staple { exIn with responder := .answer { goodNow with nextUpdate := some (141 * day) } }).stapled = none := by decide
example : (staple { exIn with responder := .answer { goodNow with status := .revoked } }).stapled = none ∧
    (staple { exIn with responder := .answer { goodNow with status := .revoked } }).ocspSet.isSome = true := by decide
/-- an absent NextUpdate is accepted (TestStapleOCSP/ok) -/
example : (staple { exIn with responder := .answer { goodNow with nextUpdate := none } }).stapled.isSome = true := by decide
/-- a fresh stored staple is reused without contacting the responder; a stale one is not -/
example : (staple { exIn with persisted := .parsed goodNow, responder := .transportErr }).stapled = some (.storage, goodNow) ∧
    (staple { exIn with persisted := .parsed goodNow, responder := .transportErr }).contacted = false := by decide
example : (staple { exIn with persisted := .parsed goodNow, responder := .transportErr, now := 100 * day + 2 * hour }).contacted = true := by
  decide
/-- `ResponderFails` is satisfiable, and the certificate is still cached -/
example : ResponderFails { exIn with responder := .garbage } := Or.inr (Or.inr (Or.inr (Or.inr (Or.inl rfl))))
/-- a managed entry whose refresh turns Revoked -/
def exEntry : Entry := { leafNil := false, expired := false, managed := true, hasNames := true
                         ocsp := some { goodNow with thisUpdate := 99 * day, nextUpdate := some (100 * day) }
                         staple := some { goodNow with thisUpdate := 99 * day, nextUpdate := some (100 * day) } }
example : LatestRevoked exEntry { exIn with responder := .answer { goodNow with status := .revoked } } := by
  right; refine ⟨by decide, by decide, _, rfl, rfl⟩
example : (maintain exEntry { exIn with responder := .answer { goodNow with status := .revoked } } true .fail).after = .removed := by
  decide
example : (maintain exEntry exIn true .ok).after = .kept (some goodNow) (some goodNow) := by decide

/-- retries exhausted (the input on which the unrepaired `doWithRetry` kept the revoked
certificate, D21): the entry is removed -/
example : (maintain exEntry { exIn with responder := .answer { goodNow with status := .revoked } } true .gaveUp).after = .removed := by
  decide

end CM.OCSP
