import CM.Generated.Guard
import CM.Lib.Guard
/-!
Tie (C12, *guarded state*, verified checker): the certificate cache's two maps (`cache`, `cacheIndex`) and `Cache.mu`.
The skeletons are regenerated from /repo on every run — for EVERY function of the package
that touches the state (the lists are generated, so a new function is covered without
touching this file) — and `decide` runs the verified checker `CM.Guard.fnOK` on them in the
kernel. By `CM.Guard.fnOK_sound`, no execution of an accepted function (any branch, any
number of loop iterations, a panic at any call, its deferred unlock and deferred critical
sections included) accesses the state outside a critical section of its mutex.
-/
namespace CM.Tie.GuardCache
open CM.Guard CM.Skel

/-- the translator normalises the family's lock / unlock / access actions to these names -/
def P : Names := { lock := (· == "lock"), unlock := (· == "unlock"), access := (· == "access") }

theorem C12_tie_guard_cache : ∀ f ∈ CM.Gen.Guard.cache_funcs, fnOK P f.2 = true := by decide

/-- lifted by soundness: every execution of every such function stays inside the discipline -/
theorem C12_tie_guard_cache_sound (f : String × Sk) (hf : f ∈ CM.Gen.Guard.cache_funcs)
    {o : Out} {m : M} {v : Bool} (he : Exec P f.2 .free o m v) : v = false :=
  (fnOK_sound (C12_tie_guard_cache f hf) he).1

/-- helpers that expect the mutex to be held by their caller: they touch the state only
while it is held and never release it -/
theorem C12_tie_guard_cache_helpers : ∀ f ∈ CM.Gen.Guard.cache_helpers, helperOK P f.2 = true := by decide

/-- the functions the model's atomic steps correspond to are among those checked -/
theorem C12_tie_guard_cache_covers :
    ["Cache.cacheCertificate", "Cache.replaceCertificate", "Cache.Remove", "Cache.getAllMatchingCerts", "Config.handshakeMaintenance", "Config.updateARI", "Cache.updateOCSPStaples", "Cache.removeCertificate", "Cache.unsyncedCacheCertificate"].all (fun n => (CM.Gen.Guard.cache_funcs ++ CM.Gen.Guard.cache_helpers).any (fun f => f.1 == n)) = true := by decide

/-! #### writes need the EXCLUSIVE lock

The same maps once more with a narrower vocabulary: "lock"/"unlock" are `mu.Lock`/`mu.Unlock`
only (the read lock is not part of it), "access" are map WRITES and deletes only. Accepted by
the same verified checker: no execution writes to `cache` or `cacheIndex` while holding
nothing, or merely the read lock. -/

theorem C12_tie_guard_cache_writes_exclusive : ∀ f ∈ CM.Gen.Guard.cachew_funcs, fnOK P f.2 = true := by decide

theorem C12_tie_guard_cache_writes_exclusive_sound (f : String × Sk) (hf : f ∈ CM.Gen.Guard.cachew_funcs)
    {o : Out} {m : M} {v : Bool} (he : Exec P f.2 .free o m v) : v = false :=
  (fnOK_sound (C12_tie_guard_cache_writes_exclusive f hf) he).1

theorem C12_tie_guard_cache_writes_exclusive_helpers :
    ∀ f ∈ CM.Gen.Guard.cachew_helpers, helperOK P f.2 = true := by decide

end CM.Tie.GuardCache
