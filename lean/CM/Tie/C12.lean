import CM.Generated.C12
import CM.Model.Cache
/-!
Tie of the C12 model to the current source (regenerated on every run).

The sequential model of `CM/Model/Cache.lean` treats every operation as one atomic step.
That is justified by the facts checked here on the regenerated skeletons of EVERY function
of the package that touches `Cache.cache` / `Cache.cacheIndex`:

* every read, write, delete, `len`, `range` of the two maps and every call of the two
  "unsynced" helpers happens while `Cache.mu` is held (on every path through the function,
  including closures, which start with the lock not held);
* the helpers themselves only access the maps and never release the lock;
* the functions that store a *copy* of a certificate back into the cache (the handshake's
  maintenance and the staple update) do so inside the comma-ok guard
  `if _, ok := cache[hash]; ok { … }` in the same critical section (fix D6);
* the capacity test is `Capacity > 0 && size >= Capacity`;
* the functions that modify the maps are exactly the ones the model's events were written from.
-/
namespace CM.Tie.C12
open CM.Gen.C12

def accesses : List String :=
  ["read:cache", "write:cache", "del:cache", "len:cache", "range:cache", "escape:cache",
   "read:cacheIndex", "write:cacheIndex", "del:cacheIndex", "len:cacheIndex", "range:cacheIndex",
   "escape:cacheIndex", "call:removeCertificate", "call:unsyncedCacheCertificate"]

def modifications : List String :=
  ["write:cache", "del:cache", "write:cacheIndex", "del:cacheIndex",
   "call:removeCertificate", "call:unsyncedCacheCertificate"]

def helpers : List String := ["Cache.removeCertificate", "Cache.unsyncedCacheCertificate"]

/-- abstract interpretation of a skeleton with the flag "Cache.mu is held":
`(every access happens while held, flags possible when control falls through)` -/
def chk : Sk → Bool → Bool × List Bool
  | .skip, h => (true, [h])
  | .ret, _ => (true, [])
  | .act a, h =>
    if a = "lock" ∨ a = "rlock" then (!h, [true])            -- never re-entered
    else if a = "unlock" ∨ a = "runlock" then (h, [false])    -- only released when held
    else if a ∈ accesses then (h, [h])
    else (true, [h])
  | .seq a b, h =>
    let ra := chk a h
    let rs := ra.2.eraseDups.map (chk b)
    (ra.1 && rs.all (·.1), (rs.flatMap (·.2)).eraseDups)
  | .br _ t e, h =>
    let rt := chk t h
    let re := chk e h
    (rt.1 && re.1, (rt.2 ++ re.2).eraseDups)
  | .loop b, h =>
    let rb := chk b h
    (rb.1 && rb.2.all (· == h), [h])
  | .dfr b, h =>
    match b with
    | .act _ => (true, [h])           -- `defer mu.(R)Unlock()`: held until the function returns
    | _ => ((chk b false).1, [h])
  | .fn b, h => ((chk b false).1, [h])   -- a closure / goroutine starts without the lock

/-- does the function modify the maps? -/
def modifies : Sk → Bool
  | .act a => decide (a ∈ modifications)
  | .seq a b => modifies a || modifies b
  | .br _ t e => modifies t || modifies e
  | .loop b => modifies b
  | .dfr b => modifies b
  | .fn b => modifies b
  | _ => false

/-- every `write:cache` lies in the then-branch of a comma-ok guard on the same map -/
def writesGuarded : Sk → Bool → Bool
  | .act a, g => if a = "write:cache" then g else true
  | .seq a b, g => writesGuarded a g && writesGuarded b g
  | .br guard t e, g => writesGuarded t (g || guard) && writesGuarded e g
  | .loop b, g => writesGuarded b g
  | .dfr b, g => writesGuarded b g
  | .fn b, g => writesGuarded b g
  | _, _ => true

/-- the function takes the cache's write or read lock itself (an entry point, not a helper
that expects its caller to hold it) -/
def takesLock : Sk → Bool
  | .act a => a == "lock" || a == "rlock"
  | .seq a b => takesLock a || takesLock b
  | .br _ t e => takesLock t || takesLock e
  | .loop b => takesLock b
  | .dfr b => takesLock b
  | .fn b => takesLock b
  | _ => false

def guardedFunction (p : String × Sk) : Bool :=
  if p.1 ∈ helpers then
    let r := chk p.2 true
    r.1 && r.2.all (· == true)
  else (chk p.2 false).1

/-- linearisability of the real cache to the sequential model: maps only under `mu`.
(This hand-written predicate is kept as an executable cross-check; the claim itself is
carried by the VERIFIED checker in `CM/Tie/GuardCache.lean` — `CM.Guard.fnOK_sound` — which
also tolerates the extraction of new unexported helpers.) -/
def mapsOnlyUnderMu : Bool := funcs.all guardedFunction

/-- something was found (the fact above is not vacuous) and the helpers are among it -/
theorem C12_tie_functions_found :
    helpers.all (fun h => funcs.any (fun p => p.1 = h)) = true ∧ funcs.length ≥ 10 := by decide

/-- every function that takes the lock and modifies the maps (an entry point of the cache) is
one the model's events were written from, and the main ones are present (unexported helpers
that expect the lock to be held — `removeCertificate`, `unsyncedCacheCertificate`, or a newly
extracted one — are covered by `CM/Tie/GuardCache`):
`add` (cacheCertificate → unsyncedCacheCertificate), `remove`/`removeManaged` (Remove),
`replace` (replaceCertificate), `removeCopy` (RenewManagedCertificates' delete queue,
queueRenewalTask, forceRenew, renewDynamicCertificate), `ariWB` (updateOCSPStaples,
updateARI), `hsWB` (handshakeMaintenance) -/
theorem C12_tie_writers_modelled :
    ((funcs.filter (fun p => modifies p.2 && takesLock p.2)).map (·.1)).all (fun n =>
      ["Cache.Remove", "Cache.RenewManagedCertificates", "Cache.cacheCertificate", "Cache.queueRenewalTask",
       "Cache.replaceCertificate", "Cache.updateOCSPStaples", "Config.forceRenew", "Config.handshakeMaintenance",
       "Config.renewDynamicCertificate", "Config.updateARI"].contains n) = true ∧
    ["Cache.cacheCertificate", "Cache.replaceCertificate", "Cache.Remove", "Config.handshakeMaintenance",
     "Config.updateARI", "Cache.updateOCSPStaples"].all (fun n => funcs.any (fun p => p.1 = n && modifies p.2)) = true := by
  decide

/-- the two places that store a copy made outside the lock do it under the comma-ok guard -/
theorem C12_tie_writebacks_guarded :
    (funcs.filter (fun p => p.1 = "Config.handshakeMaintenance" ∨ p.1 = "Cache.updateOCSPStaples")).map
      (fun p => writesGuarded p.2 false) = [true, true] := by decide

/-- the capacity test is the model's `atCapacity` -/
theorem C12_tie_at_capacity :
    atCapacityExpr = ["CAP", ">", "0", "&&", "SIZE", ">=", "CAP"] := by decide

/-- the checker does reject an unguarded access and an unguarded write-back -/
example : (chk (.seq (.act "lock") (.seq (.act "unlock") (.act "write:cache"))) false).1 = false := by decide
example : (chk (.seq (.act "lock") (.seq (.br false (.seq (.act "unlock") .ret) .skip)
    (.seq (.act "write:cache") (.act "unlock")))) false).1 = true := by decide
example : writesGuarded (.seq (.act "lock") (.seq (.act "write:cache") (.act "unlock"))) false = false := by decide

end CM.Tie.C12
