import CM.Generated.C09
import CM.Props.C09
/-!
Tie for C09: the skeletons below are regenerated from /repo on every run; the list of
functions is itself generated (every function of the package that calls `acquireLock`),
so a new caller is covered without touching this file. `decide` runs the verified checker
in the kernel.
-/
namespace CM.Tie.C09
open CM.Skel

/-- every caller of `acquireLock` passes the lock-discipline checker … -/
theorem C09_tie_all_callers_disciplined :
    ∀ c ∈ CM.Gen.C09.lockCallers, check c.2 0 = some 0 := by decide

/-- … hence (soundness) none of them can be left, on any path, with a lock pending -/
theorem C09_tie_no_caller_leaks (c : String × Sk) (hc : c ∈ CM.Gen.C09.lockCallers)
    (o : Out) (r : Nat) (he : Exec c.2 0 o r) : r = 0 :=
  C09_lock_discipline_sound c.2 (C09_tie_all_callers_disciplined c hc) o r he

/-- the operations the property names are among them -/
theorem C09_tie_expected_callers :
    ["Config.obtainCert", "Config.renewCert", "Config.updateARI", "CleanStorage",
     "ACMEIssuer.newACMEClientWithAccount"].all
      (fun n => CM.Gen.C09.lockCallers.any (fun c => c.1 == n)) = true := by decide

/-- `releaseLock` unlocks under a context that ignores cancellation -/
theorem C09_tie_release_ignores_cancel :
    CM.Gen.C09.releaseUnlockCtx = "context.WithoutCancel(ctx)" := by decide

/-- `acquireLock` locks in storage before it records the lock; `releaseLock` unlocks in
storage before it forgets the lock -/
theorem C09_tie_helpers_shape :
    before "storage.Lock" "locksMu.Lock" (acts CM.Gen.C09.sk_acquireLock) = true ∧
    before "storage.Unlock" "mapdelete:locks" (acts CM.Gen.C09.sk_releaseLock) = true := by
  decide

end CM.Tie.C09
