import CM.Generated.C05
import CM.Model.Maintain
/-!
Tie of the C05 model to `/repo`'s current source. `CM/Generated/C05.lean` is rewritten on
every run from maintain.go, config.go, certificates.go and async.go: each function the model
abstracts is reduced to the ordered list of the actions and blocks the model talks about.
The theorems state, as decidable predicates over those lists, the structural facts the
model relies on (not "the list is the one I saw"), plus the constants.
-/
namespace CM.Tie.C05
open CM.Gen.C05 CM.Maintain

abbrev Marks := List (Nat × String)

/-- the blocks open at each occurrence of action `t` (innermost first) -/
def stacksAux (t : String) : Marks → List String → List (List String)
  | [], _ => []
  | (0, x) :: xs, st => if x = t then st :: stacksAux t xs st else stacksAux t xs st
  | (1, x) :: xs, st => stacksAux t xs (x :: st)
  | (_, _) :: xs, st => stacksAux t xs st.tail

def stacks (l : Marks) (t : String) : List (List String) := stacksAux t l []

/-- position of the first occurrence of a marker (action or block opening) -/
def pos (l : Marks) (t : String) : Option Nat := (l.map (·.2)).idxOf? t

def before (l : Marks) (a b : String) : Bool :=
  match pos l a, pos l b with
  | some i, some j => i < j
  | _, _ => false

def has (l : Marks) (t : String) : Bool := (l.map (·.2)).contains t

/-- the names, in order, from just after the first `a` up to the first `b` -/
def between (l : Marks) (a b : String) : List String :=
  (((l.map (·.2)).dropWhile (· ≠ a)).drop 1).takeWhile (· ≠ b)

/-- the marker that follows the first occurrence of `t` -/
def next (l : Marks) (t : String) : Option String := (((l.map (·.2)).dropWhile (· ≠ t)).drop 1).head?

/-! ### RenewManagedCertificates -/

/-- between `RLock` and `RUnlock` lies the loop over the cache with every test and queue
insertion of `classify`, and nothing that changes the cache, takes the write lock, reloads
or submits (`scan` is a pure function of the state) -/
theorem C05_tie_scan_under_read_lock :
    (between renewManaged "RLock" "RUnlock").head? = some "range:certCache.cache" ∧
    ["ifUnmanaged", "ifNoNames", "ifOnDemand", "ifNeedsRenewal", "storageCheck", "append:reloadQueue",
      "toRenew", "append:deleteQueue"].all (fun t => (between renewManaged "RLock" "RUnlock").contains t) = true ∧
    ["reload", "queueTask", "remove", "submit", "Lock", "replace"].all
      (fun t => !(between renewManaged "RLock" "RUnlock").contains t) = true := by decide

/-- the tests come in the order of `classify`, the skipping ones end in `continue`; the storage
check happens only for a due certificate; a storage-check error falls through to the renew
queue; the reload queue is fed only when the stored version is fresh (and then the renew
queue is not) -/
theorem C05_tie_scan_order :
    before renewManaged "ifUnmanaged" "ifNoNames" ∧ before renewManaged "ifNoNames" "ifOnDemand" ∧
    before renewManaged "ifOnDemand" "ifNeedsRenewal" ∧ before renewManaged "ifNeedsRenewal" "storageCheck" ∧
    before renewManaged "storageCheck" "append:reloadQueue" ∧ before renewManaged "append:reloadQueue" "toRenew" ∧
    next renewManaged "ifUnmanaged" = some "continue" ∧ next renewManaged "ifOnDemand" = some "continue" ∧
    next renewManaged "ifNoNames" = some "append:deleteQueue" ∧
    stacks renewManaged "storageCheck" = [["ifNeedsRenewal", "range:certCache.cache"]] ∧
    stacks renewManaged "append:reloadQueue" = [["ifStoredFresh", "else", "ifNeedsRenewal", "range:certCache.cache"]] ∧
    next renewManaged "append:reloadQueue" = some "continue" ∧
    (stacks renewManaged "toRenew").head? = some ["ifNeedsRenewal", "range:certCache.cache"] := by decide

/-- after `RUnlock`: the reload queue is worked off first, then the renew queue, then the
delete queue (under the write lock); each action sits in the loop over its own queue -/
theorem C05_tie_actions_after_unlock :
    before renewManaged "RUnlock" "range:reloadQueue" ∧ before renewManaged "range:reloadQueue" "range:renewQueue" ∧
    before renewManaged "range:renewQueue" "range:deleteQueue" ∧
    stacks renewManaged "reload" = [["range:reloadQueue"]] ∧
    stacks renewManaged "queueTask" = [["range:renewQueue"]] ∧
    stacks renewManaged "remove" = [["range:deleteQueue"]] ∧
    before renewManaged "Lock" "range:deleteQueue" ∧ before renewManaged "remove" "Unlock" := by decide

/-- the renew queue is de-duplicated by hash (`insertCert`) -/
theorem C05_tie_insert_by_hash : insertCompares = "hash == hash" := by decide

/-! ### queueRenewalTask and reloadManagedCertificate -/

/-- the job is named `renew_` + the certificate's first name (`passJob`), and that is also
the name that is renewed and reloaded -/
theorem C05_tie_job_name :
    queueTaskJobNames = [("renew_", "Names[0]")] ∧ renewNameExpr = "Names[0]" ∧ reloadNameExpr = "Names[0]" := by
  decide

/-- the job: renew first; on error the old certificate is removed only under
`cfg.OnDemand != nil` and the job returns the error (`finishFail`); otherwise reload
(`finishOk`); the job is handed to the job manager -/
theorem C05_tie_job_body :
    (queueTask.map (·.2)).take 2 = ["func", "renewAsync"] ∧
    stacks queueTask "remove" = [["ifOnDemand", "ifErr", "func"]] ∧
    stacks queueTask "reload" = [["func"]] ∧ before queueTask "return:val" "reload" ∧
    stacks queueTask "submit" = [[]] := by decide

/-- reloading = load from storage, then `replaceCertificate(old, new)` (`reload`) -/
theorem C05_tie_reload_replaces :
    reloadManaged.map (·.2) = ["load", "ifErr", "return:val", "", "replace", "return:nil"] := by decide

/-! ### manageOne -/

/-- already managed ⇒ nothing; otherwise the certificate is loaded (and cached) first -/
theorem C05_tie_manage_loads_first :
    (manageOne.map (·.2)).take 7 = ["matching", "range:matching", "ifManaged", "return:nil", "", "", "loadAndCache"] := by
  decide

/-- obtaining happens only inside the load-error branch, after the "not not-exist ⇒ return the
error" test; the obtain closure obtains, then loads and caches; the async obtain job has no name -/
theorem C05_tie_manage_obtains_only_if_absent :
    (between manageOne "loadAndCache" "func:obtain") = ["ifErr", "ifNotNotExist", "return:val", ""] ∧
    stacks manageOne "obtainAsync" = [["ifAsync", "func:obtain", "ifErr"]] ∧
    stacks manageOne "obtainSync" = [["else", "func:obtain", "ifErr"]] ∧
    stacks manageOne "call:obtain" = [["ifErr"]] ∧
    manageOneJobNames.head? = some ("", "") := by decide

/-- renewing happens only under `cert.NeedsRenewal(cfg)`, forced renewal only under the
revoked test, both in the `renew` closure that is outside the load-error branch; a renewal is
followed by a reload; the async job is named `renew_` + the name -/
theorem C05_tie_manage_renews_only_if_due :
    stacks manageOne "renewAsync" = [["ifAsync", "ifNeedsRenewal", "func:renew"]] ∧
    stacks manageOne "renewSync" = [["else", "ifNeedsRenewal", "func:renew"]] ∧
    stacks manageOne "forceRenew" = [["ifRevoked", "func:renew"]] ∧
    stacks manageOne "reload" = [["ifNeedsRenewal", "func:renew"]] ∧
    before manageOne "ifRevoked" "ifNeedsRenewal" ∧
    manageOneJobNames.getLast? = some ("renew_", "param") := by decide

/-! ### the job manager and the retry loop (what `submit` and `settle` assume) -/

/-- a named job whose name is present is dropped; otherwise the name is recorded and the job
queued; the name is forgotten only when the job has run (in the deferred function of `runJob`,
which the worker calls for each job it takes from the queue) -/
theorem C05_tie_submit_dedup :
    stacks submit "return" = [["ifPresent", "ifNamed"]] ∧ stacks submit "mapwrite:jm.names" = [["ifNamed"]] ∧
    before submit "ifPresent" "mapwrite:jm.names" ∧ stacks submit "append:jm.queue" = [[]] ∧
    stacks worker "runJob" = [["for"]] ∧ stacks runJob "job" = [[]] ∧
    stacks runJob "mapdelete:jm.names" = [["ifNamed", "func", "defer"]] := by decide

/-- there is a free worker for every job of the histories (at most a handful of names) -/
theorem C05_tie_workers : 100 ≤ maxConcurrentJobs := by decide

/-- when the retry window is over the loop gives up and returns the last error (`settle`: then
`finishFail`); it never turns a failure into a nil -/
theorem C05_tie_retry_gives_up_with_error :
    next withRetry "else" = some "return:val" ∧ between withRetry "ifWithinMax" "else" = [""] ∧
    has withRetry "return:nil" = false := by
  decide

/-! ### constants -/

theorem C05_tie_interval : renewCheckIntervalNs = renewInterval * 1000000000 := by decide

theorem C05_tie_retry_table :
    retryIntervalsNs = retryTable.map (· * 1000000000) ∧ maxRetryNs = maxRetry * 1000000000 := by decide

end CM.Tie.C05
