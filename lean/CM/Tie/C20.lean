import CM.Generated.C20
import CM.Model.Account
/-!
Tie of the C20 model to account.go / acmeclient.go / acmeissuer.go / storage.go /
certificates.go: the facts below are re-extracted from the working tree on every run
(`CM/Generated/C20.lean`, written by go/extract/c20.go). Action lists are abstract tokens
(`loadOrRet`, `acqOrRet`, `deferRel`, `registerOrRet`, `saveOrRet`, `delete:reg…`, `ret`,
brackets `[new`/`[otherAccount` … `]` for the guarded blocks); the theorems state named
structural facts about them — the ones the transition system of CM/Model/Account relies on.
-/
namespace CM.Tie.C20
open CM.Account

def isOpen (t : String) : Bool := t == "[new" || t == "[otherAccount" || t == "[dne"

/-- the actions proper (returns and brackets dropped) -/
def acts (l : List String) : List String := l.filter (fun t => !(t == "ret" || t == "]" || isOpen t))

/-- every token with the stack of guards it sits under -/
def withCtx : List String → List String → List (String × List String)
  | [], _ => []
  | t :: r, st =>
    if isOpen t then withCtx r (t :: st)
    else if t == "]" then withCtx r st.tail
    else (t, st) :: withCtx r st

/-- every acquire returns on failure and is followed at once by the deferred release -/
def deferAfterAcquire : List String → Bool
  | [] => true
  | t :: r =>
    if t == "acq" then false
    else if t == "acqOrRet" then (r.head? == some "deferRel") && deferAfterAcquire r
    else deferAfterAcquire r

def ctxOf (l : List String) (t : String) : List (List String) :=
  ((withCtx l []).filter (fun x => x.1 == t)).map (·.2)

/-- the lock is `register_acme_account[_<contact>]` -/
theorem C20_tie_lock_name : CM.Gen.C20.lockNameLits = [lockNamePrefix, "_"] := by decide

/-- the two storage keys: `<user|registration>.json` and `<user|private>.key` -/
theorem C20_tie_key_suffixes :
    CM.Gen.C20.regKeyLits = [regFile.1, regFile.2] ∧ CM.Gen.C20.privKeyLits = [keyFile.1, keyFile.2] := by decide

/-- `newACMEClientWithAccount`: load → lock → (deferred release) → reload → register → save,
each step returning on failure, and nothing else that touches the account -/
theorem C20_tie_protocol_order :
    acts CM.Gen.C20.newClientActions =
      ["loadOrRet", "acqOrRet", "deferRel", "loadOrRet", "registerOrRet", "saveOrRet"] := by decide

/-- the release is deferred right after every successful acquire (both functions) -/
theorem C20_tie_defer_after_acquire :
    deferAfterAcquire CM.Gen.C20.newClientActions = true ∧ deferAfterAcquire CM.Gen.C20.deleteActions = true := by
  decide

/-- the lock is taken only for a new account, and registration and save happen only if the
account is STILL new after the reload under the lock (check – lock – recheck – act) -/
theorem C20_tie_recheck_guards_register :
    ctxOf CM.Gen.C20.newClientActions "acqOrRet" = [["[new"]] ∧
    ctxOf CM.Gen.C20.newClientActions "registerOrRet" = [["[new", "[new"]] ∧
    ctxOf CM.Gen.C20.newClientActions "saveOrRet" = [["[new", "[new"]] ∧
    ctxOf CM.Gen.C20.newClientActions "loadOrRet" = [[], ["[new"]] := by decide

/-- `loadAccount` reads the registration, then the key; `saveAccount` writes them in that
order in one `storeTx` -/
theorem C20_tie_load_save_order :
    acts CM.Gen.C20.loadActions = ["read:reg", "read:key"] ∧ CM.Gen.C20.saveKeys = ["reg", "key"] ∧
    CM.Gen.C20.saveUsesStoreTx = true := by decide

/-- `storeTx` reads the old values first, stores, and on failure stores back or deletes -/
theorem C20_tie_storeTx : CM.Gen.C20.storeTxCalls = ["load", "store", "store", "delete"] := by decide

/-- `deleteAccountLocally`: lock → load → leave another account alone → delete the
registration (return on failure) → delete the key -/
theorem C20_tie_recreate_delete :
    acts CM.Gen.C20.deleteActions = ["acqOrRet", "deferRel", "load", "delete:regOrRet", "delete:key"] ∧
    ctxOf CM.Gen.C20.deleteActions "ret" = [["[otherAccount"], [], []] ∧
    (CM.Gen.C20.deleteActions.takeWhile (· != "delete:regOrRet")).contains "[otherAccount" = true := by decide

/-- `doIssue` resets the account of the directory in use, only on account-does-not-exist,
then constructs a client again and gives its account to the retried order -/
theorem C20_tie_recreate_branch :
    CM.Gen.C20.dneDeleteUsesClientDirectory = true ∧ CM.Gen.C20.dneReconstructs = true ∧
    CM.Gen.C20.dneRefreshesOrderAccount = true := by decide

/-- the e-mail discovery of `PreCheck` only LOADS the most recent account: it never makes one
up (a made-up account for the folder name `default` has the contact `mailto:default`, hence
another lock name over the same two files) -/
theorem C20_tie_email_discovery_only_loads : CM.Gen.C20.emailDiscoveryCalls = ["loadAccount"] := by decide

/-- the rule: reject iff scheme ≠ "https" ∧ ¬ SubjectIsInternal(host), after "https://" was
put in front of a string without "://" -/
theorem C20_tie_https_rule :
    CM.Gen.C20.ruleSeparator = "://" ∧ CM.Gen.C20.rulePrefix.toList = httpsPrefix ∧
    CM.Gen.C20.ruleOp = "&&" ∧ CM.Gen.C20.ruleSchemeCmp = "!=" ∧ CM.Gen.C20.ruleSchemeLit.toList = httpsL ∧
    CM.Gen.C20.ruleInternalNegated = true ∧ CM.Gen.C20.ruleInternalArg = "u.Host" ∧
    CM.Gen.C20.ruleRejects = true := by decide

/-- every value that becomes a client's directory went through the rule (CA and test CA) -/
theorem C20_tie_directory_checked :
    CM.Gen.C20.directorySources.all (·.2) = true ∧ CM.Gen.C20.directorySources.length = 2 := by decide

/-- the tables of `SubjectIsInternal` / `isInternalIP` are the model's -/
theorem C20_tie_internal_tables :
    CM.Gen.C20.privateNetworks = privateNetworks.map (·.1) ∧
    CM.Gen.C20.internalSuffixes = internalSuffixes ∧ CM.Gen.C20.internalExact = "localhost" := by decide

end CM.Tie.C20
