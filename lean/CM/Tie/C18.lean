import CM.Generated.C18
import CM.Model.Clean
/-!
Tie of the C18 model to `maintain.go` (facts regenerated from the source on every run).
Constants and literals are compared with the model's; the shape facts are named
predicates over the regenerated action list / normalised comparisons, not the spelling
of the statements. The behavioural differential on the real `CleanStorage` decides the rest.
-/
namespace CM.Tie.C18
open CM.Clean

/-- string tests on character lists (these reduce in the kernel) -/
def pre (p a : String) : Bool := p.toList.isPrefixOf a.toList
def suf (p a : String) : Bool := p.toList.reverse.isPrefixOf a.toList.reverse


/-- key prefixes, the record's key and the lock name are the model's -/
theorem C18_tie_constants :
    CM.Gen.C18.prefixOCSP.toList = ocspC ∧ CM.Gen.C18.prefixCerts.toList = certsC ∧
    CM.Gen.C18.storageKey.toList = lastC ∧ CM.Gen.C18.lockName.toList = lockName := by decide

/-- only `.crt` entries are examined (others `continue`), the related assets are the same
base name with `.key` and `.json` -/
theorem C18_tie_extensions :
    CM.Gen.C18.crtExtLit.toList = crtExt ∧ CM.Gen.C18.crtExtOp = "!= continue" ∧
    CM.Gen.C18.trimSuffix = "assetKey|.crt" ∧
    CM.Gen.C18.relatedSuffixes.map String.toList = [keyExt, jsonExt] := by decide

/-- the comparisons: expired-for = `time.Since(expiresAt(cert))` compared `>= gracePeriod`;
a staple goes when `time.Now().After(NextUpdate)`; a cleaning is skipped when
`time.Since(Timestamp) < Interval`, and only if `Interval > 0` -/
theorem C18_tie_comparisons :
    CM.Gen.C18.graceOp = "lhs>=grace" ∧ CM.Gen.C18.expiredForIsSinceExpiresAt = true ∧
    CM.Gen.C18.stapleAfterNextUpdate = true ∧ CM.Gen.C18.intervalIsSinceLess = true ∧
    CM.Gen.C18.intervalGuard = "opts.Interval > 0" := by decide

/-- every listing is non-recursive (walk depth: ocsp/ children; certificates/issuer/site/asset) -/
theorem C18_tie_walk :
    CM.Gen.C18.listCalls.all (fun c => suf ":false" c) = true ∧
    CM.Gen.C18.listCalls.take 2 = ["deleteOldOCSPStaples:ocsp:false", "deleteExpiredCerts:certificates:false"] ∧
    CM.Gen.C18.listCalls.length = 5 ∧
    CM.Gen.C18.stapleLoopDepth = 1 ∧ CM.Gen.C18.certLoopDepth = 4 := by decide

/-- each pass runs only under its option -/
theorem C18_tie_options :
    CM.Gen.C18.passGuards = [("opts.OCSPStaples", "deleteOldOCSPStaples"), ("opts.ExpiredCerts", "deleteExpiredCerts")] := by
  decide

/-- a lock-manipulating or concurrency action -/
def lockish (a : String) : Bool :=
  pre "acq" a || pre "releaseLock" a || pre "defer:releaseLock" a || pre "defer:acq" a || a = "go"

/-- does the action touch the storage? -/
def touches (a : String) : Bool :=
  pre "storage." a || a = "deleteOldOCSPStaples" || a = "deleteExpiredCerts"

/-- `lockedShape`: the function begins by acquiring the lock (returning if that fails),
immediately defers its release, and contains no other lock handling and no goroutine —
so every storage action that follows runs inside the critical section -/
def lockedShape (name : String) (l : List String) : Bool :=
  match l with
  | a :: d :: rest =>
    a.toList = "acqOrRet:".toList ++ name.toList && d.toList = "defer:releaseLock:".toList ++ name.toList && rest.all (fun x => !lockish x) &&
    rest.any touches
  | _ => false

/-- **C18_locked, structural half**: `CleanStorage` has the locked shape for `storage_clean`,
and neither deletion pass handles locks or starts goroutines -/
theorem C18_tie_locked :
    lockedShape CM.Gen.C18.lockName CM.Gen.C18.cleanActions = true ∧ CM.Gen.C18.helperLockOrGo = [] := by
  decide

/-- the order the model follows: interval check (Load), staple pass, certificate pass,
then the record (Store) -/
def subseq : List String → List String → Bool
  | [], _ => true
  | _ :: _, [] => false
  | a :: as, b :: bs => if a = b then subseq as bs else subseq (a :: as) bs

theorem C18_tie_order :
    subseq ["storage.Load:last_clean.json", "deleteOldOCSPStaples", "deleteExpiredCerts", "storage.Store:last_clean.json"]
      CM.Gen.C18.cleanActions = true ∧
    (CM.Gen.C18.cleanActions.filter touches).length = 4 := by decide

/-- D20 repaired: the removal of an emptied site key is guarded by a check that skips
terminal keys (the model removes a site key only if it is a directory) -/
theorem C18_tie_site_folder_guard : CM.Gen.C18.siteDeleteGuardedByIsTerminal = true := by decide

end CM.Tie.C18
