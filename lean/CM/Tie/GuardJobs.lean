import CM.Generated.Guard
import CM.Lib.Guard
/-!
Tie (C19, *guarded state*, verified checker): the job manager's `names`, `queue`, `activeWorkers` under `jm.mu`.
The skeletons are regenerated from /repo on every run — for EVERY function of the package
that touches the state (the lists are generated, so a new function is covered without
touching this file) — and `decide` runs the verified checker `CM.Guard.fnOK` on them in the
kernel. By `CM.Guard.fnOK_sound`, no execution of an accepted function (any branch, any
number of loop iterations, a panic at any call, its deferred unlock and deferred critical
sections included) accesses the state outside a critical section of its mutex.
-/
namespace CM.Tie.GuardJobs
open CM.Guard CM.Skel

/-- the translator normalises the family's lock / unlock / access actions to these names -/
def P : Names := { lock := (· == "lock"), unlock := (· == "unlock"), access := (· == "access") }

theorem C19_tie_guard_jobs : ∀ f ∈ CM.Gen.Guard.jobs_funcs, fnOK P f.2 = true := by decide

/-- lifted by soundness: every execution of every such function stays inside the discipline -/
theorem C19_tie_guard_jobs_sound (f : String × Sk) (hf : f ∈ CM.Gen.Guard.jobs_funcs)
    {o : Out} {m : M} {v : Bool} (he : Exec P f.2 .free o m v) : v = false :=
  (fnOK_sound (C19_tie_guard_jobs f hf) he).1

/-- the functions the model's atomic steps correspond to are among those checked -/
theorem C19_tie_guard_jobs_covers :
    ["jobManager.Submit", "jobManager.worker"].all (fun n => (CM.Gen.Guard.jobs_funcs ++ CM.Gen.Guard.jobs_helpers).any (fun f => f.1 == n)) = true := by decide

end CM.Tie.GuardJobs
