/-
Ties of the FUNCTION TRANSLATOR (go/extract/fn.go): for each pure function of /repo that the
translator carries across whole (CM/Generated/Fn.lean, regenerated from the source on every
run), the hand-written model function used by the property theorems is PROVED EQUAL to the
translated one for ALL inputs. A change of the Go function that changes its meaning makes the
equality unprovable (the tie breaks; the differential, which also runs the generated definition,
searches for the failing input); a change that keeps its meaning but not its shape can break the
proof script too — then the check reports `no-failing-input-found`, as the brief prescribes.

Trusted: the translator and CM/Lib/GoLite.lean (the Lean reading of Go's statements and of the
white-listed part of package `strings`); both are exercised on every run by executing the
generated definitions in the driver against the real functions.
-/
import CM.Generated.Fn
import CM.Model.FileLock
namespace CM.Tie.FnC08
open CM.Go

/-! ### `fileLockIsStale` (C08) and `currentOCSP` (C14): functions over `time.Time` -/

/-- `time.Since(ref) > 10 s` on instants counted from the zero time, saturation included -/
theorem since_gt (now ref : Nat) :
    decide (time_Sub (Int.ofNat now) (Int.ofNat ref) > (5000000000 : Int) * (2 : Int))
      = decide (now - ref > 2 * 5000000000) := by
  unfold time_Sub maxDuration minDuration
  apply decide_eq_decide.mpr
  by_cases h1 : Int.ofNat now - Int.ofNat ref > 9223372036854775807
  · rw [if_pos h1]; simp only [Int.ofNat_eq_natCast] at h1; constructor <;> intro _ <;> omega
  · rw [if_neg h1]
    by_cases h2 : Int.ofNat now - Int.ofNat ref < -9223372036854775808
    · rw [if_pos h2]; simp only [Int.ofNat_eq_natCast] at h1 h2; constructor <;> intro _ <;> omega
    · rw [if_neg h2]; simp only [Int.ofNat_eq_natCast] at h1 h2 ⊢; constructor <;> intro _ <;> omega

/-- **the model's `stale` IS the translated `fileLockIsStale`**, with the constants of the source inside
it (`lockFreshnessInterval` = 5 s, factor 2 = `codeParams`): for all instants (nanoseconds since the zero
time; `0` = the zero `time.Time`), saturation of `time.Since` included. -/
theorem C08_tie_fn_fileLockIsStale (now created updated : Nat) :
    CM.Gen.Fn.fileLockIsStale (Int.ofNat now) ⟨Int.ofNat created, Int.ofNat updated⟩
      = CM.FileLock.stale CM.FileLock.codeParams now created updated := by
  unfold CM.Gen.Fn.fileLockIsStale CM.FileLock.stale CM.FileLock.codeParams
  simp only [since_gt, time_IsZero]
  by_cases hu : updated = 0
  · subst hu; simp
  · have hz : (Int.ofNat updated == 0) = false := by simp; omega
    simp [hu]

/-! ### what the printed definition means -/

/-- the definition translated from `fileLockIsStale` on this run declares a lock file stale iff more than
10 s (2 × `lockFreshnessInterval`, both from the source) have passed since its `updated` stamp — or since its
`created` stamp when `updated` is the zero time -/
theorem C08_fn_fileLockIsStale_means (now created updated : Nat) :
    CM.Gen.Fn.fileLockIsStale (Int.ofNat now) ⟨Int.ofNat created, Int.ofNat updated⟩ = true ↔
      now - (if updated = 0 then created else updated) > 10000000000 := by
  rw [C08_tie_fn_fileLockIsStale]
  unfold CM.FileLock.stale CM.FileLock.codeParams
  simp

end CM.Tie.FnC08
