import CM.Generated.Guard
import CM.Lib.Guard
/-!
Tie (C16, *guarded state*, verified checker): listener ref-counts (`solvers`), challenge memory (`activeChallenges`) and DNS record memory (`records`).
The skeletons are regenerated from /repo on every run — for EVERY function of the package
that touches the state (the lists are generated, so a new function is covered without
touching this file) — and `decide` runs the verified checker `CM.Guard.fnOK` on them in the
kernel. By `CM.Guard.fnOK_sound`, no execution of an accepted function (any branch, any
number of loop iterations, a panic at any call, its deferred unlock and deferred critical
sections included) accesses the state outside a critical section of its mutex.
-/
namespace CM.Tie.GuardSolvers
open CM.Guard CM.Skel

/-- the translator normalises the family's lock / unlock / access actions to these names -/
def P : Names := { lock := (· == "lock"), unlock := (· == "unlock"), access := (· == "access") }

theorem C16_tie_guard_solvers : ∀ f ∈ CM.Gen.Guard.solvers_funcs, fnOK P f.2 = true := by decide

/-- lifted by soundness: every execution of every such function stays inside the discipline -/
theorem C16_tie_guard_solvers_sound (f : String × Sk) (hf : f ∈ CM.Gen.Guard.solvers_funcs)
    {o : Out} {m : M} {v : Bool} (he : Exec P f.2 .free o m v) : v = false :=
  (fnOK_sound (C16_tie_guard_solvers f hf) he).1

/-- helpers that expect the mutex to be held by their caller: they touch the state only
while it is held and never release it -/
theorem C16_tie_guard_solvers_helpers : ∀ f ∈ CM.Gen.Guard.solvers_helpers, helperOK P f.2 = true := by decide

/-- the functions the model's atomic steps correspond to are among those checked -/
theorem C16_tie_guard_solvers_covers :
    ["httpSolver.CleanUp", "tlsALPNSolver.CleanUp", "getSolverInfo"].all (fun n => (CM.Gen.Guard.solvers_funcs ++ CM.Gen.Guard.solvers_helpers).any (fun f => f.1 == n)) = true := by decide

theorem C16_tie_guard_challenges : ∀ f ∈ CM.Gen.Guard.challenges_funcs, fnOK P f.2 = true := by decide

/-- lifted by soundness: every execution of every such function stays inside the discipline -/
theorem C16_tie_guard_challenges_sound (f : String × Sk) (hf : f ∈ CM.Gen.Guard.challenges_funcs)
    {o : Out} {m : M} {v : Bool} (he : Exec P f.2 .free o m v) : v = false :=
  (fnOK_sound (C16_tie_guard_challenges f hf) he).1

/-- the functions the model's atomic steps correspond to are among those checked -/
theorem C16_tie_guard_challenges_covers :
    ["GetACMEChallenge", "solverWrapper.Present", "solverWrapper.CleanUp"].all (fun n => (CM.Gen.Guard.challenges_funcs ++ CM.Gen.Guard.challenges_helpers).any (fun f => f.1 == n)) = true := by decide

theorem C16_tie_guard_dnsrecords : ∀ f ∈ CM.Gen.Guard.dnsrecords_funcs, fnOK P f.2 = true := by decide

/-- lifted by soundness: every execution of every such function stays inside the discipline -/
theorem C16_tie_guard_dnsrecords_sound (f : String × Sk) (hf : f ∈ CM.Gen.Guard.dnsrecords_funcs)
    {o : Out} {m : M} {v : Bool} (he : Exec P f.2 .free o m v) : v = false :=
  (fnOK_sound (C16_tie_guard_dnsrecords f hf) he).1

/-- the functions the model's atomic steps correspond to are among those checked -/
theorem C16_tie_guard_dnsrecords_covers :
    ["DNSManager.saveDNSPresentMemory", "DNSManager.getDNSPresentMemory", "DNSManager.deleteDNSPresentMemory"].all (fun n => (CM.Gen.Guard.dnsrecords_funcs ++ CM.Gen.Guard.dnsrecords_helpers).any (fun f => f.1 == n)) = true := by decide

end CM.Tie.GuardSolvers
