import CM.Generated.C07
import CM.Model.Bundle
/-!
Tie for C06/C07 (regenerated facts): the bundle is written key → certificate → metadata
and read in the same order; existence is tested certificate, key, metadata; `storeTx`
loads before it stores and its failure branch rolls back with Store (restore) or Delete.
The exact call sequences are compared by the harness (operation-sequence correspondence).
-/
namespace CM.Tie.C07
open CM.Skel CM.Bundle

theorem C07_tie_write_order :
    CM.Gen.C07.saveOrder = ["SitePrivateKey", "SiteCert", "SiteMeta"] := by decide

theorem C07_tie_read_order :
    CM.Gen.C07.loadOrder = ["SitePrivateKey", "SiteCert", "SiteMeta"] := by decide

theorem C07_tie_exists_order :
    CM.Gen.C07.existsOrder = ["certKey", "keyKey", "metaKey"] := by decide

/-- the model's transaction is three writes in that order -/
theorem C07_tie_model_writes (k : KeyId) (c : Crt) :
    saveWrites k c = [.key k, .crt c, .mta c.ser] := rfl

/-- storeTx: loads first, stores next, and rolls back with a restoring Store or a Delete
inside the failure branch of a store -/
theorem C07_tie_storeTx_shape :
    acts CM.Gen.C07.sk_storeTx =
      ["Load", "Store", "Store", "Delete"].map (fun m => CM.Gen.C07.storeTxParam ++ "." ++ m) := by decide

/-- quarantine: load the key, store the copy, delete the key -/
theorem C07_tie_quarantine_shape :
    before "cfg.Storage.Load" "cfg.Storage.Store" (acts CM.Gen.C07.sk_Config_moveCompromisedPrivateKey) = true ∧
    before "cfg.Storage.Store" "cfg.Storage.Delete" (acts CM.Gen.C07.sk_Config_moveCompromisedPrivateKey) = true := by
  decide

end CM.Tie.C07
