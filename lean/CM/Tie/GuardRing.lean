import CM.Generated.Guard
import CM.Lib.Guard
/-!
Tie (C17, *guarded state*, verified checker): the rate limiter's `ring`/`cursor` under `r.mu` and the package map `rateLimiters`.
The skeletons are regenerated from /repo on every run — for EVERY function of the package
that touches the state (the lists are generated, so a new function is covered without
touching this file) — and `decide` runs the verified checker `CM.Guard.fnOK` on them in the
kernel. By `CM.Guard.fnOK_sound`, no execution of an accepted function (any branch, any
number of loop iterations, a panic at any call, its deferred unlock and deferred critical
sections included) accesses the state outside a critical section of its mutex.
-/
namespace CM.Tie.GuardRing
open CM.Guard CM.Skel

/-- the translator normalises the family's lock / unlock / access actions to these names -/
def P : Names := { lock := (· == "lock"), unlock := (· == "unlock"), access := (· == "access") }

/-- not claimed: `RingBufferRateLimiter.loop` reads the state once without the mutex (`len(r.ring)` in the
scheduling goroutine — noted in DESIGN.md under C17, outside the property's statement) -/
def ring_excluded : List String := ["RingBufferRateLimiter.loop"]

theorem C17_tie_guard_ring :
    ∀ f ∈ CM.Gen.Guard.ring_funcs, ring_excluded.contains f.1 = true ∨ fnOK P f.2 = true := by decide

/-- lifted by soundness: every execution of every such function stays inside the discipline -/
theorem C17_tie_guard_ring_sound (f : String × Sk) (hf : f ∈ CM.Gen.Guard.ring_funcs)
    (hx : ring_excluded.contains f.1 = false) {o : Out} {m : M} {v : Bool} (he : Exec P f.2 .free o m v) : v = false :=
  (fnOK_sound ((C17_tie_guard_ring f hf).resolve_left (by rw [hx]; decide)) he).1

/-- helpers that expect the mutex to be held by their caller: they touch the state only
while it is held and never release it -/
theorem C17_tie_guard_ring_helpers : ∀ f ∈ CM.Gen.Guard.ring_helpers, helperOK P f.2 = true := by decide

/-- the functions the model's atomic steps correspond to are among those checked -/
theorem C17_tie_guard_ring_covers :
    ["RingBufferRateLimiter.permit", "RingBufferRateLimiter.SetMaxEvents", "RingBufferRateLimiter.SetWindow", "RingBufferRateLimiter.advance"].all (fun n => (CM.Gen.Guard.ring_funcs ++ CM.Gen.Guard.ring_helpers).any (fun f => f.1 == n)) = true := by decide

theorem C17_tie_guard_ratelimiters : ∀ f ∈ CM.Gen.Guard.ratelimiters_funcs, fnOK P f.2 = true := by decide

/-- lifted by soundness: every execution of every such function stays inside the discipline -/
theorem C17_tie_guard_ratelimiters_sound (f : String × Sk) (hf : f ∈ CM.Gen.Guard.ratelimiters_funcs)
    {o : Out} {m : M} {v : Bool} (he : Exec P f.2 .free o m v) : v = false :=
  (fnOK_sound (C17_tie_guard_ratelimiters f hf) he).1

/-- the functions the model's atomic steps correspond to are among those checked -/
theorem C17_tie_guard_ratelimiters_covers :
    ["acmeClient.throttle"].all (fun n => (CM.Gen.Guard.ratelimiters_funcs ++ CM.Gen.Guard.ratelimiters_helpers).any (fun f => f.1 == n)) = true := by decide

/-- writes to the map need the EXCLUSIVE lock (vocabulary: `Lock`/`Unlock` only, accesses =
map writes and deletes only): nobody adds a limiter while holding merely the read lock -/
theorem C17_tie_guard_ratelimiters_writes_exclusive :
    ∀ f ∈ CM.Gen.Guard.ratelimitersw_funcs, fnOK P f.2 = true := by decide

/-- look-up and creation of a CA/account's limiter are ONE critical section: `throttle` takes
the map's mutex exactly once (a second acquisition between the two would let simultaneous
first uses each create their own limiter — every access still "under the lock") -/
theorem C17_tie_throttle_one_critical_section :
    (CM.Gen.Guard.ratelimiters_funcs.filter (fun f => f.1 == "acmeClient.throttle")).map
      (fun f => ((CM.Skel.acts f.2).filter (· == "lock")).length) = [1] := by decide

end CM.Tie.GuardRing
