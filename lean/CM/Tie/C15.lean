import CM.Generated.C15
import CM.Model.Challenge
/-!
Tie of the C15 model to the repository's current source. The facts are re-extracted on every
run (`CM/Generated/C15.lean`, by `go/extract/c15.go`); each theorem states that the
regenerated fact is the one the model — and hence every C15 theorem — relies on. Guards are
compared as *sets of what is tested* (method, path, host, …), not as spelled expressions.
-/
namespace CM.Tie.C15
open CM.Challenge

/-- the base path, the resource path prefix and the ALPN protocol name are the model's -/
theorem C15_tie_constants :
    CM.Gen.C15.basePath.toList = basePath ∧
    CM.Gen.C15.resourcePrefix.toList = basePath ++ ['/'] ∧
    CM.Gen.C15.acmeTLS1.toList = acmeTLS1 := by decide

/-- `HandleHTTPChallenge` declines when disabled or when the request does not look like a
challenge; looking like one is `GET` ∧ base-path prefix (`httpAnswer`'s first three tests) -/
theorem C15_tie_handle :
    CM.Gen.C15.handleGuards = ["recv==nil", "disabled", "!looksLike"] ∧
    CM.Gen.C15.looksLike = ["method==GET", "path^=base"] := by decide

/-- the only write of `solveHTTPChallenge` is guarded by exact path ∧ case-insensitive host
∧ `GET` (`solves`) -/
theorem C15_tie_solve :
    CM.Gen.C15.solveConds = ["host=~ident", "method==GET", "path==resource"] ∧
    CM.Gen.C15.solveWrites = 1 ∧ CM.Gen.C15.solveWritesGuarded = true := by decide

/-- the TLS-ALPN branch is taken exactly for a non-empty server name and the single protocol
`acme-tls/1`, always returns, and precedes the ordinary selection (`alpnAnswer`) -/
theorem C15_tie_alpn_branch :
    CM.Gen.C15.alpnBranchConds = ["nprotos==1", "proto0==acme-tls/1", "sni!=empty"] ∧
    CM.Gen.C15.alpnBranchReturns = true ∧ CM.Gen.C15.alpnBranchBeforeNormal = true := by decide

/-- `getChallengeInfo`: memory first (a hit returns), then storage, then the decoded
challenge's key is compared with the name asked for (D12), and the test CA's prefix is
searched too (D17) (`lookup`, `searchPrefixes`) -/
theorem C15_tie_lookup :
    CM.Gen.C15.lookupOrder = ["memory", "storage", "decode", "identGuard"] ∧
    CM.Gen.C15.memoryHitReturns = true ∧ CM.Gen.C15.searchesTestCAPrefix = true ∧
    CM.Gen.C15.tokenFileIsSafeOfKey = true := by decide

/-- `challengeKey` uses the reverse-DNS name exactly for TLS-ALPN-01 on an IP identifier -/
theorem C15_tie_challengeKey :
    CM.Gen.C15.challengeKeyConds = ["identType==ip", "type==tls-alpn-01"] ∧
    CM.Gen.C15.challengeKeyUsesReverseAddr = true := by decide

/-- `solverWrapper` writes / deletes the memory entry under `challengeKey`, under the mutex,
and then calls the wrapped solver (`apply`) -/
theorem C15_tie_wrapper :
    CM.Gen.C15.wrapperPresent = ["lock", "write[challengeKey]", "unlock", "inner.Present"] ∧
    CM.Gen.C15.wrapperCleanUp = ["lock", "delete[challengeKey]", "unlock", "inner.CleanUp"] := by decide

end CM.Tie.C15
