import CM.Generated.Guard
import CM.Lib.Guard
/-!
Tie (C02, *gate domination*, verified checker). In `handshake.go`, passing the on-demand
policy gate — the fused idiom `if err := cfg.checkIfCertShouldBeObtained(..); err != nil {
return … }` — plays the role of taking a lock that is never released; every call that
issues, renews or loads a certificate (`ObtainCert*`, `RenewCert*`, `forceRenew`,
`loadManagedCertificate`, `CacheManagedCertificate`, `reloadManagedCertificate`) is an
"access". The skeletons of EVERY function of `handshake.go` that contains such a call
(directly or through a helper) are regenerated on every run; unexported functions that never
gate themselves (`loadCertFromStorage`, `obtainOnDemandCertificate`) are helpers that expect
the gate to have been passed by their caller, and calls to them are accesses.

By `CM.Guard.entryOK_sound` / `helperOK_sound`: on every path through every such function —
every branch, loop count, closure, goroutine started, return or panic at any call — no
issuing or loading call is reached without a successful gate before it in the same
function or goroutine. (Names and "at that moment" are the model's and the harness's
business: `CM/Props/C02.lean`, the effect-log specification.)
-/
namespace CM.Tie.GuardGate
open CM.Guard CM.Skel

def P : Names := { lock := (· == "lock"), unlock := (· == "unlock"), access := (· == "access") }

theorem C02_tie_gate_dominates : ∀ f ∈ CM.Gen.Guard.gate_funcs, entryOK P f.2 = true := by decide

theorem C02_tie_gate_dominates_sound (f : String × Sk) (hf : f ∈ CM.Gen.Guard.gate_funcs)
    {o : Out} {m : M} {v : Bool} (he : Exec P f.2 .free o m v) : v = false :=
  entryOK_sound (C02_tie_gate_dominates f hf) he

/-- the ungated helpers reach their issuing / loading calls only with the gate passed by
the caller, and every call of them is checked as an access above -/
theorem C02_tie_gate_helpers : ∀ f ∈ CM.Gen.Guard.gate_helpers, helperOK P f.2 = true := by decide

/-- the functions the handshake model follows are among those checked -/
theorem C02_tie_gate_covers :
    ["Config.getCertDuringHandshake", "Config.handshakeMaintenance", "Config.renewDynamicCertificate",
     "Config.loadCertFromStorage", "Config.obtainOnDemandCertificate"].all
      (fun n => (CM.Gen.Guard.gate_funcs ++ CM.Gen.Guard.gate_helpers).any (fun f => f.1 == n)) = true := by decide

end CM.Tie.GuardGate
