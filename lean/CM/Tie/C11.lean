import CM.Generated.C11
import CM.Model.Safe
/-!
Tie of the C11 model to `/repo`'s current source: the facts below are re-extracted from
`storage.go` on every run (`CM/Generated/C11.lean`); each theorem states that the
regenerated fact is the one the model (and hence every C11 theorem) is about.
-/
namespace CM.Tie.C11
open CM.Safe

/-- the replacer's pairs are the model's, in the same order -/
theorem C11_tie_pairs :
    CM.Gen.C11.replacerPairs = pairs.map (fun p => (p.1.toString, p.2)) := by decide

/-- the steps are applied in the order the model composes them: lower, trim, replacer,
character filter, and the `..` strip LAST (the order C11_no_dotdot depends on) -/
theorem C11_tie_steps :
    CM.Gen.C11.safeSteps = ["strings.ToLower", "strings.TrimSpace", "repl.Replace",
      "safeKeyRE.ReplaceAllLiteralString", "strings.ReplaceAll|..|"] := by decide

/-- the character class removed by the filter is the complement of `keep` -/
theorem C11_tie_regexp : CM.Gen.C11.safeKeyRE = "[^\\w@.-]" := by decide

theorem C11_tie_prefixes :
    CM.Gen.C11.prefixCerts.toList = prefixCerts ∧ CM.Gen.C11.prefixOCSP.toList = prefixOCSP ∧
    CM.Gen.C11.prefixACME.toList = prefixACME := by decide

end CM.Tie.C11
