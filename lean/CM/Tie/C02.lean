import CM.Generated.C02
import CM.Lib.SkelHS
import CM.Model.Handshake
/-!
Tie of the C02 model to /repo's source: regenerated constants equal the model's, and the
regenerated skeletons have the structural facts the model relies on (stage one: named
decidable predicates, not equality with a recorded skeleton).
-/
namespace CM.Tie.C02
open CM.Skel CM.SkelHS CM.Gen.C02

/-- the forbidden-character set of SubjectQualifiesForCert is the model's -/
theorem C02_tie_forbidden : forbiddenChars.toList = CM.Handshake.forbidden := by decide

-- (the fact tie on the literals of the other tests of SubjectQualifiesForCert was retired: the whole
-- function is tied now — CM/Tie/FnC02.lean, C02_tie_fn_SubjectQualifiesForCert — and the function tie stays
-- proved under rewrites (early returns instead of one && chain) that changed the extracted literal lists)

/-- checkIfCertShouldBeObtained: on-demand requirement, then the syntactic check, then the
decision function if set (which then decides alone), otherwise the allow-list, enforced only
when non-empty (DESIGN §9) — the order `gateCheck` follows -/
theorem C02_tie_policy_rule :
    gateSteps = ["requireOnDemand", "qualifies", "onDemand", "hasFunc", "callFunc", "allowlistNonEmpty", "notInAllowlist"] ∧
      allowlistOnlyIfNonEmpty = true ∧ decisionFuncDecides = true := by decide

def gate : String := "cfg.checkIfCertShouldBeObtained"

/-- getCertDuringHandshake: loading from storage and obtaining are dominated by a passed gate -/
theorem C02_tie_gate_getCert :
    gate_before_issuing_action gate ["cfg.loadCertFromStorage", "cfg.obtainOnDemandCertificate"]
      sk_Config_getCertDuringHandshake = true ∧
    mentions ["cfg.loadCertFromStorage", "cfg.obtainOnDemandCertificate", gate] sk_Config_getCertDuringHandshake = true := by
  decide

/-- handshakeMaintenance (closure renewIfNecessary, ARI goroutine included): obtaining anew is
dominated by a passed gate (the D5 repair) -/
theorem C02_tie_gate_maintenance :
    gate_before_issuing_action gate ["cfg.obtainOnDemandCertificate", "cfg.ObtainCertAsync", "cfg.RenewCertAsync", "cfg.forceRenew"]
      sk_Config_handshakeMaintenance = true ∧
    mentions ["cfg.obtainOnDemandCertificate", gate] sk_Config_handshakeMaintenance = true := by
  decide

/-- renewDynamicCertificate (closure renewAndReload, foreground and goroutine): renewal,
forced renewal and reload are dominated by a passed gate -/
theorem C02_tie_gate_renew :
    gate_before_issuing_action gate ["cfg.RenewCertAsync", "cfg.forceRenew", "cfg.reloadManagedCertificate"]
      sk_Config_renewDynamicCertificate = true ∧
    mentions ["cfg.RenewCertAsync", "cfg.forceRenew", "cfg.reloadManagedCertificate", gate] sk_Config_renewDynamicCertificate = true := by
  decide

/-- the functions that issue / load without a gate of their own are called only from gated
places: obtainOnDemandCertificate from getCertDuringHandshake and handshakeMaintenance (both
tied above), loadCertFromStorage from getCertDuringHandshake (tied above) and from
obtainOnDemandCertificate; and these are all the issuing / loading calls in handshake.go -/
theorem C02_tie_call_graph :
    callers_obtainOnDemandCertificate = ["Config.getCertDuringHandshake", "Config.handshakeMaintenance"] ∧
    callers_loadCertFromStorage = ["Config.getCertDuringHandshake", "Config.obtainOnDemandCertificate"] ∧
    callers_renewDynamicCertificate = ["Config.handshakeMaintenance"] ∧
    callers_handshakeMaintenance = ["Config.loadCertFromStorage", "Config.optionalMaintenance"] ∧
    callers_optionalMaintenance = ["Config.getCertDuringHandshake"] ∧
    issuingSites = ["Config.loadCertFromStorage:CacheManagedCertificate", "Config.loadCertFromStorage:CacheManagedCertificate",
      "Config.obtainOnDemandCertificate:ObtainCertAsync", "Config.renewDynamicCertificate:RenewCertAsync",
      "Config.renewDynamicCertificate:forceRenew", "Config.renewDynamicCertificate:reloadManagedCertificate"] := by
  decide

/-- the checker does reject a skeleton in which the gate is missing (the unrepaired D5 shape) -/
example : gate_before_issuing_action gate ["cfg.obtainOnDemandCertificate"]
    (.seq (.act "cfg.storageHasCertResourcesAnyIssuer") (.br "!has" (.seq (.act "cfg.obtainOnDemandCertificate") .ret) .skip)) = false := by
  decide

/-- … and one in which the gate's error branch does not leave -/
example : gate_before_issuing_action gate ["cfg.obtainOnDemandCertificate"]
    (.seq (.act gate) (.seq (.br "err != nil" .skip .skip) (.act "cfg.obtainOnDemandCertificate"))) = false := by
  decide

example : gate_before_issuing_action gate ["cfg.obtainOnDemandCertificate"]
    (.seq (.act gate) (.seq (.br "err != nil" .ret .skip) (.act "cfg.obtainOnDemandCertificate"))) = true := by
  decide

end CM.Tie.C02
