import CM.Generated.C14
import CM.Model.OCSP
/-!
Tie of the C14 model to `ocsp.go` / `maintain.go` / `certificates.go` (facts regenerated
from the source on every run): which parse function is called with which arguments, the
validity checks, the order of the steps of `stapleOCSP`, the constants, what the callers
do with an error, and the maintenance conditions. The behavioural differential on the real
entry points under virtual time decides the rest.
-/
namespace CM.Tie.C14
open CM.OCSP

/-- both the stored staple and the fresh answer are parsed FOR THE CERTIFICATE (serial match);
the fresh answer is also verified against the issuer (D4 repair) -/
theorem C14_tie_parse :
    CM.Gen.C14.parseCalls.map (fun c => (c.1, c.2.1)) =
      [("stapleOCSP", "ocsp.ParseResponseForCert"), ("getOCSPForCert", "ocsp.ParseResponseForCert")] ∧
    CM.Gen.C14.parseCalls.all (fun c => c.2.2.1 != "nil" && c.2.2.1 != "-") = true ∧
    CM.Gen.C14.parseCalls.map (fun c => c.2.2.2) = ["issuerFromChain(_)", "issuerCert"] := by decide

/-- a stored staple is reused only if fresh AND inside its validity period; an answer
outside its validity period is an error of `getOCSPForCert`; the period check accepts an
absent NextUpdate -/
theorem C14_tie_validity :
    CM.Gen.C14.reuseCond = "freshOCSP(_) && currentOCSP(_)" ∧
    CM.Gen.C14.answerCheck = "!currentOCSP(_)" ∧ CM.Gen.C14.answerCheckReturnsError = true := by decide
-- (the spelling of `currentOCSP`'s expression is no longer a fact here: the function is tied whole —
-- CM/Tie/FnC14.lean, C14_tie_fn_currentOCSP — and that tie stays proved under e.g. De Morgan)

def subseq : List String → List String → Bool
  | [], _ => true
  | _ :: _, [] => false
  | a :: as, b :: bs => if a = b then subseq as bs else subseq (a :: as) bs

/-- the order the model follows: disabled?, storage, parse, freshness+currency, delete,
query, short-lifetime exit, expiry check, attach `ocsp`, staple only under Status == Good,
persist; the staple is assigned in exactly one place and `ocsp` in exactly one -/
theorem C14_tie_order :
    subseq ["if-disabled", "storage.Load", "parse", "freshOCSP", "currentOCSP", "getOCSPForCert",
      "if-short-lifetime", "if-past-expiry", "return-err", "set-ocsp", "if-good", "set-staple:under-good", "storage.Store"]
      CM.Gen.C14.stapleSteps = true ∧
    -- (the deletion of an unusable stored staple follows its parsing and precedes the query; which
    -- arm of the parse-error test comes first in the source does not matter)
    subseq ["parse", "storage.Delete", "getOCSPForCert"] CM.Gen.C14.stapleSteps = true ∧
    (CM.Gen.C14.stapleSteps.filter (fun s => s = "set-staple:under-good" || s = "set-staple:unguarded")).length = 1 ∧
    (CM.Gen.C14.stapleSteps.filter (fun s => s = "set-ocsp")).length = 1 ∧
    (CM.Gen.C14.stapleSteps.filter (fun s => s = "parse")).length = 1 := by decide

/-- freshness = first half of the validity period; silent failure below 7 days of lifetime -/
theorem C14_tie_constants :
    CM.Gen.C14.freshDivisor = 2 ∧ CM.Gen.C14.shortLifetimeNs = shortLifetime ∧
    CM.Gen.C14.freshBody.length = 4 := by decide

/-- **failure is not fatal, structural half**: no caller returns on an error of `stapleOCSP`
(the certificate-making callers log it; maintenance skips the entry) -/
theorem C14_tie_not_fatal :
    CM.Gen.C14.stapleErrorHandling =
      ["Config.makeCertificateWithOCSP:log", "Config.CacheUnmanagedTLSCertificate:log",
       "Cache.updateOCSPStaples:continue", "Config.handshakeMaintenance:log"] := by decide

/-- maintenance: the skip and advance conditions, the guarded write-back and the removal when the forced
renewal fails are the model's (the force-renew predicate `certShouldBeForceRenewed` is tied whole:
CM/Tie/FnC14.lean, C14_tie_fn_certShouldBeForceRenewed) -/
theorem C14_tie_maintenance :
    CM.Gen.C14.scanSkipCond = "_.ocsp.Status != ocsp.Unknown && freshOCSP(_.ocsp)" ∧
    CM.Gen.C14.advanceCond =
      "_.ocsp != nil && _.ocsp.Status == ocsp.Good && (_.IsZero() || lastNextUpdate != _.ocsp.NextUpdate)" ∧
    CM.Gen.C14.writeBackGuarded = true ∧ CM.Gen.C14.forceRenewRemovesOnError = true := by decide

end CM.Tie.C14
