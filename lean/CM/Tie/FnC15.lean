/-
Ties of the FUNCTION TRANSLATOR (go/extract/fn.go): for each pure function of /repo that the
translator carries across whole (CM/Generated/Fn.lean, regenerated from the source on every
run), the hand-written model function used by the property theorems is PROVED EQUAL to the
translated one for ALL inputs. A change of the Go function that changes its meaning makes the
equality unprovable (the tie breaks; the differential, which also runs the generated definition,
searches for the failing input); a change that keeps its meaning but not its shape can break the
proof script too — then the check reports `no-failing-input-found`, as the brief prescribes.

Trusted: the translator and CM/Lib/GoLite.lean (the Lean reading of Go's statements and of the
white-listed part of package `strings`); both are exercised on every run by executing the
generated definitions in the driver against the real functions.
-/
import CM.Generated.Fn
import CM.Model.Challenge
namespace CM.Tie.FnC15
open CM.Go

theorem C15_tie_fn_LooksLikeHTTPChallenge (r : CM.Challenge.HttpReq) :
    CM.Gen.Fn.LooksLikeHTTPChallenge ⟨r.method, ⟨r.path⟩⟩
      = (r.method == CM.Challenge.GET && CM.Challenge.basePath.isPrefixOf r.path) := rfl

/-- … and a request that does not look like a challenge is passed on, whatever else holds -/
theorem C15_tie_fn_not_looking_passes (E : CM.Challenge.Env) (S : CM.Challenge.State) (n : Nat)
    (ps : List Str) (disabled : Bool) (r : CM.Challenge.HttpReq)
    (h : CM.Gen.Fn.LooksLikeHTTPChallenge ⟨r.method, ⟨r.path⟩⟩ = false) :
    CM.Challenge.httpAnswer E S n ps disabled r = .pass := by
  rw [C15_tie_fn_LooksLikeHTTPChallenge] at h
  unfold CM.Challenge.httpAnswer
  cases disabled
  · cases hm : (r.method == CM.Challenge.GET)
    · have : (r.method != CM.Challenge.GET) = true := by simp [bne, hm]
      simp [this]
    · have hp : CM.Challenge.basePath.isPrefixOf r.path = false := by simpa [hm] using h
      have : (r.method != CM.Challenge.GET) = false := by simp [bne, hm]
      simp [this, hp]
  · simp

end CM.Tie.FnC15
