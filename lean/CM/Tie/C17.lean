import CM.Generated.C17
import CM.Model.RateLimit
/-!
Tie of the C17 model to `ratelimiter.go` / `acmeclient.go` / `acmeissuer.go` as they are
NOW: `CM/Generated/C17.lean` is rewritten from the source on every run. Each function the
model follows arrives as its ordered list of action tokens; the theorems below are the
structural facts the model relies on, stated as decidable predicates over those lists
(order of actions, what is under the mutex, which guard precedes what). `shape` forgets
the text of conditions, so renaming a variable or rewording a test does not break a
structural fact; the few guards whose *content* matters are tied separately.
-/
namespace CM.Tie.C17
open CM.RateLimit

def pre (p : String) (t : String) : Bool := p.toList.isPrefixOf t.toList
def suf (p : String) (t : String) : Bool := p.toList.isSuffixOf t.toList

/-- forget the text of conditions and local definitions -/
def shape (l : List String) : List String :=
  l.map (fun t => if pre "if(" t then "if{" else if pre "for(" t then "for{" else if pre "let:" t then "let" else t)

/-- the texts `shape` forgets -/
def guards (l : List String) : List String := l.filter (fun t => pre "if(" t || pre "for(" t || pre "let:" t)

/-- `pat` occurs in `l` in this order (not necessarily adjacent) -/
def subseq : List String → List String → Bool
  | [], _ => true
  | _ :: _, [] => false
  | a :: as, b :: bs => if a = b then subseq as bs else subseq (a :: as) bs

def cnt (l : List String) (t : String) : Nat := (l.filter (· = t)).length

/-- `loop`: stop check at the top; the disabled branch (`permit` without any wait, else panic)
comes first; then the slot under the cursor plus the window is read UNDER the mutex, the
mutex is released, a timer is armed for that instant, and `permit` is called only from the
timer's arm of the select, whose other arm is the stop channel. The loop never writes the
ring and never reads the clock into it. -/
theorem C17_tie_loop :
    subseq ["for{", "select{", "case:recv:stopped", "return", "case:default", "}",
            "if{", "if{", "call:permit", "continue", "}", "panic", "}",
            "lock", "read:ring[cursor]+window", "unlock", "time:until", "timer:new",
            "select{", "case:recv:timer", "call:permit", "case:recv:stopped", "return", "}", "}"]
      (shape CM.Gen.C17.loop) = true ∧
    cnt CM.Gen.C17.loop "call:permit" = 2 ∧ cnt CM.Gen.C17.loop "lock" = 1 ∧
    cnt CM.Gen.C17.loop "unlock" = 1 ∧ cnt CM.Gen.C17.loop "read:ring[cursor]+window" = 1 ∧
    (CM.Gen.C17.loop.filter (pre "write:")).length = 0 := by decide

/-- `permit`: the ring slot is written with `time.Now()` taken AFTER the ticket was sent
(hand-off, then record — the order `C17_bound` depends on), under the mutex, guarded by
`len(ring) > 0`, followed by `advance`; nothing is written and the clock is not read on any
other arm. -/
theorem C17_tie_permit_records_after_handoff :
    subseq ["for{", "select{", "case:send:started", "continue", "case:recv:stopped", "return",
            "case:send:ticket", "lock", "defer:unlock", "if{", "time:now", "write:ring[cursor]=now",
            "call:advance", "}", "return", "}", "}"] (shape CM.Gen.C17.permit) = true ∧
    cnt CM.Gen.C17.permit "time:now" = 1 ∧ (CM.Gen.C17.permit.filter (pre "write:")).length = 1 ∧
    cnt CM.Gen.C17.permit "case:send:ticket" = 1 ∧
    guards CM.Gen.C17.permit = ["for(){", "if(len(r.ring)>0){"] := by decide

/-- `Wait`: one select, two arms: context done ⇒ return (Canceled); ticket ⇒ return (nil).
`Allow`: one select: ticket ⇒ true; default ⇒ false. Neither touches ring, cursor, window. -/
theorem C17_tie_wait_allow :
    CM.Gen.C17.wait = ["select{", "case:recv:done", "return", "case:recv:ticket", "return", "}"] ∧
    CM.Gen.C17.allow = ["select{", "case:recv:ticket", "return", "case:default", "return", "}"] := by decide

-- (the fact ties on the shape / guards of `SetMaxEvents` and on the shape of `advance` were retired: both methods
-- are tied whole now — CM/Tie/FnC17.lean, advance_eq, C17_tie_fn_SetMaxEvents — and the function ties stay proved
-- under rewrites (a local for the next position, `range` for the copy loop) that changed the extracted shapes)

/-- `SetWindow`: under the mutex, panics iff `window != 0 && len(ring) == 0`, else assigns. -/
theorem C17_tie_setWindow :
    shape CM.Gen.C17.setWindow = ["lock", "defer:unlock", "if{", "panic", "}", "write:window=arg"] ∧
    guards CM.Gen.C17.setWindow = ["if(arg0!=0&&len(r.ring)==0){"] := by decide

/-- `NewRateLimiter` refuses (panics on) negative limits and `maxEvents == 0 && window != 0`
— the model's `Init` —, starts `loop` and waits for it; `Stop` closes the stop channel. -/
theorem C17_tie_new_stop :
    guards CM.Gen.C17.newRateLimiter = ["if(arg0<0){", "if(arg0==0&&arg1!=0){"] ∧
    subseq ["if{", "panic", "}", "if{", "panic", "}", "recv:started", "return"] (shape CM.Gen.C17.newRateLimiter) = true ∧
    (CM.Gen.C17.newRateLimiter.filter (pre "go:")).length = 1 ∧
    CM.Gen.C17.stop = ["close:stopped"] := by decide

/-- the issuer's default limit: 10 events per 10 s — a valid configuration with a real limit -/
theorem C17_tie_defaults :
    CM.Gen.C17.rateLimitEvents = 10 ∧ CM.Gen.C17.rateLimitEventsWindow = 10 * 1000000000 ∧
    ¬ (CM.Gen.C17.rateLimitEvents.toNat = 0 ∧ CM.Gen.C17.rateLimitEventsWindow.toNat ≠ 0) := by decide

/-- `C17_throttle_key` of the design: the limiter a first attempt waits on is found under the
key "directory URL , account e-mail" and created with the two package defaults; `doIssue`
calls `throttle` exactly once, under the guard `!useTestCA` where `useTestCA := attempts > 0`
— so first attempts are throttled per CA and account, and test-CA attempts bypass it. -/
theorem C17_tie_throttle_key :
    CM.Gen.C17.throttleKeyParts.length = 3 ∧
    (CM.Gen.C17.throttleKeyParts.head?.map (suf ".Directory")) = some true ∧
    CM.Gen.C17.throttleKeyParts[1]? = some "\",\"" ∧
    CM.Gen.C17.throttleKeyParts[2]? = some "email" ∧
    suf ".getEmail()" CM.Gen.C17.throttleEmailFrom = true ∧
    CM.Gen.C17.throttleNewArgs = ["RateLimitEvents", "RateLimitEventsWindow"] ∧
    CM.Gen.C17.doIssueUseTestCA = "attempts > 0" ∧
    CM.Gen.C17.doIssueThrottleGuard = "!useTestCA" ∧
    CM.Gen.C17.doIssueThrottleCalls = 1 := by decide

end CM.Tie.C17
