import CM.Generated.Guard
import CM.Lib.Guard
/-!
Tie (C13, *guarded state*, verified checker): the two single-flight maps `certLoadWaitChans` / `obtainCertWaitChans` and their mutexes.
The skeletons are regenerated from /repo on every run — for EVERY function of the package
that touches the state (the lists are generated, so a new function is covered without
touching this file) — and `decide` runs the verified checker `CM.Guard.fnOK` on them in the
kernel. By `CM.Guard.fnOK_sound`, no execution of an accepted function (any branch, any
number of loop iterations, a panic at any call, its deferred unlock and deferred critical
sections included) accesses the state outside a critical section of its mutex.
-/
namespace CM.Tie.GuardHandshake
open CM.Guard CM.Skel

/-- the translator normalises the family's lock / unlock / access actions to these names -/
def P : Names := { lock := (· == "lock"), unlock := (· == "unlock"), access := (· == "access") }

theorem C13_tie_guard_loadwait : ∀ f ∈ CM.Gen.Guard.loadwait_funcs, fnOK P f.2 = true := by decide

/-- lifted by soundness: every execution of every such function stays inside the discipline -/
theorem C13_tie_guard_loadwait_sound (f : String × Sk) (hf : f ∈ CM.Gen.Guard.loadwait_funcs)
    {o : Out} {m : M} {v : Bool} (he : Exec P f.2 .free o m v) : v = false :=
  (fnOK_sound (C13_tie_guard_loadwait f hf) he).1

/-- the functions the model's atomic steps correspond to are among those checked -/
theorem C13_tie_guard_loadwait_covers :
    ["Config.getCertDuringHandshake"].all (fun n => (CM.Gen.Guard.loadwait_funcs ++ CM.Gen.Guard.loadwait_helpers).any (fun f => f.1 == n)) = true := by decide

theorem C13_tie_guard_obtainwait : ∀ f ∈ CM.Gen.Guard.obtainwait_funcs, fnOK P f.2 = true := by decide

/-- lifted by soundness: every execution of every such function stays inside the discipline -/
theorem C13_tie_guard_obtainwait_sound (f : String × Sk) (hf : f ∈ CM.Gen.Guard.obtainwait_funcs)
    {o : Out} {m : M} {v : Bool} (he : Exec P f.2 .free o m v) : v = false :=
  (fnOK_sound (C13_tie_guard_obtainwait f hf) he).1

/-- the functions the model's atomic steps correspond to are among those checked -/
theorem C13_tie_guard_obtainwait_covers :
    ["Config.obtainOnDemandCertificate", "Config.renewDynamicCertificate"].all (fun n => (CM.Gen.Guard.obtainwait_funcs ++ CM.Gen.Guard.obtainwait_helpers).any (fun f => f.1 == n)) = true := by decide

end CM.Tie.GuardHandshake
