import CM.Generated.C08
import CM.Model.FileLock
/-!
Tie of the C08 lock-file model to `/repo`'s current `filestorage.go` (facts re-extracted on
every run, `CM/Generated/C08.lean`). Each theorem states that a regenerated constant or
structural fact is the one the LTS `CM.FileLock` (hence every C08 theorem) is about.
-/
namespace CM.Tie.C08
open CM.FileLock

/-- `a` occurs before `b` in `l` -/
def before (a b : String) (l : List String) : Bool :=
  match l.dropWhile (· != a) with
  | [] => false
  | _ :: rest => rest.contains b

/-- lockFreshnessInterval, fileLockPollInterval, the 250 ms retry and the 8 tolerated empty reads are the
model's `codeParams`. (The staleness factor, the strictness of the test and its reference stamp were facts
about `fileLockIsStale`; that function is tied whole now — CM/Tie/FnC08.lean, C08_tie_fn_fileLockIsStale, with
`factor * H` = 10 s inside it — and the function tie stays proved under rewrites, e.g. a local constant for the
threshold, that changed the extracted facts.) -/
theorem C08_tie_constants :
    CM.Gen.C08.lockFreshnessInterval = codeParams.H ∧
    CM.Gen.C08.fileLockPollInterval = codeParams.P ∧ CM.Gen.C08.emptyRetry = codeParams.E ∧
    CM.Gen.C08.maxEmpty = codeParams.N := by
  decide

/-- `Lock` waits in exactly two `select`s (the 250 ms retry and the poll), and each has a
`ctx.Done()` arm that returns `ctx.Err()`: the model's `sleepE` / `poll` states with their
`cancel` step (`C08_cancel`, `C08_waits_only_in_select`) -/
theorem C08_tie_selects :
    CM.Gen.C08.lockSelects.length = 2 ∧
    CM.Gen.C08.lockSelects.all (fun arms => arms.contains "ctx:return-err" && arms.length == 2) = true ∧
    CM.Gen.C08.lockSelects.map (·.head?) = [some "timer:250000000", some "timer:fileLockPollInterval"] := by
  decide

/-- the loop: create first (nil iff created); then not-exist ⇒ retry, stale ⇒ remove and
retry, otherwise poll — the model's `tryCreate` / `observe` / `remove` -/
theorem C08_tie_loop :
    CM.Gen.C08.createFirstReturnNil = true ∧ CM.Gen.C08.lockSwitchCases = ["notexist", "error", "stale", "default"] ∧
    CM.Gen.C08.staleRemovesAndRetries = true := by decide

/-- the lock file is created with O_CREATE|O_EXCL and the heartbeat goroutine is started
by the creator; Unlock removes the lock file; the file name is the sanitised name -/
theorem C08_tie_create_unlock :
    CM.Gen.C08.createExclusive = true ∧ CM.Gen.C08.createSpawnsHeartbeat = true ∧
    CM.Gen.C08.unlockRemovesLockFile = true ∧ CM.Gen.C08.lockNameSanitised = true := by decide

/-- the heartbeat sleeps H, then reads, truncates, writes — in this order, three separate
steps (`hbOpen`, `hbTrunc`, `hbWrite`: "empty" is observable in between) -/
theorem C08_tie_heartbeat :
    CM.Gen.C08.heartbeatSleepsH = true ∧
    before "open" "read" CM.Gen.C08.heartbeatSteps = true ∧ before "read" "truncate" CM.Gen.C08.heartbeatSteps = true ∧
    before "truncate" "write" CM.Gen.C08.heartbeatSteps = true := by decide

/-- D8 repaired: any decode error is counted like an empty file and no branch of `Lock`
returns a decode error (the model's `observe` treats `garbage` like `empty`) -/
theorem C08_tie_d8_undecodable_like_empty : CM.Gen.C08.undecodableLikeEmpty = true := by decide

/-- D18 repaired: the empty-read counter is reset when a lock file was read in full and is
fresh (the model's `observe` goes to `poll 0`) -/
theorem C08_tie_d18_counter_reset : CM.Gen.C08.emptyCountResetOnFreshRead = true := by decide

/-- D21 repaired: the heartbeat ends, before truncating, when the file's `created` stamp is
not its own (the model's `hbOpen` compares `cr = c0`) -/
theorem C08_tie_d21_owner_check :
    CM.Gen.C08.heartbeatChecksOwner = true ∧ before "ownercheck" "truncate" CM.Gen.C08.heartbeatSteps = true := by
  decide

end CM.Tie.C08
