import CM.Generated.C01
import CM.Model.Issue
/-!
Tie for C01: structural facts of `obtainCert` / `renewCert` (regenerated skeletons) that the
LTS relies on: the issuer call, the save and the retry wrapper all lie after the acquire,
whose very next statement registers the deferred release; inside the lock a storage
re-check precedes the issuer call. (The behavioural tie is the trace validation.)
-/
namespace CM.Tie.C01
open CM.Skel

theorem C01_tie_obtain_inside_lock :
    insideLock CM.Gen.C01.sk_Config_obtainCert ["issuer.Issue", "cfg.saveCertResource", "doWithRetry"]
      "cfg.storageHasCertResourcesAnyIssuer" = true ∧
    deferRightAfterAcq CM.Gen.C01.sk_Config_obtainCert = true := by decide

theorem C01_tie_renew_inside_lock :
    insideLock CM.Gen.C01.sk_Config_renewCert ["issuer.Issue", "cfg.saveCertResource", "doWithRetry"]
      "cfg.managedCertNeedsRenewal" = true ∧
    deferRightAfterAcq CM.Gen.C01.sk_Config_renewCert = true := by decide

/-- obtain's unlocked pre-check exists (the LTS's `pre` for obtain) and renew has none -/
theorem C01_tie_prechecks :
    (match splitAtAcq CM.Gen.C01.sk_Config_obtainCert with
     | some (pre, _) => pre.contains "cfg.storageHasCertResourcesAnyIssuer"
     | none => false) = true ∧
    (match splitAtAcq CM.Gen.C01.sk_Config_renewCert with
     | some (pre, _) => !pre.contains "cfg.loadCertResourceAnyIssuer"
     | none => false) = true := by decide

/-- manageOne loads first and only then obtains or renews -/
theorem C01_tie_manage_loads_first :
    before "cfg.CacheManagedCertificate" "cfg.ObtainCertSync" (acts CM.Gen.C01.sk_Config_manageOne) = true ∧
    before "cfg.CacheManagedCertificate" "cfg.RenewCertSync" (acts CM.Gen.C01.sk_Config_manageOne) = true := by decide

/-- the save is the transactional store of the three keys -/
theorem C01_tie_save_is_storeTx :
    (acts CM.Gen.C01.sk_Config_saveCertResource).contains "storeTx" = true ∧
    before (CM.Gen.C01.storeTxParam ++ ".Store") (CM.Gen.C01.storeTxParam ++ ".Delete") (acts CM.Gen.C01.sk_storeTx) = true := by decide

theorem C01_tie_lock_name : CM.Gen.C01.certIssueLockOp = "issue_cert" := by decide

end CM.Tie.C01
