/-
Ties of the FUNCTION TRANSLATOR (go/extract/fn.go): for each pure function of /repo that the
translator carries across whole (CM/Generated/Fn.lean, regenerated from the source on every
run), the hand-written model function used by the property theorems is PROVED EQUAL to the
translated one for ALL inputs. A change of the Go function that changes its meaning makes the
equality unprovable (the tie breaks; the differential, which also runs the generated definition,
searches for the failing input); a change that keeps its meaning but not its shape can break the
proof script too — then the check reports `no-failing-input-found`, as the brief prescribes.

Trusted: the translator and CM/Lib/GoLite.lean (the Lean reading of Go's statements and of the
white-listed part of package `strings`); both are exercised on every run by executing the
generated definitions in the driver against the real functions.
-/
import CM.Generated.Fn
import CM.Props.C03
import CM.Model.Lookup
namespace CM.Tie.FnC03
open CM.Go CM.Lookup

theorem c46 : Char.ofNat 46 = '.' := by decide

theorem split1_dot (x : Str) : strings_Split1 (Char.ofNat 46) x = splitDot x := by
  rw [c46]
  induction x with
  | nil => rfl
  | cons c r ih =>
    simp only [strings_Split1, splitDot, ih]
    by_cases h : c = '.'
    · simp [h]
    · simp only [h, if_false]
      cases splitDot r <;> rfl

theorem join_dot : ∀ xs : List Str, strings_Join xs (Go.s ".") = joinDot xs
  | [] => rfl
  | [_] => rfl
  | l :: m :: r => by
    have ih := join_dot (m :: r)
    simp only [strings_Join, joinDot] at ih ⊢
    rw [ih]; simp [Go.s]

/-- the loop body of `MatchWildcard` as the translator prints it -/
def mwBody (wildcard : Str) : Int → List Str → Step (List Str) Bool := fun i st =>
  let labels := st
  if ((Go.idx labels i) == (Go.s "")) then
    .next labels
  else
  let labels := Go.set labels i (Go.s "*")
  let candidate := (Go.strings_Join labels (Go.s "."))
  if (candidate == wildcard) then
    .ret true
  else
  .next labels

def fin : Step (List Str) Bool → Bool
  | .ret v => v
  | .next _ => false

theorem mw_loop (w : Str) : ∀ (rest pre : List Str),
    fin (forN (mwBody w) rest.length pre.length (pre ++ rest)) = mwLoop w pre rest
  | [], pre => by simp [forN, fin, mwLoop]
  | l :: rest, pre => by
    simp only [List.length_cons, forN, mwBody, idx_append_length, set_append_length, join_dot]
    by_cases hl : l = []
    · have ih := mw_loop w rest (pre ++ [l])
      simp only [List.length_append, List.length_cons, List.length_nil, List.append_assoc,
        List.cons_append, List.nil_append] at ih
      simp [hl, Go.s, mwLoop] at ih ⊢
      exact ih
    · have ih := mw_loop w rest (pre ++ [star])
      simp only [List.length_append, List.length_cons, List.length_nil, List.append_assoc,
        List.cons_append, List.nil_append] at ih
      simp only [star] at ih
      by_cases hc : joinDot (pre ++ ['*'] :: rest) = w
      · simp [hl, hc, Go.s, mwLoop, fin, star]
      · simp [hl, hc, Go.s, mwLoop, star] at ih ⊢
        exact ih

/-- the translated definition, with the loop body and the final `match` named (by `rfl`: this is
the generated text itself) -/
theorem gen_MatchWildcard_unfold (subject wildcard : Str) :
    CM.Gen.Fn.MatchWildcard subject wildcard =
      (if (strings_ToLower subject == strings_ToLower wildcard) then true
       else if (!(strings_Contains (strings_ToLower wildcard) (Go.s "*"))) then false
       else fin (forN (mwBody (strings_ToLower wildcard))
              (strings_Split1 (Char.ofNat 46) (strings_ToLower subject)).length 0
              (strings_Split1 (Char.ofNat 46) (strings_ToLower subject)))) := rfl

/-- **the model's `matchWildcard` IS the translated `MatchWildcard`** (on the lower-cased
arguments, which is where the model starts) — for all strings. -/
theorem C03_tie_fn_MatchWildcard (subject wildcard : Str) :
    CM.Gen.Fn.MatchWildcard subject wildcard
      = matchWildcard (strings_ToLower subject) (strings_ToLower wildcard) := by
  have hloop := mw_loop (strings_ToLower wildcard) (splitDot (strings_ToLower subject)) []
  simp only [List.nil_append, List.length_nil] at hloop
  have hs : Go.s "*" = ['*'] := rfl
  rw [gen_MatchWildcard_unfold, split1_dot, hs, strings_Contains_single, hloop]
  unfold matchWildcard
  by_cases h1 : strings_ToLower subject = strings_ToLower wildcard
  · simp [h1]
  · by_cases h2 : '*' ∈ strings_ToLower wildcard <;> simp [h1, h2]



/-- **the model's `expiresAt` IS the translated `expiresAt`** on a certificate (NotAfter truncated to the
second, plus one second), and the translated function returns the zero time for a nil certificate. -/
theorem C03_tie_fn_expiresAt (na : Int) :
    CM.Gen.Fn.expiresAt (some ⟨na⟩) = CM.Lookup.expiresAt na ∧ CM.Gen.Fn.expiresAt none = 0 := by
  constructor
  · unfold CM.Gen.Fn.expiresAt CM.Lookup.expiresAt CM.Lookup.sec
    simp only [Option.isNone_some, Bool.false_eq_true, if_false, deref, Option.getD_some, time_Add, time_Truncate]
    have h : ¬ ((1000000000 : Int) ≤ 0) := by omega
    simp only [h, if_false]
    show (na - na % 1000000000 + 1000000000 : Int) = na / 1000000000 * 1000000000 + 1000000000
    omega
  · rfl

/-- **the model's `normASCII` IS the translated `normalizedName`** (`strings.ToLower(strings.TrimSpace(..))`;
lower-casing on ASCII — for other input the harness hands the model Go's own result) -/
theorem C03_tie_fn_normalizedName (serverName : Str) :
    CM.Gen.Fn.normalizedName serverName = CM.Lookup.normASCII serverName := rfl

/-! ### the property theorem, about the printed definition -/

/-- **C03_covers_iff_matchWildcard, of the code as printed**: the definition translated from `MatchWildcard` on
this run accepts (subject, wildcard) iff, after lower-casing, the wildcard is the subject itself or the subject
with its leftmost 1…k labels replaced by `*` (subjects without empty labels). -/
theorem C03_fn_MatchWildcard_covers (subject wildcard : Str)
    (hn : ∀ l ∈ splitDot (strings_ToLower subject), l ≠ []) :
    CM.Gen.Fn.MatchWildcard subject wildcard = true ↔
      (strings_ToLower subject = strings_ToLower wildcard ∨
       ∃ k, 1 ≤ k ∧ k ≤ (splitDot (strings_ToLower subject)).length ∧
         strings_ToLower wildcard = wildAt (strings_ToLower subject) k) := by
  rw [C03_tie_fn_MatchWildcard]
  exact C03_covers_iff_matchWildcard _ _ hn

end CM.Tie.FnC03
