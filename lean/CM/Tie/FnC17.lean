/-
Ties of the FUNCTION TRANSLATOR (go/extract/fn.go): for each pure function of /repo that the
translator carries across whole (CM/Generated/Fn.lean, regenerated from the source on every
run), the hand-written model function used by the property theorems is PROVED EQUAL to the
translated one for ALL inputs. A change of the Go function that changes its meaning makes the
equality unprovable (the tie breaks; the differential, which also runs the generated definition,
searches for the failing input); a change that keeps its meaning but not its shape can break the
proof script too — then the check reports `no-failing-input-found`, as the brief prescribes.

Trusted: the translator and CM/Lib/GoLite.lean (the Lean reading of Go's statements and of the
white-listed part of package `strings`); both are exercised on every run by executing the
generated definitions in the driver against the real functions.
-/
import CM.Generated.Fn
import CM.Props.C17
import CM.Model.RateLimit
namespace CM.Tie.FnC17
open CM.Go

/-! ### `RingBufferRateLimiter.advance` / `SetMaxEvents` (methods: receiver fields as a structure, three-clause
loops, `break`, `panic`) -/

section RL

open CM.RateLimit CM.Gen.Fn

abbrev T := Option Nat

/-- a model state's ring, cursor and window as the translated struct -/
def toRL (ring : List T) (c W : Nat) : RingBufferRateLimiter T := ⟨Int.ofNat W, ring, Int.ofNat c⟩

theorem advance_eq (ring : List T) (c W : Nat) :
    RingBufferRateLimiter_advance (toRL ring c W) = toRL ring (advance ring.length c) W := by
  unfold RingBufferRateLimiter_advance advance toRL lenL
  by_cases h : c + 1 ≥ ring.length
  · simp [h]; intro h2; omega
  · simp [h]; intro h2; omega

/-- the fast-forward loop's body as the translator prints it -/
def ffwdBody : Int → RingBufferRateLimiter T → Step (RingBufferRateLimiter T) (Option (RingBufferRateLimiter T)) :=
  fun i st => Step.next (RingBufferRateLimiter_advance st)

/-- the fast-forward loop is `advanceN` -/
theorem ffwd_loop (ring : List T) (W : Nat) : ∀ (k i c : Nat),
    forN ffwdBody k i (toRL ring c W) = .next (toRL ring (advanceN k ring.length c) W)
  | 0, _, _ => rfl
  | k + 1, i, c => by
    simp only [forN, ffwdBody, advance_eq, advanceN]
    exact ffwd_loop ring W k (i + 1) _

/-- the copy loop's body as the translator prints it -/
def copyBody (startCursor : Int) : Int → List T × RingBufferRateLimiter T → Step3 (List T × RingBufferRateLimiter T) (Option (RingBufferRateLimiter T)) :=
  fun i st_1 =>
    if ((RingBufferRateLimiter_advance st_1.snd).cursor == startCursor) = true then
      Step3.brk (Go.set st_1.fst i (idx st_1.snd.ring st_1.snd.cursor), RingBufferRateLimiter_advance st_1.snd)
    else
      Step3.next (Go.set st_1.fst i (idx st_1.snd.ring st_1.snd.cursor), RingBufferRateLimiter_advance st_1.snd)

theorem idx_ring (ring : List T) (c : Nat) : Go.idx ring (Int.ofNat c) = ring.getD c none := by
  simp [Go.idx]
  rfl

theorem copyBody_step (ring : List T) (W start k : Nat) (pre : List T) (c : Nat) :
    copyBody (Int.ofNat start) (Int.ofNat pre.length) (pre ++ List.replicate (k + 1) none, toRL ring c W) =
      if advance ring.length c = start
      then .brk (pre ++ ring.getD c none :: List.replicate k none, toRL ring (advance ring.length c) W)
      else .next (pre ++ ring.getD c none :: List.replicate k none, toRL ring (advance ring.length c) W) := by
  have hset : Go.set (pre ++ List.replicate (k + 1) (none : T)) (Int.ofNat pre.length) (ring.getD c none)
      = pre ++ ring.getD c none :: List.replicate k none := by
    rw [List.replicate_succ]; exact set_append_length pre none _ _
  have hidx : Go.idx (toRL ring c W).ring (toRL ring c W).cursor = ring.getD c none := idx_ring ring c
  have hcur : ∀ c', ((toRL ring c' W).cursor == Int.ofNat start) = decide (c' = start) := by
    intro c'
    by_cases hc : c' = start
    · subst hc; simp [toRL]
    · simp [toRL, hc]; omega
  unfold copyBody
  simp only [hidx, hset, advance_eq, hcur]
  by_cases hb : advance ring.length c = start <;> simp [hb]

/-- the copy loop writes `copyLoop`'s values behind what was written before and leaves the rest zero -/
theorem copy_loop (ring : List T) (W start : Nat) : ∀ (k : Nat) (pre : List T) (c : Nat),
    ∃ c', forB (copyBody (Int.ofNat start)) k pre.length (pre ++ List.replicate k none, toRL ring c W)
      = .next (pre ++ copyLoop ring start k c ++ List.replicate (k - (copyLoop ring start k c).length) none,
               toRL ring c' W)
  | 0, pre, c => ⟨c, by simp [forB, copyLoop]⟩
  | k + 1, pre, c => by
    by_cases hb : advance ring.length c = start
    · refine ⟨advance ring.length c, ?_⟩
      simp only [forB, copyBody_step, hb, if_true, copyLoop]
      simp
    · obtain ⟨c', ih⟩ := copy_loop ring W start k (pre ++ [ring.getD c none]) (advance ring.length c)
      refine ⟨c', ?_⟩
      simp only [forB, copyBody_step, hb, if_false, copyLoop]
      simp only [List.length_append, List.length_cons, List.length_nil, List.append_assoc,
        List.cons_append, List.nil_append, Nat.zero_add] at ih
      rw [ih]
      simp

/-- **the model's `setMax` step IS the translated `SetMaxEvents`**: for every ring, cursor, window and new
limit — `none` = the panic, otherwise the struct afterwards (ring `resize`d, cursor 0, or untouched). -/
theorem C17_tie_fn_SetMaxEvents (ring : List T) (c W n : Nat) :
    RingBufferRateLimiter_SetMaxEvents (toRL ring c W) (Int.ofNat n) =
      (if n = 0 ∧ W ≠ 0 then none
       else if n = ring.length then some (toRL ring c W)
       else some (toRL (resize ring c n) 0 W)) := by
  have hw : ((toRL ring c W).window != (0 : Int)) = decide (W ≠ 0) := by
    by_cases h : W = 0 <;> simp [toRL, h]
  have hn : ((Int.ofNat n) == (0 : Int)) = decide (n = 0) := by
    by_cases h : n = 0 <;> simp [h]
  have hl : ((Int.ofNat n) == Go.lenL (toRL ring c W).ring) = decide (n = ring.length) := by
    by_cases h : n = ring.length
    · simp [toRL, lenL, h]
    · simp [toRL, lenL, h]; omega
  have hk : Int.toNat (Go.lenL (toRL ring c W).ring - Int.ofNat n) = ring.length - n := by
    simp [toRL, lenL]
  have hd : (default : T) = none := rfl
  have hmk : (Go.make (Int.ofNat n) : List T) = List.replicate n none := by simp [Go.make, hd]
  have hmn : Int.toNat (Go.lenL (List.replicate n (none : T))) = n := by simp [lenL]
  have hff := ffwd_loop ring W (ring.length - n) 0 c
  obtain ⟨c', hcp⟩ := copy_loop ring W (advanceN (ring.length - n) ring.length c) n []
    (advanceN (ring.length - n) ring.length c)
  unfold ffwdBody at hff
  unfold copyBody at hcp
  simp only [List.nil_append, List.length_nil] at hcp
  unfold RingBufferRateLimiter_SetMaxEvents
  simp only [hw, hn, hl, hk, hmk, hmn, hff]
  by_cases h1 : n = 0 ∧ W ≠ 0
  · simp [h1.1, h1.2]
  · by_cases h2 : n = ring.length
    · by_cases hW : W = 0
      · simp [h2, hW]
      · have hn0 : ¬ n = 0 := fun h => h1 ⟨h, hW⟩
        simp [hW, hn0, ← h2]
    · have h1' : ¬ (decide (W ≠ 0) && decide (n = 0)) = true := by
        simp; intro hW; exact fun h => h1 ⟨h, hW⟩
      simp only [h1', h2, h1, if_false, decide_false, Bool.false_eq_true]
      have hcur : ∀ x, (toRL ring x W).cursor = Int.ofNat x := fun _ => rfl
      have hring : ∀ x, (toRL ring x W).ring = ring := fun _ => rfl
      have hwin : ∀ (rg : List T) x, (toRL rg x W).window = Int.ofNat W := fun _ _ => rfl
      simp only [hcur, hring, hcp, hwin]
      unfold resize
      by_cases hlen : ring.length > 0
      · have : decide (lenL ring > 0) = true := by
          have : (Int.ofNat ring.length) > 0 := by simp; omega
          simpa [lenL] using this
        simp [this, hlen, toRL]
      · have : decide (lenL ring > 0) = false := by
          have h0 : ring.length = 0 := by omega
          simp [lenL, h0]
        simp [this, hlen, toRL]


end RL

/-! ### the property theorem, about the printed definition -/

section RLprops
open CM.RateLimit CM.Gen.Fn

/-- **C17_resize_keeps_newest, of the code as printed**: an effective `SetMaxEvents(n)` (no panic, `n` differs
from the current limit) on a ring whose cursor is in range does not panic and installs — with cursor 0, the window
untouched — the newest `n` timestamps in their order when shrinking, all of them followed by free slots when growing. -/
theorem C17_fn_SetMaxEvents_keeps_newest (ring : List T) (c W n : Nat) (hc : CurOK ring c)
    (hp : ¬ (n = 0 ∧ W ≠ 0)) (hd : n ≠ ring.length) :
    ∃ r', RingBufferRateLimiter_SetMaxEvents (toRL ring c W) (Int.ofNat n) = some r' ∧
      r'.cursor = 0 ∧ r'.window = Int.ofNat W ∧ r'.ring.length = n ∧
      r'.ring = (if n ≤ ring.length then (view ring c).drop (ring.length - n)
                 else view ring c ++ List.replicate (n - ring.length) none) := by
  refine ⟨toRL (resize ring c n) 0 W, ?_, rfl, rfl, ?_, ?_⟩
  · rw [C17_tie_fn_SetMaxEvents]; simp [hp, hd]
  · exact (C17_resize_keeps_newest hc n).2
  · exact (C17_resize_keeps_newest hc n).1

/-- … and it panics exactly when asked for no events with a non-zero window -/
theorem C17_fn_SetMaxEvents_panics_iff (ring : List T) (c W n : Nat) :
    RingBufferRateLimiter_SetMaxEvents (toRL ring c W) (Int.ofNat n) = none ↔ (n = 0 ∧ W ≠ 0) := by
  rw [C17_tie_fn_SetMaxEvents]
  by_cases hp : n = 0 ∧ W ≠ 0
  · simp [hp]
  · by_cases hd : n = ring.length <;> simp [hp, hd]

end RLprops

end CM.Tie.FnC17
