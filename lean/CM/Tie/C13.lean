import CM.Generated.C13
import CM.Lib.SkelHS
import CM.Model.SingleFlight
import CM.Model.Handshake
/-!
Tie of the C13 model to /repo's source: the three single-flight sites have the structural
facts the LTS's atomic steps rely on, and the time-outs are the model's.
-/
namespace CM.Tie.C13
open CM.Skel CM.SkelHS CM.Gen.C13 CM.SingleFlight

def loadMu := "certLoadWaitChansMu"
def loadMap := "certLoadWaitChans"
def obtMu := "obtainCertWaitChansMu"
def obtMap := "obtainCertWaitChans"

/-- load site: the map is read, and the new channel inserted, in one critical section of the
map's mutex; close and delete lie in one critical section; every access is under the mutex;
nothing blocking happens under it (`enterLoad` and `ret` are atomic steps of the LTS) -/
theorem C13_tie_load_cs : single_flight_cs loadMu loadMap sk_Config_getCertDuringHandshake = true := by decide

/-- obtain site (`enterObtain`, `finish`) -/
theorem C13_tie_obtain_cs : single_flight_cs obtMu obtMap sk_Config_obtainOnDemandCertificate = true := by decide

/-- renew site, the closure renewAndReload in the foreground and as goroutine included
(`enterRenew`, `finish`) -/
theorem C13_tie_renew_cs : single_flight_cs obtMu obtMap sk_Config_renewDynamicCertificate = true := by decide

/-- after a registration the unblock (close) is reached on every path that leaves the function
(load site: deferred; obtain site: before the return; renew site: in renewAndReload on the
denial path and after the renewal, foreground or goroutine) — panics apart (DESIGN §9) -/
theorem C13_tie_unblock_on_every_path :
    unblock_on_every_path loadMap sk_Config_getCertDuringHandshake = true ∧
    unblock_on_every_path obtMap sk_Config_obtainOnDemandCertificate = true ∧
    unblock_on_every_path obtMap sk_Config_renewDynamicCertificate = true := by decide

/-- every `select` that waits has a time-out arm (and each site has exactly one such select) -/
theorem C13_tie_select_timeout :
    select_has_timeout_arm sk_Config_getCertDuringHandshake = true ∧ countWaits sk_Config_getCertDuringHandshake false = 1 ∧
    select_has_timeout_arm sk_Config_obtainOnDemandCertificate = true ∧ countWaits sk_Config_obtainOnDemandCertificate false = 1 ∧
    select_has_timeout_arm sk_Config_renewDynamicCertificate = true ∧ countWaits sk_Config_renewDynamicCertificate false = 1 := by
  decide

/-- the waiter and worker time-outs are the model's -/
theorem C13_tie_timeouts :
    timers_Config_getCertDuringHandshake = [waiterTimeout] ∧
    timers_Config_obtainOnDemandCertificate = [waiterTimeout] ∧
    timers_Config_renewDynamicCertificate = [waiterTimeout] ∧
    ctxTimeouts_Config_getCertDuringHandshake = [] ∧
    ctxTimeouts_Config_obtainOnDemandCertificate = [obtainTimeout] ∧
    ctxTimeouts_Config_renewDynamicCertificate = [renewBgTimeout, renewFgTimeout] := by decide

/-- attempts of doWithRetry that start before `d` has elapsed: 1 + the number of prefix sums
of retryIntervals that are ≤ d -/
def attemptsWithin (d : Int) : List Int → Int → Nat
  | [], _ => 1
  | i :: rest, acc => if acc + i ≤ d then 1 + attemptsWithin d rest (acc + i) else 1

/-- the bound on retries used by the effect-program model (C02) is what fits into the longest
worker time-out -/
theorem C13_tie_attempts : attemptsWithin renewBgTimeout retryIntervals 0 = CM.Handshake.maxAttempts := by decide

/-- the D9 repair is in place: the load site's critical section can be left by the unlock
alone (the re-entering owner neither waits nor registers) — the `fix = true` of the LTS -/
theorem C13_tie_owner_exempt : hasBareUnlockBranch loadMu sk_Config_getCertDuringHandshake = true := by decide

/-- the predicates do reject the mutations they are meant for -/
example : single_flight_cs "mu" "m"
    (.seq (.act "mu.Lock") (.seq (.act "mapread:m") (.seq (.act "mu.Unlock")
      (.seq (.act "mu.Lock") (.seq (.act "mapwrite:m") (.act "mu.Unlock")))))) = false := by decide
example : single_flight_cs "mu" "m"       -- close moved after the unlock
    (.seq (.act "mu.Lock") (.seq (.act "mapdelete:m") (.seq (.act "mu.Unlock") (.act "close:wait")))) = false := by decide
example : single_flight_cs "mu" "m"       -- delete forgotten
    (.seq (.act "mu.Lock") (.seq (.act "close:wait") (.act "mu.Unlock"))) = false := by decide
example : single_flight_cs "mu" "m"
    (.seq (.act "mu.Lock") (.seq (.act "close:wait") (.seq (.act "mapdelete:m") (.act "mu.Unlock")))) = true := by decide
example : unblock_on_every_path "m"       -- an error path returns without unblocking
    (.seq (.act "mapwrite:m") (.seq (.br "err != nil" .ret .skip) (.seq (.act "close:wait") .ret))) = false := by decide
example : select_has_timeout_arm (.br "select <-wait" (.act "recv:wait") .skip) = false := by decide

end CM.Tie.C13
