import CM.Generated.C19
import CM.Model.Async
/-!
Tie of the C19 models to `/repo`'s current source. `CM/Generated/C19.lean` is re-extracted from
async.go, acmeissuer.go and acmeclient.go on every run; each theorem below states that a
regenerated fact is the one the model (and hence every C19 theorem) is about.

* numbers and tables: the back-off table, the maximum duration, `maxConcurrentJobs ≥ 1`;
* named structural predicates over the ordered action lists of `jobManager.worker` (helper
  methods inlined) and `jobManager.Submit`: maps and counters only under the mutex; the
  queue-empty test and `activeWorkers--` in one critical section; recover + name release in a
  deferred function of the per-job scope inside the loop (the D15 repair); check-then-insert
  of the name, enqueue and worker spawn in one critical section of `Submit`;
* the statements of `doWithRetry` the model follows (local names replaced by roles);
* for (c) — which has no behavioural tie for `Issue` itself, only for `newACMEClient` /
  `usingTestCA` — the decisive expressions of `Issue`, `doIssue`, `newACMEClient`,
  `usingTestCA`, `newBasicACMEClient`.
-/
namespace CM.Tie.C19
open CM.Async

/-! ### numbers and tables -/

/-- the generated back-off table is the model's -/
theorem C19_table_tie : CM.Gen.C19.retryIntervals = table := by decide

theorem C19_tie_max_duration : CM.Gen.C19.maxRetryDuration = maxDur := by decide

/-- the package's job manager satisfies the hypothesis `1 ≤ m` of `C19_jobs_run` -/
theorem C19_tie_max_jobs : 1 ≤ CM.Gen.C19.maxConcurrentJobs := by decide

/-! ### job manager: structural predicates over action lists -/

def isOpen (t : String) : Bool :=
  t == "for{" || t == "if{" || t == "else{" || t == "defer{" || t == "scope{" || t == "select{" || t == "case{"

def isAccess (t : String) : Bool :=
  ["r:queue", "w:queue", "r:names", "w:names", "del:names",
   "r:activeWorkers", "inc:activeWorkers", "dec:activeWorkers"].contains t

/-- state of the lock-discipline scan: is the mutex held; did the current block return;
enclosing blocks (held at entry, returned-flag at entry, kind: 0 branch/loop, 1 deferred
function, 2 inlined scope); no unguarded access so far -/
structure Scan where
  held : Bool
  term : Bool
  stack : List (Bool × Bool × Nat)
  ok : Bool

def scanStep (s : Scan) (t : String) : Scan :=
  if t == "lock" then { s with held := true }
  else if t == "unlock" then { s with held := false }
  else if t == "return" then { s with term := true }
  else if t == "defer{" then
    -- a deferred function runs at exit, with the mutex in an unknown state: assume not held
    { held := false, term := false, stack := (s.held, s.term, 1) :: s.stack, ok := s.ok }
  else if t == "scope{" then { s with term := false, stack := (s.held, s.term, 2) :: s.stack }
  else if isOpen t then { s with term := false, stack := (s.held, s.term, 0) :: s.stack }
  else if t == "}" then
    match s.stack with
    | [] => { s with ok := false }
    | (h0, t0, k) :: rest =>
      if k = 1 then { held := h0, term := t0, stack := rest, ok := s.ok }
      else if k = 2 then { held := s.held, term := t0, stack := rest, ok := s.ok }
      else
        -- a block that returned does not fall through; otherwise join with the skipped path
        { held := if s.term then h0 else (s.held && h0), term := t0, stack := rest, ok := s.ok }
  else if isAccess t then { s with ok := s.ok && s.held }
  else s

/-- every access to queue / names / activeWorkers happens with the mutex held -/
def mapsOnlyUnderMu (toks : List String) : Bool :=
  let s := toks.foldl scanStep { held := false, term := false, stack := [], ok := true }
  s.ok && s.stack.isEmpty

/-- split off a balanced block body: tokens up to the matching "}" and the rest -/
def splitBlock : Nat → List String → List String → Option (List String × List String)
  | _, _, [] => none
  | d, acc, t :: r =>
    if t == "}" then (if d = 0 then some (acc.reverse, r) else splitBlock (d - 1) (t :: acc) r)
    else if isOpen t then splitBlock (d + 1) (t :: acc) r
    else splitBlock d (t :: acc) r

/-- a per-job scope: before the job is called, a deferred function is installed that recovers
and deletes the name -/
def scopeOK : List String → Bool
  | [] => false
  | t :: r =>
    if t == "defer{" then
      match splitBlock 0 [] r with
      | some (d, rest) => d.contains "recover" && d.contains "del:names" && rest.contains "calljob"
      | none => false
    else if t == "calljob" then false
    else scopeOK r

/-- the job is run in a scope of its own inside the worker loop, and that scope is `scopeOK`
(so a panicking job releases its name and the loop goes on) -/
def releasePerJob : Bool → List String → Bool
  | _, [] => false
  | inFor, t :: r =>
    if t == "scope{" && inFor then
      match splitBlock 0 [] r with
      | some (body, _) => scopeOK body || releasePerJob inFor r
      | none => false
    else releasePerJob (inFor || t == "for{") r

/-- the job is called nowhere outside such a scope -/
def jobOnlyInScope : Nat → List String → Bool
  | _, [] => true
  | d, t :: r =>
    if t == "scope{" then jobOnlyInScope (d + 1) r
    else if t == "calljob" then decide (0 < d) && jobOnlyInScope d r
    else jobOnlyInScope d r

/-- `activeWorkers--` happens exactly once, with the mutex held since a read of the queue (the
emptiness test): a worker never exits while a job is queued -/
def exitAtomic (toks : List String) : Bool :=
  let r := toks.foldl (fun (st : Bool × Bool × Bool × Nat) t =>
    let (held, saw, ok, n) := st
    if t == "lock" then (true, false, ok, n)
    else if t == "unlock" then (false, false, ok, n)
    else if t == "r:queue" then (held, held, ok, n)
    else if t == "dec:activeWorkers" then (held, saw, ok && held && saw, n + 1)
    else st) (false, false, true, 0)
  r.2.2.1 && r.2.2.2 == 1

/-- contiguous sub-list -/
def hasSub (pat : List String) : List String → Bool
  | [] => pat.isEmpty
  | t :: r => pat.isPrefixOf (t :: r) || hasSub pat r

theorem C19_tie_worker_guarded : mapsOnlyUnderMu CM.Gen.C19.workerActions = true := by decide

theorem C19_tie_submit_guarded : mapsOnlyUnderMu CM.Gen.C19.submitActions = true := by decide

/-- the D15 repair is in place: recover and name release are deferred per job, inside the loop -/
theorem C19_tie_release_per_job :
    releasePerJob false CM.Gen.C19.workerActions = true ∧
    jobOnlyInScope 0 CM.Gen.C19.workerActions = true := by decide

/-- the model's `workerExit` is one atomic step (test and decrement under one lock hold), and
the only place where `activeWorkers` goes down -/
theorem C19_tie_worker_exit_atomic : exitAtomic CM.Gen.C19.workerActions = true := by decide

/-- the worker dequeues (read head, write tail) under the lock that tested emptiness -/
theorem C19_tie_worker_take :
    hasSub ["}", "r:queue", "r:queue", "w:queue", "unlock"] CM.Gen.C19.workerActions = true := by decide

/-- `Submit` is one critical section (`Lock` + deferred `Unlock`, no other unlock); the duplicate
test and the insertion of the name, the enqueue, and the guarded worker spawn follow in that
order, as in the model's `submit` step -/
theorem C19_tie_submit_shape :
    CM.Gen.C19.submitActions.take 2 = ["lock", "defer-unlock"] ∧
    CM.Gen.C19.submitActions.contains "unlock" = false ∧
    hasSub ["r:names", "if{", "return", "}", "w:names", "}", "r:queue", "w:queue",
            "r:activeWorkers", "if{", "inc:activeWorkers", "go:worker", "}"] CM.Gen.C19.submitActions = true := by
  decide

/-! ### doWithRetry: the statements the model follows -/

/-- the attempts counter lives in the context, the index starts at -1 -/
theorem C19_tie_retry_init :
    hasSub ["var attempts", "ctx = context.WithValue(ctx, AttemptsCtxKey, &attempts)",
            "start, idx := time.Now(), -1"] CM.Gen.C19.retryActions = true := by decide

/-- wait = 0 unless idx ≥ 0, then the table entry; then a timer raced against cancellation,
which returns `context.Canceled` -/
theorem C19_tie_retry_wait :
    hasSub ["var wait", "if{", "cond:idx >= 0", "wait = table[idx]", "}", "timer := time.NewTimer(wait)",
            "select{", "case{", "comm:<-ctx.Done()", "timer.Stop()", "return context.Canceled", "}",
            "case{", "comm:<-timer.C", "err = f(ctx)", "attempts++"] CM.Gen.C19.retryActions = true := by decide

/-- `attempts++` directly follows the call of `f` (so `f` sees 0, 1, 2, …) -/
theorem C19_tie_retry_attempts_after_f :
    hasSub ["err = f(ctx)", "attempts++"] CM.Gen.C19.retryActions = true ∧
    (CM.Gen.C19.retryActions.filter (· == "attempts++")).length = 1 := by decide

/-- success / cancellation error / ErrNoRetry return at once; the index increment saturates at
the last entry; past the maximum duration the loop gives up and returns the last error -/
theorem C19_tie_retry_classify :
    hasSub ["if{", "cond:err == nil || errors.Is(err, context.Canceled)", "return err", "}",
            "var errNoRetry", "if{", "cond:errors.As(err, &errNoRetry)", "return err", "}",
            "if{", "cond:idx < len(table)-1", "idx++", "}",
            "if{", "cond:time.Since(start) < max", "}", "else{", "return err", "}"]
      CM.Gen.C19.retryActions = true ∧
    (CM.Gen.C19.retryActions.filter (· == "idx++")).length = 1 := by decide

/-- async obtain and renew go through the retry loop; ManageAsync and maintenance submit jobs -/
theorem C19_tie_async_paths :
    CM.Gen.C19.retryCallers = ["Config.obtainCert", "Config.renewCert"] ∧
    CM.Gen.C19.submitCallers.contains "Config.manageOne" = true ∧
    CM.Gen.C19.submitCallers.contains "Cache.queueRenewalTask" = true := by decide

/-! ### (c) Issue / doIssue / newACMEClient -/

/-- `Issue`: `isRetry := attempts > 0`; the first order is placed with the real attempt number,
and an error from it is returned as it is (retryable) -/
theorem C19_tie_issue_first :
    CM.Gen.C19.issueIsRetry = "attempts > 0" ∧
    CM.Gen.C19.issueAttemptArgs = ["attempts", "0"] ∧
    CM.Gen.C19.issueAfterFirst = ["if{", "cond:err != nil", "return nil, err", "}"] := by decide

/-- the second order (attempt number 0 ⇒ production directory, throttled) is placed exactly when
`isRetry && usedTestCA && am.CA != am.TestCA`; its certificate overwrites the test one, and
`cert` is what `Issue` returns -/
theorem C19_tie_issue_second :
    CM.Gen.C19.issueSecondGuard = ["am.CA != am.TestCA", "isRetry", "usedTestCA"] ∧
    CM.Gen.C19.issueCallLhs = ["cert, usedTestCA, err", "cert, _, err"] ∧
    CM.Gen.C19.issueFinalReturn = "cert, err" := by decide

/-- a 429 problem from production is returned as it is (retryable), any other failure is
wrapped in `ErrNoRetry` -/
theorem C19_tie_issue_errors :
    CM.Gen.C19.issueSecondFailure =
      ["if{", "cond:err != nil", "var problem", "if{", "cond:errors.As(err, &problem)",
       "if{", "cond:problem.Status == http.StatusTooManyRequests", "return nil, err", "}", "}",
       "return nil, ErrNoRetry{err}", "}"] := by decide

/-- `doIssue`: `useTestCA := attempts > 0` selects the client; the throttle is guarded by
`!useTestCA`; the second result is `client.usingTestCA()` -/
theorem C19_tie_doissue :
    CM.Gen.C19.doIssueUseTestCA = "attempts > 0" ∧ CM.Gen.C19.doIssueClientArg = "useTestCA" ∧
    CM.Gen.C19.doIssueUsing = "client.usingTestCA()" ∧ CM.Gen.C19.doIssueThrottleGuard = ["!useTestCA"] ∧
    CM.Gen.C19.doIssueSuccessReturn = "ic, usingTestCA, nil" := by decide

/-- `newACMEClient` starts from the production client and switches the directory to `TestCA`
only if `useTestCA && TestCA != ""`; `usingTestCA` compares the directory with a non-empty
`TestCA`; the production directory is `CA` (default if empty, "https://" prepended if it has
no scheme) -/
theorem C19_tie_client_directory :
    CM.Gen.C19.newClientFirst = "iss.newBasicACMEClient()" ∧
    CM.Gen.C19.newClientDirGuard = ["iss.TestCA != \"\"", "useTestCA"] ∧
    CM.Gen.C19.newClientDirAssign = "client.Client.Directory = iss.TestCA" ∧
    CM.Gen.C19.usingTestCAConj = ["c.acmeClient.Directory == c.iss.TestCA", "c.iss.TestCA != \"\""] ∧
    CM.Gen.C19.basicClientURL =
      -- (the scheme default and the HTTPS rule moved into `secureCAURL` with fix D19; they are C20's tie)
      ["caURL := iss.CA", "if{", "cond:caURL == \"\"", "caURL = DefaultACME.CA", "}",
       "caURL, err := secureCAURL(caURL)"] ∧
    CM.Gen.C19.basicClientDirectory = "caURL" := by decide

/-! ### the predicates are not vacuous: they reject the unrepaired worker (D15) -/

/-- action list of `jobManager.worker` before the D15 repair (recover at goroutine level, name
released only after a normal return) -/
def unfixedWorker : List String :=
  ["defer{", "recover", "if{", "}", "}", "for{", "lock", "r:queue", "if{", "dec:activeWorkers", "unlock",
   "return", "}", "r:queue", "r:queue", "w:queue", "unlock", "calljob", "if{", "}", "if{", "lock",
   "del:names", "unlock", "}", "}"]

example : releasePerJob false unfixedWorker = false ∧ jobOnlyInScope 0 unfixedWorker = false ∧
    mapsOnlyUnderMu unfixedWorker = true := by decide

/-- … and a worker that touches the queue after unlocking -/
example : mapsOnlyUnderMu ["for{", "lock", "r:queue", "unlock", "w:queue", "}"] = false := by decide

end CM.Tie.C19
