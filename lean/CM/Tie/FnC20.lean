/-
Ties of the FUNCTION TRANSLATOR (go/extract/fn.go): for each pure function of /repo that the
translator carries across whole (CM/Generated/Fn.lean, regenerated from the source on every
run), the hand-written model function used by the property theorems is PROVED EQUAL to the
translated one for ALL inputs. A change of the Go function that changes its meaning makes the
equality unprovable (the tie breaks; the differential, which also runs the generated definition,
searches for the failing input); a change that keeps its meaning but not its shape can break the
proof script too — then the check reports `no-failing-input-found`, as the brief prescribes.

Trusted: the translator and CM/Lib/GoLite.lean (the Lean reading of Go's statements and of the
white-listed part of package `strings`); both are exercised on every run by executing the
generated definitions in the driver against the real functions.
-/
import CM.Generated.Fn
import CM.Model.Account
namespace CM.Tie.FnC20
open CM.Go

/-! ### `SubjectIsInternal` (the host classification behind C20's HTTPS rule) -/

/-- **the model's `internalHost` IS the translated `SubjectIsInternal`**: for every behaviour of the two
functions that are not translated (`hostOnly`, `isInternalIP` — parameters of the translated
definition), every subject and every byte list `ip` for which `isInternalIP` answers what the model's
`internalIP` answers, the translated function returns what the model returns on the normalised host
(`strings.ToLower(strings.TrimSuffix(hostOnly(subj), "."))`, computed by Go and handed to the model
as an input). -/
theorem C20_tie_fn_SubjectIsInternal (hostOnly : Str → Str) (isInternalIP : Str → Bool)
    (subj : Str) (ip : List Nat)
    (hip : isInternalIP (strings_ToLower (strings_TrimSuffix (hostOnly subj) (Go.s ".")))
            = CM.Account.internalIP ip) :
    CM.Gen.Fn.SubjectIsInternal hostOnly isInternalIP subj
      = CM.Account.internalHost (strings_ToLower (strings_TrimSuffix (hostOnly subj) (Go.s "."))) ip := by
  unfold CM.Gen.Fn.SubjectIsInternal CM.Account.internalHost CM.Account.internalSuffixes
  simp only [hip, List.any_cons, List.any_nil, Bool.or_false, CM.Account.endsWith, strings_HasSuffix,
    Bool.or_assoc]
  rfl

end CM.Tie.FnC20
