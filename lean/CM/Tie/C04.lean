import CM.Generated.C04
import CM.Model.Renew
/-!
Tie of the C04 model to `certificates.go` (regenerated on every run): the three ratio
checks and their order, the emergency fractions, the default ratio and the margin factor
are the ones the model uses. (The strings in `CM.Gen.C04` describing the shape of the
statements are recorded as facts; the behavioural differential under virtual time, not
their spelling, decides.)
-/
namespace CM.Tie.C04
open CM.Renew

/-- the ratio checks are, in order: ARI emergency 1/20, the configured ratio, emergency 1/50 -/
theorem C04_tie_fractions :
    CM.Gen.C04.windowFractions = [(1, ariEmergencyDen), (0, 0), (1, emergencyDen)] := by decide

theorem C04_tie_default_ratio : CM.Gen.C04.defaultRatio = (1, defaultRatioDen) := by decide

theorem C04_tie_margin_factor : CM.Gen.C04.marginFactor = intervalFactor := by decide

end CM.Tie.C04
