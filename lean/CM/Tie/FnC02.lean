/-
Ties of the FUNCTION TRANSLATOR (go/extract/fn.go): for each pure function of /repo that the
translator carries across whole (CM/Generated/Fn.lean, regenerated from the source on every
run), the hand-written model function used by the property theorems is PROVED EQUAL to the
translated one for ALL inputs. A change of the Go function that changes its meaning makes the
equality unprovable (the tie breaks; the differential, which also runs the generated definition,
searches for the failing input); a change that keeps its meaning but not its shape can break the
proof script too — then the check reports `no-failing-input-found`, as the brief prescribes.

Trusted: the translator and CM/Lib/GoLite.lean (the Lean reading of Go's statements and of the
white-listed part of package `strings`); both are exercised on every run by executing the
generated definitions in the driver against the real functions.
-/
import CM.Generated.Fn
import CM.Model.Lookup
namespace CM.Tie.FnC02
open CM.Go CM.Lookup

/-! ### `SubjectQualifiesForCert` -/

theorem isSpace_eq : Go.isSpace = Lookup.isSpace := rfl

theorem all_of_dropWhile (p : Char → Bool) : ∀ x : Str, (∀ c ∈ x.dropWhile p, p c = true) → ∀ c ∈ x, p c = true
  | [], _ => by simp
  | a :: r, h => by
    by_cases ha : p a = true
    · simp only [List.dropWhile_cons, ha, if_true] at h
      intro c hc
      rcases List.mem_cons.mp hc with rfl | hc
      · exact ha
      · exact all_of_dropWhile p r h c hc
    · simp only [List.dropWhile_cons, ha] at h
      exact absurd (h a (by simp)) ha

theorem dropWhile_nil_of_all (p : Char → Bool) : ∀ x : Str, (∀ c ∈ x, p c = true) → x.dropWhile p = []
  | [], _ => rfl
  | a :: r, h => by
    have ha : p a = true := h a (by simp)
    simp only [List.dropWhile_cons, ha, if_true]
    exact dropWhile_nil_of_all p r (fun c hc => h c (List.mem_cons_of_mem _ hc))

theorem all_of_dropWhile_nil (p : Char → Bool) : ∀ x : Str, x.dropWhile p = [] → ∀ c ∈ x, p c = true
  | [], _ => by simp
  | a :: r, h => by
    by_cases ha : p a = true
    · simp only [List.dropWhile_cons, ha, if_true] at h
      intro c hc
      rcases List.mem_cons.mp hc with rfl | hc
      · exact ha
      · exact all_of_dropWhile_nil p r h c hc
    · simp [ha] at h

theorem beq_comm_char (a b : Char) : (a == b) = (b == a) := by
  by_cases h : a = b
  · subst h; rfl
  · have h' : ¬ b = a := fun e => h e.symm
    rw [beq_eq_false_iff_ne.mpr h, beq_eq_false_iff_ne.mpr h']

theorem trimSpace_ne_nil (x : Str) :
    (strings_TrimSpace x != Go.s "") = x.any (fun c => !Lookup.isSpace c) := by
  have hs : Go.s "" = [] := rfl
  rw [hs, ← isSpace_eq]
  by_cases h : ∀ c ∈ x, Go.isSpace c = true
  · have h1 : x.dropWhile Go.isSpace = [] := dropWhile_nil_of_all _ _ h
    have h2 : x.any (fun c => !Go.isSpace c) = false := by
      simp only [List.any_eq_false, Bool.not_eq_true']
      intro c hc; simp [h c hc]
    simp [strings_TrimSpace, h1, h2]
  · have h2 : x.any (fun c => !Go.isSpace c) = true := by
      simp only [List.any_eq_true]
      apply Classical.byContradiction
      intro hno
      apply h
      intro c hc
      cases hsp : Go.isSpace c
      · exact absurd ⟨c, hc, by simp [hsp]⟩ hno
      · rfl
    have h3 : strings_TrimSpace x ≠ [] := by
      intro h0
      apply h
      unfold strings_TrimSpace at h0
      have h4 := List.reverse_eq_nil_iff.mp h0
      have h5 := all_of_dropWhile_nil _ _ h4
      apply all_of_dropWhile
      intro c hc
      exact h5 c (List.mem_reverse.mpr hc)
    rw [h2]
    simp [h3]

theorem hasPrefix_dot (x : Str) : strings_HasPrefix x (Go.s ".") = (x.head? == some '.') := by
  have hs : Go.s "." = ['.'] := rfl
  rw [hs]
  cases x with
  | nil => rfl
  | cons a r => simp [strings_HasPrefix, List.isPrefixOf]; exact beq_comm_char _ _

theorem hasSuffix_dot (x : Str) : strings_HasSuffix x (Go.s ".") = (x.getLast? == some '.') := by
  have hs : Go.s "." = ['.'] := rfl
  rw [hs, List.getLast?_eq_head?_reverse]
  unfold strings_HasSuffix List.isSuffixOf
  cases x.reverse with
  | nil => rfl
  | cons a r => simp [List.isPrefixOf]; exact beq_comm_char _ _

theorem hasPrefix_stardot (x : Str) : strings_HasPrefix x (Go.s "*.") = (x.take 2 == ['*', '.']) := by
  have hs : Go.s "*." = ['*', '.'] := rfl
  rw [hs]
  match x with
  | [] => rfl
  | [a] => simp [strings_HasPrefix, List.isPrefixOf]
  | a :: b :: r => simp [strings_HasPrefix, List.isPrefixOf]; rw [beq_comm_char a, beq_comm_char b]

theorem containsAny_forbidden (x : Str) :
    strings_ContainsAny x (Go.s "()[]{}<> \t\n\"\\!@#$%^&|;'+=") = !(x.all (fun c => !forbidden.contains c)) := by
  have hs : Go.s "()[]{}<> \t\n\"\\!@#$%^&|;'+=" = forbidden := rfl
  rw [hs]
  unfold strings_ContainsAny
  induction x with
  | nil => rfl
  | cons a r ih => simp only [List.any_cons, List.all_cons, ih]; cases forbidden.contains a <;> simp

/-- **the model's `qualifies` IS the translated `SubjectQualifiesForCert`** — for all strings. -/
theorem C02_tie_fn_SubjectQualifiesForCert (subj : Str) :
    CM.Gen.Fn.SubjectQualifiesForCert subj = qualifies subj := by
  have hs : Go.s "*" = ['*'] := rfl
  unfold CM.Gen.Fn.SubjectQualifiesForCert qualifies
  rw [trimSpace_ne_nil, hasPrefix_dot, hasSuffix_dot, hasPrefix_stardot, containsAny_forbidden, hs,
    strings_Contains_single]
  simp [bne]

end CM.Tie.FnC02
