/-
Ties of the FUNCTION TRANSLATOR (go/extract/fn.go): for each pure function of /repo that the
translator carries across whole (CM/Generated/Fn.lean, regenerated from the source on every
run), the hand-written model function used by the property theorems is PROVED EQUAL to the
translated one for ALL inputs. A change of the Go function that changes its meaning makes the
equality unprovable (the tie breaks; the differential, which also runs the generated definition,
searches for the failing input); a change that keeps its meaning but not its shape can break the
proof script too — then the check reports `no-failing-input-found`, as the brief prescribes.

Trusted: the translator and CM/Lib/GoLite.lean (the Lean reading of Go's statements and of the
white-listed part of package `strings`); both are exercised on every run by executing the
generated definitions in the driver against the real functions.
-/
import CM.Generated.Fn
import CM.Props.C02
import CM.Model.Lookup
namespace CM.Tie.FnC02
open CM.Go CM.Lookup

/-! ### `SubjectQualifiesForCert` -/

theorem isSpace_eq : Go.isSpace = Lookup.isSpace := rfl

theorem all_of_dropWhile (p : Char → Bool) : ∀ x : Str, (∀ c ∈ x.dropWhile p, p c = true) → ∀ c ∈ x, p c = true
  | [], _ => by simp
  | a :: r, h => by
    by_cases ha : p a = true
    · simp only [List.dropWhile_cons, ha, if_true] at h
      intro c hc
      rcases List.mem_cons.mp hc with rfl | hc
      · exact ha
      · exact all_of_dropWhile p r h c hc
    · simp only [List.dropWhile_cons, ha] at h
      exact absurd (h a (by simp)) ha

theorem dropWhile_nil_of_all (p : Char → Bool) : ∀ x : Str, (∀ c ∈ x, p c = true) → x.dropWhile p = []
  | [], _ => rfl
  | a :: r, h => by
    have ha : p a = true := h a (by simp)
    simp only [List.dropWhile_cons, ha, if_true]
    exact dropWhile_nil_of_all p r (fun c hc => h c (List.mem_cons_of_mem _ hc))

theorem all_of_dropWhile_nil (p : Char → Bool) : ∀ x : Str, x.dropWhile p = [] → ∀ c ∈ x, p c = true
  | [], _ => by simp
  | a :: r, h => by
    by_cases ha : p a = true
    · simp only [List.dropWhile_cons, ha, if_true] at h
      intro c hc
      rcases List.mem_cons.mp hc with rfl | hc
      · exact ha
      · exact all_of_dropWhile_nil p r h c hc
    · simp [ha] at h

theorem beq_comm_char (a b : Char) : (a == b) = (b == a) := by
  by_cases h : a = b
  · subst h; rfl
  · have h' : ¬ b = a := fun e => h e.symm
    rw [beq_eq_false_iff_ne.mpr h, beq_eq_false_iff_ne.mpr h']

theorem trimSpace_ne_nil (x : Str) :
    (strings_TrimSpace x != Go.s "") = x.any (fun c => !Lookup.isSpace c) := by
  have hs : Go.s "" = [] := rfl
  rw [hs, ← isSpace_eq]
  by_cases h : ∀ c ∈ x, Go.isSpace c = true
  · have h1 : x.dropWhile Go.isSpace = [] := dropWhile_nil_of_all _ _ h
    have h2 : x.any (fun c => !Go.isSpace c) = false := by
      simp only [List.any_eq_false, Bool.not_eq_true']
      intro c hc; simp [h c hc]
    simp [strings_TrimSpace, h1, h2]
  · have h2 : x.any (fun c => !Go.isSpace c) = true := by
      simp only [List.any_eq_true]
      apply Classical.byContradiction
      intro hno
      apply h
      intro c hc
      cases hsp : Go.isSpace c
      · exact absurd ⟨c, hc, by simp [hsp]⟩ hno
      · rfl
    have h3 : strings_TrimSpace x ≠ [] := by
      intro h0
      apply h
      unfold strings_TrimSpace at h0
      have h4 := List.reverse_eq_nil_iff.mp h0
      have h5 := all_of_dropWhile_nil _ _ h4
      apply all_of_dropWhile
      intro c hc
      exact h5 c (List.mem_reverse.mpr hc)
    rw [h2]
    simp [h3]

theorem hasPrefix_dot (x : Str) : strings_HasPrefix x (Go.s ".") = (x.head? == some '.') := by
  have hs : Go.s "." = ['.'] := rfl
  rw [hs]
  cases x with
  | nil => rfl
  | cons a r => simp [strings_HasPrefix, List.isPrefixOf]; exact beq_comm_char _ _

theorem hasSuffix_dot (x : Str) : strings_HasSuffix x (Go.s ".") = (x.getLast? == some '.') := by
  have hs : Go.s "." = ['.'] := rfl
  rw [hs, List.getLast?_eq_head?_reverse]
  unfold strings_HasSuffix List.isSuffixOf
  cases x.reverse with
  | nil => rfl
  | cons a r => simp [List.isPrefixOf]; exact beq_comm_char _ _

theorem hasPrefix_stardot (x : Str) : strings_HasPrefix x (Go.s "*.") = (x.take 2 == ['*', '.']) := by
  have hs : Go.s "*." = ['*', '.'] := rfl
  rw [hs]
  match x with
  | [] => rfl
  | [a] => simp [strings_HasPrefix, List.isPrefixOf]
  | a :: b :: r => simp [strings_HasPrefix, List.isPrefixOf]; rw [beq_comm_char a, beq_comm_char b]

theorem containsAny_forbidden (x : Str) :
    strings_ContainsAny x (Go.s "()[]{}<> \t\n\"\\!@#$%^&|;'+=") = !(x.all (fun c => !forbidden.contains c)) := by
  have hs : Go.s "()[]{}<> \t\n\"\\!@#$%^&|;'+=" = forbidden := rfl
  rw [hs]
  unfold strings_ContainsAny
  induction x with
  | nil => rfl
  | cons a r ih => simp only [List.any_cons, List.all_cons, ih]; cases forbidden.contains a <;> simp

theorem trimSpace_eq_nil (x : Str) :
    (strings_TrimSpace x == Go.s "") = !(x.any (fun c => !Lookup.isSpace c)) := by
  have h := trimSpace_ne_nil x
  simp only [bne] at h
  cases hh : (strings_TrimSpace x == Go.s "") <;> simp_all

/-- **the model's `qualifies` IS the translated `SubjectQualifiesForCert`** — for all strings.
(The proof rewrites the seven tests of the printed definition into the model's and then compares the two
Boolean combinations case by case, so it does not depend on whether the source spells the conjunction as one
`&&` chain or as early returns.) -/
theorem C02_tie_fn_SubjectQualifiesForCert (subj : Str) :
    CM.Gen.Fn.SubjectQualifiesForCert subj = qualifies subj := by
  have hs : Go.s "*" = ['*'] := rfl
  unfold CM.Gen.Fn.SubjectQualifiesForCert qualifies
  simp only [trimSpace_eq_nil, hasPrefix_dot, hasSuffix_dot, hasPrefix_stardot,
    containsAny_forbidden, hs, strings_Contains_single, bne]
  cases (subj.any fun c => !Lookup.isSpace c) <;> cases (subj.head? == some '.') <;>
  cases (subj.getLast? == some '.') <;> cases (subj.contains '*') <;>
  cases (List.take 2 subj == ['*', '.']) <;> cases (subj == ['*']) <;>
  cases (subj.all fun c => !forbidden.contains c) <;> simp

/-! ### the handshake model's own copy of the function -/

theorem hs_isSpace_eq (c : Char) : CM.Handshake.isSpace c = CM.Lookup.isSpace c := by
  unfold CM.Handshake.isSpace CM.Lookup.isSpace
  have e : ∀ d : Char, (decide (c = d)) = decide (c.toNat = d.toNat) := by
    intro d; apply decide_eq_decide.mpr; exact Char.toNat_inj.symm
  simp only [e]
  simp

theorem any_not_space (s : Str) : s.any (fun c => !CM.Lookup.isSpace c) = !(s.all CM.Handshake.isSpace) := by
  induction s with
  | nil => rfl
  | cons a t ih => simp only [List.any_cons, List.all_cons, ih, hs_isSpace_eq]; cases CM.Lookup.isSpace a <;> simp

theorem all_not_forbidden (s : Str) :
    s.all (fun c => !CM.Lookup.forbidden.contains c) = !(s.any (fun c => CM.Handshake.forbidden.contains c)) := by
  have hf : CM.Handshake.forbidden = CM.Lookup.forbidden := rfl
  rw [hf]
  induction s with
  | nil => rfl
  | cons a t ih => simp only [List.any_cons, List.all_cons, ih]; cases CM.Lookup.forbidden.contains a <;> simp

/-- C02's theorems are stated about `Handshake.qualifies`, a second hand-written copy of the function: it is
the same function as `Lookup.qualifies` — and hence as the translated `SubjectQualifiesForCert` -/
theorem C02_tie_fn_handshake_qualifies (s : Str) :
    CM.Gen.Fn.SubjectQualifiesForCert s = CM.Handshake.qualifies s := by
  rw [C02_tie_fn_SubjectQualifiesForCert]
  unfold CM.Lookup.qualifies CM.Handshake.qualifies CM.Handshake.startsWith CM.Handshake.endsWithDot
  have h1 := any_not_space s
  have h2 : (s.head? != some '.') = !(['.'].isPrefixOf s) := by
    cases s with
    | nil => rfl
    | cons a t => simp [List.isPrefixOf, bne]; rw [beq_comm_char]
  have h3 : (s.getLast? != some '.') = !(decide (s.getLast? = some '.')) := by
    by_cases h : s.getLast? = some '.' <;> simp [bne, h]
  have h4 : (s.take 2 == ['*', '.']) = (['*', '.'].isPrefixOf s) := by
    match s with
    | [] => rfl
    | [a] => simp [List.isPrefixOf]
    | a :: b :: r => simp [List.isPrefixOf]; rw [beq_comm_char a, beq_comm_char b]
  have h5 := all_not_forbidden s
  have h6 : (s == ['*']) = decide (s = ['*']) := by
    by_cases h : s = ['*'] <;> simp [h]
  rw [h1, h2, h3, h4, h5, h6]

/-! ### the property theorem, about the printed definition -/

/-- **C02_qualifies, of the code as printed**: the definition translated from `SubjectQualifiesForCert` on this
run accepts a subject iff it is not malformed (blank, leading / trailing dot, misplaced `*`, forbidden character). -/
theorem C02_fn_SubjectQualifiesForCert_exactly (s : Str) :
    CM.Gen.Fn.SubjectQualifiesForCert s = true ↔ ¬ CM.Props.C02.Malformed s := by
  rw [C02_tie_fn_handshake_qualifies]
  exact CM.Props.C02.C02_qualifies s

end CM.Tie.FnC02
