/-
Ties of the FUNCTION TRANSLATOR (go/extract/fn.go): for each pure function of /repo that the
translator carries across whole (CM/Generated/Fn.lean, regenerated from the source on every
run), the hand-written model function used by the property theorems is PROVED EQUAL to the
translated one for ALL inputs. A change of the Go function that changes its meaning makes the
equality unprovable (the tie breaks; the differential, which also runs the generated definition,
searches for the failing input); a change that keeps its meaning but not its shape can break the
proof script too — then the check reports `no-failing-input-found`, as the brief prescribes.

Trusted: the translator and CM/Lib/GoLite.lean (the Lean reading of Go's statements and of the
white-listed part of package `strings`); both are exercised on every run by executing the
generated definitions in the driver against the real functions.
-/
import CM.Generated.Fn
import CM.Model.Lookup
import CM.Model.Account
import CM.Model.RateLimit
import CM.Model.FileLock
import CM.Model.OCSP
import CM.Model.Challenge
namespace CM.Tie.Fn
open CM.Go CM.Lookup

theorem c46 : Char.ofNat 46 = '.' := by decide

theorem split1_dot (x : Str) : strings_Split1 (Char.ofNat 46) x = splitDot x := by
  rw [c46]
  induction x with
  | nil => rfl
  | cons c r ih =>
    simp only [strings_Split1, splitDot, ih]
    by_cases h : c = '.'
    · simp [h]
    · simp only [h, if_false]
      cases splitDot r <;> rfl

theorem join_dot : ∀ xs : List Str, strings_Join xs (Go.s ".") = joinDot xs
  | [] => rfl
  | [_] => rfl
  | l :: m :: r => by
    have ih := join_dot (m :: r)
    simp only [strings_Join, joinDot] at ih ⊢
    rw [ih]; simp [Go.s]

/-- the loop body of `MatchWildcard` as the translator prints it -/
def mwBody (wildcard : Str) : Int → List Str → Step (List Str) Bool := fun i st =>
  let labels := st
  if ((Go.idx labels i) == (Go.s "")) then
    .next labels
  else
  let labels := Go.set labels i (Go.s "*")
  let candidate := (Go.strings_Join labels (Go.s "."))
  if (candidate == wildcard) then
    .ret true
  else
  .next labels

def fin : Step (List Str) Bool → Bool
  | .ret v => v
  | .next _ => false

theorem mw_loop (w : Str) : ∀ (rest pre : List Str),
    fin (forN (mwBody w) rest.length pre.length (pre ++ rest)) = mwLoop w pre rest
  | [], pre => by simp [forN, fin, mwLoop]
  | l :: rest, pre => by
    simp only [List.length_cons, forN, mwBody, idx_append_length, set_append_length, join_dot]
    by_cases hl : l = []
    · have ih := mw_loop w rest (pre ++ [l])
      simp only [List.length_append, List.length_cons, List.length_nil, List.append_assoc,
        List.cons_append, List.nil_append] at ih
      simp [hl, Go.s, mwLoop] at ih ⊢
      exact ih
    · have ih := mw_loop w rest (pre ++ [star])
      simp only [List.length_append, List.length_cons, List.length_nil, List.append_assoc,
        List.cons_append, List.nil_append] at ih
      simp only [star] at ih
      by_cases hc : joinDot (pre ++ ['*'] :: rest) = w
      · simp [hl, hc, Go.s, mwLoop, fin, star]
      · simp [hl, hc, Go.s, mwLoop, star] at ih ⊢
        exact ih

/-- the translated definition, with the loop body and the final `match` named (by `rfl`: this is
the generated text itself) -/
theorem gen_MatchWildcard_unfold (subject wildcard : Str) :
    CM.Gen.Fn.MatchWildcard subject wildcard =
      (if (strings_ToLower subject == strings_ToLower wildcard) then true
       else if (!(strings_Contains (strings_ToLower wildcard) (Go.s "*"))) then false
       else fin (forN (mwBody (strings_ToLower wildcard))
              (strings_Split1 (Char.ofNat 46) (strings_ToLower subject)).length 0
              (strings_Split1 (Char.ofNat 46) (strings_ToLower subject)))) := rfl

/-- **the model's `matchWildcard` IS the translated `MatchWildcard`** (on the lower-cased
arguments, which is where the model starts) — for all strings. -/
theorem C03_tie_fn_MatchWildcard (subject wildcard : Str) :
    CM.Gen.Fn.MatchWildcard subject wildcard
      = matchWildcard (strings_ToLower subject) (strings_ToLower wildcard) := by
  have hloop := mw_loop (strings_ToLower wildcard) (splitDot (strings_ToLower subject)) []
  simp only [List.nil_append, List.length_nil] at hloop
  have hs : Go.s "*" = ['*'] := rfl
  rw [gen_MatchWildcard_unfold, split1_dot, hs, strings_Contains_single, hloop]
  unfold matchWildcard
  by_cases h1 : strings_ToLower subject = strings_ToLower wildcard
  · simp [h1]
  · by_cases h2 : '*' ∈ strings_ToLower wildcard <;> simp [h1, h2]

/-! ### `SubjectQualifiesForCert` -/

theorem isSpace_eq : Go.isSpace = Lookup.isSpace := rfl

theorem all_of_dropWhile (p : Char → Bool) : ∀ x : Str, (∀ c ∈ x.dropWhile p, p c = true) → ∀ c ∈ x, p c = true
  | [], _ => by simp
  | a :: r, h => by
    by_cases ha : p a = true
    · simp only [List.dropWhile_cons, ha, if_true] at h
      intro c hc
      rcases List.mem_cons.mp hc with rfl | hc
      · exact ha
      · exact all_of_dropWhile p r h c hc
    · simp only [List.dropWhile_cons, ha] at h
      exact absurd (h a (by simp)) ha

theorem dropWhile_nil_of_all (p : Char → Bool) : ∀ x : Str, (∀ c ∈ x, p c = true) → x.dropWhile p = []
  | [], _ => rfl
  | a :: r, h => by
    have ha : p a = true := h a (by simp)
    simp only [List.dropWhile_cons, ha, if_true]
    exact dropWhile_nil_of_all p r (fun c hc => h c (List.mem_cons_of_mem _ hc))

theorem all_of_dropWhile_nil (p : Char → Bool) : ∀ x : Str, x.dropWhile p = [] → ∀ c ∈ x, p c = true
  | [], _ => by simp
  | a :: r, h => by
    by_cases ha : p a = true
    · simp only [List.dropWhile_cons, ha, if_true] at h
      intro c hc
      rcases List.mem_cons.mp hc with rfl | hc
      · exact ha
      · exact all_of_dropWhile_nil p r h c hc
    · simp [ha] at h

theorem beq_comm_char (a b : Char) : (a == b) = (b == a) := by
  by_cases h : a = b
  · subst h; rfl
  · have h' : ¬ b = a := fun e => h e.symm
    rw [beq_eq_false_iff_ne.mpr h, beq_eq_false_iff_ne.mpr h']

theorem trimSpace_ne_nil (x : Str) :
    (strings_TrimSpace x != Go.s "") = x.any (fun c => !Lookup.isSpace c) := by
  have hs : Go.s "" = [] := rfl
  rw [hs, ← isSpace_eq]
  by_cases h : ∀ c ∈ x, Go.isSpace c = true
  · have h1 : x.dropWhile Go.isSpace = [] := dropWhile_nil_of_all _ _ h
    have h2 : x.any (fun c => !Go.isSpace c) = false := by
      simp only [List.any_eq_false, Bool.not_eq_true']
      intro c hc; simp [h c hc]
    simp [strings_TrimSpace, h1, h2]
  · have h2 : x.any (fun c => !Go.isSpace c) = true := by
      simp only [List.any_eq_true]
      apply Classical.byContradiction
      intro hno
      apply h
      intro c hc
      cases hsp : Go.isSpace c
      · exact absurd ⟨c, hc, by simp [hsp]⟩ hno
      · rfl
    have h3 : strings_TrimSpace x ≠ [] := by
      intro h0
      apply h
      unfold strings_TrimSpace at h0
      have h4 := List.reverse_eq_nil_iff.mp h0
      have h5 := all_of_dropWhile_nil _ _ h4
      apply all_of_dropWhile
      intro c hc
      exact h5 c (List.mem_reverse.mpr hc)
    rw [h2]
    simp [h3]

theorem hasPrefix_dot (x : Str) : strings_HasPrefix x (Go.s ".") = (x.head? == some '.') := by
  have hs : Go.s "." = ['.'] := rfl
  rw [hs]
  cases x with
  | nil => rfl
  | cons a r => simp [strings_HasPrefix, List.isPrefixOf]; exact beq_comm_char _ _

theorem hasSuffix_dot (x : Str) : strings_HasSuffix x (Go.s ".") = (x.getLast? == some '.') := by
  have hs : Go.s "." = ['.'] := rfl
  rw [hs, List.getLast?_eq_head?_reverse]
  unfold strings_HasSuffix List.isSuffixOf
  cases x.reverse with
  | nil => rfl
  | cons a r => simp [List.isPrefixOf]; exact beq_comm_char _ _

theorem hasPrefix_stardot (x : Str) : strings_HasPrefix x (Go.s "*.") = (x.take 2 == ['*', '.']) := by
  have hs : Go.s "*." = ['*', '.'] := rfl
  rw [hs]
  match x with
  | [] => rfl
  | [a] => simp [strings_HasPrefix, List.isPrefixOf]
  | a :: b :: r => simp [strings_HasPrefix, List.isPrefixOf]; rw [beq_comm_char a, beq_comm_char b]

theorem containsAny_forbidden (x : Str) :
    strings_ContainsAny x (Go.s "()[]{}<> \t\n\"\\!@#$%^&|;'+=") = !(x.all (fun c => !forbidden.contains c)) := by
  have hs : Go.s "()[]{}<> \t\n\"\\!@#$%^&|;'+=" = forbidden := rfl
  rw [hs]
  unfold strings_ContainsAny
  induction x with
  | nil => rfl
  | cons a r ih => simp only [List.any_cons, List.all_cons, ih]; cases forbidden.contains a <;> simp

/-- **the model's `qualifies` IS the translated `SubjectQualifiesForCert`** — for all strings. -/
theorem C02_tie_fn_SubjectQualifiesForCert (subj : Str) :
    CM.Gen.Fn.SubjectQualifiesForCert subj = qualifies subj := by
  have hs : Go.s "*" = ['*'] := rfl
  unfold CM.Gen.Fn.SubjectQualifiesForCert qualifies
  rw [trimSpace_ne_nil, hasPrefix_dot, hasSuffix_dot, hasPrefix_stardot, containsAny_forbidden, hs,
    strings_Contains_single]
  simp [bne]

/-! ### `SubjectIsInternal` (the host classification behind C20's HTTPS rule) -/

/-- **the model's `internalHost` IS the translated `SubjectIsInternal`**: for every behaviour of the two
functions that are not translated (`hostOnly`, `isInternalIP` — parameters of the translated
definition), every subject and every byte list `ip` for which `isInternalIP` answers what the model's
`internalIP` answers, the translated function returns what the model returns on the normalised host
(`strings.ToLower(strings.TrimSuffix(hostOnly(subj), "."))`, computed by Go and handed to the model
as an input). -/
theorem C20_tie_fn_SubjectIsInternal (hostOnly : Str → Str) (isInternalIP : Str → Bool)
    (subj : Str) (ip : List Nat)
    (hip : isInternalIP (strings_ToLower (strings_TrimSuffix (hostOnly subj) (Go.s ".")))
            = CM.Account.internalIP ip) :
    CM.Gen.Fn.SubjectIsInternal hostOnly isInternalIP subj
      = CM.Account.internalHost (strings_ToLower (strings_TrimSuffix (hostOnly subj) (Go.s "."))) ip := by
  unfold CM.Gen.Fn.SubjectIsInternal CM.Account.internalHost CM.Account.internalSuffixes
  simp only [hip, List.any_cons, List.any_nil, Bool.or_false, CM.Account.endsWith, strings_HasSuffix,
    Bool.or_assoc]
  rfl

/-! ### `RingBufferRateLimiter.advance` / `SetMaxEvents` (methods: receiver fields as a structure, three-clause
loops, `break`, `panic`) -/

section RL

open CM.RateLimit CM.Gen.Fn

abbrev T := Option Nat

/-- a model state's ring, cursor and window as the translated struct -/
def toRL (ring : List T) (c W : Nat) : RingBufferRateLimiter T := ⟨Int.ofNat W, ring, Int.ofNat c⟩

theorem advance_eq (ring : List T) (c W : Nat) :
    RingBufferRateLimiter_advance (toRL ring c W) = toRL ring (advance ring.length c) W := by
  unfold RingBufferRateLimiter_advance advance toRL lenL
  by_cases h : c + 1 ≥ ring.length
  · simp [h]; intro h2; omega
  · simp [h]; intro h2; omega

/-- the fast-forward loop's body as the translator prints it -/
def ffwdBody : Int → RingBufferRateLimiter T → Step (RingBufferRateLimiter T) (Option (RingBufferRateLimiter T)) :=
  fun i st => Step.next (RingBufferRateLimiter_advance st)

/-- the fast-forward loop is `advanceN` -/
theorem ffwd_loop (ring : List T) (W : Nat) : ∀ (k i c : Nat),
    forN ffwdBody k i (toRL ring c W) = .next (toRL ring (advanceN k ring.length c) W)
  | 0, _, _ => rfl
  | k + 1, i, c => by
    simp only [forN, ffwdBody, advance_eq, advanceN]
    exact ffwd_loop ring W k (i + 1) _

/-- the copy loop's body as the translator prints it -/
def copyBody (startCursor : Int) : Int → List T × RingBufferRateLimiter T → Step3 (List T × RingBufferRateLimiter T) (Option (RingBufferRateLimiter T)) :=
  fun i st_1 =>
    if ((RingBufferRateLimiter_advance st_1.snd).cursor == startCursor) = true then
      Step3.brk (Go.set st_1.fst i (idx st_1.snd.ring st_1.snd.cursor), RingBufferRateLimiter_advance st_1.snd)
    else
      Step3.next (Go.set st_1.fst i (idx st_1.snd.ring st_1.snd.cursor), RingBufferRateLimiter_advance st_1.snd)

theorem idx_ring (ring : List T) (c : Nat) : Go.idx ring (Int.ofNat c) = ring.getD c none := by
  simp [Go.idx]
  rfl

theorem copyBody_step (ring : List T) (W start k : Nat) (pre : List T) (c : Nat) :
    copyBody (Int.ofNat start) (Int.ofNat pre.length) (pre ++ List.replicate (k + 1) none, toRL ring c W) =
      if advance ring.length c = start
      then .brk (pre ++ ring.getD c none :: List.replicate k none, toRL ring (advance ring.length c) W)
      else .next (pre ++ ring.getD c none :: List.replicate k none, toRL ring (advance ring.length c) W) := by
  have hset : Go.set (pre ++ List.replicate (k + 1) (none : T)) (Int.ofNat pre.length) (ring.getD c none)
      = pre ++ ring.getD c none :: List.replicate k none := by
    rw [List.replicate_succ]; exact set_append_length pre none _ _
  have hidx : Go.idx (toRL ring c W).ring (toRL ring c W).cursor = ring.getD c none := idx_ring ring c
  have hcur : ∀ c', ((toRL ring c' W).cursor == Int.ofNat start) = decide (c' = start) := by
    intro c'
    by_cases hc : c' = start
    · subst hc; simp [toRL]
    · simp [toRL, hc]; omega
  unfold copyBody
  simp only [hidx, hset, advance_eq, hcur]
  by_cases hb : advance ring.length c = start <;> simp [hb]

/-- the copy loop writes `copyLoop`'s values behind what was written before and leaves the rest zero -/
theorem copy_loop (ring : List T) (W start : Nat) : ∀ (k : Nat) (pre : List T) (c : Nat),
    ∃ c', forB (copyBody (Int.ofNat start)) k pre.length (pre ++ List.replicate k none, toRL ring c W)
      = .next (pre ++ copyLoop ring start k c ++ List.replicate (k - (copyLoop ring start k c).length) none,
               toRL ring c' W)
  | 0, pre, c => ⟨c, by simp [forB, copyLoop]⟩
  | k + 1, pre, c => by
    by_cases hb : advance ring.length c = start
    · refine ⟨advance ring.length c, ?_⟩
      simp only [forB, copyBody_step, hb, if_true, copyLoop]
      simp
    · obtain ⟨c', ih⟩ := copy_loop ring W start k (pre ++ [ring.getD c none]) (advance ring.length c)
      refine ⟨c', ?_⟩
      simp only [forB, copyBody_step, hb, if_false, copyLoop]
      simp only [List.length_append, List.length_cons, List.length_nil, List.append_assoc,
        List.cons_append, List.nil_append, Nat.zero_add] at ih
      rw [ih]
      simp

/-- **the model's `setMax` step IS the translated `SetMaxEvents`**: for every ring, cursor, window and new
limit — `none` = the panic, otherwise the struct afterwards (ring `resize`d, cursor 0, or untouched). -/
theorem C17_tie_fn_SetMaxEvents (ring : List T) (c W n : Nat) :
    RingBufferRateLimiter_SetMaxEvents (toRL ring c W) (Int.ofNat n) =
      (if n = 0 ∧ W ≠ 0 then none
       else if n = ring.length then some (toRL ring c W)
       else some (toRL (resize ring c n) 0 W)) := by
  have hw : ((toRL ring c W).window != (0 : Int)) = decide (W ≠ 0) := by
    by_cases h : W = 0 <;> simp [toRL, h]
  have hn : ((Int.ofNat n) == (0 : Int)) = decide (n = 0) := by
    by_cases h : n = 0 <;> simp [h]
  have hl : ((Int.ofNat n) == Go.lenL (toRL ring c W).ring) = decide (n = ring.length) := by
    by_cases h : n = ring.length
    · simp [toRL, lenL, h]
    · simp [toRL, lenL, h]; omega
  have hk : Int.toNat (Go.lenL (toRL ring c W).ring - Int.ofNat n) = ring.length - n := by
    simp [toRL, lenL]
  have hd : (default : T) = none := rfl
  have hmk : (Go.make (Int.ofNat n) : List T) = List.replicate n none := by simp [Go.make, hd]
  have hmn : Int.toNat (Go.lenL (List.replicate n (none : T))) = n := by simp [lenL]
  have hff := ffwd_loop ring W (ring.length - n) 0 c
  obtain ⟨c', hcp⟩ := copy_loop ring W (advanceN (ring.length - n) ring.length c) n []
    (advanceN (ring.length - n) ring.length c)
  unfold ffwdBody at hff
  unfold copyBody at hcp
  simp only [List.nil_append, List.length_nil] at hcp
  unfold RingBufferRateLimiter_SetMaxEvents
  simp only [hw, hn, hl, hk, hmk, hmn, hff]
  by_cases h1 : n = 0 ∧ W ≠ 0
  · simp [h1.1, h1.2]
  · by_cases h2 : n = ring.length
    · by_cases hW : W = 0
      · simp [h2, hW]
      · have hn0 : ¬ n = 0 := fun h => h1 ⟨h, hW⟩
        simp [hW, hn0, ← h2]
    · have h1' : ¬ (decide (W ≠ 0) && decide (n = 0)) = true := by
        simp; intro hW; exact fun h => h1 ⟨h, hW⟩
      simp only [h1', h2, h1, if_false, decide_false, Bool.false_eq_true]
      have hcur : ∀ x, (toRL ring x W).cursor = Int.ofNat x := fun _ => rfl
      have hring : ∀ x, (toRL ring x W).ring = ring := fun _ => rfl
      have hwin : ∀ (rg : List T) x, (toRL rg x W).window = Int.ofNat W := fun _ _ => rfl
      simp only [hcur, hring, hcp, hwin]
      unfold resize
      by_cases hlen : ring.length > 0
      · have : decide (lenL ring > 0) = true := by
          have : (Int.ofNat ring.length) > 0 := by simp; omega
          simpa [lenL] using this
        simp [this, hlen, toRL]
      · have : decide (lenL ring > 0) = false := by
          have h0 : ring.length = 0 := by omega
          simp [lenL, h0]
        simp [this, hlen, toRL]


end RL

/-! ### `fileLockIsStale` (C08) and `currentOCSP` (C14): functions over `time.Time` -/

/-- `time.Since(ref) > 10 s` on instants counted from the zero time, saturation included -/
theorem since_gt (now ref : Nat) :
    decide (time_Sub (Int.ofNat now) (Int.ofNat ref) > (5000000000 : Int) * (2 : Int))
      = decide (now - ref > 2 * 5000000000) := by
  unfold time_Sub maxDuration minDuration
  apply decide_eq_decide.mpr
  by_cases h1 : Int.ofNat now - Int.ofNat ref > 9223372036854775807
  · rw [if_pos h1]; simp only [Int.ofNat_eq_natCast] at h1; constructor <;> intro _ <;> omega
  · rw [if_neg h1]
    by_cases h2 : Int.ofNat now - Int.ofNat ref < -9223372036854775808
    · rw [if_pos h2]; simp only [Int.ofNat_eq_natCast] at h1 h2; constructor <;> intro _ <;> omega
    · rw [if_neg h2]; simp only [Int.ofNat_eq_natCast] at h1 h2 ⊢; constructor <;> intro _ <;> omega

/-- **the model's `stale` IS the translated `fileLockIsStale`**, with the constants of the source inside
it (`lockFreshnessInterval` = 5 s, factor 2 = `codeParams`): for all instants (nanoseconds since the zero
time; `0` = the zero `time.Time`), saturation of `time.Since` included. -/
theorem C08_tie_fn_fileLockIsStale (now created updated : Nat) :
    CM.Gen.Fn.fileLockIsStale (Int.ofNat now) ⟨Int.ofNat created, Int.ofNat updated⟩
      = CM.FileLock.stale CM.FileLock.codeParams now created updated := by
  unfold CM.Gen.Fn.fileLockIsStale CM.FileLock.stale CM.FileLock.codeParams
  simp only [since_gt, time_IsZero]
  by_cases hu : updated = 0
  · subst hu; simp
  · have hz : (Int.ofNat updated == 0) = false := by simp; omega
    simp [hu]

/-- **the model's `current` IS the translated `currentOCSP`**: for every response whose NextUpdate, when
present, is a real instant (not the zero time), with an absent NextUpdate handed over as the zero time. -/
theorem C14_tie_fn_currentOCSP (now : Int) (r : CM.OCSP.Resp)
    (hnu : ∀ nu, r.nextUpdate = some nu → nu ≠ 0) :
    CM.Gen.Fn.currentOCSP now ⟨r.thisUpdate, r.nextUpdate.getD 0, 0, none⟩ = CM.OCSP.current now r := by
  unfold CM.Gen.Fn.currentOCSP CM.OCSP.current
  simp only [time_Before, time_After, time_IsZero]
  cases hn : r.nextUpdate with
  | none =>
    simp only [Option.getD_none, beq_self_eq_true, Bool.true_or, Bool.and_true]
    by_cases h : r.thisUpdate ≤ now
    · have : ¬ now < r.thisUpdate := by omega
      simp [h, this]
    · have : now < r.thisUpdate := by omega
      simp [h, this]
  | some nu =>
    have hz : (nu == 0) = false := by simpa using hnu nu hn
    simp only [Option.getD_some, hz, Bool.false_or]
    by_cases h : r.thisUpdate ≤ now <;> by_cases h2 : now ≤ nu
    all_goals (first | (have a : ¬ now < r.thisUpdate := by omega) | (have a : now < r.thisUpdate := by omega))
    all_goals (first | (have b : ¬ now > nu := by omega) | (have b : now > nu := by omega))
    all_goals simp [h, h2, a, b]

/-! ### pointers: `expiresAt` (C03), `certShouldBeForceRenewed` (C14), `LooksLikeHTTPChallenge` (C15) -/

/-- **the model's `expiresAt` IS the translated `expiresAt`** on a certificate (NotAfter truncated to the
second, plus one second), and the translated function returns the zero time for a nil certificate. -/
theorem C03_tie_fn_expiresAt (na : Int) :
    CM.Gen.Fn.expiresAt (some ⟨na⟩) = CM.Lookup.expiresAt na ∧ CM.Gen.Fn.expiresAt none = 0 := by
  constructor
  · unfold CM.Gen.Fn.expiresAt CM.Lookup.expiresAt CM.Lookup.sec
    simp only [Option.isNone_some, Bool.false_eq_true, if_false, deref, Option.getD_some, time_Add, time_Truncate]
    have h : ¬ ((1000000000 : Int) ≤ 0) := by omega
    simp only [h, if_false]
    show (na - na % 1000000000 + 1000000000 : Int) = na / 1000000000 * 1000000000 + 1000000000
    omega
  · rfl

/-- the OCSP status codes of `golang.org/x/crypto/ocsp` (Good = 0, Revoked = 1, Unknown = 2) -/
def statusCode : CM.OCSP.Status → Int
  | .good => 0
  | .revoked => 1
  | .unknown => 2

/-- a model response as the translated struct -/
def encResp (r : CM.OCSP.Resp) : CM.Gen.Fn.ocsp_Response := ⟨r.thisUpdate, r.nextUpdate.getD 0, statusCode r.status, none⟩

/-- **the model's `shouldForce` IS the translated `certShouldBeForceRenewed`**: for every cache entry
(managed or not, any list of names, with or without a stapled response of any status). -/
theorem C14_tie_fn_certShouldBeForceRenewed (managed : Bool) (names : List Str) (o : Option CM.OCSP.Resp) :
    CM.Gen.Fn.certShouldBeForceRenewed ⟨names, managed, o.map encResp⟩
      = CM.OCSP.shouldForce managed (!names.isEmpty) o := by
  unfold CM.Gen.Fn.certShouldBeForceRenewed CM.OCSP.shouldForce
  have hlen : decide (Go.len names > (0 : Int)) = !names.isEmpty := by
    cases names with
    | nil => rfl
    | cons a t => simp [Go.len, Len.lenN]
  simp only [hlen]
  cases o with
  | none => simp
  | some r =>
    have hs : ((statusCode r.status == (1 : Int)) = decide (r.status = .revoked)) := by
      cases r.status <;> rfl
    simp [deref, encResp, hs]

/-- **the two tests at the head of the model's `httpAnswer` ARE the translated `LooksLikeHTTPChallenge`**
(method GET and the path below `/.well-known/acme-challenge`, the literal taken from the source). -/
theorem C15_tie_fn_LooksLikeHTTPChallenge (r : CM.Challenge.HttpReq) :
    CM.Gen.Fn.LooksLikeHTTPChallenge ⟨r.method, ⟨r.path⟩⟩
      = (r.method == CM.Challenge.GET && CM.Challenge.basePath.isPrefixOf r.path) := rfl

/-- … and a request that does not look like a challenge is passed on, whatever else holds -/
theorem C15_tie_fn_not_looking_passes (E : CM.Challenge.Env) (S : CM.Challenge.State) (n : Nat)
    (ps : List Str) (disabled : Bool) (r : CM.Challenge.HttpReq)
    (h : CM.Gen.Fn.LooksLikeHTTPChallenge ⟨r.method, ⟨r.path⟩⟩ = false) :
    CM.Challenge.httpAnswer E S n ps disabled r = .pass := by
  rw [C15_tie_fn_LooksLikeHTTPChallenge] at h
  unfold CM.Challenge.httpAnswer
  cases disabled
  · cases hm : (r.method == CM.Challenge.GET)
    · have : (r.method != CM.Challenge.GET) = true := by simp [bne, hm]
      simp [this]
    · have hp : CM.Challenge.basePath.isPrefixOf r.path = false := by simpa [hm] using h
      have : (r.method != CM.Challenge.GET) = false := by simp [bne, hm]
      simp [this, hp]
  · simp

/-! ### `freshOCSP` (C14): saturating `Sub`, the responder certificate behind a nilable pointer -/

/-- a model response as the translated struct, instants shifted by `K` (the distance from the zero time to
the model's epoch) -/
def encRespK (K : Int) (r : CM.OCSP.Resp) : CM.Gen.Fn.ocsp_Response :=
  { ThisUpdate := r.thisUpdate + K
    NextUpdate := (r.nextUpdate.map (· + K)).getD 0
    Status := statusCode r.status
    Certificate := r.responderNotAfter.map (fun ca => ⟨ca + K⟩) }

theorem tdiv_min : Int.tdiv minDuration 2 = -4611686018427387904 := by decide

/-- **the model's `fresh` IS the translated `freshOCSP`** — including the case of an absent NextUpdate, where
Go's saturating `Sub` puts the refresh time 2^62 ns before ThisUpdate (the model's `halfMinDuration`):
for every shift `K` that makes the instants real ones (more than 2^63 ns after the zero time — true of
every date after the year 293), every `now`, and every response whose validity period and responder
certificate lie within ±2^63 ns (292 years) of ThisUpdate. -/
theorem C14_tie_fn_freshOCSP (K now : Int) (r : CM.OCSP.Resp)
    (htu : r.thisUpdate + K > 9223372036854775808)
    (hnu : ∀ nu, r.nextUpdate = some nu → nu + K > 0 ∧ nu - r.thisUpdate ≤ 9223372036854775807 ∧
      -9223372036854775808 ≤ nu - r.thisUpdate)
    (hca : ∀ ca, r.responderNotAfter = some ca → ca + K > 0 ∧ ca - r.thisUpdate ≤ 9223372036854775807 ∧
      -9223372036854775808 ≤ ca - r.thisUpdate) :
    CM.Gen.Fn.freshOCSP (now + K) (encRespK K r) = CM.OCSP.fresh now r := by
  have hsub : ∀ x : Int, x - r.thisUpdate ≤ 9223372036854775807 → -9223372036854775808 ≤ x - r.thisUpdate →
      time_Sub (x + K) (r.thisUpdate + K) = x - r.thisUpdate := by
    intro x h1 h2
    unfold time_Sub maxDuration minDuration
    have e : x + K - (r.thisUpdate + K) = x - r.thisUpdate := by omega
    rw [e]
    have a : ¬ (x - r.thisUpdate > 9223372036854775807) := by omega
    have b : ¬ (x - r.thisUpdate < -9223372036854775808) := by omega
    simp only [a, b, if_false]
  have hzero : time_Sub 0 (r.thisUpdate + K) = minDuration := by
    unfold time_Sub maxDuration minDuration
    have a : ¬ (0 - (r.thisUpdate + K) > 9223372036854775807) := by omega
    have b : (0 - (r.thisUpdate + K) < -9223372036854775808) := by omega
    simp only [a, b, if_false, if_true]
  have hbefore : ∀ x y : Int, time_Before (x + K) (y + K) = decide (x < y) := by
    intro x y; unfold time_Before; apply decide_eq_decide.mpr; constructor <;> intro _ <;> omega
  unfold CM.Gen.Fn.freshOCSP CM.OCSP.fresh encRespK
  cases hn : r.nextUpdate with
  | none =>
    cases hc : r.responderNotAfter with
    | none =>
      simp only [Option.map_none, Option.getD_none, Option.isSome_none, Bool.false_and, Bool.false_eq_true,
        if_false, hzero, tdiv_min, time_Add, CM.OCSP.halfMinDuration]
      unfold time_Before; apply decide_eq_decide.mpr; constructor <;> intro _ <;> omega
    | some ca =>
      have hpos := (hca ca hc).1
      have hb : time_Before (ca + K) 0 = false := by unfold time_Before; simp; omega
      simp only [Option.map_none, Option.getD_none, Option.map_some, Option.isSome_some, Bool.true_and, deref,
        Option.getD_some, hb, Bool.false_eq_true, if_false, hzero, tdiv_min, time_Add, CM.OCSP.halfMinDuration]
      unfold time_Before; apply decide_eq_decide.mpr; constructor <;> intro _ <;> omega
  | some nu =>
    obtain ⟨_, hn1, hn2⟩ := hnu nu hn
    cases hc : r.responderNotAfter with
    | none =>
      simp only [Option.map_some, Option.getD_some, Option.map_none, Option.isSome_none, Bool.false_and,
        Bool.false_eq_true, if_false, hsub nu hn1 hn2, time_Add]
      have e : r.thisUpdate + K + (nu - r.thisUpdate).tdiv 2 = (r.thisUpdate + (nu - r.thisUpdate).tdiv 2) + K := by omega
      rw [e, hbefore]
    | some ca =>
      obtain ⟨_, hc1, hc2⟩ := hca ca hc
      simp only [Option.map_some, Option.getD_some, Option.isSome_some, Bool.true_and, deref, hbefore]
      by_cases hlt : ca < nu
      · simp only [hlt, decide_true, if_true, hsub ca hc1 hc2, time_Add]
        have e : r.thisUpdate + K + (ca - r.thisUpdate).tdiv 2 = (r.thisUpdate + (ca - r.thisUpdate).tdiv 2) + K := by omega
        rw [e, hbefore]
      · simp only [hlt, decide_false, Bool.false_eq_true, if_false, hsub nu hn1 hn2, time_Add]
        have e : r.thisUpdate + K + (nu - r.thisUpdate).tdiv 2 = (r.thisUpdate + (nu - r.thisUpdate).tdiv 2) + K := by omega
        rw [e, hbefore]

/-- **the model's `normASCII` IS the translated `normalizedName`** (`strings.ToLower(strings.TrimSpace(..))`;
lower-casing on ASCII — for other input the harness hands the model Go's own result) -/
theorem C03_tie_fn_normalizedName (serverName : Str) :
    CM.Gen.Fn.normalizedName serverName = CM.Lookup.normASCII serverName := rfl

end CM.Tie.Fn
