/-
Ties of the FUNCTION TRANSLATOR (go/extract/fn.go): for each pure function of /repo that the
translator carries across whole (CM/Generated/Fn.lean, regenerated from the source on every
run), the hand-written model function used by the property theorems is PROVED EQUAL to the
translated one for ALL inputs. A change of the Go function that changes its meaning makes the
equality unprovable (the tie breaks; the differential, which also runs the generated definition,
searches for the failing input); a change that keeps its meaning but not its shape can break the
proof script too — then the check reports `no-failing-input-found`, as the brief prescribes.

Trusted: the translator and CM/Lib/GoLite.lean (the Lean reading of Go's statements and of the
white-listed part of package `strings`); both are exercised on every run by executing the
generated definitions in the driver against the real functions.
-/
import CM.Generated.Fn
import CM.Model.Lookup
import CM.Model.Account
namespace CM.Tie.Fn
open CM.Go CM.Lookup

theorem c46 : Char.ofNat 46 = '.' := by decide

theorem split1_dot (x : Str) : strings_Split1 (Char.ofNat 46) x = splitDot x := by
  rw [c46]
  induction x with
  | nil => rfl
  | cons c r ih =>
    simp only [strings_Split1, splitDot, ih]
    by_cases h : c = '.'
    · simp [h]
    · simp only [h, if_false]
      cases splitDot r <;> rfl

theorem join_dot : ∀ xs : List Str, strings_Join xs (Go.s ".") = joinDot xs
  | [] => rfl
  | [_] => rfl
  | l :: m :: r => by
    have ih := join_dot (m :: r)
    simp only [strings_Join, joinDot] at ih ⊢
    rw [ih]; simp [Go.s]

/-- the loop body of `MatchWildcard` as the translator prints it -/
def mwBody (wildcard : Str) : Int → List Str → Step (List Str) Bool := fun i st =>
  let labels := st
  if ((Go.idx labels i) == (Go.s "")) then
    .next labels
  else
  let labels := Go.set labels i (Go.s "*")
  let candidate := (Go.strings_Join labels (Go.s "."))
  if (candidate == wildcard) then
    .ret true
  else
  .next labels

def fin : Step (List Str) Bool → Bool
  | .ret v => v
  | .next _ => false

theorem mw_loop (w : Str) : ∀ (rest pre : List Str),
    fin (forN (mwBody w) rest.length pre.length (pre ++ rest)) = mwLoop w pre rest
  | [], pre => by simp [forN, fin, mwLoop]
  | l :: rest, pre => by
    simp only [List.length_cons, forN, mwBody, idx_append_length, set_append_length, join_dot]
    by_cases hl : l = []
    · have ih := mw_loop w rest (pre ++ [l])
      simp only [List.length_append, List.length_cons, List.length_nil, List.append_assoc,
        List.cons_append, List.nil_append] at ih
      simp [hl, Go.s, mwLoop] at ih ⊢
      exact ih
    · have ih := mw_loop w rest (pre ++ [star])
      simp only [List.length_append, List.length_cons, List.length_nil, List.append_assoc,
        List.cons_append, List.nil_append] at ih
      simp only [star] at ih
      by_cases hc : joinDot (pre ++ ['*'] :: rest) = w
      · simp [hl, hc, Go.s, mwLoop, fin, star]
      · simp [hl, hc, Go.s, mwLoop, star] at ih ⊢
        exact ih

/-- the translated definition, with the loop body and the final `match` named (by `rfl`: this is
the generated text itself) -/
theorem gen_MatchWildcard_unfold (subject wildcard : Str) :
    CM.Gen.Fn.MatchWildcard subject wildcard =
      (if (strings_ToLower subject == strings_ToLower wildcard) then true
       else if (!(strings_Contains (strings_ToLower wildcard) (Go.s "*"))) then false
       else fin (forN (mwBody (strings_ToLower wildcard))
              (strings_Split1 (Char.ofNat 46) (strings_ToLower subject)).length 0
              (strings_Split1 (Char.ofNat 46) (strings_ToLower subject)))) := rfl

/-- **the model's `matchWildcard` IS the translated `MatchWildcard`** (on the lower-cased
arguments, which is where the model starts) — for all strings. -/
theorem C03_tie_fn_MatchWildcard (subject wildcard : Str) :
    CM.Gen.Fn.MatchWildcard subject wildcard
      = matchWildcard (strings_ToLower subject) (strings_ToLower wildcard) := by
  have hloop := mw_loop (strings_ToLower wildcard) (splitDot (strings_ToLower subject)) []
  simp only [List.nil_append, List.length_nil] at hloop
  have hs : Go.s "*" = ['*'] := rfl
  rw [gen_MatchWildcard_unfold, split1_dot, hs, strings_Contains_single, hloop]
  unfold matchWildcard
  by_cases h1 : strings_ToLower subject = strings_ToLower wildcard
  · simp [h1]
  · by_cases h2 : '*' ∈ strings_ToLower wildcard <;> simp [h1, h2]

/-! ### `SubjectQualifiesForCert` -/

theorem isSpace_eq : Go.isSpace = Lookup.isSpace := rfl

theorem all_of_dropWhile (p : Char → Bool) : ∀ x : Str, (∀ c ∈ x.dropWhile p, p c = true) → ∀ c ∈ x, p c = true
  | [], _ => by simp
  | a :: r, h => by
    by_cases ha : p a = true
    · simp only [List.dropWhile_cons, ha, if_true] at h
      intro c hc
      rcases List.mem_cons.mp hc with rfl | hc
      · exact ha
      · exact all_of_dropWhile p r h c hc
    · simp only [List.dropWhile_cons, ha] at h
      exact absurd (h a (by simp)) ha

theorem dropWhile_nil_of_all (p : Char → Bool) : ∀ x : Str, (∀ c ∈ x, p c = true) → x.dropWhile p = []
  | [], _ => rfl
  | a :: r, h => by
    have ha : p a = true := h a (by simp)
    simp only [List.dropWhile_cons, ha, if_true]
    exact dropWhile_nil_of_all p r (fun c hc => h c (List.mem_cons_of_mem _ hc))

theorem all_of_dropWhile_nil (p : Char → Bool) : ∀ x : Str, x.dropWhile p = [] → ∀ c ∈ x, p c = true
  | [], _ => by simp
  | a :: r, h => by
    by_cases ha : p a = true
    · simp only [List.dropWhile_cons, ha, if_true] at h
      intro c hc
      rcases List.mem_cons.mp hc with rfl | hc
      · exact ha
      · exact all_of_dropWhile_nil p r h c hc
    · simp [ha] at h

theorem beq_comm_char (a b : Char) : (a == b) = (b == a) := by
  by_cases h : a = b
  · subst h; rfl
  · have h' : ¬ b = a := fun e => h e.symm
    rw [beq_eq_false_iff_ne.mpr h, beq_eq_false_iff_ne.mpr h']

theorem trimSpace_ne_nil (x : Str) :
    (strings_TrimSpace x != Go.s "") = x.any (fun c => !Lookup.isSpace c) := by
  have hs : Go.s "" = [] := rfl
  rw [hs, ← isSpace_eq]
  by_cases h : ∀ c ∈ x, Go.isSpace c = true
  · have h1 : x.dropWhile Go.isSpace = [] := dropWhile_nil_of_all _ _ h
    have h2 : x.any (fun c => !Go.isSpace c) = false := by
      simp only [List.any_eq_false, Bool.not_eq_true']
      intro c hc; simp [h c hc]
    simp [strings_TrimSpace, h1, h2]
  · have h2 : x.any (fun c => !Go.isSpace c) = true := by
      simp only [List.any_eq_true]
      apply Classical.byContradiction
      intro hno
      apply h
      intro c hc
      cases hsp : Go.isSpace c
      · exact absurd ⟨c, hc, by simp [hsp]⟩ hno
      · rfl
    have h3 : strings_TrimSpace x ≠ [] := by
      intro h0
      apply h
      unfold strings_TrimSpace at h0
      have h4 := List.reverse_eq_nil_iff.mp h0
      have h5 := all_of_dropWhile_nil _ _ h4
      apply all_of_dropWhile
      intro c hc
      exact h5 c (List.mem_reverse.mpr hc)
    rw [h2]
    simp [h3]

theorem hasPrefix_dot (x : Str) : strings_HasPrefix x (Go.s ".") = (x.head? == some '.') := by
  have hs : Go.s "." = ['.'] := rfl
  rw [hs]
  cases x with
  | nil => rfl
  | cons a r => simp [strings_HasPrefix, List.isPrefixOf]; exact beq_comm_char _ _

theorem hasSuffix_dot (x : Str) : strings_HasSuffix x (Go.s ".") = (x.getLast? == some '.') := by
  have hs : Go.s "." = ['.'] := rfl
  rw [hs, List.getLast?_eq_head?_reverse]
  unfold strings_HasSuffix List.isSuffixOf
  cases x.reverse with
  | nil => rfl
  | cons a r => simp [List.isPrefixOf]; exact beq_comm_char _ _

theorem hasPrefix_stardot (x : Str) : strings_HasPrefix x (Go.s "*.") = (x.take 2 == ['*', '.']) := by
  have hs : Go.s "*." = ['*', '.'] := rfl
  rw [hs]
  match x with
  | [] => rfl
  | [a] => simp [strings_HasPrefix, List.isPrefixOf]
  | a :: b :: r => simp [strings_HasPrefix, List.isPrefixOf]; rw [beq_comm_char a, beq_comm_char b]

theorem containsAny_forbidden (x : Str) :
    strings_ContainsAny x (Go.s "()[]{}<> \t\n\"\\!@#$%^&|;'+=") = !(x.all (fun c => !forbidden.contains c)) := by
  have hs : Go.s "()[]{}<> \t\n\"\\!@#$%^&|;'+=" = forbidden := rfl
  rw [hs]
  unfold strings_ContainsAny
  induction x with
  | nil => rfl
  | cons a r ih => simp only [List.any_cons, List.all_cons, ih]; cases forbidden.contains a <;> simp

/-- **the model's `qualifies` IS the translated `SubjectQualifiesForCert`** — for all strings. -/
theorem C02_tie_fn_SubjectQualifiesForCert (subj : Str) :
    CM.Gen.Fn.SubjectQualifiesForCert subj = qualifies subj := by
  have hs : Go.s "*" = ['*'] := rfl
  unfold CM.Gen.Fn.SubjectQualifiesForCert qualifies
  rw [trimSpace_ne_nil, hasPrefix_dot, hasSuffix_dot, hasPrefix_stardot, containsAny_forbidden, hs,
    strings_Contains_single]
  simp [bne]

/-! ### `SubjectIsInternal` (the host classification behind C20's HTTPS rule) -/

/-- **the model's `internalHost` IS the translated `SubjectIsInternal`**: for every behaviour of the two
functions that are not translated (`hostOnly`, `isInternalIP` — parameters of the translated
definition), every subject and every byte list `ip` for which `isInternalIP` answers what the model's
`internalIP` answers, the translated function returns what the model returns on the normalised host
(`strings.ToLower(strings.TrimSuffix(hostOnly(subj), "."))`, computed by Go and handed to the model
as an input). -/
theorem C20_tie_fn_SubjectIsInternal (hostOnly : Str → Str) (isInternalIP : Str → Bool)
    (subj : Str) (ip : List Nat)
    (hip : isInternalIP (strings_ToLower (strings_TrimSuffix (hostOnly subj) (Go.s ".")))
            = CM.Account.internalIP ip) :
    CM.Gen.Fn.SubjectIsInternal hostOnly isInternalIP subj
      = CM.Account.internalHost (strings_ToLower (strings_TrimSuffix (hostOnly subj) (Go.s "."))) ip := by
  unfold CM.Gen.Fn.SubjectIsInternal CM.Account.internalHost CM.Account.internalSuffixes
  simp only [hip, List.any_cons, List.any_nil, Bool.or_false, CM.Account.endsWith, strings_HasSuffix,
    Bool.or_assoc]
  rfl

end CM.Tie.Fn
