import CM.Generated.C16
import CM.Model.Solvers
/-!
Tie of the C16 model to the repository's current source (`CM/Generated/C16.lean`, rewritten on
every run by `go/extract/c16.go`). The model treats a `Present` / `CleanUp` call as atomic
steps on independent components; these facts are what makes that adequate and what the
transition function `CM.Solvers.apply` was written from.
-/
namespace CM.Tie.C16

/-- **guarded maps**: every access, anywhere in the package, to `solvers`,
`activeChallenges` and the DNS `records` map happens with the map's mutex held (in the
function itself, or at every call site of a helper that never touches the mutex); and the
scan did see each map being read, written and deleted from / re-assigned -/
theorem C16_tie_guarded_maps :
    CM.Gen.C16.mapAccesses.all (fun a => a.2.2.2) = true ∧
    ["solvers", "activeChallenges", "records"].all (fun m =>
      CM.Gen.C16.mapAccesses.any (fun a => a.2.1 == m && a.2.2.1 == "read") &&
      CM.Gen.C16.mapAccesses.any (fun a => a.2.1 == m && a.2.2.1 == "write")) = true ∧
    ["solvers", "activeChallenges"].all (fun m =>
      CM.Gen.C16.mapAccesses.any (fun a => a.2.1 == m && a.2.2.1 == "delete")) = true := by
  decide

/-- **distributedSolver** (D13): nothing can return between the token store and the embedded
solver's `Present`, nor between the token delete and the embedded solver's `CleanUp`, and
the delete runs with a context that cannot be cancelled (`storePresent`/`storeCleanUp`
followed unconditionally by `listenPresent`/`listenCleanUp`; `CRes.cancelled` unused) -/
theorem C16_tie_distributed :
    CM.Gen.C16.distPresent.take 2 = ["store", "inner.Present"] ∧
    CM.Gen.C16.distCleanUp.take 2 = ["delete[uncancellable]", "inner.CleanUp"] := by decide

/-- **listeners**: `Present` counts the challenge before every return (also when the bind
fails, and — D13b — when no challenge certificate can be made); `CleanUp` decrements
exactly once, unconditionally, and at zero closes the listener and deletes the entry
(`listenPresent`, `listenCleanUp`) -/
theorem C16_tie_listeners :
    CM.Gen.C16.httpSolver_presentCountsBeforeEveryReturn = true ∧
    CM.Gen.C16.httpSolver_cleanUpDecrements = 1 ∧
    CM.Gen.C16.httpSolver_closesAndDeletesAtZero = true ∧
    CM.Gen.C16.tlsALPNSolver_presentCountsBeforeEveryReturn = true ∧
    CM.Gen.C16.tlsALPNSolver_cleanUpDecrements = 1 ∧
    CM.Gen.C16.tlsALPNSolver_closesAndDeletesAtZero = true := by decide

/-- **DNS-01**: the remembered record is forgotten on every exit of `CleanUp`, the provider's
delete runs with a fresh context, and records are told apart by value (`apply`, DNS cases) -/
theorem C16_tie_dns :
    CM.Gen.C16.dnsForgetIsDeferredFirst = true ∧ CM.Gen.C16.dnsDeleteUsesFreshContext = true ∧
    CM.Gen.C16.dnsMemoryByValue = true := by decide

/-- the directory the harness lists for token files -/
theorem C16_tie_tokens_dir : CM.Gen.C16.tokensDir = "challenge_tokens" := by decide

end CM.Tie.C16
