import CM.Generated.C03
import CM.Model.Lookup
/-!
Tie of the C03 model to the current source (regenerated on every run): the facts of
`handshake.go` / `certificates.go` that `CM/Model/Lookup.lean` was written from.
-/
namespace CM.Tie.C03
open CM.Lookup

/-- `cacheAlmostFull := capacity > 0 && size >= capacity * 0.9`, with the model's fraction -/
theorem C03_tie_almost_full :
    CM.Gen.C03.almostFullExpr = ["CAP", ">", "0", "&&", "SIZE", ">=", "CAP", "*", "FRAC"] ∧
    CM.Gen.C03.almostFullFactor = [(almostNum, almostDen)] := by decide

/-- fix D3: inside the load-from-storage block nothing is returned unconditionally (the
loaded certificate only when `err == nil`), and the block is followed by "default
certificate if one was selected, else the error" — the order `afterMiss` follows -/
theorem C03_tie_load_block_falls_through :
    CM.Gen.C03.loadBlockUnconditionalReturns = 0 ∧
    -- (after fix D3b a loaded-but-expired certificate whose maintenance failed is returned
    -- together with its error; the only return with a nil error is under `err == nil`)
    CM.Gen.C03.loadBlockReturns =
      ["err == nil => loadedCert,nil", "!loadedCert.Empty() => loadedCert,err",
       "cfg.OnDemand != nil => cfg.obtainOnDemandCertificate(ctx, hello)"] ∧
    CM.Gen.C03.afterLoadBlock = ["if defaulted return cert,nil", "return error"] := by decide

/-- `getCertificateFromCache` tries, in this order and nesting: (no SNI) the local IP of a
non-nil Conn, then the default name if set; (SNI) the exact name, then the wildcard
candidates in a loop; finally the fallback name if set — each followed by `if flag return`,
with `matched` for names that cover and `defaulted` for default/fallback -/
theorem C03_tie_lookup_order :
    CM.Gen.C03.selectCalls =
      [("localip", "matched!", "/nosni/conn"), ("default", "defaulted!", "/nosni/defaultset"),
       ("sni", "matched!", "/sni"), ("wildcard", "matched!", "/sni/loop:labels"),
       ("fallback", "defaulted!", "/fallbackset")] := by decide

/-- the wildcard loop splits on ".", sets `labels[i] = "*"` progressively, joins with "." -/
theorem C03_tie_wildcard_loop : CM.Gen.C03.wildcardLoop = (true, true, true) := by decide

/-- `DefaultCertificateSelector` has the shape of `selectDefault`/`scan` -/
theorem C03_tie_selector :
    CM.Gen.C03.selectorShape =
      ["single-choice-returned", "no-choice-error", "best=first", "for choices {", "skip-unsupported",
       "best=choice", "return-if-now-after-notbefore-and-before-expiresat", "}", "return best"] := by decide

/-- `SubjectQualifiesForCert`: the same tests, the same forbidden characters -/
theorem C03_tie_qualifies :
    CM.Gen.C03.forbiddenChars.toList = forbidden ∧
    CM.Gen.C03.qualifyTests =
      ["!=|", "strings.TrimSpace", "!", "strings.HasPrefix|.", "!", "strings.HasSuffix|.", "!",
       "strings.Contains|*", "strings.HasPrefix|*.", "==|*", "!", "strings.ContainsAny|SET"] := by decide

end CM.Tie.C03
