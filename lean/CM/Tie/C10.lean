import CM.Generated.C10
import CM.Model.AtomicFile
/-!
Tie of the C10 write-protocol model to `/repo`'s current source: the facts below are
re-extracted from `filestorage.go` and `internal/atomicfile/file.go` on every run
(`CM/Generated/C10.lean`). Each theorem states that a regenerated fact is the one the LTS
`CM.AtomicFile` (and hence `C10_whole_values`, `C10_last_wins`, `C10_crash_old_or_new`)
is about. The key/prefix semantics are tied behaviourally (differential on histories).
-/
namespace CM.Tie.C10
open CM.AtomicFile

/-- `atomicFile.Close` performs sync → close → rename, in this order, on its main path, and
a failure of any of them returns before the next (so nothing is renamed that was not
synced): the order `wSync` → `wClose` → `wRename` of the LTS -/
theorem C10_tie_close_order :
    CM.Gen.C10.closeSteps = closeProtocol ∧ CM.Gen.C10.closeStepsGuarded = true := by decide

/-- the temp file is created in the directory of the destination (`filepath.Dir(name)`),
so the rename is a same-directory rename, and it goes from that temp file to the
destination name: `wCreate` / `wRename` of the LTS -/
theorem C10_tie_temp_same_dir :
    CM.Gen.C10.tempInSameDir = true ∧ CM.Gen.C10.renameTempToName = true ∧
    CM.Gen.C10.newSteps.head? = some "createtemp" := by decide

/-- writes go to the temp file only; cancelling removes it and never renames -/
theorem C10_tie_write_cancel :
    CM.Gen.C10.writeGoesToTemp = true ∧ CM.Gen.C10.cancelRemovesTemp = true := by decide

/-- `FileStorage.Store` = MkdirAll, atomicfile.New(s.Filename(key)), Write(value), Close —
nothing else touches the file system on its main path (in particular nothing writes the
destination in place); a write error cancels; Close's error is returned -/
theorem C10_tie_store_steps :
    CM.Gen.C10.storeSteps = storeProtocol ∧ CM.Gen.C10.storeBranchSteps = ["cancel"] ∧
    CM.Gen.C10.storeTargetsKeyFile = true ∧ CM.Gen.C10.storeWritesWholeValue = true ∧
    CM.Gen.C10.storeReturnsCloseError = true := by decide

/-- `Load` is one whole-file read (open, read to EOF): `rOpen`, `rRead`*, `rEOF` -/
theorem C10_tie_load : CM.Gen.C10.loadSteps = ["readfile"] := by decide

/-- `Delete` is a recursive removal of the key's path -/
theorem C10_tie_delete : CM.Gen.C10.deleteSteps = ["removeall"] := by decide

end CM.Tie.C10
