/-
Ties of the FUNCTION TRANSLATOR (go/extract/fn.go): for each pure function of /repo that the
translator carries across whole (CM/Generated/Fn.lean, regenerated from the source on every
run), the hand-written model function used by the property theorems is PROVED EQUAL to the
translated one for ALL inputs. A change of the Go function that changes its meaning makes the
equality unprovable (the tie breaks; the differential, which also runs the generated definition,
searches for the failing input); a change that keeps its meaning but not its shape can break the
proof script too — then the check reports `no-failing-input-found`, as the brief prescribes.

Trusted: the translator and CM/Lib/GoLite.lean (the Lean reading of Go's statements and of the
white-listed part of package `strings`); both are exercised on every run by executing the
generated definitions in the driver against the real functions.
-/
import CM.Generated.Fn
import CM.Model.OCSP
namespace CM.Tie.FnC14
open CM.Go

theorem C14_tie_fn_currentOCSP (now : Int) (r : CM.OCSP.Resp)
    (hnu : ∀ nu, r.nextUpdate = some nu → nu ≠ 0) :
    CM.Gen.Fn.currentOCSP now ⟨r.thisUpdate, r.nextUpdate.getD 0, 0, none⟩ = CM.OCSP.current now r := by
  unfold CM.Gen.Fn.currentOCSP CM.OCSP.current
  simp only [time_Before, time_After, time_IsZero]
  cases hn : r.nextUpdate with
  | none =>
    simp only [Option.getD_none, beq_self_eq_true, Bool.true_or, Bool.and_true]
    by_cases h : r.thisUpdate ≤ now
    · have : ¬ now < r.thisUpdate := by omega
      simp [h, this]
    · have : now < r.thisUpdate := by omega
      simp [h, this]
  | some nu =>
    have hz : (nu == 0) = false := by simpa using hnu nu hn
    simp only [Option.getD_some, hz, Bool.false_or]
    by_cases h : r.thisUpdate ≤ now <;> by_cases h2 : now ≤ nu
    all_goals (first | (have a : ¬ now < r.thisUpdate := by omega) | (have a : now < r.thisUpdate := by omega))
    all_goals (first | (have b : ¬ now > nu := by omega) | (have b : now > nu := by omega))
    all_goals simp [h, h2, a, b]

def statusCode : CM.OCSP.Status → Int
  | .good => 0
  | .revoked => 1
  | .unknown => 2

/-- a model response as the translated struct -/
def encResp (r : CM.OCSP.Resp) : CM.Gen.Fn.ocsp_Response := ⟨r.thisUpdate, r.nextUpdate.getD 0, statusCode r.status, none⟩

/-- **the model's `shouldForce` IS the translated `certShouldBeForceRenewed`**: for every cache entry
(managed or not, any list of names, with or without a stapled response of any status). -/
theorem C14_tie_fn_certShouldBeForceRenewed (managed : Bool) (names : List Str) (o : Option CM.OCSP.Resp) :
    CM.Gen.Fn.certShouldBeForceRenewed ⟨names, managed, o.map encResp⟩
      = CM.OCSP.shouldForce managed (!names.isEmpty) o := by
  unfold CM.Gen.Fn.certShouldBeForceRenewed CM.OCSP.shouldForce
  have hlen : decide (Go.len names > (0 : Int)) = !names.isEmpty := by
    cases names with
    | nil => rfl
    | cons a t => simp [Go.len, Len.lenN]
  simp only [hlen]
  cases o with
  | none => simp
  | some r =>
    have hs : ((statusCode r.status == (1 : Int)) = decide (r.status = .revoked)) := by
      cases r.status <;> rfl
    simp [deref, encResp, hs]

/-! ### `freshOCSP` (C14): saturating `Sub`, the responder certificate behind a nilable pointer -/

/-- a model response as the translated struct, instants shifted by `K` (the distance from the zero time to
the model's epoch) -/
def encRespK (K : Int) (r : CM.OCSP.Resp) : CM.Gen.Fn.ocsp_Response :=
  { ThisUpdate := r.thisUpdate + K
    NextUpdate := (r.nextUpdate.map (· + K)).getD 0
    Status := statusCode r.status
    Certificate := r.responderNotAfter.map (fun ca => ⟨ca + K⟩) }

theorem tdiv_min : Int.tdiv minDuration 2 = -4611686018427387904 := by decide

/-- **the model's `fresh` IS the translated `freshOCSP`** — including the case of an absent NextUpdate, where
Go's saturating `Sub` puts the refresh time 2^62 ns before ThisUpdate (the model's `halfMinDuration`):
for every shift `K` that makes the instants real ones (more than 2^63 ns after the zero time — true of
every date after the year 293), every `now`, and every response whose validity period and responder
certificate lie within ±2^63 ns (292 years) of ThisUpdate. -/
theorem C14_tie_fn_freshOCSP (K now : Int) (r : CM.OCSP.Resp)
    (htu : r.thisUpdate + K > 9223372036854775808)
    (hnu : ∀ nu, r.nextUpdate = some nu → nu + K > 0 ∧ nu - r.thisUpdate ≤ 9223372036854775807 ∧
      -9223372036854775808 ≤ nu - r.thisUpdate)
    (hca : ∀ ca, r.responderNotAfter = some ca → ca + K > 0 ∧ ca - r.thisUpdate ≤ 9223372036854775807 ∧
      -9223372036854775808 ≤ ca - r.thisUpdate) :
    CM.Gen.Fn.freshOCSP (now + K) (encRespK K r) = CM.OCSP.fresh now r := by
  have hsub : ∀ x : Int, x - r.thisUpdate ≤ 9223372036854775807 → -9223372036854775808 ≤ x - r.thisUpdate →
      time_Sub (x + K) (r.thisUpdate + K) = x - r.thisUpdate := by
    intro x h1 h2
    unfold time_Sub maxDuration minDuration
    have e : x + K - (r.thisUpdate + K) = x - r.thisUpdate := by omega
    rw [e]
    have a : ¬ (x - r.thisUpdate > 9223372036854775807) := by omega
    have b : ¬ (x - r.thisUpdate < -9223372036854775808) := by omega
    simp only [a, b, if_false]
  have hzero : time_Sub 0 (r.thisUpdate + K) = minDuration := by
    unfold time_Sub maxDuration minDuration
    have a : ¬ (0 - (r.thisUpdate + K) > 9223372036854775807) := by omega
    have b : (0 - (r.thisUpdate + K) < -9223372036854775808) := by omega
    simp only [a, b, if_false, if_true]
  have hbefore : ∀ x y : Int, time_Before (x + K) (y + K) = decide (x < y) := by
    intro x y; unfold time_Before; apply decide_eq_decide.mpr; constructor <;> intro _ <;> omega
  unfold CM.Gen.Fn.freshOCSP CM.OCSP.fresh encRespK
  cases hn : r.nextUpdate with
  | none =>
    cases hc : r.responderNotAfter with
    | none =>
      simp only [Option.map_none, Option.getD_none, Option.isSome_none, Bool.false_and, Bool.false_eq_true,
        if_false, hzero, tdiv_min, time_Add, CM.OCSP.halfMinDuration]
      unfold time_Before; apply decide_eq_decide.mpr; constructor <;> intro _ <;> omega
    | some ca =>
      have hpos := (hca ca hc).1
      have hb : time_Before (ca + K) 0 = false := by unfold time_Before; simp; omega
      simp only [Option.map_none, Option.getD_none, Option.map_some, Option.isSome_some, Bool.true_and, deref,
        Option.getD_some, hb, Bool.false_eq_true, if_false, hzero, tdiv_min, time_Add, CM.OCSP.halfMinDuration]
      unfold time_Before; apply decide_eq_decide.mpr; constructor <;> intro _ <;> omega
  | some nu =>
    obtain ⟨_, hn1, hn2⟩ := hnu nu hn
    cases hc : r.responderNotAfter with
    | none =>
      simp only [Option.map_some, Option.getD_some, Option.map_none, Option.isSome_none, Bool.false_and,
        Bool.false_eq_true, if_false, hsub nu hn1 hn2, time_Add]
      have e : r.thisUpdate + K + (nu - r.thisUpdate).tdiv 2 = (r.thisUpdate + (nu - r.thisUpdate).tdiv 2) + K := by omega
      rw [e, hbefore]
      all_goals (try simp)
    | some ca =>
      obtain ⟨_, hc1, hc2⟩ := hca ca hc
      simp only [Option.map_some, Option.getD_some, Option.isSome_some, Bool.true_and, deref, hbefore]
      by_cases hlt : ca < nu
      · simp only [hlt, decide_true, if_true, hsub ca hc1 hc2, time_Add]
        have e : r.thisUpdate + K + (ca - r.thisUpdate).tdiv 2 = (r.thisUpdate + (ca - r.thisUpdate).tdiv 2) + K := by omega
        rw [e, hbefore]
        all_goals (try simp)
      · simp only [hlt, decide_false, Bool.false_eq_true, if_false, hsub nu hn1 hn2, time_Add]
        have e : r.thisUpdate + K + (nu - r.thisUpdate).tdiv 2 = (r.thisUpdate + (nu - r.thisUpdate).tdiv 2) + K := by omega
        rw [e, hbefore]
        all_goals (try simp)

/-! ### what the printed definitions mean -/

/-- the definition translated from `currentOCSP` on this run accepts a response iff `now` lies inside its
validity period (a response without NextUpdate does not expire) -/
theorem C14_fn_currentOCSP_means (now : Int) (r : CM.OCSP.Resp)
    (hnu : ∀ nu, r.nextUpdate = some nu → nu ≠ 0) :
    CM.Gen.Fn.currentOCSP now ⟨r.thisUpdate, r.nextUpdate.getD 0, 0, none⟩ = true ↔
      r.thisUpdate ≤ now ∧ ∀ nu, r.nextUpdate = some nu → now ≤ nu := by
  rw [C14_tie_fn_currentOCSP now r hnu]
  unfold CM.OCSP.current
  cases hn : r.nextUpdate with
  | none => simp
  | some nu => simp

end CM.Tie.FnC14
