import CM.Model.SingleFlight
/-! The inductive invariant of the single-flight LTS (repaired code) and its preservation. -/
namespace CM.SingleFlight

def isWorkerPC (p : PC) : Prop := p = .obtaining ∨ ∃ b, p = .renewing b
def isEndPC (p : PC) : Prop := p = .idle ∨ ∃ r, p = .done r

structure Inv (s : State) : Prop where
  a1 : ∀ c t, s.loadCh = some (c, t) → s.ownL t = some c ∧ s.closedL c = false ∧ c < s.nextL
  a2 : ∀ t c, s.ownL t = some c → s.loadCh = some (c, t)
  a3 : ∀ c t, s.obtCh = some (c, t) → s.ownO t = some c ∧ s.closedO c = false ∧ c < s.nextO
  a4 : ∀ t c, s.ownO t = some c → s.obtCh = some (c, t)
  w1 : ∀ t c, s.pc t = .waitLoad c →
        c < s.nextL ∧ s.ownL t = none ∧ (s.closedL c = false → ∃ u, s.loadCh = some (c, u))
  w2 : ∀ t c, s.pc t = .waitObtain c → c < s.nextO ∧ (s.closedO c = false → ∃ u, s.obtCh = some (c, u))
  p1 : ∀ t, isEndPC (s.pc t) → s.ownL t = none ∧ s.ownO t = none
  p2 : ∀ t, isWorkerPC (s.pc t) → ∃ c, s.ownO t = some c
  p3 : ∀ t c, s.ownO t = some c → isWorkerPC (s.pc t)
  p4 : ∀ t, (s.pc t = .gate true ∨ s.pc t = .loading) → ∃ c, s.ownL t = some c
  p5 : ∀ t, (s.pc t = .lookup true ∨ s.pc t = .loadSF true) → s.ownL t = none
  fL : ∀ c, s.nextL ≤ c → s.closedL c = false
  fO : ∀ c, s.nextO ≤ c → s.closedO c = false

theorem inv_init : Inv init := by
  refine ⟨?_, ?_, ?_, ?_, ?_, ?_, ?_, ?_, ?_, ?_, ?_, ?_, ?_⟩ <;> intros <;> simp_all [init, isWorkerPC, isEndPC]

/-- a thread that is not a worker holds no obtain channel -/
theorem Inv.noO {s : State} (hi : Inv s) (t : Nat) (h : ¬ isWorkerPC (s.pc t)) : s.ownO t = none := by
  cases ho : s.ownO t with
  | none => rfl
  | some c => exact absurd (hi.p3 t c ho) h

/-- moving one thread's program counter, nothing else -/
theorem inv_pc {s : State} (hi : Inv s) (t : Nat) (p : PC)
    (hw1 : ∀ c, p = .waitLoad c →
      c < s.nextL ∧ s.ownL t = none ∧ (s.closedL c = false → ∃ u, s.loadCh = some (c, u)))
    (hw2 : ∀ c, p = .waitObtain c → c < s.nextO ∧ (s.closedO c = false → ∃ u, s.obtCh = some (c, u)))
    (hp1 : isEndPC p → s.ownL t = none ∧ s.ownO t = none)
    (hp2 : isWorkerPC p → ∃ c, s.ownO t = some c)
    (hp3 : ∀ c, s.ownO t = some c → isWorkerPC p)
    (hp4 : (p = .gate true ∨ p = .loading) → ∃ c, s.ownL t = some c)
    (hp5 : (p = .lookup true ∨ p = .loadSF true) → s.ownL t = none) :
    Inv { s with pc := upd s.pc t p } := by
  refine ⟨hi.a1, hi.a2, hi.a3, hi.a4, ?_, ?_, ?_, ?_, ?_, ?_, ?_, hi.fL, hi.fO⟩
  · intro t' c h
    by_cases ht : t' = t
    · subst ht; simp only [upd_same] at h; exact hw1 c h
    · simp only [upd_other _ _ _ _ ht] at h; exact hi.w1 t' c h
  · intro t' c h
    by_cases ht : t' = t
    · subst ht; simp only [upd_same] at h; exact hw2 c h
    · simp only [upd_other _ _ _ _ ht] at h; exact hi.w2 t' c h
  · intro t' h
    by_cases ht : t' = t
    · subst ht; simp only [upd_same] at h; exact hp1 h
    · simp only [upd_other _ _ _ _ ht] at h; exact hi.p1 t' h
  · intro t' h
    by_cases ht : t' = t
    · subst ht; simp only [upd_same] at h; exact hp2 h
    · simp only [upd_other _ _ _ _ ht] at h; exact hi.p2 t' h
  · intro t' c h
    by_cases ht : t' = t
    · subst ht; simp only [upd_same]; exact hp3 c h
    · simp only [upd_other _ _ _ _ ht]; exact hi.p3 t' c h
  · intro t' h
    by_cases ht : t' = t
    · subst ht; simp only [upd_same] at h; exact hp4 h
    · simp only [upd_other _ _ _ _ ht] at h; exact hi.p4 t' h
  · intro t' h
    by_cases ht : t' = t
    · subst ht; simp only [upd_same] at h; exact hp5 h
    · simp only [upd_other _ _ _ _ ht] at h; exact hi.p5 t' h

/-- thread t registers a fresh load channel and goes to `gate load` -/
theorem inv_regLoad {s : State} (hi : Inv s) (t : Nat) (load : Bool) (hnone : s.loadCh = none)
    (hnw : ¬ isWorkerPC (s.pc t)) :
    Inv { s with pc := upd s.pc t (.gate load), ownL := upd s.ownL t (some s.nextL),
                 loadCh := some (s.nextL, t), nextL := s.nextL + 1 } := by
  have hnoL : ∀ u c, s.ownL u = some c → False := by
    intro u c h; have := hi.a2 u c h; rw [hnone] at this; cases this
  refine ⟨?_, ?_, ?_, ?_, ?_, ?_, ?_, ?_, ?_, ?_, ?_, ?_, hi.fO⟩
  · intro c u h
    simp only [Option.some.injEq, Prod.mk.injEq] at h
    obtain ⟨rfl, rfl⟩ := h
    exact ⟨by simp, hi.fL _ (Nat.le_refl _), Nat.lt_succ_self _⟩
  · intro u c h
    by_cases hu : u = t
    · subst hu; simp only [upd_same, Option.some.injEq] at h; subst h; rfl
    · simp only [upd_other _ _ _ _ hu] at h; exact absurd h (fun h => hnoL u c h)
  · exact hi.a3
  · exact hi.a4
  · intro u c h
    by_cases hu : u = t
    · subst hu; simp [upd_same] at h
    · simp only [upd_other _ _ _ _ hu] at h ⊢
      obtain ⟨h1, h2, h3⟩ := hi.w1 u c h
      refine ⟨Nat.lt_succ_of_lt h1, h2, ?_⟩
      intro hc
      obtain ⟨v, hv⟩ := h3 hc
      rw [hnone] at hv; cases hv
  · intro u c h
    by_cases hu : u = t
    · subst hu; simp [upd_same] at h
    · simp only [upd_other _ _ _ _ hu] at h
      exact hi.w2 u c h
  · intro u h
    by_cases hu : u = t
    · subst hu; simp [upd_same, isEndPC] at h
    · simp only [upd_other _ _ _ _ hu] at h ⊢; exact hi.p1 u h
  · intro u h
    by_cases hu : u = t
    · subst hu; simp [upd_same, isWorkerPC] at h
    · simp only [upd_other _ _ _ _ hu] at h; exact hi.p2 u h
  · intro u c h
    by_cases hu : u = t
    · subst hu; exact absurd (hi.p3 u c h) hnw
    · simp only [upd_other _ _ _ _ hu]; exact hi.p3 u c h
  · intro u h
    by_cases hu : u = t
    · subst hu; exact ⟨s.nextL, by simp⟩
    · simp only [upd_other _ _ _ _ hu] at h ⊢; exact hi.p4 u h
  · intro u h
    by_cases hu : u = t
    · subst hu; simp [upd_same] at h
    · simp only [upd_other _ _ _ _ hu] at h ⊢; exact hi.p5 u h
  · intro c h
    exact hi.fL c (Nat.le_of_succ_le h)

/-- thread `t` moves to `p` while thread `u` (possibly `t` itself) registers a fresh obtain
channel and becomes a worker with program counter `q` -/
theorem inv_regObtain {s : State} (hi : Inv s) (t u : Nat) (p q : PC) (hnone : s.obtCh = none)
    (hq : isWorkerPC q) (hpq : t = u → p = q)
    (hp : t ≠ u → (∀ c, p ≠ .waitLoad c) ∧ (∀ c, p ≠ .waitObtain c) ∧ ¬ isEndPC p ∧ ¬ isWorkerPC p ∧
      p ≠ .gate true ∧ p ≠ .loading ∧ p ≠ .lookup true ∧ p ≠ .loadSF true)
    (hu : t ≠ u → s.pc u = .idle) :
    Inv { s with pc := upd (upd s.pc t p) u q, ownO := upd s.ownO u (some s.nextO),
                 obtCh := some (s.nextO, u), nextO := s.nextO + 1 } := by
  have hnoO : ∀ v c, s.ownO v = some c → False := by
    intro v c h; have := hi.a4 v c h; rw [hnone] at this; cases this
  have hq1 : ∀ c, q ≠ .waitLoad c := by
    intro c h; rcases hq with h' | ⟨b, h'⟩ <;> rw [h'] at h <;> cases h
  have hq2 : ∀ c, q ≠ .waitObtain c := by
    intro c h; rcases hq with h' | ⟨b, h'⟩ <;> rw [h'] at h <;> cases h
  have hq3 : ¬ isEndPC q := by
    intro h; rcases hq with h' | ⟨b, h'⟩ <;> rcases h with h | ⟨r, h⟩ <;> rw [h'] at h <;> cases h
  have hq4 : q ≠ .gate true ∧ q ≠ .loading ∧ q ≠ .lookup true ∧ q ≠ .loadSF true := by
    rcases hq with h' | ⟨b, h'⟩ <;> rw [h'] <;> simp
  -- the program counter of a thread after the step
  have pcOf : ∀ v, (upd (upd s.pc t p) u q) v = if v = u then q else if v = t then p else s.pc v := by
    intro v; simp only [upd]
  refine ⟨?_, ?_, ?_, ?_, ?_, ?_, ?_, ?_, ?_, ?_, ?_, hi.fL, ?_⟩
  · exact hi.a1
  · exact hi.a2
  · intro c v h
    simp only [Option.some.injEq, Prod.mk.injEq] at h
    obtain ⟨rfl, rfl⟩ := h
    exact ⟨by simp, hi.fO _ (Nat.le_refl _), Nat.lt_succ_self _⟩
  · intro v c h
    by_cases hv : v = u
    · subst hv; simp only [upd_same, Option.some.injEq] at h; subst h; rfl
    · simp only [upd_other _ _ _ _ hv] at h; exact absurd h (fun h => hnoO v c h)
  · intro v c h
    dsimp only at h
    rw [pcOf] at h
    by_cases hv : v = u
    · simp only [hv, if_true] at h; exact absurd h (hq1 c)
    · simp only [hv, if_false] at h
      by_cases hvt : v = t
      · simp only [hvt, if_true] at h
        have htu : t ≠ u := fun e => hv (hvt.trans e)
        exact absurd h ((hp htu).1 c)
      · simp only [hvt, if_false] at h
        exact hi.w1 v c h
  · intro v c h
    dsimp only at h
    rw [pcOf] at h
    by_cases hv : v = u
    · simp only [hv, if_true] at h; exact absurd h (hq2 c)
    · simp only [hv, if_false] at h
      by_cases hvt : v = t
      · simp only [hvt, if_true] at h
        have htu : t ≠ u := fun e => hv (hvt.trans e)
        exact absurd h ((hp htu).2.1 c)
      · simp only [hvt, if_false] at h
        obtain ⟨h1, h2⟩ := hi.w2 v c h
        refine ⟨Nat.lt_succ_of_lt h1, ?_⟩
        intro hc
        obtain ⟨w, hw⟩ := h2 hc
        rw [hnone] at hw; cases hw
  · intro v h
    dsimp only at h
    rw [pcOf] at h
    by_cases hv : v = u
    · simp only [hv, if_true] at h; exact absurd h hq3
    · simp only [hv, if_false] at h
      by_cases hvt : v = t
      · simp only [hvt, if_true] at h
        have htu : t ≠ u := fun e => hv (hvt.trans e)
        exact absurd h (hp htu).2.2.1
      · simp only [hvt, if_false] at h
        simp only [upd_other _ _ _ _ hv]
        exact hi.p1 v h
  · intro v h
    dsimp only at h
    rw [pcOf] at h
    by_cases hv : v = u
    · subst hv; exact ⟨s.nextO, by simp⟩
    · simp only [hv, if_false] at h
      by_cases hvt : v = t
      · simp only [hvt, if_true] at h
        have htu : t ≠ u := fun e => hv (hvt.trans e)
        exact absurd h (hp htu).2.2.2.1
      · simp only [hvt, if_false] at h
        simp only [upd_other _ _ _ _ hv]
        exact hi.p2 v h
  · intro v c h
    dsimp only
    rw [pcOf]
    by_cases hv : v = u
    · simp only [hv, if_true]; exact hq
    · simp only [upd_other _ _ _ _ hv] at h; exact absurd h (fun h => hnoO v c h)
  · intro v h
    dsimp only at h
    rw [pcOf] at h
    by_cases hv : v = u
    · simp only [hv, if_true] at h; rcases h with h | h
      · exact absurd h hq4.1
      · exact absurd h hq4.2.1
    · simp only [hv, if_false] at h
      by_cases hvt : v = t
      · simp only [hvt, if_true] at h
        have htu : t ≠ u := fun e => hv (hvt.trans e)
        rcases h with h | h
        · exact absurd h (hp htu).2.2.2.2.1
        · exact absurd h (hp htu).2.2.2.2.2.1
      · simp only [hvt, if_false] at h; exact hi.p4 v h
  · intro v h
    dsimp only at h
    rw [pcOf] at h
    by_cases hv : v = u
    · simp only [hv, if_true] at h; rcases h with h | h
      · exact absurd h hq4.2.2.1
      · exact absurd h hq4.2.2.2
    · simp only [hv, if_false] at h
      by_cases hvt : v = t
      · simp only [hvt, if_true] at h
        have htu : t ≠ u := fun e => hv (hvt.trans e)
        rcases h with h | h
        · exact absurd h (hp htu).2.2.2.2.2.2.1
        · exact absurd h (hp htu).2.2.2.2.2.2.2
      · simp only [hvt, if_false] at h; exact hi.p5 v h
  · intro c h
    exact hi.fO c (Nat.le_of_succ_le h)

/-- the worker `t` closes and deletes its obtain channel `c` (one critical section) and moves
to `p` -/
theorem inv_finish {s : State} (hi : Inv s) (t c : Nat) (p : PC) (ho : s.ownO t = some c)
    (hp : (∀ d, p ≠ .waitLoad d) ∧ (∀ d, p ≠ .waitObtain d) ∧ ¬ isWorkerPC p ∧ p ≠ .gate true ∧ p ≠ .loading ∧
      p ≠ .lookup true ∧ p ≠ .loadSF true)
    (hend : isEndPC p → s.ownL t = none) :
    Inv { s with pc := upd s.pc t p, ownO := upd s.ownO t none, obtCh := none, closedO := upd s.closedO c true } := by
  have hch := hi.a4 t c ho
  obtain ⟨_, hcl, hlt⟩ := hi.a3 c t hch
  have honly : ∀ v d, s.ownO v = some d → v = t ∧ d = c := by
    intro v d h
    have := hi.a4 v d h
    rw [hch] at this
    simp only [Option.some.injEq, Prod.mk.injEq] at this
    exact ⟨this.2.symm, this.1.symm⟩
  refine ⟨hi.a1, hi.a2, ?_, ?_, ?_, ?_, ?_, ?_, ?_, ?_, ?_, hi.fL, ?_⟩
  · intro d v h; cases h
  · intro v d h
    by_cases hv : v = t
    · subst hv; simp [upd_same] at h
    · simp only [upd_other _ _ _ _ hv] at h; exact absurd (honly v d h).1 hv
  · intro v d h
    by_cases hv : v = t
    · subst hv; simp only [upd_same] at h; exact absurd h (hp.1 d)
    · simp only [upd_other _ _ _ _ hv] at h; exact hi.w1 v d h
  · intro v d h
    by_cases hv : v = t
    · subst hv; simp only [upd_same] at h; exact absurd h (hp.2.1 d)
    · simp only [upd_other _ _ _ _ hv] at h
      obtain ⟨h1, h2⟩ := hi.w2 v d h
      refine ⟨h1, ?_⟩
      intro hc
      by_cases hd : d = c
      · subst hd; simp [upd_same] at hc
      · simp only [upd_other _ _ _ _ hd] at hc
        obtain ⟨w, hw⟩ := h2 hc
        rw [hch] at hw
        simp only [Option.some.injEq, Prod.mk.injEq] at hw
        exact absurd hw.1.symm hd
  · intro v h
    by_cases hv : v = t
    · subst hv; simp only [upd_same] at h ⊢; exact ⟨hend h, trivial⟩
    · simp only [upd_other _ _ _ _ hv] at h ⊢; exact hi.p1 v h
  · intro v h
    by_cases hv : v = t
    · subst hv; simp only [upd_same] at h; exact absurd h hp.2.2.1
    · simp only [upd_other _ _ _ _ hv] at h
      obtain ⟨d, hd⟩ := hi.p2 v h
      exact absurd (honly v d hd).1 hv
  · intro v d h
    by_cases hv : v = t
    · subst hv; simp [upd_same] at h
    · simp only [upd_other _ _ _ _ hv] at h; exact absurd (honly v d h).1 hv
  · intro v h
    by_cases hv : v = t
    · subst hv; simp only [upd_same] at h; rcases h with h | h
      · exact absurd h hp.2.2.2.1
      · exact absurd h hp.2.2.2.2.1
    · simp only [upd_other _ _ _ _ hv] at h; exact hi.p4 v h
  · intro v h
    by_cases hv : v = t
    · subst hv; simp only [upd_same] at h; rcases h with h | h
      · exact absurd h hp.2.2.2.2.2.1
      · exact absurd h hp.2.2.2.2.2.2
    · simp only [upd_other _ _ _ _ hv] at h; exact hi.p5 v h
  · intro d h
    have hne : d ≠ c := by intro e; subst e; exact absurd hlt (Nat.not_lt.2 h)
    simp only [upd_other _ _ _ _ hne]; exact hi.fO d h

/-- thread `t` (in `unwind r`) closes and deletes its load channel `c` (the deferred critical
section) and is done -/
theorem inv_ret {s : State} (hi : Inv s) (t c : Nat) (r : Res) (hl : s.ownL t = some c)
    (hpc : s.pc t = .unwind r) :
    Inv { s with pc := upd s.pc t (.done r), ownL := upd s.ownL t none, loadCh := none,
                 closedL := upd s.closedL c true } := by
  have hch := hi.a2 t c hl
  obtain ⟨_, hcl, hlt⟩ := hi.a1 c t hch
  have honly : ∀ v d, s.ownL v = some d → v = t ∧ d = c := by
    intro v d h
    have := hi.a2 v d h
    rw [hch] at this
    simp only [Option.some.injEq, Prod.mk.injEq] at this
    exact ⟨this.2.symm, this.1.symm⟩
  have hnoO : s.ownO t = none := hi.noO t (by rw [hpc]; simp [isWorkerPC])
  refine ⟨?_, ?_, hi.a3, hi.a4, ?_, ?_, ?_, ?_, ?_, ?_, ?_, ?_, hi.fO⟩
  · intro d v h; cases h
  · intro v d h
    by_cases hv : v = t
    · subst hv; simp [upd_same] at h
    · simp only [upd_other _ _ _ _ hv] at h; exact absurd (honly v d h).1 hv
  · intro v d h
    by_cases hv : v = t
    · subst hv; simp [upd_same] at h
    · simp only [upd_other _ _ _ _ hv] at h ⊢
      obtain ⟨h1, h2, h3⟩ := hi.w1 v d h
      refine ⟨h1, h2, ?_⟩
      intro hc
      by_cases hd : d = c
      · subst hd; simp [upd_same] at hc
      · simp only [upd_other _ _ _ _ hd] at hc
        obtain ⟨w, hw⟩ := h3 hc
        rw [hch] at hw
        simp only [Option.some.injEq, Prod.mk.injEq] at hw
        exact absurd hw.1.symm hd
  · intro v d h
    by_cases hv : v = t
    · subst hv; simp [upd_same] at h
    · simp only [upd_other _ _ _ _ hv] at h; exact hi.w2 v d h
  · intro v h
    by_cases hv : v = t
    · subst hv; simp only [upd_same]; exact ⟨trivial, hnoO⟩
    · simp only [upd_other _ _ _ _ hv] at h ⊢; exact hi.p1 v h
  · intro v h
    by_cases hv : v = t
    · subst hv; simp [upd_same, isWorkerPC] at h
    · simp only [upd_other _ _ _ _ hv] at h; exact hi.p2 v h
  · intro v d h
    by_cases hv : v = t
    · subst hv; rw [hnoO] at h; cases h
    · simp only [upd_other _ _ _ _ hv]; exact hi.p3 v d h
  · intro v h
    by_cases hv : v = t
    · subst hv; simp [upd_same] at h
    · simp only [upd_other _ _ _ _ hv] at h ⊢
      obtain ⟨d, hd⟩ := hi.p4 v h
      exact absurd (honly v d hd).1 hv
  · intro v h
    by_cases hv : v = t
    · subst hv; simp [upd_same] at h
    · simp only [upd_other _ _ _ _ hv] at h ⊢; exact hi.p5 v h
  · intro d h
    have hne : d ≠ c := by intro e; subst e; exact absurd hlt (Nat.not_lt.2 h)
    simp only [upd_other _ _ _ _ hne]; exact hi.fL d h

theorem upd_upd {α : Type} (f : Nat → α) (i : Nat) (v w : α) : upd (upd f i v) i w = upd f i w := by
  funext j; simp only [upd]; split <;> rfl

theorem worker_facts (q : PC) (hq : isWorkerPC q) :
    (∀ d, q ≠ .waitLoad d) ∧ (∀ d, q ≠ .waitObtain d) ∧ ¬ isEndPC q ∧ q ≠ .gate true ∧ q ≠ .loading ∧
      q ≠ .lookup true ∧ q ≠ .loadSF true := by
  rcases hq with h | ⟨b, h⟩ <;> subst h <;> simp [isEndPC]

/-- **the invariant is inductive** (repaired code) -/
theorem inv_step {s s' : State} (e : Ev) (hi : Inv s) (h : step true s e = some s') : Inv s' := by
  cases e with
  | begin t =>
    simp only [step] at h
    split at h
    · rename_i hpc
      simp only [Option.some.injEq] at h; subst h
      have hp1 := hi.p1 t (Or.inl hpc)
      exact inv_pc hi t _ (by simp) (by simp) (by simp [isEndPC]) (by simp [isWorkerPC])
        (by intro c hc; rw [hp1.2] at hc; cases hc) (by simp) (fun _ => hp1.1)
    · cases h
  | look t hit mt tl rv =>
    simp only [step] at h
    split at h
    · rename_i load hpc
      have hnw : ¬ isWorkerPC (s.pc t) := by rw [hpc]; simp [isWorkerPC]
      have hno := hi.noO t hnw
      have hp3 : ∀ (p : PC) c, s.ownO t = some c → isWorkerPC p := by
        intro p c hc; rw [hno] at hc; cases hc
      split at h
      · split at h
        · simp only [Option.some.injEq] at h; subst h
          exact inv_pc hi t _ (by simp) (by simp) (by simp [isEndPC]) (by simp [isWorkerPC]) (hp3 _) (by simp) (by simp)
        · simp only [Option.some.injEq] at h; subst h
          exact inv_pc hi t _ (by simp) (by simp) (by simp [isEndPC]) (by simp [isWorkerPC]) (hp3 _) (by simp) (by simp)
      · simp only [Option.some.injEq] at h; subst h
        refine inv_pc hi t _ (by simp) (by simp) (by simp [isEndPC]) (by simp [isWorkerPC]) (hp3 _) (by simp) ?_
        intro hl
        simp only [PC.loadSF.injEq, reduceCtorEq, false_or] at hl
        subst hl
        exact hi.p5 t (Or.inl hpc)
    · cases h
  | enterLoad t =>
    simp only [step] at h
    split at h
    · rename_i load hpc
      have hnw : ¬ isWorkerPC (s.pc t) := by rw [hpc]; simp [isWorkerPC]
      have hno := hi.noO t hnw
      have hp3 : ∀ (p : PC) c, s.ownO t = some c → isWorkerPC p := by
        intro p c hc; rw [hno] at hc; cases hc
      split at h
      · simp only [Option.some.injEq] at h; subst h
        exact inv_pc hi t _ (by simp) (by simp) (by simp [isEndPC]) (by simp [isWorkerPC]) (hp3 _) (by simp) (by simp)
      · rename_i hex
        split at h
        · rename_i c u hch
          simp only [Option.some.injEq] at h; subst h
          obtain ⟨_, _, hlt⟩ := hi.a1 c u hch
          have hnoL : s.ownL t = none := by
            cases load with
            | true => exact hi.p5 t (Or.inr hpc)
            | false =>
              cases hl : s.ownL t with
              | none => rfl
              | some d => simp [hl] at hex
          refine inv_pc hi t _ ?_ (by simp) (by simp [isEndPC]) (by simp [isWorkerPC]) (hp3 _) (by simp) (by simp)
          intro d hd
          simp only [PC.waitLoad.injEq] at hd
          subst hd
          exact ⟨hlt, hnoL, fun _ => ⟨u, hch⟩⟩
        · rename_i hch
          simp only [Option.some.injEq] at h; subst h
          exact inv_regLoad hi t load hch hnw
    · cases h
  | wake t =>
    simp only [step] at h
    split at h
    · rename_i c hpc
      have hnw : ¬ isWorkerPC (s.pc t) := by rw [hpc]; simp [isWorkerPC]
      have hno := hi.noO t hnw
      split at h
      · simp only [Option.some.injEq] at h; subst h
        exact inv_pc hi t _ (by simp) (by simp) (by simp [isEndPC]) (by simp [isWorkerPC])
          (by intro c hc; rw [hno] at hc; cases hc) (by simp) (by simp)
      · cases h
    · rename_i c hpc
      have hnw : ¬ isWorkerPC (s.pc t) := by rw [hpc]; simp [isWorkerPC]
      have hno := hi.noO t hnw
      split at h
      · simp only [Option.some.injEq] at h; subst h
        exact inv_pc hi t _ (by simp) (by simp) (by simp [isEndPC]) (by simp [isWorkerPC])
          (by intro c hc; rw [hno] at hc; cases hc) (by simp) (by simp)
      · cases h
    · cases h
  | timeout t =>
    simp only [step] at h
    split at h
    · rename_i c hpc
      have hnw : ¬ isWorkerPC (s.pc t) := by rw [hpc]; simp [isWorkerPC]
      have hno := hi.noO t hnw
      simp only [Option.some.injEq] at h; subst h
      exact inv_pc hi t _ (by simp) (by simp) (by simp [isEndPC]) (by simp [isWorkerPC])
        (by intro c hc; rw [hno] at hc; cases hc) (by simp) (by simp)
    · rename_i c hpc
      have hnw : ¬ isWorkerPC (s.pc t) := by rw [hpc]; simp [isWorkerPC]
      have hno := hi.noO t hnw
      simp only [Option.some.injEq] at h; subst h
      exact inv_pc hi t _ (by simp) (by simp) (by simp [isEndPC]) (by simp [isWorkerPC])
        (by intro c hc; rw [hno] at hc; cases hc) (by simp) (by simp)
    · cases h
  | gated t permit r =>
    simp only [step] at h
    split at h
    · rename_i load hpc
      have hnw : ¬ isWorkerPC (s.pc t) := by rw [hpc]; simp [isWorkerPC]
      have hno := hi.noO t hnw
      split at h
      · rename_i hlp
        simp only [Option.some.injEq] at h; subst h
        simp only [Bool.and_eq_true] at hlp
        have hl := hlp.1
        subst hl
        exact inv_pc hi t _ (by simp) (by simp) (by simp [isEndPC]) (by simp [isWorkerPC])
          (by intro c hc; rw [hno] at hc; cases hc) (fun _ => hi.p4 t (Or.inl hpc)) (by simp)
      · simp only [Option.some.injEq] at h; subst h
        exact inv_pc hi t _ (by simp) (by simp) (by simp [isEndPC]) (by simp [isWorkerPC])
          (by intro c hc; rw [hno] at hc; cases hc) (by simp) (by simp)
    · cases h
  | loaded t found mt tl rv =>
    simp only [step] at h
    split at h
    · rename_i hpc
      have hnw : ¬ isWorkerPC (s.pc t) := by rw [hpc]; simp [isWorkerPC]
      have hno := hi.noO t hnw
      have hp3 : ∀ (p : PC) c, s.ownO t = some c → isWorkerPC p := by
        intro p c hc; rw [hno] at hc; cases hc
      split at h
      · split at h
        · simp only [Option.some.injEq] at h; subst h
          exact inv_pc hi t _ (by simp) (by simp) (by simp [isEndPC]) (by simp [isWorkerPC]) (hp3 _) (by simp) (by simp)
        · simp only [Option.some.injEq] at h; subst h
          exact inv_pc hi t _ (by simp) (by simp) (by simp [isEndPC]) (by simp [isWorkerPC]) (hp3 _) (by simp) (by simp)
      · simp only [Option.some.injEq] at h; subst h
        exact inv_pc hi t _ (by simp) (by simp) (by simp [isEndPC]) (by simp [isWorkerPC]) (hp3 _) (by simp) (by simp)
    · cases h
  | maintGo t missing permit =>
    simp only [step] at h
    split at h
    · rename_i tl rv hpc
      have hnw : ¬ isWorkerPC (s.pc t) := by rw [hpc]; simp [isWorkerPC]
      have hno := hi.noO t hnw
      have hp3 : ∀ (p : PC) c, s.ownO t = some c → isWorkerPC p := by
        intro p c hc; rw [hno] at hc; cases hc
      split at h
      · simp only [Option.some.injEq] at h; subst h
        exact inv_pc hi t _ (by simp) (by simp) (by simp [isEndPC]) (by simp [isWorkerPC]) (hp3 _) (by simp) (by simp)
      · split at h
        · split at h
          · simp only [Option.some.injEq] at h; subst h
            exact inv_pc hi t _ (by simp) (by simp) (by simp [isEndPC]) (by simp [isWorkerPC]) (hp3 _) (by simp) (by simp)
          · simp only [Option.some.injEq] at h; subst h
            exact inv_pc hi t _ (by simp) (by simp) (by simp [isEndPC]) (by simp [isWorkerPC]) (hp3 _) (by simp) (by simp)
        · simp only [Option.some.injEq] at h; subst h
          exact inv_pc hi t _ (by simp) (by simp) (by simp [isEndPC]) (by simp [isWorkerPC]) (hp3 _) (by simp) (by simp)
    · cases h
  | enterObtain t =>
    simp only [step] at h
    split at h
    · rename_i hpc
      have hnw : ¬ isWorkerPC (s.pc t) := by rw [hpc]; simp [isWorkerPC]
      have hno := hi.noO t hnw
      split at h
      · rename_i c u hch
        simp only [Option.some.injEq] at h; subst h
        obtain ⟨_, _, hlt⟩ := hi.a3 c u hch
        refine inv_pc hi t _ (by simp) ?_ (by simp [isEndPC]) (by simp [isWorkerPC])
          (by intro c hc; rw [hno] at hc; cases hc) (by simp) (by simp)
        intro d hd
        simp only [PC.waitObtain.injEq] at hd
        subst hd
        exact ⟨hlt, fun _ => ⟨u, hch⟩⟩
      · rename_i hch
        simp only [Option.some.injEq] at h; subst h
        have hq : isWorkerPC PC.obtaining := Or.inl rfl
        have := inv_regObtain hi t t .obtaining .obtaining hch hq (fun _ => rfl) (fun hne => absurd rfl hne)
          (fun hne => absurd rfl hne)
        rwa [upd_upd] at this
    · cases h
  | enterRenew t u =>
    simp only [step] at h
    split at h
    · rename_i tl rv hpc
      have hnw : ¬ isWorkerPC (s.pc t) := by rw [hpc]; simp [isWorkerPC]
      have hno := hi.noO t hnw
      split at h
      · rename_i c w hch
        obtain ⟨_, _, hlt⟩ := hi.a3 c w hch
        split at h
        · simp only [Option.some.injEq] at h; subst h
          exact inv_pc hi t _ (by simp) (by simp) (by simp [isEndPC]) (by simp [isWorkerPC])
            (by intro c hc; rw [hno] at hc; cases hc) (by simp) (by simp)
        · simp only [Option.some.injEq] at h; subst h
          refine inv_pc hi t _ (by simp) ?_ (by simp [isEndPC]) (by simp [isWorkerPC])
            (by intro c hc; rw [hno] at hc; cases hc) (by simp) (by simp)
          intro d hd
          simp only [PC.waitObtain.injEq] at hd
          subst hd
          exact ⟨hlt, fun _ => ⟨w, hch⟩⟩
      · rename_i hch
        split at h
        · split at h
          · rename_i hu
            simp only [Option.some.injEq] at h; subst h
            have hq : isWorkerPC (PC.renewing true) := Or.inr ⟨true, rfl⟩
            exact inv_regObtain hi t u (.unwind .cur) (.renewing true) hch hq (fun e => absurd e.symm hu.1)
              (fun _ => by simp [isEndPC, isWorkerPC]) (fun _ => hu.2)
          · cases h
        · simp only [Option.some.injEq] at h; subst h
          have hq : isWorkerPC (PC.renewing false) := Or.inr ⟨false, rfl⟩
          have := inv_regObtain hi t t (.renewing false) (.renewing false) hch hq (fun _ => rfl)
            (fun hne => absurd rfl hne) (fun hne => absurd rfl hne)
          rwa [upd_upd] at this
    · cases h
  | finish t ok =>
    simp only [step] at h
    split at h
    · rename_i c hpc ho
      simp only [Option.some.injEq] at h; subst h
      exact inv_finish hi t c _ ho (by simp [isWorkerPC]) (by simp [isEndPC])
    · rename_i b c hpc ho
      simp only [Option.some.injEq] at h; subst h
      exact inv_finish hi t c _ ho (by simp [isWorkerPC]) (by simp [isEndPC])
    · cases h
  | ret t =>
    simp only [step] at h
    split at h
    · rename_i r hpc
      split at h
      · rename_i c hl
        simp only [Option.some.injEq] at h; subst h
        exact inv_ret hi t c r hl hpc
      · rename_i hl
        simp only [Option.some.injEq] at h; subst h
        have hnw : ¬ isWorkerPC (s.pc t) := by rw [hpc]; simp [isWorkerPC]
        have hno := hi.noO t hnw
        exact inv_pc hi t _ (by simp) (by simp) (fun _ => ⟨hl, hno⟩) (by simp [isWorkerPC])
          (by intro c hc; rw [hno] at hc; cases hc) (by simp) (by simp)
    · cases h

theorem inv_reachable {s : State} (h : Reachable s) : Inv s := by
  induction h with
  | init => exact inv_init
  | step e _ hs ih => exact inv_step e ih hs

end CM.SingleFlight
