import CM.Model.Safe
/-! Helper lemmas for C11 (property theorems are in `CM/Props/C11.lean`). -/
namespace CM.Safe

/-- executable "contains `..`" -/
def hasDD : Str → Bool
  | [] => false
  | [_] => false
  | c :: d :: rest => if c = '.' ∧ d = '.' then true else hasDD (d :: rest)

theorem stripDD_mem {c : Char} : ∀ {s : Str}, c ∈ stripDD s → c ∈ s := by
  intro s
  generalize hn : s.length = n
  induction n using Nat.strongRecOn generalizing s with
  | _ n ih =>
    match s, hn with
    | [], _ => simp [stripDD]
    | [x], _ => simp [stripDD]
    | x :: y :: r, hn =>
      simp only [stripDD]
      split
      · intro h
        have := ih r.length (by simp at hn; omega) rfl h
        simp [this]
      · intro h
        rcases List.mem_cons.mp h with h | h
        · simp [h]
        · have := ih (y :: r).length (by simp at hn ⊢; omega) rfl h
          exact List.mem_cons_of_mem _ this

/-- one pass deleting `..` leaves no `..` -/
theorem stripDD_noDD (s : Str) : hasDD (stripDD s) = false := by
  generalize hn : s.length = n
  induction n using Nat.strongRecOn generalizing s with
  | _ n ih =>
    match s, hn with
    | [], _ => simp [stripDD, hasDD]
    | [c], _ => simp [stripDD, hasDD]
    | c :: d :: rest, hn =>
      simp only [stripDD]
      split
      · exact ih rest.length (by simp at hn; omega) rest rfl
      · rename_i hcd
        have ih1 := ih (d :: rest).length (by simp at hn ⊢; omega) (d :: rest) rfl
        match hr : stripDD (d :: rest) with
        | [] => simp [hasDD]
        | e :: tl =>
          rw [hr] at ih1
          simp only [hasDD]
          split
          · rename_i hce
            obtain ⟨hc, he⟩ := hce
            have hd : d ≠ '.' := fun h => hcd ⟨hc, h⟩
            have : ∃ tl', stripDD (d :: rest) = d :: tl' := by
              match rest with
              | [] => exact ⟨[], by simp [stripDD]⟩
              | r :: rs =>
                refine ⟨stripDD (r :: rs), ?_⟩
                simp [stripDD, hd]
            obtain ⟨tl', htl⟩ := this
            rw [htl] at hr; simp at hr; exact absurd (hr.1.trans he) hd
          · exact ih1

/-- without `..` the strip is the identity -/
theorem stripDD_id_of_noDD : ∀ (s : Str), hasDD s = false → stripDD s = s := by
  intro s
  generalize hn : s.length = n
  induction n using Nat.strongRecOn generalizing s with
  | _ n ih =>
    match s, hn with
    | [], _ => simp [stripDD]
    | [c], _ => simp [stripDD]
    | c :: d :: rest, hn =>
      intro h
      simp only [hasDD] at h
      split at h
      · simp at h
      · rename_i hcd
        simp only [stripDD, hcd, if_false]
        rw [ih (d :: rest).length (by simp at hn ⊢; omega) (d :: rest) rfl h]

/-- `hasDD` is exactly "`..` is a contiguous substring" -/
theorem hasDD_iff_infix (s : Str) : hasDD s = true ↔ dotdot <:+: s := by
  induction s with
  | nil => simp [hasDD, dotdot]
  | cons c t ih =>
    match t, ih with
    | [], _ =>
      simp only [hasDD, dotdot]
      constructor
      · intro h; cases h
      · intro h
        have := h.length_le
        simp at this
    | d :: r, ih =>
      simp only [hasDD]
      split
      · rename_i h
        obtain ⟨rfl, rfl⟩ := h
        simp only [true_iff, dotdot]
        exact ⟨[], r, by simp⟩
      · rename_i h
        rw [ih]
        constructor
        · intro hi
          exact List.IsInfix.trans hi (List.suffix_cons _ _).isInfix
        · intro hi
          rcases List.infix_cons_iff.mp hi with hp | hi'
          · exfalso
            obtain ⟨u, hu⟩ := hp
            simp [dotdot] at hu
            exact h ⟨hu.1.symm, hu.2.1.symm⟩
          · exact hi'

theorem dropWhile_id_of_forall {α} (p : α → Bool) :
    ∀ (l : List α), (∀ x ∈ l, p x = false) → l.dropWhile p = l
  | [], _ => rfl
  | a :: l, h => by simp [List.dropWhile, h a (by simp)]

theorem trim_id_of_forall (sp : Char → Bool) (l : Str) (h : ∀ x ∈ l, sp x = false) :
    trim sp l = l := by
  unfold trim
  rw [dropWhile_id_of_forall sp l h,
      dropWhile_id_of_forall sp l.reverse (by intro x hx; exact h x (List.mem_reverse.mp hx))]
  simp

theorem keep_not_pairkey (c : Char) (h : keep c = true) : pairs.lookup c = none := by
  have h1 : (c == ' ') = false := by
    cases hc : c == ' ' with
    | false => rfl
    | true => have := eq_of_beq hc; subst this; revert h; decide
  have h2 : (c == '+') = false := by
    cases hc : c == '+' with
    | false => rfl
    | true => have := eq_of_beq hc; subst this; revert h; decide
  have h3 : (c == '*') = false := by
    cases hc : c == '*' with
    | false => rfl
    | true => have := eq_of_beq hc; subst this; revert h; decide
  have h4 : (c == ':') = false := by
    cases hc : c == ':' with
    | false => rfl
    | true => have := eq_of_beq hc; subst this; revert h; decide
  simp only [pairs, List.lookup, h1, h2, h3, h4]

theorem repl_id_of_keep (l : Str) (h : ∀ x ∈ l, keep x = true) : repl l = l := by
  induction l with
  | nil => rfl
  | cons a l ih =>
    have ha := keep_not_pairkey a (h a (by simp))
    have : repl (a :: l) = replC a ++ repl l := by simp [repl]
    rw [this, ih (fun x hx => h x (List.mem_cons_of_mem _ hx))]
    simp [replC, ha]

theorem filt_id_of_keep (l : Str) (h : ∀ x ∈ l, keep x = true) : filt l = l := by
  unfold filt; exact List.filter_eq_self.mpr h

/-- every character of the replacer's output is either an input character or a
non-upper-case character of a replacement string -/
theorem replC_not_upper (c x : Char) (hx : x ∈ replC c) (hc : isUpperA c = false) :
    isUpperA x = false := by
  unfold replC at hx
  split at hx
  · rename_i n hn
    simp only [pairs, List.lookup] at hn
    repeat (split at hn; (first | (simp at hn; subst hn; revert x; decide) | skip))
    simp at hn
  · simp at hx; subst hx; exact hc

end CM.Safe
