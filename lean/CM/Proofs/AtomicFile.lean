import CM.Model.AtomicFile
/-! Inductive invariant of the write-protocol LTS (helper lemmas for `CM/Props/C10.lean`). -/
namespace CM.AtomicFile

/-- the inode a writer has open under its temp name -/
def holds : WPC → Option Nat
  | .writing i => some i
  | .synced i => some i
  | .closed i => some i
  | _ => none

theorem append_take_drop_prefix {p v : Bytes} (h : p <+: v) (n : Nat) :
    p ++ (v.drop p.length).take n <+: v := by
  obtain ⟨t, rfl⟩ := h
  rw [List.drop_left]
  exact (List.prefix_append_right_inj p).mpr (List.take_prefix n t)

theorem current_append (val : Nat → Bytes) (init : Option Bytes) (h : List Nat) (w : Nat) :
    current val init (h ++ [w]) = some (val w) := by
  simp [current]

structure Inv (val : Nat → Bytes) (init : Option Bytes) (s : State) : Prop where
  held_lt  : ∀ w i, holds (s.w w) = some i → i < s.next
  held_inj : ∀ w w' i, holds (s.w w) = some i → holds (s.w w') = some i → w = w'
  dst_ok   : ∀ i, s.dst = some i →
    i < s.next ∧ (∀ w, holds (s.w w) ≠ some i) ∧ some (s.ino i) = current val init s.renamed
  dst_none : s.dst = none → current val init s.renamed = none
  rd_ok    : ∀ r i buf a, s.r r = .reading i buf a →
    i < s.next ∧ (∀ w, holds (s.w w) ≠ some i) ∧ a ≤ s.renamed.length ∧
    some (s.ino i) = current val init (s.renamed.take a) ∧ buf <+: s.ino i
  done_ok  : ∀ r res a, s.r r = .done res a →
    a ≤ s.renamed.length ∧ res = current val init (s.renamed.take a)
  wr_pre   : ∀ w i, s.w w = .writing i → s.ino i <+: val w
  wr_full  : ∀ w i, (s.w w = .synced i ∨ s.w w = .closed i) → s.ino i = val w
  ren_iff  : ∀ w, w ∈ s.renamed ↔ (s.w w = .done ∨ s.w w = .crashedAfter)

theorem inv_init (val : Nat → Bytes) (init : Option Bytes) : Inv val init (initState init) := by
  refine ⟨?_, ?_, ?_, ?_, ?_, ?_, ?_, ?_, ?_⟩ <;> simp [initState, holds, current]
  intro a h; subst h; rfl

/-- a writer's program counter changes to one that holds no inode: the "holds" facts of
everybody else are unchanged -/
theorem holds_upd_none {f : Nat → WPC} {w : Nat} {pc : WPC} (hpc : holds pc = none) (x i : Nat)
    (h : holds (upd f w pc x) = some i) : holds (f x) = some i ∧ x ≠ w := by
  by_cases hx : x = w
  · subst hx; simp [hpc] at h
  · rw [upd_other _ _ _ _ hx] at h; exact ⟨h, hx⟩

/-- a writer moves between states holding the same inode -/
theorem holds_upd_same {f : Nat → WPC} {w : Nat} {pc : WPC} {j : Nat} (hold : holds (f w) = some j)
    (hpc : holds pc = some j) (x i : Nat) (h : holds (upd f w pc x) = some i) : holds (f x) = some i := by
  by_cases hx : x = w
  · subst hx; simp [hpc] at h; subst h; exact hold
  · rw [upd_other _ _ _ _ hx] at h; exact h

/-- steps that only move writer `w` to a state holding nothing and change nothing else
(cancel, crash) preserve the invariant, given the bookkeeping of `renamed` is respected -/
theorem inv_drop {val : Nat → Bytes} {init : Option Bytes} {s : State} (I : Inv val init s) (w : Nat) (pc : WPC)
    (hpc : holds pc = none)
    (hnw : ∀ i, pc ≠ .writing i) (hns : ∀ i, pc ≠ .synced i) (hnc : ∀ i, pc ≠ .closed i)
    (hren : (w ∈ s.renamed ↔ (pc = .done ∨ pc = .crashedAfter))) :
    Inv val init { s with w := upd s.w w pc } := by
  refine ⟨?_, ?_, ?_, I.dst_none, ?_, I.done_ok, ?_, ?_, ?_⟩
  · intro x i h; exact I.held_lt x i (holds_upd_none hpc x i h).1
  · intro x y i hx hy
    exact I.held_inj x y i (holds_upd_none hpc x i hx).1 (holds_upd_none hpc y i hy).1
  · intro i hi
    obtain ⟨h1, h2, h3⟩ := I.dst_ok i hi
    exact ⟨h1, fun x hx => h2 x (holds_upd_none hpc x i hx).1, h3⟩
  · intro r i buf a hr
    obtain ⟨h1, h2, h3⟩ := I.rd_ok r i buf a hr
    exact ⟨h1, fun x hx => h2 x (holds_upd_none hpc x i hx).1, h3⟩
  · intro x i hx
    by_cases hxw : x = w
    · subst hxw; simp at hx; exact absurd hx (hnw i)
    · dsimp only at hx; rw [upd_other _ _ _ _ hxw] at hx; exact I.wr_pre x i hx
  · intro x i hx
    by_cases hxw : x = w
    · subst hxw; simp at hx
      rcases hx with hx | hx
      · exact absurd hx (hns i)
      · exact absurd hx (hnc i)
    · dsimp only at hx; rw [upd_other _ _ _ _ hxw] at hx; exact I.wr_full x i hx
  · intro x
    by_cases hxw : x = w
    · subst hxw; simp; exact hren
    · dsimp only; rw [upd_other _ _ _ _ hxw]; exact I.ren_iff x

theorem inv_step {val : Nat → Bytes} {init : Option Bytes} {s s' : State} {e : Ev}
    (I : Inv val init s) (h : step val s e = some s') : Inv val init s' := by
  cases e with
  | wCreate w =>
    simp only [step] at h
    split at h
    · rename_i hw
      simp only [Option.some.injEq] at h; subst h
      have hfresh : ∀ x i, holds (s.w x) = some i → i ≠ s.next := fun x i hx => Nat.ne_of_lt (I.held_lt x i hx)
      have hh : ∀ x i, holds (upd s.w w (.writing s.next) x) = some i →
          (x = w ∧ i = s.next) ∨ (x ≠ w ∧ holds (s.w x) = some i) := by
        intro x i hx
        by_cases hxw : x = w
        · subst hxw; simp [holds] at hx; exact Or.inl ⟨rfl, hx.symm⟩
        · rw [upd_other _ _ _ _ hxw] at hx; exact Or.inr ⟨hxw, hx⟩
      refine ⟨?_, ?_, ?_, I.dst_none, ?_, I.done_ok, ?_, ?_, ?_⟩
      · intro x i hx
        dsimp only at hx ⊢
        rcases hh x i hx with ⟨_, rfl⟩ | ⟨_, h2⟩
        · omega
        · have := I.held_lt x i h2; omega
      · intro x y i hx hy
        dsimp only at hx hy
        rcases hh x i hx with ⟨rfl, rfl⟩ | ⟨hx1, hx2⟩
        · rcases hh y _ hy with ⟨rfl, _⟩ | ⟨_, hy2⟩
          · rfl
          · exact absurd rfl (hfresh y _ hy2)
        · rcases hh y i hy with ⟨rfl, rfl⟩ | ⟨_, hy2⟩
          · exact absurd rfl (hfresh x _ hx2)
          · exact I.held_inj x y i hx2 hy2
      · intro i hi
        obtain ⟨h1, h2, h3⟩ := I.dst_ok i hi
        dsimp only
        refine ⟨by omega, ?_, ?_⟩
        · intro x hx
          rcases hh x i hx with ⟨_, rfl⟩ | ⟨_, hx2⟩
          · omega
          · exact h2 x hx2
        · rw [upd_other _ _ _ _ (Nat.ne_of_lt h1)]; exact h3
      · intro r i buf a hr
        obtain ⟨h1, h2, h3, h4, h5⟩ := I.rd_ok r i buf a hr
        dsimp only
        refine ⟨by omega, ?_, h3, ?_, ?_⟩
        · intro x hx
          rcases hh x i hx with ⟨_, rfl⟩ | ⟨_, hx2⟩
          · omega
          · exact h2 x hx2
        · rw [upd_other _ _ _ _ (Nat.ne_of_lt h1)]; exact h4
        · rw [upd_other _ _ _ _ (Nat.ne_of_lt h1)]; exact h5
      · intro x i hx
        dsimp only at hx ⊢
        by_cases hxw : x = w
        · subst hxw; simp at hx; subst hx; simp
        · rw [upd_other _ _ _ _ hxw] at hx
          have := I.held_lt x i (by rw [hx]; rfl)
          rw [upd_other _ _ _ _ (Nat.ne_of_lt this)]
          exact I.wr_pre x i hx
      · intro x i hx
        dsimp only at hx ⊢
        by_cases hxw : x = w
        · subst hxw; simp at hx
        · rw [upd_other _ _ _ _ hxw] at hx
          have : i < s.next := I.held_lt x i (by rcases hx with hx | hx <;> rw [hx] <;> rfl)
          rw [upd_other _ _ _ _ (Nat.ne_of_lt this)]
          exact I.wr_full x i hx
      · intro x
        dsimp only
        by_cases hxw : x = w
        · subst hxw; simp
          have := (I.ren_iff x); rw [hw] at this; simpa using this
        · rw [upd_other _ _ _ _ hxw]; exact I.ren_iff x
    · cases h
  | wWrite w n =>
    simp only [step] at h
    split at h
    · rename_i i hw
      split at h
      · rename_i hc
        simp only [Option.some.injEq] at h; subst h
        have hold : holds (s.w w) = some i := by rw [hw]; rfl
        refine ⟨I.held_lt, I.held_inj, ?_, I.dst_none, ?_, I.done_ok, ?_, ?_, I.ren_iff⟩
        · intro j hj
          obtain ⟨h1, h2, h3⟩ := I.dst_ok j hj
          have hji : j ≠ i := fun e => h2 w (e ▸ hold)
          dsimp only; rw [upd_other _ _ _ _ hji]; exact ⟨h1, h2, h3⟩
        · intro r j buf a hr
          obtain ⟨h1, h2, h3, h4, h5⟩ := I.rd_ok r j buf a hr
          have hji : j ≠ i := fun e => h2 w (e ▸ hold)
          dsimp only; rw [upd_other _ _ _ _ hji]; exact ⟨h1, h2, h3, h4, h5⟩
        · intro x j hx
          dsimp only at hx ⊢
          by_cases hji : j = i
          · subst hji
            have : x = w := I.held_inj x w j (by rw [hx]; rfl) hold
            subst this
            simp
            exact append_take_drop_prefix (I.wr_pre x j hw) n
          · rw [upd_other _ _ _ _ hji]; exact I.wr_pre x j hx
        · intro x j hx
          dsimp only at hx ⊢
          have hxj : holds (s.w x) = some j := by rcases hx with hx | hx <;> rw [hx] <;> rfl
          by_cases hji : j = i
          · subst hji
            have : x = w := I.held_inj x w j hxj hold
            subst this
            rw [hw] at hx; simp at hx
          · rw [upd_other _ _ _ _ hji]; exact I.wr_full x j hx
      · cases h
    · cases h
  | wCancel w =>
    simp only [step] at h
    split at h
    · rename_i i hw
      simp only [Option.some.injEq] at h; subst h
      refine inv_drop I w .cancelled rfl (by simp) (by simp) (by simp) ?_
      have := I.ren_iff w; rw [hw] at this; simpa using this
    · cases h
  | wSync w =>
    simp only [step] at h
    split at h
    · rename_i i hw
      split at h
      · rename_i hlen
        simp only [Option.some.injEq] at h; subst h
        have hold : holds (s.w w) = some i := by rw [hw]; rfl
        have hsame := fun x j => holds_upd_same (f := s.w) (w := w) (pc := .synced i) hold rfl x j
        refine ⟨?_, ?_, ?_, I.dst_none, ?_, I.done_ok, ?_, ?_, ?_⟩
        · intro x j hx; exact I.held_lt x j (hsame x j hx)
        · intro x y j hx hy; exact I.held_inj x y j (hsame x j hx) (hsame y j hy)
        · intro j hj
          obtain ⟨h1, h2, h3⟩ := I.dst_ok j hj
          exact ⟨h1, fun x hx => h2 x (hsame x j hx), h3⟩
        · intro r j buf a hr
          obtain ⟨h1, h2, h3⟩ := I.rd_ok r j buf a hr
          exact ⟨h1, fun x hx => h2 x (hsame x j hx), h3⟩
        · intro x j hx
          dsimp only at hx
          by_cases hxw : x = w
          · subst hxw; simp at hx
          · rw [upd_other _ _ _ _ hxw] at hx; exact I.wr_pre x j hx
        · intro x j hx
          dsimp only at hx ⊢
          by_cases hxw : x = w
          · subst hxw; simp at hx; subst hx
            exact List.IsPrefix.eq_of_length (I.wr_pre x i hw) hlen
          · rw [upd_other _ _ _ _ hxw] at hx; exact I.wr_full x j hx
        · intro x
          dsimp only
          by_cases hxw : x = w
          · subst hxw; simp
            have := I.ren_iff x; rw [hw] at this; simpa using this
          · rw [upd_other _ _ _ _ hxw]; exact I.ren_iff x
      · cases h
    · cases h
  | wClose w =>
    simp only [step] at h
    split at h
    · rename_i i hw
      simp only [Option.some.injEq] at h; subst h
      have hold : holds (s.w w) = some i := by rw [hw]; rfl
      have hsame := fun x j => holds_upd_same (f := s.w) (w := w) (pc := .closed i) hold rfl x j
      refine ⟨?_, ?_, ?_, I.dst_none, ?_, I.done_ok, ?_, ?_, ?_⟩
      · intro x j hx; exact I.held_lt x j (hsame x j hx)
      · intro x y j hx hy; exact I.held_inj x y j (hsame x j hx) (hsame y j hy)
      · intro j hj
        obtain ⟨h1, h2, h3⟩ := I.dst_ok j hj
        exact ⟨h1, fun x hx => h2 x (hsame x j hx), h3⟩
      · intro r j buf a hr
        obtain ⟨h1, h2, h3⟩ := I.rd_ok r j buf a hr
        exact ⟨h1, fun x hx => h2 x (hsame x j hx), h3⟩
      · intro x j hx
        dsimp only at hx
        by_cases hxw : x = w
        · subst hxw; simp at hx
        · rw [upd_other _ _ _ _ hxw] at hx; exact I.wr_pre x j hx
      · intro x j hx
        dsimp only at hx ⊢
        by_cases hxw : x = w
        · subst hxw; simp at hx; subst hx
          exact I.wr_full x i (Or.inl hw)
        · rw [upd_other _ _ _ _ hxw] at hx; exact I.wr_full x j hx
      · intro x
        dsimp only
        by_cases hxw : x = w
        · subst hxw; simp
          have := I.ren_iff x; rw [hw] at this; simpa using this
        · rw [upd_other _ _ _ _ hxw]; exact I.ren_iff x
    · cases h
  | wRename w =>
    simp only [step] at h
    split at h
    · rename_i i hw
      simp only [Option.some.injEq] at h; subst h
      have hold : holds (s.w w) = some i := by rw [hw]; rfl
      have hnone := fun x j => holds_upd_none (f := s.w) (w := w) (pc := .done) rfl x j
      have htake : ∀ a, a ≤ s.renamed.length → (s.renamed ++ [w]).take a = s.renamed.take a :=
        fun a ha => List.take_append_of_le_length ha
      refine ⟨?_, ?_, ?_, ?_, ?_, ?_, ?_, ?_, ?_⟩
      · intro x j hx; exact I.held_lt x j (hnone x j hx).1
      · intro x y j hx hy; exact I.held_inj x y j (hnone x j hx).1 (hnone y j hy).1
      · intro j hj
        dsimp only at hj ⊢
        simp only [Option.some.injEq] at hj; subst hj
        refine ⟨I.held_lt w i hold, ?_, ?_⟩
        · intro x hx
          obtain ⟨h1, h2⟩ := hnone x i hx
          exact h2 (I.held_inj x w i h1 hold)
        · rw [current_append, I.wr_full w i (Or.inr hw)]
      · intro hj; simp at hj
      · intro r j buf a hr
        obtain ⟨h1, h2, h3, h4, h5⟩ := I.rd_ok r j buf a hr
        dsimp only
        refine ⟨h1, fun x hx => h2 x (hnone x j hx).1, ?_, ?_, h5⟩
        · simp; omega
        · rw [htake a h3]; exact h4
      · intro r res a hr
        obtain ⟨h1, h2⟩ := I.done_ok r res a hr
        dsimp only
        refine ⟨by simp; omega, ?_⟩
        rw [htake a h1]; exact h2
      · intro x j hx
        dsimp only at hx
        by_cases hxw : x = w
        · subst hxw; simp at hx
        · rw [upd_other _ _ _ _ hxw] at hx; exact I.wr_pre x j hx
      · intro x j hx
        dsimp only at hx
        by_cases hxw : x = w
        · subst hxw; simp at hx
        · rw [upd_other _ _ _ _ hxw] at hx; exact I.wr_full x j hx
      · intro x
        dsimp only
        by_cases hxw : x = w
        · subst hxw; simp
        · rw [upd_other _ _ _ _ hxw, List.mem_append]
          simp [hxw]; exact I.ren_iff x
    · cases h
  | wCrash w =>
    simp only [step] at h
    split at h
    · rename_i i hw
      simp only [Option.some.injEq] at h; subst h
      refine inv_drop I w .crashed rfl (by simp) (by simp) (by simp) ?_
      have := I.ren_iff w; rw [hw] at this; simpa using this
    · rename_i i hw
      simp only [Option.some.injEq] at h; subst h
      refine inv_drop I w .crashed rfl (by simp) (by simp) (by simp) ?_
      have := I.ren_iff w; rw [hw] at this; simpa using this
    · rename_i i hw
      simp only [Option.some.injEq] at h; subst h
      refine inv_drop I w .crashed rfl (by simp) (by simp) (by simp) ?_
      have := I.ren_iff w; rw [hw] at this; simpa using this
    · rename_i hw
      simp only [Option.some.injEq] at h; subst h
      refine inv_drop I w .crashedAfter rfl (by simp) (by simp) (by simp) ?_
      have := I.ren_iff w; rw [hw] at this; simpa using this
    · cases h
  | rOpen r =>
    simp only [step] at h
    split at h
    · rename_i hr
      split at h
      · rename_i i hd
        simp only [Option.some.injEq] at h; subst h
        obtain ⟨h1, h2, h3⟩ := I.dst_ok i hd
        refine ⟨I.held_lt, I.held_inj, I.dst_ok, I.dst_none, ?_, ?_, I.wr_pre, I.wr_full, I.ren_iff⟩
        · intro x j buf a hx
          dsimp only at hx ⊢
          by_cases hxr : x = r
          · subst hxr; simp at hx
            obtain ⟨rfl, rfl, rfl⟩ := hx
            refine ⟨h1, h2, Nat.le_refl _, ?_, List.nil_prefix⟩
            rw [List.take_length]; exact h3
          · rw [upd_other _ _ _ _ hxr] at hx; exact I.rd_ok x j buf a hx
        · intro x res a hx
          dsimp only at hx ⊢
          by_cases hxr : x = r
          · subst hxr; simp at hx
          · rw [upd_other _ _ _ _ hxr] at hx; exact I.done_ok x res a hx
      · rename_i hd
        simp only [Option.some.injEq] at h; subst h
        refine ⟨I.held_lt, I.held_inj, I.dst_ok, I.dst_none, ?_, ?_, I.wr_pre, I.wr_full, I.ren_iff⟩
        · intro x j buf a hx
          dsimp only at hx ⊢
          by_cases hxr : x = r
          · subst hxr; simp at hx
          · rw [upd_other _ _ _ _ hxr] at hx; exact I.rd_ok x j buf a hx
        · intro x res a hx
          dsimp only at hx ⊢
          by_cases hxr : x = r
          · subst hxr; simp at hx
            obtain ⟨rfl, rfl⟩ := hx
            refine ⟨Nat.le_refl _, ?_⟩
            rw [List.take_length]; exact (I.dst_none hd).symm
          · rw [upd_other _ _ _ _ hxr] at hx; exact I.done_ok x res a hx
    · cases h
  | rRead r n =>
    simp only [step] at h
    split at h
    · rename_i i buf a hr
      split at h
      · simp only [Option.some.injEq] at h; subst h
        obtain ⟨h1, h2, h3, h4, h5⟩ := I.rd_ok r i buf a hr
        refine ⟨I.held_lt, I.held_inj, I.dst_ok, I.dst_none, ?_, ?_, I.wr_pre, I.wr_full, I.ren_iff⟩
        · intro x j buf' a' hx
          dsimp only at hx ⊢
          by_cases hxr : x = r
          · subst hxr; simp at hx
            obtain ⟨rfl, rfl, rfl⟩ := hx
            exact ⟨h1, h2, h3, h4, append_take_drop_prefix h5 n⟩
          · rw [upd_other _ _ _ _ hxr] at hx; exact I.rd_ok x j buf' a' hx
        · intro x res a' hx
          dsimp only at hx ⊢
          by_cases hxr : x = r
          · subst hxr; simp at hx
          · rw [upd_other _ _ _ _ hxr] at hx; exact I.done_ok x res a' hx
      · cases h
    · cases h
  | rEOF r =>
    simp only [step] at h
    split at h
    · rename_i i buf a hr
      split at h
      · rename_i hlen
        simp only [Option.some.injEq] at h; subst h
        obtain ⟨h1, h2, h3, h4, h5⟩ := I.rd_ok r i buf a hr
        refine ⟨I.held_lt, I.held_inj, I.dst_ok, I.dst_none, ?_, ?_, I.wr_pre, I.wr_full, I.ren_iff⟩
        · intro x j buf' a' hx
          dsimp only at hx ⊢
          by_cases hxr : x = r
          · subst hxr; simp at hx
          · rw [upd_other _ _ _ _ hxr] at hx; exact I.rd_ok x j buf' a' hx
        · intro x res a' hx
          dsimp only at hx ⊢
          by_cases hxr : x = r
          · subst hxr; simp at hx
            obtain ⟨rfl, rfl⟩ := hx
            refine ⟨h3, ?_⟩
            rw [← h4, List.IsPrefix.eq_of_length_le h5 hlen]
          · rw [upd_other _ _ _ _ hxr] at hx; exact I.done_ok x res a' hx
      · cases h
    · cases h

theorem inv_reachable {val : Nat → Bytes} {init : Option Bytes} {s : State}
    (h : Reachable val init s) : Inv val init s := by
  induction h with
  | init => exact inv_init val init
  | step _ hs ih => exact inv_step ih hs

end CM.AtomicFile
