import CM.Model.Solvers
/-! Helper lemmas for C16: what each event does to each component, and the inductive invariants. -/
namespace CM.Solvers

theorem upd_same {α : Type} (f : Nat → α) (k : Nat) (v : α) : upd f k v k = v := by simp [upd]
theorem upd_other {α : Type} (f : Nat → α) (k x : Nat) (v : α) (h : x ≠ k) : upd f k v x = f x := by
  simp [upd, h]

/-- does this `Present` open our listener, if we have none? -/
def opens (c : Ch) (r : PRes) : Bool :=
  match c.typ with
  | .http => r.bind == .ok
  | .alpn => r.cert && r.bind == .ok
  | .dns => false

/-! ### projections of `apply` -/

theorem active_present (s : State) (c : Ch) (r : PRes) :
    (apply s (.present c r)).active = c :: s.active := by
  obtain ⟨id, typ, addr, key, rn, rv⟩ := c
  cases typ <;> rfl

theorem active_cleanUp (s : State) (c : Ch) (r : CRes) :
    (apply s (.cleanUp c r)).active = s.active.erase c := by
  obtain ⟨id, typ, addr, key, rn, rv⟩ := c
  cases typ <;> rfl

theorem cnt_present (s : State) (c : Ch) (r : PRes) (a : Nat) :
    (apply s (.present c r)).cnt a = s.cnt a + (if uses a c then 1 else 0) := by
  obtain ⟨id, typ, addr, key, rn, rv⟩ := c
  by_cases h : addr = a
  · subst h; cases typ <;> simp [apply, listenPresent, storePresent, uses, Typ.listens, upd]
  · have h' : ¬ a = addr := fun e => h e.symm
    cases typ <;> simp [apply, listenPresent, storePresent, uses, Typ.listens, upd, h, h']

theorem cnt_cleanUp (s : State) (c : Ch) (r : CRes) (a : Nat) :
    (apply s (.cleanUp c r)).cnt a = s.cnt a - (if uses a c then 1 else 0) := by
  obtain ⟨id, typ, addr, key, rn, rv⟩ := c
  by_cases h : addr = a
  · subst h; cases typ <;> simp [apply, listenCleanUp, storeCleanUp, uses, Typ.listens, upd]
  · have h' : ¬ a = addr := fun e => h e.symm
    cases typ <;> simp [apply, listenCleanUp, storeCleanUp, uses, Typ.listens, upd, h, h']

theorem lis_present (s : State) (c : Ch) (r : PRes) (a : Nat) :
    (apply s (.present c r)).lis a = (s.lis a || (uses a c && opens c r)) := by
  obtain ⟨id, typ, addr, key, rn, rv⟩ := c
  by_cases h : addr = a
  · subst h
    cases typ <;> simp [apply, listenPresent, storePresent, uses, Typ.listens, opens, upd]
    all_goals (cases r.cert <;> simp)
  · have h' : ¬ a = addr := fun e => h e.symm
    cases typ <;> simp [apply, listenPresent, storePresent, uses, Typ.listens, opens, upd, h, h']

theorem lis_cleanUp (s : State) (c : Ch) (r : CRes) (a : Nat) :
    (apply s (.cleanUp c r)).lis a =
      (if uses a c = true ∧ s.cnt a - 1 = 0 then false else s.lis a) := by
  obtain ⟨id, typ, addr, key, rn, rv⟩ := c
  by_cases h : addr = a
  · subst h
    cases typ <;> simp [apply, listenCleanUp, storeCleanUp, uses, Typ.listens, upd] <;>
      (by_cases hx : s.cnt addr - 1 = 0 <;> simp [hx])
  · have h' : ¬ a = addr := fun e => h e.symm
    cases typ <;> simp [apply, listenCleanUp, storeCleanUp, uses, Typ.listens, upd, h, h']

theorem ent_present (s : State) (c : Ch) (r : PRes) (a : Nat) :
    (apply s (.present c r)).ent a = (s.ent a || uses a c) := by
  obtain ⟨id, typ, addr, key, rn, rv⟩ := c
  by_cases h : addr = a
  · subst h; cases typ <;> simp [apply, listenPresent, storePresent, uses, Typ.listens, upd]
  · have h' : ¬ a = addr := fun e => h e.symm
    cases typ <;> simp [apply, listenPresent, storePresent, uses, Typ.listens, upd, h, h']

theorem ent_cleanUp (s : State) (c : Ch) (r : CRes) (a : Nat) :
    (apply s (.cleanUp c r)).ent a =
      (if uses a c = true then decide (s.cnt a - 1 ≠ 0) else s.ent a) := by
  obtain ⟨id, typ, addr, key, rn, rv⟩ := c
  by_cases h : addr = a
  · subst h
    cases typ <;> simp [apply, listenCleanUp, storeCleanUp, uses, Typ.listens, upd] <;>
      (by_cases hx : s.cnt addr - 1 = 0 <;> simp [hx])
  · have h' : ¬ a = addr := fun e => h e.symm
    cases typ <;> simp [apply, listenCleanUp, storeCleanUp, uses, Typ.listens, upd, h, h']

theorem tok_present (s : State) (c : Ch) (r : PRes) (k : Nat) :
    (apply s (.present c r)).tok k =
      (if c.typ ≠ .dns ∧ k = c.key then (r.store || s.tok k) else s.tok k) := by
  obtain ⟨id, typ, addr, key, rn, rv⟩ := c
  by_cases h : k = key
  · subst h; cases typ <;> simp [apply, listenPresent, storePresent, upd]
  · cases typ <;> simp [apply, listenPresent, storePresent, upd, h]

theorem tok_cleanUp (s : State) (c : Ch) (r : CRes) (k : Nat) :
    (apply s (.cleanUp c r)).tok k =
      (if c.typ ≠ .dns ∧ k = c.key then (!r.del && s.tok k) else s.tok k) := by
  obtain ⟨id, typ, addr, key, rn, rv⟩ := c
  by_cases h : k = key
  · subst h; cases typ <;> simp [apply, listenCleanUp, storeCleanUp, upd]
  · cases typ <;> simp [apply, listenCleanUp, storeCleanUp, upd, h]

theorem mem_present (s : State) (c : Ch) (r : PRes) (k : Nat) :
    (apply s (.present c r)).mem k = (if k = c.key then true else s.mem k) := by
  obtain ⟨id, typ, addr, key, rn, rv⟩ := c
  by_cases h : k = key
  · subst h; cases typ <;> simp [apply, listenPresent, storePresent, upd]
  · cases typ <;> simp [apply, listenPresent, storePresent, upd, h]

theorem mem_cleanUp (s : State) (c : Ch) (r : CRes) (k : Nat) :
    (apply s (.cleanUp c r)).mem k = (if k = c.key then false else s.mem k) := by
  obtain ⟨id, typ, addr, key, rn, rv⟩ := c
  by_cases h : k = key
  · subst h; cases typ <;> simp [apply, listenCleanUp, storeCleanUp, upd]
  · cases typ <;> simp [apply, listenCleanUp, storeCleanUp, upd, h]

theorem recMem_present (s : State) (c : Ch) (r : PRes) :
    (apply s (.present c r)).recMem =
      (if c.typ = .dns ∧ r.prov = true then s.recMem ++ [(c.rname, c.rval)] else s.recMem) := by
  obtain ⟨id, typ, addr, key, rn, rv⟩ := c
  cases typ <;> simp [apply, listenPresent, storePresent]

theorem recMem_cleanUp (s : State) (c : Ch) (r : CRes) :
    (apply s (.cleanUp c r)).recMem =
      (if c.typ = .dns then s.recMem.erase (c.rname, c.rval) else s.recMem) := by
  obtain ⟨id, typ, addr, key, rn, rv⟩ := c
  cases typ <;> simp [apply, listenCleanUp, storeCleanUp]

theorem provider_present (s : State) (c : Ch) (r : PRes) :
    (apply s (.present c r)).provider =
      (if c.typ = .dns ∧ r.prov = true then (c.rname, c.rval) :: s.provider else s.provider) := by
  obtain ⟨id, typ, addr, key, rn, rv⟩ := c
  cases typ <;> simp [apply, listenPresent, storePresent]

theorem provider_cleanUp (s : State) (c : Ch) (r : CRes) :
    (apply s (.cleanUp c r)).provider =
      (if c.typ = .dns ∧ (c.rname, c.rval) ∈ s.recMem ∧ r.prov = true
       then s.provider.erase (c.rname, c.rval) else s.provider) := by
  obtain ⟨id, typ, addr, key, rn, rv⟩ := c
  cases typ <;> simp [apply, listenCleanUp, storeCleanUp]

/-! ### list facts -/

theorem countP_erase_add {α : Type} [BEq α] [LawfulBEq α] (p : α → Bool) (c : α) :
    ∀ (l : List α), c ∈ l → (l.erase c).countP p + (if p c then 1 else 0) = l.countP p
  | [], h => by cases h
  | x :: xs, h => by
    by_cases hx : x = c
    · subst hx
      simp only [List.erase_cons_head, List.countP_cons]
    · have hm : c ∈ xs := by
        rcases List.mem_cons.mp h with h | h
        · exact absurd h.symm hx
        · exact h
      have hb : (x == c) = false := by simp [hx]
      rw [List.erase_cons, hb]
      simp only [Bool.false_eq_true, if_false, List.countP_cons]
      have := countP_erase_add p c xs hm
      omega

theorem count_erase_add {α : Type} [BEq α] [LawfulBEq α] [DecidableEq α] (c x : α) (l : List α) (h : c ∈ l) :
    (l.erase c).count x + (if c = x then 1 else 0) = l.count x := by
  have := countP_erase_add (fun y => y == x) c l h
  simpa [List.count] using this

/-! ### invariants -/

theorem step_present {s s' : State} {c : Ch} {r : PRes} (h : step s (.present c r) = some s') :
    s' = apply s (.present c r) := by
  simp only [step] at h; injection h with h; exact h.symm

theorem step_cleanUp {s s' : State} {c : Ch} {r : CRes} (h : step s (.cleanUp c r) = some s') :
    c ∈ s.active ∧ s' = apply s (.cleanUp c r) := by
  simp only [step] at h
  split at h
  · rename_i hm; injection h with h; exact ⟨hm, h.symm⟩
  · cases h

/-- the count of every address is the number of pending challenges using it -/
theorem inv_count {P : Ev → Prop} {p0 : List (Nat × Nat)} {s : State} (h : Reach P p0 s) :
    ∀ a, s.cnt a = ((s.active.countP (uses a) : Nat) : Int) := by
  induction h with
  | init => intro a; simp [State.init]
  | next hr hp hs ih =>
    rename_i s0 s1 e
    intro a
    cases e with
    | present c r =>
      rw [step_present hs, cnt_present, active_present, List.countP_cons, ih a]
      split <;> simp
    | cleanUp c r =>
      obtain ⟨hm, rfl⟩ := step_cleanUp hs
      rw [cnt_cleanUp, active_cleanUp, ih a]
      have := countP_erase_add (uses a) c s0.active hm
      split <;> simp_all <;> omega

/-- our listener is open only while the count is positive, and the map has an entry exactly
while the count is positive -/
theorem inv_listener {P : Ev → Prop} {p0 : List (Nat × Nat)} {s : State} (h : Reach P p0 s) :
    ∀ a, (s.lis a = true → 0 < s.cnt a) ∧ (s.ent a = true ↔ 0 < s.cnt a) := by
  induction h with
  | init => intro a; simp [State.init]
  | next hr hp hs ih =>
    rename_i s0 s1 e
    intro a
    have hc0 := inv_count hr a
    have hc1 := inv_count (Reach.next hr hp hs) a
    obtain ⟨i1, i2⟩ := ih a
    cases e with
    | present c r =>
      have e1 := step_present hs
      subst e1
      rw [lis_present, ent_present, cnt_present]
      cases hu : uses a c <;> simp_all <;> omega
    | cleanUp c r =>
      obtain ⟨hm, rfl⟩ := step_cleanUp hs
      rw [lis_cleanUp, ent_cleanUp, cnt_cleanUp]
      rw [cnt_cleanUp] at hc1
      cases hu : uses a c
      · simp only [hu, Bool.false_eq_true, false_and, if_false, Int.sub_zero]
        exact ⟨i1, i2⟩
      · simp only [hu, if_true, true_and] at hc1 ⊢
        constructor
        · split
          · intro hl; cases hl
          · intro hl; have := i1 hl; omega
        · simp only [decide_eq_true_eq]
          omega

/-- a memory entry belongs to a pending challenge -/
theorem inv_mem {P : Ev → Prop} {p0 : List (Nat × Nat)} {s : State} (h : Reach P p0 s) :
    ∀ k, s.mem k = true → ∃ c ∈ s.active, c.key = k := by
  induction h with
  | init => intro k hk; simp [State.init] at hk
  | next hr hp hs ih =>
    rename_i s0 s1 e
    intro k hk
    cases e with
    | present c r =>
      have e1 := step_present hs
      subst e1
      rw [mem_present] at hk
      rw [active_present]
      by_cases h : k = c.key
      · exact ⟨c, List.mem_cons_self, h.symm⟩
      · simp only [h, if_false] at hk
        obtain ⟨d, hd, hk'⟩ := ih k hk
        exact ⟨d, List.mem_cons_of_mem _ hd, hk'⟩
    | cleanUp c r =>
      obtain ⟨hm, rfl⟩ := step_cleanUp hs
      rw [mem_cleanUp] at hk
      rw [active_cleanUp]
      by_cases h : k = c.key
      · simp [h] at hk
      · simp only [h, if_false] at hk
        obtain ⟨d, hd, hk'⟩ := ih k hk
        refine ⟨d, (List.mem_erase_of_ne ?_).mpr hd, hk'⟩
        intro e; apply h; rw [← hk', e]

/-- a token file belongs to a pending HTTP-01 / TLS-ALPN-01 challenge, provided the storage
did not fail a delete -/
theorem inv_tok {p0 : List (Nat × Nat)} {s : State} (h : Reach storageDeletes p0 s) :
    ∀ k, s.tok k = true → ∃ c ∈ s.active, c.typ ≠ .dns ∧ c.key = k := by
  induction h with
  | init => intro k hk; simp [State.init] at hk
  | next hr hp hs ih =>
    rename_i s0 s1 e
    intro k hk
    cases e with
    | present c r =>
      have e1 := step_present hs
      subst e1
      rw [tok_present] at hk
      rw [active_present]
      by_cases h : c.typ ≠ .dns ∧ k = c.key
      · exact ⟨c, List.mem_cons_self, h.1, h.2.symm⟩
      · simp only [h, if_false] at hk
        obtain ⟨d, hd, hk'⟩ := ih k hk
        exact ⟨d, List.mem_cons_of_mem _ hd, hk'⟩
    | cleanUp c r =>
      obtain ⟨hm, rfl⟩ := step_cleanUp hs
      have hdel : r.del = true := hp
      rw [tok_cleanUp] at hk
      rw [active_cleanUp]
      by_cases h : c.typ ≠ .dns ∧ k = c.key
      · simp [h, hdel] at hk
      · simp only [h, if_false] at hk
        obtain ⟨d, hd, hk1, hk2⟩ := ih k hk
        refine ⟨d, (List.mem_erase_of_ne ?_).mpr hd, hk1, hk2⟩
        intro e; apply h; rw [← e]; exact ⟨hk1, hk2.symm⟩

/-- remembered records are no more than the pending DNS-01 challenges for them -/
theorem inv_recMem {P : Ev → Prop} {p0 : List (Nat × Nat)} {s : State} (h : Reach P p0 s) :
    ∀ p, s.recMem.count p ≤ s.active.countP (hasRec p) := by
  induction h with
  | init => intro p; simp [State.init]
  | next hr hp hs ih =>
    rename_i s0 s1 e
    intro p
    cases e with
    | present c r =>
      have e1 := step_present hs
      subst e1
      rw [recMem_present, active_present, List.countP_cons]
      have := ih p
      split
      · rename_i h
        rw [List.count_append]
        by_cases hp : (c.rname, c.rval) = p
        · simp [hasRec, Typ.isDNS, h.1, hp]; omega
        · simp [hasRec, Typ.isDNS, h.1, hp, List.count_cons]; omega
      · omega
    | cleanUp c r =>
      obtain ⟨hm, rfl⟩ := step_cleanUp hs
      rw [recMem_cleanUp, active_cleanUp]
      have h1 := countP_erase_add (hasRec p) c s0.active hm
      have := ih p
      split
      · rename_i ht
        by_cases hin : (c.rname, c.rval) ∈ s0.recMem
        · have h2 := count_erase_add (c.rname, c.rval) p s0.recMem hin
          by_cases hp : (c.rname, c.rval) = p
          · simp [hasRec, Typ.isDNS, ht, hp] at h1 h2 ⊢; omega
          · simp [hasRec, Typ.isDNS, ht, hp] at h1 h2 ⊢; omega
        · rw [List.erase_of_not_mem hin]
          by_cases hp : (c.rname, c.rval) = p
          · have : s0.recMem.count p = 0 := by rw [← hp]; exact List.count_eq_zero.mpr hin
            omega
          · simp [hasRec, Typ.isDNS, ht, hp] at h1; omega
      · rename_i ht
        have : hasRec p c = false := by
          cases hc : c.typ <;> simp_all [hasRec, Typ.isDNS]
        simp [this] at h1; omega

/-- the provider holds its initial records plus the remembered ones, provided it did not
fail a delete -/
theorem inv_provider {p0 : List (Nat × Nat)} {s : State} (h : Reach providerDeletes p0 s) :
    ∀ p, s.provider.count p = p0.count p + s.recMem.count p := by
  induction h with
  | init => intro p; simp [State.init]
  | next hr hp hs ih =>
    rename_i s0 s1 e
    intro p
    have := ih p
    cases e with
    | present c r =>
      have e1 := step_present hs
      subst e1
      rw [provider_present, recMem_present]
      split
      · rw [List.count_cons, List.count_append]
        by_cases hq : (c.rname, c.rval) = p
        · simp [hq]; omega
        · simp [hq, List.count_cons]; omega
      · exact this
    | cleanUp c r =>
      obtain ⟨hm, rfl⟩ := step_cleanUp hs
      have hprov : r.prov = true := hp
      rw [provider_cleanUp, recMem_cleanUp]
      by_cases ht : c.typ = .dns
      · by_cases hin : (c.rname, c.rval) ∈ s0.recMem
        · have hinp : (c.rname, c.rval) ∈ s0.provider := by
            have := ih (c.rname, c.rval)
            have h0 : 0 < s0.recMem.count (c.rname, c.rval) := List.count_pos_iff.mpr hin
            exact List.count_pos_iff.mp (by omega)
          have h2 := count_erase_add (c.rname, c.rval) p s0.recMem hin
          have h3 := count_erase_add (c.rname, c.rval) p s0.provider hinp
          simp only [ht, hin, hprov, and_self, if_true]
          omega
        · simp only [ht, hin, false_and, and_false, if_false, if_true]
          rw [List.erase_of_not_mem hin]; exact this
      · simp only [ht, false_and, if_false]; exact this

end CM.Solvers
