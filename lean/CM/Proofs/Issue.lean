import CM.Model.Issue
/-! Helper lemmas for C01: the inductive invariant of the issuance LTS. -/
namespace CM.Issue

variable {due : Ver → Bool}

/-- inductive invariant: whoever is in the critical section holds the lock; whoever is
about to issue / issuing / about to save sees no fresh bundle in storage -/
structure Inv (due : Ver → Bool) (s : St) : Prop where
  cs_holds : ∀ p, (s.pc p).inCS = true → s.lock = some p
  issue_not_fresh : ∀ p, (s.pc p).wantsIssue = true → fresh due s = false

theorem fresh_congr {s s' : St} (h : s'.stored = s.stored) : fresh due s' = fresh due s := by
  simp [fresh, h]

/-- a step that only moves process `p` to `v` (lock and stored unchanged) -/
theorem inv_of_pc {s s' : St} {p : Nat} {v : PC}
    (hl : s'.lock = s.lock) (hs : s'.stored = s.stored) (hp : s'.pc = upd s.pc p v)
    (h1 : v.inCS = true → s.lock = some p) (h2 : v.wantsIssue = true → fresh due s = false)
    (hi : Inv due s) : Inv due s' := by
  constructor
  · intro q hq
    rw [hp] at hq; rw [hl]
    by_cases hqp : q = p
    · subst hqp; simp at hq; exact h1 hq
    · rw [upd_other _ _ _ _ hqp] at hq; exact hi.cs_holds q hq
  · intro q hq
    rw [hp] at hq; rw [fresh_congr hs]
    by_cases hqp : q = p
    · subst hqp; simp at hq; exact h2 hq
    · rw [upd_other _ _ _ _ hqp] at hq; exact hi.issue_not_fresh q hq

theorem inv_of_same {s s' : St} (hl : s'.lock = s.lock) (hs : s'.stored = s.stored) (hp : s'.pc = s.pc)
    (hi : Inv due s) : Inv due s' := by
  constructor
  · intro q hq; rw [hp] at hq; rw [hl]; exact hi.cs_holds q hq
  · intro q hq; rw [hp] at hq; rw [fresh_congr hs]; exact hi.issue_not_fresh q hq

theorem inv_initial {s : St} (h : initial s) : Inv due s := by
  obtain ⟨_, hpc, _⟩ := h
  constructor <;> intro p hp <;> simp [hpc p, PC.inCS, PC.wantsIssue] at hp

/-- only the lock holder is in the critical section -/
theorem holder_unique {s : St} (hi : Inv due s) {p q : Nat}
    (hp : (s.pc p).inCS = true) (hq : (s.pc q).inCS = true) : p = q := by
  have a := hi.cs_holds p hp
  have b := hi.cs_holds q hq
  rw [a] at b; simpa using b

theorem wantsIssue_inCS {c : PC} (h : c.wantsIssue = true) : c.inCS = true := by
  cases c <;> simp [PC.wantsIssue, PC.inCS] at h ⊢

theorem inv_step {s s' : St} {e : Ev} (hi : Inv due s) (h : step due s e = some s') : Inv due s' := by
  cases e with
  | pre p =>
    simp only [step] at h
    split at h
    · split at h
      · simp at h; subst h
        refine inv_of_pc (s := s) (p := p) rfl rfl rfl ?_ ?_ hi <;> split <;> simp [PC.inCS, PC.wantsIssue]
      · simp at h; subst h
        exact inv_of_pc (s := s) (p := p) rfl rfl rfl (by simp [PC.inCS]) (by simp [PC.wantsIssue]) hi
      · split at h
        · simp at h; subst h; exact inv_of_same (s := s) rfl rfl rfl hi
        · split at h
          · simp at h; subst h; exact inv_of_same (s := s) rfl rfl rfl hi
          · simp at h; subst h
            exact inv_of_pc (s := s) (p := p) rfl rfl rfl (by simp [PC.inCS]) (by simp [PC.wantsIssue]) hi
    · simp at h
  | acq p =>
    simp only [step] at h
    split at h
    · rename_i hc
      simp at h; subst h
      constructor
      · intro q hq
        simp only at hq ⊢
        by_cases hqp : q = p
        · simp [hqp]
        · rw [upd_other _ _ _ _ hqp] at hq
          have := hi.cs_holds q hq
          rw [hc.2] at this; simp at this
      · intro q hq
        simp only at hq
        show fresh due s = false
        by_cases hqp : q = p
        · subst hqp; simp [PC.wantsIssue] at hq
        · rw [upd_other _ _ _ _ hqp] at hq; exact hi.issue_not_fresh q hq
    · simp at h
  | recheck p =>
    simp only [step] at h
    split at h
    · rename_i hc
      have hl : s.lock = some p := hi.cs_holds p (by simp [hc, PC.inCS])
      split at h
      · split at h
        · simp at h; subst h
          exact inv_of_pc (s := s) (p := p) rfl rfl rfl (fun _ => hl) (by simp [PC.wantsIssue]) hi
        · rename_i v hv
          simp at h; subst h
          refine inv_of_pc (s := s) (p := p) rfl rfl rfl (fun _ => hl) ?_ hi
          intro hw
          by_cases hd : due v = true
          · simp [fresh, hv, hd]
          · simp [hd, PC.wantsIssue] at hw
      · simp at h; subst h
        refine inv_of_pc (s := s) (p := p) rfl rfl rfl (fun _ => hl) ?_ hi
        intro hw
        cases hst : s.stored with
        | none => simp [fresh, hst]
        | some v => simp [hst, PC.wantsIssue] at hw
    · simp at h
  | issueBegin p =>
    simp only [step] at h
    split at h
    · rename_i hc
      simp at h; subst h
      exact inv_of_pc (s := s) (p := p) rfl rfl rfl (fun _ => hi.cs_holds p (by simp [hc, PC.inCS]))
        (fun _ => hi.issue_not_fresh p (by simp [hc, PC.wantsIssue])) hi
    · simp at h
  | issueEnd p ok =>
    simp only [step] at h
    split at h
    · rename_i hc
      simp at h; subst h
      exact inv_of_pc (s := s) (p := p) rfl rfl rfl (fun _ => hi.cs_holds p (by simp [hc, PC.inCS]))
        (fun _ => hi.issue_not_fresh p (by simp [hc, PC.wantsIssue])) hi
    · simp at h
  | saveOk p =>
    simp only [step] at h
    split at h
    · rename_i hc
      have hl : s.lock = some p := hi.cs_holds p (by simp [hc, PC.inCS])
      simp at h; subst h
      constructor
      · intro q hq
        simp only at hq ⊢
        by_cases hqp : q = p
        · subst hqp; exact hl
        · rw [upd_other _ _ _ _ hqp] at hq; exact hi.cs_holds q hq
      · intro q hq
        simp only at hq
        by_cases hqp : q = p
        · subst hqp; simp [PC.wantsIssue] at hq
        · rw [upd_other _ _ _ _ hqp] at hq
          exact absurd (holder_unique hi (wantsIssue_inCS hq) (by simp [hc, PC.inCS])) hqp
    · simp at h
  | saveFail p k =>
    simp only [step] at h
    split at h
    · rename_i hc
      have hl : s.lock = some p := hi.cs_holds p (by simp [hc, PC.inCS])
      simp at h; subst h
      constructor
      · intro q hq
        simp only at hq ⊢
        by_cases hqp : q = p
        · subst hqp; exact hl
        · rw [upd_other _ _ _ _ hqp] at hq; exact hi.cs_holds q hq
      · intro q hq
        simp only at hq
        by_cases hqp : q = p
        · subst hqp; simp [PC.wantsIssue] at hq
        · rw [upd_other _ _ _ _ hqp] at hq
          exact absurd (holder_unique hi (wantsIssue_inCS hq) (by simp [hc, PC.inCS])) hqp
    · simp at h
  | retry p =>
    simp only [step] at h
    split at h
    · rename_i hc
      simp at h; subst h
      exact inv_of_pc (s := s) (p := p) rfl rfl rfl (fun _ => hi.cs_holds p (by simp [hc.1, PC.inCS]))
        (by simp [PC.wantsIssue]) hi
    · simp at h
  | giveUp p =>
    simp only [step] at h
    split at h
    · rename_i hc
      simp at h; subst h
      exact inv_of_pc (s := s) (p := p) rfl rfl rfl (fun _ => hi.cs_holds p (by simp [hc, PC.inCS]))
        (by simp [PC.wantsIssue]) hi
    · simp at h
  | rel p =>
    simp only [step] at h
    split at h
    · rename_i ok hc
      have hl : s.lock = some p := hi.cs_holds p (by simp [hc, PC.inCS])
      simp at h; subst h
      constructor
      · intro q hq
        simp only at hq ⊢
        by_cases hqp : q = p
        · subst hqp; simp [PC.inCS] at hq
        · rw [upd_other _ _ _ _ hqp] at hq
          exact absurd (holder_unique hi hq (by simp [hc, PC.inCS])) hqp
      · intro q hq
        simp only at hq
        show fresh due s = false
        by_cases hqp : q = p
        · subst hqp; simp [PC.wantsIssue] at hq
        · rw [upd_other _ _ _ _ hqp] at hq; exact hi.issue_not_fresh q hq
    · simp at h
  | die p =>
    simp only [step] at h
    split at h
    · simp at h
    · simp at h
    · simp at h; subst h
      constructor
      · intro q hq
        simp only at hq ⊢
        by_cases hqp : q = p
        · subst hqp; simp [PC.inCS] at hq
        · rw [upd_other _ _ _ _ hqp] at hq; exact hi.cs_holds q hq
      · intro q hq
        simp only at hq
        show fresh due s = false
        by_cases hqp : q = p
        · subst hqp; simp [PC.wantsIssue] at hq
        · rw [upd_other _ _ _ _ hqp] at hq; exact hi.issue_not_fresh q hq
  | expire =>
    simp only [step] at h
    split at h
    · rename_i q hq
      split at h
      · rename_i hd
        simp at h; subst h
        constructor
        · intro r hr
          simp only at hr ⊢
          have := hi.cs_holds r hr
          rw [hq] at this; simp at this; subst this
          simp [hd, PC.inCS] at hr
        · intro r hr
          simp only at hr
          show fresh due s = false
          exact hi.issue_not_fresh r hr
      · simp at h
    · simp at h

theorem inv_reach {s : St} (h : Reach due s) : Inv due s := by
  induction h with
  | init hi => exact inv_initial hi
  | step _ hs ih => exact inv_step ih hs

end CM.Issue
