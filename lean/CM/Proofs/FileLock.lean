import CM.Model.FileLock
/-! Inductive invariants of the lock-file LTS (helper lemmas for `CM/Props/C08.lean`). -/
namespace CM.FileLock

/-! ### small facts -/

theorem writeIno_some {f : Option (Nat × Content)} {i : Nat} {cont : Content} {j : Nat} {c' : Content}
    (h : writeIno f i cont = some (j, c')) :
    ∃ old, f = some (j, old) ∧ ((j = i ∧ c' = cont) ∨ (j ≠ i ∧ c' = old)) := by
  unfold writeIno at h
  match f, h with
  | some (k, old), h =>
    by_cases hk : k = i
    · simp [hk] at h
      obtain ⟨h1, h2⟩ := h
      subst h1
      exact ⟨old, by rw [hk], Or.inl ⟨rfl, h2.symm⟩⟩
    · simp [hk] at h
      obtain ⟨h1, h2⟩ := h
      subst h1
      exact ⟨old, rfl, Or.inr ⟨hk, h2.symm⟩⟩

theorem writeIno_none {f : Option (Nat × Content)} {i : Nat} {cont : Content}
    (h : writeIno f i cont = none) : f = none := by
  unfold writeIno at h
  match f, h with
  | none, _ => rfl
  | some (k, old), h => by_cases hk : k = i <;> simp [hk] at h

theorem ownIno_afterEmpty (c : Params) (now e : Nat) : ownIno (afterEmpty c now e) = none := by
  unfold afterEmpty; split <;> rfl

theorem own_upd_none {pc : Nat → PC} {p : Nat} {x : PC} (hx : ownIno x = none) {q i : Nat}
    (h : ownIno (upd pc p x q) = some i) : q ≠ p ∧ ownIno (pc q) = some i := by
  by_cases hq : q = p
  · subst hq; simp [hx] at h
  · rw [upd_other _ _ _ _ hq] at h; exact ⟨hq, h⟩

theorem created_upd {pc : Nat → PC} {p : Nat} {x : PC} (hx : ownIno x = none) {q i : Nat}
    (h : upd pc p x q = .created i) : q ≠ p ∧ pc q = .created i := by
  by_cases hq : q = p
  · subst hq; simp at h; subst h; simp [ownIno] at hx
  · rw [upd_other _ _ _ _ hq] at h; exact ⟨hq, h⟩

theorem holding_upd {pc : Nat → PC} {p : Nat} {x : PC} (hx : ownIno x = none) {q i c : Nat}
    (h : upd pc p x q = .holding i c) : q ≠ p ∧ pc q = .holding i c := by
  by_cases hq : q = p
  · subst hq; simp at h; subst h; simp [ownIno] at hx
  · rw [upd_other _ _ _ _ hq] at h; exact ⟨hq, h⟩

theorem hb_upd_none {hb : Nat → HB} {p : Nat} {y : HB} (hy : hbIno y = none) {q i : Nat}
    (h : hbIno (upd hb p y q) = some i) : q ≠ p ∧ hbIno (hb q) = some i := by
  by_cases hq : q = p
  · subst hq; simp [hy] at h
  · rw [upd_other _ _ _ _ hq] at h; exact ⟨hq, h⟩

theorem own_of_created {x : PC} {i : Nat} (h : x = .created i) : ownIno x = some i := by subst h; rfl
theorem own_of_holding {x : PC} {i c : Nat} (h : x = .holding i c) : ownIno x = some i := by subst h; rfl

/-! ### the assumption-free invariant -/

structure Inv (s : State) : Prop where
  own_lt   : ∀ p i, ownIno (s.pc p) = some i → i < s.next
  file_lt  : ∀ i c, s.file = some (i, c) → i < s.next
  own_inj  : ∀ p q i, ownIno (s.pc p) = some i → ownIno (s.pc q) = some i → p = q
  hb_lt    : ∀ p i, hbIno (s.hb p) = some i → i < s.next
  beat_le  : ∀ p, s.beat p ≤ s.now
  /-- the `updated` stamp in a holder's file is never older than its last beat -/
  fresh    : ∀ p i c c' u, s.pc p = .holding i c → s.file = some (i, .stamp c' u) → s.beat p ≤ u
  /-- between create and the first write the file is empty and no heartbeat has it open -/
  cr_empty : ∀ p i cont, s.pc p = .created i → s.file = some (i, cont) → cont = .empty
  cr_nohb  : ∀ p q i, s.pc p = .created i → hbIno (s.hb q) ≠ some i
  /-- a holder whose file still has the name can only have that very inode open -/
  hb_own   : ∀ p i j c cont, s.pc p = .holding j c → hbIno (s.hb p) = some i → s.file = some (j, cont) → i = j

theorem inv_init (t0 : Nat) (f0 : Option Content) : Inv (initState t0 f0) := by
  refine ⟨?_, ?_, ?_, ?_, ?_, ?_, ?_, ?_, ?_⟩ <;> simp [initState, ownIno, hbIno]

/-- an actor moves to a state that owns nothing; nothing else changes -/
theorem inv_pc {s : State} (I : Inv s) (p : Nat) (x : PC) (hx : ownIno x = none) :
    Inv { s with pc := upd s.pc p x } := by
  refine ⟨?_, I.file_lt, ?_, I.hb_lt, I.beat_le, ?_, ?_, ?_, ?_⟩
  · intro q i h; exact I.own_lt q i (own_upd_none hx h).2
  · intro q r i hq hr; exact I.own_inj q r i (own_upd_none hx hq).2 (own_upd_none hx hr).2
  · intro q i c c' u hq hf; exact I.fresh q i c c' u (holding_upd hx hq).2 hf
  · intro q i cont hq hf; exact I.cr_empty q i cont (created_upd hx hq).2 hf
  · intro q r i hq; exact I.cr_nohb q r i (created_upd hx hq).2
  · intro q i j c cont hq hh hf; exact I.hb_own q i j c cont (holding_upd hx hq).2 hh hf

/-- the same, and the lock file is removed (stale removal, Unlock) -/
theorem inv_pc_nofile {s : State} (I : Inv s) (p : Nat) (x : PC) (hx : ownIno x = none) :
    Inv { s with file := none, pc := upd s.pc p x } := by
  have J := inv_pc I p x hx
  refine ⟨J.own_lt, ?_, J.own_inj, J.hb_lt, J.beat_le, ?_, ?_, J.cr_nohb, ?_⟩
  · intro i c h; cases h
  · intro q i c c' u _ h; cases h
  · intro q i cont _ h; cases h
  · intro q i j c cont _ _ h; cases h

/-- a heartbeat goroutine moves to a state without a descriptor -/
theorem inv_hb_none {s : State} (I : Inv s) (p : Nat) (y : HB) (hy : hbIno y = none) :
    Inv { s with hb := upd s.hb p y } := by
  refine ⟨I.own_lt, I.file_lt, I.own_inj, ?_, I.beat_le, I.fresh, I.cr_empty, ?_, ?_⟩
  · intro q i h; exact I.hb_lt q i (hb_upd_none hy h).2
  · intro q r i hq h; exact I.cr_nohb q r i hq (hb_upd_none hy h).2
  · intro q i j c cont hq hh hf; exact I.hb_own q i j c cont hq (hb_upd_none hy hh).2 hf

theorem inv_step (c : Params) {s s' : State} {e : Ev} (I : Inv s) (h : step c s e = some s') : Inv s' := by
  cases e with
  | tick d =>
    simp only [step, Option.some.injEq] at h; subst h
    exact ⟨I.own_lt, I.file_lt, I.own_inj, I.hb_lt, fun p => Nat.le_trans (I.beat_le p) (Nat.le_add_right _ _),
      I.fresh, I.cr_empty, I.cr_nohb, I.hb_own⟩
  | lock p =>
    simp only [step] at h
    split at h
    · simp only [Option.some.injEq] at h; subst h
      exact inv_pc I p _ rfl
    · cases h
  | tryCreate p =>
    simp only [step] at h
    split at h
    · rename_i e hp
      split at h
      · rename_i hf
        simp only [Option.some.injEq] at h; subst h
        have hown : ∀ q i, ownIno (upd s.pc p (.created s.next) q) = some i →
            (q = p ∧ i = s.next) ∨ (q ≠ p ∧ ownIno (s.pc q) = some i) := by
          intro q i hq
          by_cases hqp : q = p
          · subst hqp; simp [ownIno] at hq; exact Or.inl ⟨rfl, hq.symm⟩
          · rw [upd_other _ _ _ _ hqp] at hq; exact Or.inr ⟨hqp, hq⟩
        refine ⟨?_, ?_, ?_, ?_, I.beat_le, ?_, ?_, ?_, ?_⟩
        · intro q i hq
          dsimp only at hq ⊢
          rcases hown q i hq with ⟨_, rfl⟩ | ⟨_, h2⟩
          · omega
          · have := I.own_lt q i h2; omega
        · intro i cont hfile
          dsimp only at hfile ⊢
          simp only [Option.some.injEq, Prod.mk.injEq] at hfile
          omega
        · intro q r i hq hr
          dsimp only at hq hr
          rcases hown q i hq with ⟨rfl, rfl⟩ | ⟨_, hq2⟩
          · rcases hown r _ hr with ⟨rfl, _⟩ | ⟨_, hr2⟩
            · rfl
            · exact absurd (I.own_lt r _ hr2) (Nat.lt_irrefl _)
          · rcases hown r i hr with ⟨rfl, rfl⟩ | ⟨_, hr2⟩
            · exact absurd (I.own_lt q _ hq2) (Nat.lt_irrefl _)
            · exact I.own_inj q r i hq2 hr2
        · intro q i hq
          dsimp only at hq ⊢
          have := I.hb_lt q i hq; omega
        · intro q i cc c' u _ hfile
          dsimp only at hfile
          simp at hfile
        · intro q i cont _ hfile
          dsimp only at hfile
          simp only [Option.some.injEq, Prod.mk.injEq] at hfile
          exact hfile.2.symm
        · intro q r i hq hh
          dsimp only at hq hh
          by_cases hqp : q = p
          · subst hqp; simp at hq; subst hq
            exact absurd (I.hb_lt r _ hh) (Nat.lt_irrefl _)
          · rw [upd_other _ _ _ _ hqp] at hq; exact I.cr_nohb q r i hq hh
        · intro q i j cc cont hq _ hfile
          dsimp only at hq hfile
          simp only [Option.some.injEq, Prod.mk.injEq] at hfile
          by_cases hqp : q = p
          · subst hqp; simp at hq
          · rw [upd_other _ _ _ _ hqp] at hq
            have := I.own_lt q j (own_of_holding hq)
            omega
      · simp only [Option.some.injEq] at h; subst h
        exact inv_pc I p _ rfl
    · cases h
  | writeMeta p =>
    simp only [step] at h
    split at h
    · rename_i i hp
      simp only [Option.some.injEq] at h; subst h
      have hpo : ownIno (s.pc p) = some i := own_of_created hp
      have hown : ∀ q j, ownIno (upd s.pc p (.holding i s.now) q) = some j → ownIno (s.pc q) = some j := by
        intro q j hq
        by_cases hqp : q = p
        · subst hqp; simp [ownIno] at hq; subst hq; exact hpo
        · rw [upd_other _ _ _ _ hqp] at hq; exact hq
      refine ⟨?_, ?_, ?_, ?_, ?_, ?_, ?_, ?_, ?_⟩
      · intro q j hq; exact I.own_lt q j (hown q j hq)
      · intro j cont hfile
        dsimp only at hfile ⊢
        obtain ⟨old, ho, _⟩ := writeIno_some hfile
        exact I.file_lt j old ho
      · intro q r j hq hr; exact I.own_inj q r j (hown q j hq) (hown r j hr)
      · intro q j hq
        dsimp only at hq ⊢
        exact I.hb_lt q j (hb_upd_none (y := .sleep (s.now + c.H) s.now) rfl hq).2
      · intro q
        dsimp only
        by_cases hqp : q = p
        · subst hqp; simp
        · rw [upd_other _ _ _ _ hqp]; exact I.beat_le q
      · intro q j cc c' u hq hfile
        dsimp only at hq hfile ⊢
        obtain ⟨old, ho, hcase⟩ := writeIno_some hfile
        by_cases hqp : q = p
        · subst hqp
          simp at hq
          obtain ⟨rfl, rfl⟩ := hq
          rcases hcase with ⟨_, hc⟩ | ⟨hne, _⟩
          · simp at hc; simp [hc.2]
          · exact absurd rfl hne
        · rw [upd_other _ _ _ _ hqp] at hq ⊢
          rcases hcase with ⟨rfl, _⟩ | ⟨_, rfl⟩
          · exact absurd (I.own_inj q p j (own_of_holding hq) hpo) hqp
          · exact I.fresh q j cc c' u hq ho
      · intro q j cont hq hfile
        dsimp only at hq hfile
        obtain ⟨old, ho, hcase⟩ := writeIno_some hfile
        by_cases hqp : q = p
        · subst hqp; simp at hq
        · rw [upd_other _ _ _ _ hqp] at hq
          rcases hcase with ⟨rfl, _⟩ | ⟨_, rfl⟩
          · exact absurd (I.own_inj q p j (own_of_created hq) hpo) hqp
          · exact I.cr_empty q j _ hq ho
      · intro q r j hq hh
        dsimp only at hq hh
        by_cases hqp : q = p
        · subst hqp; simp at hq
        · rw [upd_other _ _ _ _ hqp] at hq
          exact I.cr_nohb q r j hq (hb_upd_none (y := .sleep (s.now + c.H) s.now) rfl hh).2
      · intro q j k cc cont hq hh hfile
        dsimp only at hq hh hfile
        obtain ⟨old, ho, _⟩ := writeIno_some hfile
        obtain ⟨hqp, hh'⟩ := hb_upd_none (y := .sleep (s.now + c.H) s.now) rfl hh
        rw [upd_other _ _ _ _ hqp] at hq
        exact I.hb_own q j k cc old hq hh' ho
    · cases h
  | observe p =>
    simp only [step] at h
    split at h
    · split at h
      · simp only [Option.some.injEq] at h; subst h; exact inv_pc I p _ rfl
      · simp only [Option.some.injEq] at h; subst h; exact inv_pc I p _ (ownIno_afterEmpty _ _ _)
      · simp only [Option.some.injEq] at h; subst h; exact inv_pc I p _ (ownIno_afterEmpty _ _ _)
      · split at h
        · simp only [Option.some.injEq] at h; subst h; exact inv_pc I p _ rfl
        · simp only [Option.some.injEq] at h; subst h; exact inv_pc I p _ rfl
    · cases h
  | remove p =>
    simp only [step] at h
    split at h
    · simp only [Option.some.injEq] at h; subst h; exact inv_pc_nofile I p _ rfl
    · cases h
  | wake p =>
    simp only [step] at h
    split at h
    · split at h
      · simp only [Option.some.injEq] at h; subst h; exact inv_pc I p _ rfl
      · cases h
    · split at h
      · simp only [Option.some.injEq] at h; subst h; exact inv_pc I p _ rfl
      · cases h
    · cases h
  | cancel p =>
    simp only [step] at h
    split at h
    · simp only [Option.some.injEq] at h; subst h; exact inv_pc I p _ rfl
    · simp only [Option.some.injEq] at h; subst h; exact inv_pc I p _ rfl
    · cases h
  | unlock p =>
    simp only [step] at h
    split at h
    · simp only [Option.some.injEq] at h; subst h; exact inv_pc_nofile I p _ rfl
    · cases h
  | die p =>
    simp only [step] at h
    split at h
    · cases h
    · simp only [Option.some.injEq] at h; subst h
      exact inv_hb_none (inv_pc I p .dead rfl) p .stopped rfl
  | hbOpen p =>
    simp only [step] at h
    split at h
    · rename_i due c0 hp
      split at h
      · split at h
        · rename_i i cr u hf
          split at h
          · simp only [Option.some.injEq] at h; subst h
            have hhb : ∀ q j, hbIno (upd s.hb p (.opened i c0) q) = some j →
                (q = p ∧ j = i) ∨ (q ≠ p ∧ hbIno (s.hb q) = some j) := by
              intro q j hq
              by_cases hqp : q = p
              · subst hqp; simp [hbIno] at hq; exact Or.inl ⟨rfl, hq.symm⟩
              · rw [upd_other _ _ _ _ hqp] at hq; exact Or.inr ⟨hqp, hq⟩
            refine ⟨I.own_lt, I.file_lt, I.own_inj, ?_, I.beat_le, I.fresh, I.cr_empty, ?_, ?_⟩
            · intro q j hq
              dsimp only at hq ⊢
              rcases hhb q j hq with ⟨_, rfl⟩ | ⟨_, h2⟩
              · exact I.file_lt _ _ hf
              · exact I.hb_lt q j h2
            · intro q r j hq hh
              dsimp only at hq hh
              rcases hhb r j hh with ⟨_, rfl⟩ | ⟨_, h2⟩
              · have := I.cr_empty q _ _ hq hf; cases this
              · exact I.cr_nohb q r j hq h2
            · intro q j k cc cont hq hh hfile
              dsimp only at hq hh hfile
              rcases hhb q j hh with ⟨_, rfl⟩ | ⟨_, h2⟩
              · rw [hf] at hfile
                simp only [Option.some.injEq, Prod.mk.injEq] at hfile
                exact hfile.1
              · exact I.hb_own q j k cc cont hq h2 hfile
          · simp only [Option.some.injEq] at h; subst h; exact inv_hb_none I p _ rfl
        · simp only [Option.some.injEq] at h; subst h; exact inv_hb_none I p _ rfl
      · cases h
    · cases h
  | hbTrunc p =>
    simp only [step] at h
    split at h
    · rename_i i c0 hp
      simp only [Option.some.injEq] at h; subst h
      have hpi : hbIno (s.hb p) = some i := by rw [hp]; rfl
      have hhb : ∀ q j, hbIno (upd s.hb p (.trunc i c0) q) = some j → hbIno (s.hb q) = some j := by
        intro q j hq
        by_cases hqp : q = p
        · subst hqp; simp [hbIno] at hq; subst hq; exact hpi
        · rw [upd_other _ _ _ _ hqp] at hq; exact hq
      refine ⟨I.own_lt, ?_, I.own_inj, ?_, I.beat_le, ?_, ?_, ?_, ?_⟩
      · intro j cont hfile
        dsimp only at hfile ⊢
        obtain ⟨old, ho, _⟩ := writeIno_some hfile
        exact I.file_lt j old ho
      · intro q j hq; exact I.hb_lt q j (hhb q j hq)
      · intro q j cc c' u hq hfile
        dsimp only at hq hfile ⊢
        obtain ⟨old, ho, hcase⟩ := writeIno_some hfile
        rcases hcase with ⟨_, hc⟩ | ⟨_, rfl⟩
        · cases hc
        · exact I.fresh q j cc c' u hq ho
      · intro q j cont hq hfile
        dsimp only at hq hfile
        obtain ⟨old, ho, hcase⟩ := writeIno_some hfile
        rcases hcase with ⟨_, hc⟩ | ⟨_, rfl⟩
        · exact hc
        · exact I.cr_empty q j _ hq ho
      · intro q r j hq hh; exact I.cr_nohb q r j hq (hhb r j hh)
      · intro q j k cc cont hq hh hfile
        dsimp only at hq hh hfile
        obtain ⟨old, ho, _⟩ := writeIno_some hfile
        exact I.hb_own q j k cc old hq (hhb q j hh) ho
    · cases h
  | hbWrite p =>
    simp only [step] at h
    split at h
    · rename_i i c0 hp
      simp only [Option.some.injEq] at h; subst h
      have hpi : hbIno (s.hb p) = some i := by rw [hp]; rfl
      have hnone : ∀ q j, hbIno (upd s.hb p (.sleep (s.now + c.H) c0) q) = some j →
          q ≠ p ∧ hbIno (s.hb q) = some j := fun q j hq => hb_upd_none rfl hq
      refine ⟨I.own_lt, ?_, I.own_inj, ?_, ?_, ?_, ?_, ?_, ?_⟩
      · intro j cont hfile
        dsimp only at hfile ⊢
        obtain ⟨old, ho, _⟩ := writeIno_some hfile
        exact I.file_lt j old ho
      · intro q j hq; exact I.hb_lt q j (hnone q j hq).2
      · intro q
        dsimp only
        by_cases hqp : q = p
        · subst hqp; simp
        · rw [upd_other _ _ _ _ hqp]; exact I.beat_le q
      · intro q j cc c' u hq hfile
        dsimp only at hq hfile ⊢
        obtain ⟨old, ho, hcase⟩ := writeIno_some hfile
        rcases hcase with ⟨rfl, hc⟩ | ⟨hne, rfl⟩
        · simp only [Content.stamp.injEq] at hc
          rw [hc.2]
          by_cases hqp : q = p
          · subst hqp; simp
          · rw [upd_other _ _ _ _ hqp]; exact I.beat_le q
        · by_cases hqp : q = p
          · subst hqp
            exact absurd (I.hb_own q i j cc _ hq hpi ho) (fun e => hne e.symm)
          · rw [upd_other _ _ _ _ hqp]; exact I.fresh q j cc c' u hq ho
      · intro q j cont hq hfile
        dsimp only at hq hfile
        obtain ⟨old, ho, hcase⟩ := writeIno_some hfile
        rcases hcase with ⟨rfl, _⟩ | ⟨_, rfl⟩
        · exact absurd hpi (I.cr_nohb q p j hq)
        · exact I.cr_empty q j _ hq ho
      · intro q r j hq hh; exact I.cr_nohb q r j hq (hnone r j hh).2
      · intro q j k cc cont hq hh hfile
        dsimp only at hq hh hfile
        obtain ⟨old, ho, _⟩ := writeIno_some hfile
        exact I.hb_own q j k cc old hq (hnone q j hh).2 ho
    · cases h

/-! ### freshness: a holder whose beats are on time never looks stale -/

theorem not_stale_of_fresh (c : Params) (J now beat cr u : Nat) (hJ : c.H + J < c.factor * c.H)
    (hb : beat ≤ u) (ht : now ≤ beat + c.H + J) : stale c now cr u = false := by
  unfold stale
  by_cases hu : u = 0
  · subst hu
    have : beat = 0 := by omega
    subst this
    simp
    omega
  · simp [hu]
    omega

/-! ### the invariant behind mutual exclusion (under H_live, H_timely, H_empty) -/

def Assumed (c : Params) (J : Nat) : State → Ev → State → Prop :=
  fun s e s' => HLive s e s' ∧ HTimely c J s e s' ∧ HEmpty s e s'

structure MInv (s : State) : Prop where
  file_owned : ∀ i cont, s.file = some (i, cont) → ∃ p, ownIno (s.pc p) = some i
  owner_file : ∀ p i, ownIno (s.pc p) = some i → ∃ cont, s.file = some (i, cont)
  no_remover : ∀ p e, s.pc p ≠ .removing e

theorem minv_init (t0 : Nat) : MInv (initState t0 none) := by
  refine ⟨?_, ?_, ?_⟩ <;> simp [initState, ownIno]

/-- an actor that owns nothing moves to another state that owns nothing and is not `removing` -/
theorem minv_pc {s : State} (M : MInv s) (p : Nat) (x : PC) (h0 : ownIno (s.pc p) = none)
    (hx : ownIno x = none) (hr : ∀ e, x ≠ .removing e) : MInv { s with pc := upd s.pc p x } := by
  refine ⟨?_, ?_, ?_⟩
  · intro i cont hf
    obtain ⟨q, hq⟩ := M.file_owned i cont hf
    refine ⟨q, ?_⟩
    dsimp only
    have : q ≠ p := by intro e; subst e; rw [h0] at hq; cases hq
    rw [upd_other _ _ _ _ this]; exact hq
  · intro q i hq
    exact M.owner_file q i (own_upd_none hx hq).2
  · intro q e
    dsimp only
    by_cases hqp : q = p
    · subst hqp; simp; exact hr e
    · rw [upd_other _ _ _ _ hqp]; exact M.no_remover q e

theorem writeIno_keeps {f : Option (Nat × Content)} {j : Nat} {cont : Content} (h : f = some (j, cont))
    (i : Nat) (x : Content) : ∃ cont', writeIno f i x = some (j, cont') := by
  subst h
  unfold writeIno
  by_cases hk : j = i
  · exact ⟨x, by simp [hk]⟩
  · exact ⟨cont, by simp [hk]⟩

/-- the lock file's content is rewritten in place (same inode) and the owners keep their inodes -/
theorem minv_rewrite {s : State} (M : MInv s) (pc' : Nat → PC) (hb' : Nat → HB) (beat' : Nat → Nat)
    (i : Nat) (x : Content) (hown : ∀ q, ownIno (pc' q) = ownIno (s.pc q))
    (hrem : ∀ q e, pc' q ≠ .removing e) :
    MInv { s with file := writeIno s.file i x, pc := pc', hb := hb', beat := beat' } := by
  refine ⟨?_, ?_, hrem⟩
  · intro j cont hf
    dsimp only at hf
    obtain ⟨old, ho, _⟩ := writeIno_some hf
    obtain ⟨q, hq⟩ := M.file_owned j old ho
    exact ⟨q, by dsimp only; rw [hown q]; exact hq⟩
  · intro q j hq
    dsimp only at hq ⊢
    rw [hown q] at hq
    obtain ⟨cont, hc⟩ := M.owner_file q j hq
    exact writeIno_keeps hc i x

theorem minv_step (c : Params) (J : Nat) (hJ : c.H + J < c.factor * c.H) {s s' : State} {e : Ev}
    (I : Inv s) (M : MInv s) (h : step c s e = some s') (A : Assumed c J s e s') : MInv s' := by
  obtain ⟨AL, AT, AE⟩ := A
  cases e with
  | tick d =>
    simp only [step, Option.some.injEq] at h; subst h
    exact ⟨M.file_owned, M.owner_file, M.no_remover⟩
  | lock p =>
    simp only [step] at h
    split at h
    · rename_i hp
      simp only [Option.some.injEq] at h; subst h
      exact minv_pc M p _ (by rw [hp]; rfl) rfl (by simp)
    · cases h
  | tryCreate p =>
    simp only [step] at h
    split at h
    · rename_i e hp
      split at h
      · rename_i hf
        simp only [Option.some.injEq] at h; subst h
        refine ⟨?_, ?_, ?_⟩
        · intro i cont hfile
          dsimp only at hfile ⊢
          simp only [Option.some.injEq, Prod.mk.injEq] at hfile
          exact ⟨p, by simp [ownIno, hfile.1]⟩
        · intro q i hq
          dsimp only at hq ⊢
          by_cases hqp : q = p
          · subst hqp; simp [ownIno] at hq; subst hq; exact ⟨_, rfl⟩
          · rw [upd_other _ _ _ _ hqp] at hq
            obtain ⟨cont, hc⟩ := M.owner_file q i hq
            rw [hf] at hc; cases hc
        · intro q e'
          dsimp only
          by_cases hqp : q = p
          · subst hqp; simp
          · rw [upd_other _ _ _ _ hqp]; exact M.no_remover q e'
      · simp only [Option.some.injEq] at h; subst h
        exact minv_pc M p _ (by rw [hp]; rfl) rfl (by simp)
    · cases h
  | writeMeta p =>
    simp only [step] at h
    split at h
    · rename_i i hp
      simp only [Option.some.injEq] at h; subst h
      refine minv_rewrite M _ _ _ i _ ?_ ?_
      · intro q
        by_cases hqp : q = p
        · subst hqp; simp [hp, ownIno]
        · rw [upd_other _ _ _ _ hqp]
      · intro q e'
        by_cases hqp : q = p
        · subst hqp; simp
        · rw [upd_other _ _ _ _ hqp]; exact M.no_remover q e'
    · cases h
  | observe p =>
    have hE := AE p rfl
    simp only [step] at h
    split at h
    · rename_i e hp
      have h0 : ownIno (s.pc p) = none := by rw [hp]; rfl
      split at h
      · simp only [Option.some.injEq] at h; subst h
        exact minv_pc M p _ h0 rfl (by simp)
      · rename_i i hf
        simp only [Option.some.injEq] at h; subst h
        refine minv_pc M p _ h0 (ownIno_afterEmpty _ _ _) ?_
        intro k hk
        obtain ⟨q, hq⟩ := M.file_owned _ _ hf
        have := hE ⟨i, Or.inl hf, q, hq⟩ k
        dsimp only at this
        simp at this
        exact this hk
      · rename_i i hf
        simp only [Option.some.injEq] at h; subst h
        refine minv_pc M p _ h0 (ownIno_afterEmpty _ _ _) ?_
        intro k hk
        obtain ⟨q, hq⟩ := M.file_owned _ _ hf
        have := hE ⟨i, Or.inr hf, q, hq⟩ k
        dsimp only at this
        simp at this
        exact this hk
      · rename_i i cr u hf
        -- the file carries a stamp: its owner is holding, on time, hence the stamp is fresh
        obtain ⟨q, hq⟩ := M.file_owned _ _ hf
        have hqp : q ≠ p := by intro e'; subst e'; rw [h0] at hq; cases hq
        have hfresh : stale c s.now cr u = false := by
          cases hpcq : s.pc q with
          | created j =>
            rw [hpcq] at hq; simp [ownIno] at hq; subst hq
            have := I.cr_empty q _ _ hpcq hf; cases this
          | holding j cq =>
            rw [hpcq] at hq; simp [ownIno] at hq; subst hq
            have hb := I.fresh q _ cq cr u hpcq hf
            -- H_timely speaks about the post-state, which has the same clock, beats and pc q
            split at h
            · simp only [Option.some.injEq] at h; subst h
              have := AT q j cq (by dsimp only; rw [upd_other _ _ _ _ hqp]; exact hpcq)
              exact not_stale_of_fresh c J _ _ cr u hJ hb this
            · simp only [Option.some.injEq] at h; subst h
              have := AT q j cq (by dsimp only; rw [upd_other _ _ _ _ hqp]; exact hpcq)
              exact not_stale_of_fresh c J _ _ cr u hJ hb this
          | idle => rw [hpcq] at hq; cases hq
          | try_ _ => rw [hpcq] at hq; cases hq
          | exists_ _ => rw [hpcq] at hq; cases hq
          | sleepE _ _ => rw [hpcq] at hq; cases hq
          | poll _ _ => rw [hpcq] at hq; cases hq
          | removing _ => rw [hpcq] at hq; cases hq
          | released => rw [hpcq] at hq; cases hq
          | cancelled => rw [hpcq] at hq; cases hq
          | dead => rw [hpcq] at hq; cases hq
        rw [hfresh] at h
        simp only [Bool.false_eq_true, if_false, Option.some.injEq] at h; subst h
        exact minv_pc M p _ h0 rfl (by simp)
    · cases h
  | remove p =>
    simp only [step] at h
    split at h
    · rename_i e hp
      exact absurd hp (M.no_remover p e)
    · cases h
  | wake p =>
    simp only [step] at h
    split at h
    · rename_i e due hp
      split at h
      · simp only [Option.some.injEq] at h; subst h
        exact minv_pc M p _ (by rw [hp]; rfl) rfl (by simp)
      · cases h
    · rename_i e due hp
      split at h
      · simp only [Option.some.injEq] at h; subst h
        exact minv_pc M p _ (by rw [hp]; rfl) rfl (by simp)
      · cases h
    · cases h
  | cancel p =>
    simp only [step] at h
    split at h
    · rename_i e due hp
      simp only [Option.some.injEq] at h; subst h
      exact minv_pc M p _ (by rw [hp]; rfl) rfl (by simp)
    · rename_i e due hp
      simp only [Option.some.injEq] at h; subst h
      exact minv_pc M p _ (by rw [hp]; rfl) rfl (by simp)
    · cases h
  | unlock p =>
    simp only [step] at h
    split at h
    · rename_i i cp hp
      simp only [Option.some.injEq] at h; subst h
      refine ⟨?_, ?_, ?_⟩
      · intro j cont hf; cases hf
      · intro q j hq
        dsimp only at hq
        obtain ⟨hqp, hq'⟩ := own_upd_none (x := .released) rfl hq
        obtain ⟨c1, h1⟩ := M.owner_file q j hq'
        obtain ⟨c2, h2⟩ := M.owner_file p i (own_of_holding hp)
        rw [h1] at h2
        simp only [Option.some.injEq, Prod.mk.injEq] at h2
        obtain ⟨rfl, _⟩ := h2
        exact absurd (I.own_inj q p j hq' (own_of_holding hp)) hqp
      · intro q e'
        dsimp only
        by_cases hqp : q = p
        · subst hqp; simp
        · rw [upd_other _ _ _ _ hqp]; exact M.no_remover q e'
    · cases h
  | die p =>
    have hL := AL p rfl
    simp only [step] at h
    split at h
    · cases h
    · simp only [Option.some.injEq] at h; subst h
      have h0 : ownIno (s.pc p) = none := by
        cases ho : ownIno (s.pc p) with
        | none => rfl
        | some i => exact absurd ⟨i, ho⟩ hL
      have := minv_pc M p .dead h0 rfl (by simp)
      exact ⟨this.file_owned, this.owner_file, this.no_remover⟩
  | hbOpen p =>
    simp only [step] at h
    split at h
    · split at h
      · split at h
        · split at h
          · simp only [Option.some.injEq] at h; subst h
            exact ⟨M.file_owned, M.owner_file, M.no_remover⟩
          · simp only [Option.some.injEq] at h; subst h
            exact ⟨M.file_owned, M.owner_file, M.no_remover⟩
        · simp only [Option.some.injEq] at h; subst h
          exact ⟨M.file_owned, M.owner_file, M.no_remover⟩
      · cases h
    · cases h
  | hbTrunc p =>
    simp only [step] at h
    split at h
    · rename_i i c0 hp
      simp only [Option.some.injEq] at h; subst h
      have := minv_rewrite M s.pc (upd s.hb p (.trunc i c0)) s.beat i .empty (fun _ => rfl) M.no_remover
      exact this
    · cases h
  | hbWrite p =>
    simp only [step] at h
    split at h
    · rename_i i c0 hp
      simp only [Option.some.injEq] at h; subst h
      exact minv_rewrite M s.pc _ _ i _ (fun _ => rfl) M.no_remover
    · cases h

theorem inv_reach {c : Params} {A : State → Ev → State → Prop} {t0 : Nat} {f0 : Option Content} {s : State}
    (h : Reach c A (initState t0 f0) s) : Inv s := by
  induction h with
  | init => exact inv_init t0 f0
  | step _ hs _ ih => exact inv_step c ih hs

/-! ### a concrete run that satisfies the three assumptions (non-vacuity of `C08_mutex`) -/

/-- the three assumptions hold of a transition whose event is no `die`, whose observed file
is not empty/garbage, and after which every holder's beat is the present instant -/
theorem assumed_of (c : Params) (J : Nat) (s s' : State) (e : Ev)
    (hd : ∀ p, e ≠ .die p)
    (hf : (∀ p, e ≠ .observe p) ∨ ∀ i, s.file ≠ some (i, .empty) ∧ s.file ≠ some (i, .garbage))
    (ht : ∀ p i cr, s'.pc p = .holding i cr → s'.now ≤ s'.beat p + c.H + J) : Assumed c J s e s' := by
  refine ⟨fun p h => absurd h (hd p), ht, ?_⟩
  intro p he ⟨i, h, _⟩
  rcases hf with hf | hf
  · exact absurd he (hf p)
  · rcases h with h | h
    · exact absurd h (hf i).1
    · exact absurd h (hf i).2

def ex0 : State := initState 100 none
def ex1 : State := { ex0 with pc := upd ex0.pc 0 (.try_ 0) }
def ex2 : State := { ex1 with file := some (1, .empty), next := 2, pc := upd ex1.pc 0 (.created 1) }
def ex3 : State := { ex2 with file := some (1, .stamp 100 100), pc := upd ex2.pc 0 (.holding 1 100)
                              hb := upd ex2.hb 0 (.sleep (100 + codeParams.H) 100), beat := upd ex2.beat 0 100 }
def ex4 : State := { ex3 with pc := upd ex3.pc 1 (.try_ 0) }
def ex5 : State := { ex4 with pc := upd ex4.pc 1 (.exists_ 0) }
def ex6 : State := { ex5 with pc := upd ex5.pc 1 (.poll 0 (100 + codeParams.P)) }

theorem ex_reach : Reach codeParams (Assumed codeParams 0) (initState 100 none) ex6 := by
  have r0 : Reach codeParams (Assumed codeParams 0) (initState 100 none) ex0 := .init
  have r1 : Reach codeParams (Assumed codeParams 0) (initState 100 none) ex1 := by
    refine .step (e := .lock 0) r0 rfl (assumed_of _ _ _ _ _ (by simp) (Or.inl (by simp)) ?_)
    intro p i cr h
    by_cases hp : p = 0 <;> simp [ex1, ex0, initState, upd, hp] at h
  have r2 : Reach codeParams (Assumed codeParams 0) (initState 100 none) ex2 := by
    refine .step (e := .tryCreate 0) r1 rfl (assumed_of _ _ _ _ _ (by simp) (Or.inl (by simp)) ?_)
    intro p i cr h
    by_cases hp : p = 0 <;> simp [ex2, ex1, ex0, initState, upd, hp] at h
  have r3 : Reach codeParams (Assumed codeParams 0) (initState 100 none) ex3 := by
    refine .step (e := .writeMeta 0) r2 rfl (assumed_of _ _ _ _ _ (by simp) (Or.inl (by simp)) ?_)
    intro p i cr h
    by_cases hp : p = 0
    · subst hp; simp [ex3, ex2, ex1, ex0, initState, upd]
    · simp [ex3, ex2, ex1, ex0, initState, upd, hp] at h
  have r4 : Reach codeParams (Assumed codeParams 0) (initState 100 none) ex4 := by
    refine .step (e := .lock 1) r3 rfl (assumed_of _ _ _ _ _ (by simp) (Or.inl (by simp)) ?_)
    intro p i cr h
    by_cases hp : p = 0
    · subst hp; simp [ex4, ex3, ex2, ex1, ex0, initState, upd]
    · by_cases hp1 : p = 1 <;> simp [ex4, ex3, ex2, ex1, ex0, initState, upd, hp, hp1] at h
  have r5 : Reach codeParams (Assumed codeParams 0) (initState 100 none) ex5 := by
    refine .step (e := .tryCreate 1) r4 rfl (assumed_of _ _ _ _ _ (by simp) (Or.inl (by simp)) ?_)
    intro p i cr h
    by_cases hp : p = 0
    · subst hp; simp [ex5, ex4, ex3, ex2, ex1, ex0, initState, upd]
    · by_cases hp1 : p = 1 <;> simp [ex5, ex4, ex3, ex2, ex1, ex0, initState, upd, hp, hp1] at h
  refine .step (e := .observe 1) r5 rfl (assumed_of _ _ _ _ _ (by simp) (Or.inr (by simp [ex5, ex4, ex3])) ?_)
  intro p i cr h
  by_cases hp : p = 0
  · subst hp; simp [ex6, ex5, ex4, ex3, ex2, ex1, ex0, initState, upd]
  · by_cases hp1 : p = 1 <;> simp [ex6, ex5, ex4, ex3, ex2, ex1, ex0, initState, upd, hp, hp1] at h

theorem minv_reach {c : Params} {J : Nat} (hJ : c.H + J < c.factor * c.H) {t0 : Nat} {s : State}
    (h : Reach c (Assumed c J) (initState t0 none) s) : Inv s ∧ MInv s := by
  induction h with
  | init => exact ⟨inv_init t0 none, minv_init t0⟩
  | step _ hs ha ih => exact ⟨inv_step c ih.1 hs, minv_step c J hJ ih.1 ih.2 hs ha⟩

end CM.FileLock
