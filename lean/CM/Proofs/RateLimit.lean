import CM.Model.RateLimit
/-!
Helper lemmas for C17.

Part 1 (`CM.RateLimit.Abs`): the rate limiter seen through the *rotated view* of its ring
(oldest first from the cursor; `record` = drop the head, append) with ANY new view allowed
at `setMax` — so what is proved here does not depend on the copy logic of `SetMaxEvents`
at all. The invariant `AInv` contains the sliding-window bound and is inductive over every
event kind.

Part 2: the rotation lemma (`view_record`), the characterisation of the copy loops of
`SetMaxEvents` (`resize_eq_spec`), and the refinement of the concrete model
(`CM.RateLimit.step`, ring + cursor + waiters) to the abstract one, which carries the
invariant over to every reachable concrete state.
-/
namespace CM.RateLimit.Abs
open CM.RateLimit

structure ASt where
  view  : List (Option Nat)   -- ring read from the cursor, oldest first
  W     : Nat
  now   : Nat
  phase : Phase
  adm   : List Nat            -- ghost: hand-off times since last config change, newest first
  recs  : List Nat            -- ghost: record times since last config change, newest first

inductive AEv
  | tick (d : Nat) | compute | fire | handoff | record
  | setMax (v : List (Option Nat)) | setWindow (w : Nat)
  | halt (ph : Phase)   -- the loop goroutine ends (stop, or its own panic) from phase `ph`

def astep (s : ASt) : AEv → Option ASt
  | .tick d => some { s with now := s.now + d }
  | .compute => match s.phase with
      | .idle => match s.view with
          | [] => some { s with phase := .offering true }
          | none :: _ => some { s with phase := .sleeping 0 true }
          | some t :: _ => some { s with phase := .sleeping (t + s.W) true }
      | _ => none
  | .fire => match s.phase with
      | .sleeping t f => if t ≤ s.now then some { s with phase := .offering f } else none
      | _ => none
  | .handoff => match s.phase with
      | .offering _ => some { s with phase := .recording true, adm := s.now :: s.adm }
      | _ => none
  | .record => match s.phase with
      | .recording _ =>
          some { s with phase := .idle,
                        view := if s.view = [] then [] else s.view.tail ++ [some s.now],
                        recs := s.now :: s.recs }
      | _ => none
  | .setMax v => if v = [] ∧ s.W ≠ 0 then none else
      some { s with view := v, phase := stale s.phase, adm := [], recs := [] }
  | .setWindow w => if s.view = [] ∧ w ≠ 0 then none else
      some { s with W := w, phase := stale s.phase, adm := [], recs := [] }
  | .halt ph => if s.phase = ph ∧ ph ≠ .recording true then some { s with phase := .stopped } else none

/-- the property: any N+1 consecutive admissions since the last change span at least W -/
def Bound (s : ASt) : Prop :=
  ∀ (i x y : Nat), s.adm[i]? = some x → s.adm[i + s.view.length]? = some y → y + s.W ≤ x

def counted (s : ASt) : List Nat :=
  match s.phase with
  | .recording true => s.adm.tail
  | _ => s.adm

structure AInv (s : ASt) : Prop where
  bound : Bound s
  zero  : s.view = [] → s.W = 0
  view  : ∀ i, i < s.view.length → i < s.recs.length → s.view[s.view.length - 1 - i]? = some s.recs[i]?
  pairL : (counted s).length ≤ s.recs.length ∧ s.recs.length ≤ (counted s).length + 1
  pairE : ∀ (i x y : Nat), (counted s)[i]? = some x → s.recs[i]? = some y → x ≤ y
  past  : ∀ x ∈ s.adm, x ≤ s.now
  stl   : (s.phase = .offering false ∨ s.phase = .recording false ∨ ∃ t, s.phase = .sleeping t false) →
            s.adm = [] ∧ s.recs = []
  rec1  : s.phase = .recording true → s.adm ≠ []
  slp   : ∀ t, s.phase = .sleeping t true → ∀ (y : Nat), s.recs[s.view.length - 1]? = some y → 0 < s.view.length → y + s.W ≤ t
  off   : s.phase = .offering true → ∀ (y : Nat), s.recs[s.view.length - 1]? = some y → 0 < s.view.length → y + s.W ≤ s.now



theorem inv_tick {s : ASt} (d : Nat) (hi : AInv s) : AInv { s with now := s.now + d } := by
  refine ⟨hi.bound, hi.zero, hi.view, hi.pairL, hi.pairE, ?_, hi.stl, hi.rec1, hi.slp, ?_⟩
  · intro x hx; exact Nat.le_trans (hi.past x hx) (Nat.le_add_right _ _)
  · intro hp y hy hn; exact Nat.le_trans (hi.off hp y hy hn) (Nat.le_add_right _ _)

theorem counted_nil (s : ASt) (h : s.adm = []) : counted s = [] := by
  unfold counted; split <;> simp [h]

theorem inv_change {s : ASt} (v : List (Option Nat)) (w : Nat) (hz : v = [] → w = 0) :
    AInv { s with view := v, W := w, phase := stale s.phase, adm := [], recs := [] } := by
  refine ⟨?_, hz, ?_, ?_, ?_, ?_, ?_, ?_, ?_, ?_⟩
  · intro i x y hx; simp at hx
  · intro i _ hi; simp at hi
  · rw [counted_nil _ rfl]; simp
  · intro i x y _ hy; simp at hy
  · intro x hx; simp at hx
  · intro _; simp
  · intro hp; cases hph : s.phase <;> simp [stale, hph] at hp
  · intro t hp; cases hph : s.phase <;> simp [stale, hph] at hp
  · intro hp; cases hph : s.phase <;> simp [stale, hph] at hp



theorem counted_eq_adm (s : ASt) (h : s.phase ≠ .recording true) : counted s = s.adm := by
  unfold counted; split
  · rename_i hp; exact absurd hp h
  · rfl

theorem inv_setphase {s : ASt} (ph : Phase) (hi : AInv s)
    (h1 : s.phase ≠ .recording true) (h2 : ph ≠ .recording true)
    (hstl : (ph = .offering false ∨ ph = .recording false ∨ ∃ t, ph = .sleeping t false) → s.adm = [] ∧ s.recs = [])
    (hslp : ∀ t, ph = .sleeping t true → ∀ (y : Nat), s.recs[s.view.length - 1]? = some y → 0 < s.view.length → y + s.W ≤ t)
    (hoff : ph = .offering true → ∀ (y : Nat), s.recs[s.view.length - 1]? = some y → 0 < s.view.length → y + s.W ≤ s.now) :
    AInv { s with phase := ph } := by
  have hc : counted { s with phase := ph } = counted s := by
    rw [counted_eq_adm _ h1, counted_eq_adm _ (by simpa using h2)]
  refine ⟨hi.bound, hi.zero, hi.view, ?_, ?_, hi.past, hstl, ?_, hslp, hoff⟩
  · rw [hc]; exact hi.pairL
  · rw [hc]; exact hi.pairE
  · intro hp; exact absurd hp h2

theorem getElem?_some_lt {l : List Nat} {i y : Nat} (h : l[i]? = some y) : i < l.length := by
  rcases Nat.lt_or_ge i l.length with h' | h'
  · exact h'
  · simp [List.getElem?_eq_none h'] at h

theorem inv_compute {s s' : ASt} (hi : AInv s) (h : astep s .compute = some s') : AInv s' := by
  simp only [astep] at h
  split at h
  · rename_i hph
    split at h <;> simp at h <;> subst h
    · rename_i hv
      apply inv_setphase _ hi (by simp [hph]) (by simp)
      · intro hp; simp at hp
      · intro t hp; simp at hp
      · intro _ y _ hn; simp [hv] at hn
    · rename_i tl hv
      apply inv_setphase _ hi (by simp [hph]) (by simp)
      · intro hp; simp at hp
      · intro t hp y hy hn
        have hlen := getElem?_some_lt hy
        have := hi.view (s.view.length - 1) (by omega) hlen
        have h0 : s.view.length - 1 - (s.view.length - 1) = 0 := by omega
        rw [h0, hy, hv] at this; simp at this
      · intro hp; simp at hp
    · rename_i t0 tl hv
      apply inv_setphase _ hi (by simp [hph]) (by simp)
      · intro hp; simp at hp
      · intro t hp y hy hn
        simp at hp; subst hp
        have hlen := getElem?_some_lt hy
        have := hi.view (s.view.length - 1) (by omega) hlen
        have h0 : s.view.length - 1 - (s.view.length - 1) = 0 := by omega
        rw [h0, hy, hv] at this; simp at this
        omega
      · intro hp; simp at hp
  · simp at h

theorem inv_fire {s s' : ASt} (hi : AInv s) (h : astep s .fire = some s') : AInv s' := by
  simp only [astep] at h
  split at h
  · rename_i t f hph
    split at h <;> simp at h; subst h
    rename_i hle
    apply inv_setphase _ hi (by simp [hph]) (by simp)
    · intro hp
      have : f = false := by rcases hp with hp | hp | ⟨t', hp⟩ <;> simp at hp; exact hp
      subst this
      exact hi.stl (Or.inr (Or.inr ⟨t, hph⟩))
    · intro t' hp; simp at hp
    · intro hp y hy hn
      simp at hp; subst hp
      exact Nat.le_trans (hi.slp t hph y hy hn) hle
  · simp at h



theorem inv_handoff {s s' : ASt} (hi : AInv s) (h : astep s .handoff = some s') : AInv s' := by
  simp only [astep] at h
  split at h
  · rename_i f hph
    simp at h; subst h
    have hc : counted s = s.adm := counted_eq_adm s (by simp [hph])
    refine ⟨?_, hi.zero, hi.view, ?_, ?_, ?_, ?_, ?_, ?_, ?_⟩
    · intro i x y hx hy
      dsimp only at hx hy ⊢
      cases i with
      | zero =>
        simp at hx; subst hx
        by_cases hn : s.view.length = 0
        · have hz := hi.zero (List.eq_nil_of_length_eq_zero hn)
          simp [hn] at hy; omega
        · have hy' : s.adm[s.view.length - 1]? = some y := by
            have : 0 + s.view.length = (s.view.length - 1) + 1 := by omega
            rw [this] at hy; simpa using hy
          cases f with
          | false =>
            have := (hi.stl (Or.inl hph)).1
            rw [this] at hy'; simp at hy'
          | true =>
            have hlt : s.view.length - 1 < s.adm.length := getElem?_some_lt hy'
            have hl := hi.pairL; rw [hc] at hl
            have hlt2 : s.view.length - 1 < s.recs.length := by omega
            have hz : s.recs[s.view.length - 1]? = some (s.recs[s.view.length - 1]) := List.getElem?_eq_getElem hlt2
            have h1 := hi.pairE (s.view.length - 1) y _ (by rw [hc]; exact hy') hz
            have h2 := hi.off hph _ hz (by omega)
            omega
      | succ k =>
        have hx' : s.adm[k]? = some x := by simpa using hx
        have hy' : s.adm[k + s.view.length]? = some y := by
          have : k + 1 + s.view.length = (k + s.view.length) + 1 := by omega
          rw [this] at hy; simpa using hy
        exact hi.bound k x y hx' hy'
    · show (counted { s with phase := Phase.recording true, adm := s.now :: s.adm }).length ≤ _ ∧ _
      have : counted { s with phase := Phase.recording true, adm := s.now :: s.adm } = s.adm := by simp [counted]
      rw [this]; have hl := hi.pairL; rw [hc] at hl; exact hl
    · intro i x y hx hy
      have : counted { s with phase := Phase.recording true, adm := s.now :: s.adm } = s.adm := by simp [counted]
      rw [this] at hx
      exact hi.pairE i x y (by rw [hc]; exact hx) hy
    · intro x hx
      dsimp only at hx ⊢
      rcases List.mem_cons.mp hx with h | h
      · omega
      · exact hi.past x h
    · intro hp; simp at hp
    · intro _; simp
    · intro t hp; simp at hp
    · intro hp; simp at hp
  · simp at h



def newView (v : List (Option Nat)) (t : Nat) : List (Option Nat) :=
  if v = [] then [] else v.tail ++ [some t]

theorem newView_length (v : List (Option Nat)) (t : Nat) : (newView v t).length = v.length := by
  unfold newView; split
  · rename_i h; simp [h]
  · rename_i h
    cases v with
    | nil => exact absurd rfl h
    | cons a tl => simp

theorem newView_nil (v : List (Option Nat)) (t : Nat) : newView v t = [] ↔ v = [] := by
  constructor
  · intro h; have := newView_length v t; rw [h] at this; exact List.eq_nil_of_length_eq_zero this.symm
  · intro h; simp [newView, h]

theorem newView_last (v : List (Option Nat)) (t : Nat) (h : 0 < v.length) :
    (newView v t)[v.length - 1]? = some (some t) := by
  cases v with
  | nil => simp at h
  | cons a tl => simp [newView]

theorem newView_shift (v : List (Option Nat)) (t : Nat) (j : Nat) (h : j + 1 < v.length) :
    (newView v t)[j]? = v[j + 1]? := by
  cases v with
  | nil => simp at h
  | cons a tl =>
    simp at h
    simp [newView, List.getElem?_append_left h]

theorem inv_record {s s' : ASt} (hi : AInv s) (h : astep s .record = some s') : AInv s' := by
  simp only [astep] at h
  split at h
  · rename_i c hph
    simp at h; subst h
    have hlen : (newView s.view s.now).length = s.view.length := newView_length _ _
    refine ⟨?_, ?_, ?_, ?_, ?_, hi.past, ?_, ?_, ?_, ?_⟩
    · intro i x y hx hy
      show y + s.W ≤ x
      have hy' : s.adm[i + s.view.length]? = some y := by
        have := hy; dsimp only at this; rw [show (if s.view = [] then [] else s.view.tail ++ [some s.now]) = newView s.view s.now from rfl, hlen] at this; exact this
      exact hi.bound i x y hx hy'
    · intro hv
      exact hi.zero ((newView_nil _ s.now).mp hv)
    · intro i hi1 hi2
      show (newView s.view s.now)[(newView s.view s.now).length - 1 - i]? = some ((s.now :: s.recs)[i]?)
      rw [hlen]
      have hi1' : i < s.view.length := by
        have := hi1; dsimp only at this
        rw [show (if s.view = [] then [] else s.view.tail ++ [some s.now]) = newView s.view s.now from rfl, hlen] at this; exact this
      cases i with
      | zero => simpa using newView_last s.view s.now hi1'
      | succ k =>
        have hk : k < s.recs.length := by simpa using hi2
        rw [newView_shift _ _ _ (by omega)]
        have := hi.view k (by omega) hk
        have e : s.view.length - 1 - (k + 1) + 1 = s.view.length - 1 - k := by omega
        rw [e, this]; simp
    · show (counted { s with phase := Phase.idle, view := _, recs := s.now :: s.recs }).length ≤ _ ∧ _
      rw [counted_eq_adm _ (by simp)]
      dsimp only
      cases c with
      | false =>
        have := hi.stl (Or.inr (Or.inl hph)); simp [this.1, this.2]
      | true =>
        have hne := hi.rec1 hph
        have hl := hi.pairL
        have hc : counted s = s.adm.tail := by simp [counted, hph]
        rw [hc] at hl
        cases hadm : s.adm with
        | nil => exact absurd hadm hne
        | cons a tl => rw [hadm] at hl; simp at hl ⊢; omega
    · intro i x y hx hy
      rw [counted_eq_adm _ (by simp)] at hx
      dsimp only at hx hy
      cases c with
      | false =>
        have := hi.stl (Or.inr (Or.inl hph)); rw [this.1] at hx; simp at hx
      | true =>
        have hc : counted s = s.adm.tail := by simp [counted, hph]
        cases i with
        | zero =>
          simp at hy; subst hy
          have hm : x ∈ s.adm := List.mem_of_getElem? hx
          exact hi.past x hm
        | succ k =>
          have hy' : s.recs[k]? = some y := by simpa using hy
          have hx' : (counted s)[k]? = some x := by
            rw [hc]; cases hadm : s.adm with
            | nil => rw [hadm] at hx; simp at hx
            | cons a tl => rw [hadm] at hx; simpa using hx
          exact hi.pairE k x y hx' hy'
    · intro hp; simp at hp
    · intro hp; simp at hp
    · intro t hp; simp at hp
    · intro hp; simp at hp
  · simp at h

theorem inv_step {s s' : ASt} {e : AEv} (hi : AInv s) (h : astep s e = some s') : AInv s' := by
  cases e with
  | tick d => simp [astep] at h; subst h; exact inv_tick d hi
  | compute => exact inv_compute hi h
  | fire => exact inv_fire hi h
  | handoff => exact inv_handoff hi h
  | record => exact inv_record hi h
  | setMax v =>
    simp only [astep] at h; split at h <;> simp at h; subst h
    rename_i hg
    exact inv_change (s := s) v s.W (by intro hv; by_cases hw : s.W = 0; exact hw; exact absurd ⟨hv, hw⟩ hg)
  | setWindow w =>
    simp only [astep] at h; split at h <;> simp at h; subst h
    rename_i hg
    exact inv_change (s := s) s.view w (by intro hv; by_cases hw : w = 0; exact hw; exact absurd ⟨hv, hw⟩ hg)
  | halt ph =>
    simp only [astep] at h; split at h <;> simp at h; subst h
    rename_i hg
    apply inv_setphase _ hi (by rw [hg.1]; exact hg.2) (by simp)
    · intro hp; simp at hp
    · intro t hp; simp at hp
    · intro hp; simp at hp


end CM.RateLimit.Abs

/-! ## Part 2 — ring + cursor -/
namespace CM.RateLimit

theorem view_length (l : List (Option Nat)) (c : Nat) : (view l c).length = l.length := by
  simp only [view, List.length_append, List.length_drop, List.length_take]; omega

theorem view_nil (c : Nat) : view [] c = [] := by simp [view]

theorem view_zero (l : List (Option Nat)) : view l 0 = l := by simp [view]

theorem view_eq_nil {l : List (Option Nat)} {c : Nat} : view l c = [] ↔ l = [] := by
  constructor
  · intro h
    have := view_length l c
    rw [h] at this
    exact List.eq_nil_of_length_eq_zero this.symm
  · intro h; subst h; exact view_nil c

theorem mem_view {l : List (Option Nat)} {c : Nat} {x : Option Nat} : x ∈ view l c ↔ x ∈ l := by
  constructor
  · intro h
    rcases List.mem_append.mp h with h | h
    · exact List.mem_of_mem_drop h
    · exact List.mem_of_mem_take h
  · intro h
    have : x ∈ List.take c l ++ List.drop c l := by rw [List.take_append_drop]; exact h
    rcases List.mem_append.mp this with h | h
    · exact List.mem_append.mpr (Or.inr h)
    · exact List.mem_append.mpr (Or.inl h)

theorem getD_eq_getElem {l : List (Option Nat)} {c : Nat} (h : c < l.length) : l.getD c none = l[c] := by
  rw [List.getD_eq_getElem?_getD, List.getElem?_eq_getElem h]; rfl

/-- the slot under the cursor is the head of the view -/
theorem view_head {l : List (Option Nat)} {c : Nat} (h : c < l.length) :
    view l c = l.getD c none :: (l.drop (c + 1) ++ l.take c) := by
  rw [getD_eq_getElem h]
  simp only [view, List.drop_eq_getElem_cons h, List.cons_append]

/-- **rotation lemma**: writing under the cursor and advancing it is "drop the oldest,
append the newest" on the view -/
theorem view_record {l : List (Option Nat)} {c : Nat} (h : c < l.length) (x : Option Nat) :
    view (l.set c x) (advance l.length c) = (view l c).tail ++ [x] := by
  rw [view_head h, List.tail_cons]
  have hset : l.set c x = (List.take c l ++ [x]) ++ List.drop (c + 1) l := by
    rw [List.set_eq_take_append_cons_drop, if_pos h]; simp
  have hlen : (List.take c l ++ [x]).length = c + 1 := by
    simp only [List.length_append, List.length_take, List.length_cons, List.length_nil]; omega
  unfold advance
  split
  · -- wrap-around: c + 1 = len
    have hd : List.drop (c + 1) l = [] := List.drop_of_length_le (by omega)
    rw [view_zero, hset, hd]; simp
  · rw [hset]
    unfold view
    rw [List.drop_left' hlen, List.take_left' hlen, List.append_assoc]

/-! ### the copy loops of `SetMaxEvents` -/

/-- the slot `j` places after `start`, cyclically (`j ≤ len`) -/
def pos (len start j : Nat) : Nat := if start + j < len then start + j else start + j - len

theorem pos_lt {len start j : Nat} (h : start < len) (hj : j ≤ len) : pos len start j < len := by
  unfold pos; split <;> omega

theorem advance_pos {len start j : Nat} (h : start < len) (hj : j < len) :
    advance len (pos len start j) = pos len start (j + 1) := by
  unfold advance pos
  split <;> split <;> split <;> omega

theorem advanceN_pos {len start : Nat} (h : start < len) :
    ∀ (k j : Nat), j + k ≤ len → advanceN k len (pos len start j) = pos len start (j + k)
  | 0, j, _ => rfl
  | k + 1, j, hjk => by
    rw [advanceN, advance_pos h (by omega), advanceN_pos h k (j + 1) (by omega)]
    congr 1; omega

theorem pos_zero {len start : Nat} (h : start < len) : pos len start 0 = start := by
  unfold pos; split <;> omega

theorem view_getElem? {l : List (Option Nat)} {c j : Nat} (h : c < l.length) (hj : j < l.length) :
    (view l c)[j]? = l[pos l.length c j]? := by
  unfold view pos
  by_cases hcj : c + j < l.length
  · rw [if_pos hcj, List.getElem?_append_left (by rw [List.length_drop]; omega), List.getElem?_drop]
  · rw [if_neg hcj, List.getElem?_append_right (by rw [List.length_drop]; omega), List.length_drop,
      List.getElem?_take, if_pos (by omega)]
    congr 1; omega

/-- the view from a slot `d` places further on is the view rotated by `d` -/
theorem view_pos {l : List (Option Nat)} {c d : Nat} (h : c < l.length) (hd : d ≤ l.length) :
    view l (pos l.length c d) = (view l c).drop d ++ (view l c).take d := by
  have hp := pos_lt h hd
  apply List.ext_getElem?
  intro i
  by_cases hi : i < l.length
  · rw [view_getElem? hp hi]
    by_cases hid : i < l.length - d
    · rw [List.getElem?_append_left (by rw [List.length_drop, view_length]; exact hid),
        List.getElem?_drop, view_getElem? h (by omega)]
      congr 1; unfold pos; split <;> split <;> split <;> omega
    · rw [List.getElem?_append_right (by rw [List.length_drop, view_length]; omega),
        List.length_drop, view_length, List.getElem?_take, if_pos (by omega),
        view_getElem? h (by omega)]
      congr 1; unfold pos; split <;> split <;> split <;> omega
  · have h1 : (view l (pos l.length c d)).length ≤ i := by rw [view_length]; omega
    have h2 : (List.drop d (view l c) ++ List.take d (view l c)).length ≤ i := by
      simp only [List.length_append, List.length_drop, List.length_take, view_length]; omega
    rw [List.getElem?_eq_none h1, List.getElem?_eq_none h2]

theorem copyLoop_length (l : List (Option Nat)) (start : Nat) :
    ∀ (k c : Nat), (copyLoop l start k c).length ≤ k
  | 0, _ => by simp [copyLoop]
  | k + 1, c => by
    simp only [copyLoop]
    split
    · simp
    · have := copyLoop_length l start k (advance l.length c)
      simp only [List.length_cons]; omega

/-- the copy loop started `j` slots after `start` copies the view from `start`, from
position `j` on, until `k` values are copied or the ring has been gone round -/
theorem copyLoop_eq {l : List (Option Nat)} {start : Nat} (h : start < l.length) :
    ∀ (k j : Nat), j < l.length →
      copyLoop l start k (pos l.length start j) = ((view l start).drop j).take k
  | 0, _, _ => by simp [copyLoop]
  | k + 1, j, hj => by
    have hvj : j < (view l start).length := by rw [view_length]; exact hj
    have hx : l.getD (pos l.length start j) none = (view l start)[j] := by
      have h1 := view_getElem? h hj
      rw [List.getElem?_eq_getElem hvj, List.getElem?_eq_getElem (pos_lt h (by omega))] at h1
      rw [getD_eq_getElem (pos_lt h (by omega))]
      exact (Option.some.inj h1).symm
    rw [List.drop_eq_getElem_cons hvj, List.take_succ_cons]
    simp only [copyLoop]
    rw [advance_pos h hj, hx]
    by_cases hlast : j + 1 = l.length
    · have hp : pos l.length start (j + 1) = start := by unfold pos; split <;> omega
      rw [if_pos hp, List.drop_of_length_le (by rw [view_length]; omega)]; simp
    · have hp : pos l.length start (j + 1) ≠ start := by unfold pos; split <;> omega
      rw [if_neg hp, copyLoop_eq h k (j + 1) (by omega)]

def CurOK (ring : List (Option Nat)) (cursor : Nat) : Prop :=
  cursor < ring.length ∨ (ring = [] ∧ cursor = 0)

/-- the two loops of `SetMaxEvents` keep the newest `n` timestamps in order (shrinking), or
all of them followed by free slots (growing) -/
theorem resize_eq_spec {l : List (Option Nat)} {c : Nat} (hc : CurOK l c) (n : Nat) :
    resize l c n = resizeSpec (view l c) n := by
  rcases hc with hc | ⟨hl, _⟩
  · have hpos : 0 < l.length := by omega
    unfold resize resizeSpec
    simp only [view_length, if_pos hpos]
    have hc0 : advanceN (l.length - n) l.length c = pos l.length c (l.length - n) := by
      have := advanceN_pos hc (l.length - n) 0 (by omega)
      rw [pos_zero hc] at this
      rw [this]; congr 1; omega
    rw [hc0]
    have hp := pos_lt hc (show l.length - n ≤ l.length by omega)
    have hcp := copyLoop_eq hp n 0 hpos
    rw [pos_zero hp] at hcp
    rw [hcp, List.drop_zero, view_pos hc (by omega)]
    by_cases hn : n ≤ l.length
    · rw [if_pos hn]
      have h1 : (List.drop (l.length - n) (view l c)).length = n := by
        rw [List.length_drop, view_length]; omega
      rw [List.take_left' h1, h1]; simp
    · rw [if_neg hn]
      have h0 : l.length - n = 0 := by omega
      rw [h0, List.drop_zero, List.take_zero, List.append_nil,
        List.take_of_length_le (by rw [view_length]; omega), view_length]
  · subst hl
    unfold resize resizeSpec
    simp [view_nil]

theorem resize_length {l : List (Option Nat)} {c : Nat} (n : Nat) : (resize l c n).length = n := by
  unfold resize
  simp only [List.length_append, List.length_replicate]
  split
  · have := copyLoop_length l (advanceN (l.length - n) l.length c) n (advanceN (l.length - n) l.length c)
    omega
  · simp

theorem mem_resize {l : List (Option Nat)} {c n : Nat} (hc : CurOK l c) {x : Option Nat}
    (h : x ∈ resize l c n) : x ∈ l ∨ x = none := by
  rw [resize_eq_spec hc] at h
  unfold resizeSpec at h
  split at h
  · exact Or.inl (mem_view.mp (List.mem_of_mem_drop h))
  · rcases List.mem_append.mp h with h | h
    · exact Or.inl (mem_view.mp h)
    · exact Or.inr (List.mem_replicate.mp h).2

end CM.RateLimit

/-! ## Part 3 — refinement of the concrete model to the abstract one; invariants of every
reachable state -/
namespace CM.RateLimit
open Abs

/-- the abstraction: forget the cursor (rotate the ring) and the waiters -/
def abs (s : St) : ASt :=
  { view := view s.ring s.cursor, W := s.W, now := s.now, phase := s.phase, adm := s.adm, recs := s.recs }

theorem Abs.inv_fresh (v : List (Option Nat)) (w now : Nat) (hz : v = [] → w = 0) :
    AInv { view := v, W := w, now := now, phase := .idle, adm := [], recs := [] } := by
  refine ⟨?_, hz, ?_, ?_, ?_, ?_, ?_, ?_, ?_, ?_⟩
  · intro i x y hx; simp at hx
  · intro i _ hi; simp at hi
  · rw [counted_nil _ rfl]; simp
  · intro i x y _ hy; simp at hy
  · intro x hx; simp at hx
  · intro _; simp
  · intro hp; simp at hp
  · intro t hp; simp at hp
  · intro hp; simp at hp

/-- every concrete step is an abstract step or leaves the abstract state alone, and keeps
the cursor inside the ring -/
theorem refine {s s' : St} {e : Ev} (hc : CurOK s.ring s.cursor) (h : step s e = some s') :
    (abs s' = abs s ∨ ∃ ae, astep (abs s) ae = some (abs s')) ∧ CurOK s'.ring s'.cursor := by
  cases e with
  | tick d =>
    simp only [step, Option.some.injEq] at h; subst h
    exact ⟨Or.inr ⟨.tick d, rfl⟩, hc⟩
  | compute =>
    simp only [step] at h
    split at h
    · rename_i hph
      split at h
      · rename_i hlen
        have hv : view s.ring s.cursor = [] := view_eq_nil.mpr (List.eq_nil_of_length_eq_zero hlen)
        split at h
        · simp only [Option.some.injEq] at h; subst h
          refine ⟨Or.inr ⟨.compute, ?_⟩, hc⟩
          simp only [astep, abs, hph, hv]
        · simp only [Option.some.injEq] at h; subst h
          refine ⟨Or.inr ⟨.halt .idle, ?_⟩, hc⟩
          simp [astep, abs, hph]
      · rename_i hlen
        have hcur : s.cursor < s.ring.length := by
          rcases hc with hc | ⟨hc, _⟩
          · exact hc
          · rw [hc] at hlen; simp at hlen
        have hv := view_head hcur
        split at h
        · rename_i hg
          simp only [Option.some.injEq] at h; subst h
          refine ⟨Or.inr ⟨.compute, ?_⟩, hc⟩
          simp only [astep, abs, hph, hv, hg]
        · rename_i t hg
          simp only [Option.some.injEq] at h; subst h
          refine ⟨Or.inr ⟨.compute, ?_⟩, hc⟩
          simp only [astep, abs, hph, hv, hg]
    · simp at h
  | fire =>
    simp only [step] at h
    split at h
    · rename_i t f hph
      split at h
      · rename_i hle
        simp only [Option.some.injEq] at h; subst h
        refine ⟨Or.inr ⟨.fire, ?_⟩, hc⟩
        simp only [astep, abs, hph, if_pos hle]
      · simp at h
    · simp at h
  | handoff w =>
    simp only [step] at h
    split at h
    · rename_i f hph
      split at h
      · simp only [Option.some.injEq] at h; subst h
        refine ⟨Or.inr ⟨.handoff, ?_⟩, hc⟩
        simp only [astep, abs, hph]
      · simp at h
    · simp at h
  | allow w =>
    simp only [step] at h
    split at h
    · split at h
      · rename_i f hph
        simp only [Option.some.injEq] at h; subst h
        refine ⟨Or.inr ⟨.handoff, ?_⟩, hc⟩
        simp only [astep, abs, hph]
      · simp only [Option.some.injEq] at h; subst h
        exact ⟨Or.inl rfl, hc⟩
    · simp at h
  | record =>
    simp only [step] at h
    split at h
    · rename_i c hph
      split at h
      · rename_i hlen
        have hcur : s.cursor < s.ring.length := by
          rcases hc with hc | ⟨hc, _⟩
          · exact hc
          · rw [hc] at hlen; simp at hlen
        simp only [Option.some.injEq] at h; subst h
        refine ⟨Or.inr ⟨.record, ?_⟩, Or.inl ?_⟩
        · have hne : view s.ring s.cursor ≠ [] := by
            intro h0; have := view_eq_nil.mp h0; rw [this] at hlen; simp at hlen
          simp only [astep, abs, hph, if_neg hne, view_record hcur]
        · simp only [List.length_set]
          unfold advance; split <;> omega
      · rename_i hlen
        have hnil : s.ring = [] := List.eq_nil_of_length_eq_zero (by omega)
        simp only [Option.some.injEq] at h; subst h
        refine ⟨Or.inr ⟨.record, ?_⟩, hc⟩
        simp only [astep, abs, hph, hnil, view_nil, if_true]
    · simp at h
  | call w =>
    simp only [step] at h
    split at h
    · simp only [Option.some.injEq] at h; subst h; exact ⟨Or.inl rfl, hc⟩
    · simp at h
  | cancel w =>
    simp only [step] at h
    split at h
    · simp only [Option.some.injEq] at h; subst h; exact ⟨Or.inl rfl, hc⟩
    · simp at h
  | setMax n =>
    simp only [step] at h
    split at h
    · simp at h
    · rename_i hg
      split at h
      · simp only [Option.some.injEq] at h; subst h; exact ⟨Or.inl rfl, hc⟩
      · simp only [Option.some.injEq] at h; subst h
        refine ⟨Or.inr ⟨.setMax (resize s.ring s.cursor n), ?_⟩, ?_⟩
        · have hg' : ¬ (resize s.ring s.cursor n = [] ∧ s.W ≠ 0) := by
            rintro ⟨h1, h2⟩
            have := resize_length (l := s.ring) (c := s.cursor) n
            rw [h1] at this
            exact hg ⟨by simpa using this.symm, h2⟩
          simp only [astep, abs, view_zero]
          exact if_neg hg'
        · by_cases hn : n = 0
          · right
            refine ⟨List.eq_nil_of_length_eq_zero ?_, rfl⟩
            rw [resize_length, hn]
          · left
            show 0 < (resize s.ring s.cursor n).length
            rw [resize_length]; omega
  | setWindow w =>
    simp only [step] at h
    split at h
    · simp at h
    · rename_i hg
      split at h
      · simp only [Option.some.injEq] at h; subst h; exact ⟨Or.inl rfl, hc⟩
      · simp only [Option.some.injEq] at h; subst h
        refine ⟨Or.inr ⟨.setWindow w, ?_⟩, hc⟩
        have hg' : ¬ (view s.ring s.cursor = [] ∧ w ≠ 0) := by
          rintro ⟨h1, h2⟩
          exact hg ⟨by rw [view_eq_nil.mp h1]; rfl, h2⟩
        simp only [astep, abs]
        exact if_neg hg'
  | stop =>
    simp only [step] at h
    split at h
    · rename_i hph
      simp only [Option.some.injEq] at h; subst h
      exact ⟨Or.inr ⟨.halt .idle, by simp [astep, abs, hph]⟩, hc⟩
    · rename_i t f hph
      simp only [Option.some.injEq] at h; subst h
      exact ⟨Or.inr ⟨.halt (.sleeping t f), by simp [astep, abs, hph]⟩, hc⟩
    · rename_i f hph
      simp only [Option.some.injEq] at h; subst h
      exact ⟨Or.inr ⟨.halt (.offering f), by simp [astep, abs, hph]⟩, hc⟩
    · simp at h

/-- the part of the invariant that speaks about the ring and the sliding window -/
structure RInv (s : St) : Prop where
  cur : CurOK s.ring s.cursor
  a   : AInv (abs s)

theorem rinv_init {s : St} (h : Init s) : RInv s := by
  obtain ⟨N, W, T, hv, rfl⟩ := h
  refine ⟨?_, ?_⟩
  · by_cases hN : N = 0
    · right; subst hN; exact ⟨rfl, rfl⟩
    · left; show 0 < (List.replicate N (none : Option Nat)).length
      rw [List.length_replicate]; omega
  · show AInv { view := view (List.replicate N none) 0, W := W, now := T, phase := .idle, adm := [], recs := [] }
    apply Abs.inv_fresh
    intro h0
    rw [view_zero] at h0
    have : N = 0 := by
      have := congrArg List.length h0
      simpa using this
    by_cases hW : W = 0
    · exact hW
    · exact absurd ⟨this, hW⟩ hv

theorem rinv_step {s s' : St} {e : Ev} (hi : RInv s) (h : step s e = some s') : RInv s' := by
  obtain ⟨hr, hc⟩ := refine hi.cur h
  refine ⟨hc, ?_⟩
  rcases hr with hr | ⟨ae, hr⟩
  · rw [hr]; exact hi.a
  · exact inv_step hi.a hr

end CM.RateLimit

/-! ### who got a ticket; what the ring may contain -/
namespace CM.RateLimit

/-- a ticket handed off whose `record` is still to come -/
def pend : Phase → Nat
  | .recording _ => 1
  | _ => 0

theorem pend_stale (p : Phase) : pend (stale p) = pend p := by cases p <;> rfl

theorem stale_ne_fresh_sleep (p : Phase) (t : Nat) : stale p ≠ .sleeping t true := by
  cases p <;> simp [stale]

structure WInv (s : St) : Prop where
  gotI  : ∀ w, w ∈ s.got ↔ s.ws w = .admitted
  nrecI : s.nrec + pend s.phase = s.got.length

theorem winv_init {s : St} (h : Init s) : WInv s := by
  obtain ⟨N, W, T, _, rfl⟩ := h
  exact ⟨by intro w; simp [init], rfl⟩

theorem setW_same (f : Nat → WSt) (w : Nat) (v : WSt) : setW f w v w = v := by simp [setW]
theorem setW_other (f : Nat → WSt) {w w' : Nat} (v : WSt) (h : w' ≠ w) : setW f w v w' = f w' := by
  simp [setW, h]

theorem winv_ticket {s : St} (hi : WInv s) (w : Nat) (hp : pend s.phase = 0) :
    WInv { s with phase := .recording true, adm := s.now :: s.adm, got := w :: s.got
                  ws := setW s.ws w .admitted } := by
  refine ⟨?_, ?_⟩
  · intro w'
    by_cases hw : w' = w
    · subst hw; simp [setW_same]
    · simp only [List.mem_cons, hw, false_or, setW_other _ _ hw]; exact hi.gotI w'
  · have := hi.nrecI; simp only [pend, List.length_cons] at *; omega

theorem winv_setws {s : St} (hi : WInv s) (w : Nat) (v : WSt) (h0 : s.ws w ≠ .admitted) (hv : v ≠ .admitted) :
    WInv { s with ws := setW s.ws w v } := by
  refine ⟨?_, hi.nrecI⟩
  intro w'
  by_cases hw : w' = w
  · subst hw
    simp only [setW_same]
    constructor
    · intro h; exact absurd ((hi.gotI w').mp h) h0
    · intro h; exact absurd h hv
  · simp only [setW_other _ _ hw]; exact hi.gotI w'

theorem winv_step {s s' : St} {e : Ev} (hi : WInv s) (h : step s e = some s') : WInv s' := by
  cases e with
  | tick d => simp only [step, Option.some.injEq] at h; subst h; exact ⟨hi.gotI, hi.nrecI⟩
  | compute =>
    simp only [step] at h
    split at h
    · rename_i hph
      have hn := hi.nrecI; rw [hph] at hn
      split at h
      · split at h <;> (simp only [Option.some.injEq] at h; subst h; exact ⟨hi.gotI, hn⟩)
      · split at h <;> (simp only [Option.some.injEq] at h; subst h; exact ⟨hi.gotI, hn⟩)
    · simp at h
  | fire =>
    simp only [step] at h
    split at h
    · rename_i t f hph
      have hn := hi.nrecI; rw [hph] at hn
      split at h
      · simp only [Option.some.injEq] at h; subst h; exact ⟨hi.gotI, hn⟩
      · simp at h
    · simp at h
  | handoff w =>
    simp only [step] at h
    split at h
    · rename_i f hph
      split at h
      · simp only [Option.some.injEq] at h; subst h
        exact winv_ticket hi w (by rw [hph]; rfl)
      · simp at h
    · simp at h
  | allow w =>
    simp only [step] at h
    split at h
    · rename_i hidle
      split at h
      · rename_i f hph
        simp only [Option.some.injEq] at h; subst h
        exact winv_ticket hi w (by rw [hph]; rfl)
      · simp only [Option.some.injEq] at h; subst h
        exact winv_setws hi w _ (by rw [hidle]; decide) (by decide)
    · simp at h
  | record =>
    simp only [step] at h
    split at h
    · rename_i c hph
      have hn := hi.nrecI; rw [hph] at hn
      split at h <;>
        (simp only [Option.some.injEq] at h; subst h
         exact ⟨hi.gotI, by simp only [pend] at hn ⊢; omega⟩)
    · simp at h
  | call w =>
    simp only [step] at h
    split at h
    · rename_i hidle
      simp only [Option.some.injEq] at h; subst h
      exact winv_setws hi w _ (by rw [hidle]; decide) (by decide)
    · simp at h
  | cancel w =>
    simp only [step] at h
    split at h
    · rename_i hw
      simp only [Option.some.injEq] at h; subst h
      exact winv_setws hi w _ (by rw [hw]; decide) (by decide)
    · simp at h
  | setMax n =>
    simp only [step] at h
    split at h
    · simp at h
    · split at h
      · simp only [Option.some.injEq] at h; subst h; exact hi
      · simp only [Option.some.injEq] at h; subst h
        exact ⟨hi.gotI, by show s.nrec + pend (stale s.phase) = _; rw [pend_stale]; exact hi.nrecI⟩
  | setWindow w =>
    simp only [step] at h
    split at h
    · simp at h
    · split at h
      · simp only [Option.some.injEq] at h; subst h; exact hi
      · simp only [Option.some.injEq] at h; subst h
        exact ⟨hi.gotI, by show s.nrec + pend (stale s.phase) = _; rw [pend_stale]; exact hi.nrecI⟩
  | stop =>
    simp only [step] at h
    have hn := hi.nrecI
    split at h
    · rename_i hph; rw [hph] at hn
      simp only [Option.some.injEq] at h; subst h; exact ⟨hi.gotI, hn⟩
    · rename_i t f hph; rw [hph] at hn
      simp only [Option.some.injEq] at h; subst h; exact ⟨hi.gotI, hn⟩
    · rename_i f hph; rw [hph] at hn
      simp only [Option.some.injEq] at h; subst h; exact ⟨hi.gotI, hn⟩
    · simp at h

structure PInv (s : St) : Prop where
  rpast  : ∀ t, some t ∈ s.ring → t ≤ s.now
  slpW   : ∀ t, s.phase = .sleeping t true → t ≤ s.now + s.W
  sorted : s.adm.Pairwise (fun a b => b ≤ a)
  apast  : ∀ x ∈ s.adm, x ≤ s.now

theorem pinv_init {s : St} (h : Init s) : PInv s := by
  obtain ⟨N, W, T, _, rfl⟩ := h
  refine ⟨?_, ?_, ?_, ?_⟩
  · intro t ht; simp [init, List.mem_replicate] at ht
  · intro t hp; simp [init] at hp
  · simp [init]
  · intro x hx; simp [init] at hx

theorem pinv_ticket {s : St} (hi : PInv s) (w : Nat) :
    PInv { s with phase := .recording true, adm := s.now :: s.adm, got := w :: s.got
                  ws := setW s.ws w .admitted } := by
  refine ⟨hi.rpast, ?_, ?_, ?_⟩
  · intro t hp; simp at hp
  · exact List.pairwise_cons.mpr ⟨hi.apast, hi.sorted⟩
  · intro x hx
    rcases List.mem_cons.mp hx with h | h
    · show x ≤ s.now; omega
    · exact hi.apast x h

theorem getD_some_mem {l : List (Option Nat)} {c t : Nat} (h : l.getD c none = some t) : some t ∈ l := by
  rw [List.getD_eq_getElem?_getD] at h
  cases hl : l[c]? with
  | none => rw [hl] at h; simp at h
  | some v =>
    rw [hl] at h
    simp only [Option.getD_some] at h
    subst h
    exact List.mem_of_getElem? hl

theorem pinv_step {s s' : St} {e : Ev} (hc : CurOK s.ring s.cursor) (hi : PInv s)
    (h : step s e = some s') : PInv s' := by
  cases e with
  | tick d =>
    simp only [step, Option.some.injEq] at h; subst h
    refine ⟨?_, ?_, hi.sorted, ?_⟩
    · intro t ht; exact Nat.le_trans (hi.rpast t ht) (Nat.le_add_right _ _)
    · intro t hp; have := hi.slpW t hp; show t ≤ s.now + d + s.W; omega
    · intro x hx; exact Nat.le_trans (hi.apast x hx) (Nat.le_add_right _ _)
  | compute =>
    simp only [step] at h
    split at h
    · split at h
      · split at h <;>
          (simp only [Option.some.injEq] at h; subst h
           exact ⟨hi.rpast, by intro t hp; simp at hp, hi.sorted, hi.apast⟩)
      · split at h
        · simp only [Option.some.injEq] at h; subst h
          refine ⟨hi.rpast, ?_, hi.sorted, hi.apast⟩
          intro t hp
          simp only [Phase.sleeping.injEq, and_true] at hp
          omega
        · rename_i t0 hg
          simp only [Option.some.injEq] at h; subst h
          refine ⟨hi.rpast, ?_, hi.sorted, hi.apast⟩
          intro t hp
          simp only [Phase.sleeping.injEq, and_true] at hp
          have := hi.rpast t0 (getD_some_mem hg)
          show t ≤ s.now + s.W
          omega
    · simp at h
  | fire =>
    simp only [step] at h
    split at h
    · split at h
      · simp only [Option.some.injEq] at h; subst h
        exact ⟨hi.rpast, by intro t hp; simp at hp, hi.sorted, hi.apast⟩
      · simp at h
    · simp at h
  | handoff w =>
    simp only [step] at h
    split at h
    · split at h
      · simp only [Option.some.injEq] at h; subst h; exact pinv_ticket hi w
      · simp at h
    · simp at h
  | allow w =>
    simp only [step] at h
    split at h
    · split at h
      · simp only [Option.some.injEq] at h; subst h; exact pinv_ticket hi w
      · simp only [Option.some.injEq] at h; subst h
        exact ⟨hi.rpast, hi.slpW, hi.sorted, hi.apast⟩
    · simp at h
  | record =>
    simp only [step] at h
    split at h
    · split at h
      · simp only [Option.some.injEq] at h; subst h
        refine ⟨?_, by intro t hp; simp at hp, hi.sorted, hi.apast⟩
        intro t ht
        rcases List.mem_or_eq_of_mem_set ht with h1 | h1
        · exact hi.rpast t h1
        · simp only [Option.some.injEq] at h1; show t ≤ s.now; omega
      · simp only [Option.some.injEq] at h; subst h
        exact ⟨hi.rpast, by intro t hp; simp at hp, hi.sorted, hi.apast⟩
    · simp at h
  | call w =>
    simp only [step] at h
    split at h
    · simp only [Option.some.injEq] at h; subst h; exact ⟨hi.rpast, hi.slpW, hi.sorted, hi.apast⟩
    · simp at h
  | cancel w =>
    simp only [step] at h
    split at h
    · simp only [Option.some.injEq] at h; subst h; exact ⟨hi.rpast, hi.slpW, hi.sorted, hi.apast⟩
    · simp at h
  | setMax n =>
    simp only [step] at h
    split at h
    · simp at h
    · split at h
      · simp only [Option.some.injEq] at h; subst h; exact hi
      · simp only [Option.some.injEq] at h; subst h
        refine ⟨?_, ?_, List.Pairwise.nil, by intro x hx; simp at hx⟩
        · intro t ht
          rcases mem_resize hc ht with h1 | h1
          · exact hi.rpast t h1
          · simp at h1
        · intro t hp; exact absurd hp (stale_ne_fresh_sleep _ _)
  | setWindow w =>
    simp only [step] at h
    split at h
    · simp at h
    · split at h
      · simp only [Option.some.injEq] at h; subst h; exact hi
      · simp only [Option.some.injEq] at h; subst h
        refine ⟨hi.rpast, ?_, List.Pairwise.nil, by intro x hx; simp at hx⟩
        intro t hp; exact absurd hp (stale_ne_fresh_sleep _ _)
  | stop =>
    simp only [step] at h
    split at h <;> first
      | (simp only [Option.some.injEq] at h; subst h
         exact ⟨hi.rpast, by intro t hp; simp at hp, hi.sorted, hi.apast⟩)
      | simp at h

/-- everything known about a reachable state -/
structure Inv (s : St) : Prop where
  r : RInv s
  w : WInv s
  p : PInv s

theorem inv_init {s : St} (h : Init s) : Inv s := ⟨rinv_init h, winv_init h, pinv_init h⟩

theorem inv_step' {s s' : St} {e : Ev} (hi : Inv s) (h : step s e = some s') : Inv s' :=
  ⟨rinv_step hi.r h, winv_step hi.w h, pinv_step hi.r.cur hi.p h⟩

theorem inv_run {s : St} (hi : Inv s) : ∀ (es : List Ev) (s' : St), run s es = some s' → Inv s'
  := by
  intro es
  induction es generalizing s with
  | nil => intro s' h; simp only [run, Option.some.injEq] at h; subst h; exact hi
  | cons e es ih =>
    intro s' h
    simp only [run] at h
    split at h
    · rename_i s1 hs1; exact ih (inv_step' hi hs1) s' h
    · simp at h

theorem inv_reachable {s : St} (h : Reachable s) : Inv s := by
  obtain ⟨s0, es, h0, hr⟩ := h
  exact inv_run (inv_init h0) es s hr

end CM.RateLimit

/-! ### lemmas behind the trace form and the counting form of the bound; zeros first -/
namespace CM.RateLimit
open Abs

theorem bound_of_inv {s : St} (hi : Inv s) :
    ∀ (i x y : Nat), s.adm[i]? = some x → s.adm[i + s.ring.length]? = some y → y + s.W ≤ x := by
  intro i x y hx hy
  have hb := hi.r.a.bound i x y hx
  simp only [abs, view_length] at hb
  exact hb hy

theorem checkAdm_of_bound {N W : Nat} {seg : List Nat} {x : Nat}
    (hb : ∀ y, (x :: seg)[0 + N]? = some y → y + W ≤ x) : checkAdm N W seg x = true := by
  unfold checkAdm
  split
  · rename_i y hy
    simp only [decide_eq_true_eq]
    exact hb y (by rw [Nat.zero_add]; exact hy)
  · rfl

theorem boundOK_run {s : St} (hi : Inv s) :
    ∀ (es : List Ev) (s' : St), run s es = some s' →
      boundOK s.ring.length s.W s.adm (observe s es) = true := by
  intro es
  induction es generalizing s with
  | nil => intro s' _; rfl
  | cons e es ih =>
    intro s' h
    simp only [run] at h
    split at h
    · rename_i s1 hs1
      have hi1 := inv_step' hi hs1
      have ih1 := ih hi1 s' h
      have hb1 := bound_of_inv hi1
      simp only [observe, hs1]
      cases e with
      | handoff w =>
        simp only [step] at hs1
        split at hs1
        · split at hs1
          · simp only [Option.some.injEq] at hs1; subst hs1
            simp only [boundOK, Bool.and_eq_true]
            exact ⟨checkAdm_of_bound (fun y hy => hb1 0 s.now y rfl hy), ih1⟩
          · simp at hs1
        · simp at hs1
      | allow w =>
        simp only [step] at hs1
        split at hs1
        · split at hs1
          · simp only [Option.some.injEq] at hs1; subst hs1
            simp only [List.length_cons, Nat.succ_ne_self, if_false, boundOK, Bool.and_eq_true]
            exact ⟨checkAdm_of_bound (fun y hy => hb1 0 s.now y rfl hy), ih1⟩
          · simp only [Option.some.injEq] at hs1; subst hs1
            simp only [if_true]; exact ih1
        · simp at hs1
      | setMax n =>
        simp only [step] at hs1
        split at hs1
        · simp at hs1
        · split at hs1
          · simp only [Option.some.injEq] at hs1; subst hs1
            simp only [if_true]; exact ih1
          · rename_i hne
            simp only [Option.some.injEq] at hs1; subst hs1
            have : ¬ (resize s.ring s.cursor n).length = s.ring.length := by rw [resize_length]; exact hne
            simp only [this, if_false, boundOK]; exact ih1
      | setWindow w =>
        simp only [step] at hs1
        split at hs1
        · simp at hs1
        · split at hs1
          · simp only [Option.some.injEq] at hs1; subst hs1
            simp only [if_true]; exact ih1
          · rename_i hne
            simp only [Option.some.injEq] at hs1; subst hs1
            simp only [hne, if_false, boundOK]; exact ih1
      | tick d => simp only [step, Option.some.injEq] at hs1; subst hs1; exact ih1
      | compute =>
        simp only [step] at hs1
        split at hs1
        · split at hs1
          · split at hs1 <;> (simp only [Option.some.injEq] at hs1; subst hs1; exact ih1)
          · split at hs1 <;> (simp only [Option.some.injEq] at hs1; subst hs1; exact ih1)
        · simp at hs1
      | fire =>
        simp only [step] at hs1
        split at hs1
        · split at hs1
          · simp only [Option.some.injEq] at hs1; subst hs1; exact ih1
          · simp at hs1
        · simp at hs1
      | record =>
        simp only [step] at hs1
        split at hs1
        · split at hs1
          · simp only [Option.some.injEq] at hs1; subst hs1
            simp only [List.length_set] at ih1; exact ih1
          · simp only [Option.some.injEq] at hs1; subst hs1; exact ih1
        · simp at hs1
      | call w =>
        simp only [step] at hs1
        split at hs1
        · simp only [Option.some.injEq] at hs1; subst hs1; exact ih1
        · simp at hs1
      | cancel w =>
        simp only [step] at hs1
        split at hs1
        · simp only [Option.some.injEq] at hs1; subst hs1; exact ih1
        · simp at hs1
      | stop =>
        simp only [step] at hs1
        split at hs1 <;> first
          | (simp only [Option.some.injEq] at hs1; subst hs1; exact ih1)
          | simp at hs1
    · simp at h

/-- counting form of the bound for a sorted list of instants (newest first) -/
theorem count_window {N W : Nat} : ∀ {l : List Nat}, l.Pairwise (fun a b => b ≤ a) →
    (∀ i x y, l[i]? = some x → l[i + N]? = some y → y + W ≤ x) → ∀ a : Nat,
    (l.filter (fun x => decide (a ≤ x ∧ x < a + W))).length ≤ N
  | [], _, _, _ => by simp
  | x :: tl, hs, hb, a => by
    have hs' := (List.pairwise_cons.mp hs).2
    have hle := (List.pairwise_cons.mp hs).1
    have hb' : ∀ i x' y, tl[i]? = some x' → tl[i + N]? = some y → y + W ≤ x' := by
      intro i x' y h1 h2
      exact hb (i + 1) x' y (by simpa using h1)
        (by rw [show i + 1 + N = (i + N) + 1 by omega]; simpa using h2)
    by_cases hx : x < a + W
    · -- everything from index N on is older than a
      have hold : ∀ z ∈ (x :: tl).drop N, ¬ (a ≤ z ∧ z < a + W) := by
        intro z hz
        obtain ⟨j, hj⟩ := List.getElem?_of_mem hz
        rw [List.getElem?_drop] at hj
        have hjlt : j < (x :: tl).length := by
          have : N + j < (x :: tl).length := by
            rcases Nat.lt_or_ge (N + j) (x :: tl).length with h' | h'
            · exact h'
            · simp [List.getElem?_eq_none h'] at hj
          omega
        have hxj : (x :: tl)[j]? = some (x :: tl)[j] := List.getElem?_eq_getElem hjlt
        have h1 := hb j _ z hxj (by rw [Nat.add_comm]; exact hj)
        have h2 : (x :: tl)[j] ≤ x := by
          cases j with
          | zero => simp
          | succ j' =>
            have : (x :: tl)[j' + 1] ∈ tl := by
              simp only [List.getElem_cons_succ]; exact List.getElem_mem _
            exact hle _ this
        omega
      have hsplit : (x :: tl) = (x :: tl).take N ++ (x :: tl).drop N := (List.take_append_drop N _).symm
      rw [hsplit, List.filter_append, List.length_append]
      have h0 : ((x :: tl).drop N).filter (fun x => decide (a ≤ x ∧ x < a + W)) = [] := by
        apply List.filter_eq_nil_iff.mpr
        intro z hz
        simpa using hold z hz
      rw [h0, List.length_nil, Nat.add_zero]
      exact Nat.le_trans (List.length_filter_le _ _) (by rw [List.length_take]; omega)
    · have : decide (a ≤ x ∧ x < a + W) = false := by simp; intro _; omega
      rw [List.filter_cons, this]
      simpa using count_window hs' hb' a


/-- while the limit is not changed: the ring has its initial length and the first
`N - nrec` slots of the view are still zero -/
def ZInv (N : Nat) (s : St) : Prop :=
  s.ring.length = N ∧ ∀ j, j + s.nrec < N → (view s.ring s.cursor)[j]? = some none

theorem step_frame {s s' : St} {e : Ev} (h : step s e = some s') (h1 : e ≠ .record)
    (h2 : ∀ n, e ≠ .setMax n) : s'.ring = s.ring ∧ s'.cursor = s.cursor ∧ s'.nrec = s.nrec := by
  cases e with
  | record => exact absurd rfl h1
  | setMax n => exact absurd rfl (h2 n)
  | tick d => simp only [step, Option.some.injEq] at h; subst h; exact ⟨rfl, rfl, rfl⟩
  | compute =>
    simp only [step] at h
    split at h
    · split at h
      · split at h <;> (simp only [Option.some.injEq] at h; subst h; exact ⟨rfl, rfl, rfl⟩)
      · split at h <;> (simp only [Option.some.injEq] at h; subst h; exact ⟨rfl, rfl, rfl⟩)
    · simp at h
  | fire =>
    simp only [step] at h
    split at h
    · split at h
      · simp only [Option.some.injEq] at h; subst h; exact ⟨rfl, rfl, rfl⟩
      · simp at h
    · simp at h
  | handoff w =>
    simp only [step] at h
    split at h
    · split at h
      · simp only [Option.some.injEq] at h; subst h; exact ⟨rfl, rfl, rfl⟩
      · simp at h
    · simp at h
  | allow w =>
    simp only [step] at h
    split at h
    · split at h <;> (simp only [Option.some.injEq] at h; subst h; exact ⟨rfl, rfl, rfl⟩)
    · simp at h
  | call w =>
    simp only [step] at h
    split at h
    · simp only [Option.some.injEq] at h; subst h; exact ⟨rfl, rfl, rfl⟩
    · simp at h
  | cancel w =>
    simp only [step] at h
    split at h
    · simp only [Option.some.injEq] at h; subst h; exact ⟨rfl, rfl, rfl⟩
    · simp at h
  | setWindow w =>
    simp only [step] at h
    split at h
    · simp at h
    · split at h <;> (simp only [Option.some.injEq] at h; subst h; exact ⟨rfl, rfl, rfl⟩)
  | stop =>
    simp only [step] at h
    split at h <;> first
      | (simp only [Option.some.injEq] at h; subst h; exact ⟨rfl, rfl, rfl⟩)
      | simp at h

theorem zinv_step {N : Nat} {s s' : St} {e : Ev} (hc : CurOK s.ring s.cursor) (hz : ZInv N s)
    (h : step s e = some s') (h2 : ∀ n, e ≠ .setMax n) : ZInv N s' := by
  by_cases hrec : e = .record
  · subst hrec
    simp only [step] at h
    split at h
    · split at h
      · rename_i hlen
        have hcur : s.cursor < s.ring.length := by
          rcases hc with hc | ⟨hc, _⟩
          · exact hc
          · rw [hc] at hlen; simp at hlen
        simp only [Option.some.injEq] at h; subst h
        refine ⟨by simp only [List.length_set]; exact hz.1, ?_⟩
        intro j hj
        show (view (s.ring.set s.cursor (some s.now)) (advance s.ring.length s.cursor))[j]? = some none
        rw [view_record hcur]
        have hj' : j + 1 + s.nrec < N := by simp only at hj; omega
        have hv := hz.2 (j + 1) hj'
        have hvl := view_length s.ring s.cursor
        rw [List.getElem?_append_left (by rw [List.length_tail, hvl, hz.1]; omega), List.getElem?_tail]
        exact hv
      · rename_i hlen
        simp only [Option.some.injEq] at h; subst h
        refine ⟨hz.1, ?_⟩
        intro j hj
        have : N = 0 := by rw [← hz.1]; omega
        omega
    · simp at h
  · obtain ⟨h1, h2', h3⟩ := step_frame h hrec h2
    unfold ZInv
    rw [h1, h2', h3]
    exact hz

theorem zinv_run {N : Nat} {s : St} (hi : Inv s) (hz : ZInv N s) :
    ∀ (es : List Ev) (s' : St), run s es = some s' → (∀ e ∈ es, ∀ n, e ≠ Ev.setMax n) → ZInv N s' := by
  intro es
  induction es generalizing s with
  | nil => intro s' h _; simp only [run, Option.some.injEq] at h; subst h; exact hz
  | cons e es ih =>
    intro s' h hns
    simp only [run] at h
    split at h
    · rename_i s1 hs1
      exact ih (inv_step' hi hs1) (zinv_step hi.r.cur hz hs1 (hns e (List.mem_cons_self)))
        s' h (fun e' he' => hns e' (List.mem_cons_of_mem _ he'))
    · simp at h

end CM.RateLimit
