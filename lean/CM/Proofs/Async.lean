import CM.Model.Async
/-!
Helper lemmas for C19 (retry loop, job manager). Property theorems are in `CM/Props/C19.lean`.
-/
namespace CM.Async

/-! ## retry loop -/

theorem cancelWins_some {i : RetryIn} {k now T ci : Nat} (h : cancelWins i k now T = some ci) :
    ∃ c, i.cancelAt = some c ∧ ci = max c now ∧ ci ≤ T := by
  unfold cancelWins at h
  cases hc : i.cancelAt with
  | none => simp [hc] at h
  | some c =>
    simp only [hc] at h
    split at h
    · cases h; exact ⟨c, rfl, rfl, by omega⟩
    · split at h
      · cases h; exact ⟨c, rfl, rfl, by omega⟩
      · cases h

theorem cancelWins_none {i : RetryIn} {k now T c : Nat} (h : cancelWins i k now T = none)
    (hc : i.cancelAt = some c) : T ≤ max c now ∧ (max c now = T → i.tie k = false) := by
  unfold cancelWins at h
  simp only [hc] at h
  split at h
  · cases h
  · split at h
    · cases h
    · rename_i h1 h2
      refine ⟨by omega, ?_⟩
      intro he
      cases ht : i.tie k with
      | false => rfl
      | true => exact absurd ⟨he, ht⟩ h2

theorem cancelWins_never {i : RetryIn} {k now T : Nat} (hc : i.cancelAt = none) :
    cancelWins i k now T = none := by
  unfold cancelWins; simp [hc]

theorem stepR_cancel {tbl : List Nat} {mx : Nat} {i : RetryIn} {k : Nat} {idx : Option Nat} {now ci : Nat}
    (h : stepR tbl mx i k idx now = .cancel ci) :
    cancelWins i k now (now + waitOf tbl idx) = some ci := by
  unfold stepR at h
  cases hw : cancelWins i k now (now + waitOf tbl idx) with
  | some x => simp only [hw] at h; cases h; rfl
  | none =>
    simp only [hw] at h
    split at h <;> try cases h
    split at h <;> cases h

theorem stepR_more {tbl : List Nat} {mx : Nat} {i : RetryIn} {k : Nat} {idx : Option Nat} {now T E : Nat}
    (h : stepR tbl mx i k idx now = .more T E) :
    T = now + waitOf tbl idx ∧ E = T + (i.script k).dur ∧ (i.script k).out = .fail ∧ E < mx ∧
    cancelWins i k now T = none := by
  unfold stepR at h
  cases hw : cancelWins i k now (now + waitOf tbl idx) with
  | some x => simp only [hw] at h; cases h
  | none =>
    simp only [hw] at h
    split at h <;> try cases h
    rename_i ho
    split at h
    · rename_i hlt
      cases h
      exact ⟨rfl, rfl, ho, hlt, hw⟩
    · cases h

/-- result and last outcome agree -/
def ResMatches (r : Res) (o : Outcome) : Prop :=
  (r = .ok ∧ o = .ok) ∨ (r = .canceledErr ∧ o = .canceledErr) ∨ (r = .noRetry ∧ o = .noRetry) ∨
  (r = .gaveUpErr ∧ o = .fail)

theorem stepR_final {tbl : List Nat} {mx : Nat} {i : RetryIn} {k : Nat} {idx : Option Nat} {now T E : Nat} {r : Res}
    (h : stepR tbl mx i k idx now = .final T E r) :
    T = now + waitOf tbl idx ∧ E = T + (i.script k).dur ∧ cancelWins i k now T = none ∧
    ResMatches r (i.script k).out ∧ (r = .gaveUpErr → mx ≤ E) := by
  unfold stepR at h
  cases hw : cancelWins i k now (now + waitOf tbl idx) with
  | some x => simp only [hw] at h; cases h
  | none =>
    simp only [hw] at h
    split at h
    · rename_i ho; cases h
      exact ⟨rfl, rfl, hw, Or.inl ⟨rfl, ho⟩, by intro hh; cases hh⟩
    · rename_i ho; cases h
      exact ⟨rfl, rfl, hw, Or.inr (Or.inl ⟨rfl, ho⟩), by intro hh; cases hh⟩
    · rename_i ho; cases h
      exact ⟨rfl, rfl, hw, Or.inr (Or.inr (Or.inl ⟨rfl, ho⟩)), by intro hh; cases hh⟩
    · rename_i ho
      split at h
      · cases h
      · rename_i hge
        cases h
        exact ⟨rfl, rfl, hw, Or.inr (Or.inr (Or.inr ⟨rfl, ho⟩)), by intro _; omega⟩

/-- induction principle following the loop -/
theorem loop_induct (tbl : List Nat) (mx : Nat) (i : RetryIn)
    (P : Nat → Option Nat → Nat → RetryOut → Prop)
    (h0 : ∀ k idx now, P k idx now { trace := [], res := .outOfFuel, ret := now })
    (hc : ∀ k idx now ci, stepR tbl mx i k idx now = .cancel ci →
      P k idx now { trace := [], res := .canceled, ret := ci })
    (hf : ∀ k idx now T E r, stepR tbl mx i k idx now = .final T E r →
      P k idx now { trace := [(k, T)], res := r, ret := E })
    (hm : ∀ fuel k idx now T E, stepR tbl mx i k idx now = .more T E →
      P (k + 1) (nextIdx tbl idx) E (loop tbl mx i fuel (k + 1) (nextIdx tbl idx) E) →
      P k idx now { trace := (k, T) :: (loop tbl mx i fuel (k + 1) (nextIdx tbl idx) E).trace
                    res := (loop tbl mx i fuel (k + 1) (nextIdx tbl idx) E).res
                    ret := (loop tbl mx i fuel (k + 1) (nextIdx tbl idx) E).ret }) :
    ∀ fuel k idx now, P k idx now (loop tbl mx i fuel k idx now) := by
  intro fuel
  induction fuel with
  | zero => intro k idx now; exact h0 k idx now
  | succ f ih =>
    intro k idx now
    unfold loop
    cases hs : stepR tbl mx i k idx now with
    | cancel ci => exact hc k idx now ci hs
    | final T E r => exact hf k idx now T E r hs
    | more T E => exact hm f k idx now T E hs (ih (k + 1) (nextIdx tbl idx) E)

/-- attempt numbers: the p-th entry of the trace carries `k + p` -/
theorem loop_numbers (tbl : List Nat) (mx : Nat) (i : RetryIn) (fuel k : Nat) (idx : Option Nat) (now : Nat) :
    ∀ p n t, (loop tbl mx i fuel k idx now).trace[p]? = some (n, t) → n = k + p := by
  refine loop_induct tbl mx i (fun k _ _ o => ∀ p n t, o.trace[p]? = some (n, t) → n = k + p)
    ?_ ?_ ?_ ?_ fuel k idx now
  · intro k idx now p n t h; simp at h
  · intro k idx now ci _ p n t h; simp at h
  · intro k idx now T E r _ p n t h
    cases p with
    | zero => simp at h; omega
    | succ p => simp at h
  · intro fuel k idx now T E _ ih p n t h
    cases p with
    | zero => simp at h; omega
    | succ p =>
      simp only [List.getElem?_cons_succ] at h
      have := ih p n t h
      omega

/-- the first entry of a trace starts after the wait of the current index -/
theorem loop_head (tbl : List Nat) (mx : Nat) (i : RetryIn) (fuel k : Nat) (idx : Option Nat) (now : Nat) :
    ∀ n t, (loop tbl mx i fuel k idx now).trace[0]? = some (n, t) → t = now + waitOf tbl idx := by
  refine loop_induct tbl mx i (fun _ idx now o => ∀ n t, o.trace[0]? = some (n, t) → t = now + waitOf tbl idx)
    ?_ ?_ ?_ ?_ fuel k idx now
  · intro k idx now n t h; simp at h
  · intro k idx now ci _ n t h; simp at h
  · intro k idx now T E r hs n t h
    simp at h
    have := (stepR_final hs).1
    omega
  · intro fuel k idx now T E hs _ n t h
    simp at h
    have := (stepR_more hs).1
    omega

/-- `intervalIndex` after `p` increments -/
def idxAfter (tbl : List Nat) : Nat → Option Nat → Option Nat
  | 0, idx => idx
  | p + 1, idx => idxAfter tbl p (nextIdx tbl idx)

theorem idxAfter_some (tbl : List Nat) : ∀ p j, j < tbl.length →
    idxAfter tbl p (some j) = some (min (j + p) (tbl.length - 1)) := by
  intro p
  induction p with
  | zero => intro j hj; simp only [idxAfter]; congr 1; omega
  | succ p ih =>
    intro j hj
    simp only [idxAfter, nextIdx]
    split
    · rename_i h; rw [ih (j + 1) h]; congr 1; omega
    · rename_i h; rw [ih j hj]; congr 1; omega

theorem idxAfter_none (tbl : List Nat) (hne : tbl ≠ []) (p : Nat) :
    idxAfter tbl (p + 1) none = some (min p (tbl.length - 1)) := by
  have hl : 0 < tbl.length := List.length_pos_iff.mpr hne
  simp only [idxAfter, nextIdx, hl, if_true]
  rw [idxAfter_some tbl p 0 hl]; congr 1; omega

/-- gap between the end of an attempt and the start of the next one -/
theorem loop_gap (tbl : List Nat) (mx : Nat) (i : RetryIn) (fuel k : Nat) (idx : Option Nat) (now : Nat) :
    ∀ p n t n' t', (loop tbl mx i fuel k idx now).trace[p]? = some (n, t) →
      (loop tbl mx i fuel k idx now).trace[p + 1]? = some (n', t') →
      t' = t + (i.script (k + p)).dur + waitOf tbl (idxAfter tbl (p + 1) idx) := by
  refine loop_induct tbl mx i (fun k idx _ o => ∀ p n t n' t', o.trace[p]? = some (n, t) →
      o.trace[p + 1]? = some (n', t') →
      t' = t + (i.script (k + p)).dur + waitOf tbl (idxAfter tbl (p + 1) idx)) ?_ ?_ ?_ ?_ fuel k idx now
  · intro k idx now p n t n' t' h; simp at h
  · intro k idx now ci _ p n t n' t' h; simp at h
  · intro k idx now T E r _ p n t n' t' _ h'; simp at h'
  · intro fuel k idx now T E hs ih p n t n' t' h h'
    obtain ⟨_, hE, _, _, _⟩ := stepR_more hs
    cases p with
    | zero =>
      simp only [List.getElem?_cons_zero, Option.some.injEq, Prod.mk.injEq] at h
      simp only [List.getElem?_cons_succ] at h'
      have := loop_head tbl mx i fuel (k + 1) (nextIdx tbl idx) E n' t' h'
      simp only [idxAfter, Nat.add_zero]
      omega
    | succ p =>
      simp only [List.getElem?_cons_succ] at h h'
      have := ih p n t n' t' h h'
      simp only [idxAfter] at this ⊢
      have e : k + 1 + p = k + (p + 1) := by omega
      rw [e] at this
      exact this

/-- every attempt that is followed by another one failed, and ended before `mx` -/
theorem loop_fails (tbl : List Nat) (mx : Nat) (i : RetryIn) (fuel k : Nat) (idx : Option Nat) (now : Nat) :
    ∀ p n t x, (loop tbl mx i fuel k idx now).trace[p]? = some (n, t) →
      (loop tbl mx i fuel k idx now).trace[p + 1]? = some x →
      (i.script (k + p)).out = .fail ∧ t + (i.script (k + p)).dur < mx := by
  refine loop_induct tbl mx i (fun k _ _ o => ∀ p n t x, o.trace[p]? = some (n, t) →
      o.trace[p + 1]? = some x →
      (i.script (k + p)).out = .fail ∧ t + (i.script (k + p)).dur < mx) ?_ ?_ ?_ ?_ fuel k idx now
  · intro k idx now p n t x h; simp at h
  · intro k idx now ci _ p n t x h; simp at h
  · intro k idx now T E r _ p n t x _ h'; simp at h'
  · intro fuel k idx now T E hs ih p n t x h h'
    obtain ⟨_, hE, ho, hlt, _⟩ := stepR_more hs
    cases p with
    | zero =>
      simp only [List.getElem?_cons_zero, Option.some.injEq, Prod.mk.injEq] at h
      refine ⟨ho, ?_⟩
      simp only [Nat.add_zero]; omega
    | succ p =>
      simp only [List.getElem?_cons_succ] at h h'
      have := ih p n t x h h'
      have e : k + 1 + p = k + (p + 1) := by omega
      rw [e] at this
      exact this

/-- end of the last attempt of a trace, `now` if the trace is empty -/
def lastEndFrom (i : RetryIn) (now : Nat) (tr : List (Nat × Nat)) : Nat :=
  match tr.getLast? with
  | none => now
  | some (n, t) => t + (i.script n).dur

theorem lastEndFrom_cons (i : RetryIn) (now k T : Nat) (tr : List (Nat × Nat)) :
    lastEndFrom i now ((k, T) :: tr) = lastEndFrom i (T + (i.script k).dur) tr := by
  cases tr with
  | nil => simp [lastEndFrom]
  | cons a r =>
    unfold lastEndFrom
    rw [List.getLast?_cons_cons]
    cases hh : (a :: r).getLast? with
    | none => simp at hh
    | some x => rfl

theorem lastEnd_eq (i : RetryIn) (tr : List (Nat × Nat)) : lastEnd i tr = lastEndFrom i 0 tr := rfl

/-- how the loop ends: result, instant of return, last outcome -/
abbrev EndsWell (mx : Nat) (i : RetryIn) (now : Nat) (o : RetryOut) : Prop :=
  (o.res = .canceled → ∃ c, i.cancelAt = some c ∧ o.ret = max c (lastEndFrom i now o.trace)) ∧
  (o.res ≠ .canceled → o.res ≠ .outOfFuel →
    o.ret = lastEndFrom i now o.trace ∧
    ∃ n t, o.trace.getLast? = some (n, t) ∧ ResMatches o.res (i.script n).out ∧
      (o.res = .gaveUpErr → mx ≤ t + (i.script n).dur))

theorem loop_ends (tbl : List Nat) (mx : Nat) (i : RetryIn) (fuel k : Nat) (idx : Option Nat) (now : Nat) :
    EndsWell mx i now (loop tbl mx i fuel k idx now) := by
  refine loop_induct tbl mx i (fun _ _ now o => EndsWell mx i now o) ?_ ?_ ?_ ?_ fuel k idx now
  · intro k idx now
    exact ⟨(by intro h; cases h), (by intro _ h; exact absurd rfl h)⟩
  · intro k idx now ci hs
    obtain ⟨c, hc, hci, _⟩ := cancelWins_some (stepR_cancel hs)
    exact ⟨fun _ => ⟨c, hc, by simp [lastEndFrom, hci]⟩, (by intro h; exact absurd rfl h)⟩
  · intro k idx now T E r hs
    obtain ⟨_, hE, _, hm, hg⟩ := stepR_final hs
    refine ⟨?_, ?_⟩
    · intro h
      simp only at h
      subst h
      rcases hm with ⟨h, _⟩ | ⟨h, _⟩ | ⟨h, _⟩ | ⟨h, _⟩ <;> cases h
    · intro _ _
      refine ⟨by simp [lastEndFrom, hE], k, T, by simp, hm, ?_⟩
      intro h; have := hg h; omega
  · intro fuel k idx now T E hs ih
    obtain ⟨_, hE, _, _, _⟩ := stepR_more hs
    obtain ⟨ih1, ih2⟩ := ih
    refine ⟨?_, ?_⟩
    · intro h
      obtain ⟨c, hc, hr⟩ := ih1 h
      refine ⟨c, hc, ?_⟩
      simp only [lastEndFrom_cons]
      rw [← hE]; exact hr
    · intro h1 h2
      obtain ⟨hr, n, t, hl, hm, hg⟩ := ih2 h1 h2
      refine ⟨?_, n, t, ?_, hm, hg⟩
      · simp only [lastEndFrom_cons]; rw [← hE]; exact hr
      · simp only
        cases ht : (loop tbl mx i fuel (k + 1) (nextIdx tbl idx) E).trace with
        | nil => rw [ht] at hl; simp at hl
        | cons a r => rw [ht] at hl; rw [List.getLast?_cons_cons]; exact hl

/-- the state in which the loop is entered: first iteration, or a positive wait ahead -/
def WaitPos (tbl : List Nat) (idx : Option Nat) (now : Nat) : Prop :=
  (idx = none ∧ now = 0) ∨ (∃ j, idx = some j ∧ j < tbl.length ∧ 0 < tbl.getD j 0)

theorem nextIdx_waitPos {tbl : List Nat} (hp : Positive tbl) (idx : Option Nat) (E : Nat)
    (h : idx = none ∨ ∃ j, idx = some j ∧ j < tbl.length) : WaitPos tbl (nextIdx tbl idx) E := by
  have hl : 0 < tbl.length := List.length_pos_iff.mpr hp.1
  have pos : ∀ j, j < tbl.length → 0 < tbl.getD j 0 := by
    intro j hj
    have : tbl.getD j 0 = tbl[j] := by simp [List.getD, hj]
    rw [this]; exact hp.2 _ (List.getElem_mem hj)
  right
  rcases h with h | ⟨j, h, hj⟩
  · subst h; exact ⟨0, by simp [nextIdx, hl], hl, pos 0 hl⟩
  · subst h
    by_cases h1 : j + 1 < tbl.length
    · exact ⟨j + 1, by simp [nextIdx, h1], h1, pos _ h1⟩
    · exact ⟨j, by simp [nextIdx, h1], hj, pos _ hj⟩

theorem waitPos_cases {tbl : List Nat} {idx : Option Nat} {now : Nat} (h : WaitPos tbl idx now) :
    idx = none ∨ ∃ j, idx = some j ∧ j < tbl.length := by
  rcases h with ⟨h, _⟩ | ⟨j, h, hj, _⟩
  · exact Or.inl h
  · exact Or.inr ⟨j, h, hj⟩

/-- no attempt starts after the instant of cancellation (positive table) -/
theorem loop_cancel_bound (tbl : List Nat) (hp : Positive tbl) (mx : Nat) (i : RetryIn) (c : Nat)
    (hc : i.cancelAt = some c) (fuel k : Nat) (idx : Option Nat) (now : Nat) :
    WaitPos tbl idx now →
    ∀ (p n t : Nat), (loop tbl mx i fuel k idx now).trace[p]? = some (n, t) → t ≤ c := by
  refine loop_induct tbl mx i (fun _ idx now (o : RetryOut) => WaitPos tbl idx now →
    ∀ (p n t : Nat), o.trace[p]? = some (n, t) → t ≤ c) ?_ ?_ ?_ ?_ fuel k idx now
  · intro k idx now _ p n t h; simp at h
  · intro k idx now ci _ _ p n t h; simp at h
  · intro k idx now T E r hs hw p n t h
    obtain ⟨hT, _, hcw, _, _⟩ := stepR_final hs
    obtain ⟨hle, _⟩ := cancelWins_none hcw hc
    cases p with
    | succ p => simp at h
    | zero =>
      simp only [List.getElem?_cons_zero, Option.some.injEq, Prod.mk.injEq] at h
      rcases hw with ⟨h1, h2⟩ | ⟨j, h1, _, h2⟩
      · subst h1; simp only [waitOf] at hT; omega
      · subst h1; simp only [waitOf] at hT; omega
  · intro fuel k idx now T E hs ih hw p n t h
    obtain ⟨hT, _, _, _, hcw⟩ := stepR_more hs
    obtain ⟨hle, _⟩ := cancelWins_none hcw hc
    cases p with
    | succ p =>
      simp only [List.getElem?_cons_succ] at h
      exact ih (nextIdx_waitPos hp idx E (waitPos_cases hw)) p n t h
    | zero =>
      simp only [List.getElem?_cons_zero, Option.some.injEq, Prod.mk.injEq] at h
      rcases hw with ⟨h1, h2⟩ | ⟨j, h1, _, h2⟩
      · subst h1; simp only [waitOf] at hT; omega
      · subst h1; simp only [waitOf] at hT; omega

/-- the fuel is never exhausted once a positive wait lies ahead of every iteration -/
theorem loop_fuel (tbl : List Nat) (hp : Positive tbl) (mx : Nat) (i : RetryIn) :
    ∀ fuel k j now, j < tbl.length → 1 ≤ fuel → mx + 1 ≤ fuel + now →
      (loop tbl mx i fuel k (some j) now).res ≠ .outOfFuel := by
  have pos : ∀ j, j < tbl.length → 0 < tbl.getD j 0 := by
    intro j hj
    have : tbl.getD j 0 = tbl[j] := by simp [List.getD, hj]
    rw [this]; exact hp.2 _ (List.getElem_mem hj)
  intro fuel
  induction fuel with
  | zero => intro k j now _ h; omega
  | succ f ih =>
    intro k j now hj _ hb
    unfold loop
    cases hs : stepR tbl mx i k (some j) now with
    | cancel ci => simp
    | final T E r =>
      obtain ⟨_, _, _, hm, _⟩ := stepR_final hs
      simp only
      rcases hm with ⟨h, _⟩ | ⟨h, _⟩ | ⟨h, _⟩ | ⟨h, _⟩ <;> rw [h] <;> simp
    | more T E =>
      obtain ⟨hT, hE, _, hlt, _⟩ := stepR_more hs
      simp only
      have hw := pos j hj
      simp only [waitOf] at hT
      by_cases h1 : j + 1 < tbl.length
      · have : nextIdx tbl (some j) = some (j + 1) := by simp [nextIdx, h1]
        rw [this]; exact ih (k + 1) (j + 1) E h1 (by omega) (by omega)
      · have : nextIdx tbl (some j) = some j := by simp [nextIdx, h1]
        rw [this]; exact ih (k + 1) j E hj (by omega) (by omega)

theorem retryWith_fuel (tbl : List Nat) (hp : Positive tbl) (mx : Nat) (i : RetryIn) :
    (retryWith tbl mx i).res ≠ .outOfFuel := by
  have hl : 0 < tbl.length := List.length_pos_iff.mpr hp.1
  unfold retryWith loop
  cases hs : stepR tbl mx i 0 none 0 with
  | cancel ci => simp
  | final T E r =>
    obtain ⟨_, _, _, hm, _⟩ := stepR_final hs
    simp only
    rcases hm with ⟨h, _⟩ | ⟨h, _⟩ | ⟨h, _⟩ | ⟨h, _⟩ <;> rw [h] <;> simp
  | more T E =>
    simp only
    have : nextIdx tbl none = some 0 := by simp [nextIdx, hl]
    rw [this]
    exact loop_fuel tbl hp mx i (mx + 1) 1 0 E hl (by omega) (by omega)

/-! ## job manager -/

theorem upd_same {α : Type} (f : Nat → α) (w : Nat) (v : α) : upd f w v w = v := by simp [upd]

theorem upd_other {α : Type} (f : Nat → α) (w : Nat) (v : α) (x : Nat) (h : x ≠ w) : upd f w v x = f x := by
  simp [upd, h]

theorem sumW_upd_ge (g : WS → Nat) (f : Nat → WS) (w : Nat) (v : WS) :
    ∀ n, n ≤ w → sumW g (upd f w v) n = sumW g f n := by
  intro n
  induction n with
  | zero => intro _; rfl
  | succ n ih =>
    intro h
    simp only [sumW]
    rw [ih (by omega), upd_other f w v n (by omega)]

theorem sumW_upd_lt (g : WS → Nat) (f : Nat → WS) (w : Nat) (v : WS) :
    ∀ n, w < n → sumW g (upd f w v) n + g (f w) = sumW g f n + g v := by
  intro n
  induction n with
  | zero => intro h; omega
  | succ n ih =>
    intro h
    simp only [sumW]
    by_cases hw : w = n
    · subst hw
      rw [sumW_upd_ge g f w v w (Nat.le_refl _), upd_same]
      omega
    · have := ih (by omega)
      rw [upd_other f w v n (fun h => hw h.symm)]
      omega

theorem sumW_pos {g : WS → Nat} {f : Nat → WS} : ∀ n, 0 < sumW g f n → ∃ w, w < n ∧ 0 < g (f w) := by
  intro n
  induction n with
  | zero => intro h; simp [sumW] at h
  | succ n ih =>
    intro h
    simp only [sumW] at h
    by_cases h1 : 0 < g (f n)
    · exact ⟨n, by omega, h1⟩
    · obtain ⟨w, hw, hg⟩ := ih (by omega)
      exact ⟨w, by omega, hg⟩

theorem le_sumW {g : WS → Nat} {f : Nat → WS} : ∀ n w, w < n → g (f w) ≤ sumW g f n := by
  intro n
  induction n with
  | zero => intro w h; omega
  | succ n ih =>
    intro w h
    simp only [sumW]
    by_cases hw : w = n
    · subst hw; omega
    · have := ih w (by omega); omega

/-- the inductive invariant of the job manager (for `maxConcurrentJobs = m`) -/
structure Inv (m : Nat) (s : JM) : Prop where
  maxW : s.maxW = m
  off : ∀ w, s.nextW ≤ w → s.ws w = .off
  act : s.active = sumW aliveW s.ws s.nextW
  live : 1 ≤ m → s.queue ≠ [] → 0 < s.active
  bound : s.active ≤ s.maxW
  noEmpty : s.names "" = false
  uniq : ∀ n, n ≠ "" → occ s n = if s.names n = true then 1 else 0

theorem inv_init (m : Nat) : Inv m (init m) := by
  refine ⟨rfl, fun _ _ => rfl, rfl, fun _ h => absurd rfl h, Nat.zero_le _, rfl, ?_⟩
  intro n _
  simp [occ, init, sumW]

theorem lt_nextW {m : Nat} {s : JM} (hi : Inv m s) {w : Nat} (h : s.ws w ≠ .off) : w < s.nextW :=
  Nat.lt_of_not_le (fun hle => h (hi.off w hle))

theorem uniq_submit {s : JM} (hu : ∀ n, n ≠ "" → occ s n = if s.names n = true then 1 else 0)
    (id : Nat) (name : String) (hnd : ¬(name ≠ "" ∧ s.names name = true)) (n : String) (hn : n ≠ "")
    (x : Nat) (hx : x = sumW (holdsW n) s.ws s.nextW) :
    (s.queue ++ [({ id := id, name := name } : Job)]).countP (fun (j : Job) => j.name = n) + x =
      if (if name = "" then s.names else setName s.names name true) n = true then 1 else 0 := by
  have hu' := hu n hn
  unfold occ at hu'
  rw [List.countP_append, List.countP_cons, List.countP_nil]
  subst hx
  by_cases he : name = ""
  · subst he
    have hne : ¬ "" = n := fun h => hn h.symm
    simp only [hne, decide_false, if_true, Nat.add_zero, Bool.false_eq_true, if_false]
    exact hu'
  · by_cases hnn : n = name
    · subst hnn
      have hf : s.names n = false := by
        cases h : s.names n with
        | false => rfl
        | true => exact absurd ⟨he, h⟩ hnd
      simp only [hf, Bool.false_eq_true, if_false] at hu'
      simp only [he, if_false, setName, if_true, decide_true, Nat.zero_add]
      omega
    · have hne : ¬ name = n := fun h => hnn h.symm
      simp only [he, if_false, setName, hnn, hne, decide_false, Bool.false_eq_true, Nat.add_zero]
      exact hu'
theorem inv_step {m : Nat} {s s' : JM} {e : Ev} (hi : Inv m s) (h : step s e = some s') :
    Inv m s' := by
  cases e with
  | submit id name =>
    simp only [step] at h
    split at h
    · cases h; exact hi
    · rename_i hnd
      split at h
      · rename_i hlt
        cases h
        refine ⟨hi.maxW, ?_, ?_, ?_, ?_, ?_, ?_⟩
        · intro w hw
          have hw' : s.nextW + 1 ≤ w := hw
          show upd s.ws s.nextW .idle w = .off
          rw [upd_other _ _ _ _ (by omega : w ≠ s.nextW)]
          exact hi.off w (by omega : s.nextW ≤ w)
        · show s.active + 1 = sumW aliveW (upd s.ws s.nextW .idle) (s.nextW + 1)
          simp only [sumW]
          rw [sumW_upd_ge _ _ _ _ _ (Nat.le_refl _), upd_same, hi.act]
          rfl
        · intro _ _; show 0 < s.active + 1; omega
        · show s.active + 1 ≤ s.maxW; omega
        · show (if name = "" then s.names else setName s.names name true) "" = false
          by_cases he : name = ""
          · simp only [he, if_true]; exact hi.noEmpty
          · simp only [he, if_false, setName]
            have : ¬ "" = name := fun h => he h.symm
            simp only [this, if_false]; exact hi.noEmpty
        · intro n hn
          show (s.queue ++ [({ id := id, name := name } : Job)]).countP (fun (j : Job) => j.name = n) +
              sumW (holdsW n) (upd s.ws s.nextW .idle) (s.nextW + 1) = _
          apply uniq_submit hi.uniq id name hnd n hn
          simp only [sumW]
          rw [sumW_upd_ge _ _ _ _ _ (Nat.le_refl _), upd_same]
          rfl
      · rename_i hge
        cases h
        refine ⟨hi.maxW, hi.off, hi.act, ?_, hi.bound, ?_, ?_⟩
        · intro hm _
          have := hi.maxW
          show 0 < s.active; omega
        · show (if name = "" then s.names else setName s.names name true) "" = false
          by_cases he : name = ""
          · simp only [he, if_true]; exact hi.noEmpty
          · simp only [he, if_false, setName]
            have : ¬ "" = name := fun h => he h.symm
            simp only [this, if_false]; exact hi.noEmpty
        · intro n hn
          exact uniq_submit hi.uniq id name hnd n hn _ rfl
  | take w =>
    simp only [step] at h
    split at h
    · rename_i j rest hws hq
      cases h
      have hw : w < s.nextW := lt_nextW hi (by rw [hws]; intro h; cases h)
      refine ⟨hi.maxW, ?_, ?_, ?_, hi.bound, hi.noEmpty, ?_⟩
      · intro x hx
        have hx' : s.nextW ≤ x := hx
        show upd s.ws w (.running j) x = .off
        rw [upd_other _ _ _ _ (by omega : x ≠ w)]; exact hi.off x hx'
      · show s.active = sumW aliveW (upd s.ws w (.running j)) s.nextW
        have := sumW_upd_lt aliveW s.ws w (.running j) s.nextW hw
        rw [hws] at this
        simp only [aliveW] at this
        rw [hi.act]; omega
      · intro hm _
        exact hi.live hm (by rw [hq]; simp)
      · intro n hn
        have hu := hi.uniq n hn
        unfold occ at hu
        show rest.countP (fun (j : Job) => j.name = n) + sumW (holdsW n) (upd s.ws w (.running j)) s.nextW = _
        have := sumW_upd_lt (holdsW n) s.ws w (.running j) s.nextW hw
        rw [hws] at this
        simp only [holdsW] at this
        rw [hq, List.countP_cons] at hu
        rw [← hu]
        by_cases hj : j.name = n <;> simp [hj] at this ⊢ <;> omega
    · cases h
  | workerExit w =>
    simp only [step] at h
    split at h
    · rename_i hws hq
      cases h
      have hw : w < s.nextW := lt_nextW hi (by rw [hws]; intro h; cases h)
      refine ⟨hi.maxW, ?_, ?_, ?_, ?_, hi.noEmpty, ?_⟩
      · intro x hx
        show upd s.ws w .off x = .off
        by_cases hxw : x = w
        · rw [hxw, upd_same]
        · rw [upd_other _ _ _ _ hxw]; exact hi.off x hx
      · show s.active - 1 = sumW aliveW (upd s.ws w .off) s.nextW
        have := sumW_upd_lt aliveW s.ws w .off s.nextW hw
        rw [hws] at this
        simp only [aliveW] at this
        rw [hi.act]; omega
      · intro _ hne
        exact absurd hq hne
      · show s.active - 1 ≤ s.maxW
        have := hi.bound; omega
      · intro n hn
        have hu := hi.uniq n hn
        unfold occ at hu
        show s.queue.countP (fun (j : Job) => j.name = n) + sumW (holdsW n) (upd s.ws w .off) s.nextW = _
        have := sumW_upd_lt (holdsW n) s.ws w .off s.nextW hw
        rw [hws] at this
        simp only [holdsW] at this
        rw [← hu]; omega
    · cases h
  | jobReturn w ok =>
    simp only [step] at h
    split at h
    · rename_i j hws
      cases h
      have hw : w < s.nextW := lt_nextW hi (by rw [hws]; intro h; cases h)
      refine ⟨hi.maxW, ?_, ?_, hi.live, hi.bound, hi.noEmpty, ?_⟩
      · intro x hx
        have hx' : s.nextW ≤ x := hx
        show upd s.ws w (.finishing j) x = .off
        rw [upd_other _ _ _ _ (by omega : x ≠ w)]; exact hi.off x hx'
      · show s.active = sumW aliveW (upd s.ws w (.finishing j)) s.nextW
        have := sumW_upd_lt aliveW s.ws w (.finishing j) s.nextW hw
        rw [hws] at this
        simp only [aliveW] at this
        rw [hi.act]; omega
      · intro n hn
        have hu := hi.uniq n hn
        unfold occ at hu
        show s.queue.countP (fun (j : Job) => j.name = n) + sumW (holdsW n) (upd s.ws w (.finishing j)) s.nextW = _
        have := sumW_upd_lt (holdsW n) s.ws w (.finishing j) s.nextW hw
        rw [hws] at this
        simp only [holdsW] at this
        rw [← hu]; omega
    · cases h
  | jobPanic w =>
    simp only [step] at h
    split at h
    · rename_i j hws
      cases h
      have hw : w < s.nextW := lt_nextW hi (by rw [hws]; intro h; cases h)
      refine ⟨hi.maxW, ?_, ?_, hi.live, hi.bound, hi.noEmpty, ?_⟩
      · intro x hx
        have hx' : s.nextW ≤ x := hx
        show upd s.ws w (.finishing j) x = .off
        rw [upd_other _ _ _ _ (by omega : x ≠ w)]; exact hi.off x hx'
      · show s.active = sumW aliveW (upd s.ws w (.finishing j)) s.nextW
        have := sumW_upd_lt aliveW s.ws w (.finishing j) s.nextW hw
        rw [hws] at this
        simp only [aliveW] at this
        rw [hi.act]; omega
      · intro n hn
        have hu := hi.uniq n hn
        unfold occ at hu
        show s.queue.countP (fun (j : Job) => j.name = n) + sumW (holdsW n) (upd s.ws w (.finishing j)) s.nextW = _
        have := sumW_upd_lt (holdsW n) s.ws w (.finishing j) s.nextW hw
        rw [hws] at this
        simp only [holdsW] at this
        rw [← hu]; omega
    · cases h
  | release w =>
    simp only [step] at h
    split at h
    · rename_i j hws
      cases h
      have hw : w < s.nextW := lt_nextW hi (by rw [hws]; intro h; cases h)
      refine ⟨hi.maxW, ?_, ?_, hi.live, hi.bound, ?_, ?_⟩
      · intro x hx
        have hx' : s.nextW ≤ x := hx
        show upd s.ws w .idle x = .off
        rw [upd_other _ _ _ _ (by omega : x ≠ w)]; exact hi.off x hx'
      · show s.active = sumW aliveW (upd s.ws w .idle) s.nextW
        have := sumW_upd_lt aliveW s.ws w .idle s.nextW hw
        rw [hws] at this
        simp only [aliveW] at this
        rw [hi.act]; omega
      · show (if j.name = "" then s.names else setName s.names j.name false) "" = false
        by_cases he : j.name = ""
        · simp only [he, if_true]; exact hi.noEmpty
        · simp only [he, if_false, setName]
          have : ¬ "" = j.name := fun h => he h.symm
          simp only [this, if_false]; exact hi.noEmpty
      · intro n hn
        have hu := hi.uniq n hn
        unfold occ at hu
        show s.queue.countP (fun (j : Job) => j.name = n) + sumW (holdsW n) (upd s.ws w .idle) s.nextW =
          if (if j.name = "" then s.names else setName s.names j.name false) n = true then 1 else 0
        have := sumW_upd_lt (holdsW n) s.ws w .idle s.nextW hw
        rw [hws] at this
        simp only [holdsW] at this
        by_cases hj : j.name = n
        · subst hj
          simp only [if_true] at this
          have e : (if j.name = "" then s.names else setName s.names j.name false) j.name = false := by
            simp only [hn, if_false, setName, if_true]
          rw [e]
          simp only [Bool.false_eq_true, if_false]
          split at hu <;> omega
        · have hnj : ¬ n = j.name := fun h => hj h.symm
          simp only [hj, if_false] at this
          have e : (if j.name = "" then s.names else setName s.names j.name false) n = s.names n := by
            by_cases he : j.name = ""
            · simp only [he, if_true]
            · simp only [he, if_false, setName, hnj, if_false]
          rw [e, ← hu]; omega
    · cases h

theorem inv_reachable {m : Nat} {s : JM} (hr : Reachable m s) : Inv m s := by
  induction hr with
  | init => exact inv_init m
  | step e _ h ih => exact inv_step ih h

theorem reachable_run {m : Nat} {s : JM} (hr : Reachable m s) :
    ∀ (es : List Ev) (s' : JM), run s es = some s' → Reachable m s' := by
  intro es
  induction es generalizing s with
  | nil => intro s' h; simp only [run] at h; cases h; exact hr
  | cons e es ih =>
    intro s' h
    simp only [run] at h
    cases hs : step s e with
    | none => simp [hs] at h
    | some s1 =>
      simp only [hs] at h
      exact ih (Reachable.step e hr hs) s' h

theorem two_le_sumW {g : WS → Nat} {f : Nat → WS} : ∀ n w w', w < n → w' < n → w ≠ w' →
    g (f w) + g (f w') ≤ sumW g f n := by
  intro n
  induction n with
  | zero => intro w w' h; omega
  | succ n ih =>
    intro w w' h h' hne
    simp only [sumW]
    by_cases hw : w = n
    · subst hw
      have := le_sumW (g := g) (f := f) w w' (by omega); omega
    · by_cases hw' : w' = n
      · subst hw'
        have := le_sumW (g := g) (f := f) w' w (by omega); omega
      · have := ih w w' (by omega) (by omega) hne; omega

theorem countP_le_one_unique {α : Type} (p : α → Bool) : ∀ (l : List α), l.countP p ≤ 1 →
    ∀ (a b : Nat) x y, l[a]? = some x → l[b]? = some y → p x = true → p y = true → a = b := by
  intro l
  induction l with
  | nil => intro _ a b x y h; simp at h
  | cons z r ih =>
    intro hc a b x y ha hb hx hy
    rw [List.countP_cons] at hc
    have pos : ∀ (k : Nat) (v : α), r[k]? = some v → p v = true → 0 < r.countP p := by
      intro k v hk hv
      exact List.countP_pos_iff.mpr ⟨v, List.mem_of_getElem? hk, hv⟩
    cases a with
    | zero =>
      cases b with
      | zero => rfl
      | succ b =>
        simp only [List.getElem?_cons_zero, Option.some.injEq] at ha
        simp only [List.getElem?_cons_succ] at hb
        subst ha
        have := pos b y hb hy
        simp only [hx, if_true] at hc; omega
    | succ a =>
      cases b with
      | zero =>
        simp only [List.getElem?_cons_zero, Option.some.injEq] at hb
        simp only [List.getElem?_cons_succ] at ha
        subst hb
        have := pos a x ha hx
        simp only [hy, if_true] at hc; omega
      | succ b =>
        simp only [List.getElem?_cons_succ] at ha hb
        have := ih (by omega) a b x y ha hb hx hy
        omega

/-- every worker event either dequeues the job at position `p` or lowers `mu`; so a run with
more than `mu s p` worker events has taken it (as its `p`-th dequeued job: FIFO) -/
theorem taken_bound {m : Nat} : ∀ (es : List Ev) (s s' : JM) (p : Nat) (j : Job), Inv m s →
    run s es = some s' → s.queue[p]? = some j → mu s p < workerEvents es →
    (takenJobs s es)[p]? = some j := by
  intro es
  induction es with
  | nil => intro s s' p j _ _ _ h; simp [workerEvents] at h
  | cons e es ih =>
    intro s s' p j hi hrun hq hmu
    simp only [run] at hrun
    cases hs : step s e with
    | none => simp [hs] at hrun
    | some s1 =>
      simp only [hs] at hrun
      have hi1 : Inv m s1 := inv_step hi hs
      simp only [takenJobs, hs]
      simp only [workerEvents, List.countP_cons] at hmu
      cases e with
      | submit id name =>
        simp only [Ev.isWorker, Bool.false_eq_true, if_false, Nat.add_zero] at hmu
        simp only [List.nil_append]
        apply ih s1 s' p j hi1 hrun
        · simp only [step] at hs
          split at hs
          · cases hs; exact hq
          · split at hs <;> cases hs <;>
              (show (s.queue ++ _)[p]? = some j; rw [List.getElem?_append_left]; exact hq;
               exact (List.getElem?_eq_some_iff.mp hq).1)
        · have : mu s1 p = mu s p := by
            simp only [step] at hs
            split at hs
            · cases hs; rfl
            · split at hs
              · cases hs
                show 3 * p + sumW workW (upd s.ws s.nextW .idle) (s.nextW + 1) = 3 * p + sumW workW s.ws s.nextW
                simp only [sumW]
                rw [sumW_upd_ge _ _ _ _ _ (Nat.le_refl _), upd_same]; rfl
              · cases hs; rfl
          rw [this]; exact hmu
      | take w =>
        simp only [Ev.isWorker, if_true] at hmu
        simp only [step] at hs
        split at hs
        · rename_i h rest hws hqq
          cases hs
          have hw : w < s.nextW := lt_nextW hi (by rw [hws]; intro h; cases h)
          rw [hqq] at hq
          simp only [hqq]
          cases p with
          | zero =>
            simp only [List.getElem?_cons_zero, Option.some.injEq] at hq
            subst hq; simp
          | succ p =>
            simp only [List.getElem?_cons_succ] at hq
            simp only [List.singleton_append, List.getElem?_cons_succ]
            apply ih _ s' p j hi1 hrun hq
            have := sumW_upd_lt workW s.ws w (.running h) s.nextW hw
            rw [hws] at this
            simp only [workW] at this
            show 3 * p + sumW workW (upd s.ws w (.running h)) s.nextW < _
            simp only [mu] at hmu
            simp only [workerEvents]
            omega
        · cases hs
      | workerExit w =>
        simp only [step] at hs
        split at hs
        · rename_i hws hqq
          rw [hqq] at hq; simp at hq
        · cases hs
      | jobReturn w ok =>
        simp only [Ev.isWorker, if_true] at hmu
        simp only [List.nil_append]
        simp only [step] at hs
        split at hs
        · rename_i j0 hws
          cases hs
          have hw : w < s.nextW := lt_nextW hi (by rw [hws]; intro h; cases h)
          apply ih _ s' p j hi1 hrun hq
          have := sumW_upd_lt workW s.ws w (.finishing j0) s.nextW hw
          rw [hws] at this
          simp only [workW] at this
          show 3 * p + sumW workW (upd s.ws w (.finishing j0)) s.nextW < _
          simp only [mu] at hmu
          simp only [workerEvents]
          omega
        · cases hs
      | jobPanic w =>
        simp only [Ev.isWorker, if_true] at hmu
        simp only [List.nil_append]
        simp only [step] at hs
        split at hs
        · rename_i j0 hws
          cases hs
          have hw : w < s.nextW := lt_nextW hi (by rw [hws]; intro h; cases h)
          apply ih _ s' p j hi1 hrun hq
          have := sumW_upd_lt workW s.ws w (.finishing j0) s.nextW hw
          rw [hws] at this
          simp only [workW] at this
          show 3 * p + sumW workW (upd s.ws w (.finishing j0)) s.nextW < _
          simp only [mu] at hmu
          simp only [workerEvents]
          omega
        · cases hs
      | release w =>
        simp only [Ev.isWorker, if_true] at hmu
        simp only [List.nil_append]
        simp only [step] at hs
        split at hs
        · rename_i j0 hws
          cases hs
          have hw : w < s.nextW := lt_nextW hi (by rw [hws]; intro h; cases h)
          apply ih _ s' p j hi1 hrun hq
          have := sumW_upd_lt workW s.ws w .idle s.nextW hw
          rw [hws] at this
          simp only [workW] at this
          show 3 * p + sumW workW (upd s.ws w .idle) s.nextW < _
          simp only [mu] at hmu
          simp only [workerEvents]
          omega
        · cases hs

/-- while the queue is non-empty some worker event is enabled -/
theorem worker_enabled {m : Nat} (hm : 1 ≤ m) {s : JM} (hi : Inv m s) (hq : s.queue ≠ []) :
    ∃ e, e.isWorker = true ∧ (step s e).isSome = true := by
  have ha := hi.live hm hq
  rw [hi.act] at ha
  obtain ⟨w, _, hw⟩ := sumW_pos _ ha
  cases hws : s.ws w with
  | off => rw [hws] at hw; simp [aliveW] at hw
  | idle =>
    refine ⟨.take w, rfl, ?_⟩
    cases hqq : s.queue with
    | nil => exact absurd hqq hq
    | cons j rest => simp [step, hws, hqq]
  | running j => exact ⟨.jobReturn w true, rfl, by simp [step, hws]⟩
  | finishing j => exact ⟨.release w, rfl, by simp [step, hws]⟩

theorem loop_length (tbl : List Nat) (mx : Nat) (i : RetryIn) :
    ∀ fuel k idx now, (loop tbl mx i fuel k idx now).trace.length ≤ fuel := by
  intro fuel
  induction fuel with
  | zero => intro k idx now; simp [loop]
  | succ f ih =>
    intro k idx now
    unfold loop
    cases hs : stepR tbl mx i k idx now with
    | cancel ci => simp
    | final T E r => simp
    | more T E =>
      have := ih (k + 1) (nextIdx tbl idx) E
      simp only [List.length_cons]; omega

end CM.Async
