import CM.Model.Challenge
/-! Helper lemmas for C15: the inductive invariant of the present / clean-up system. -/
namespace CM.Challenge

/-- sanitised key of a pending challenge -/
def skey (E : Env) (a : Nat × Str × Chal) : Str := E.safe (challengeKey a.2.2)

/-- the invariant of reachable states -/
structure Inv (E : Env) (S : State) : Prop where
  /-- a memory entry sits under its challenge's key and belongs to a challenge pending on that node -/
  mem_ok : ∀ n k e, S.mem n k = some e → k = challengeKey e.chal ∧ e.hasData = setsData e.chal ∧
            ∃ p, (n, p, e.chal) ∈ S.active
  /-- a token file sits under its challenge's sanitised key and belongs to a pending challenge -/
  store_ok : ∀ p f c, S.store p f = some c → f = E.safe (challengeKey c) ∧ ∃ n, (n, p, c) ∈ S.active
  /-- a pending challenge is in its node's memory and in storage under its prefix -/
  act_ok : ∀ a ∈ S.active, S.mem a.1 (challengeKey a.2.2) = some ⟨a.2.2, setsData a.2.2⟩ ∧
            S.store a.2.1 (skey E a) = some a.2.2
  /-- pending challenges have pairwise different sanitised keys -/
  distinct : S.active.Pairwise (fun a b => skey E a ≠ skey E b)

theorem eqFold_refl (E : Env) (a : Str) : eqFold E a a = true := by simp [eqFold]

theorem inv_empty (E : Env) : Inv E State.empty :=
  ⟨by intro n k e h; simp [State.empty] at h, by intro p f c h; simp [State.empty] at h,
   by intro a h; simp [State.empty] at h, by simp [State.empty]⟩

/-- two pending challenges with the same sanitised key are the same one -/
theorem same_of_skey {E : Env} {l : List (Nat × Str × Chal)}
    (hd : l.Pairwise (fun a b => skey E a ≠ skey E b)) {a b : Nat × Str × Chal}
    (ha : a ∈ l) (hb : b ∈ l) (hk : skey E a = skey E b) : a = b := by
  induction l with
  | nil => cases ha
  | cons x xs ih =>
    rw [List.pairwise_cons] at hd
    rcases List.mem_cons.mp ha with rfl | ha' <;> rcases List.mem_cons.mp hb with rfl | hb'
    · rfl
    · exact absurd hk (hd.1 _ hb')
    · exact absurd hk.symm (hd.1 _ ha')
    · exact ih hd.2 ha' hb'

theorem nodup_of_distinct {E : Env} {l : List (Nat × Str × Chal)}
    (hd : l.Pairwise (fun a b => skey E a ≠ skey E b)) : l.Nodup := by
  unfold List.Nodup
  exact hd.imp (fun h e => h (by rw [e]))

theorem fresh_iff (E : Env) (S : State) (c : Chal) :
    fresh E S c = true ↔ ∀ a ∈ S.active, skey E a ≠ E.safe (challengeKey c) := by
  simp [fresh, skey, List.all_eq_true]

theorem mem_present (E : Env) (S : State) (n : Nat) (p : Str) (c : Chal) (n' : Nat) (k : Str) :
    (apply E S (.present n p c)).mem n' k =
      if n' = n ∧ k = challengeKey c then some ⟨c, setsData c⟩ else S.mem n' k := by
  simp only [apply, updN]
  by_cases hn : n' = n <;> by_cases hk : k = challengeKey c <;> simp [hn, hk, upd]

theorem store_present (E : Env) (S : State) (n : Nat) (p : Str) (c : Chal) (p' f : Str) :
    (apply E S (.present n p c)).store p' f =
      if p' = p ∧ f = E.safe (challengeKey c) then some c else S.store p' f := by
  simp only [apply, updS]
  by_cases hn : p' = p <;> by_cases hk : f = E.safe (challengeKey c) <;> simp [hn, hk, upd]

theorem mem_cleanUp (E : Env) (S : State) (n : Nat) (p : Str) (c : Chal) (n' : Nat) (k : Str) :
    (apply E S (.cleanUp n p c)).mem n' k =
      if n' = n ∧ k = challengeKey c then none else S.mem n' k := by
  simp only [apply, updN]
  by_cases hn : n' = n <;> by_cases hk : k = challengeKey c <;> simp [hn, hk, upd]

theorem store_cleanUp (E : Env) (S : State) (n : Nat) (p : Str) (c : Chal) (p' f : Str) :
    (apply E S (.cleanUp n p c)).store p' f =
      if p' = p ∧ f = E.safe (challengeKey c) then none else S.store p' f := by
  simp only [apply, updS]
  by_cases hn : p' = p <;> by_cases hk : f = E.safe (challengeKey c) <;> simp [hn, hk, upd]

theorem inv_step (E : Env) (S S' : State) (e : Ev) (hI : Inv E S) (hs : step E S e = some S') :
    Inv E S' := by
  cases e with
  | present n p c =>
    simp only [step] at hs
    split at hs
    · rename_i hf
      rw [fresh_iff] at hf
      injection hs with hs; subst hs
      have hact : (apply E S (.present n p c)).active = (n, p, c) :: S.active := rfl
      refine ⟨?_, ?_, ?_, ?_⟩
      · intro n' k e h
        rw [mem_present] at h
        split at h
        · rename_i hc
          injection h with h; subst h
          exact ⟨hc.2, rfl, p, by rw [hact, hc.1]; exact List.mem_cons_self⟩
        · obtain ⟨h1, h2, q, h3⟩ := hI.mem_ok _ _ _ h
          exact ⟨h1, h2, q, by rw [hact]; exact List.mem_cons_of_mem _ h3⟩
      · intro p' f c' h
        rw [store_present] at h
        split at h
        · rename_i hc
          injection h with h; subst h
          exact ⟨hc.2, n, by rw [hact, hc.1]; exact List.mem_cons_self⟩
        · obtain ⟨h1, m, h3⟩ := hI.store_ok _ _ _ h
          exact ⟨h1, m, by rw [hact]; exact List.mem_cons_of_mem _ h3⟩
      · intro a ha
        rw [hact] at ha
        rw [mem_present, store_present]
        rcases List.mem_cons.mp ha with rfl | ha
        · simp [skey]
        · have hne := hf a ha
          obtain ⟨h1, h2⟩ := hI.act_ok a ha
          have hk : challengeKey a.2.2 ≠ challengeKey c := by
            intro e; apply hne; simp [skey, e]
          rw [if_neg (fun x => hk x.2), if_neg (fun x => hne x.2)]
          exact ⟨h1, h2⟩
      · rw [hact, List.pairwise_cons]
        refine ⟨?_, hI.distinct⟩
        intro a ha e
        exact hf a ha (by rw [← e]; rfl)
    · cases hs
  | cleanUp n p c =>
    simp only [step] at hs
    split at hs
    · rename_i hm
      injection hs with hs; subst hs
      have hnd := nodup_of_distinct hI.distinct
      have hact : (apply E S (.cleanUp n p c)).active = S.active.erase (n, p, c) := rfl
      refine ⟨?_, ?_, ?_, ?_⟩
      · intro n' k e h
        rw [mem_cleanUp] at h
        split at h
        · cases h
        · rename_i hc
          obtain ⟨h1, h2, q, h3⟩ := hI.mem_ok _ _ _ h
          refine ⟨h1, h2, q, ?_⟩
          rw [hact]
          apply (List.mem_erase_of_ne ?_).mpr h3
          intro x
          injection x with x1 x2
          injection x2 with x2 x3
          exact hc ⟨x1, by rw [h1, x3]⟩
      · intro p' f c' h
        rw [store_cleanUp] at h
        split at h
        · cases h
        · rename_i hc
          obtain ⟨h1, m, h3⟩ := hI.store_ok _ _ _ h
          refine ⟨h1, m, ?_⟩
          rw [hact]
          apply (List.mem_erase_of_ne ?_).mpr h3
          intro x
          injection x with x1 x2
          injection x2 with x2 x3
          exact hc ⟨x2, by rw [h1, x3]⟩
      · intro a ha
        rw [hact, hnd.mem_erase_iff] at ha
        obtain ⟨hne, ha⟩ := ha
        have hsk : skey E a ≠ skey E (n, p, c) := fun e => hne (same_of_skey hI.distinct ha hm e)
        have hsk' : skey E a ≠ E.safe (challengeKey c) := hsk
        have hk : challengeKey a.2.2 ≠ challengeKey c := by
          intro e; apply hsk; simp [skey, e]
        obtain ⟨h1, h2⟩ := hI.act_ok a ha
        rw [mem_cleanUp, store_cleanUp, if_neg (fun x => hk x.2), if_neg (fun x => hsk' x.2)]
        exact ⟨h1, h2⟩
      · rw [hact]
        exact hI.distinct.sublist List.erase_sublist
    · cases hs

theorem inv_run (E : Env) : ∀ (es : List Ev) (S S' : State), Inv E S → run E S es = some S' → Inv E S'
  | [], S, S', hI, h => by simp [run] at h; subst h; exact hI
  | e :: es, S, S', hI, h => by
    simp only [run] at h
    split at h
    · rename_i S1 hs
      exact inv_run E es S1 S' (inv_step E S S1 e hI hs) h
    · cases h

theorem inv_reachable {E : Env} {S : State} (h : Reachable E S) : Inv E S := by
  obtain ⟨es, h⟩ := h
  exact inv_run E es _ _ (inv_empty E) h

/-- what a successful lookup returned, on a reachable state: a pending challenge, from
this node's memory or from a searched prefix, whose key corresponds to the name asked for -/
theorem lookup_sound {E : Env} {S : State} (hI : Inv E S) {n : Nat} {ps : List Str} {name : Str}
    {e : Entry} (h : lookup E S n ps name = some e) :
    eqFold E (challengeKey e.chal) name = true ∧
    ∃ n0 p0, (n0, p0, e.chal) ∈ S.active ∧ (n0 = n ∨ p0 ∈ ps) := by
  unfold lookup at h
  split at h
  · rename_i e' hm
    injection h with h; subst h
    obtain ⟨h1, _, p, h3⟩ := hI.mem_ok _ _ _ hm
    exact ⟨by rw [← h1]; exact eqFold_refl E _, n, p, h3, Or.inl rfl⟩
  · split at h
    · cases h
    · rename_i c hf
      split at h
      · rename_i hq
        injection h with h; subst h
        obtain ⟨p, hp, hst⟩ := List.exists_of_findSome?_eq_some hf
        obtain ⟨_, m, h3⟩ := hI.store_ok _ _ _ hst
        exact ⟨hq, m, p, h3, Or.inr hp⟩
      · cases h

/-- a pending challenge is found under its own key by its own node and by every node
whose configuration searches the prefix it was presented under -/
theorem lookup_complete {E : Env} {S : State} (hI : Inv E S) {n n0 : Nat} {p0 : Str} {c : Chal}
    {ps : List Str} (ha : (n0, p0, c) ∈ S.active) (hv : n0 = n ∨ p0 ∈ ps) :
    ∃ d, lookup E S n ps (challengeKey c) = some ⟨c, d⟩ := by
  unfold lookup
  cases hm : S.mem n (challengeKey c) with
  | some e =>
    obtain ⟨h1, _, p, h3⟩ := hI.mem_ok _ _ _ hm
    have : (n, p, e.chal) = (n0, p0, c) :=
      same_of_skey hI.distinct h3 ha (by simp [skey, ← h1])
    injection this with _ t; injection t with _ t
    exact ⟨e.hasData, by cases e; simp_all⟩
  | none =>
    have hp : p0 ∈ ps := by
      rcases hv with rfl | hp
      · have := (hI.act_ok _ ha).1
        simp only at this
        rw [hm] at this; cases this
      · exact hp
    have hst := (hI.act_ok _ ha).2
    simp only [skey] at hst
    cases hf : ps.findSome? (fun p => S.store p (E.safe (challengeKey c))) with
    | none =>
      rw [List.findSome?_eq_none_iff] at hf
      have := hf p0 hp
      rw [hst] at this; cases this
    | some c' =>
      obtain ⟨p, _, hst'⟩ := List.exists_of_findSome?_eq_some hf
      obtain ⟨h1, m, h3⟩ := hI.store_ok _ _ _ hst'
      have : (m, p, c') = (n0, p0, c) := same_of_skey hI.distinct h3 ha (by simp [skey, ← h1])
      injection this with _ t; injection t with _ t
      subst t
      exact ⟨false, by simp [eqFold_refl]⟩

end CM.Challenge
