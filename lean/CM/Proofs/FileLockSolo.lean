import CM.Model.FileLockSim
/-! A contender that runs alone with exact timers: step lemmas and the recovery bounds
(helper lemmas for `C08_recovers` in `CM/Props/C08.lean`). -/
namespace CM.FileLock

theorem soloRun_step (c : Params) (n : Nat) (s s' : State) (p : Nat) (e : Ev)
    (h1 : soloNext s p = some e) (h2 : step c s e = some s') : soloRun c (n + 1) s p = soloRun c n s' p := by
  simp [soloRun, h1, h2]

theorem soloRun_stop (c : Params) (n : Nat) (s : State) (p : Nat) (h : soloNext s p = none) :
    soloRun c n s p = s := by
  cases n with
  | zero => rfl
  | succ k => simp [soloRun, h]

/-- what the solo lemmas track of a state: the contender's pc, the file, the clock -/
structure Frame (s : State) (p : Nat) (x : PC) (f : Option (Nat × Content)) (t : Nat) : Prop where
  pc : s.pc p = x
  file : s.file = f
  now : s.now = t

variable (c : Params)

theorem solo_try_exists {s : State} {p e : Nat} {f : Nat × Content} {t : Nat} (F : Frame s p (.try_ e) (some f) t) :
    ∃ s', (∀ n, soloRun c (n + 1) s p = soloRun c n s' p) ∧ Frame s' p (.exists_ e) (some f) t := by
  refine ⟨{ s with pc := upd s.pc p (.exists_ e) }, fun n => soloRun_step c n s _ p (.tryCreate p) (by simp [soloNext, F.pc]) ?_, ?_⟩
  · simp [step, F.pc, F.file]
  · exact ⟨by simp, F.file, F.now⟩

theorem solo_try_create {s : State} {p e t : Nat} (F : Frame s p (.try_ e) none t) :
    ∃ s' i, (∀ n, soloRun c (n + 1) s p = soloRun c n s' p) ∧ Frame s' p (.created i) (some (i, .empty)) t := by
  refine ⟨{ s with file := some (s.next, .empty), next := s.next + 1, pc := upd s.pc p (.created s.next) }, s.next,
    fun n => soloRun_step c n s _ p (.tryCreate p) (by simp [soloNext, F.pc]) ?_, ?_⟩
  · simp [step, F.pc, F.file]
  · exact ⟨by simp, rfl, F.now⟩

theorem solo_write {s : State} {p i t : Nat} {f : Option (Nat × Content)} (F : Frame s p (.created i) f t) :
    ∃ s', (∀ n, soloRun c (n + 1) s p = soloRun c n s' p) ∧ s'.pc p = .holding i t ∧ s'.now = t := by
  refine ⟨_, fun n => soloRun_step c n s _ p (.writeMeta p) (by simp [soloNext, F.pc]) (by simp [step, F.pc]; rfl), ?_, ?_⟩
  · simp [F.now]
  · exact F.now

theorem solo_observe_stale {s : State} {p e i cr u t : Nat} (F : Frame s p (.exists_ e) (some (i, .stamp cr u)) t)
    (hs : stale c t cr u = true) :
    ∃ s', (∀ n, soloRun c (n + 1) s p = soloRun c n s' p) ∧ Frame s' p (.removing e) (some (i, .stamp cr u)) t := by
  refine ⟨{ s with pc := upd s.pc p (.removing e) }, fun n => soloRun_step c n s _ p (.observe p) (by simp [soloNext, F.pc]) ?_, ?_⟩
  · simp [step, F.pc, F.file, F.now, hs]
  · exact ⟨by simp, F.file, F.now⟩

theorem solo_observe_fresh {s : State} {p e i cr u t : Nat} (F : Frame s p (.exists_ e) (some (i, .stamp cr u)) t)
    (hs : stale c t cr u = false) :
    ∃ s', (∀ n, soloRun c (n + 1) s p = soloRun c n s' p) ∧ Frame s' p (.poll 0 (t + c.P)) (some (i, .stamp cr u)) t := by
  refine ⟨{ s with pc := upd s.pc p (.poll 0 (s.now + c.P)) }, fun n => soloRun_step c n s _ p (.observe p) (by simp [soloNext, F.pc]) ?_, ?_⟩
  · simp [step, F.pc, F.file, F.now, hs]
  · exact ⟨by simp [F.now], F.file, F.now⟩

theorem solo_observe_empty {s : State} {p e i t : Nat} {cont : Content} (hc : cont = .empty ∨ cont = .garbage)
    (F : Frame s p (.exists_ e) (some (i, cont)) t) :
    ∃ s', (∀ n, soloRun c (n + 1) s p = soloRun c n s' p) ∧ Frame s' p (afterEmpty c t e) (some (i, cont)) t := by
  refine ⟨{ s with pc := upd s.pc p (afterEmpty c s.now e) }, fun n => soloRun_step c n s _ p (.observe p) (by simp [soloNext, F.pc]) ?_, ?_⟩
  · rcases hc with rfl | rfl <;> simp [step, F.pc, F.file]
  · exact ⟨by simp [F.now], F.file, F.now⟩

theorem solo_remove {s : State} {p e t : Nat} {f : Option (Nat × Content)} (F : Frame s p (.removing e) f t) :
    ∃ s', (∀ n, soloRun c (n + 1) s p = soloRun c n s' p) ∧ Frame s' p (.try_ e) none t := by
  refine ⟨{ s with file := none, pc := upd s.pc p (.try_ e) }, fun n => soloRun_step c n s _ p (.remove p) (by simp [soloNext, F.pc]) ?_, ?_⟩
  · simp [step, F.pc]
  · exact ⟨by simp, rfl, F.now⟩

/-- sleeping until `due` (exact timer), then waking up -/
theorem solo_sleep {s : State} {p e due t : Nat} {f : Option (Nat × Content)} {x : PC}
    (hx : x = .poll e due ∨ x = .sleepE e due) (hd : t < due) (F : Frame s p x f t) :
    ∃ s', (∀ n, soloRun c (n + 2) s p = soloRun c n s' p) ∧ Frame s' p (.try_ e) f due := by
  have hnd : ¬ due ≤ s.now := by rw [F.now]; omega
  have h1 : soloNext s p = some (.tick (due - s.now)) := by
    rcases hx with rfl | rfl <;> simp [soloNext, F.pc, hnd]
  have hnow : s.now + (due - s.now) = due := by rw [F.now]; omega
  have h2 : soloNext { s with now := s.now + (due - s.now) } p = some (.wake p) := by
    rcases hx with rfl | rfl <;> simp [soloNext, F.pc, hnow]
  refine ⟨{ s with now := s.now + (due - s.now), pc := upd s.pc p (.try_ e) }, fun n => ?_, ?_⟩
  · rw [soloRun_step c (n + 1) s { s with now := s.now + (due - s.now) } p _ h1 (by simp [step])]
    refine soloRun_step c n _ _ p _ h2 ?_
    rcases hx with rfl | rfl <;> simp [step, F.pc, hnow]
  · exact ⟨by simp, F.file, hnow⟩

/-- a stale file is taken over at once -/
theorem solo_take {s : State} {p e i cr u t : Nat} (F : Frame s p (.try_ e) (some (i, .stamp cr u)) t)
    (hs : stale c t cr u = true) (n : Nat) :
    ∃ j, (soloRun c (n + 5) s p).pc p = .holding j t ∧ (soloRun c (n + 5) s p).now = t := by
  obtain ⟨s1, r1, F1⟩ := solo_try_exists c F
  obtain ⟨s2, r2, F2⟩ := solo_observe_stale c F1 hs
  obtain ⟨s3, r3, F3⟩ := solo_remove c F2
  obtain ⟨s4, j, r4, F4⟩ := solo_try_create c F3
  obtain ⟨s5, r5, hpc, hnow⟩ := solo_write c F4
  rw [r1 (n + 4), r2 (n + 3), r3 (n + 2), r4 (n + 1), r5 n, soloRun_stop c n s5 p (by simp [soloNext, hpc])]
  exact ⟨j, hpc, hnow⟩

/-- a file that is not yet stale: one poll later the contender is back at the top of the loop -/
theorem solo_poll {s : State} {p e i cr u t : Nat} (hP : 0 < c.P) (F : Frame s p (.try_ e) (some (i, .stamp cr u)) t)
    (hs : stale c t cr u = false) :
    ∃ s', (∀ n, soloRun c (n + 4) s p = soloRun c n s' p) ∧ Frame s' p (.try_ 0) (some (i, .stamp cr u)) (t + c.P) := by
  obtain ⟨s1, r1, F1⟩ := solo_try_exists c F
  obtain ⟨s2, r2, F2⟩ := solo_observe_fresh c F1 hs
  obtain ⟨s3, r3, F3⟩ := solo_sleep c (Or.inl rfl) (by omega) F2
  exact ⟨s3, fun n => by rw [r1 (n + 3), r2 (n + 2), r3 n], F3⟩

theorem stale_iff (t cr u : Nat) : stale c t cr u = true ↔ refOf cr u + c.factor * c.H < t := by
  unfold stale refOf
  simp only [decide_eq_true_eq]
  omega

/-- the dead holder's file carries a stamp: the contender holds the lock by
`max t (ref + factor·H + P)` -/
theorem solo_recovers_stamp (hP : 0 < c.P) (i cr u p : Nat) :
    ∀ (m : Nat) (s : State) (e t : Nat), Frame s p (.try_ e) (some (i, .stamp cr u)) t →
      refOf cr u + c.factor * c.H < t + m * c.P →
      ∃ n j t', (soloRun c n s p).pc p = .holding j t' ∧ (soloRun c n s p).now = t' ∧
        t' ≤ max t (refOf cr u + c.factor * c.H + c.P) := by
  intro m
  induction m with
  | zero =>
    intro s e t F h
    have hs : stale c t cr u = true := (stale_iff c t cr u).mpr (by simpa using h)
    obtain ⟨j, h1, h2⟩ := solo_take c F hs 0
    exact ⟨5, j, t, h1, h2, Nat.le_max_left _ _⟩
  | succ m ih =>
    intro s e t F h
    by_cases hs : stale c t cr u = true
    · obtain ⟨j, h1, h2⟩ := solo_take c F hs 0
      exact ⟨5, j, t, h1, h2, Nat.le_max_left _ _⟩
    · have hs' : stale c t cr u = false := by cases hh : stale c t cr u <;> simp_all
      have hle : t ≤ refOf cr u + c.factor * c.H := by
        have h0 : ¬ (refOf cr u + c.factor * c.H < t) := fun hh => hs ((stale_iff c t cr u).mpr hh)
        omega
      have hm : refOf cr u + c.factor * c.H < (t + c.P) + m * c.P := by
        have : (m + 1) * c.P = m * c.P + c.P := Nat.succ_mul m c.P
        omega
      obtain ⟨s', r, F'⟩ := solo_poll c hP F hs'
      obtain ⟨n, j, t', h1, h2, h3⟩ := ih s' 0 (t + c.P) F' hm
      refine ⟨n + 4, j, t', by rw [r n]; exact h1, by rw [r n]; exact h2, ?_⟩
      have : max (t + c.P) (refOf cr u + c.factor * c.H + c.P) = refOf cr u + c.factor * c.H + c.P := by
        omega
      rw [this] at h3
      exact Nat.le_trans h3 (Nat.le_max_right _ _)

/-- an empty or undecodable file: `N - 1 - e` retries of `E`, then it is taken over -/
theorem solo_recovers_empty (hE : 0 < c.E) (i p : Nat) (cont : Content) (hc : cont = .empty ∨ cont = .garbage) :
    ∀ (k : Nat) (s : State) (e t : Nat), Frame s p (.try_ e) (some (i, cont)) t → e + 1 + k = c.N →
      ∃ n j, (soloRun c n s p).pc p = .holding j (t + k * c.E) ∧ (soloRun c n s p).now = t + k * c.E := by
  intro k
  induction k with
  | zero =>
    intro s e t F h
    obtain ⟨s1, r1, F1⟩ := solo_try_exists c F
    obtain ⟨s2, r2, F2⟩ := solo_observe_empty c hc F1
    have ha : afterEmpty c t e = .removing (e + 1) := by
      unfold afterEmpty; rw [if_neg (by omega)]
    rw [ha] at F2
    obtain ⟨s3, r3, F3⟩ := solo_remove c F2
    obtain ⟨s4, j, r4, F4⟩ := solo_try_create c F3
    obtain ⟨s5, r5, hpc, hnow⟩ := solo_write c F4
    refine ⟨5, j, ?_, ?_⟩
    · rw [r1 4, r2 3, r3 2, r4 1, r5 0]; simpa [soloRun] using hpc
    · rw [r1 4, r2 3, r3 2, r4 1, r5 0]; simpa [soloRun] using hnow
  | succ k ih =>
    intro s e t F h
    obtain ⟨s1, r1, F1⟩ := solo_try_exists c F
    obtain ⟨s2, r2, F2⟩ := solo_observe_empty c hc F1
    have ha : afterEmpty c t e = .sleepE (e + 1) (t + c.E) := by
      unfold afterEmpty; rw [if_pos (by omega)]
    rw [ha] at F2
    obtain ⟨s3, r3, F3⟩ := solo_sleep c (Or.inr rfl) (by omega) F2
    obtain ⟨n, j, h1, h2⟩ := ih s3 (e + 1) (t + c.E) F3 (by omega)
    have ht : t + c.E + k * c.E = t + (k + 1) * c.E := by
      have : (k + 1) * c.E = k * c.E + c.E := Nat.succ_mul k c.E
      omega
    rw [ht] at h1 h2
    exact ⟨n + 4, j, by rw [r1 (n + 3), r2 (n + 2), r3 n]; exact h1, by rw [r1 (n + 3), r2 (n + 2), r3 n]; exact h2⟩

theorem soloRun_reach (c : Params) (n : Nat) (s0 s : State) (p : Nat)
    (h : Reach c (fun _ _ _ => True) s0 s) : Reach c (fun _ _ _ => True) s0 (soloRun c n s p) := by
  induction n generalizing s with
  | zero => exact h
  | succ k ih =>
    unfold soloRun
    split
    · split
      · rename_i hs
        exact ih _ (.step h hs trivial)
      · exact h
    · exact h

end CM.FileLock
