import CM.Model.Account
/-! Inductive invariants of the C20 account protocol (helper lemmas for CM/Props/C20). -/
namespace CM.Account

/-- what holds of the shared state while process `p` is at a given program point -/
def Loc (s : St) (p : Nat) : PC → Prop
  | .reload => s.lock = some p
  | .register k => s.lock = some p ∧ stored s = none ∧ k < s.nextKey ∧ s.key ≠ some k
  | .savePre k => s.lock = some p ∧ stored s = none ∧ k < s.nextKey ∧ s.key ≠ some k
  | .saveReg k => s.lock = some p ∧ stored s = none ∧ k < s.nextKey ∧ s.key ≠ some k
  | .saveKey k _ => s.lock = some p ∧ s.reg = some k ∧ k < s.nextKey ∧ s.key ≠ some k
  | .rollback k _ => s.lock = some p ∧ s.reg = some k ∧ k < s.nextKey ∧ s.key ≠ some k
  | .release _ => s.lock = some p
  | .dneLock a => s.dneAns a = true
  | .dneCheck a => s.lock = some p ∧ s.dneAns a = true
  | .dneDelReg a => s.lock = some p ∧ s.dneAns a = true ∧ (s.reg = some a ∨ stored s = none)
  | .dneDelKey a => s.lock = some p ∧ s.dneAns a = true ∧ s.reg = none
  | .dneRel _ => s.lock = some p
  | _ => True

structure Inv1 (s : St) : Prop where
  loc : ∀ p, Loc s p (s.pc p)
  keyFresh : ∀ b, s.key = some b → b < s.nextKey

theorem inv1_init : Inv1 init := ⟨fun p => by simp [init, Loc], fun b h => by simp [init] at h⟩

theorem stored_none_iff (s : St) : stored s = none ↔ s.reg = none ∨ s.key = none := by
  unfold stored; cases s.reg <;> cases s.key <;> simp

theorem updB_mono {f : Nat → Bool} {a b : Nat} (h : f b = true) : updB f a true b = true := by
  unfold updB; split <;> simp [h]

/-- a process at a program point that needs the lock holds it -/
def PC.inCS : PC → Bool
  | .reload | .register _ | .savePre _ | .saveReg _ | .saveKey _ _ | .rollback _ _ | .release _
  | .dneCheck _ | .dneDelReg _ | .dneDelKey _ | .dneRel _ => true
  | _ => false

theorem loc_lock {s : St} {p : Nat} {c : PC} (h : Loc s p c) (hc : c.inCS = true) : s.lock = some p := by
  cases c <;> simp [PC.inCS] at hc <;> simp [Loc] at h <;> first | exact h | exact h.1

/-- frame: a step that leaves lock/reg/key/nextKey alone and only raises dneAns keeps every Loc -/
theorem loc_frame {s s' : St} {q : Nat} {c : PC} (h : Loc s q c)
    (hl : s'.lock = s.lock) (hr : s'.reg = s.reg) (hk : s'.key = s.key) (hn : s'.nextKey = s.nextKey)
    (hd : ∀ a, s.dneAns a = true → s'.dneAns a = true) : Loc s' q c := by
  have hst : stored s' = stored s := by simp [stored, hr, hk]
  cases c <;> simp only [Loc, hl, hr, hk, hn, hst] at h ⊢ <;> first | exact h | trivial | skip
  all_goals (first | exact hd _ h | exact ⟨h.1, hd _ h.2⟩ | exact ⟨h.1, hd _ h.2.1, h.2.2⟩)

/-- frame for the others when the mover `p` holds the lock: they cannot be in a critical section -/
theorem loc_other {s s' : St} {p q : Nat} {c : PC} (h : Loc s q c) (hqp : q ≠ p)
    (hp : s.lock = some p) (hd : ∀ a, s.dneAns a = true → s'.dneAns a = true) : Loc s' q c := by
  by_cases hc : c.inCS = true
  · have := loc_lock h hc; rw [hp] at this; simp at this; exact absurd this.symm hqp
  · cases c <;> simp [PC.inCS] at hc <;> simp only [Loc] at h ⊢ <;> first | trivial | exact hd _ h


/-- frame for the others when nobody holds the lock -/
theorem loc_free {s s' : St} {q : Nat} {c : PC} (h : Loc s q c)
    (hp : s.lock = none) (hd : ∀ a, s.dneAns a = true → s'.dneAns a = true) : Loc s' q c := by
  by_cases hc : c.inCS = true
  · have := loc_lock h hc; rw [hp] at this; simp at this
  · cases c <;> simp [PC.inCS] at hc <;> simp only [Loc] at h ⊢ <;> first | trivial | exact hd _ h

set_option hygiene false in
/-- the mover holds no lock and changes nothing shared -/
local macro "mv_plain" : tactic => `(tactic|
  (refine ⟨fun q => ?_, hkf⟩
   by_cases hqp : q = p
   · subst hqp; simp [Loc]
   · simp only [upd_other _ _ hqp]; exact loc_frame (hloc q) rfl rfl rfl rfl (fun _ h => h)))

set_option hygiene false in
/-- the others, when the mover `p` holds the lock (`hlk`) -/
local macro "oth" : tactic => `(tactic|
  (simp only [upd_other _ _ hqp]; exact loc_other (hloc q) hqp hlk (fun _ h => h)))

theorem inv1_step {s : St} {e : Ev} {s' : St} (hi : Inv1 s) (h : step s e = some s') : Inv1 s' := by
  obtain ⟨hloc, hkf⟩ := hi
  cases e with
  | start p =>
    simp only [step] at h; split at h <;> simp at h; subst h
    mv_plain
  | loadReg p flt =>
    simp only [step] at h
    split at h <;> try simp at h
    split at h
    · simp at h; subst h; mv_plain
    · split at h <;> simp at h <;> subst h <;> mv_plain
  | loadKey p flt =>
    simp only [step] at h
    split at h <;> try simp at h
    split at h
    · simp at h; subst h; mv_plain
    · split at h <;> simp at h <;> subst h <;> mv_plain
  | acq p ok =>
    simp only [step] at h
    split at h <;> try simp at h
    split at h
    · split at h <;> simp at h; subst h
      rename_i hn
      refine ⟨fun q => ?_, hkf⟩
      by_cases hqp : q = p
      · subst hqp; simp [Loc]
      · simp only [upd_other _ _ hqp]; exact loc_free (hloc q) hn (fun _ h => h)
    · simp at h; subst h; mv_plain
  | reload p flt k =>
    simp only [step] at h
    split at h <;> try simp at h
    rename_i hc
    have hlk : s.lock = some p := by have := hloc p; rw [hc] at this; exact this
    split at h
    · simp at h; subst h
      refine ⟨fun q => ?_, hkf⟩
      by_cases hqp : q = p
      · subst hqp; simp [Loc, hlk]
      · oth
    · split at h
      · simp at h; subst h
        refine ⟨fun q => ?_, hkf⟩
        by_cases hqp : q = p
        · subst hqp; simp [Loc, hlk]
        · oth
      · rename_i hst
        split at h <;> simp at h; subst h
        rename_i hk
        refine ⟨fun q => ?_, fun b hb => ?_⟩
        · by_cases hqp : q = p
          · subst hqp
            simp only [upd_same, Loc]
            refine ⟨hlk, hst, Nat.lt_succ_self k, fun hb => ?_⟩
            have := hkf k hb; omega
          · oth
        · have := hkf b hb; show b < k + 1; omega
  | register p out =>
    simp only [step] at h
    split at h <;> try (simp at h; done)
    rename_i k hc
    have hl := hloc p; rw [hc] at hl; simp only [Loc] at hl
    obtain ⟨hlk, hst, hkn, hku⟩ := hl
    split at h <;> simp at h <;> subst h
    all_goals
      refine ⟨fun q => ?_, hkf⟩
      by_cases hqp : q = p
      · subst hqp; simp only [upd_same, Loc]; first | exact ⟨hlk, hst, hkn, hku⟩ | exact hlk
      · oth
  | savePre p flt =>
    simp only [step] at h
    split at h <;> try (simp at h; done)
    rename_i k hc
    have hl := hloc p; rw [hc] at hl; simp only [Loc] at hl
    obtain ⟨hlk, hst, hkn, hku⟩ := hl
    split at h <;> simp at h <;> subst h
    all_goals
      refine ⟨fun q => ?_, hkf⟩
      by_cases hqp : q = p
      · subst hqp; simp only [upd_same, Loc]; first | exact ⟨hlk, hst, hkn, hku⟩ | exact hlk
      · oth
  | saveReg p ok =>
    simp only [step] at h
    split at h <;> try (simp at h; done)
    rename_i k hc
    have hl := hloc p; rw [hc] at hl; simp only [Loc] at hl
    obtain ⟨hlk, hst, hkn, hku⟩ := hl
    split at h <;> simp at h <;> subst h
    all_goals
      refine ⟨fun q => ?_, hkf⟩
      by_cases hqp : q = p
      · subst hqp; simp only [upd_same, Loc]; first | exact ⟨hlk, trivial, hkn, hku⟩ | exact hlk
      · oth
  | saveKey p ok =>
    simp only [step] at h
    split at h <;> try (simp at h; done)
    rename_i k prev hc
    have hl := hloc p; rw [hc] at hl; simp only [Loc] at hl
    obtain ⟨hlk, hrg, hkn, hku⟩ := hl
    split at h <;> simp at h <;> subst h
    · refine ⟨fun q => ?_, fun b hb => ?_⟩
      · by_cases hqp : q = p
        · subst hqp; simp only [upd_same, Loc]; exact hlk
        · oth
      · show b < s.nextKey; simp at hb; omega
    · refine ⟨fun q => ?_, hkf⟩
      by_cases hqp : q = p
      · subst hqp; simp only [upd_same, Loc]; exact ⟨hlk, hrg, hkn, hku⟩
      · oth
  | rollback p ok =>
    simp only [step] at h
    split at h <;> try (simp at h; done)
    rename_i k prev hc
    have hl := hloc p; rw [hc] at hl; simp only [Loc] at hl
    obtain ⟨hlk, hrg, hkn, hku⟩ := hl
    split at h <;> simp at h <;> subst h
    all_goals
      refine ⟨fun q => ?_, hkf⟩
      by_cases hqp : q = p
      · subst hqp; simp only [upd_same, Loc]; exact hlk
      · oth
  | rel p ok =>
    simp only [step] at h
    split at h <;> try (simp at h; done)
    rename_i r hc
    have hlk : s.lock = some p := by have := hloc p; rw [hc] at this; exact this
    split at h <;> simp at h <;> subst h
    all_goals
      refine ⟨fun q => ?_, hkf⟩
      by_cases hqp : q = p
      · subst hqp; simp only [upd_same]; cases r with
        | none => simp [Loc]
        | some ab => obtain ⟨a, b⟩ := ab; simp [Loc]
      · oth
  | order p =>
    simp only [step] at h
    split at h <;> try (simp at h; done)
    rename_i a k hc
    split at h
    · simp at h; subst h
      refine ⟨fun q => ?_, hkf⟩
      by_cases hqp : q = p
      · subst hqp; simp [Loc, updB]
      · simp only [upd_other _ _ hqp]; exact loc_frame (hloc q) rfl rfl rfl rfl (fun _ h => updB_mono h)
    · split at h <;> simp at h <;> subst h
      · exact ⟨hloc, hkf⟩
      · mv_plain
  | caForget a =>
    simp only [step] at h; simp at h; subst h
    exact ⟨fun q => loc_frame (hloc q) rfl rfl rfl rfl (fun _ h => h), hkf⟩
  | dneAcq p ok =>
    simp only [step] at h
    split at h <;> try (simp at h; done)
    rename_i a hc
    have hda : s.dneAns a = true := by have := hloc p; rw [hc] at this; exact this
    split at h
    · split at h <;> simp at h; subst h
      rename_i hn
      refine ⟨fun q => ?_, hkf⟩
      by_cases hqp : q = p
      · subst hqp; simp [Loc, hda]
      · simp only [upd_other _ _ hqp]; exact loc_free (hloc q) hn (fun _ h => h)
    · simp at h; subst h; mv_plain
  | dneCheck p flt =>
    simp only [step] at h
    split at h <;> try (simp at h; done)
    rename_i a hc
    have hl := hloc p; rw [hc] at hl; simp only [Loc] at hl
    obtain ⟨hlk, hda⟩ := hl
    split at h
    · simp at h; subst h
      refine ⟨fun q => ?_, hkf⟩
      by_cases hqp : q = p
      · subst hqp; simp only [upd_same, Loc]; exact hlk
      · oth
    · split at h
      · rename_i a' b' hst
        have hra : s.reg = some a' := by
          unfold stored at hst; cases hr : s.reg <;> cases hk : s.key <;> simp [hr, hk] at hst; exact congrArg some hst.1
        split at h <;> simp at h <;> subst h
        · rename_i haa
          refine ⟨fun q => ?_, hkf⟩
          by_cases hqp : q = p
          · subst hqp; simp only [upd_same, Loc]; exact ⟨hlk, hda, Or.inl (haa ▸ hra)⟩
          · oth
        · refine ⟨fun q => ?_, hkf⟩
          by_cases hqp : q = p
          · subst hqp; simp only [upd_same, Loc]; exact hlk
          · oth
      · rename_i hst
        simp at h; subst h
        refine ⟨fun q => ?_, hkf⟩
        by_cases hqp : q = p
        · subst hqp; simp only [upd_same, Loc]; exact ⟨hlk, hda, Or.inr hst⟩
        · oth
  | dneDelReg p ok =>
    simp only [step] at h
    split at h <;> try (simp at h; done)
    rename_i a hc
    have hl := hloc p; rw [hc] at hl; simp only [Loc] at hl
    obtain ⟨hlk, hda, _⟩ := hl
    split at h <;> simp at h <;> subst h
    all_goals
      refine ⟨fun q => ?_, hkf⟩
      by_cases hqp : q = p
      · subst hqp; simp only [upd_same, Loc]; first | exact ⟨hlk, hda, trivial⟩ | exact hlk
      · oth
  | dneDelKey p ok =>
    simp only [step] at h
    split at h <;> try (simp at h; done)
    rename_i a hc
    have hl := hloc p; rw [hc] at hl; simp only [Loc] at hl
    obtain ⟨hlk, hda, _⟩ := hl
    split at h <;> simp at h <;> subst h
    · refine ⟨fun q => ?_, fun b hb => by simp at hb⟩
      by_cases hqp : q = p
      · subst hqp; simp only [upd_same, Loc]; exact hlk
      · oth
    · refine ⟨fun q => ?_, hkf⟩
      by_cases hqp : q = p
      · subst hqp; simp only [upd_same, Loc]; exact hlk
      · oth
  | dneRel p ok =>
    simp only [step] at h
    split at h <;> try (simp at h; done)
    rename_i r hc
    have hlk : s.lock = some p := by have := hloc p; rw [hc] at this; exact this
    split at h <;> simp at h <;> subst h
    all_goals
      refine ⟨fun q => ?_, hkf⟩
      by_cases hqp : q = p
      · subst hqp; simp only [upd_same]; cases r <;> simp [Loc]
      · oth

theorem inv1_reach {s : St} (h : Reach s) : Inv1 s := by
  induction h with
  | init => exact inv1_init
  | step _ hs ih => exact inv1_step ih hs


/-! ### never mixed -/

/-- a recreate is between its two deletions -/
def DelBusy (s : St) : Prop := ∃ p a, s.pc p = .dneDelKey a

def NoMix (s : St) : Prop :=
  s.delKeyFaults = 0 → ∀ b, s.key = some b → s.reg = some b ∨ DelBusy s

theorem delBusy_upd {s : St} {p : Nat} {X : PC} (hp : ∀ a, s.pc p ≠ .dneDelKey a) (h : DelBusy s) :
    ∃ q a, upd s.pc p X q = .dneDelKey a := by
  obtain ⟨q, a, hq⟩ := h
  have hqp : q ≠ p := by intro e; subst e; exact hp a hq
  exact ⟨q, a, by simp only [upd_other _ _ hqp]; exact hq⟩

theorem not_delBusy {s : St} {p : Nat} (h1 : Inv1 s) (hlk : s.lock = some p)
    (hp : ∀ a, s.pc p ≠ .dneDelKey a) : ¬ DelBusy s := by
  rintro ⟨q, a, hq⟩
  have hl := h1.loc q; rw [hq] at hl; simp only [Loc] at hl
  have : q = p := by have := hl.1; rw [hlk] at this; simp at this; exact this.symm
  subst this; exact hp a hq

set_option hygiene false in
/-- reg, key and the fault counter unchanged; the mover was not between the two deletions -/
local macro "nm_plain" : tactic => `(tactic|
  (intro hd b hb
   rcases hn hd b hb with h | h
   · exact Or.inl h
   · exact Or.inr (delBusy_upd (by intro a; rw [hc]; simp) h)))

theorem nomix_step {s : St} {e : Ev} {s' : St} (h1 : Inv1 s) (hn : NoMix s) (h : step s e = some s') :
    NoMix s' := by
  have hloc := h1.loc
  cases e with
  | start p =>
    simp only [step] at h; split at h <;> simp at h; subst h
    rename_i hc
    intro hd b hb
    rcases hn hd b hb with h | h
    · exact Or.inl h
    · exact Or.inr (delBusy_upd (by intro a e; rw [e] at hc; simp [PC.canStart] at hc) h)
  | loadReg p flt =>
    simp only [step] at h
    split at h <;> try (simp at h; done)
    rename_i hc
    split at h
    · simp at h; subst h; nm_plain
    · split at h <;> simp at h <;> subst h <;> nm_plain
  | loadKey p flt =>
    simp only [step] at h
    split at h <;> try (simp at h; done)
    rename_i a hc
    split at h
    · simp at h; subst h; nm_plain
    · split at h <;> simp at h <;> subst h <;> nm_plain
  | acq p ok =>
    simp only [step] at h
    split at h <;> try (simp at h; done)
    rename_i hc
    split at h
    · split at h <;> simp at h; subst h; nm_plain
    · simp at h; subst h; nm_plain
  | reload p flt k =>
    simp only [step] at h
    split at h <;> try (simp at h; done)
    rename_i hc
    split at h
    · simp at h; subst h; nm_plain
    · split at h
      · simp at h; subst h; nm_plain
      · split at h <;> simp at h; subst h; nm_plain
  | register p out =>
    simp only [step] at h
    split at h <;> try (simp at h; done)
    rename_i k hc
    split at h <;> simp at h <;> subst h <;> nm_plain
  | savePre p flt =>
    simp only [step] at h
    split at h <;> try (simp at h; done)
    rename_i k hc
    split at h <;> simp at h <;> subst h <;> nm_plain
  | saveReg p ok =>
    simp only [step] at h
    split at h <;> try (simp at h; done)
    rename_i k hc
    have hl := hloc p; rw [hc] at hl; simp only [Loc] at hl
    obtain ⟨hlk, hst, hkn, hku⟩ := hl
    split at h <;> simp at h <;> subst h
    · intro hd b hb
      exfalso
      have hb' : s.key = some b := hb
      rcases hn hd b hb' with h | h
      · simp [stored, h, hb'] at hst
      · exact not_delBusy h1 hlk (by intro a; rw [hc]; simp) h
    · nm_plain
  | saveKey p ok =>
    simp only [step] at h
    split at h <;> try (simp at h; done)
    rename_i k prev hc
    have hl := hloc p; rw [hc] at hl; simp only [Loc] at hl
    obtain ⟨hlk, hrg, hkn, hku⟩ := hl
    split at h <;> simp at h <;> subst h
    · intro hd b hb
      simp at hb; subst hb; exact Or.inl hrg
    · nm_plain
  | rollback p ok =>
    simp only [step] at h
    split at h <;> try (simp at h; done)
    rename_i k prev hc
    have hl := hloc p; rw [hc] at hl; simp only [Loc] at hl
    obtain ⟨hlk, hrg, hkn, hku⟩ := hl
    split at h <;> simp at h <;> subst h
    · intro hd b hb
      exfalso
      have hb' : s.key = some b := hb
      rcases hn hd b hb' with h | h
      · rw [hrg] at h; simp at h; subst h; exact hku hb'
      · exact not_delBusy h1 hlk (by intro a; rw [hc]; simp) h
    · nm_plain
  | rel p ok =>
    simp only [step] at h
    split at h <;> try (simp at h; done)
    rename_i r hc
    split at h <;> simp at h <;> subst h <;> nm_plain
  | order p =>
    simp only [step] at h
    split at h <;> try (simp at h; done)
    rename_i a k hc
    split at h
    · simp at h; subst h; nm_plain
    · split at h <;> simp at h <;> subst h
      · exact hn
      · nm_plain
  | caForget a =>
    simp only [step] at h; simp at h; subst h; exact hn
  | dneAcq p ok =>
    simp only [step] at h
    split at h <;> try (simp at h; done)
    rename_i a hc
    split at h
    · split at h <;> simp at h; subst h; nm_plain
    · simp at h; subst h; nm_plain
  | dneCheck p flt =>
    simp only [step] at h
    split at h <;> try (simp at h; done)
    rename_i a hc
    split at h
    · simp at h; subst h; nm_plain
    · split at h
      · split at h <;> simp at h <;> subst h <;> nm_plain
      · simp at h; subst h; nm_plain
  | dneDelReg p ok =>
    simp only [step] at h
    split at h <;> try (simp at h; done)
    rename_i a hc
    split at h <;> simp at h <;> subst h
    · intro hd b hb
      exact Or.inr ⟨p, a, by simp⟩
    · nm_plain
  | dneDelKey p ok =>
    simp only [step] at h
    split at h <;> try (simp at h; done)
    rename_i a hc
    split at h <;> simp at h <;> subst h
    · intro hd b hb; simp at hb
    · intro hd; simp at hd
  | dneRel p ok =>
    simp only [step] at h
    split at h <;> try (simp at h; done)
    rename_i r hc
    split at h <;> simp at h <;> subst h <;> nm_plain

theorem nomix_reach {s : St} (h : Reach s) : NoMix s := by
  induction h with
  | init => intro _ b hb; simp [init] at hb
  | step hr hs ih => exact nomix_step (inv1_reach hr) ih hs


/-! ### while the CA forgets nothing, every account in storage or in memory is known to it -/

def Loc2 (s : St) : PC → Prop
  | .loadKey a => s.ca a = true
  | .savePre k => s.ca k = true
  | .saveReg k => s.ca k = true
  | .saveKey k prev => s.ca k = true ∧ ∀ x, prev = some x → s.ca x = true
  | .rollback k prev => s.ca k = true ∧ ∀ x, prev = some x → s.ca x = true
  | .release (some ab) => s.ca ab.1 = true
  | .ready a _ => s.ca a = true
  | .dneLock _ | .dneCheck _ | .dneDelReg _ | .dneDelKey _ | .dneRel _ => False
  | _ => True

def Known (s : St) : Prop :=
  s.forgets = 0 → (∀ p, Loc2 s (s.pc p)) ∧ ∀ a, s.reg = some a → s.ca a = true

theorem loc2_mono {s s' : St} {c : PC} (hca : ∀ a, s.ca a = true → s'.ca a = true) (h : Loc2 s c) :
    Loc2 s' c := by
  cases c <;> simp only [Loc2] at h ⊢ <;> first | trivial | exact hca _ h | skip
  · exact ⟨hca _ h.1, fun x hx => hca _ (h.2 x hx)⟩
  · exact ⟨hca _ h.1, fun x hx => hca _ (h.2 x hx)⟩
  · rename_i r; cases r with
    | none => trivial
    | some ab => exact hca _ h

theorem updB_true_mono (f : Nat → Bool) (k : Nat) : ∀ a, f a = true → updB f k true a = true :=
  fun _ h => updB_mono h

set_option hygiene false in
/-- ca, reg unchanged; the new program point needs nothing (or what `by simp [Loc2, *]` finds) -/
local macro "kn_plain" : tactic => `(tactic|
  (intro hf
   obtain ⟨hl2, hrg⟩ := hk hf
   refine ⟨fun q => ?_, hrg⟩
   by_cases hqp : q = p
   · subst hqp; simp [Loc2, *]
   · simp only [upd_other _ _ hqp]; exact hl2 q))

set_option hygiene false in
/-- the mover is in the recreate path: impossible while the CA has forgotten nothing -/
local macro "kn_dne" : tactic => `(tactic|
  (intro hf
   have hf' : s.forgets = 0 := hf
   have := (hk hf').1 p; rw [hc] at this; simp [Loc2] at this))

theorem known_step {s : St} {e : Ev} {s' : St} (hk : Known s) (h : step s e = some s') : Known s' := by
  cases e with
  | start p =>
    simp only [step] at h; split at h <;> simp at h; subst h; kn_plain
  | loadReg p flt =>
    simp only [step] at h
    split at h <;> try (simp at h; done)
    split at h
    · simp at h; subst h; kn_plain
    · split at h <;> simp at h <;> subst h
      · rename_i a hra
        intro hf
        obtain ⟨hl2, hrg⟩ := hk hf
        refine ⟨fun q => ?_, hrg⟩
        by_cases hqp : q = p
        · subst hqp; simp only [upd_same, Loc2]; exact hrg a hra
        · simp only [upd_other _ _ hqp]; exact hl2 q
      · kn_plain
  | loadKey p flt =>
    simp only [step] at h
    split at h <;> try (simp at h; done)
    rename_i a hc
    split at h
    · simp at h; subst h; kn_plain
    · split at h <;> simp at h <;> subst h
      · intro hf
        obtain ⟨hl2, hrg⟩ := hk hf
        have hp := hl2 p; rw [hc] at hp
        refine ⟨fun q => ?_, hrg⟩
        by_cases hqp : q = p
        · subst hqp; simp only [upd_same, Loc2]; exact hp
        · simp only [upd_other _ _ hqp]; exact hl2 q
      · kn_plain
  | acq p ok =>
    simp only [step] at h
    split at h <;> try (simp at h; done)
    split at h
    · split at h <;> simp at h; subst h; kn_plain
    · simp at h; subst h; kn_plain
  | reload p flt k =>
    simp only [step] at h
    split at h <;> try (simp at h; done)
    split at h
    · simp at h; subst h; kn_plain
    · split at h
      · rename_i ab hst
        simp at h; subst h
        intro hf
        obtain ⟨hl2, hrg⟩ := hk hf
        refine ⟨fun q => ?_, hrg⟩
        by_cases hqp : q = p
        · subst hqp; simp only [upd_same, Loc2]
          apply hrg
          unfold stored at hst; cases hr : s.reg <;> cases hk' : s.key <;> simp [hr, hk'] at hst
          rw [← hst]
        · simp only [upd_other _ _ hqp]; exact hl2 q
      · split at h <;> simp at h; subst h; kn_plain
  | register p out =>
    simp only [step] at h
    split at h <;> try (simp at h; done)
    rename_i k hc
    split at h <;> simp at h <;> subst h
    · intro hf
      obtain ⟨hl2, hrg⟩ := hk hf
      refine ⟨fun q => ?_, fun a ha => updB_mono (hrg a ha)⟩
      by_cases hqp : q = p
      · subst hqp; simp [Loc2, updB]
      · simp only [upd_other _ _ hqp]; exact loc2_mono (updB_true_mono _ _) (hl2 q)
    · kn_plain
    · intro hf
      obtain ⟨hl2, hrg⟩ := hk hf
      refine ⟨fun q => ?_, fun a ha => updB_mono (hrg a ha)⟩
      by_cases hqp : q = p
      · subst hqp; simp [Loc2]
      · simp only [upd_other _ _ hqp]; exact loc2_mono (updB_true_mono _ _) (hl2 q)
  | savePre p flt =>
    simp only [step] at h
    split at h <;> try (simp at h; done)
    rename_i k hc
    split at h <;> simp at h <;> subst h
    · kn_plain
    · intro hf
      obtain ⟨hl2, hrg⟩ := hk hf
      have hp := hl2 p; rw [hc] at hp
      refine ⟨fun q => ?_, hrg⟩
      by_cases hqp : q = p
      · subst hqp; simp only [upd_same, Loc2]; exact hp
      · simp only [upd_other _ _ hqp]; exact hl2 q
  | saveReg p ok =>
    simp only [step] at h
    split at h <;> try (simp at h; done)
    rename_i k hc
    split at h <;> simp at h <;> subst h
    · intro hf
      obtain ⟨hl2, hrg⟩ := hk hf
      have hp := hl2 p; rw [hc] at hp; simp only [Loc2] at hp
      refine ⟨fun q => ?_, fun a ha => ?_⟩
      · by_cases hqp : q = p
        · subst hqp; simp only [upd_same, Loc2]; exact ⟨hp, hrg⟩
        · simp only [upd_other _ _ hqp]; exact hl2 q
      · simp at ha; subst ha; exact hp
    · kn_plain
  | saveKey p ok =>
    simp only [step] at h
    split at h <;> try (simp at h; done)
    rename_i k prev hc
    split at h <;> simp at h <;> subst h
    all_goals
      intro hf
      obtain ⟨hl2, hrg⟩ := hk hf
      have hp := hl2 p; rw [hc] at hp; simp only [Loc2] at hp
      refine ⟨fun q => ?_, hrg⟩
      by_cases hqp : q = p
      · subst hqp; simp only [upd_same, Loc2]; first | exact hp.1 | exact hp
      · simp only [upd_other _ _ hqp]; exact hl2 q
  | rollback p ok =>
    simp only [step] at h
    split at h <;> try (simp at h; done)
    rename_i k prev hc
    split at h <;> simp at h <;> subst h
    · intro hf
      obtain ⟨hl2, hrg⟩ := hk hf
      have hp := hl2 p; rw [hc] at hp; simp only [Loc2] at hp
      refine ⟨fun q => ?_, fun a ha => hp.2 a ha⟩
      by_cases hqp : q = p
      · subst hqp; simp [Loc2]
      · simp only [upd_other _ _ hqp]; exact hl2 q
    · kn_plain
  | rel p ok =>
    simp only [step] at h
    split at h <;> try (simp at h; done)
    rename_i r hc
    split at h <;> simp at h <;> subst h
    all_goals
      intro hf
      obtain ⟨hl2, hrg⟩ := hk hf
      have hp := hl2 p; rw [hc] at hp
      refine ⟨fun q => ?_, hrg⟩
      by_cases hqp : q = p
      · subst hqp; simp only [upd_same]
        cases r with
        | none => simp [Loc2]
        | some ab => obtain ⟨a, b⟩ := ab; simp only [Loc2] at hp ⊢; exact hp
      · simp only [upd_other _ _ hqp]; exact hl2 q
  | order p =>
    simp only [step] at h
    split at h <;> try (simp at h; done)
    rename_i a k hc
    split at h
    · rename_i hca
      simp at h; subst h
      intro hf
      have hf' : s.forgets = 0 := hf
      have := (hk hf').1 p; rw [hc] at this; simp only [Loc2] at this
      rw [this] at hca; simp at hca
    · split at h <;> simp at h <;> subst h
      · exact hk
      · kn_plain
  | caForget a =>
    simp only [step] at h; simp at h; subst h
    intro hf; simp at hf
  | dneAcq p ok =>
    simp only [step] at h
    split at h <;> try (simp at h; done)
    rename_i a hc
    split at h
    · split at h <;> simp at h; subst h; kn_dne
    · simp at h; subst h; kn_dne
  | dneCheck p flt =>
    simp only [step] at h
    split at h <;> try (simp at h; done)
    rename_i a hc
    split at h
    · simp at h; subst h; kn_dne
    · split at h
      · split at h <;> simp at h <;> subst h <;> kn_dne
      · simp at h; subst h; kn_dne
  | dneDelReg p ok =>
    simp only [step] at h
    split at h <;> try (simp at h; done)
    rename_i a hc
    split at h <;> simp at h <;> subst h <;> kn_dne
  | dneDelKey p ok =>
    simp only [step] at h
    split at h <;> try (simp at h; done)
    rename_i a hc
    split at h <;> simp at h <;> subst h <;> kn_dne
  | dneRel p ok =>
    simp only [step] at h
    split at h <;> try (simp at h; done)
    rename_i r hc
    split at h <;> simp at h <;> subst h <;> kn_dne

theorem known_reach {s : St} (h : Reach s) : Known s := by
  induction h with
  | init => intro _; exact ⟨fun p => by simp [init, Loc2], fun a ha => by simp [init] at ha⟩
  | step _ hs ih => exact known_step ih hs


/-! ### at most one registration while nothing fails and the CA forgets nothing -/

def PC.isSaving : PC → Bool
  | .savePre _ | .saveReg _ | .saveKey _ _ => true
  | _ => false

def Once (s : St) : Prop :=
  s.faults = 0 → s.forgets = 0 →
    (∀ p k prev, s.pc p ≠ .rollback k prev) ∧ s.registers ≤ 1 ∧
    (s.registers = 1 → (stored s).isSome = true ∨ ∃ p, (s.pc p).isSaving = true)

set_option hygiene false in
local macro "on_plain" : tactic => `(tactic|
  (intro hf hg
   obtain ⟨hrb, hle, hw⟩ := ho hf hg
   refine ⟨fun q k prev => ?_, hle, fun h1r => ?_⟩
   · by_cases hqp : q = p
     · subst hqp; simp
     · simp only [upd_other _ _ hqp]; exact hrb q k prev
   · rcases hw h1r with h | ⟨q, hq⟩
     · exact Or.inl h
     · refine Or.inr ⟨q, ?_⟩
       have hqp : q ≠ p := by intro e; subst e; rw [hc] at hq; simp [PC.isSaving] at hq
       simp only [upd_other _ _ hqp]; exact hq))

set_option hygiene false in
local macro "on_fault" : tactic => `(tactic| (intro hf; simp at hf))

set_option hygiene false in
local macro "on_dne" : tactic => `(tactic|
  (intro hf hg
   have hg' : s.forgets = 0 := hg
   have := (hk hg').1 p; rw [hc] at this; simp [Loc2] at this))

theorem once_step {s : St} {e : Ev} {s' : St} (h1 : Inv1 s) (hk : Known s) (ho : Once s)
    (h : step s e = some s') : Once s' := by
  have hloc := h1.loc
  cases e with
  | start p =>
    simp only [step] at h; split at h <;> simp at h; subst h
    rename_i hcs
    intro hf hg
    obtain ⟨hrb, hle, hw⟩ := ho hf hg
    refine ⟨fun q k prev => ?_, hle, fun h1r => ?_⟩
    · by_cases hqp : q = p
      · subst hqp; simp
      · simp only [upd_other _ _ hqp]; exact hrb q k prev
    · rcases hw h1r with h | ⟨q, hq⟩
      · exact Or.inl h
      · refine Or.inr ⟨q, ?_⟩
        have hqp : q ≠ p := by
          intro e; subst e; revert hcs hq; cases s.pc q <;> simp [PC.isSaving, PC.canStart]
        simp only [upd_other _ _ hqp]; exact hq
  | loadReg p flt =>
    simp only [step] at h
    split at h <;> try (simp at h; done)
    rename_i hc
    split at h
    · simp at h; subst h; on_fault
    · split at h <;> simp at h <;> subst h <;> on_plain
  | loadKey p flt =>
    simp only [step] at h
    split at h <;> try (simp at h; done)
    rename_i a hc
    split at h
    · simp at h; subst h; on_fault
    · split at h <;> simp at h <;> subst h <;> on_plain
  | acq p ok =>
    simp only [step] at h
    split at h <;> try (simp at h; done)
    rename_i hc
    split at h
    · split at h <;> simp at h; subst h; on_plain
    · simp at h; subst h; on_fault
  | reload p flt k =>
    simp only [step] at h
    split at h <;> try (simp at h; done)
    rename_i hc
    split at h
    · simp at h; subst h; on_fault
    · split at h
      · simp at h; subst h; on_plain
      · split at h <;> simp at h; subst h; on_plain
  | register p out =>
    simp only [step] at h
    split at h <;> try (simp at h; done)
    rename_i k hc
    have hl := hloc p; rw [hc] at hl; simp only [Loc] at hl
    obtain ⟨hlk, hst, hkn, hku⟩ := hl
    split at h <;> simp at h <;> subst h
    · intro hf hg
      obtain ⟨hrb, hle, hw⟩ := ho hf hg
      have h0 : s.registers = 0 := by
        rcases Nat.lt_or_ge s.registers 1 with hlt | hge
        · omega
        · exfalso
          have h1r : s.registers = 1 := by omega
          rcases hw h1r with h | ⟨q, hq⟩
          · rw [hst] at h; simp at h
          · have hq' : (s.pc q).inCS = true := by
              revert hq; cases s.pc q <;> simp [PC.isSaving, PC.inCS]
            have := loc_lock (hloc q) hq'; rw [hlk] at this; simp at this; subst this
            rw [hc] at hq; simp [PC.isSaving] at hq
      refine ⟨fun q k' prev => ?_, by show s.registers + 1 ≤ 1; omega, fun _ => Or.inr ⟨p, by simp [PC.isSaving]⟩⟩
      by_cases hqp : q = p
      · subst hqp; simp
      · simp only [upd_other _ _ hqp]; exact hrb q k' prev
    · on_plain
    · on_fault
  | savePre p flt =>
    simp only [step] at h
    split at h <;> try (simp at h; done)
    rename_i k hc
    split at h <;> simp at h <;> subst h
    · on_fault
    · intro hf hg
      obtain ⟨hrb, hle, hw⟩ := ho hf hg
      refine ⟨fun q k' prev => ?_, hle, fun _ => Or.inr ⟨p, by simp [PC.isSaving]⟩⟩
      by_cases hqp : q = p
      · subst hqp; simp
      · simp only [upd_other _ _ hqp]; exact hrb q k' prev
  | saveReg p ok =>
    simp only [step] at h
    split at h <;> try (simp at h; done)
    rename_i k hc
    split at h <;> simp at h <;> subst h
    · intro hf hg
      obtain ⟨hrb, hle, hw⟩ := ho hf hg
      refine ⟨fun q k' prev => ?_, hle, fun _ => Or.inr ⟨p, by simp [PC.isSaving]⟩⟩
      by_cases hqp : q = p
      · subst hqp; simp
      · simp only [upd_other _ _ hqp]; exact hrb q k' prev
    · on_fault
  | saveKey p ok =>
    simp only [step] at h
    split at h <;> try (simp at h; done)
    rename_i k prev hc
    have hl := hloc p; rw [hc] at hl; simp only [Loc] at hl
    obtain ⟨hlk, hrg, hkn, hku⟩ := hl
    split at h <;> simp at h <;> subst h
    · intro hf hg
      obtain ⟨hrb, hle, hw⟩ := ho hf hg
      refine ⟨fun q k' prev => ?_, hle, fun _ => Or.inl (by simp [stored, hrg])⟩
      by_cases hqp : q = p
      · subst hqp; simp
      · simp only [upd_other _ _ hqp]; exact hrb q k' prev
    · on_fault
  | rollback p ok =>
    simp only [step] at h
    split at h <;> try (simp at h; done)
    rename_i k prev hc
    split at h <;> simp at h <;> subst h
    · intro hf hg
      exact absurd hc ((ho hf hg).1 p k prev)
    · on_fault
  | rel p ok =>
    simp only [step] at h
    split at h <;> try (simp at h; done)
    rename_i r hc
    split at h <;> simp at h <;> subst h
    · intro hf hg
      obtain ⟨hrb, hle, hw⟩ := ho hf hg
      refine ⟨fun q k prev => ?_, hle, fun h1r => ?_⟩
      · by_cases hqp : q = p
        · subst hqp; simp only [upd_same]; cases r with
          | none => simp
          | some ab => obtain ⟨a, b⟩ := ab; simp
        · simp only [upd_other _ _ hqp]; exact hrb q k prev
      · rcases hw h1r with h | ⟨q, hq⟩
        · exact Or.inl h
        · refine Or.inr ⟨q, ?_⟩
          have hqp : q ≠ p := by intro e; subst e; rw [hc] at hq; simp [PC.isSaving] at hq
          simp only [upd_other _ _ hqp]; exact hq
    · on_fault
  | order p =>
    simp only [step] at h
    split at h <;> try (simp at h; done)
    rename_i a k hc
    split at h
    · simp at h; subst h; on_plain
    · split at h <;> simp at h <;> subst h
      · exact ho
      · on_plain
  | caForget a =>
    simp only [step] at h; simp at h; subst h
    intro _ hg; simp at hg
  | dneAcq p ok =>
    simp only [step] at h
    split at h <;> try (simp at h; done)
    rename_i a hc
    split at h
    · split at h <;> simp at h; subst h; on_dne
    · simp at h; subst h; on_fault
  | dneCheck p flt =>
    simp only [step] at h
    split at h <;> try (simp at h; done)
    rename_i a hc
    split at h
    · simp at h; subst h; on_fault
    · split at h
      · split at h <;> simp at h <;> subst h <;> on_dne
      · simp at h; subst h; on_dne
  | dneDelReg p ok =>
    simp only [step] at h
    split at h <;> try (simp at h; done)
    rename_i a hc
    split at h <;> simp at h <;> subst h
    · on_dne
    · on_fault
  | dneDelKey p ok =>
    simp only [step] at h
    split at h <;> try (simp at h; done)
    rename_i a hc
    split at h <;> simp at h <;> subst h
    · on_dne
    · on_fault
  | dneRel p ok =>
    simp only [step] at h
    split at h <;> try (simp at h; done)
    rename_i r hc
    split at h <;> simp at h <;> subst h
    · on_dne
    · on_fault

theorem once_reach {s : St} (h : Reach s) : Once s := by
  induction h with
  | init => intro _ _; exact ⟨fun p k prev => by simp [init], by simp [init], fun h => by simp [init] at h⟩
  | step hr hs ih => exact once_step (inv1_reach hr) (known_reach hr) ih hs


/-! ### without faults and forgetting, every account in memory is the stored one -/

def Loc3 (s : St) : PC → Prop
  | .loadKey a => s.reg = some a
  | .ready a b => a = b ∧ s.reg = some a ∧ s.key = some a
  | .release (some ab) => ab.1 = ab.2 ∧ s.reg = some ab.1 ∧ s.key = some ab.1
  | _ => True

def Stable (s : St) : Prop :=
  s.faults = 0 → s.forgets = 0 →
    (∀ p, Loc3 s (s.pc p)) ∧ (∀ a, s.reg = some a → s.key = some a ∨ ∃ q prev, s.pc q = .saveKey a prev)

/-- under the hypotheses, a key file implies the registration file of the same account -/
theorem key_reg {s : St} (_h1 : Inv1 s) (hn : NoMix s) (hk : Known s) (hg : s.forgets = 0) (hd : s.delKeyFaults = 0)
    {b : Nat} (hb : s.key = some b) : s.reg = some b := by
  rcases hn hd b hb with h | ⟨p, a, hp⟩
  · exact h
  · have := (hk hg).1 p; rw [hp] at this; simp [Loc2] at this

theorem loc3_frame {s s' : St} {c : PC} (hr : s'.reg = s.reg) (hk : s'.key = s.key) (h : Loc3 s c) : Loc3 s' c := by
  cases c <;> simp only [Loc3, hr, hk] at h ⊢ <;> first | exact h | trivial

theorem loc3_of_reg_none {s s' : St} {c : PC} (hrn : s.reg = none) (h : Loc3 s c) : Loc3 s' c := by
  cases c with
  | loadKey a => simp only [Loc3, hrn] at h; simp at h
  | ready a b => simp only [Loc3, hrn] at h; simp at h
  | release r =>
    cases r with
    | none => trivial
    | some ab => simp only [Loc3, hrn] at h; simp at h
  | _ => trivial

theorem loc3_key_set {s s' : St} {c : PC} {k : Nat} (hr : s'.reg = s.reg) (hk : s'.key = some k)
    (hrg : s.reg = some k) (h : Loc3 s c) : Loc3 s' c := by
  cases c with
  | loadKey a => simp only [Loc3, hr] at h ⊢; exact h
  | ready a b =>
    simp only [Loc3, hr, hk] at h ⊢
    refine ⟨h.1, h.2.1, ?_⟩
    have := h.2.1; rw [hrg] at this; exact this
  | release r =>
    cases r with
    | none => trivial
    | some ab =>
      simp only [Loc3, hr, hk] at h ⊢
      refine ⟨h.1, h.2.1, ?_⟩
      have := h.2.1; rw [hrg] at this; exact this
  | _ => trivial

set_option hygiene false in
/-- reg and key unchanged, the mover's new program point needs nothing, it was not storing the key -/
local macro "st_plain" : tactic => `(tactic|
  (intro hf hg
   obtain ⟨hl3, hrk⟩ := hs hf hg
   refine ⟨fun q => ?_, fun a ha => ?_⟩
   · by_cases hqp : q = p
     · subst hqp; simp [Loc3]
     · simp only [upd_other _ _ hqp]; exact loc3_frame rfl rfl (hl3 q)
   · rcases hrk a ha with h | ⟨q, prev, hq⟩
     · exact Or.inl h
     · refine Or.inr ⟨q, prev, ?_⟩
       have hqp : q ≠ p := by intro e; subst e; rw [hc] at hq; simp at hq
       simp only [upd_other _ _ hqp]; exact hq))

set_option hygiene false in
local macro "st_fault" : tactic => `(tactic| (intro hf; simp at hf))

set_option hygiene false in
local macro "st_dne" : tactic => `(tactic|
  (intro hf hg
   have hg' : s.forgets = 0 := hg
   have := (hk hg').1 p; rw [hc] at this; simp [Loc2] at this))

theorem dkf_step {s : St} {e : Ev} {s' : St} (h : step s e = some s') (hi : s.delKeyFaults ≤ s.faults) :
    s'.delKeyFaults ≤ s'.faults := by
  cases e <;> simp only [step] at h <;> (repeat' split at h) <;> simp at h <;> subst h <;> (try dsimp only) <;> omega

theorem delKeyFaults_le_faults {s : St} (h : Reach s) : s.delKeyFaults ≤ s.faults := by
  induction h with
  | init => simp [init]
  | step _ hs ih => exact dkf_step hs ih

theorem stable_step {s : St} {e : Ev} {s' : St} (h1 : Inv1 s) (hn : NoMix s) (hk : Known s) (ho : Once s)
    (hdf : s.delKeyFaults ≤ s.faults) (hs : Stable s) (h : step s e = some s') : Stable s' := by
  have hloc := h1.loc
  cases e with
  | start p =>
    simp only [step] at h; split at h <;> simp at h; subst h
    rename_i hcs
    intro hf hg
    obtain ⟨hl3, hrk⟩ := hs hf hg
    refine ⟨fun q => ?_, fun a ha => ?_⟩
    · by_cases hqp : q = p
      · subst hqp; simp [Loc3]
      · simp only [upd_other _ _ hqp]; exact loc3_frame rfl rfl (hl3 q)
    · rcases hrk a ha with h | ⟨q, prev, hq⟩
      · exact Or.inl h
      · refine Or.inr ⟨q, prev, ?_⟩
        have hqp : q ≠ p := by intro e; subst e; rw [hq] at hcs; simp [PC.canStart] at hcs
        simp only [upd_other _ _ hqp]; exact hq
  | loadReg p flt =>
    simp only [step] at h
    split at h <;> try (simp at h; done)
    rename_i hc
    split at h
    · simp at h; subst h; st_fault
    · split at h <;> simp at h <;> subst h
      · rename_i a hra
        intro hf hg
        obtain ⟨hl3, hrk⟩ := hs hf hg
        refine ⟨fun q => ?_, fun a ha => ?_⟩
        · by_cases hqp : q = p
          · subst hqp; simp only [upd_same, Loc3]; exact hra
          · simp only [upd_other _ _ hqp]; exact loc3_frame rfl rfl (hl3 q)
        · rcases hrk a ha with h | ⟨q, prev, hq⟩
          · exact Or.inl h
          · refine Or.inr ⟨q, prev, ?_⟩
            have hqp : q ≠ p := by intro e; subst e; rw [hc] at hq; simp at hq
            simp only [upd_other _ _ hqp]; exact hq
      · st_plain
  | loadKey p flt =>
    simp only [step] at h
    split at h <;> try (simp at h; done)
    rename_i a hc
    split at h
    · simp at h; subst h; st_fault
    · split at h <;> simp at h <;> subst h
      · rename_i b hkb
        intro hf hg
        have hf' : s.faults = 0 := hf
        obtain ⟨hl3, hrk⟩ := hs hf hg
        have hra : s.reg = some a := by have := hl3 p; rw [hc] at this; exact this
        have hrb := key_reg h1 hn hk hg (by omega) hkb
        have hab : a = b := by rw [hra] at hrb; simpa using hrb
        refine ⟨fun q => ?_, fun a ha => ?_⟩
        · by_cases hqp : q = p
          · subst hqp; simp only [upd_same, Loc3]; subst hab; exact ⟨rfl, hra, hkb⟩
          · simp only [upd_other _ _ hqp]; exact loc3_frame rfl rfl (hl3 q)
        · rcases hrk a ha with h | ⟨q, prev, hq⟩
          · exact Or.inl h
          · refine Or.inr ⟨q, prev, ?_⟩
            have hqp : q ≠ p := by intro e; subst e; rw [hc] at hq; simp at hq
            simp only [upd_other _ _ hqp]; exact hq
      · st_plain
  | acq p ok =>
    simp only [step] at h
    split at h <;> try (simp at h; done)
    rename_i hc
    split at h
    · split at h <;> simp at h; subst h; st_plain
    · simp at h; subst h; st_fault
  | reload p flt k =>
    simp only [step] at h
    split at h <;> try (simp at h; done)
    rename_i hc
    split at h
    · simp at h; subst h; st_fault
    · split at h
      · rename_i ab hst
        simp at h; subst h
        intro hf hg
        have hf' : s.faults = 0 := hf
        obtain ⟨hl3, hrk⟩ := hs hf hg
        obtain ⟨a, b⟩ := ab
        have hrk' : s.reg = some a ∧ s.key = some b := by
          unfold stored at hst; cases hr : s.reg <;> cases hk' : s.key <;> simp [hr, hk'] at hst
          exact ⟨by rw [hst.1], by rw [hst.2]⟩
        have hrb := key_reg h1 hn hk hg (by omega) hrk'.2
        have hab : a = b := by rw [hrk'.1] at hrb; simpa using hrb
        refine ⟨fun q => ?_, fun a ha => ?_⟩
        · by_cases hqp : q = p
          · subst hqp; simp only [upd_same, Loc3]; subst hab; exact ⟨rfl, hrk'.1, hrk'.2⟩
          · simp only [upd_other _ _ hqp]; exact loc3_frame rfl rfl (hl3 q)
        · rcases hrk a ha with h | ⟨q, prev, hq⟩
          · exact Or.inl h
          · refine Or.inr ⟨q, prev, ?_⟩
            have hqp : q ≠ p := by intro e; subst e; rw [hc] at hq; simp at hq
            simp only [upd_other _ _ hqp]; exact hq
      · split at h <;> simp at h; subst h; st_plain
  | register p out =>
    simp only [step] at h
    split at h <;> try (simp at h; done)
    rename_i k hc
    split at h <;> simp at h <;> subst h
    · st_plain
    · st_plain
    · st_fault
  | savePre p flt =>
    simp only [step] at h
    split at h <;> try (simp at h; done)
    rename_i k hc
    split at h <;> simp at h <;> subst h
    · st_fault
    · st_plain
  | saveReg p ok =>
    simp only [step] at h
    split at h <;> try (simp at h; done)
    rename_i k hc
    have hl := hloc p; rw [hc] at hl; simp only [Loc] at hl
    obtain ⟨hlk, hst, hkn, hku⟩ := hl
    split at h <;> simp at h <;> subst h
    · intro hf hg
      have hf' : s.faults = 0 := hf
      obtain ⟨hl3, hrk⟩ := hs hf hg
      -- nothing was in the registration file: otherwise its key would be there or on its way
      have hrn : s.reg = none := by
        cases hr : s.reg with
        | none => rfl
        | some a =>
          exfalso
          rcases hrk a hr with h | ⟨q, prev, hq⟩
          · simp [stored, hr, h] at hst
          · have hq' := hloc q; rw [hq] at hq'; simp only [Loc] at hq'
            have : q = p := by have := hq'.1; rw [hlk] at this; simp at this; exact this.symm
            subst this; rw [hc] at hq; simp at hq
      have hkn' : s.key = none := by
        cases hk' : s.key with
        | none => rfl
        | some b => have := key_reg h1 hn hk hg (by omega) hk'; rw [hrn] at this; simp at this
      refine ⟨fun q => ?_, fun a ha => ?_⟩
      · by_cases hqp : q = p
        · subst hqp; simp [Loc3]
        · simp only [upd_other _ _ hqp]; exact loc3_of_reg_none hrn (hl3 q)
      · simp at ha; subst ha
        exact Or.inr ⟨p, s.reg, by simp⟩
    · st_fault
  | saveKey p ok =>
    simp only [step] at h
    split at h <;> try (simp at h; done)
    rename_i k prev hc
    have hl := hloc p; rw [hc] at hl; simp only [Loc] at hl
    obtain ⟨hlk, hrg, hkn, hku⟩ := hl
    split at h <;> simp at h <;> subst h
    · intro hf hg
      obtain ⟨hl3, hrk⟩ := hs hf hg
      refine ⟨fun q => ?_, fun a ha => ?_⟩
      · by_cases hqp : q = p
        · subst hqp; simp only [upd_same, Loc3]; exact ⟨trivial, hrg, trivial⟩
        · simp only [upd_other _ _ hqp]; exact loc3_key_set (s := s) rfl rfl hrg (hl3 q)
      · have ha' : s.reg = some a := ha
        rw [hrg] at ha'; simp at ha'; subst ha'; exact Or.inl rfl
    · st_fault
  | rollback p ok =>
    simp only [step] at h
    split at h <;> try (simp at h; done)
    rename_i k prev hc
    split at h <;> simp at h <;> subst h
    · intro hf hg
      exact absurd hc ((ho hf hg).1 p k prev)
    · st_fault
  | rel p ok =>
    simp only [step] at h
    split at h <;> try (simp at h; done)
    rename_i r hc
    split at h <;> simp at h <;> subst h
    · intro hf hg
      obtain ⟨hl3, hrk⟩ := hs hf hg
      have hp := hl3 p; rw [hc] at hp
      refine ⟨fun q => ?_, fun a ha => ?_⟩
      · by_cases hqp : q = p
        · subst hqp; simp only [upd_same]
          cases r with
          | none => simp [Loc3]
          | some ab => obtain ⟨a, b⟩ := ab; simp only [Loc3] at hp ⊢; exact hp
        · simp only [upd_other _ _ hqp]; exact loc3_frame rfl rfl (hl3 q)
      · rcases hrk a ha with h | ⟨q, prev, hq⟩
        · exact Or.inl h
        · refine Or.inr ⟨q, prev, ?_⟩
          have hqp : q ≠ p := by intro e; subst e; rw [hc] at hq; simp at hq
          simp only [upd_other _ _ hqp]; exact hq
    · st_fault
  | order p =>
    simp only [step] at h
    split at h <;> try (simp at h; done)
    rename_i a k hc
    split at h
    · simp at h; subst h; st_plain
    · split at h <;> simp at h <;> subst h
      · exact hs
      · st_plain
  | caForget a =>
    simp only [step] at h; simp at h; subst h
    intro _ hg; simp at hg
  | dneAcq p ok =>
    simp only [step] at h
    split at h <;> try (simp at h; done)
    rename_i a hc
    split at h
    · split at h <;> simp at h; subst h; st_dne
    · simp at h; subst h; st_fault
  | dneCheck p flt =>
    simp only [step] at h
    split at h <;> try (simp at h; done)
    rename_i a hc
    split at h
    · simp at h; subst h; st_fault
    · split at h
      · split at h <;> simp at h <;> subst h <;> st_dne
      · simp at h; subst h; st_dne
  | dneDelReg p ok =>
    simp only [step] at h
    split at h <;> try (simp at h; done)
    rename_i a hc
    split at h <;> simp at h <;> subst h
    · st_dne
    · st_fault
  | dneDelKey p ok =>
    simp only [step] at h
    split at h <;> try (simp at h; done)
    rename_i a hc
    split at h <;> simp at h <;> subst h
    · st_dne
    · st_fault
  | dneRel p ok =>
    simp only [step] at h
    split at h <;> try (simp at h; done)
    rename_i r hc
    split at h <;> simp at h <;> subst h
    · st_dne
    · st_fault

theorem stable_reach {s : St} (h : Reach s) : Stable s := by
  induction h with
  | init => intro _ _; exact ⟨fun p => by simp [init, Loc3], fun a ha => by simp [init] at ha⟩
  | step hr hs ih =>
    exact stable_step (inv1_reach hr) (nomix_reach hr) (known_reach hr) (once_reach hr) (delKeyFaults_le_faults hr) ih hs

end CM.Account
