import CM.Model.Clean
/-!
Helper lemmas for C18: the key–value tree, the justification predicates of the
specification, and the invariant every step of the cleaning preserves.
-/
namespace CM.Clean

/-! ### the key–value tree -/

theorem get_del (d : Key) (s : Store) (k : Key) :
    get (del d s) k = if d <+: k then none else get s k := by
  induction s with
  | nil => simp [del, get]
  | cons e s ih =>
    obtain ⟨k', v⟩ := e
    unfold del at ih ⊢
    by_cases h : d <+: k'
    · have : List.filter (fun e : Key × Val => !decide (d <+: e.1)) ((k', v) :: s) =
          List.filter (fun e : Key × Val => !decide (d <+: e.1)) s := by
        simp [List.filter_cons, h]
      rw [this, ih]
      by_cases hk : k' = k
      · subst hk; simp [h]
      · simp [get, hk]
    · have : List.filter (fun e : Key × Val => !decide (d <+: e.1)) ((k', v) :: s) =
          (k', v) :: List.filter (fun e : Key × Val => !decide (d <+: e.1)) s := by
        simp [List.filter_cons, h]
      rw [this]
      by_cases hk : k' = k
      · subst hk; simp [get, h]
      · simp only [get, hk, if_false]; exact ih

theorem get_put (k : Key) (v : Val) (s : Store) (k' : Key) :
    get (put k v s) k' = if k = k' then some v else get s k' := by
  simp [put, get]

theorem get_mem {s : Store} {k : Key} {v : Val} (h : get s k = some v) : (k, v) ∈ s := by
  induction s with
  | nil => simp [get] at h
  | cons e s ih =>
    obtain ⟨k', v'⟩ := e
    unfold get at h
    by_cases hk : k' = k
    · simp only [hk, if_true, Option.some.injEq] at h
      subst hk; subst h; exact List.mem_cons_self
    · simp only [hk, if_false] at h
      exact List.mem_cons_of_mem _ (ih h)

theorem nextComp_none {p k : Key} (hp : p <+: k) (h : nextComp p k = none) : k = p := by
  induction p generalizing k with
  | nil => cases k with
    | nil => rfl
    | cons c k => simp [nextComp] at h
  | cons a p ih => cases k with
    | nil => simp at hp
    | cons b k =>
      rw [List.cons_prefix_cons] at hp
      obtain ⟨hab, hp⟩ := hp
      subst hab
      simp only [nextComp, if_true] at h
      rw [ih hp h]

/-- an empty listing: nothing lies strictly below the key -/
theorem listing_nil {p : Key} {s : Store} (h : listing p s = some []) (k : Key) (hp : p <+: k)
    (hk : k ≠ p) : get s k = none := by
  unfold listing at h
  split at h
  · simp only [Option.some.injEq] at h
    have hnil : s.filterMap (fun e => nextComp p e.1) = [] := by
      cases hl : s.filterMap (fun e => nextComp p e.1) with
      | nil => rfl
      | cons x xs => rw [hl] at h; simp [List.eraseDups_cons] at h
    cases hg : get s k with
    | none => rfl
    | some v =>
      have hm := get_mem hg
      rw [List.filterMap_eq_nil_iff] at hnil
      exact absurd (nextComp_none hp (hnil _ hm)) hk
  · cases h

/-- `strip suf c = some stem` means `c = stem ++ suf` -/
theorem strip_some {suf c stem : List Char} (h : strip suf c = some stem) : c = stem ++ suf := by
  induction c generalizing stem with
  | nil =>
    unfold strip at h
    split at h
    · next hs => cases h; simp [hs]
    · cases h
  | cons x xs ih =>
    unfold strip at h
    split at h
    · next hs => cases h; simp [hs]
    · cases hr : strip suf xs with
      | none => simp [hr] at h
      | some st =>
        simp only [hr, Option.map_some, Option.some.injEq] at h
        subst h
        simp [ih hr]

/-! ### what may be deleted (the specification's justifications) -/

/-- a direct child of `ocsp/` whose content is unparseable or past its NextUpdate -/
def StapleDel (o : Opts) (now : Int) (s : Store) (d : Key) : Prop :=
  o.ocsp = true ∧ ∃ c r, d = [ocspC, c] ∧ get s d = some (.file r) ∧ staleStaple now r = true

/-- the `.crt`, `.key` or `.json` of a certificate that expired at least the grace period ago -/
def CertDel (o : Opts) (now : Int) (s : Store) (d : Key) : Prop :=
  o.certs = true ∧ ∃ i st stem r na,
    get s [certsC, i, st, stem ++ crtExt] = some (.file r) ∧ r.cert = some na ∧
    now - expiresAt na ≥ o.grace ∧
    (d = [certsC, i, st, stem ++ crtExt] ∨ d = [certsC, i, st, stem ++ keyExt] ∨
     d = [certsC, i, st, stem ++ jsonExt])

/-- a site folder (a directory `certificates/<issuer>/<site>`) under which nothing is left -/
def SiteDel (o : Opts) (s cur : Store) (k : Key) : Prop :=
  o.certs = true ∧ ∃ i st, k = [certsC, i, st] ∧ get s k = some .dir ∧
    ∀ k', k <+: k' → get cur k' = none

/-- key `k` may be missing from `cur`: it is, or lies below, a stale staple or an asset of
an expired certificate, or it is an emptied site folder -/
def Justified (o : Opts) (now : Int) (s cur : Store) (k : Key) : Prop :=
  (∃ d, d <+: k ∧ (StapleDel o now s d ∨ CertDel o now s d)) ∨ SiteDel o s cur k

/-- the invariant: every key has its original value, or is gone with a justification -/
def Inv (o : Opts) (now : Int) (s cur : Store) : Prop :=
  ∀ k, get cur k = get s k ∨ (get cur k = none ∧ Justified o now s cur k)

def Mono (a b : Store) : Prop := ∀ k, get a k = none → get b k = none

theorem mono_del (d : Key) (s : Store) : Mono s (del d s) := by
  intro k h
  rw [get_del]
  split
  · rfl
  · exact h

theorem justified_mono {o : Opts} {now : Int} {s a b : Store} (hm : Mono a b) {k : Key}
    (h : Justified o now s a k) : Justified o now s b k := by
  rcases h with h | ⟨ho, i, st, hk, hd, hall⟩
  · exact Or.inl h
  · exact Or.inr ⟨ho, i, st, hk, hd, fun k' hp => hm _ (hall k' hp)⟩

theorem inv_refl (o : Opts) (now : Int) (s : Store) : Inv o now s s := fun _ => Or.inl rfl

theorem inv_get {o : Opts} {now : Int} {s cur : Store} (hinv : Inv o now s cur) {k : Key} {v : Val}
    (h : get cur k = some v) : get s k = some v := by
  rcases hinv k with h' | ⟨h', _⟩
  · rw [← h', h]
  · rw [h'] at h; cases h

/-- deleting `d` keeps the invariant if every key still present at or below `d` is justified -/
theorem inv_del {o : Opts} {now : Int} {s cur : Store} {d : Key} (hinv : Inv o now s cur)
    (hd : ∀ k, d <+: k → get cur k ≠ none → Justified o now s (del d cur) k) :
    Inv o now s (del d cur) := by
  intro k
  rw [get_del]
  by_cases h : d <+: k
  · rw [if_pos h]
    rcases hinv k with h' | ⟨_, hj⟩
    · by_cases hn : get cur k = none
      · left; rw [← h', hn]
      · right; exact ⟨rfl, hd k h hn⟩
    · right; exact ⟨rfl, justified_mono (mono_del d cur) hj⟩
  · rw [if_neg h]
    rcases hinv k with h' | ⟨hn, hj⟩
    · exact Or.inl h'
    · exact Or.inr ⟨hn, justified_mono (mono_del d cur) hj⟩

theorem foldl_inv {α β : Type} (P : β → Prop) (f : β → α → β) (hf : ∀ b a, P b → P (f b a))
    (l : List α) (b : β) (hb : P b) : P (l.foldl f b) := by
  induction l generalizing b with
  | nil => exact hb
  | cons a l ih => exact ih _ (hf b a hb)

/-! ### every step keeps the invariant -/

theorem stapleStep_inv {o : Opts} {now : Int} {s : Store} (ho : o.ocsp = true) (st : St) (c : Comp)
    (hinv : Inv o now s st.s) : Inv o now s (stapleStep now st c).s := by
  unfold stapleStep
  split
  · next r hg =>
    split
    · next hs =>
      apply inv_del hinv
      intro k hk _
      exact Or.inl ⟨_, hk, Or.inl ⟨ho, c, r, rfl, inv_get hinv hg, hs⟩⟩
    · exact hinv
  · exact hinv

theorem staples_inv {o : Opts} {now : Int} {s : Store} (ho : o.ocsp = true) (st : St)
    (hinv : Inv o now s st.s) : Inv o now s (staples now st).s := by
  unfold staples
  split
  · exact hinv
  · exact foldl_inv (fun st => Inv o now s st.s) _ (fun b a h => stapleStep_inv ho b a h) _ _ hinv

theorem assetStep_inv {o : Opts} {now : Int} {s : Store} (ho : o.certs = true) (i c : Comp)
    (st : St) (a : Comp) (hinv : Inv o now s st.s) :
    Inv o now s (assetStep o now [certsC, i, c] st a).s := by
  unfold assetStep
  split
  · exact hinv
  · split
    · exact hinv
    · next stem hstem =>
      have ha : a = stem ++ crtExt := strip_some hstem
      split
      · next r hg =>
        split
        · next na hna =>
          split
          · next hexp =>
            have hs : get s [certsC, i, c, stem ++ crtExt] = some (.file r) := by
              have := inv_get hinv hg
              rw [ha] at this
              exact this
            have just : ∀ (cur : Store) (d k : Key),
                (d = [certsC, i, c, stem ++ crtExt] ∨ d = [certsC, i, c, stem ++ keyExt] ∨
                  d = [certsC, i, c, stem ++ jsonExt]) → d <+: k → Justified o now s cur k :=
              fun cur d k hd hk => Or.inl ⟨d, hk, Or.inr ⟨ho, i, c, stem, r, na, hs, hna, hexp, hd⟩⟩
            have h1 : Inv o now s (del ([certsC, i, c] ++ [a]) st.s) :=
              inv_del hinv (fun k hk _ => just _ _ k (Or.inl (by rw [ha]; rfl)) hk)
            have h2 : Inv o now s (del ([certsC, i, c] ++ [stem ++ keyExt]) (del ([certsC, i, c] ++ [a]) st.s)) :=
              inv_del h1 (fun k hk _ => just _ _ k (Or.inr (Or.inl rfl)) hk)
            exact inv_del h2 (fun k hk _ => just _ _ k (Or.inr (Or.inr rfl)) hk)
          · exact hinv
        · exact hinv
      · exact hinv

theorem siteStep_inv {o : Opts} {now : Int} {s : Store} (ho : o.certs = true) (i : Comp)
    (st : St) (c : Comp) (hinv : Inv o now s st.s) :
    Inv o now s (siteStep o now [certsC, i] st c).s := by
  unfold siteStep
  split
  · exact hinv
  · split
    · exact hinv
    · next assets _ =>
      have h1 : Inv o now s (assets.foldl (assetStep o now ([certsC, i] ++ [c])) st).s :=
        foldl_inv (fun st => Inv o now s st.s) _ (fun b a h => assetStep_inv ho i c b a h) _ _ hinv
      simp only []
      split
      · exact h1
      · split
        · next hl =>
          split
          · next hdir =>
            apply inv_del h1
            intro k hk hne
            by_cases hkk : k = [certsC, i] ++ [c]
            · subst hkk
              refine Or.inr ⟨ho, i, c, rfl, inv_get h1 hdir, ?_⟩
              intro k' hk'
              rw [get_del, if_pos hk']
            · exact absurd (listing_nil hl k hk hkk) hne
          · exact h1
        · exact h1

theorem issuerStep_inv {o : Opts} {now : Int} {s : Store} (ho : o.certs = true)
    (st : St) (i : Comp) (hinv : Inv o now s st.s) : Inv o now s (issuerStep o now st i).s := by
  unfold issuerStep
  split
  · exact hinv
  · split
    · exact hinv
    · exact foldl_inv (fun st => Inv o now s st.s) _ (fun b a h => siteStep_inv ho i b a h) _ _ hinv

theorem certsPass_inv {o : Opts} {now : Int} {s : Store} (ho : o.certs = true) (st : St)
    (hinv : Inv o now s st.s) : Inv o now s (certsPass o now st).s := by
  unfold certsPass
  split
  · exact hinv
  · exact foldl_inv (fun st => Inv o now s st.s) _ (fun b a h => issuerStep_inv ho b a h) _ _ hinv

theorem body_inv (o : Opts) (now : Int) (s : Store) : Inv o now s (body o now s).s := by
  unfold body
  simp only []
  have h0 : Inv o now s ({ s := s, dels := [], abort := false } : St).s := inv_refl o now s
  have h1 : Inv o now s (if o.ocsp = true then staples now { s := s, dels := [], abort := false }
      else { s := s, dels := [], abort := false }).s := by
    split
    · next ho => exact staples_inv ho _ h0
    · exact h0
  split
  · next ho => exact certsPass_inv ho _ h1
  · exact h1

end CM.Clean

/-! ### the executable specification and its soundness

`justifiedB` is what the driver evaluates on the implementation's observed before/after
difference; `justifiedB_sound` says that whenever it answers `true` the key's disappearance
is justified in the sense of the theorems (`Justified`). -/
namespace CM.Clean

def stapleDelB (o : Opts) (now : Int) (s : Store) (d : Key) : Bool :=
  o.ocsp && match d with
    | [a, _] => decide (a = ocspC) && (match get s d with
      | some (.file r) => staleStaple now r
      | _ => false)
    | _ => false

/-- is `f`, read as `<stem><e>`, an asset of a certificate `<stem>.crt` of this site that
expired at least the grace period ago? -/
def expiredVia (o : Opts) (now : Int) (s : Store) (i st : Comp) (f e : List Char) : Bool :=
  match strip e f with
  | some stem =>
    (match get s [certsC, i, st, stem ++ crtExt] with
    | some (.file r) => (match r.cert with
      | some na => decide (now - expiresAt na ≥ o.grace)
      | none => false)
    | _ => false)
  | none => false

def certDelB (o : Opts) (now : Int) (s : Store) (d : Key) : Bool :=
  o.certs && match d with
    | [a, i, st, f] => decide (a = certsC) &&
        (expiredVia o now s i st f crtExt || expiredVia o now s i st f keyExt || expiredVia o now s i st f jsonExt)
    | _ => false

def siteDelB (o : Opts) (s s' : Store) (k : Key) : Bool :=
  o.certs && match k with
    | [a, _, _] => decide (a = certsC) && decide (get s k = some .dir) && s'.all (fun e => !decide (k <+: e.1))
    | _ => false

/-- all prefixes of a key -/
def inits : Key → List Key
  | [] => [[]]
  | c :: k => [] :: (inits k).map (c :: ·)

def justifiedB (o : Opts) (now : Int) (s s' : Store) (k : Key) : Bool :=
  (inits k).any (fun d => stapleDelB o now s d || certDelB o now s d) || siteDelB o s s' k

theorem inits_prefix {k d : Key} (h : d ∈ inits k) : d <+: k := by
  induction k generalizing d with
  | nil => simp [inits] at h; subst h; exact List.prefix_refl _
  | cons c k ih =>
    simp only [inits, List.mem_cons, List.mem_map] at h
    rcases h with rfl | ⟨d', hd', rfl⟩
    · exact List.nil_prefix
    · exact (List.prefix_cons_inj c).mpr (ih hd')

theorem stapleDelB_sound {o : Opts} {now : Int} {s : Store} {d : Key}
    (h : stapleDelB o now s d = true) : StapleDel o now s d := by
  unfold stapleDelB at h
  simp only [Bool.and_eq_true] at h
  obtain ⟨ho, h⟩ := h
  split at h
  · next a c =>
    simp only [Bool.and_eq_true, decide_eq_true_eq] at h
    obtain ⟨rfl, h⟩ := h
    split at h
    · next r hg => exact ⟨ho, c, r, rfl, hg, h⟩
    · cases h
  · cases h

theorem expiredVia_sound {o : Opts} {now : Int} {s : Store} {i st : Comp} {f e : List Char}
    (h : expiredVia o now s i st f e = true) :
    ∃ stem r na, f = stem ++ e ∧ get s [certsC, i, st, stem ++ crtExt] = some (.file r) ∧
      r.cert = some na ∧ now - expiresAt na ≥ o.grace := by
  unfold expiredVia at h
  split at h
  · next stem hs =>
    split at h
    · next r hg =>
      split at h
      · next na hna =>
        simp only [decide_eq_true_eq] at h
        exact ⟨stem, r, na, strip_some hs, hg, hna, h⟩
      · cases h
    · cases h
  · cases h

theorem certDelB_sound {o : Opts} {now : Int} {s : Store} {d : Key}
    (h : certDelB o now s d = true) : CertDel o now s d := by
  unfold certDelB at h
  simp only [Bool.and_eq_true] at h
  obtain ⟨ho, h⟩ := h
  split at h
  · next a i st f =>
    simp only [Bool.and_eq_true, decide_eq_true_eq, Bool.or_eq_true] at h
    obtain ⟨rfl, h⟩ := h
    rcases h with (h | h) | h
    · obtain ⟨stem, r, na, rfl, hg, hna, hx⟩ := expiredVia_sound h
      exact ⟨ho, i, st, stem, r, na, hg, hna, hx, Or.inl rfl⟩
    · obtain ⟨stem, r, na, rfl, hg, hna, hx⟩ := expiredVia_sound h
      exact ⟨ho, i, st, stem, r, na, hg, hna, hx, Or.inr (Or.inl rfl)⟩
    · obtain ⟨stem, r, na, rfl, hg, hna, hx⟩ := expiredVia_sound h
      exact ⟨ho, i, st, stem, r, na, hg, hna, hx, Or.inr (Or.inr rfl)⟩
  · cases h

theorem siteDelB_sound {o : Opts} {s s' : Store} {k : Key}
    (h : siteDelB o s s' k = true) : SiteDel o s s' k := by
  unfold siteDelB at h
  simp only [Bool.and_eq_true] at h
  obtain ⟨ho, h⟩ := h
  split at h
  · next a i st =>
    simp only [Bool.and_eq_true, decide_eq_true_eq, List.all_eq_true, Bool.not_eq_true',
      decide_eq_false_iff_not] at h
    obtain ⟨⟨rfl, hd⟩, hall⟩ := h
    refine ⟨ho, i, st, rfl, hd, ?_⟩
    intro k' hk'
    cases hg : get s' k' with
    | none => rfl
    | some v => exact absurd hk' (hall _ (get_mem hg))
  · cases h

/-- the judge is sound: `true` only for justified disappearances -/
theorem justifiedB_sound {o : Opts} {now : Int} {s s' : Store} {k : Key}
    (h : justifiedB o now s s' k = true) : Justified o now s s' k := by
  unfold justifiedB at h
  simp only [Bool.or_eq_true, List.any_eq_true] at h
  rcases h with ⟨d, hd, h | h⟩ | h
  · exact Or.inl ⟨d, inits_prefix hd, Or.inl (stapleDelB_sound h)⟩
  · exact Or.inl ⟨d, inits_prefix hd, Or.inr (certDelB_sound h)⟩
  · exact Or.inr (siteDelB_sound h)

end CM.Clean
