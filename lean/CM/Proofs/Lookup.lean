import CM.Model.Lookup
import CM.Proofs.Cache
/-! Helper lemmas for C03: the wildcard loop in closed form, `MatchWildcard`, the selector,
and the case analysis of `getCertificateFromCache`. -/
namespace CM.Lookup
open CM.Cache

/-! ### labels and candidates -/

theorem candLoop_mem (w : Name) : ∀ (ls pre : List (List Char)),
    w ∈ candLoop pre ls ↔
      ∃ k, 1 ≤ k ∧ k ≤ ls.length ∧ w = joinDot (pre ++ List.replicate k star ++ ls.drop k) := by
  intro ls
  induction ls with
  | nil =>
    intro pre
    simp only [candLoop, List.not_mem_nil, List.length_nil, false_iff]
    rintro ⟨k, h1, h2, _⟩
    omega
  | cons l rest ih =>
    intro pre
    simp only [candLoop, List.mem_cons, ih, List.length_cons]
    constructor
    · rintro (h | ⟨k, h1, h2, h3⟩)
      · refine ⟨1, Nat.le_refl _, by omega, ?_⟩
        rw [h]
        simp [List.replicate]
      · refine ⟨k + 1, by omega, by omega, ?_⟩
        rw [h3]
        simp [List.replicate_succ, List.append_assoc]
    · rintro ⟨k, h1, h2, h3⟩
      cases k with
      | zero => omega
      | succ k =>
        cases k with
        | zero =>
          left
          rw [h3]
          simp [List.replicate]
        | succ k =>
          right
          refine ⟨k + 1, by omega, by omega, ?_⟩
          rw [h3]
          simp [List.replicate_succ, List.append_assoc]

theorem mem_candidates (n w : Name) :
    w ∈ candidates n ↔ ∃ k, 1 ≤ k ∧ k ≤ (splitDot n).length ∧ w = wildAt n k := by
  unfold candidates wildAt
  rw [candLoop_mem]
  simp

theorem covers_iff_candidates (n : Name) (names : List Name) :
    covers n names ↔ ∃ w, w ∈ n :: candidates n ∧ w ∈ names := by
  unfold covers
  constructor
  · rintro (h | ⟨k, h1, h2, h3⟩)
    · exact ⟨n, List.mem_cons_self, h⟩
    · exact ⟨wildAt n k, List.mem_cons_of_mem _ ((mem_candidates n _).mpr ⟨k, h1, h2, rfl⟩), h3⟩
  · rintro ⟨w, hw, hn⟩
    rcases List.mem_cons.mp hw with h | h
    · exact Or.inl (h ▸ hn)
    · obtain ⟨k, h1, h2, h3⟩ := (mem_candidates n w).mp h
      exact Or.inr ⟨k, h1, h2, h3 ▸ hn⟩

theorem mem_joinDot {c : Char} : ∀ (ls : List (List Char)) (l : List Char), l ∈ ls → c ∈ l → c ∈ joinDot ls := by
  intro ls
  induction ls with
  | nil => intro l h; simp at h
  | cons a r ih =>
    intro l hl hc
    unfold joinDot
    cases r with
    | nil =>
      simp only [List.mem_cons, List.not_mem_nil, or_false] at hl
      exact hl ▸ hc
    | cons b r' =>
      simp only
      rcases List.mem_cons.mp hl with h | h
      · exact List.mem_append_left _ (h ▸ hc)
      · exact List.mem_append_right _ (List.mem_cons_of_mem _ (ih l h hc))

theorem star_mem_of_mem_candLoop {w : Name} : ∀ (ls pre : List (List Char)), w ∈ candLoop pre ls → '*' ∈ w := by
  intro ls pre h
  obtain ⟨k, h1, _, h3⟩ := (candLoop_mem w ls pre).mp h
  rw [h3]
  apply mem_joinDot _ star
  · cases k with
    | zero => omega
    | succ k => simp [List.replicate_succ]
  · simp [star]

theorem mwLoop_iff (w : Name) : ∀ (ls pre : List (List Char)), (∀ l ∈ ls, l ≠ []) →
    (mwLoop w pre ls = true ↔ w ∈ candLoop pre ls) := by
  intro ls
  induction ls with
  | nil => intro pre _; simp [mwLoop, candLoop]
  | cons l rest ih =>
    intro pre hne
    have hl : l ≠ [] := hne l List.mem_cons_self
    have hr : ∀ l' ∈ rest, l' ≠ [] := fun l' h => hne l' (List.mem_cons_of_mem _ h)
    simp only [mwLoop, hl, if_false, candLoop, List.mem_cons]
    by_cases hj : joinDot (pre ++ star :: rest) = w
    · simp [hj]
    · simp only [hj, if_false, ih (pre ++ [star]) hr]
      constructor
      · exact Or.inr
      · rintro (h | h)
        · exact absurd h.symm hj
        · exact h

/-! ### the selector -/

theorem scan_mem (e : Env) : ∀ (l : List Cert) (best : Cert), scan e l best = best ∨ scan e l best ∈ l := by
  intro l
  induction l with
  | nil => intro best; exact Or.inl rfl
  | cons c r ih =>
    intro best
    unfold scan
    split
    · split
      · exact Or.inr List.mem_cons_self
      · rcases ih c with h | h
        · right; rw [h]; exact List.mem_cons_self
        · exact Or.inr (List.mem_cons_of_mem _ h)
    · rcases ih best with h | h
      · exact Or.inl h
      · exact Or.inr (List.mem_cons_of_mem _ h)

theorem scan_good (e : Env) : ∀ (l : List Cert) (best : Cert), (∃ c, c ∈ l ∧ e.good c = true) →
    e.good (scan e l best) = true := by
  intro l
  induction l with
  | nil => intro best h; obtain ⟨c, hc, _⟩ := h; simp at hc
  | cons c r ih =>
    intro best h
    obtain ⟨c', hc', hg⟩ := h
    unfold scan
    split
    · rename_i hs
      split
      · rename_i hv
        simp [Env.good, hs, hv]
      · rename_i hv
        apply ih
        rcases List.mem_cons.mp hc' with h1 | h1
        · subst h1
          simp [Env.good, hv] at hg
        · exact ⟨c', h1, hg⟩
    · rename_i hs
      apply ih
      rcases List.mem_cons.mp hc' with h1 | h1
      · subst h1
        simp [Env.good, hs] at hg
      · exact ⟨c', h1, hg⟩

theorem selectDefault_mem {e : Env} {l : List Cert} {c : Cert} (h : selectDefault e l = some c) : c ∈ l := by
  unfold selectDefault at h
  split at h
  · simp at h
  · rename_i c0 r
    split at h
    · simp only [Option.some.injEq] at h; subst h; exact List.mem_cons_self
    · rename_i c1 r'
      simp only [Option.some.injEq] at h
      rcases scan_mem e (c0 :: c1 :: r') c0 with h1 | h1
      · rw [← h, h1]; exact List.mem_cons_self
      · rw [← h]; exact h1

theorem selectDefault_none {e : Env} {l : List Cert} : selectDefault e l = none ↔ l = [] := by
  unfold selectDefault
  split
  · simp
  · split <;> simp

theorem selectDefault_good {e : Env} {l : List Cert} {c : Cert} (h : selectDefault e l = some c)
    (hg : ∃ c', c' ∈ l ∧ e.good c' = true) : e.good c = true := by
  unfold selectDefault at h
  split at h
  · simp at h
  · rename_i c0 r
    split at h
    · simp only [Option.some.injEq] at h; subst h
      obtain ⟨c', hc', hg'⟩ := hg
      simp only [List.mem_cons, List.not_mem_nil, or_false] at hc'
      exact hc' ▸ hg'
    · simp only [Option.some.injEq] at h
      rw [← h]
      exact scan_good e _ c0 hg

/-! ### `getCertificateFromCache` -/

theorem selectCert_none {e : Env} {s : State} {n : Name} : selectCert e s n = none ↔ matching s n = [] :=
  selectDefault_none

theorem tryName_none {e : Env} {s : State} {o : Option Name} :
    tryName e s o = none ↔ ∀ n, o = some n → matching s n = [] := by
  cases o with
  | none => simp [tryName]
  | some n => simp [tryName, selectCert_none]

theorem tryName_some {e : Env} {s : State} {o : Option Name} {c : Cert} (h : tryName e s o = some c) :
    ∃ n, o = some n ∧ selectCert e s n = some c := by
  cases o with
  | none => simp [tryName] at h
  | some n => exact ⟨n, rfl, h⟩

theorem firstMatch_none {e : Env} {s : State} : ∀ {ns : List Name},
    firstMatch e s ns = none ↔ ∀ n, n ∈ ns → matching s n = [] := by
  intro ns
  induction ns with
  | nil => simp [firstMatch]
  | cons n r ih =>
    unfold firstMatch
    cases hs : selectCert e s n with
    | some c =>
      simp only [false_iff, reduceCtorEq]
      intro hall
      have := (selectCert_none (e := e)).mpr (hall n List.mem_cons_self)
      rw [this] at hs; simp at hs
    | none =>
      simp only [ih]
      constructor
      · intro h m hm
        rcases List.mem_cons.mp hm with h1 | h1
        · exact h1 ▸ selectCert_none.mp hs
        · exact h m h1
      · intro h m hm
        exact h m (List.mem_cons_of_mem _ hm)

/-- the answer comes from the FIRST name of the list that has any cached certificate -/
theorem firstMatch_some {e : Env} {s : State} {c : Cert} : ∀ {ns : List Name}, firstMatch e s ns = some c →
    ∃ pre n post, ns = pre ++ n :: post ∧ (∀ m, m ∈ pre → matching s m = []) ∧ selectCert e s n = some c := by
  intro ns
  induction ns with
  | nil => intro h; simp [firstMatch] at h
  | cons n r ih =>
    intro h
    unfold firstMatch at h
    cases hs : selectCert e s n with
    | some c' =>
      rw [hs] at h
      simp only [Option.some.injEq] at h
      exact ⟨[], n, r, rfl, by simp, h ▸ hs⟩
    | none =>
      rw [hs] at h
      obtain ⟨pre, m, post, h1, h2, h3⟩ := ih h
      refine ⟨n :: pre, m, post, by rw [h1]; rfl, ?_, h3⟩
      intro x hx
      rcases List.mem_cons.mp hx with hx | hx
      · exact hx ▸ selectCert_none.mp hs
      · exact h2 x hx

/-- the index keys `getCertificateFromCache` tries, in order -/
def keysTried (cfg : Cfg) (h : Hello) : List Name :=
  (if h.sni = [] then h.conn.toList ++ cfg.defaultName.toList else h.sni :: candidates h.sni) ++
    cfg.fallbackName.toList

/-- where a selected certificate came from -/
inductive Origin (cfg : Cfg) (h : Hello) (key : Name) : How → Prop
  | ip : h.sni = [] → h.conn = some key → Origin cfg h key .matched
  | name : h.sni ≠ [] → key ∈ h.sni :: candidates h.sni → Origin cfg h key .matched
  | dflt : h.sni = [] → cfg.defaultName = some key → Origin cfg h key .defaulted
  | fallback : cfg.fallbackName = some key → Origin cfg h key .defaulted

theorem fromCache_some {e : Env} {cfg : Cfg} {s : State} {h : Hello} {c : Cert} {how : How}
    (hf : fromCache e cfg s h = some (c, how)) :
    ∃ key, selectCert e s key = some c ∧ Origin cfg h key how := by
  unfold fromCache at hf
  split at hf
  · rename_i hsni
    split at hf
    · rename_i c' hc'
      simp only [Option.some.injEq, Prod.mk.injEq] at hf
      obtain ⟨n, hn, hsel⟩ := tryName_some hc'
      exact ⟨n, hf.1 ▸ hsel, hf.2 ▸ Origin.ip hsni hn⟩
    · split at hf
      · rename_i c' hc'
        simp only [Option.some.injEq, Prod.mk.injEq] at hf
        obtain ⟨n, hn, hsel⟩ := tryName_some hc'
        exact ⟨n, hf.1 ▸ hsel, hf.2 ▸ Origin.dflt hsni hn⟩
      · cases hfb : tryName e s cfg.fallbackName with
        | none => rw [hfb] at hf; simp at hf
        | some c' =>
          rw [hfb] at hf
          simp only [Option.map_some, Option.some.injEq, Prod.mk.injEq] at hf
          obtain ⟨n, hn, hsel⟩ := tryName_some hfb
          exact ⟨n, hf.1 ▸ hsel, hf.2 ▸ Origin.fallback hn⟩
  · rename_i hsni
    split at hf
    · rename_i c' hc'
      simp only [Option.some.injEq, Prod.mk.injEq] at hf
      obtain ⟨pre, n, post, h1, _, h3⟩ := firstMatch_some hc'
      refine ⟨n, hf.1 ▸ h3, hf.2 ▸ Origin.name hsni ?_⟩
      rw [h1]; simp
    · cases hfb : tryName e s cfg.fallbackName with
      | none => rw [hfb] at hf; simp at hf
      | some c' =>
        rw [hfb] at hf
        simp only [Option.map_some, Option.some.injEq, Prod.mk.injEq] at hf
        obtain ⟨n, hn, hsel⟩ := tryName_some hfb
        exact ⟨n, hf.1 ▸ hsel, hf.2 ▸ Origin.fallback hn⟩

theorem fromCache_none {e : Env} {cfg : Cfg} {s : State} {h : Hello} :
    fromCache e cfg s h = none ↔ ∀ n, n ∈ keysTried cfg h → matching s n = [] := by
  unfold fromCache keysTried
  by_cases hsni : h.sni = []
  · simp only [hsni, if_true]
    cases hc : tryName e s h.conn with
    | some c =>
      simp only [false_iff, reduceCtorEq]
      intro hall
      obtain ⟨n, hn, hsel⟩ := tryName_some hc
      have := (selectCert_none (e := e)).mpr (hall n (by simp [hn]))
      rw [this] at hsel; simp at hsel
    | none =>
      simp only
      cases hd : tryName e s cfg.defaultName with
      | some c =>
        simp only [false_iff, reduceCtorEq]
        intro hall
        obtain ⟨n, hn, hsel⟩ := tryName_some hd
        have := (selectCert_none (e := e)).mpr (hall n (by simp [hn]))
        rw [this] at hsel; simp at hsel
      | none =>
        simp only [Option.map_eq_none_iff]
        rw [tryName_none] at hc hd ⊢
        constructor
        · intro hfb n hn
          simp only [List.mem_append, Option.mem_toList] at hn
          rcases hn with (hn | hn) | hn
          · exact hc n hn
          · exact hd n hn
          · exact hfb n hn
        · intro hall n hn
          exact hall n (by simp [hn])
  · simp only [hsni, if_false]
    cases hm : firstMatch e s (h.sni :: candidates h.sni) with
    | some c =>
      simp only [false_iff, reduceCtorEq]
      intro hall
      have := (firstMatch_none (e := e)).mpr (fun n hn => hall n (List.mem_append_left _ hn))
      rw [this] at hm; simp at hm
    | none =>
      simp only [Option.map_eq_none_iff]
      rw [firstMatch_none] at hm
      rw [tryName_none]
      constructor
      · intro hfb n hn
        simp only [List.mem_append, Option.mem_toList] at hn
        rcases hn with hn | hn
        · exact hm n hn
        · exact hfb n hn
      · intro hall n hn
        exact hall n (by simp [hn])

end CM.Lookup
