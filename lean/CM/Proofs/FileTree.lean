import CM.Model.FileTree
/-! `FileStorage` on a POSIX tree (`CM.FileTree`) refines the `Storage` contract (`CM.KV`)
wherever the contract is definite. Helper lemmas for `CM/Props/C10.lean`. -/
namespace CM.FileTree
open CM.KV
variable {κ : Type} [DecidableEq κ] {ν : Type}

omit [DecidableEq κ] in
theorem mem_parents (k d : Key κ) : d ∈ parents k ↔ d <+: k ∧ d ≠ [] ∧ d ≠ k := by
  unfold parents
  simp only [List.mem_map, List.mem_range]
  constructor
  · rintro ⟨i, hi, rfl⟩
    have hl : (k.take (i + 1)).length = i + 1 := by rw [List.length_take]; omega
    refine ⟨List.take_prefix _ _, ?_, ?_⟩
    · intro h; rw [h] at hl; simp at hl
    · intro h; rw [h] at hl; omega
  · rintro ⟨hp, h0, hk⟩
    have hle := hp.length_le
    have hlt : d.length < k.length := by
      rcases Nat.lt_or_ge d.length k.length with h | h
      · exact h
      · exact absurd (List.IsPrefix.eq_of_length_le hp h) hk
    have hpos : 0 < d.length := List.length_pos_iff.mpr h0
    refine ⟨d.length - 1, by omega, ?_⟩
    have : d.length - 1 + 1 = d.length := by omega
    rw [this]
    exact (List.prefix_iff_eq_take.mp hp).symm

theorem thru_iff (t : FS κ ν) (k : Key κ) :
    thruFile t k = true ↔ ∃ e ∈ t.files, e.1 <+: k ∧ e.1 ≠ k := by
  unfold thruFile
  rw [List.any_eq_true]
  constructor
  · rintro ⟨e, he, h⟩
    simp only [Bool.and_eq_true, decide_eq_true_eq] at h
    exact ⟨e, he, List.isPrefixOf_iff_prefix.mp h.1, h.2⟩
  · rintro ⟨e, he, h1, h2⟩
    refine ⟨e, he, ?_⟩
    simp only [Bool.and_eq_true, decide_eq_true_eq]
    exact ⟨List.isPrefixOf_iff_prefix.mpr h1, h2⟩

theorem thru_false_iff (t : FS κ ν) (k : Key κ) :
    thruFile t k = false ↔ ∀ e ∈ t.files, e.1 <+: k → e.1 = k := by
  constructor
  · intro h e he hp
    by_cases hk : e.1 = k
    · exact hk
    · have := (thru_iff t k).mpr ⟨e, he, hp, hk⟩
      rw [h] at this; cases this
  · intro h
    cases hh : thruFile t k
    · rfl
    · obtain ⟨e, he, h1, h2⟩ := (thru_iff t k).mp hh
      exact absurd (h e he h1) h2

theorem mem_addDirs (ds new : List (Key κ)) (x : Key κ) : x ∈ addDirs ds new ↔ x ∈ ds ∨ x ∈ new := by
  unfold addDirs
  induction new generalizing ds with
  | nil => simp
  | cons d r ih =>
    simp only [List.foldl_cons]
    rw [ih]
    by_cases hc : ds.contains d = true
    · rw [if_pos hc]
      have hd : d ∈ ds := by simpa using hc
      constructor
      · rintro (h | h)
        · exact Or.inl h
        · exact Or.inr (List.mem_cons_of_mem _ h)
      · rintro (h | h)
        · exact Or.inl h
        · rcases List.mem_cons.mp h with rfl | h
          · exact Or.inl hd
          · exact Or.inr h
    · rw [if_neg hc]
      simp only [List.mem_append, List.mem_cons, List.not_mem_nil, or_false]
      constructor
      · rintro ((h | h) | h)
        · exact Or.inl h
        · exact Or.inr (Or.inl h)
        · exact Or.inr (Or.inr h)
      · rintro (h | h | h)
        · exact Or.inl (Or.inl h)
        · exact Or.inl (Or.inr h)
        · exact Or.inr h

theorem isDir_iff (t : FS κ ν) (k : Key κ) : isDir t k = true ↔ k = [] ∨ k ∈ t.dirs := by
  unfold isDir; simp

theorem isFile_iff (t : FS κ ν) (k : Key κ) : isFile t k = true ↔ ∃ v, load t.files k = some v := by
  unfold isFile; cases load t.files k <;> simp

theorem fs_store_delete (t : FS κ ν) (k : Key κ) (v : ν) :
    ((fsStore t k v).1 = .ok () → (fsStore t k v).2.files = KV.store t.files k v) ∧
    ((fsStore t k v).1 ≠ .ok () → (fsStore t k v).2.files = t.files) ∧
    ((fsDelete t k).1 = .ok () → (fsDelete t k).2.files = KV.delete t.files k) := by
  unfold fsStore fsDelete
  refine ⟨?_, ?_, ?_⟩
  · split
    · intro h; cases h
    · split
      · intro h; cases h
      · intro _; rfl
  · split
    · intro _; rfl
    · split
      · intro _; rfl
      · intro h; exact absurd rfl h
  · split
    · intro h; cases h
    · intro _; rfl

theorem fs_load (t : FS κ ν) (k : Key κ) (h : thruFile t k = false) (v : ν) :
    fsLoad t k = .ok v ↔ KV.load t.files k = some v := by
  unfold fsLoad
  rw [h]
  simp only [Bool.false_eq_true, if_false]
  cases hl : load t.files k with
  | none => simp; split <;> simp
  | some v' => simp

/-- in a well-formed tree a node of the contract is a file or a directory on disk -/
theorem node_on_disk {t : FS κ ν} (W : WF t) {k : Key κ} (hk : k ≠ []) (h : KV.exists t.files k = true) :
    isFile t k = true ∨ k ∈ t.dirs := by
  unfold KV.exists at h
  obtain ⟨e, he, hp⟩ := List.any_eq_true.mp h
  have hp' := List.isPrefixOf_iff_prefix.mp hp
  by_cases hek : k = e.1
  · left
    rw [isFile_iff]
    exact (load_isSome_iff t.files k).mpr ⟨e.2, by rw [hek]; exact he⟩
  · right
    exact W.parents_dirs e he k ((mem_parents e.1 k).mpr ⟨hp', hk, hek⟩)

theorem file_no_thru {t : FS κ ν} (W : WF t) {k : Key κ} (h : isFile t k = true) : thruFile t k = false := by
  obtain ⟨v, hv⟩ := (isFile_iff t k).mp h
  exact W.no_thru (k, v) (load_mem hv)

theorem fs_refines (sz : ν → Nat) (t : FS κ ν) (W : WF t) (k : Key κ) (hk : k ≠ [])
    (hc : classify t k = .file ∨ classify t k = .dir ∨ classify t k = .missing) :
    fsExists t k = KV.exists t.files k ∧
    fsStat sz t k = (match KV.stat sz t.files k with | some i => .ok i | none => .notexist) ∧
    (classify t k = .missing → fsLoad t k = .notexist ∧ ∀ r, fsList t k r = .notexist) := by
  unfold classify at hc ⊢
  by_cases hf : isFile t k = true
  · -- a file
    obtain ⟨v, hv⟩ := (isFile_iff t k).mp hf
    have hth := file_no_thru W hf
    have hex := exists_of_load hv
    refine ⟨?_, ?_, ?_⟩
    · simp [fsExists, hf, hex]
    · simp [fsStat, hth, hv, KV.stat]
    · intro h; simp [hf] at h
  · have hf' : isFile t k = false := by cases h : isFile t k <;> simp_all
    have hl : load t.files k = none := by
      cases h : load t.files k with
      | none => rfl
      | some v => exact absurd ((isFile_iff t k).mpr ⟨v, h⟩) hf
    by_cases hth : thruFile t k = true
    · simp [hf', hth] at hc
    · have hth' : thruFile t k = false := by cases h : thruFile t k <;> simp_all
      by_cases hex : KV.exists t.files k = true
      · -- a directory of the contract
        have hd : k ∈ t.dirs := by
          rcases node_on_disk W hk hex with h | h
          · exact absurd h hf
          · exact h
        have hD : isDir t k = true := (isDir_iff t k).mpr (Or.inr hd)
        refine ⟨?_, ?_, ?_⟩
        · simp [fsExists, hD, hex]
        · simp [fsStat, hth', hl, hD, KV.stat, hex]
        · intro h; simp [hf', hth', hex] at h
      · have hex' : KV.exists t.files k = false := by cases h : KV.exists t.files k <;> simp_all
        by_cases hD : isDir t k = true
        · simp [hf', hth', hex', hD] at hc
        · have hD' : isDir t k = false := by cases h : isDir t k <;> simp_all
          refine ⟨?_, ?_, ?_⟩
          · simp [fsExists, hf', hth', hD', hex']
          · simp [fsStat, hth', hl, hD', KV.stat, hex']
          · intro _
            refine ⟨by simp [fsLoad, hth', hl, hD'], fun r => by simp [fsList, hth', hf', hD']⟩

theorem wf_empty : WF (FS.empty : FS κ ν) := by
  refine ⟨?_, ?_, ?_, ?_, ?_, ?_⟩ <;> simp [FS.empty]

omit [DecidableEq κ] in
theorem parents_trans {a b c : Key κ} (h1 : a ∈ parents b) (h2 : b <+: c) : a ∈ parents c := by
  obtain ⟨hp, h0, hne⟩ := (mem_parents b a).mp h1
  refine (mem_parents c a).mpr ⟨hp.trans h2, h0, ?_⟩
  intro h
  subst h
  exact hne (List.IsPrefix.eq_of_length_le hp h2.length_le)

theorem wf_delete (t : FS κ ν) (W : WF t) (k : Key κ) : WF (fsDelete t k).2 := by
  unfold fsDelete
  split
  · exact W
  · have hsub : ∀ e, e ∈ KV.delete t.files k → e ∈ t.files ∧ ¬ k <+: e.1 := by
      intro e he
      have := List.mem_filter.mp he
      refine ⟨this.1, fun hp => ?_⟩
      have h2 := this.2
      rw [List.isPrefixOf_iff_prefix.mpr hp] at h2; cases h2
    have hdsub : ∀ d, d ∈ t.dirs.filter (fun d => !k.isPrefixOf d) → d ∈ t.dirs ∧ ¬ k <+: d := by
      intro d hd
      have := List.mem_filter.mp hd
      refine ⟨this.1, fun hp => ?_⟩
      have h2 := this.2
      rw [List.isPrefixOf_iff_prefix.mpr hp] at h2; cases h2
    have hkeep : ∀ d, d ∈ t.dirs → ¬ k <+: d → d ∈ t.dirs.filter (fun d => !k.isPrefixOf d) := by
      intro d hd hn
      refine List.mem_filter.mpr ⟨hd, ?_⟩
      cases h : k.isPrefixOf d
      · rfl
      · exact absurd (List.isPrefixOf_iff_prefix.mp h) hn
    have hthru : ∀ x, thruFile t x = false →
        thruFile ({ files := KV.delete t.files k, dirs := t.dirs.filter (fun d => !k.isPrefixOf d) } : FS κ ν) x = false := by
      intro x hx
      rw [thru_false_iff] at hx ⊢
      intro e he hp
      exact hx e (hsub e he).1 hp
    refine ⟨?_, ?_, ?_, ?_, ?_, ?_⟩
    · intro e he d hd
      obtain ⟨h1, h2⟩ := hsub e he
      refine hkeep d (W.parents_dirs e h1 d hd) (fun hp => h2 (hp.trans ((mem_parents e.1 d).mp hd).1))
    · intro d hd d' hd'
      obtain ⟨h1, h2⟩ := hdsub d hd
      refine hkeep d' (W.dirs_closed d h1 d' hd') (fun hp => h2 (hp.trans ((mem_parents d d').mp hd').1))
    · intro h; exact W.dirs_nonempty (hdsub [] h).1
    · intro e he
      obtain ⟨h1, _⟩ := hsub e he
      exact ⟨fun h => (W.file_not_dir e h1).1 (hdsub e.1 h).1, (W.file_not_dir e h1).2⟩
    · intro e he; exact hthru e.1 (W.no_thru e (hsub e he).1)
    · intro d hd; exact hthru d (W.dir_no_thru d (hdsub d hd).1)

theorem wf_store (t : FS κ ν) (W : WF t) (k : Key κ) (hk : k ≠ []) (v : ν) : WF (fsStore t k v).2 := by
  unfold fsStore
  split
  · exact W
  · rename_i hth
    have hth' : thruFile t k = false := by cases h : thruFile t k <;> simp_all
    have hnf := (thru_false_iff t k).mp hth'
    -- facts about the new directories
    have hpar_closed : ∀ d ∈ parents k, ∀ d' ∈ parents d, d' ∈ parents k :=
      fun d hd d' hd' => parents_trans hd' ((mem_parents k d).mp hd).1
    have hfile_not_par : ∀ e ∈ t.files, e.1 ∉ parents k := by
      intro e he hp
      obtain ⟨h1, _, h3⟩ := (mem_parents k e.1).mp hp
      exact h3 (hnf e he h1)
    have hpar_no_thru : ∀ d ∈ parents k, ∀ e ∈ t.files, e.1 <+: d → e.1 = d := by
      intro d hd e he hp
      obtain ⟨h1, _, h3⟩ := (mem_parents k d).mp hd
      have := hnf e he (hp.trans h1)
      rw [this] at hp
      exact absurd (List.IsPrefix.eq_of_length_le h1 hp.length_le) h3
    split
    · -- rename onto a directory fails; only the parents were made
      refine ⟨?_, ?_, ?_, ?_, ?_, ?_⟩
      · intro e he d hd
        exact (mem_addDirs _ _ _).mpr (Or.inl (W.parents_dirs e he d hd))
      · intro d hd d' hd'
        rcases (mem_addDirs _ _ _).mp hd with h | h
        · exact (mem_addDirs _ _ _).mpr (Or.inl (W.dirs_closed d h d' hd'))
        · exact (mem_addDirs _ _ _).mpr (Or.inr (hpar_closed d h d' hd'))
      · intro h
        rcases (mem_addDirs _ _ _).mp h with h | h
        · exact W.dirs_nonempty h
        · exact ((mem_parents k []).mp h).2.1 rfl
      · intro e he
        refine ⟨fun h => ?_, (W.file_not_dir e he).2⟩
        rcases (mem_addDirs _ _ _).mp h with h | h
        · exact (W.file_not_dir e he).1 h
        · exact hfile_not_par e he h
      · intro e he
        have := W.no_thru e he
        rw [thru_false_iff] at this ⊢
        exact this
      · intro d hd
        rw [thru_false_iff]
        rcases (mem_addDirs _ _ _).mp hd with h | h
        · exact (thru_false_iff t d).mp (W.dir_no_thru d h)
        · exact hpar_no_thru d h
    · rename_i hD
      have hkd : k ∉ t.dirs := fun h => hD ((isDir_iff t k).mpr (Or.inr h))
      have hmem : ∀ e, e ∈ KV.store t.files k v → e = (k, v) ∨ (e ∈ t.files ∧ e.1 ≠ k) := by
        intro e he
        unfold KV.store at he
        rcases List.mem_cons.mp he with h | h
        · exact Or.inl h
        · have := List.mem_filter.mp h
          exact Or.inr ⟨this.1, by simpa using this.2⟩
      -- an old file below k would make k a directory; an old directory below k likewise
      have hk_not_above_file : ∀ e ∈ t.files, k <+: e.1 → k = e.1 := by
        intro e he hp
        by_cases h : k = e.1
        · exact h
        · exact absurd (W.parents_dirs e he k ((mem_parents e.1 k).mpr ⟨hp, hk, h⟩)) hkd
      have hk_not_above_dir : ∀ d ∈ t.dirs, k <+: d → False := by
        intro d hd hp
        by_cases h : k = d
        · exact hkd (h ▸ hd)
        · exact hkd (W.dirs_closed d hd k ((mem_parents d k).mpr ⟨hp, hk, h⟩))
      refine ⟨?_, ?_, ?_, ?_, ?_, ?_⟩
      · intro e he d hd
        dsimp only at he ⊢
        rcases hmem e he with rfl | ⟨h1, _⟩
        · exact (mem_addDirs _ _ _).mpr (Or.inr hd)
        · exact (mem_addDirs _ _ _).mpr (Or.inl (W.parents_dirs e h1 d hd))
      · intro d hd d' hd'
        dsimp only at hd ⊢
        rcases (mem_addDirs _ _ _).mp hd with h | h
        · exact (mem_addDirs _ _ _).mpr (Or.inl (W.dirs_closed d h d' hd'))
        · exact (mem_addDirs _ _ _).mpr (Or.inr (hpar_closed d h d' hd'))
      · intro h
        dsimp only at h
        rcases (mem_addDirs _ _ _).mp h with h | h
        · exact W.dirs_nonempty h
        · exact ((mem_parents k []).mp h).2.1 rfl
      · intro e he
        dsimp only at he ⊢
        rcases hmem e he with rfl | ⟨h1, _⟩
        · refine ⟨fun h => ?_, hk⟩
          rcases (mem_addDirs _ _ _).mp h with h | h
          · exact hkd h
          · exact ((mem_parents k k).mp h).2.2 rfl
        · refine ⟨fun h => ?_, (W.file_not_dir e h1).2⟩
          rcases (mem_addDirs _ _ _).mp h with h | h
          · exact (W.file_not_dir e h1).1 h
          · exact hfile_not_par e h1 h
      · intro e he
        rw [thru_false_iff]
        dsimp only at he ⊢
        intro e' he' hp
        rcases hmem e he with rfl | ⟨h1, _⟩
        · rcases hmem e' he' with rfl | ⟨h1', _⟩
          · rfl
          · exact hnf e' h1' hp
        · rcases hmem e' he' with rfl | ⟨h1', _⟩
          · exact hk_not_above_file e h1 hp
          · exact (thru_false_iff t e.1).mp (W.no_thru e h1) e' h1' hp
      · intro d hd
        rw [thru_false_iff]
        dsimp only at hd ⊢
        intro e' he' hp
        rcases (mem_addDirs _ _ _).mp hd with h | h
        · rcases hmem e' he' with rfl | ⟨h1', _⟩
          · exact absurd hp (hk_not_above_dir d h)
          · exact (thru_false_iff t d).mp (W.dir_no_thru d h) e' h1' hp
        · rcases hmem e' he' with rfl | ⟨h1', _⟩
          · obtain ⟨h1, _, h3⟩ := (mem_parents k d).mp h
            exact absurd (List.IsPrefix.eq_of_length_le h1 hp.length_le) h3
          · exact hpar_no_thru d h e' h1' hp

theorem load_nil_none {t : FS κ ν} (W : WF t) : load t.files [] = none := by
  cases h : load t.files [] with
  | none => rfl
  | some v => exact absurd rfl (W.file_not_dir _ (load_mem h)).2

theorem fs_list (t : FS κ ν) (W : WF t) (p : Key κ) (r : Bool)
    (hp : p = [] ∨ classify t p = .dir) :
    ∃ l, fsList t p r = .ok l ∧
      (∀ x, (∃ want, KV.list t.files p r = some want ∧ x ∈ want) → x ∈ l) ∧
      (∀ x ∈ l, (∃ want, KV.list t.files p r = some want ∧ x ∈ want) ∨ classify t x = .linger) := by
  -- p is a directory on disk, not a file, not through a file; the contract lists it
  have hfacts : thruFile t p = false ∧ isFile t p = false ∧ isDir t p = true ∧
      (p = [] ∨ KV.exists t.files p = true) := by
    rcases hp with rfl | hc
    · refine ⟨?_, ?_, ?_, Or.inl rfl⟩
      · rw [thru_false_iff]; intro e _ h; exact List.prefix_nil.mp h
      · unfold isFile; rw [load_nil_none W]; rfl
      · simp [isDir]
    · unfold classify at hc
      by_cases hf : isFile t p = true
      · simp [hf] at hc
      · have hf' : isFile t p = false := by cases h : isFile t p <;> simp_all
        by_cases hth : thruFile t p = true
        · simp [hf', hth] at hc
        · have hth' : thruFile t p = false := by cases h : thruFile t p <;> simp_all
          by_cases hex : KV.exists t.files p = true
          · by_cases hp0 : p = []
            · exact ⟨hth', hf', by simp [isDir, hp0], Or.inl hp0⟩
            · refine ⟨hth', hf', ?_, Or.inr hex⟩
              rcases node_on_disk W hp0 hex with h | h
              · exact absurd h hf
              · exact (isDir_iff t p).mpr (Or.inr h)
          · have hex' : KV.exists t.files p = false := by cases h : KV.exists t.files p <;> simp_all
            by_cases hD : isDir t p = true
            · simp [hf', hth', hex', hD] at hc
            · have hD' : isDir t p = false := by cases h : isDir t p <;> simp_all
              simp [hf', hth', hex', hD'] at hc
  obtain ⟨hth, hf, hD, hex⟩ := hfacts
  have hlist : KV.list t.files p r = some (if r then descendants t.files p else children t.files p) :=
    list_some t.files p r hex
  refine ⟨(nodes t).filter (fun n =>
    p.isPrefixOf n && decide (p.length < n.length) && (r || n.length == p.length + 1)),
    by simp [fsList, hth, hf, hD], ?_, ?_⟩
  · rintro x ⟨want, hw, hx⟩
    rw [hlist] at hw
    simp only [Option.some.injEq] at hw
    subst hw
    -- x is a node strictly below p
    have hx' : p <+: x ∧ x ≠ p ∧ KV.exists t.files x = true ∧ (r = true ∨ x.length = p.length + 1) := by
      cases r with
      | true => simp at hx; have := (list_recursive t.files p x).mp hx; exact ⟨this.1, this.2.1, this.2.2, Or.inl rfl⟩
      | false =>
        simp at hx
        obtain ⟨⟨c, rfl⟩, he⟩ := (list_nonrecursive t.files p x).mp hx
        refine ⟨List.prefix_append _ _, ?_, he, Or.inr (by simp)⟩
        intro h; have := congrArg List.length h; simp at this
    obtain ⟨h1, h2, h3, h4⟩ := hx'
    have hlen : p.length < x.length := by
      rcases Nat.lt_or_ge p.length x.length with h | h
      · exact h
      · exact absurd (List.IsPrefix.eq_of_length_le h1 h).symm h2
    have hx0 : x ≠ [] := by intro h; rw [h] at hlen; simp at hlen
    refine List.mem_filter.mpr ⟨?_, ?_⟩
    · unfold nodes
      rcases node_on_disk W hx0 h3 with h | h
      · obtain ⟨v, hv⟩ := (isFile_iff t x).mp h
        exact List.mem_append_left _ (List.mem_map.mpr ⟨(x, v), load_mem hv, rfl⟩)
      · exact List.mem_append_right _ h
    · simp only [Bool.and_eq_true, Bool.or_eq_true, decide_eq_true_eq, beq_iff_eq]
      exact ⟨⟨List.isPrefixOf_iff_prefix.mpr h1, hlen⟩, h4⟩
  · intro x hx
    obtain ⟨hn, hc⟩ := List.mem_filter.mp hx
    simp only [Bool.and_eq_true, Bool.or_eq_true, decide_eq_true_eq, beq_iff_eq] at hc
    obtain ⟨⟨h1, hlen⟩, h4⟩ := hc
    have h1' := List.isPrefixOf_iff_prefix.mp h1
    have hne : x ≠ p := by intro h; rw [h] at hlen; omega
    by_cases he : KV.exists t.files x = true
    · left
      refine ⟨_, hlist, ?_⟩
      cases r with
      | true => simp; exact (list_recursive t.files p x).mpr ⟨h1', hne, he⟩
      | false =>
        simp at h4 ⊢
        refine (list_nonrecursive t.files p x).mpr ⟨?_, he⟩
        obtain ⟨tl, rfl⟩ := h1'
        rw [List.length_append] at h4
        match tl, h4 with
        | [c], _ => exact ⟨c, rfl⟩
        | [], h => simp at h
        | _ :: _ :: _, h => simp at h
    · right
      have he' : KV.exists t.files x = false := by cases h : KV.exists t.files x <;> simp_all
      have hnf : isFile t x = false := by
        cases h : isFile t x with
        | false => rfl
        | true =>
          obtain ⟨v, hv⟩ := (isFile_iff t x).mp h
          rw [exists_of_load hv] at he'; cases he'
      have hxd : x ∈ t.dirs := by
        unfold nodes at hn
        rcases List.mem_append.mp hn with h | h
        · obtain ⟨e, hem, rfl⟩ := List.mem_map.mp h
          have : isFile t e.1 = true := (isFile_iff t e.1).mpr ((load_isSome_iff t.files e.1).mpr ⟨e.2, hem⟩)
          rw [hnf] at this; cases this
        · exact h
      have hnt := W.dir_no_thru x hxd
      have hxD : isDir t x = true := (isDir_iff t x).mpr (Or.inr hxd)
      simp [classify, hnf, hnt, he', hxD]

end CM.FileTree
