import CM.Model.Account
/-!
# Accounts in use were written to storage (helper invariant for C20)

Ghost fields `regW`/`keyW` of the account protocol's state record which registrations and
private keys have been stored successfully at some time. The invariant `WInv` says that
everything a process carries from a read, a save or a reload — and in particular the account a
constructed client (`ready a b`) holds — was written to storage at some time, whatever faults
happened. Used by `C20_orders_only_with_persisted` in `CM/Props/C20.lean`.
-/
namespace CM.Account

/-- what a process's program counter carries was written to storage at some time -/
def pcW (rw kw : Nat → Bool) : PC → Prop
  | .loadKey a => rw a = true
  | .release r => ∀ a b, r = some (a, b) → rw a = true ∧ kw b = true
  | .saveKey k prev => rw k = true ∧ ∀ a, prev = some a → rw a = true
  | .rollback _ prev => ∀ a, prev = some a → rw a = true
  | .ready a b => rw a = true ∧ kw b = true
  | _ => True

structure WInv (s : St) : Prop where
  reg : ∀ a, s.reg = some a → s.regW a = true
  key : ∀ b, s.key = some b → s.keyW b = true
  pcs : ∀ q, pcW s.regW s.keyW (s.pc q)

theorem pcW_mono {rw kw rw' kw' : Nat → Bool} (hr : ∀ a, rw a = true → rw' a = true)
    (hk : ∀ a, kw a = true → kw' a = true) : ∀ {c : PC}, pcW rw kw c → pcW rw' kw' c := by
  intro c h
  cases c <;> try trivial
  · exact hr _ h
  · exact ⟨hr _ h.1, fun a ha => hr _ (h.2 a ha)⟩
  · exact fun a ha => hr _ (h a ha)
  · exact fun a b hab => ⟨hr _ (h a b hab).1, hk _ (h a b hab).2⟩
  · exact ⟨hr _ h.1, hk _ h.2⟩

theorem pcs_upd {rw kw rw' kw' : Nat → Bool} {pc : Nat → PC} {p : Nat} {v : PC}
    (hI : ∀ q, pcW rw kw (pc q)) (hr : ∀ a, rw a = true → rw' a = true)
    (hk : ∀ a, kw a = true → kw' a = true) (hv : pcW rw' kw' v) : ∀ q, pcW rw' kw' (upd pc p v q) := by
  intro q
  by_cases hq : q = p
  · subst hq; rw [upd_same]; exact hv
  · rw [upd_other (p := p) pc v hq]; exact pcW_mono hr hk (hI q)

theorem updB_true_mono {f : Nat → Bool} {k : Nat} : ∀ a, f a = true → updB f k true a = true := by
  intro a h; unfold updB; split <;> simp [h]

theorem updB_self (f : Nat → Bool) (k : Nat) : updB f k true k = true := by simp [updB]

theorem pcW_release_none {rw kw : Nat → Bool} : pcW rw kw (.release none) := fun _ _ hab => nomatch hab

theorem winv_init : WInv init := ⟨by simp [init], by simp [init], fun _ => by simp [init, pcW]⟩

theorem winv_step {s : St} {e : Ev} {s' : St} (hI : WInv s) (h : step s e = some s') : WInv s' := by
  have idr : ∀ a, s.regW a = true → s.regW a = true := fun _ h => h
  have idk : ∀ a, s.keyW a = true → s.keyW a = true := fun _ h => h
  cases e <;> simp only [step] at h <;> (repeat' split at h) <;> simp at h <;> subst h
  all_goals first
    | exact hI
    | exact ⟨hI.reg, hI.key, hI.pcs⟩
    | exact ⟨hI.reg, hI.key, pcs_upd hI.pcs idr idk trivial⟩
    | exact ⟨hI.reg, hI.key, pcs_upd hI.pcs idr idk pcW_release_none⟩
    | skip
  · -- loadReg: the registration read is the stored one
    rename_i a hreg
    exact ⟨hI.reg, hI.key, pcs_upd hI.pcs idr idk (hI.reg a hreg)⟩
  · -- loadKey: the key read is the stored one
    rename_i p _ _ a1 hpc _ _ a hkey
    have h1 := hI.pcs p; rw [hpc] at h1
    exact ⟨hI.reg, hI.key, pcs_upd hI.pcs idr idk ⟨h1, hI.key a hkey⟩⟩
  · -- reload under the lock: what loadAccount returns is stored
    rename_i ab hst
    refine ⟨hI.reg, hI.key, pcs_upd hI.pcs idr idk ?_⟩
    intro a b hab
    simp only [Option.some.injEq] at hab; subst hab
    unfold stored at hst
    split at hst
    · simp only [Option.some.injEq, Prod.mk.injEq] at hst
      obtain ⟨h1, h2⟩ := hst; subst h1; subst h2
      rename_i hr hk
      exact ⟨hI.reg _ hr, hI.key _ hk⟩
    · simp at hst
  · -- saveReg succeeds
    rename_i p _ _ k hpc _
    refine ⟨?_, hI.key, pcs_upd hI.pcs updB_true_mono idk ⟨updB_self _ _, ?_⟩⟩
    · intro a ha; simp only [Option.some.injEq] at ha; subst ha; exact updB_self _ _
    · intro a ha; exact updB_true_mono a (hI.reg a ha)
  · -- saveKey succeeds
    rename_i p _ _ k prev hpc _
    have h1 := hI.pcs p; rw [hpc] at h1
    refine ⟨hI.reg, ?_, pcs_upd hI.pcs idr updB_true_mono ?_⟩
    · intro b hb; simp only [Option.some.injEq] at hb; subst hb; exact updB_self _ _
    · intro a b hab; simp only [Option.some.injEq, Prod.mk.injEq] at hab
      obtain ⟨h2, h3⟩ := hab; subst h2; subst h3
      exact ⟨h1.1, updB_self _ _⟩
  · -- saveKey fails: the roll-back will put back what was stored
    rename_i p _ _ k prev hpc _
    have h1 := hI.pcs p; rw [hpc] at h1
    exact ⟨hI.reg, hI.key, pcs_upd hI.pcs idr idk h1.2⟩
  · -- rollback succeeds
    rename_i p _ _ k prev hpc _
    have h1 := hI.pcs p; rw [hpc] at h1
    exact ⟨h1, hI.key, pcs_upd hI.pcs idr idk pcW_release_none⟩
  · -- release, account returned
    rename_i p _ _ _ _ a b hpc
    have h1 := hI.pcs p; rw [hpc] at h1
    exact ⟨hI.reg, hI.key, pcs_upd hI.pcs idr idk (h1 a b rfl)⟩
  · rename_i p _ _ _ _ a b hpc
    have h1 := hI.pcs p; rw [hpc] at h1
    exact ⟨hI.reg, hI.key, pcs_upd hI.pcs idr idk (h1 a b rfl)⟩
  · exact ⟨fun _ h => by simp at h, hI.key, pcs_upd hI.pcs idr idk (v := .dneDelKey _) trivial⟩
  · exact ⟨hI.reg, fun _ h => by simp at h, pcs_upd hI.pcs idr idk (v := .dneRel true) trivial⟩

theorem winv_reach {s : St} (h : Reach s) : WInv s := by
  induction h with
  | init => exact winv_init
  | step _ hs ih => exact winv_step ih hs
end CM.Account
