import CM.Proofs.Issue
/-!
Termination measure for the issuance LTS (C01 "nobody hangs"): every step of a request
`p < n` strictly decreases `mu n s` — a sum over the first `n` requests of a rank of their
program counter plus a multiple of their remaining retry budget, plus one while the lock is
held. Hence every run of `n` requests is finite, with an explicit bound.
-/
namespace CM.Issue

def total (f : Nat → Nat) : Nat → Nat
  | 0 => 0
  | n + 1 => total f n + f n

theorem total_upd_ge (f : Nat → Nat) (n p v : Nat) (hp : n ≤ p) : total (upd f p v) n = total f n := by
  induction n with
  | zero => rfl
  | succ n ih =>
    have : upd f p v n = f n := by simp [upd]; omega
    simp [total, this, ih (by omega)]

theorem total_upd_lt (f : Nat → Nat) (n p v d : Nat) (hp : p < n) (hv : v + d ≤ f p) :
    total (upd f p v) n + d ≤ total f n := by
  induction n with
  | zero => omega
  | succ n ih =>
    by_cases h : p = n
    · subst h
      have := total_upd_ge f p p v (Nat.le_refl _)
      simp [total, this, upd]; omega
    · have := ih (by omega)
      have hn : upd f p v n = f n := by simp [upd]; omega
      simp [total, hn]; omega

def rank : Kind → PC → Nat
  | .manage, .start => 13
  | _, .start => 12
  | _, .wantLock => 11
  | _, .recheck => 9
  | _, .issueBegin => 8
  | _, .issuing => 7
  | _, .save => 6
  | _, .failed => 5
  | _, .release _ => 4
  | _, .done _ => 0
  | _, .dead => 0

/-- weight of request `p`: each retry costs 10, more than a retry gains in rank -/
def wt (s : St) (p : Nat) : Nat := rank (s.kind p) (s.pc p) + 10 * s.budget p

def lockTerm (s : St) : Nat := if s.lock.isSome then 1 else 0

def mu (n : Nat) (s : St) : Nat := lockTerm s + total (wt s) n

/-- a step that changes only request `p` (and possibly the lock) -/
theorem mu_lt {n : Nat} {s s' : St} {p : Nat} (hp : p < n)
    (hframe : ∀ q, q ≠ p → s'.pc q = s.pc q ∧ s'.kind q = s.kind q ∧ s'.budget q = s.budget q)
    (hdec : lockTerm s' + wt s' p + 1 ≤ lockTerm s + wt s p) : mu n s' < mu n s := by
  have hw : wt s' = upd (wt s) p (wt s' p) := by
    funext q
    by_cases hq : q = p
    · subst hq; simp [upd]
    · obtain ⟨h1, h2, h3⟩ := hframe q hq
      simp [upd, hq, wt, h1, h2, h3]
  have hL : lockTerm s ≤ 1 := by unfold lockTerm; split <;> omega
  have hL' : lockTerm s' ≤ 1 := by unfold lockTerm; split <;> omega
  have hle : wt s' p ≤ wt s p := by omega
  have := total_upd_lt (wt s) n p (wt s' p) (wt s p - wt s' p) hp (by omega)
  unfold mu
  rw [hw]
  omega

@[simp] theorem rank_wantLock (k : Kind) : rank k .wantLock = 11 := by cases k <;> rfl
@[simp] theorem rank_recheck (k : Kind) : rank k .recheck = 9 := by cases k <;> rfl
@[simp] theorem rank_issueBegin (k : Kind) : rank k .issueBegin = 8 := by cases k <;> rfl
@[simp] theorem rank_issuing (k : Kind) : rank k .issuing = 7 := by cases k <;> rfl
@[simp] theorem rank_save (k : Kind) : rank k .save = 6 := by cases k <;> rfl
@[simp] theorem rank_failed (k : Kind) : rank k .failed = 5 := by cases k <;> rfl
@[simp] theorem rank_release (k : Kind) (ok : Bool) : rank k (.release ok) = 4 := by cases k <;> rfl
@[simp] theorem rank_done (k : Kind) (ok : Bool) : rank k (.done ok) = 0 := by cases k <;> rfl
@[simp] theorem rank_dead (k : Kind) : rank k .dead = 0 := by cases k <;> rfl
@[simp] theorem rank_start_manage : rank .manage .start = 13 := rfl
@[simp] theorem rank_start_obtain : rank .obtain .start = 12 := rfl
@[simp] theorem rank_start_renew : rank .renew .start = 12 := rfl
theorem rank_start_ge (k : Kind) : 12 ≤ rank k .start := by cases k <;> simp
theorem rank_le (k : Kind) (c : PC) : rank k c ≤ 13 := by cases k <;> cases c <;> simp [rank]
theorem rank_pos (k : Kind) (c : PC) (h1 : ∀ ok, c ≠ .done ok) (h2 : c ≠ .dead) : 1 ≤ rank k c := by
  cases c <;> cases k <;> simp [rank] <;> simp_all

/-- the request an event belongs to (`expire` belongs to nobody) -/
def Ev.proc : Ev → Option Nat
  | .pre p | .acq p | .recheck p | .issueBegin p | .issueEnd p _ | .saveOk p | .saveFail p _
  | .retry p | .giveUp p | .rel p | .die p => some p
  | .expire => none

theorem step_decreases {due : Ver → Bool} {n : Nat} {s s' : St} {e : Ev} (hi : Inv due s)
    (hp : ∀ p, e.proc = some p → p < n) (h : step due s e = some s') : mu n s' < mu n s := by
  have hL : lockTerm s ≤ 1 := by unfold lockTerm; split <;> omega
  cases e with
  | pre p =>
    have hpn := hp p rfl
    simp only [step] at h
    split at h
    · rename_i hc
      split at h
      · rename_i hk
        simp at h; subst h
        refine mu_lt hpn (fun q hq => by simp [upd, hq]) ?_
        have : lockTerm { s with pc := upd s.pc p (if s.stored.isSome then PC.done true else PC.wantLock) } = lockTerm s := rfl
        simp only [this, wt, upd_same, hc, hk]
        split <;> simp <;> omega
      · rename_i hk
        simp at h; subst h
        refine mu_lt hpn (fun q hq => by simp [upd, hq]) ?_
        have : lockTerm { s with pc := upd s.pc p PC.wantLock } = lockTerm s := rfl
        simp [this, wt, hc, hk] <;> omega
      · rename_i hk
        split at h
        · simp at h; subst h
          refine mu_lt hpn (fun q hq => by simp [upd, hq]) ?_
          have : lockTerm { s with kind := upd s.kind p Kind.obtain } = lockTerm s := rfl
          simp [this, wt, hc, hk] <;> omega
        · split at h
          · simp at h; subst h
            refine mu_lt hpn (fun q hq => by simp [upd, hq]) ?_
            have : lockTerm { s with kind := upd s.kind p Kind.renew } = lockTerm s := rfl
            simp [this, wt, hc, hk] <;> omega
          · simp at h; subst h
            refine mu_lt hpn (fun q hq => by simp [upd, hq]) ?_
            have : lockTerm { s with pc := upd s.pc p (PC.done true) } = lockTerm s := rfl
            simp [this, wt, hc, hk] <;> omega
    · simp at h
  | acq p =>
    have hpn := hp p rfl
    simp only [step] at h
    split at h
    · rename_i hc
      simp at h; subst h
      refine mu_lt hpn (fun q hq => by simp [upd, hq]) ?_
      simp [lockTerm, wt, hc.1, hc.2] <;> omega
    · simp at h
  | recheck p =>
    have hpn := hp p rfl
    simp only [step] at h
    split at h
    · rename_i hc
      split at h
      · split at h
        · simp at h; subst h
          refine mu_lt hpn (fun q hq => by simp [upd, hq]) ?_
          have : lockTerm { s with pc := upd s.pc p PC.failed } = lockTerm s := rfl
          simp [this, wt, hc] <;> omega
        · rename_i v hv
          simp at h; subst h
          refine mu_lt hpn (fun q hq => by simp [upd, hq]) ?_
          have : lockTerm { s with pc := upd s.pc p (if due v then PC.issueBegin else PC.release true) } = lockTerm s := rfl
          simp only [this, wt, upd_same, hc]
          split <;> simp <;> omega
      · simp at h; subst h
        refine mu_lt hpn (fun q hq => by simp [upd, hq]) ?_
        have : lockTerm { s with pc := upd s.pc p (if s.stored.isSome then PC.release true else PC.issueBegin) } = lockTerm s := rfl
        simp only [this, wt, upd_same, hc]
        split <;> simp <;> omega
    · simp at h
  | issueBegin p =>
    have hpn := hp p rfl
    simp only [step] at h
    split at h
    · rename_i hc
      simp at h; subst h
      refine mu_lt hpn (fun q hq => by simp [upd, hq]) ?_
      have : lockTerm { s with pc := upd s.pc p PC.issuing, contacted := upd s.contacted p true } = lockTerm s := rfl
      simp [this, wt, hc] <;> omega
    · simp at h
  | issueEnd p ok =>
    have hpn := hp p rfl
    simp only [step] at h
    split at h
    · rename_i hc
      simp at h; subst h
      refine mu_lt hpn (fun q hq => by simp [upd, hq]) ?_
      have : lockTerm { s with pc := upd s.pc p (if ok then PC.save else PC.failed), issuedBy := if ok then upd s.issuedBy p (s.issuedBy p + 1) else s.issuedBy } = lockTerm s := rfl
      simp only [this, wt, upd_same, hc]
      cases ok <;> simp <;> omega
    · simp at h
  | saveOk p =>
    have hpn := hp p rfl
    simp only [step] at h
    split at h
    · rename_i hc
      simp at h; subst h
      refine mu_lt hpn (fun q hq => by simp [upd, hq]) ?_
      have : lockTerm { s with stored := some s.next, next := s.next + 1, pc := upd s.pc p (PC.release true) } = lockTerm s := rfl
      simp [this, wt, hc] <;> omega
    · simp at h
  | saveFail p k =>
    have hpn := hp p rfl
    simp only [step] at h
    split at h
    · rename_i hc
      simp at h; subst h
      refine mu_lt hpn (fun q hq => by simp [upd, hq]) ?_
      have : lockTerm { s with pc := upd s.pc p PC.failed } = lockTerm s := rfl
      simp [this, wt, hc] <;> omega
    · simp at h
  | retry p =>
    have hpn := hp p rfl
    simp only [step] at h
    split at h
    · rename_i hc
      simp at h; subst h
      refine mu_lt hpn (fun q hq => by simp [upd, hq]) ?_
      have : lockTerm { s with pc := upd s.pc p PC.recheck, budget := upd s.budget p (s.budget p - 1) } = lockTerm s := rfl
      have hb := hc.2.2
      simp only [this, wt, upd_same, hc.1, rank_recheck, rank_failed]
      omega
    · simp at h
  | giveUp p =>
    have hpn := hp p rfl
    simp only [step] at h
    split at h
    · rename_i hc
      simp at h; subst h
      refine mu_lt hpn (fun q hq => by simp [upd, hq]) ?_
      have : lockTerm { s with pc := upd s.pc p (PC.release false) } = lockTerm s := rfl
      simp [this, wt, hc] <;> omega
    · simp at h
  | rel p =>
    have hpn := hp p rfl
    simp only [step] at h
    split at h
    · rename_i ok hc
      simp at h; subst h
      refine mu_lt hpn (fun q hq => by simp [upd, hq]) ?_
      have : lockTerm { s with lock := none, pc := upd s.pc p (PC.done ok) } = 0 := rfl
      simp [this, wt, hc] <;> omega
    · simp at h
  | die p =>
    have hpn := hp p rfl
    simp only [step] at h
    split at h
    · simp at h
    · simp at h
    · rename_i h1 h2
      simp at h; subst h
      refine mu_lt hpn (fun q hq => by simp [upd, hq]) ?_
      have : lockTerm { s with pc := upd s.pc p PC.dead } = lockTerm s := rfl
      have := rank_pos (s.kind p) (s.pc p) (fun ok hd => h1 ok hd) h2
      simp only [*, wt, upd_same, rank_dead]
      omega
  | expire =>
    simp only [step] at h
    split at h
    · rename_i q hq
      split at h
      · simp at h; subst h
        have h0 : lockTerm { s with lock := none } = 0 := rfl
        have h1 : lockTerm s = 1 := by simp [lockTerm, hq]
        have hw : wt { s with lock := none } = wt s := rfl
        unfold mu
        rw [h0, h1, hw]; omega
      · simp at h
    · simp at h

/-- every run of requests `< n` from `s` has at most `mu n s` steps -/
theorem run_length_le {due : Ver → Bool} {n : Nat} :
    ∀ (es : List Ev) (s s' : St), Inv due s → (∀ e ∈ es, ∀ p, e.proc = some p → p < n) →
      run due s es = some s' → es.length + mu n s' ≤ mu n s := by
  intro es
  induction es with
  | nil => intro s s' _ _ hr; simp [run] at hr; subst hr; simp
  | cons e es ih =>
    intro s s' hi hp hr
    simp only [run] at hr
    cases hs : step due s e with
    | none => simp [hs] at hr
    | some s1 =>
      simp only [hs] at hr
      have h1 := step_decreases (n := n) hi (fun p hpe => hp e (by simp) p hpe) hs
      have h2 := ih s1 s' (inv_step hi hs) (fun e' he' => hp e' (List.mem_cons_of_mem _ he')) hr
      simp only [List.length_cons]
      omega

end CM.Issue
