import CM.Model.Cache
/-! Helper lemmas for C12: association lists as maps, the two index folds, and the
preservation of each part of `Inv` by the building blocks of the operations. -/
namespace CM.Cache

section AL
variable {α β : Type} [DecidableEq α]

@[simp] theorem get?_nil (k : α) : get? k ([] : List (α × β)) = none := rfl

theorem get?_cons (k k' : α) (v : β) (r : List (α × β)) :
    get? k ((k', v) :: r) = if k' = k then some v else get? k r := rfl

@[simp] theorem erase_nil (k : α) : erase k ([] : List (α × β)) = [] := rfl

theorem erase_cons (k k' : α) (v : β) (r : List (α × β)) :
    erase k ((k', v) :: r) = if k' = k then erase k r else (k', v) :: erase k r := by
  by_cases h : k' = k <;> simp [erase, h]

theorem get?_erase_self (k : α) (l : List (α × β)) : get? k (erase k l) = none := by
  induction l with
  | nil => rfl
  | cons p r ih =>
    obtain ⟨k', v⟩ := p
    rw [erase_cons]
    by_cases h : k' = k
    · simp [h, ih]
    · simp [h, get?_cons, ih]

theorem get?_erase_ne {k k' : α} (h : k' ≠ k) (l : List (α × β)) : get? k' (erase k l) = get? k' l := by
  induction l with
  | nil => rfl
  | cons p r ih =>
    obtain ⟨k₂, v⟩ := p
    rw [erase_cons]
    by_cases h2 : k₂ = k
    · have : k₂ ≠ k' := fun e => h (e ▸ h2)
      simp [h2, get?_cons, ih]
      intro e; exact absurd e.symm h
    · simp [h2, get?_cons, ih]

theorem get?_put_self (k : α) (v : β) (l : List (α × β)) : get? k (put k v l) = some v := by
  simp [put, get?_cons]

theorem get?_put_ne {k k' : α} (h : k' ≠ k) (v : β) (l : List (α × β)) : get? k' (put k v l) = get? k' l := by
  have : ¬ k = k' := fun e => h e.symm
  simp [put, get?_cons, this, get?_erase_ne h]

theorem get?_put (k k' : α) (v : β) (l : List (α × β)) :
    get? k' (put k v l) = if k' = k then some v else get? k' l := by
  by_cases h : k' = k
  · subst h; simp [get?_put_self]
  · simp [h, get?_put_ne h]

theorem get?_erase (k k' : α) (l : List (α × β)) :
    get? k' (erase k l) = if k' = k then none else get? k' l := by
  by_cases h : k' = k
  · subst h; simp [get?_erase_self]
  · simp [h, get?_erase_ne h]

theorem length_erase_le (k : α) (l : List (α × β)) : (erase k l).length ≤ l.length :=
  List.length_filter_le _ _

theorem length_erase_lt {k : α} {v : β} {l : List (α × β)} (h : get? k l = some v) :
    (erase k l).length < l.length := by
  induction l with
  | nil => simp at h
  | cons p r ih =>
    obtain ⟨k', v'⟩ := p
    rw [erase_cons]
    by_cases h2 : k' = k
    · simp only [h2, if_true, List.length_cons]
      have := length_erase_le k r
      omega
    · simp only [h2, if_false, List.length_cons]
      rw [get?_cons] at h
      simp only [h2, if_false] at h
      have := ih h
      omega

theorem get?_none_of_not_mem_keys {k : α} {l : List (α × β)} (h : k ∉ keys l) : get? k l = none := by
  induction l with
  | nil => rfl
  | cons p r ih =>
    obtain ⟨k', v⟩ := p
    simp only [keys, List.map_cons, List.mem_cons, not_or] at h
    rw [get?_cons]
    have : ¬ k' = k := fun e => h.1 e.symm
    simp only [this, if_false]
    exact ih h.2

theorem mem_keys_of_get? {k : α} {v : β} {l : List (α × β)} (h : get? k l = some v) : k ∈ keys l := by
  induction l with
  | nil => simp at h
  | cons p r ih =>
    obtain ⟨k', v'⟩ := p
    rw [get?_cons] at h
    by_cases h2 : k' = k
    · simp [keys, h2]
    · simp only [h2, if_false] at h
      have := ih h
      simp only [keys, List.map_cons, List.mem_cons]
      exact Or.inr this

theorem mem_of_get? {k : α} {v : β} {l : List (α × β)} (h : get? k l = some v) : (k, v) ∈ l := by
  induction l with
  | nil => simp at h
  | cons p r ih =>
    obtain ⟨k', v'⟩ := p
    rw [get?_cons] at h
    by_cases h2 : k' = k
    · simp only [h2, if_true, Option.some.injEq] at h
      simp [h2, h]
    · simp only [h2, if_false] at h
      exact List.mem_cons_of_mem _ (ih h)

theorem get?_of_mem_nodup {k : α} {v : β} {l : List (α × β)} (hn : (keys l).Nodup) (h : (k, v) ∈ l) :
    get? k l = some v := by
  induction l with
  | nil => simp at h
  | cons p r ih =>
    obtain ⟨k', v'⟩ := p
    simp only [keys, List.map_cons, List.nodup_cons] at hn
    rw [get?_cons]
    rcases List.mem_cons.mp h with h | h
    · cases h; simp
    · have hk : k ∈ keys r := List.mem_map.mpr ⟨(k, v), h, rfl⟩
      have : ¬ k' = k := fun e => hn.1 (e ▸ hk)
      simp only [this, if_false]
      exact ih hn.2 h

theorem keys_erase_sublist (k : α) (l : List (α × β)) : (keys (erase k l)).Sublist (keys l) := by
  unfold keys erase
  exact (List.filter_sublist).map _

theorem not_mem_keys_erase (k : α) (l : List (α × β)) : k ∉ keys (erase k l) := by
  intro h
  unfold keys erase at h
  obtain ⟨p, hp, rfl⟩ := List.mem_map.mp h
  have := (List.mem_filter.mp hp).2
  simp at this

theorem nodup_erase {l : List (α × β)} (k : α) (h : (keys l).Nodup) : (keys (erase k l)).Nodup :=
  (keys_erase_sublist k l).nodup h

theorem nodup_put {l : List (α × β)} (k : α) (v : β) (h : (keys l).Nodup) : (keys (put k v l)).Nodup := by
  show (k :: keys (erase k l)).Nodup
  exact List.nodup_cons.mpr ⟨not_mem_keys_erase k l, nodup_erase k h⟩

theorem length_put_le (k : α) (v : β) (l : List (α × β)) : (put k v l).length ≤ l.length + 1 := by
  have := length_erase_le k l
  simp only [put, List.length_cons]; omega

theorem length_put_of_get? {k : α} {v v' : β} {l : List (α × β)} (h : get? k l = some v') :
    (put k v l).length ≤ l.length := by
  have := length_erase_lt h
  simp only [put, List.length_cons]; omega

end AL

/-! ### folds over the names of a certificate -/

theorem foldl_preserves {σ ι : Type} (P : σ → Prop) (f : σ → ι → σ) (hf : ∀ s i, P s → P (f s i)) :
    ∀ (l : List ι) (s : σ), P s → P (l.foldl f s) := by
  intro l
  induction l with
  | nil => intro s h; exact h
  | cons a r ih => intro s h; exact ih _ (hf s a h)

theorem unindex_eq (h : Hash) (idx : List (Name × List Hash)) (n : Name) :
    unindex h idx n =
      if (idxGet idx n).filter (fun x => decide (x ≠ h)) = [] then erase n idx
      else put n ((idxGet idx n).filter (fun x => decide (x ≠ h))) idx := rfl

theorem idxGet_unindex (h : Hash) (idx : List (Name × List Hash)) (m n : Name) :
    idxGet (unindex h idx m) n =
      if n = m then (idxGet idx n).filter (fun x => decide (x ≠ h)) else idxGet idx n := by
  rw [unindex_eq]
  by_cases hnm : n = m
  · subst hnm
    simp only [if_true]
    split
    · rename_i hl
      rw [hl]
      simp [idxGet, get?_erase_self]
    · simp [idxGet, get?_put_self]
  · simp only [hnm, if_false]
    split
    · simp [idxGet, get?_erase_ne hnm]
    · simp [idxGet, get?_put_ne hnm]

theorem idxGet_foldl_unindex (h : Hash) (names : List Name) :
    ∀ (idx : List (Name × List Hash)) (n : Name),
    idxGet (names.foldl (unindex h) idx) n =
      if n ∈ names then (idxGet idx n).filter (fun x => decide (x ≠ h)) else idxGet idx n := by
  induction names with
  | nil => intro idx n; simp
  | cons m ms ih =>
    intro idx n
    rw [List.foldl_cons, ih, idxGet_unindex]
    by_cases h1 : n = m
    · subst h1
      by_cases h2 : n ∈ ms <;> simp [h2, List.filter_filter]
    · by_cases h2 : n ∈ ms <;> simp [h1, h2]

theorem idxGet_addIndex (h : Hash) (idx : List (Name × List Hash)) (m n : Name) :
    idxGet (addIndex h idx m) n = if n = m then idxGet idx n ++ [h] else idxGet idx n := by
  unfold addIndex
  by_cases hnm : n = m
  · subst hnm; simp [idxGet, get?_put_self]
  · simp [hnm, idxGet, get?_put_ne hnm]

theorem idxGet_foldl_addIndex (h : Hash) (names : List Name) :
    ∀ (idx : List (Name × List Hash)) (n : Name),
    idxGet (names.foldl (addIndex h) idx) n = idxGet idx n ++ List.replicate (names.count n) h := by
  induction names with
  | nil => intro idx n; simp
  | cons m ms ih =>
    intro idx n
    rw [List.foldl_cons, ih, idxGet_addIndex]
    by_cases h1 : n = m
    · subst h1
      simp [List.count_cons_self, List.replicate_succ]
    · have : (m == n) = false := by simp; exact fun e => h1 e.symm
      simp [h1, List.count_cons, this]

def NoEmpty (idx : List (Name × List Hash)) : Prop := ∀ n l, get? n idx = some l → l ≠ []

theorem noEmpty_unindex (h : Hash) (idx : List (Name × List Hash)) (m : Name) (hi : NoEmpty idx) :
    NoEmpty (unindex h idx m) := by
  intro n l hl
  rw [unindex_eq] at hl
  split at hl
  · rw [get?_erase] at hl
    split at hl
    · simp at hl
    · exact hi n l hl
  · rename_i hne
    rw [get?_put] at hl
    split at hl
    · cases hl; exact hne
    · exact hi n l hl

theorem noEmpty_addIndex (h : Hash) (idx : List (Name × List Hash)) (m : Name) (hi : NoEmpty idx) :
    NoEmpty (addIndex h idx m) := by
  intro n l hl
  unfold addIndex at hl
  rw [get?_put] at hl
  split at hl
  · cases hl; simp
  · exact hi n l hl

theorem nodup_unindex (h : Hash) (idx : List (Name × List Hash)) (m : Name) (hi : (keys idx).Nodup) :
    (keys (unindex h idx m)).Nodup := by
  rw [unindex_eq]
  split
  · exact nodup_erase _ hi
  · exact nodup_put _ _ hi

theorem nodup_addIndex (h : Hash) (idx : List (Name × List Hash)) (m : Name) (hi : (keys idx).Nodup) :
    (keys (addIndex h idx m)).Nodup := nodup_put _ _ hi

/-! ### preservation of the invariant by the building blocks -/

theorem count_filter_ne_self (h : Hash) (l : List Hash) :
    (l.filter (fun x => decide (x ≠ h))).count h = 0 := by
  apply List.count_eq_zero.mpr
  intro hm
  have := (List.mem_filter.mp hm).2
  simp at this

theorem count_filter_ne_other {h h' : Hash} (hne : h' ≠ h) (l : List Hash) :
    (l.filter (fun x => decide (x ≠ h))).count h' = l.count h' := by
  apply List.count_filter
  simpa using hne

theorem inv_init (cap : Nat) : Inv (init cap) := by
  refine ⟨?_, ?_, ?_, ?_, ?_, ?_⟩ <;> simp [init, keys, hashesOf, idxGet]

theorem inv_removeCert {s : State} {c : Cert} (hI : Inv s) (ha : agrees s c = true) :
    Inv (removeCert c s) := by
  refine ⟨?_, ?_, ?_, ?_, ?_, ?_⟩
  · exact nodup_erase _ hI.nodupC
  · exact foldl_preserves (fun idx => (keys idx).Nodup) _ (fun idx m h => nodup_unindex _ idx m h) _ _ hI.nodupI
  · intro h c' hc
    simp only [removeCert] at hc
    rw [get?_erase] at hc
    split at hc
    · simp at hc
    · exact hI.keyHash h c' hc
  · intro n h
    simp only [removeCert, hashesOf]
    rw [idxGet_foldl_unindex, get?_erase]
    have hag := hI.agree n h
    simp only [hashesOf] at hag
    by_cases hh : h = c.hash
    · simp only [hh, if_true]
      by_cases hn : n ∈ c.names
      · simp only [hn, if_true]
        exact count_filter_ne_self _ _
      · simp only [hn, if_false]
        rw [hh] at hag
        rw [hag]
        unfold agrees at ha
        cases hg : get? c.hash s.cache with
        | none => rfl
        | some e =>
          simp only [hg, decide_eq_true_eq] at ha
          simp only [ha]
          exact List.count_eq_zero.mpr hn
    · simp only [hh, if_false]
      by_cases hn : n ∈ c.names
      · simp only [hn, if_true]
        rw [count_filter_ne_other hh]
        exact hag
      · simp only [hn, if_false]
        exact hag
  · exact foldl_preserves NoEmpty _ (fun idx m h => noEmpty_unindex _ idx m h) _ _ hI.noEmpty
  · intro hc
    have := hI.capOK hc
    have := length_erase_le c.hash s.cache
    simp only [removeCert]
    omega

theorem length_removeCert_le (c : Cert) (s : State) : (removeCert c s).cache.length ≤ s.cache.length :=
  length_erase_le _ _

theorem cap_removeCert (c : Cert) (s : State) : (removeCert c s).cap = s.cap := rfl

theorem inv_insertNew {s : State} {c : Cert} (hI : Inv s) (hn : get? c.hash s.cache = none)
    (hh : c.hash ≠ "") (hroom : s.cap > 0 → s.cache.length < s.cap) : Inv (insertNew c s) := by
  refine ⟨?_, ?_, ?_, ?_, ?_, ?_⟩
  · exact nodup_put _ _ hI.nodupC
  · exact foldl_preserves (fun idx => (keys idx).Nodup) _ (fun idx m h => nodup_addIndex _ idx m h) _ _ hI.nodupI
  · intro h c' hc
    simp only [insertNew] at hc
    rw [get?_put] at hc
    split at hc
    · rename_i e
      cases hc
      exact ⟨e.symm, e ▸ hh⟩
    · exact hI.keyHash h c' hc
  · intro n h
    simp only [insertNew, hashesOf]
    rw [idxGet_foldl_addIndex, get?_put, List.count_append]
    have hag := hI.agree n h
    simp only [hashesOf] at hag
    by_cases he : h = c.hash
    · simp only [he, if_true]
      rw [he, hn] at hag
      simp only at hag
      rw [hag, List.count_replicate_self]
      omega
    · simp only [he, if_false]
      rw [hag]
      have : List.count h (List.replicate (List.count n c.names) c.hash) = 0 := by
        apply List.count_eq_zero.mpr
        intro hm
        exact he (List.eq_of_mem_replicate hm)
      omega
  · exact foldl_preserves NoEmpty _ (fun idx m h => noEmpty_addIndex _ idx m h) _ _ hI.noEmpty
  · intro hc
    have := hroom hc
    have := length_put_le c.hash c s.cache
    simp only [insertNew]
    omega

/-- overwriting a cached certificate by one with the same hash and names -/
theorem inv_overwrite {s : State} {h : Hash} {e e' : Cert} (hI : Inv s) (hg : get? h s.cache = some e)
    (hnames : e'.names = e.names) (hhash : e'.hash = h) : Inv { s with cache := put h e' s.cache } := by
  refine ⟨?_, hI.nodupI, ?_, ?_, hI.noEmpty, ?_⟩
  · exact nodup_put _ _ hI.nodupC
  · intro h2 c' hc
    simp only at hc
    rw [get?_put] at hc
    split at hc
    · rename_i e2
      cases hc
      exact ⟨e2 ▸ hhash, e2 ▸ (hI.keyHash h e hg).2⟩
    · exact hI.keyHash h2 c' hc
  · intro n h2
    simp only [hashesOf]
    rw [get?_put]
    have hag := hI.agree n h2
    simp only [hashesOf] at hag
    by_cases he : h2 = h
    · simp only [he, if_true]
      rw [he, hg] at hag
      rw [hnames]; exact hag
    · simp only [he, if_false]
      exact hag
  · intro hc
    have := hI.capOK hc
    have := length_put_of_get? (v := e') hg
    simp only
    omega

theorem agrees_cached {s : State} {h : Hash} (hI : Inv s) :
    agrees s ((get? h s.cache).getD zeroCert) = true := by
  unfold agrees
  cases hg : get? h s.cache with
  | none =>
    simp only [Option.getD_none, zeroCert]
    cases hz : get? "" s.cache with
    | none => rfl
    | some e => exact absurd rfl (hI.keyHash "" e hz).2
  | some e =>
    simp only [Option.getD_some]
    have := (hI.keyHash h e hg).1
    rw [this, hg]
    simp

theorem inv_removeHashes (hs : List Hash) : ∀ {s : State}, Inv s → Inv (removeHashes hs s) := by
  induction hs with
  | nil => intro s h; exact h
  | cons h r ih =>
    intro s hI
    exact ih (inv_removeCert hI (agrees_cached hI))

theorem inv_addCert {s s' : State} {c : Cert} {v : Option Hash} (hI : Inv s) (hh : c.hash ≠ "")
    (h : addCert c v s = some s') : Inv s' := by
  unfold addCert at h
  split at h
  · rename_i e hg
    split at h
    · simp at h
    · split at h
      · cases h; exact hI
      · cases h
        exact inv_overwrite hI hg rfl (hI.keyHash _ _ hg).1
  · rename_i hg
    split at h
    · rename_i hcap
      split at h
      · simp at h
      · rename_i v
        split at h
        · simp at h
        · rename_i vc hv
          cases h
          have hk := (hI.keyHash v vc hv).1
          have hag : agrees s vc = true := by
            unfold agrees; rw [hk, hv]; simp
          apply inv_insertNew (inv_removeCert hI hag)
          · simp only [removeCert]
            rw [get?_erase]; split
            · rfl
            · exact hg
          · exact hh
          · intro hc
            have h1 := hI.capOK hc
            have h2 : (erase vc.hash s.cache).length < s.cache.length := by
              rw [hk]; exact length_erase_lt hv
            simp only [removeCert]
            omega
    · rename_i hcap
      split at h
      · simp at h
      · cases h
        apply inv_insertNew hI hg hh
        intro hc
        simp only [atCapacity, Bool.and_eq_true, decide_eq_true_eq, not_and] at hcap
        have := hcap hc
        omega

theorem inv_step {s s' : State} {e : Ev} (hI : Inv s) (h : step s e = some s') : Inv s' := by
  cases e with
  | add c v =>
    simp only [step] at h
    split at h
    · simp at h
    · rename_i hh; exact inv_addCert hI hh h
  | remove hs =>
    simp only [step, Option.some.injEq] at h
    subst h; exact inv_removeHashes hs hI
  | removeManaged subjects =>
    simp only [step, Option.some.injEq] at h
    subst h; exact inv_removeHashes _ hI
  | replace old new v =>
    simp only [step] at h
    split at h
    · simp at h
    · rename_i hh
      split at h
      · rename_i ha
        exact inv_addCert (inv_removeCert hI ha) hh h
      · simp at h
  | removeCopy c =>
    simp only [step] at h
    split at h
    · rename_i ha
      cases h; exact inv_removeCert hI ha
    · simp at h
  | ariWB hsh stamp =>
    simp only [step, Option.some.injEq] at h
    subst h
    unfold ariWriteBack
    split
    · rename_i e hg
      exact inv_overwrite hI hg rfl (hI.keyHash _ _ hg).1
    · exact hI
  | hsWB c =>
    simp only [step] at h
    split at h
    · rename_i ha
      cases h
      unfold hsWriteBack
      split
      · rename_i e hg
        unfold agrees at ha
        simp only [hg, decide_eq_true_eq] at ha
        exact inv_overwrite hI hg ha.symm rfl
      · exact hI
    · simp at h

theorem inv_run : ∀ (es : List Ev) {s s' : State}, Inv s → run s es = some s' → Inv s' := by
  intro es
  induction es with
  | nil => intro s s' hI h; simp only [run, Option.some.injEq] at h; exact h ▸ hI
  | cons e r ih =>
    intro s s' hI h
    simp only [run] at h
    split at h
    · rename_i s1 hs1
      exact ih (inv_step hI hs1) h
    · simp at h

theorem nodupB_sound [DecidableEq α] : ∀ (l : List α), nodupB l = true → l.Nodup := by
  intro l
  induction l with
  | nil => intro _; exact List.nodup_nil
  | cons a r ih =>
    intro h
    simp only [nodupB, Bool.and_eq_true, Bool.not_eq_true', decide_eq_false_iff_not] at h
    exact List.nodup_cons.mpr ⟨h.1, ih h.2⟩

theorem idxGet_mem_keys {idx : List (Name × List Hash)} {n : Name} {h : Hash} (hm : h ∈ idxGet idx n) :
    n ∈ keys idx ∧ ∃ l, (n, l) ∈ idx ∧ h ∈ l := by
  unfold idxGet at hm
  cases hg : get? n idx with
  | none => rw [hg] at hm; simp at hm
  | some l =>
    rw [hg] at hm
    exact ⟨mem_keys_of_get? hg, l, mem_of_get? hg, hm⟩


end CM.Cache
