import CM.Model.Maintain
/-!
Helper lemmas for C05 (`CM/Props/C05.lean`): the cache operations, the inductive invariant
(`Inv`: cache and index agree; certificate identities are coherent across cache, storage
and job closures; at most one job per job-manager name), and frame lemmas for the pass.
-/
namespace CM.Maintain

/-! ### cache operations -/

namespace Cache

theorem has_iff (c : Cache) (i : CertId) : c.has i = true ↔ ∃ e ∈ c.entries, e.cert.id = i := by
  simp [has, List.any_eq_true]

theorem has_false_iff (c : Cache) (i : CertId) : c.has i = false ↔ ∀ e ∈ c.entries, e.cert.id ≠ i := by
  rw [← Bool.not_eq_true, has_iff]
  constructor
  · intro h e he hi; exact h ⟨e, he, hi⟩
  · rintro h ⟨e, he, hi⟩; exact h e he hi

theorem mem_remove_entries (c : Cache) (x : Cert) (e : Entry) :
    e ∈ (c.remove x).entries ↔ e ∈ c.entries ∧ e.cert.id ≠ x.id := by
  simp [remove, List.mem_filter]

theorem mem_remove_index (c : Cache) (x : Cert) (n : Name) (i : CertId) :
    i ∈ (c.remove x).index n ↔ i ∈ c.index n ∧ ¬ (n ∈ x.names ∧ i = x.id) := by
  simp only [remove]
  by_cases hn : n ∈ x.names
  · simp [hn, List.mem_filter]
  · simp [hn]

theorem add_of_has (c : Cache) (e : Entry) (h : c.has e.cert.id = true) : c.add e = c := by
  simp [add, h]

theorem mem_add_entries (c : Cache) (e e' : Entry) :
    e' ∈ (c.add e).entries ↔ e' ∈ c.entries ∨ (c.has e.cert.id = false ∧ e' = e) := by
  unfold add
  cases h : c.has e.cert.id <;> simp

theorem mem_add_index (c : Cache) (e : Entry) (n : Name) (i : CertId) :
    i ∈ (c.add e).index n ↔
      i ∈ c.index n ∨ (c.has e.cert.id = false ∧ i = e.cert.id ∧ n ∈ e.cert.names) := by
  unfold add
  cases h : c.has e.cert.id
  · simp only [Bool.false_eq_true, if_false, List.mem_append, List.mem_replicate, true_and]
    constructor
    · rintro (h1 | ⟨h1, h2⟩)
      · exact Or.inl h1
      · exact Or.inr ⟨h2, List.count_pos_iff.mp (Nat.pos_of_ne_zero h1)⟩
    · rintro (h1 | ⟨h2, h3⟩)
      · exact Or.inl h1
      · exact Or.inr ⟨Nat.ne_of_gt (List.count_pos_iff.mpr h3), h2⟩
  · simp

/-- the cache and its name index agree, and hashes identify entries -/
structure WF (c : Cache) : Prop where
  uniq : ∀ e₁ ∈ c.entries, ∀ e₂ ∈ c.entries, e₁.cert.id = e₂.cert.id → e₁ = e₂
  idx : ∀ n i, i ∈ c.index n ↔ ∃ e ∈ c.entries, e.cert.id = i ∧ n ∈ e.cert.names

theorem WF.empty : WF Cache.empty := ⟨by simp [Cache.empty], by simp [Cache.empty]⟩

theorem WF.add {c : Cache} (h : WF c) (e : Entry) : WF (c.add e) := by
  cases hh : c.has e.cert.id
  · have hne := (has_false_iff c _).mp hh
    constructor
    · intro e₁ h₁ e₂ h₂ hid
      rw [mem_add_entries] at h₁ h₂
      rcases h₁ with h₁ | ⟨_, rfl⟩ <;> rcases h₂ with h₂ | ⟨_, rfl⟩
      · exact h.uniq _ h₁ _ h₂ hid
      · exact absurd hid (hne _ h₁)
      · exact absurd hid.symm (hne _ h₂)
      · rfl
    · intro n i
      rw [mem_add_index, h.idx]
      constructor
      · rintro (⟨e', he', hi, hn⟩ | ⟨_, hi, hn⟩)
        · exact ⟨e', (mem_add_entries ..).mpr (Or.inl he'), hi, hn⟩
        · exact ⟨e, (mem_add_entries ..).mpr (Or.inr ⟨hh, rfl⟩), hi.symm, hn⟩
      · rintro ⟨e', he', hi, hn⟩
        rcases (mem_add_entries ..).mp he' with he' | ⟨_, rfl⟩
        · exact Or.inl ⟨e', he', hi, hn⟩
        · exact Or.inr ⟨hh, hi.symm, hn⟩
  · rw [add_of_has c e hh]; exact h

/-- removing `x` keeps the agreement provided an entry with `x`'s hash has `x`'s names -/
theorem WF.remove {c : Cache} (h : WF c) (x : Cert)
    (hx : ∀ e ∈ c.entries, e.cert.id = x.id → e.cert.names = x.names) : WF (c.remove x) := by
  constructor
  · intro e₁ h₁ e₂ h₂ hid
    exact h.uniq _ ((mem_remove_entries ..).mp h₁).1 _ ((mem_remove_entries ..).mp h₂).1 hid
  · intro n i
    rw [mem_remove_index, h.idx]
    constructor
    · rintro ⟨⟨e, he, hi, hn⟩, hnot⟩
      refine ⟨e, (mem_remove_entries ..).mpr ⟨he, ?_⟩, hi, hn⟩
      intro hex
      exact hnot ⟨by rw [← hx e he hex]; exact hn, by rw [← hi, hex]⟩
    · rintro ⟨e, he, hi, hn⟩
      have he' := (mem_remove_entries ..).mp he
      exact ⟨⟨e, he'.1, hi, hn⟩, fun hh => he'.2 (by rw [hi]; exact hh.2)⟩

/-- the entry and index mentions of hash `x` survive -/
def Keeps (x : CertId) (c c' : Cache) : Prop :=
  (∀ e ∈ c.entries, e.cert.id = x → e ∈ c'.entries) ∧ (∀ n, x ∈ c.index n → x ∈ c'.index n)

theorem Keeps.refl (x : CertId) (c : Cache) : Keeps x c c := ⟨fun _ h _ => h, fun _ h => h⟩

theorem Keeps.trans {x : CertId} {a b c : Cache} (h₁ : Keeps x a b) (h₂ : Keeps x b c) : Keeps x a c :=
  ⟨fun e he hi => h₂.1 e (h₁.1 e he hi) hi, fun n hn => h₂.2 n (h₁.2 n hn)⟩

theorem keeps_add (x : CertId) (c : Cache) (e : Entry) : Keeps x c (c.add e) :=
  ⟨fun _ he _ => (mem_add_entries ..).mpr (Or.inl he), fun _ hn => (mem_add_index ..).mpr (Or.inl hn)⟩

theorem keeps_remove (x : CertId) (c : Cache) (old : Cert) (h : old.id ≠ x) : Keeps x c (c.remove old) :=
  ⟨fun _ he hi => (mem_remove_entries ..).mpr ⟨he, by rw [hi]; exact fun hh => h hh.symm⟩,
   fun _ hn => (mem_remove_index ..).mpr ⟨hn, fun hh => h hh.2.symm⟩⟩

theorem keeps_replace (x : CertId) (c : Cache) (old : Cert) (e : Entry) (h : old.id ≠ x) :
    Keeps x c (c.replace old e) :=
  (keeps_remove x c old h).trans (keeps_add x _ e)

/-- hash `x` is in no row and no entry has it -/
def Absent (x : CertId) (c : Cache) : Prop := (∀ e ∈ c.entries, e.cert.id ≠ x) ∧ ∀ n, x ∉ c.index n

theorem absent_remove_self {c : Cache} (h : WF c) (x : Cert)
    (hx : ∀ e ∈ c.entries, e.cert.id = x.id → e.cert.names = x.names) : Absent x.id (c.remove x) := by
  constructor
  · intro e he; exact ((mem_remove_entries ..).mp he).2
  · intro n hn
    obtain ⟨e, he, hi, _⟩ := ((WF.remove h x hx).idx n x.id).mp hn
    exact ((mem_remove_entries ..).mp he).2 hi

theorem absent_remove {x : CertId} {c : Cache} (h : Absent x c) (old : Cert) : Absent x (c.remove old) :=
  ⟨fun e he => h.1 e ((mem_remove_entries ..).mp he).1, fun n hn => h.2 n ((mem_remove_index ..).mp hn).1⟩

theorem absent_add {x : CertId} {c : Cache} (h : Absent x c) (e : Entry) (hne : e.cert.id ≠ x) :
    Absent x (c.add e) := by
  constructor
  · intro e' he'
    rcases (mem_add_entries ..).mp he' with he' | ⟨_, rfl⟩
    · exact h.1 e' he'
    · exact hne
  · intro n hn
    rcases (mem_add_index ..).mp hn with hn | ⟨_, hi, _⟩
    · exact h.2 n hn
    · exact hne hi.symm

/-- after `add`, the certificate's hash is in the row of each of its names, provided an
entry that already has the hash has the same names -/
theorem index_add_self {c : Cache} (h : WF c) (e : Entry)
    (hco : ∀ e' ∈ c.entries, e'.cert.id = e.cert.id → e'.cert.names = e.cert.names)
    (n : Name) (hn : n ∈ e.cert.names) : e.cert.id ∈ (c.add e).index n := by
  rw [mem_add_index]
  cases hh : c.has e.cert.id
  · exact Or.inr ⟨rfl, rfl, hn⟩
  · obtain ⟨e', he', hi⟩ := (has_iff ..).mp hh
    exact Or.inl ((h.idx n _).mpr ⟨e', he', hi, by rw [hco e' he' hi]; exact hn⟩)

end Cache

/-! ### the invariant -/

def JobKind.cert? : JobKind → Option Cert
  | .pass c => some c
  | .mrenew c => some c
  | .mforce c => some c
  | .mobtain => none

/-- certificate identities are coherent: everything in the cache, in storage and in job
closures was made by the CA (`issued`), identities in `issued` are unique and never ahead
of the CA's per-subject counter -/
structure Reg (s : State) : Prop where
  fn : ∀ x ∈ s.issued, ∀ y ∈ s.issued, x.id = y.id → x = y
  bound : ∀ x ∈ s.issued, x.id.ver ≤ s.ver x.id.name
  cache : ∀ e ∈ s.cache.entries, e.cert ∈ s.issued
  store : ∀ k c, s.store k = .ok c → c ∈ s.issued
  own : ∀ k c, s.store k = .ok c → c.id.name = k          -- a bundle is stored under its own subject
  jobs : ∀ j ∈ s.jobs, ∀ c, j.kind.cert? = some c → c ∈ s.issued

def named (n : Name) (j : Job) : Bool := j.jname == some n

structure Inv (s : State) : Prop where
  wf : s.cache.WF
  reg : Reg s
  one : ∀ n, s.jobs.countP (named n) ≤ 1

/-- `issued` only grows -/
def Sub (s s' : State) : Prop := ∀ c, c ∈ s.issued → c ∈ s'.issued

theorem Sub.refl (s : State) : Sub s s := fun _ h => h
theorem Sub.trans {a b c : State} (h₁ : Sub a b) (h₂ : Sub b c) : Sub a c := fun x h => h₂ x (h₁ x h)

theorem inv_init (life : Int) : Inv (init life) := by
  refine ⟨Cache.WF.empty, ⟨?_, ?_, ?_, ?_, ?_, ?_⟩, ?_⟩ <;> simp [init, Cache.empty]

/-- only cache, storage, counters, registry and job table matter -/
theorem Inv.congr {s s' : State} (h : Inv s) (hc : s'.cache = s.cache) (hs : s'.store = s.store)
    (hv : s'.ver = s.ver) (hi : s'.issued = s.issued) (hj : s'.jobs = s.jobs) : Inv s' := by
  obtain ⟨wf, ⟨fn, bound, cache, store, own, jobs⟩, one⟩ := h
  refine ⟨by rw [hc]; exact wf, ⟨?_, ?_, ?_, ?_, ?_, ?_⟩, by rw [hj]; exact one⟩
  · rw [hi]; exact fn
  · rw [hi, hv]; exact bound
  · rw [hi, hc]; exact cache
  · rw [hi, hs]; exact store
  · rw [hs]; exact own
  · rw [hi, hj]; exact jobs

theorem Inv.cacheAdd {s : State} (h : Inv s) (c : Cert) (m : Bool) (hc : c ∈ s.issued) :
    Inv { s with cache := s.cache.add ⟨c, m⟩ } := by
  refine ⟨h.wf.add _, ⟨h.reg.fn, h.reg.bound, ?_, h.reg.store, h.reg.own, h.reg.jobs⟩, h.one⟩
  intro e he
  rcases (Cache.mem_add_entries ..).mp he with he | ⟨_, rfl⟩
  · exact h.reg.cache e he
  · exact hc

theorem Inv.names_of_id {s : State} (h : Inv s) {x : Cert} (hx : x ∈ s.issued) :
    ∀ e ∈ s.cache.entries, e.cert.id = x.id → e.cert = x :=
  fun e he hi => h.reg.fn _ (h.reg.cache e he) _ hx hi

theorem Inv.cacheRemove {s : State} (h : Inv s) (x : Cert) (hx : x ∈ s.issued) :
    Inv { s with cache := s.cache.remove x } := by
  refine ⟨h.wf.remove x (fun e he hi => by rw [h.names_of_id hx e he hi]),
    ⟨h.reg.fn, h.reg.bound, ?_, h.reg.store, h.reg.own, h.reg.jobs⟩, h.one⟩
  intro e he
  exact h.reg.cache e ((Cache.mem_remove_entries ..).mp he).1

theorem Inv.cacheReplace {s : State} (h : Inv s) (x c : Cert) (m : Bool) (hx : x ∈ s.issued)
    (hc : c ∈ s.issued) : Inv { s with cache := s.cache.replace x ⟨c, m⟩ } :=
  (h.cacheRemove x hx).cacheAdd c m hc

theorem newCert_fresh {s : State} (h : Reg s) (k : Name) : ∀ x ∈ s.issued, x.id ≠ (newCert s k).id := by
  intro x hx hid
  have hb := h.bound x hx
  rw [hid] at hb
  simp [newCert] at hb
  omega

theorem inv_issue {s : State} (h : Inv s) (i : Nat) (k : Name) : Inv (issue s i k) := by
  have hfresh := newCert_fresh h.reg k
  refine ⟨h.wf, ⟨?_, ?_, ?_, ?_, ?_, ?_⟩, h.one⟩
  · intro x hx y hy hid
    simp only [issue, List.mem_append, List.mem_singleton] at hx hy
    rcases hx with hx | rfl <;> rcases hy with hy | rfl
    · exact h.reg.fn x hx y hy hid
    · exact absurd hid (hfresh x hx)
    · exact absurd hid.symm (hfresh y hy)
    · rfl
  · intro x hx
    simp only [issue, List.mem_append, List.mem_singleton] at hx
    simp only [issue, upd]
    rcases hx with hx | rfl
    · have := h.reg.bound x hx
      by_cases hk : x.id.name = k
      · rw [if_pos hk]; rw [hk] at this; omega
      · rw [if_neg hk]; exact this
    · simp [newCert]
  · intro e he
    simp only [issue, List.mem_append]
    exact Or.inl (h.reg.cache e he)
  · intro k' c hc
    simp only [issue, upd] at hc
    simp only [issue, List.mem_append, List.mem_singleton]
    split at hc
    · cases hc; exact Or.inr rfl
    · exact Or.inl (h.reg.store k' c hc)
  · intro k' c hc
    simp only [issue, upd] at hc
    split at hc
    · rename_i hk; cases hc; simp [newCert, hk]
    · exact h.reg.own k' c hc
  · intro j hj c hc
    simp only [issue, List.mem_append]
    exact Or.inl (h.reg.jobs j hj c hc)

theorem sub_issue (s : State) (i : Nat) (k : Name) : Sub s (issue s i k) := by
  intro c hc; simp only [issue, List.mem_append]; exact Or.inl hc

theorem Inv.storeDrop {s : State} (h : Inv s) (k : Name) (v : Stored) (hv : ∀ c, v ≠ .ok c) :
    Inv { s with store := upd s.store k v } := by
  refine ⟨h.wf, ⟨h.reg.fn, h.reg.bound, h.reg.cache, ?_, ?_, h.reg.jobs⟩, h.one⟩
  · intro k' c hc
    simp only [upd] at hc
    split at hc
    · exact absurd hc (hv c)
    · exact h.reg.store k' c hc
  · intro k' c hc
    simp only [upd] at hc
    split at hc
    · exact absurd hc (hv c)
    · exact h.reg.own k' c hc

/-- a job that may be put into the table: its certificate is known and its name is free -/
def Good (s : State) (j : Job) : Prop :=
  (∀ c, j.kind.cert? = some c → c ∈ s.issued) ∧ (∀ n, j.jname = some n → s.jobs.countP (named n) = 0)

theorem Inv.addJob {s : State} (h : Inv s) (j : Job) (hg : Good s j) : Inv { s with jobs := s.jobs ++ [j] } := by
  refine ⟨h.wf, ⟨h.reg.fn, h.reg.bound, h.reg.cache, h.reg.store, h.reg.own, ?_⟩, ?_⟩
  · intro j' hj' c hc
    rcases List.mem_append.mp hj' with hj' | hj'
    · exact h.reg.jobs j' hj' c hc
    · rw [List.mem_singleton.mp hj'] at hc; exact hg.1 c hc
  · intro n
    show List.countP (named n) (s.jobs ++ [j]) ≤ 1
    rw [List.countP_append, List.countP_cons, List.countP_nil]
    by_cases hn : named n j = true
    · have hj : j.jname = some n := by simpa [named] using hn
      rw [hg.2 n hj, if_pos hn]; omega
    · have := h.one n
      rw [if_neg hn]; omega

section
variable (due : Int → Cert → Bool)

theorem attempt_cases (s : State) (k : Name) (core : Core) :
    (attempt due s k core).2 = s ∨ (attempt due s k core).2 = issue s 0 k ∨
      ∃ r, (attempt due s k core).2 = logRes s 0 k r := by
  unfold attempt
  split
  · exact Or.inl rfl
  · exact Or.inl rfl
  · split
    · exact Or.inr (Or.inl rfl)
    · exact Or.inr (Or.inr ⟨_, rfl⟩)
    · exact Or.inr (Or.inr ⟨_, rfl⟩)
    · exact Or.inr (Or.inr ⟨_, rfl⟩)

theorem attempt_inv_frame (s : State) (k : Name) (core : Core) :
    True ∧ True ∧ (attempt due s k core).2.jobs = s.jobs ∧ (attempt due s k core).2.cache = s.cache := by
  rcases attempt_cases due s k core with e | e | ⟨r, e⟩ <;> rw [e] <;> exact ⟨trivial, trivial, rfl, rfl⟩

theorem attempt_inv {s : State} (h : Inv s) (k : Name) (core : Core) :
    Inv (attempt due s k core).2 ∧ Sub s (attempt due s k core).2 ∧
      (attempt due s k core).2.jobs = s.jobs ∧ (attempt due s k core).2.cache = s.cache := by
  rcases attempt_cases due s k core with e | e | ⟨r, e⟩ <;> rw [e]
  · exact ⟨h, Sub.refl _, rfl, rfl⟩
  · exact ⟨inv_issue h 0 k, sub_issue s 0 k, rfl, rfl⟩
  · exact ⟨h.congr rfl rfl rfl rfl rfl, fun _ hc => hc, rfl, rfl⟩

end

theorem reload_inv {s : State} (h : Inv s) (old : Cert) (k : Name) (ho : old ∈ s.issued) :
    Inv (reload s old k) ∧ Sub s (reload s old k) ∧ (reload s old k).jobs = s.jobs := by
  unfold reload loadEntry
  split
  · rename_i e he
    split at he
    · rename_i c hc
      cases he
      exact ⟨h.cacheReplace old c true ho (h.reg.store _ _ hc), fun _ hc => hc, rfl⟩
    · cases he
  · exact ⟨h, Sub.refl _, rfl⟩

theorem finishOk_inv {s : State} (h : Inv s) (j : Job) (hj : ∀ c, j.kind.cert? = some c → c ∈ s.issued) :
    Inv (finishOk s j) ∧ Sub s (finishOk s j) ∧ (finishOk s j).jobs = s.jobs := by
  unfold finishOk
  split
  · rename_i old hk; exact reload_inv h old _ (hj old (by rw [hk]; rfl))
  · rename_i c hk; exact reload_inv h c _ (hj c (by rw [hk]; rfl))
  · rename_i c hk; exact reload_inv h c _ (hj c (by rw [hk]; rfl))
  · unfold loadEntry
    split
    · rename_i e he
      split at he
      · rename_i c hc
        cases he
        exact ⟨h.cacheAdd c true (h.reg.store _ _ hc), fun _ hc => hc, rfl⟩
      · cases he
    · exact ⟨h, Sub.refl _, rfl⟩

theorem finishFail_inv {s : State} (h : Inv s) (j : Job) (hj : ∀ c, j.kind.cert? = some c → c ∈ s.issued) :
    Inv (finishFail s j) ∧ Sub s (finishFail s j) ∧ (finishFail s j).jobs = s.jobs := by
  unfold finishFail
  split
  · rename_i old hk
    split
    · exact ⟨h.cacheRemove old (hj old (by rw [hk]; rfl)), fun _ hc => hc, rfl⟩
    · exact ⟨h, Sub.refl _, rfl⟩
  · rename_i c hk
    exact ⟨h.cacheRemove c (hj c (by rw [hk]; rfl)), fun _ hc => hc, rfl⟩
  · exact ⟨h, Sub.refl _, rfl⟩

theorem settle_inv {s : State} (h : Inv s) (j : Job) (r : Res) (hg : Good s j) :
    Inv (settle s j r) ∧ Sub s (settle s j r) := by
  unfold settle
  split
  · exact ⟨(finishOk_inv h j hg.1).1, (finishOk_inv h j hg.1).2.1⟩
  · exact ⟨(finishFail_inv h j hg.1).1, (finishFail_inv h j hg.1).2.1⟩
  · exact ⟨h.addJob _ hg, fun _ hc => hc⟩
  · split
    · exact ⟨h.addJob _ hg, fun _ hc => hc⟩
    · exact ⟨(finishFail_inv h j hg.1).1, (finishFail_inv h j hg.1).2.1⟩

theorem Good.mono {s s' : State} {j : Job} (hg : Good s j) (hs : Sub s s') (hj : s'.jobs = s.jobs) : Good s' j :=
  ⟨fun c hc => hs c (hg.1 c hc), fun n hn => by rw [hj]; exact hg.2 n hn⟩

section
variable (due : Int → Cert → Bool)

theorem runJob_inv {s : State} (h : Inv s) (j : Job) (hg : Good s j) :
    Inv (runJob due s j) ∧ Sub s (runJob due s j) := by
  unfold runJob
  obtain ⟨hi, hs, hj, _⟩ := attempt_inv due h j.subj j.kind.core
  have := settle_inv hi j (attempt due s j.subj j.kind.core).1 (hg.mono hs hj)
  exact ⟨this.1, hs.trans this.2⟩

theorem any_named_false {jobs : List Job} {n : Name} (h : jobs.any (fun j' => j'.jname == some n) = false) :
    jobs.countP (named n) = 0 := by
  rw [List.countP_eq_zero]
  intro j hj hn
  have : jobs.any (fun j' => j'.jname == some n) = true := List.any_eq_true.mpr ⟨j, hj, hn⟩
  rw [h] at this; cases this

theorem takeLock_inv {s : State} (h : Inv s) (k : Name) : Inv (takeLock s k) := h.congr rfl rfl rfl rfl rfl

theorem submit_inv {s : State} (h : Inv s) (j : Job) (hj : ∀ c, j.kind.cert? = some c → c ∈ s.issued) :
    Inv (submit due s j) ∧ Sub s (submit due s j) := by
  unfold submit
  split
  · rename_i n hn
    split
    · exact ⟨h, Sub.refl _⟩
    · rename_i hany
      have hany : s.jobs.any (fun j' => j'.jname == some n) = false := by simpa using hany
      exact runJob_inv due (takeLock_inv h j.subj) j
        ⟨hj, fun n' hn' => by rw [hn] at hn'; cases hn'; exact any_named_false hany⟩
  · rename_i hn
    exact runJob_inv due (takeLock_inv h j.subj) j ⟨hj, fun n' hn' => by rw [hn] at hn'; cases hn'⟩

end

/-! ### the scan -/

theorem mem_insertCert_of_mem {l : List Cert} {c x : Cert} (h : c ∈ l) : c ∈ insertCert l x := by
  unfold insertCert; split
  · exact h
  · exact List.mem_append.mpr (Or.inl h)

theorem mem_insertCert {l : List Cert} {c x : Cert} (h : c ∈ insertCert l x) : c ∈ l ∨ c = x := by
  unfold insertCert at h; split at h
  · exact Or.inl h
  · rcases List.mem_append.mp h with h | h
    · exact Or.inl h
    · exact Or.inr (List.mem_singleton.mp h)

theorem insertCert_has_id (l : List Cert) (x : Cert) : ∃ c ∈ insertCert l x, c.id = x.id := by
  unfold insertCert; split
  · rename_i h
    obtain ⟨c, hc, hi⟩ := List.any_eq_true.mp h
    exact ⟨c, hc, by simpa using hi⟩
  · exact ⟨x, List.mem_append.mpr (Or.inr (List.mem_singleton.mpr rfl)), rfl⟩

section
variable (due : Int → Cert → Bool)

theorem scanStep_reload_mem (s : State) (p : Plan) (e : Entry) (c : Cert) :
    c ∈ (scanStep due s p e).reload ↔ c ∈ p.reload ∨ (e.cert = c ∧ classify due s e = .reload) := by
  unfold scanStep
  cases hq : classify due s e <;> simp [eq_comm]

theorem scanStep_del_mem (s : State) (p : Plan) (e : Entry) (c : Cert) :
    c ∈ (scanStep due s p e).del ↔ c ∈ p.del ∨ (e.cert = c ∧ classify due s e = .del) := by
  unfold scanStep
  cases hq : classify due s e <;> simp [eq_comm]

theorem scan_fold (s : State) (l : List Entry) : ∀ (p : Plan),
    (∀ c, c ∈ (l.foldl (scanStep due s) p).reload ↔
        c ∈ p.reload ∨ ∃ e ∈ l, e.cert = c ∧ classify due s e = .reload) ∧
    (∀ c, c ∈ (l.foldl (scanStep due s) p).del ↔
        c ∈ p.del ∨ ∃ e ∈ l, e.cert = c ∧ classify due s e = .del) ∧
    (∀ c, c ∈ (l.foldl (scanStep due s) p).renew →
        c ∈ p.renew ∨ ∃ e ∈ l, e.cert = c ∧ classify due s e = .renew) ∧
    (∀ c ∈ p.renew, c ∈ (l.foldl (scanStep due s) p).renew) ∧
    (∀ e ∈ l, classify due s e = .renew → ∃ c ∈ (l.foldl (scanStep due s) p).renew, c.id = e.cert.id) := by
  induction l with
  | nil => intro p; simp
  | cons e l ih =>
    intro p
    obtain ⟨h1, h2, h3, h4, h5⟩ := ih (scanStep due s p e)
    simp only [List.foldl_cons]
    refine ⟨?_, ?_, ?_, ?_, ?_⟩
    · intro c; rw [h1 c, scanStep_reload_mem]
      constructor
      · rintro ((h | ⟨hc, hcl⟩) | ⟨e', he', hc, hcl⟩)
        · exact Or.inl h
        · exact Or.inr ⟨e, List.mem_cons_self, hc, hcl⟩
        · exact Or.inr ⟨e', List.mem_cons_of_mem _ he', hc, hcl⟩
      · rintro (h | ⟨e', he', hc, hcl⟩)
        · exact Or.inl (Or.inl h)
        · rcases List.mem_cons.mp he' with rfl | he'
          · exact Or.inl (Or.inr ⟨hc, hcl⟩)
          · exact Or.inr ⟨e', he', hc, hcl⟩
    · intro c; rw [h2 c, scanStep_del_mem]
      constructor
      · rintro ((h | ⟨hc, hcl⟩) | ⟨e', he', hc, hcl⟩)
        · exact Or.inl h
        · exact Or.inr ⟨e, List.mem_cons_self, hc, hcl⟩
        · exact Or.inr ⟨e', List.mem_cons_of_mem _ he', hc, hcl⟩
      · rintro (h | ⟨e', he', hc, hcl⟩)
        · exact Or.inl (Or.inl h)
        · rcases List.mem_cons.mp he' with rfl | he'
          · exact Or.inl (Or.inr ⟨hc, hcl⟩)
          · exact Or.inr ⟨e', he', hc, hcl⟩
    · intro c hc
      rcases h3 c hc with h | ⟨e', he', hce, hcl⟩
      · unfold scanStep at h
        cases hq : classify due s e <;> rw [hq] at h <;> simp only at h
        · exact Or.inl h
        · exact Or.inl h
        · rcases mem_insertCert h with h | h
          · exact Or.inl h
          · exact Or.inr ⟨e, List.mem_cons_self, h.symm, hq⟩
        · exact Or.inl h
      · exact Or.inr ⟨e', List.mem_cons_of_mem _ he', hce, hcl⟩
    · intro c hc
      apply h4
      unfold scanStep
      cases hq : classify due s e <;> simp only
      · exact hc
      · exact hc
      · exact mem_insertCert_of_mem hc
      · exact hc
    · intro e' he' hcl
      rcases List.mem_cons.mp he' with rfl | he'
      · have : ∃ c ∈ (scanStep due s p e').renew, c.id = e'.cert.id := by
          unfold scanStep; rw [hcl]; exact insertCert_has_id _ _
        obtain ⟨c, hc, hi⟩ := this
        exact ⟨c, h4 c hc, hi⟩
      · exact h5 e' he' hcl

theorem scan_reload (s : State) (c : Cert) :
    c ∈ (scan due s).reload ↔ ∃ e ∈ s.cache.entries, e.cert = c ∧ classify due s e = .reload := by
  have := (scan_fold due s s.cache.entries ⟨[], [], []⟩).1 c
  simpa [scan] using this

theorem scan_del (s : State) (c : Cert) :
    c ∈ (scan due s).del ↔ ∃ e ∈ s.cache.entries, e.cert = c ∧ classify due s e = .del := by
  have := (scan_fold due s s.cache.entries ⟨[], [], []⟩).2.1 c
  simpa [scan] using this

theorem scan_renew (s : State) (c : Cert) (h : c ∈ (scan due s).renew) :
    ∃ e ∈ s.cache.entries, e.cert = c ∧ classify due s e = .renew := by
  have := (scan_fold due s s.cache.entries ⟨[], [], []⟩).2.2.1 c
  simpa [scan] using this h

theorem scan_renew_mem (s : State) (hu : s.cache.WF) (e : Entry) (he : e ∈ s.cache.entries)
    (hcl : classify due s e = .renew) : e.cert ∈ (scan due s).renew := by
  obtain ⟨c, hc, hi⟩ := (scan_fold due s s.cache.entries ⟨[], [], []⟩).2.2.2.2 e he hcl
  obtain ⟨e', he', hce, _⟩ := scan_renew due s c hc
  have : e' = e := hu.uniq e' he' e he (by rw [hce]; exact hi)
  rw [← this, hce]; exact hc

theorem scan_issued {s : State} (h : Inv s) :
    (∀ c ∈ (scan due s).reload, c ∈ s.issued) ∧ (∀ c ∈ (scan due s).renew, c ∈ s.issued) ∧
      (∀ c ∈ (scan due s).del, c ∈ s.issued) := by
  refine ⟨?_, ?_, ?_⟩
  · intro c hc; obtain ⟨e, he, rfl, _⟩ := (scan_reload due s c).mp hc; exact h.reg.cache e he
  · intro c hc; obtain ⟨e, he, rfl, _⟩ := scan_renew due s c hc; exact h.reg.cache e he
  · intro c hc; obtain ⟨e, he, rfl, _⟩ := (scan_del due s c).mp hc; exact h.reg.cache e he

end

/-! ### the invariant is kept by every event -/

theorem foldl_inv (f : State → Cert → State)
    (hf : ∀ s c, Inv s → c ∈ s.issued → Inv (f s c) ∧ Sub s (f s c)) :
    ∀ (l : List Cert) (s : State), Inv s → (∀ c ∈ l, c ∈ s.issued) →
      Inv (l.foldl f s) ∧ Sub s (l.foldl f s) := by
  intro l
  induction l with
  | nil => intro s h _; exact ⟨h, Sub.refl _⟩
  | cons c l ih =>
    intro s h hl
    have h1 := hf s c h (hl c List.mem_cons_self)
    have h2 := ih (f s c) h1.1 (fun c' hc' => h1.2 c' (hl c' (List.mem_cons_of_mem _ hc')))
    exact ⟨h2.1, h1.2.trans h2.2⟩

section
variable (due : Int → Cert → Bool)

theorem reloadOld_inv (s : State) (c : Cert) (h : Inv s) (hc : c ∈ s.issued) :
    Inv (reloadOld s c) ∧ Sub s (reloadOld s c) :=
  ⟨(reload_inv h c _ hc).1, (reload_inv h c _ hc).2.1⟩

theorem submitPass_inv (s : State) (c : Cert) (h : Inv s) (hc : c ∈ s.issued) :
    Inv (submitPass due s c) ∧ Sub s (submitPass due s c) :=
  submit_inv due h (passJob s c) (fun c' hc' => by
    simp only [passJob, JobKind.cert?, Option.some.injEq] at hc'; rw [← hc']; exact hc)

theorem removeOld_inv (s : State) (c : Cert) (h : Inv s) (hc : c ∈ s.issued) :
    Inv (removeOld s c) ∧ Sub s (removeOld s c) :=
  ⟨h.cacheRemove c hc, fun _ h => h⟩

theorem exec_inv {s : State} (h : Inv s) (p : Plan) (h1 : ∀ c ∈ p.reload, c ∈ s.issued)
    (h2 : ∀ c ∈ p.renew, c ∈ s.issued) (h3 : ∀ c ∈ p.del, c ∈ s.issued) :
    Inv (exec due s p) ∧ Sub s (exec due s p) := by
  unfold exec
  have a := foldl_inv reloadOld reloadOld_inv p.reload s h h1
  have b := foldl_inv (submitPass due) (submitPass_inv due) p.renew _ a.1 (fun c hc => a.2 c (h2 c hc))
  have c := foldl_inv removeOld removeOld_inv p.del _ b.1 (fun c hc => b.2 c (a.2 c (h3 c hc)))
  exact ⟨c.1, a.2.trans (b.2.trans c.2)⟩

theorem pass_inv {s : State} (h : Inv s) : Inv (pass due s) ∧ Sub s (pass due s) := by
  obtain ⟨h1, h2, h3⟩ := scan_issued due h
  exact exec_inv due h _ h1 h2 h3

end

theorem takeAt_spec (t : Int) : ∀ {jobs : List Job} {j : Job} {rest : List Job},
    takeAt t jobs = some (j, rest) → ∃ l₁ l₂, jobs = l₁ ++ j :: l₂ ∧ rest = l₁ ++ l₂ := by
  intro jobs
  induction jobs with
  | nil => intro j rest h; simp [takeAt] at h
  | cons a as ih =>
    intro j rest h
    unfold takeAt at h
    split at h
    · cases h; exact ⟨[], as, rfl, rfl⟩
    · cases hr : takeAt t as with
      | none => rw [hr] at h; cases h
      | some p =>
        rw [hr] at h
        obtain ⟨j', rest'⟩ := p
        simp only [Option.map_some, Option.some.injEq, Prod.mk.injEq] at h
        obtain ⟨rfl, rfl⟩ := h
        obtain ⟨l₁, l₂, rfl, rfl⟩ := ih hr
        exact ⟨a :: l₁, l₂, rfl, rfl⟩

theorem takeHeld_spec (k : Name) : ∀ {jobs : List Job} {j : Job} {rest : List Job},
    takeHeld k jobs = some (j, rest) →
      (∃ l₁ l₂, jobs = l₁ ++ j :: l₂ ∧ rest = l₁ ++ l₂) ∧ j.subj = k ∧ j.phase = .held := by
  intro jobs
  induction jobs with
  | nil => intro j rest h; simp [takeHeld] at h
  | cons a as ih =>
    intro j rest h
    unfold takeHeld at h
    split at h
    · rename_i hc
      cases h; exact ⟨⟨[], as, rfl, rfl⟩, hc.1, hc.2⟩
    · cases hr : takeHeld k as with
      | none => rw [hr] at h; cases h
      | some p =>
        rw [hr] at h
        obtain ⟨j', rest'⟩ := p
        simp only [Option.map_some, Option.some.injEq, Prod.mk.injEq] at h
        obtain ⟨rfl, rfl⟩ := h
        obtain ⟨⟨l₁, l₂, rfl, rfl⟩, h2⟩ := ih hr
        exact ⟨⟨a :: l₁, l₂, rfl, rfl⟩, h2⟩

/-- taking a job out of the table: the invariant holds and the job may be put back -/
theorem inv_take {s s' : State} (h : Inv s) {l₁ l₂ : List Job} {j : Job} (hd : s.jobs = l₁ ++ j :: l₂)
    (hc : s'.cache = s.cache) (hs : s'.store = s.store) (hv : s'.ver = s.ver) (hi : s'.issued = s.issued)
    (hj : s'.jobs = l₁ ++ l₂) : Inv s' ∧ Good s' j := by
  have hone : ∀ n, List.countP (named n) (l₁ ++ l₂) + (if named n j = true then 1 else 0) ≤ 1 := by
    intro n
    have := h.one n
    rw [hd, List.countP_append, List.countP_cons] at this
    rw [List.countP_append]; omega
  have hmem : ∀ j', j' ∈ l₁ ++ l₂ → j' ∈ s.jobs := by
    intro j' hj'
    rw [hd]
    rcases List.mem_append.mp hj' with h | h
    · exact List.mem_append.mpr (Or.inl h)
    · exact List.mem_append.mpr (Or.inr (List.mem_cons_of_mem _ h))
  refine ⟨⟨by rw [hc]; exact h.wf, ⟨?_, ?_, ?_, ?_, ?_, ?_⟩, ?_⟩, ?_, ?_⟩
  · rw [hi]; exact h.reg.fn
  · rw [hi, hv]; exact h.reg.bound
  · rw [hi, hc]; exact h.reg.cache
  · rw [hi, hs]; exact h.reg.store
  · rw [hs]; exact h.reg.own
  · rw [hi, hj]; intro j' hj'; exact h.reg.jobs j' (hmem j' hj')
  · rw [hj]; intro n; have := hone n; omega
  · rw [hi]; intro c hc'
    exact h.reg.jobs j (by rw [hd]; exact List.mem_append.mpr (Or.inr List.mem_cons_self)) c hc'
  · rw [hj]; intro n hn
    have := hone n
    have hn' : named n j = true := by simp [named, hn]
    rw [if_pos hn'] at this; omega

theorem storedCert_issued {s : State} (h : Inv s) (k : Name) (f : Bool) (hl : loadRes s k f = .ok) :
    storedCert s k ∈ s.issued ∧ s.store k = .ok (storedCert s k) := by
  unfold loadRes at hl
  unfold storedCert
  split at hl
  · cases hl
  · split at hl
    · cases hl
    · cases hl
    · rename_i c hc
      rw [hc]; exact ⟨h.reg.store k c hc, rfl⟩

theorem manageDecision_cached {am : Bool} {l : LoadRes} {r d : Bool}
    (h : manageDecision am l r d = .cacheOnly ∨ manageDecision am l r d = .cacheThenRenew ∨
      manageDecision am l r d = .cacheThenForce) : l = .ok := by
  unfold manageDecision at h
  cases am <;> cases l <;> simp at h ⊢

section
variable (due : Int → Cert → Bool)

theorem manage_inv {s : State} (h : Inv s) (k : Name) (a f : Bool) : Inv (manage due s k a f).1 := by
  unfold manage
  split
  · exact h
  split
  · exact h
  split
  · exact h
  simp only
  split
  · exact h
  · exact h
  · rename_i hd
    have hc := (storedCert_issued h k f (manageDecision_cached (Or.inl hd))).1
    exact h.cacheAdd _ true hc
  · -- obtain
    split
    · dsimp only
      refine (submit_inv due h _ ?_).1
      intro c hc; simp [mkJob, JobKind.cert?] at hc
    · have ha := attempt_inv due (takeLock_inv h k) k .obtain
      split
      · split
        · rename_i e he
          unfold loadEntry at he
          split at he
          · rename_i c hc
            cases he
            exact ha.1.cacheAdd c true (ha.1.reg.store _ _ hc)
          · cases he
        · exact ha.1
      · exact ha.1
  · rename_i hd
    have hc := (storedCert_issued h k f (manageDecision_cached (Or.inr (Or.inl hd)))).1
    have h1 := h.cacheAdd _ true hc
    split
    · dsimp only
      refine (submit_inv due h1 _ ?_).1
      intro c hc'
      simp only [mkJob, JobKind.cert?, Option.some.injEq] at hc'; rw [← hc']; exact hc
    · have ha := attempt_inv due (takeLock_inv h1 k) k (.renew false)
      split
      · exact (reload_inv ha.1 _ _ (ha.2.1 _ hc)).1
      · exact ha.1
  · rename_i hd
    have hc := (storedCert_issued h k f (manageDecision_cached (Or.inr (Or.inr hd)))).1
    have h1 := h.cacheAdd _ true hc
    split
    · dsimp only
      refine (submit_inv due h1 _ ?_).1
      intro c hc'
      simp only [mkJob, JobKind.cert?, Option.some.injEq] at hc'; rw [← hc']; exact hc
    · have ha := attempt_inv due (takeLock_inv h1 ((storedCert s k).names.headD k)) ((storedCert s k).names.headD k) (.renew true)
      refine (settle_inv ha.1 _ _ ⟨fun c hc' => ?_, fun n hn => ?_⟩).1
      · simp only [mkJob, JobKind.cert?, Option.some.injEq] at hc'; rw [← hc']; exact ha.2.1 _ hc
      · simp [mkJob] at hn

end

section
variable (due : Int → Cert → Bool)

theorem advTo_inv : ∀ (fuel : Nat) (s : State) (target : Int), Inv s → Inv (advTo due fuel s target) := by
  intro fuel
  induction fuel with
  | zero => intro s target h; exact h.congr rfl rfl rfl rfl rfl
  | succ fuel ih =>
    intro s target h
    unfold advTo
    cases hm : minWake s.jobs with
    | none => exact h.congr rfl rfl rfl rfl rfl
    | some t =>
      dsimp only
      by_cases hle : t ≤ target
      · rw [if_pos hle]
        cases ht : takeAt t s.jobs with
        | none => exact h.congr rfl rfl rfl rfl rfl
        | some p =>
          obtain ⟨j, rest⟩ := p
          obtain ⟨l₁, l₂, hd, hr⟩ := takeAt_spec t ht
          have := inv_take (s' := { s with now := t, jobs := rest }) h hd rfl rfl rfl rfl hr
          exact ih _ _ (runJob_inv due this.1 j this.2).1
      · rw [if_neg hle]; exact h.congr rfl rfl rfl rfl rfl

theorem other_inv {s : State} (h : Inv s) (k : Name) (o : Bool) : Inv (other due s k o).1 := by
  unfold other
  split
  · exact h
  · split
    · exact takeLock_inv h k
    · split
      · exact h
      · exact takeLock_inv h k
    · exact inv_issue (takeLock_inv h k) 1 k

end

theorem release_inv {s : State} (h : Inv s) (k : Name) (r : Mode) : Inv (release s k r).1 := by
  unfold release
  split
  · exact h
  · rename_i j rest ht
    obtain ⟨⟨l₁, l₂, hd, hr⟩, _⟩ := takeHeld_spec k ht
    have h0 := inv_take (s' := { s with jobs := rest }) h hd rfl rfl rfl rfl hr
    split
    · exact (settle_inv (inv_issue h0.1 0 k) j .done (h0.2.mono (sub_issue _ 0 k) rfl)).1
    · exact (settle_inv (s := logRes { s with jobs := rest } 0 k .fail) (h0.1.congr rfl rfl rfl rfl rfl) j .hardErr
        ⟨h0.2.1, h0.2.2⟩).1
    · exact (settle_inv (s := logRes { s with jobs := rest } 0 k .fail) (h0.1.congr rfl rfl rfl rfl rfl) j .softErr
        ⟨h0.2.1, h0.2.2⟩).1

theorem removeManaged_inv {s : State} (h : Inv s) (k : Name) : Inv (removeManaged s k) := by
  unfold removeManaged
  have : ∀ (l : List Entry) (s : State), Inv s → (∀ e ∈ l, e.cert ∈ s.issued) →
      Inv (l.foldl (fun s e => removeOld s e.cert) s) := by
    intro l
    induction l with
    | nil => intro s h _; exact h
    | cons e l ih =>
      intro s h hl
      exact ih _ (h.cacheRemove e.cert (hl e List.mem_cons_self)) (fun e' he' => hl e' (List.mem_cons_of_mem _ he'))
  apply this _ _ h
  intro e he
  have he := (List.mem_filter.mp he).1
  simp only [Cache.row, List.mem_filterMap] at he
  obtain ⟨i, _, hf⟩ := he
  exact h.reg.cache e (List.mem_of_find?_eq_some hf)

theorem revoke_inv {s : State} (h : Inv s) (k : Name) : Inv (revoke s k).1 := by
  unfold revoke
  split
  · split
    · exact h.congr rfl rfl rfl rfl rfl
    · exact h
  · exact h

theorem corrupt_inv {s : State} (h : Inv s) (k : Name) : Inv (corrupt s k) := by
  unfold corrupt
  split
  · exact h
  · exact h.storeDrop k .corrupt (fun c hc => by cases hc)

theorem unmanaged_inv {s : State} (h : Inv s) (k : Name) (life : Int) : Inv (unmanaged s k life) := by
  -- the same bookkeeping as a successful issuance, the certificate going to the cache instead of storage
  have hfresh : ∀ x ∈ s.issued, x.id ≠ (⟨k, s.ver k + 1⟩ : CertId) := by
    intro x hx hid
    have hb := h.reg.bound x hx
    rw [hid] at hb
    simp at hb; omega
  unfold unmanaged
  refine ⟨h.wf.add _, ⟨?_, ?_, ?_, ?_, h.reg.own, ?_⟩, h.one⟩
  · intro x hx y hy hid
    simp only [List.mem_append, List.mem_singleton] at hx hy
    rcases hx with hx | rfl <;> rcases hy with hy | rfl
    · exact h.reg.fn x hx y hy hid
    · exact absurd hid (hfresh x hx)
    · exact absurd hid.symm (hfresh y hy)
    · rfl
  · intro x hx
    simp only [List.mem_append, List.mem_singleton] at hx
    simp only [upd]
    rcases hx with hx | rfl
    · have := h.reg.bound x hx
      by_cases hk : x.id.name = k
      · rw [if_pos hk]; rw [hk] at this; omega
      · rw [if_neg hk]; exact this
    · simp
  · intro e he
    simp only [List.mem_append, List.mem_singleton]
    rcases (Cache.mem_add_entries ..).mp he with he | ⟨_, rfl⟩
    · exact Or.inl (h.reg.cache e he)
    · exact Or.inr rfl
  · intro k' c hc
    simp only [List.mem_append]
    exact Or.inl (h.reg.store k' c hc)
  · intro j hj c hc
    simp only [List.mem_append]
    exact Or.inl (h.reg.jobs j hj c hc)

section
variable (due : Int → Cert → Bool)

theorem step_inv {s : State} (h : Inv s) (e : Ev) : Inv (step due s e).1 := by
  cases e <;> simp only [step]
  · exact advTo_inv due _ _ _ h
  · exact (pass_inv due h).1
  · exact (pass_inv due h).1
  · exact manage_inv due h _ _ _
  · exact h.congr rfl rfl rfl rfl rfl
  · exact release_inv h _ _
  · exact other_inv due h _ _
  · exact other_inv due h _ _
  · exact h.storeDrop _ .none (fun c hc => by cases hc)
  · exact corrupt_inv h _
  · exact removeManaged_inv h _
  · exact revoke_inv h _
  · exact h.congr rfl rfl rfl rfl rfl
  · exact unmanaged_inv h _ _

theorem run_inv : ∀ (evs : List Ev) (s : State), Inv s → Inv (run due s evs) := by
  intro evs
  induction evs with
  | nil => intro s h; exact h
  | cons e evs ih => intro s h; exact ih _ (step_inv due h e)

end

/-! ### what one job does to the state (frame lemmas) -/

/-- the fields a job never touches -/
def SameEnv (s s' : State) : Prop :=
  s'.now = s.now ∧ s'.life = s.life ∧ s'.od = s.od ∧ s'.mode = s.mode ∧ s'.revoked = s.revoked

theorem SameEnv.refl (s : State) : SameEnv s s := ⟨rfl, rfl, rfl, rfl, rfl⟩
theorem SameEnv.trans {a b c : State} (h₁ : SameEnv a b) (h₂ : SameEnv b c) : SameEnv a c :=
  ⟨h₂.1.trans h₁.1, h₂.2.1.trans h₁.2.1, h₂.2.2.1.trans h₁.2.2.1, h₂.2.2.2.1.trans h₁.2.2.2.1,
   h₂.2.2.2.2.trans h₁.2.2.2.2⟩

/-- the log grows by entries satisfying `P` -/
def LogExt (P : LogEntry → Prop) (s s' : State) : Prop := ∃ l, s'.log = s.log ++ l ∧ ∀ le ∈ l, P le

theorem LogExt.refl (P : LogEntry → Prop) (s : State) : LogExt P s s := ⟨[], by simp, by simp⟩

theorem LogExt.trans {P : LogEntry → Prop} {a b c : State} (h₁ : LogExt P a b) (h₂ : LogExt P b c) :
    LogExt P a c := by
  obtain ⟨l₁, e₁, p₁⟩ := h₁
  obtain ⟨l₂, e₂, p₂⟩ := h₂
  refine ⟨l₁ ++ l₂, by rw [e₂, e₁, List.append_assoc], ?_⟩
  intro le hle
  rcases List.mem_append.mp hle with h | h
  · exact p₁ le h
  · exact p₂ le h

theorem LogExt.mono {P Q : LogEntry → Prop} {a b : State} (h : LogExt P a b) (hpq : ∀ le, P le → Q le) :
    LogExt Q a b := by
  obtain ⟨l, e, p⟩ := h
  exact ⟨l, e, fun le hle => hpq le (p le hle)⟩

theorem LogExt.of_eq {P : LogEntry → Prop} {a b : State} (h : b.log = a.log) : LogExt P a b :=
  ⟨[], by simp [h], by simp⟩

/-- storage and counters of every subject other than `k` are untouched -/
def OthersSame (k : Name) (s s' : State) : Prop :=
  ∀ k', k' ≠ k → s'.store k' = s.store k' ∧ s'.ver k' = s.ver k'

section
variable (due : Int → Cert → Bool)

theorem attempt_frame (s : State) (k : Name) (core : Core) :
    SameEnv s (attempt due s k core).2 ∧ OthersSame k s (attempt due s k core).2 ∧
      LogExt (fun le => le.inst = 0 ∧ le.subj = k) s (attempt due s k core).2 := by
  rcases attempt_cases due s k core with e | e | ⟨r, e⟩ <;> rw [e]
  · exact ⟨SameEnv.refl _, fun _ _ => ⟨rfl, rfl⟩, LogExt.refl _ _⟩
  · refine ⟨⟨rfl, rfl, rfl, rfl, rfl⟩, ?_, ⟨[_], rfl, by simp⟩⟩
    intro k' hk'
    simp [issue, upd, hk']
  · exact ⟨⟨rfl, rfl, rfl, rfl, rfl⟩, fun _ _ => ⟨rfl, rfl⟩, ⟨[_], rfl, by simp⟩⟩

end

theorem reload_frame (s : State) (old : Cert) (k : Name) :
    SameEnv s (reload s old k) ∧ (reload s old k).store = s.store ∧ (reload s old k).ver = s.ver ∧
      (reload s old k).log = s.log ∧ (reload s old k).jobs = s.jobs ∧ (reload s old k).issued = s.issued ∧
      ((reload s old k).cache = s.cache ∨
        ∃ w, s.store k = .ok w ∧ (reload s old k).cache = s.cache.replace old ⟨w, true⟩) := by
  unfold reload loadEntry
  split
  · rename_i e he
    split at he
    · rename_i c hc
      cases he
      exact ⟨⟨rfl, rfl, rfl, rfl, rfl⟩, rfl, rfl, rfl, rfl, rfl, Or.inr ⟨c, hc, rfl⟩⟩
    · cases he
  · exact ⟨SameEnv.refl _, rfl, rfl, rfl, rfl, rfl, Or.inl rfl⟩

/-- the three things a pass job can do to the cache when it ends -/
def PassCache (old : Cert) (k : Name) (s s' : State) : Prop :=
  s'.cache = s.cache ∨ (s.od = true ∧ s'.cache = s.cache.remove old) ∨
    ∃ w, s.store k = .ok w ∧ s'.cache = s.cache.replace old ⟨w, true⟩

theorem settle_pass_frame (s : State) (j : Job) (old : Cert) (hk : j.kind = .pass old) (r : Res) :
    SameEnv s (settle s j r) ∧ (settle s j r).store = s.store ∧ (settle s j r).ver = s.ver ∧
      (settle s j r).log = s.log ∧ (settle s j r).issued = s.issued ∧ PassCache old j.subj s (settle s j r) ∧
      ((settle s j r).jobs = s.jobs ∨ ∃ j', (settle s j r).jobs = s.jobs ++ [j'] ∧ j'.jname = j.jname) := by
  have hok : SameEnv s (finishOk s j) ∧ (finishOk s j).store = s.store ∧ (finishOk s j).ver = s.ver ∧
      (finishOk s j).log = s.log ∧ (finishOk s j).issued = s.issued ∧ PassCache old j.subj s (finishOk s j) ∧
      ((finishOk s j).jobs = s.jobs ∨ ∃ j', (finishOk s j).jobs = s.jobs ++ [j'] ∧ j'.jname = j.jname) := by
    unfold finishOk; rw [hk]
    obtain ⟨a, b, c, d, e, f, g⟩ := reload_frame s old j.subj
    refine ⟨a, b, c, d, f, ?_, Or.inl e⟩
    rcases g with g | ⟨w, hw, g⟩
    · exact Or.inl g
    · exact Or.inr (Or.inr ⟨w, hw, g⟩)
  have hfail : SameEnv s (finishFail s j) ∧ (finishFail s j).store = s.store ∧ (finishFail s j).ver = s.ver ∧
      (finishFail s j).log = s.log ∧ (finishFail s j).issued = s.issued ∧ PassCache old j.subj s (finishFail s j) ∧
      ((finishFail s j).jobs = s.jobs ∨ ∃ j', (finishFail s j).jobs = s.jobs ++ [j'] ∧ j'.jname = j.jname) := by
    unfold finishFail; rw [hk]
    dsimp only
    split
    · rename_i hod
      exact ⟨⟨rfl, rfl, rfl, rfl, rfl⟩, rfl, rfl, rfl, rfl, Or.inr (Or.inl ⟨hod, rfl⟩), Or.inl rfl⟩
    · exact ⟨SameEnv.refl _, rfl, rfl, rfl, rfl, Or.inl rfl, Or.inl rfl⟩
  unfold settle
  split
  · exact hok
  · exact hfail
  · exact ⟨⟨rfl, rfl, rfl, rfl, rfl⟩, rfl, rfl, rfl, rfl, Or.inl rfl, Or.inr ⟨_, rfl, rfl⟩⟩
  · split
    · exact ⟨⟨rfl, rfl, rfl, rfl, rfl⟩, rfl, rfl, rfl, rfl, Or.inl rfl, Or.inr ⟨_, rfl, rfl⟩⟩
    · exact hfail

/-- everything `submitPass` can do -/
structure PassStep (old : Cert) (s s' : State) : Prop where
  env : SameEnv s s'
  others : OthersSame (old.names.headD 0) s s'
  log : LogExt (fun le => le.inst = 0 ∧ le.subj = old.names.headD 0) s s'
  cache : s'.cache = s.cache ∨ (s.od = true ∧ s'.cache = s.cache.remove old) ∨
    ∃ w, s'.store (old.names.headD 0) = .ok w ∧ s'.cache = s.cache.replace old ⟨w, true⟩
  jobs : s'.jobs = s.jobs ∨ ∃ j', s'.jobs = s.jobs ++ [j'] ∧ j'.jname = some (old.names.headD 0)

section
variable (due : Int → Cert → Bool)

theorem submitPass_frame (s : State) (old : Cert) : PassStep old s (submitPass due s old) := by
  unfold submitPass submit
  simp only [passJob]
  split
  · exact ⟨SameEnv.refl _, fun _ _ => ⟨rfl, rfl⟩, LogExt.refl _ _, Or.inl rfl, Or.inl rfl⟩
  · unfold runJob
    simp only [JobKind.core]
    obtain ⟨a1, a2, a3⟩ := attempt_frame due (takeLock s (old.names.headD 0)) (old.names.headD 0) (.renew false)
    obtain ⟨_, _, a4, a5⟩ := attempt_inv_frame due (takeLock s (old.names.headD 0)) (old.names.headD 0) (.renew false)
    generalize attempt due (takeLock s (old.names.headD 0)) (old.names.headD 0) (.renew false) = a at *
    obtain ⟨b1, b2, b3, b4, _, b6, b7⟩ := settle_pass_frame a.2
      { subj := old.names.headD 0, jname := some (old.names.headD 0), kind := .pass old, start := s.now, idx := 0, phase := .held }
      old rfl a.1
    refine ⟨?_, ?_, ?_, ?_, ?_⟩
    · exact SameEnv.trans (SameEnv.trans ⟨rfl, rfl, rfl, rfl, rfl⟩ a1) b1
    · intro k' hk'
      rw [b2, b3]; exact a2 k' hk'
    · obtain ⟨l, hl, pl⟩ := a3
      exact ⟨l, by rw [b4, hl]; rfl, pl⟩
    · rcases b6 with h | ⟨hod, h⟩ | ⟨w, hw, h⟩
      · exact Or.inl (by rw [h, a5]; rfl)
      · refine Or.inr (Or.inl ⟨?_, by rw [h, a5]; rfl⟩)
        rw [a1.2.2.1] at hod; exact hod
      · exact Or.inr (Or.inr ⟨w, by rw [b2]; exact hw, by rw [h, a5]; rfl⟩)
    · rcases b7 with h | ⟨j', h, hn⟩
      · exact Or.inl (by rw [h, a4]; rfl)
      · exact Or.inr ⟨j', by rw [h, a4]; rfl, hn⟩

end

/-! ### folds -/

theorem foldl_preserves {α : Type} (f : State → α → State) (Q : State → Prop) (l : List α)
    (hf : ∀ t c, c ∈ l → Q t → Q (f t c)) : ∀ s, Q s → Q (l.foldl f s) := by
  induction l with
  | nil => intro s h; exact h
  | cons c l ih =>
    intro s h
    exact ih (fun t c' hc' => hf t c' (List.mem_cons_of_mem _ hc')) _ (hf s c List.mem_cons_self h)

section
variable (due : Int → Cert → Bool)

theorem exec_preserves (Q : State → Prop) (p : Plan)
    (hr : ∀ t c, c ∈ p.reload → Q t → Q (reloadOld t c))
    (hn : ∀ t c, c ∈ p.renew → Q t → Q (submitPass due t c))
    (hd : ∀ t c, c ∈ p.del → Q t → Q (removeOld t c)) (s : State) (h : Q s) : Q (exec due s p) := by
  unfold exec
  exact foldl_preserves removeOld Q p.del hd _
    (foldl_preserves (submitPass due) Q p.renew hn _ (foldl_preserves reloadOld Q p.reload hr _ h))

/-! ### what the classification says -/

theorem classify_reload {s : State} {e : Entry} (h : classify due s e = .reload) :
    e.managed = true ∧ s.od = false ∧ due s.now e.cert = true ∧
      ∃ k rest v, e.cert.names = k :: rest ∧ s.store k = .ok v ∧ due s.now v = false := by
  unfold classify at h
  split at h
  · cases h
  · rename_i hm
    split at h
    · cases h
    · rename_i k rest hn
      split at h
      · cases h
      · rename_i hod
        split at h
        · cases h
        · rename_i hdue
          split at h
          · cases h
          · rename_i st hne
            split at h
            · cases h
            · rename_i hsd
              refine ⟨by simpa using hm, by simpa using hod, by simpa using hdue, k, rest, ?_⟩
              cases hst : s.store k with
              | none => exact absurd hst (by simpa using hne)
              | corrupt => rw [hst] at hsd; simp [storedDue] at hsd
              | ok v => rw [hst] at hsd; exact ⟨v, hn, rfl, by simpa [storedDue] using hsd⟩

theorem classify_renew {s : State} {e : Entry} (h : classify due s e = .renew) :
    e.managed = true ∧ s.od = false ∧ due s.now e.cert = true ∧
      ∃ k rest, e.cert.names = k :: rest ∧ storedDue due s.now (s.store k) = true := by
  unfold classify at h
  split at h
  · cases h
  · rename_i hm
    split at h
    · cases h
    · rename_i k rest hn
      split at h
      · cases h
      · rename_i hod
        split at h
        · cases h
        · rename_i hdue
          split at h
          · rename_i hst
            exact ⟨by simpa using hm, by simpa using hod, by simpa using hdue, k, rest, hn, by rw [hst]; rfl⟩
          · split at h
            · rename_i hsd
              exact ⟨by simpa using hm, by simpa using hod, by simpa using hdue, k, rest, hn, hsd⟩
            · cases h

theorem classify_del {s : State} {e : Entry} (h : classify due s e = .del) :
    e.managed = true ∧ e.cert.names = [] := by
  unfold classify at h
  split at h
  · cases h
  · rename_i hm
    split at h
    · rename_i hn; exact ⟨by simpa using hm, hn⟩
    · split at h
      · cases h
      · split at h
        · cases h
        · split at h
          · cases h
          · split at h <;> cases h

/-- every certificate of the plan is the certificate of a cache entry that the scan selected -/
theorem scan_plan_cert (s : State) (c : Cert)
    (hc : c ∈ (scan due s).reload ∨ c ∈ (scan due s).renew ∨ c ∈ (scan due s).del) :
    ∃ e ∈ s.cache.entries, e.cert = c ∧ classify due s e ≠ .skip := by
  rcases hc with hc | hc | hc
  · obtain ⟨e, he, hce, hcl⟩ := (scan_reload due s c).mp hc
    exact ⟨e, he, hce, by rw [hcl]; decide⟩
  · obtain ⟨e, he, hce, hcl⟩ := scan_renew due s c hc
    exact ⟨e, he, hce, by rw [hcl]; decide⟩
  · obtain ⟨e, he, hce, hcl⟩ := (scan_del due s c).mp hc
    exact ⟨e, he, hce, by rw [hcl]; decide⟩

/-! ### a certificate the scan skips is untouched -/

theorem reloadOld_keeps (x : CertId) (t : State) (c : Cert) (h : c.id ≠ x) :
    Cache.Keeps x t.cache (reloadOld t c).cache := by
  rcases (reload_frame t c (c.names.headD 0)).2.2.2.2.2.2 with hc | ⟨w, _, hc⟩
  · unfold reloadOld; rw [hc]; exact Cache.Keeps.refl _ _
  · unfold reloadOld; rw [hc]; exact Cache.keeps_replace x _ c _ h

theorem submitPass_keeps (x : CertId) (t : State) (c : Cert) (h : c.id ≠ x) :
    Cache.Keeps x t.cache (submitPass due t c).cache := by
  rcases (submitPass_frame due t c).cache with hc | ⟨_, hc⟩ | ⟨w, _, hc⟩ <;> rw [hc]
  · exact Cache.Keeps.refl _ _
  · exact Cache.keeps_remove x _ c h
  · exact Cache.keeps_replace x _ c _ h

theorem pass_keeps {s : State} (hwf : s.cache.WF) (e : Entry) (he : e ∈ s.cache.entries)
    (hcl : classify due s e = .skip) : Cache.Keeps e.cert.id s.cache (pass due s).cache := by
  have hne : ∀ c, (c ∈ (scan due s).reload ∨ c ∈ (scan due s).renew ∨ c ∈ (scan due s).del) → c.id ≠ e.cert.id := by
    intro c hc hid
    obtain ⟨e', he', hce, hsk⟩ := scan_plan_cert due s c hc
    have : e' = e := hwf.uniq e' he' e he (by rw [hce]; exact hid)
    rw [this] at hsk; exact hsk hcl
  unfold pass
  apply exec_preserves due (fun t => Cache.Keeps e.cert.id s.cache t.cache)
  · intro t c hc hq; exact hq.trans (reloadOld_keeps _ t c (hne c (Or.inl hc)))
  · intro t c hc hq; exact hq.trans (submitPass_keeps due _ t c (hne c (Or.inr (Or.inl hc))))
  · intro t c hc hq; exact hq.trans (Cache.keeps_remove _ _ c (hne c (Or.inr (Or.inr hc))))
  · exact Cache.Keeps.refl _ _

/-- the issuer calls of a pass are instance 0's, for first names of entries put on the renew queue -/
theorem pass_log (s : State) :
    LogExt (fun le => le.inst = 0 ∧ ∃ e ∈ s.cache.entries, classify due s e = .renew ∧
      le.subj = e.cert.names.headD 0) s (pass due s) := by
  unfold pass
  apply exec_preserves due (fun t => LogExt _ s t)
  · intro t c _ hq
    exact hq.trans (LogExt.of_eq (reload_frame t c _).2.2.2.1)
  · intro t c hc hq
    obtain ⟨e, he, hce, hcl⟩ := scan_renew due s c hc
    exact hq.trans ((submitPass_frame due t c).log.mono (fun le hle => ⟨hle.1, e, he, hcl, by rw [hce]; exact hle.2⟩))
  · intro t c _ hq
    exact hq.trans (LogExt.of_eq rfl)
  · exact LogExt.refl _ _

/-- nothing selected: the pass changes nothing at all -/
theorem pass_quiet (s : State) (h : ∀ e ∈ s.cache.entries, classify due s e = .skip) : pass due s = s := by
  have h1 : (scan due s).reload = [] := by
    rw [List.eq_nil_iff_forall_not_mem]; intro c hc
    obtain ⟨e, he, _, hcl⟩ := (scan_reload due s c).mp hc
    rw [h e he] at hcl; cases hcl
  have h2 : (scan due s).renew = [] := by
    rw [List.eq_nil_iff_forall_not_mem]; intro c hc
    obtain ⟨e, he, _, hcl⟩ := scan_renew due s c hc
    rw [h e he] at hcl; cases hcl
  have h3 : (scan due s).del = [] := by
    rw [List.eq_nil_iff_forall_not_mem]; intro c hc
    obtain ⟨e, he, _, hcl⟩ := (scan_del due s c).mp hc
    rw [h e he] at hcl; cases hcl
  unfold pass exec
  rw [h1, h2, h3]; rfl

end

/-! ### adoption -/

theorem foldl_establish {α : Type} (f : State → α → State) (B A : State → Prop) (c₀ : α) :
    ∀ (l : List α), c₀ ∈ l → (∀ t c, c ∈ l → B t → B (f t c)) → (∀ t, B t → A (f t c₀)) →
      (∀ t c, c ∈ l → B t → A t → A (f t c)) → ∀ s, B s → A (l.foldl f s) ∧ B (l.foldl f s) := by
  intro l
  induction l with
  | nil => intro h; cases h
  | cons c l ih =>
    intro h0 hB hE hA s hs
    have hBs := hB s c List.mem_cons_self hs
    by_cases hc : c₀ = c
    · subst hc
      have := foldl_preserves f (fun t => A t ∧ B t) l
        (fun t c' hc' ht => ⟨hA t c' (List.mem_cons_of_mem _ hc') ht.2 ht.1, hB t c' (List.mem_cons_of_mem _ hc') ht.2⟩)
        (f s c₀) ⟨hE s hs, hBs⟩
      exact this
    · have h0' : c₀ ∈ l := by
        rcases List.mem_cons.mp h0 with h | h
        · exact absurd h hc
        · exact h
      exact ih h0' (fun t c' hc' => hB t c' (List.mem_cons_of_mem _ hc')) hE
        (fun t c' hc' => hA t c' (List.mem_cons_of_mem _ hc')) _ hBs

/-- `v` is indexed under each of its names, and hash `x` is gone from the cache -/
def Adopted (v : Cert) (x : CertId) (c : Cache) : Prop :=
  (∀ n ∈ v.names, v.id ∈ c.index n) ∧ Cache.Absent x c

theorem adopted_remove {v : Cert} {x : CertId} {c : Cache} (h : Adopted v x c) (old : Cert)
    (hne : v.id ≠ old.id ∨ old.names = []) : Adopted v x (c.remove old) := by
  refine ⟨fun n hn => (Cache.mem_remove_index ..).mpr ⟨h.1 n hn, ?_⟩, Cache.absent_remove h.2 old⟩
  rintro ⟨hn', hid⟩
  rcases hne with hne | hne
  · exact hne hid
  · rw [hne] at hn'; cases hn'

theorem adopted_add {v : Cert} {x : CertId} {c : Cache} (h : Adopted v x c) (e : Entry) (hne : e.cert.id ≠ x) :
    Adopted v x (c.add e) :=
  ⟨fun n hn => (Cache.mem_add_index ..).mpr (Or.inl (h.1 n hn)), Cache.absent_add h.2 e hne⟩

def logOf (k : Name) (s : State) : List LogEntry := s.log.filter (fun le => le.subj == k)

theorem logOf_ext {k k' : Name} {s s' : State} (h : LogExt (fun le => le.inst = 0 ∧ le.subj = k') s s')
    (hk : k' ≠ k) : logOf k s' = logOf k s := by
  obtain ⟨l, hl, pl⟩ := h
  unfold logOf
  rw [hl, List.filter_append]
  have : l.filter (fun le => le.subj == k) = [] := by
    rw [List.filter_eq_nil_iff]
    intro le hle
    have := (pl le hle).2
    simp [this, hk]
  rw [this, List.append_nil]

section
variable (due : Int → Cert → Bool)

theorem pass_adopts {s : State} (h : Inv s) (e : Entry) (he : e ∈ s.cache.entries) (k : Name)
    (rest : List Name) (hn : e.cert.names = k :: rest) (hcl : classify due s e = .reload)
    (v : Cert) (hv : s.store k = .ok v) (hown : e.cert.id.name = k) :
    Adopted v e.cert.id (pass due s).cache ∧ logOf k (pass due s) = logOf k s ∧
      (pass due s).store k = .ok v := by
  obtain ⟨_, hod, hdue, k', rest', v', hn', hv', hndue⟩ := classify_reload due hcl
  rw [hn] at hn'; cases hn'
  rw [hv] at hv'; cases hv'
  have hvi : v ∈ s.issued := h.reg.store k v hv
  have hei : e.cert ∈ s.issued := h.reg.cache e he
  have hvx : v.id ≠ e.cert.id := by
    intro hid
    have := h.reg.fn v hvi e.cert hei hid
    rw [this, hdue] at hndue; cases hndue
  have hhead : e.cert.names.headD 0 = k := by rw [hn]; rfl
  -- phase 1: the reload queue
  let B : State → Prop := fun t => Inv t ∧ Sub s t ∧ t.store = s.store ∧ t.log = s.log
  let A : State → Prop := fun t => Adopted v e.cert.id t.cache
  have hmem : e.cert ∈ (scan due s).reload := (scan_reload due s _).mpr ⟨e, he, rfl, hcl⟩
  have hdueOf : ∀ c, c ∈ (scan due s).reload ∨ c ∈ (scan due s).renew → due s.now c = true := by
    intro c hc
    rcases hc with hc | hc
    · obtain ⟨e', _, hce, hcl'⟩ := (scan_reload due s c).mp hc
      rw [← hce]; exact (classify_reload due hcl').2.2.1
    · obtain ⟨e', _, hce, hcl'⟩ := scan_renew due s c hc
      rw [← hce]; exact (classify_renew due hcl').2.2.1
  have hvne : ∀ t c, Sub s t → Inv t → c ∈ s.issued → due s.now c = true → v.id ≠ c.id := by
    intro t c hs ht hc hd hid
    have := ht.reg.fn v (hs v hvi) c (hs c hc) hid
    rw [this, hd] at hndue; cases hndue
  have ph1 : A ((scan due s).reload.foldl reloadOld s) ∧ B ((scan due s).reload.foldl reloadOld s) := by
    apply foldl_establish reloadOld B A e.cert _ hmem
    · intro t c hc ⟨ht, hs, hst, hlg⟩
      have hci : c ∈ t.issued := hs c ((scan_issued due h).1 c hc)
      obtain ⟨_, f2, _, f4, _, _, _⟩ := reload_frame t c (c.names.headD 0)
      exact ⟨(reload_inv ht c _ hci).1, hs.trans (reload_inv ht c _ hci).2.1, by unfold reloadOld; rw [f2, hst],
        by unfold reloadOld; rw [f4, hlg]⟩
    · intro t ⟨ht, hs, hst, _⟩
      show Adopted v e.cert.id (reloadOld t e.cert).cache
      have hl : loadEntry t k = some ⟨v, true⟩ := by unfold loadEntry; rw [hst, hv]
      have hc : (reloadOld t e.cert).cache = (t.cache.remove e.cert).add ⟨v, true⟩ := by
        unfold reloadOld reload; rw [hhead, hl]; rfl
      rw [hc]
      have hrem := ht.cacheRemove e.cert (hs _ hei)
      constructor
      · intro n hnv
        exact Cache.index_add_self hrem.wf ⟨v, true⟩
          (fun e' he' hi => by rw [hrem.names_of_id (hs v hvi) e' he' hi]) n hnv
      · exact Cache.absent_add
          (Cache.absent_remove_self ht.wf e.cert (fun e' he' hi => by rw [ht.names_of_id (hs _ hei) e' he' hi]))
          _ hvx
    · intro t c hc ⟨ht, hs, hst, _⟩ ha
      show Adopted v e.cert.id (reloadOld t c).cache
      have hci := (scan_issued due h).1 c hc
      rcases (reload_frame t c (c.names.headD 0)).2.2.2.2.2.2 with hcc | ⟨w, hw, hcc⟩
      · unfold reloadOld; rw [hcc]; exact ha
      · unfold reloadOld; rw [hcc]
        refine adopted_add (adopted_remove ha c (Or.inl (hvne t c hs ht hci (hdueOf c (Or.inl hc))))) _ ?_
        intro hid
        have hwi : w ∈ t.issued := ht.reg.store _ _ hw
        have hwe : w = e.cert := ht.reg.fn w hwi e.cert (hs _ hei) hid
        have hk' : c.names.headD 0 = k := by
          have := ht.reg.own _ _ hw
          rw [hwe, hown] at this; exact this.symm
        rw [hk', hst, hv] at hw
        cases hw
        exact hvx (by rw [hwe])
    · exact ⟨h, Sub.refl _, rfl, rfl⟩
  -- phases 2 and 3
  let Q : State → Prop := fun t => Inv t ∧ Sub s t ∧ Adopted v e.cert.id t.cache ∧ t.store k = .ok v ∧ logOf k t = logOf k s
  have hfinal : Q (pass due s) := by
    unfold pass exec
    apply foldl_preserves removeOld Q
    · intro t c hc ⟨ht, hs, ha, hst, hlg⟩
      obtain ⟨e', _, hce, hcl'⟩ := (scan_del due s c).mp hc
      have hnames : c.names = [] := by rw [← hce]; exact (classify_del due hcl').2
      have hci := hs c ((scan_issued due h).2.2 c hc)
      exact ⟨ht.cacheRemove c hci, hs, adopted_remove ha c (Or.inr hnames), hst, hlg⟩
    apply foldl_preserves (submitPass due) Q
    · intro t c hc ⟨ht, hs, ha, hst, hlg⟩
      have hci := (scan_issued due h).2.1 c hc
      have hinv := submitPass_inv due t c ht (hs c hci)
      have hfr := submitPass_frame due t c
      obtain ⟨e', _, hce, hcl'⟩ := scan_renew due s c hc
      have hk' : c.names.headD 0 ≠ k := by
        intro hk'
        obtain ⟨_, _, _, k'', rest'', hn'', hsd⟩ := classify_renew due hcl'
        rw [hce] at hn''
        rw [hn''] at hk'; simp only [List.headD_cons] at hk'
        rw [hk', hv] at hsd
        simp only [storedDue] at hsd
        rw [hsd] at hndue; cases hndue
      have hvc := hvne t c hs ht hci (hdueOf c (Or.inr hc))
      refine ⟨hinv.1, hs.trans hinv.2, ?_, by rw [(hfr.others k (Ne.symm hk')).1]; exact hst,
        by rw [logOf_ext hfr.log hk']; exact hlg⟩
      rcases hfr.cache with hcc | ⟨_, hcc⟩ | ⟨w, hw, hcc⟩ <;> rw [hcc]
      · exact ha
      · exact adopted_remove ha c (Or.inl hvc)
      · refine adopted_add (adopted_remove ha c (Or.inl hvc)) _ ?_
        intro hid
        have hwi : w ∈ (submitPass due t c).issued := hinv.1.reg.store _ _ hw
        have hwe : w = e.cert := hinv.1.reg.fn w hwi e.cert (hinv.2 _ (hs _ hei)) hid
        have := hinv.1.reg.own _ _ hw
        rw [hwe, hown] at this
        exact hk' this.symm
    · exact ⟨ph1.2.1, ph1.2.2.1, ph1.1, by rw [ph1.2.2.2.1]; exact hv, by unfold logOf; rw [ph1.2.2.2.2]⟩
  exact ⟨hfinal.2.2.1, hfinal.2.2.2.2, hfinal.2.2.2.1⟩

end

/-! ### renewal, once -/

abbrev DistinctIds (l : List Cert) : Prop := l.Pairwise (fun a b => a.id ≠ b.id)

theorem insertCert_distinct {l : List Cert} (h : DistinctIds l) (c : Cert) : DistinctIds (insertCert l c) := by
  unfold insertCert
  split
  · exact h
  · rename_i hany
    have hany : l.any (fun x => x.id == c.id) = false := by simpa using hany
    refine List.pairwise_append.mpr ⟨h, List.pairwise_singleton _ _, ?_⟩
    intro a ha b hb
    rw [List.mem_singleton.mp hb]
    intro hid
    have : l.any (fun x => x.id == c.id) = true := List.any_eq_true.mpr ⟨a, ha, by simp [hid]⟩
    rw [hany] at this; cases this

theorem distinct_split {l : List Cert} (h : DistinctIds l) {c₀ : Cert} (h0 : c₀ ∈ l) :
    ∃ l₁ l₂, l = l₁ ++ c₀ :: l₂ ∧ (∀ a ∈ l₁, a.id ≠ c₀.id) ∧ (∀ b ∈ l₂, b.id ≠ c₀.id) := by
  obtain ⟨l₁, l₂, rfl⟩ := List.append_of_mem h0
  obtain ⟨_, h2, h3⟩ := List.pairwise_append.mp h
  refine ⟨l₁, l₂, rfl, fun a ha => h3 a ha c₀ List.mem_cons_self, fun b hb => ?_⟩
  have := (List.pairwise_cons.mp h2).1 b hb
  exact fun hid => this hid.symm

section
variable (due : Int → Cert → Bool)

theorem scan_renew_distinct (s : State) : DistinctIds (scan due s).renew := by
  have : ∀ (l : List Entry) (p : Plan), DistinctIds p.renew → DistinctIds (l.foldl (scanStep due s) p).renew := by
    intro l
    induction l with
    | nil => intro p h; exact h
    | cons e l ih =>
      intro p h
      apply ih
      unfold scanStep
      cases classify due s e <;> simp only
      · exact h
      · exact h
      · exact insertCert_distinct h _
      · exact h
  exact this _ _ List.Pairwise.nil

theorem countP_named_zero {jobs : List Job} {n : Name} (h : jobs.countP (named n) = 0) :
    jobs.any (fun j' => j'.jname == some n) = false := by
  rw [List.countP_eq_zero] at h
  rw [List.any_eq_false]
  intro j hj
  exact h j hj

/-- the renewal job of a due certificate whose issuer works, from submission to the end -/
theorem submitPass_renews (t : State) (c : Cert) (k : Name) (hk : c.names.headD 0 = k)
    (hjobs : t.jobs.countP (named k) = 0) (hst : t.store k ≠ .none)
    (hdue : storedDue due t.now (t.store k) = true) (hmode : t.mode k = .ok) :
    (submitPass due t c).store k = .ok (newCert t k) ∧
      (submitPass due t c).log = t.log ++ [⟨0, k, .ok (t.ver k + 1)⟩] ∧
      (submitPass due t c).cache = t.cache.replace c ⟨newCert t k, true⟩ ∧
      (submitPass due t c).jobs = t.jobs ∧ Sub t (submitPass due t c) := by
  have hany := countP_named_zero hjobs
  have hneed : needIssue due (takeLock t k) k (.renew false) = some true := by
    unfold needIssue
    simp only [takeLock]
    cases hs : t.store k with
    | none => exact absurd hs hst
    | corrupt => simp [storedDue]
    | ok w => rw [hs] at hdue; simp [hdue]
  have hatt : attempt due (takeLock t k) k (.renew false) = (.done, issue (takeLock t k) 0 k) := by
    unfold attempt
    rw [hneed]
    simp only [takeLock, hmode]
  unfold submitPass submit
  simp only [passJob, hk, hany]
  unfold runJob
  simp only [JobKind.core, hatt, settle, finishOk, reload, loadEntry]
  simp only [issue, upd, takeLock, newCert, if_true]
  refine ⟨?_, ?_, ?_, ?_, ?_⟩
  · simp [upd]
  · rfl
  · rfl
  · rfl
  · intro x hx; exact List.mem_append.mpr (Or.inl hx)

/-- the pass seen from one certificate `e` of the renew queue whose first name `k` no other
queued certificate shares: up to the submission of `e`'s job nothing about `k` has changed -/
theorem pass_split {s : State} (h : Inv s) (e : Entry) (he : e ∈ s.cache.entries) (k : Name)
    (rest : List Name) (_hn : e.cert.names = k :: rest) (hcl : classify due s e = .renew)
    (honly : ∀ e' ∈ s.cache.entries, classify due s e' = .renew → e'.cert.names.headD 0 = k → e' = e) :
    ∃ (t : State) (l₂ : List Cert), pass due s = (scan due s).del.foldl removeOld (l₂.foldl (submitPass due) (submitPass due t e.cert)) ∧
      (∀ c ∈ l₂, c ∈ (scan due s).renew ∧ c.id ≠ e.cert.id ∧ c.names.headD 0 ≠ k) ∧
      Inv t ∧ Sub s t ∧ SameEnv s t ∧ t.store k = s.store k ∧ t.ver k = s.ver k ∧ logOf k t = logOf k s ∧
      t.jobs.countP (named k) = s.jobs.countP (named k) ∧ Cache.Keeps e.cert.id s.cache t.cache := by
  have hmem : e.cert ∈ (scan due s).renew := scan_renew_mem due s h.wf e he hcl
  obtain ⟨l₁, l₂, hsplit, hl₁, hl₂⟩ := distinct_split (scan_renew_distinct due s) hmem
  have hinl : ∀ c, c ∈ l₁ ∨ c ∈ l₂ → c ∈ (scan due s).renew := by
    intro c hc; rw [hsplit]
    rcases hc with hc | hc
    · exact List.mem_append.mpr (Or.inl hc)
    · exact List.mem_append.mpr (Or.inr (List.mem_cons_of_mem _ hc))
  have hother : ∀ c, c ∈ (scan due s).renew → c.id ≠ e.cert.id → c.names.headD 0 ≠ k := by
    intro c hc hne hk
    obtain ⟨e', he', hce, hcl'⟩ := scan_renew due s c hc
    have := honly e' he' hcl' (by rw [hce]; exact hk)
    rw [this] at hce; exact hne (by rw [hce])
  let Q1 : State → Prop := fun t => Inv t ∧ Sub s t ∧ SameEnv s t ∧ t.store = s.store ∧ t.ver = s.ver ∧
    t.log = s.log ∧ t.jobs = s.jobs ∧ Cache.Keeps e.cert.id s.cache t.cache
  have ph1 : Q1 ((scan due s).reload.foldl reloadOld s) := by
    apply foldl_preserves reloadOld Q1
    · intro t c hc ⟨ht, hs, henv, h1, h2, h3, h4, h5⟩
      have hci : c ∈ t.issued := hs c ((scan_issued due h).1 c hc)
      obtain ⟨f1, f2, f3, f4, f5, _, _⟩ := reload_frame t c (c.names.headD 0)
      have hne : c.id ≠ e.cert.id := by
        intro hid
        obtain ⟨e', he', hce, hcl'⟩ := (scan_reload due s c).mp hc
        have : e' = e := h.wf.uniq e' he' e he (by rw [hce]; exact hid)
        rw [this, hcl] at hcl'; cases hcl'
      exact ⟨(reload_inv ht c _ hci).1, hs.trans (reload_inv ht c _ hci).2.1, henv.trans f1,
        by unfold reloadOld; rw [f2, h1], by unfold reloadOld; rw [f3, h2], by unfold reloadOld; rw [f4, h3],
        by unfold reloadOld; rw [f5, h4], h5.trans (reloadOld_keeps _ t c hne)⟩
    · exact ⟨h, Sub.refl _, SameEnv.refl _, rfl, rfl, rfl, rfl, Cache.Keeps.refl _ _⟩
  let Q2 : State → Prop := fun t => Inv t ∧ Sub s t ∧ SameEnv s t ∧ t.store k = s.store k ∧ t.ver k = s.ver k ∧
    logOf k t = logOf k s ∧ t.jobs.countP (named k) = s.jobs.countP (named k) ∧
    Cache.Keeps e.cert.id s.cache t.cache
  have ph2a : Q2 (l₁.foldl (submitPass due) ((scan due s).reload.foldl reloadOld s)) := by
    apply foldl_preserves (submitPass due) Q2
    · intro t c hc ⟨ht, hs, henv, h1, h2, h3, h4, h5⟩
      have hcr := hinl c (Or.inl hc)
      have hci := (scan_issued due h).2.1 c hcr
      have hinv := submitPass_inv due t c ht (hs c hci)
      have hfr := submitPass_frame due t c
      have hk' := hother c hcr (hl₁ c hc)
      refine ⟨hinv.1, hs.trans hinv.2, henv.trans hfr.env, by rw [(hfr.others k (Ne.symm hk')).1, h1],
        by rw [(hfr.others k (Ne.symm hk')).2, h2], by rw [logOf_ext hfr.log hk', h3], ?_,
        h5.trans (submitPass_keeps due _ t c (hl₁ c hc))⟩
      rcases hfr.jobs with hj | ⟨j', hj, hjn⟩
      · rw [hj, h4]
      · rw [hj, List.countP_append, List.countP_cons, List.countP_nil, h4]
        have : named k j' = false := by
          simp only [named, hjn]
          simp only [beq_eq_false_iff_ne, ne_eq, Option.some.injEq]
          exact hk'
        simp [this]
    · obtain ⟨b1, b2, b3, b4, b5, b6, b7, b8⟩ := ph1
      exact ⟨b1, b2, b3, by rw [b4], by rw [b5], by unfold logOf; rw [b6], by rw [b7], b8⟩
  refine ⟨_, l₂, ?_, fun c hc => ⟨hinl c (Or.inr hc), hl₂ c hc, hother c (hinl c (Or.inr hc)) (hl₂ c hc)⟩, ph2a⟩
  unfold pass exec
  rw [hsplit, List.foldl_append, List.foldl_cons]

theorem pass_renews_once {s : State} (h : Inv s) (e : Entry) (he : e ∈ s.cache.entries) (k : Name)
    (rest : List Name) (hn : e.cert.names = k :: rest) (hcl : classify due s e = .renew)
    (hst : s.store k ≠ .none) (hmode : s.mode k = .ok) (hjobs : s.jobs.countP (named k) = 0)
    (honly : ∀ e' ∈ s.cache.entries, classify due s e' = .renew → e'.cert.names.headD 0 = k → e' = e)
    (hown : e.cert.id.name = k) :
    (pass due s).store k = .ok (newCert s k) ∧
      logOf k (pass due s) = logOf k s ++ [⟨0, k, .ok (s.ver k + 1)⟩] ∧
      Adopted (newCert s k) e.cert.id (pass due s).cache ∧
      (pass due s).jobs.countP (named k) = 0 := by
  obtain ⟨_, hod, hdue, k', rest', hn', hsd⟩ := classify_renew due hcl
  rw [hn] at hn'; cases hn'
  have hei : e.cert ∈ s.issued := h.reg.cache e he
  have hhead : e.cert.names.headD 0 = k := by rw [hn]; rfl
  let new := newCert s k
  have hfresh : ∀ c, c ∈ s.issued → new.id ≠ c.id := fun c hc hid => newCert_fresh h.reg k c hc hid.symm
  obtain ⟨t, l₂, hpass, hl₂, ht, hs, henv, h1, h2, h3, h4, _⟩ := pass_split due h e he k rest hn hcl honly
  let Q3 : State → Prop := fun t => Inv t ∧ Sub s t ∧ t.store k = .ok new ∧
    logOf k t = logOf k s ++ [⟨0, k, .ok (s.ver k + 1)⟩] ∧ t.jobs.countP (named k) = 0 ∧
    Adopted new e.cert.id t.cache
  have ph2b : Q3 (submitPass due t e.cert) := by
    have hnew : newCert t k = new := by
      simp only [new, newCert, h2, henv.1, henv.2.1]
    obtain ⟨r1, r2, r3, r4, _⟩ := submitPass_renews due t e.cert k hhead (by rw [h4]; exact hjobs)
      (by rw [h1]; exact hst) (by rw [h1, henv.1]; exact hsd) (by rw [henv.2.2.2.1]; exact hmode)
    have hinv := submitPass_inv due t e.cert ht (hs _ hei)
    rw [hnew] at r1 r3
    refine ⟨hinv.1, hs.trans hinv.2, r1, ?_, by rw [r4, h4]; exact hjobs, ?_⟩
    · unfold logOf at h3 ⊢
      rw [r2, List.filter_append, h3, h2]
      simp
    · rw [r3]
      have hrem := ht.cacheRemove e.cert (hs _ hei)
      constructor
      · intro n hnn
        apply Cache.index_add_self hrem.wf ⟨new, true⟩ _ n hnn
        intro e' he' hi
        exfalso
        -- no entry can already have the fresh identity
        have hb := ht.reg.bound e'.cert (hrem.reg.cache e' he')
        rw [hi] at hb
        simp only [new, newCert] at hb
        rw [h2] at hb; omega
      · exact Cache.absent_add
          (Cache.absent_remove_self ht.wf e.cert (fun e' he' hi => by rw [ht.names_of_id (hs _ hei) e' he' hi]))
          _ (hfresh _ hei)
  have keepQ3 : ∀ t c, c ∈ s.issued → Q3 t →
      ∀ t', Inv t' → Sub t t' → t'.store k = t.store k → logOf k t' = logOf k t →
        t'.jobs.countP (named k) = t.jobs.countP (named k) →
        (t'.cache = t.cache ∨ t'.cache = t.cache.remove c ∨
          ∃ w, t'.store (c.names.headD 0) = .ok w ∧ c.names.headD 0 ≠ k ∧ t'.cache = t.cache.replace c ⟨w, true⟩) → Q3 t' := by
    intro t c hci ⟨ht, hs, q1, q2, q3, q4⟩ t' ht' hs' e1 e2 e3 hcache
    refine ⟨ht', hs.trans hs', by rw [e1]; exact q1, by rw [e2]; exact q2, by rw [e3]; exact q3, ?_⟩
    rcases hcache with hcc | hcc | ⟨w, hw, hk', hcc⟩ <;> rw [hcc]
    · exact q4
    · exact adopted_remove q4 c (Or.inl (hfresh c hci))
    · refine adopted_add (adopted_remove q4 c (Or.inl (hfresh c hci))) _ ?_
      intro hid
      have hwi : w ∈ t'.issued := ht'.reg.store _ _ hw
      have hwe : w = e.cert := ht'.reg.fn w hwi e.cert (hs' _ (hs _ hei)) hid
      have := ht'.reg.own _ _ hw
      rw [hwe, hown] at this
      exact hk' this.symm
  have ph3 : Q3 (pass due s) := by
    rw [hpass]
    apply foldl_preserves removeOld Q3
    · intro t c hc hq
      have hci := (scan_issued due h).2.2 c hc
      exact keepQ3 t c hci hq _ (hq.1.cacheRemove c (hq.2.1 c hci)) (fun _ hx => hx) rfl rfl rfl
        (Or.inr (Or.inl rfl))
    apply foldl_preserves (submitPass due) Q3
    · intro t c hc hq
      obtain ⟨hcr, hne, hk'⟩ := hl₂ c hc
      have hci := (scan_issued due h).2.1 c hcr
      have hinv := submitPass_inv due t c hq.1 (hq.2.1 c hci)
      have hfr := submitPass_frame due t c
      apply keepQ3 t c hci hq _ hinv.1 hinv.2 (hfr.others k (Ne.symm hk')).1 (logOf_ext hfr.log hk')
      · rcases hfr.jobs with hj | ⟨j', hj, hjn⟩
        · rw [hj]
        · rw [hj, List.countP_append, List.countP_cons, List.countP_nil]
          have : named k j' = false := by
            simp only [named, hjn]
            simp only [beq_eq_false_iff_ne, ne_eq, Option.some.injEq]
            exact hk'
          simp [this]
      · rcases hfr.cache with hcc | ⟨_, hcc⟩ | ⟨w, hw, hcc⟩
        · exact Or.inl hcc
        · exact Or.inr (Or.inl hcc)
        · exact Or.inr (Or.inr ⟨w, hw, hk', hcc⟩)
    · exact ph2b
  exact ⟨ph3.2.2.1, ph3.2.2.2.1, ph3.2.2.2.2.2, ph3.2.2.2.2.1⟩

/-! ### failure keeps the certificate -/

/-- a job that does not end well leaves the cache as it is — unless the configuration is
on-demand (pass job) or the certificate was revoked (forced renewal) -/
theorem settle_fail_cache (s : State) (j : Job) (r : Res) (hr : r ≠ .done)
    (hod : ∀ old, j.kind = .pass old → s.od = false) (hforce : ∀ c, j.kind ≠ .mforce c) :
    (settle s j r).cache = s.cache := by
  have hfail : (finishFail s j).cache = s.cache := by
    unfold finishFail
    cases hk : j.kind with
    | pass old => simp [hod old hk]
    | mrenew c => rfl
    | mforce c => exact absurd hk (hforce c)
    | mobtain => rfl
  unfold settle
  cases r with
  | done => exact absurd rfl hr
  | hardErr => exact hfail
  | held => rfl
  | softErr =>
    simp only
    split
    · rfl
    · exact hfail

theorem submitPass_fails (t : State) (c : Cert) (k : Name) (hk : c.names.headD 0 = k)
    (hod : t.od = false) (hmode : t.mode k ≠ .ok) (hdue : storedDue due t.now (t.store k) = true) :
    (submitPass due t c).cache = t.cache := by
  unfold submitPass submit
  simp only [passJob, hk]
  split
  · rfl
  · unfold runJob
    have hatt : (attempt due (takeLock t k) k (.renew false)).1 ≠ .done ∧
        (attempt due (takeLock t k) k (.renew false)).2.cache = t.cache ∧
        (attempt due (takeLock t k) k (.renew false)).2.now = t.now ∧
        (attempt due (takeLock t k) k (.renew false)).2.od = t.od := by
      unfold attempt needIssue
      simp only [takeLock]
      cases hs : t.store k with
      | none => simp
      | corrupt =>
        simp only [storedDue, Bool.or_true]
        cases hm : t.mode k <;> simp [logRes]
        exact hmode hm
      | ok w =>
        rw [hs] at hdue
        simp only [hdue, Bool.or_true]
        cases hm : t.mode k <;> simp [logRes]
        exact hmode hm
    simp only [JobKind.core]
    rw [settle_fail_cache _ _ _ hatt.1]
    · exact hatt.2.1
    · intro old _
      rw [hatt.2.2.2]; exact hod
    · intro c' hc'; cases hc'

theorem pass_failure_keeps {s : State} (h : Inv s) (e : Entry) (he : e ∈ s.cache.entries) (k : Name)
    (rest : List Name) (hn : e.cert.names = k :: rest) (hcl : classify due s e = .renew)
    (hmode : s.mode k ≠ .ok)
    (honly : ∀ e' ∈ s.cache.entries, classify due s e' = .renew → e'.cert.names.headD 0 = k → e' = e) :
    Cache.Keeps e.cert.id s.cache (pass due s).cache := by
  obtain ⟨_, hod, _, k', rest', hn', hsd⟩ := classify_renew due hcl
  rw [hn] at hn'; cases hn'
  have hhead : e.cert.names.headD 0 = k := by rw [hn]; rfl
  obtain ⟨t, l₂, hpass, hl₂, ht, hs, henv, h1, h2, h3, h4, h5⟩ := pass_split due h e he k rest hn hcl honly
  rw [hpass]
  have hours : Cache.Keeps e.cert.id s.cache (submitPass due t e.cert).cache := by
    rw [submitPass_fails due t e.cert k hhead (by rw [henv.2.2.1]; exact hod)
      (by rw [henv.2.2.2.1]; exact hmode) (by rw [h1, henv.1]; exact hsd)]
    exact h5
  apply foldl_preserves removeOld (fun t => Cache.Keeps e.cert.id s.cache t.cache)
  · intro t c hc hq
    refine hq.trans (Cache.keeps_remove _ _ c ?_)
    intro hid
    obtain ⟨e', he', hce, hcl'⟩ := (scan_del due s c).mp hc
    have : e' = e := h.wf.uniq e' he' e he (by rw [hce]; exact hid)
    rw [this, hcl] at hcl'; cases hcl'
  apply foldl_preserves (submitPass due) (fun t => Cache.Keeps e.cert.id s.cache t.cache)
  · intro t c hc hq
    exact hq.trans (submitPass_keeps due _ t c (hl₂ c hc).2.1)
  · exact hours

/-! ### overlapping passes -/

theorem submitPass_dropped (t : State) (c : Cert)
    (h : t.jobs.any (fun j' => j'.jname == some (c.names.headD 0)) = true) : submitPass due t c = t := by
  unfold submitPass submit
  simp only [passJob, h, if_true]

/-- while a job named `k` is queued or running, a pass starts no other and calls no issuer for `k` -/
theorem pass_overlap (s : State) (k : Name) (hjob : 0 < s.jobs.countP (named k)) :
    (pass due s).jobs.countP (named k) = s.jobs.countP (named k) ∧ logOf k (pass due s) = logOf k s ∧
      (∀ j ∈ s.jobs, j ∈ (pass due s).jobs) := by
  unfold pass
  apply exec_preserves due (fun t => t.jobs.countP (named k) = s.jobs.countP (named k) ∧ logOf k t = logOf k s ∧
      (∀ j ∈ s.jobs, j ∈ t.jobs))
  · intro t c _ ⟨q1, q2, q3⟩
    obtain ⟨_, _, _, f4, f5, _, _⟩ := reload_frame t c (c.names.headD 0)
    exact ⟨by unfold reloadOld; rw [f5]; exact q1, by unfold logOf reloadOld; rw [f4]; exact q2,
      by unfold reloadOld; rw [f5]; exact q3⟩
  · intro t c _ ⟨q1, q2, q3⟩
    by_cases hk : c.names.headD 0 = k
    · have : t.jobs.any (fun j' => j'.jname == some (c.names.headD 0)) = true := by
        rw [hk]
        obtain ⟨j, hj, hn⟩ := List.countP_pos_iff.mp (by rw [q1]; exact hjob)
        exact List.any_eq_true.mpr ⟨j, hj, hn⟩
      rw [submitPass_dropped due t c this]
      exact ⟨q1, q2, q3⟩
    · have hfr := submitPass_frame due t c
      refine ⟨?_, by rw [logOf_ext hfr.log hk]; exact q2, ?_⟩
      · rcases hfr.jobs with hj | ⟨j', hj, hjn⟩
        · rw [hj]; exact q1
        · rw [hj, List.countP_append, List.countP_cons, List.countP_nil, q1]
          have : named k j' = false := by
            simp only [named, hjn]
            simp only [beq_eq_false_iff_ne, ne_eq, Option.some.injEq]
            exact hk
          simp [this]
      · rcases hfr.jobs with hj | ⟨j', hj, _⟩ <;> rw [hj]
        · exact q3
        · intro j hjm; exact List.mem_append.mpr (Or.inl (q3 j hjm))
  · intro t c _ q; exact q
  · exact ⟨rfl, rfl, fun _ hj => hj⟩

/-- `n` passes in a row -/
def passN : Nat → State → State
  | 0, s => s
  | n + 1, s => passN n (pass due s)

theorem passN_overlap (n : Nat) : ∀ (s : State) (k : Name), 0 < s.jobs.countP (named k) →
    (passN due n s).jobs.countP (named k) = s.jobs.countP (named k) ∧ logOf k (passN due n s) = logOf k s := by
  induction n with
  | zero => intro s k _; exact ⟨rfl, rfl⟩
  | succ n ih =>
    intro s k hjob
    obtain ⟨a1, a2, _⟩ := pass_overlap due s k hjob
    obtain ⟨b1, b2⟩ := ih (pass due s) k (by rw [a1]; exact hjob)
    exact ⟨by unfold passN; rw [b1, a1], by unfold passN; rw [b2, a2]⟩

end

/-! ### what the handshake serves -/

theorem selectLoop_mem (now : Int) : ∀ (l : List Entry) (b : Entry),
    selectLoop now l b = b ∨ selectLoop now l b ∈ l := by
  intro l
  induction l with
  | nil => intro b; exact Or.inl rfl
  | cons a l ih =>
    intro b
    unfold selectLoop
    split
    · exact Or.inr List.mem_cons_self
    · rcases ih a with h | h
      · exact Or.inr (by rw [h]; exact List.mem_cons_self)
      · exact Or.inr (List.mem_cons_of_mem _ h)

theorem select_mem (now : Int) (l : List Entry) (x : Entry) (h : select now l = some x) : x ∈ l := by
  unfold select at h
  split at h
  · cases h
  · cases h; exact List.mem_cons_self
  · rename_i e rest _
    cases h
    rcases selectLoop_mem now (e :: rest) e with h | h
    · rw [h]; exact List.mem_cons_self
    · exact h

theorem select_none (now : Int) (l : List Entry) (h : select now l = none) : l = [] := by
  unfold select at h
  split at h
  · rfl
  · cases h
  · cases h

theorem storedCert_eq (s : State) (k : Name) (f : Bool) (hl : loadRes s k f = .ok) :
    s.store k = .ok (storedCert s k) := by
  unfold loadRes at hl
  unfold storedCert
  split at hl
  · cases hl
  · split at hl
    · cases hl
    · cases hl
    · rename_i c hc; rw [hc]

end CM.Maintain
