import CM.Lib.Wire
import CM.Model.OCSP
import CM.Generated.Fn
/-!
Driver handler for C14.

`staple <via> <disabled> <persisted> <responder> <issuerInChain> <nb> <na> <now> <storeFails>`
   `=> <ocsp set> <stapled> <stored staple afterwards> <requests> <err|-> <cached|->`
`maint <managed> <expired> <entry ocsp> <entry staple> <disabled> <persisted> <responder> <issuerInChain>`
   `<nb> <na> <now> <storeFails> <stillCached> <renew ok|fail|giveup>`
   `=> <after> <stored staple afterwards> <requests> <issuer called 0|1>`
A response is `<g|r|u>:<serial 0|1>:<signature 0|1>:<thisUpdate>:<nextUpdate|->:<responder NotAfter|->`;
persisted `a|c|<resp>`; responder `ns|oe|ni|te|g|<resp>`; `-` = none.
-/
namespace CM.Drv.C14
open CM.Wire CM.OCSP

def optInt (s : String) : Option (Option Int) :=
  if s = "-" then some none else (s.toInt?).map some

def decResp (t : String) : Option Resp :=
  match t.splitOn ":" with
  | [st, ser, sig, tu, nu, rna] =>
    let status : Option Status := if st = "g" then some .good else if st = "r" then some .revoked
      else if st = "u" then some .unknown else none
    match status, tu.toInt?, optInt nu, optInt rna with
    | some status, some tu, some nu, some rna =>
      some { status := status, serialMatches := ser = "1", signedByIssuer := sig = "1", thisUpdate := tu
             nextUpdate := nu, responderNotAfter := rna }
    | _, _, _, _ => none
  | _ => none

def showOptInt : Option Int → String
  | none => "-"
  | some n => toString n

def showResp (r : Resp) : String :=
  (match r.status with | .good => "g" | .revoked => "r" | .unknown => "u") ++ ":" ++
  (if r.serialMatches then "1" else "0") ++ ":" ++ (if r.signedByIssuer then "1" else "0") ++ ":" ++
  toString r.thisUpdate ++ ":" ++ showOptInt r.nextUpdate ++ ":" ++ showOptInt r.responderNotAfter

def showOptResp : Option Resp → String
  | none => "-"
  | some r => showResp r

def decOptResp (t : String) : Option (Option Resp) :=
  if t = "-" then some none else (decResp t).map some

def decPersisted (t : String) : Option Persisted :=
  if t = "a" then some .absent else if t = "c" then some .corrupt else (decResp t).map .parsed

def showPersisted : Persisted → String
  | .absent => "a" | .corrupt => "c" | .parsed r => showResp r

def decResponder (t : String) : Option Responder :=
  if t = "ns" then some .noServer else if t = "oe" then some .overrideEmpty
  else if t = "ni" then some .noIssuer else if t = "te" then some .transportErr
  else if t = "g" then some .garbage else (decResp t).map .answer

def b01 (b : Bool) : String := if b then "1" else "0"

/-- the stored staple after the call -/
def storedAfter (i : StapleIn) (o : StapleOut) : Persisted :=
  match o.stapled with
  | some (.responder, r) => if o.stored && !i.storeFails then .parsed r else (if o.deleted then .absent else i.persisted)
  | _ => if o.deleted then .absent else i.persisted

/-! ### the executable specification: judges a response the implementation attached -/

/-- is attaching `r` at `i.now` allowed by the property? `fromStore`: it is the stored staple -/
def stapleVerdict (i : StapleIn) (r : Resp) : String :=
  if r.status ≠ .good then "bad:stapled-not-good"
  else if !r.serialMatches then "bad:stapled-other-serial"
  else if !r.signedByIssuer && !(i.persisted = .parsed r && !i.issuerInChain) then "bad:stapled-bad-signature"
  else if decide (i.now < r.thisUpdate) then "bad:stapled-not-yet-valid"
  else if (match r.nextUpdate with | some nu => decide (nu < i.now) | none => false) then "bad:stapled-expired"
  else if (match r.nextUpdate with | some nu => decide (nu > expiresAt i.notAfter) | none => false) then "bad:stapled-past-cert-expiry"
  else "ok"

/-- a verified, fresh, current stored staple must be reused without a request -/
def mustReuse (i : StapleIn) : Bool :=
  !i.disabled && (match i.persisted with
    | .parsed r => storedVerifies i r && fresh i.now r && current i.now r
    | _ => false)

def stapleIn (dis pers resp iic nb na now sf : String) : Option StapleIn :=
  match decPersisted pers, decResponder resp, nb.toInt?, na.toInt?, now.toInt? with
  | some p, some r, some nb, some na, some now =>
    some { disabled := dis = "1", persisted := p, responder := r, issuerInChain := iic = "1"
           notBefore := nb, notAfter := na, now := now, storeFails := sf = "1" }
  | _, _, _, _, _ => none

def respTag (i : StapleIn) : String :=
  (match i.persisted with
    | .absent => "pa" | .corrupt => "pc"
    | .parsed r => "p" ++ (if storedVerifies i r then (if fresh i.now r then "F" else "S") ++ (if current i.now r then "" else "x") else "V")) ++
  (match i.responder with
    | .noServer => "+ns" | .overrideEmpty => "+oe" | .noIssuer => "+ni" | .transportErr => "+te" | .garbage => "+g"
    | .answer r => "+" ++ (match r.status with | .good => "g" | .revoked => "r" | .unknown => "u") ++
        (if answerVerifies r then "" else "V") ++ (if current i.now r then "" else "x") ++ (if pastExpiry i r then "E" else ""))

/-- nanoseconds from the zero `time.Time` (January 1, year 1) to the Unix epoch -/
def zeroToUnix : Int := 62135596800000000000

/-- the TRANSLATED `freshOCSP` agrees with the model's `fresh` (instants shifted to count from the zero time;
cases outside the hypotheses of `C14_tie_fn_freshOCSP` — more than 292 years apart — are not compared) -/
def genFreshAgrees (now : Int) (r : Resp) : Bool :=
  let K := zeroToUnix
  let near : Int → Bool := fun x => decide (x - r.thisUpdate ≤ 9223372036854775807) && decide (-9223372036854775808 ≤ x - r.thisUpdate)
  let inScope := decide (r.thisUpdate + K > 9223372036854775808) &&
    (match r.nextUpdate with | some nu => decide (nu + K > 0) && near nu | none => true) &&
    (match r.responderNotAfter with | some ca => decide (ca + K > 0) && near ca | none => true)
  !inScope ||
  CM.Gen.Fn.freshOCSP (now + K)
    { ThisUpdate := r.thisUpdate + K, NextUpdate := (r.nextUpdate.map (· + K)).getD 0, Status := 0,
      Certificate := r.responderNotAfter.map (fun ca => ⟨ca + K⟩) } == fresh now r

/-- the TRANSLATED `currentOCSP` (CM/Generated/Fn, printed from the source on this run) agrees with the
model's `current` on the responses of this line (absent NextUpdate = the zero time) -/
def genCurrentAgrees (i : StapleIn) : Bool :=
  let rs : List Resp := (match i.persisted with | .parsed r => [r] | _ => []) ++
    (match i.responder with | .answer r => [r] | _ => [])
  (!(CM.Gen.Fn.translated.contains "currentOCSP") ||
   rs.all (fun r => r.nextUpdate == some 0 ||
    (CM.Gen.Fn.currentOCSP i.now ⟨r.thisUpdate, r.nextUpdate.getD 0, 0, none⟩ == current i.now r))) &&
  (!(CM.Gen.Fn.translated.contains "freshOCSP") || rs.all (fun r => genFreshAgrees i.now r))

def handle (args impl : List String) : String :=
  match args with
  | ["staple", via, dis, pers, resp, iic, nb, na, now, sf] =>
    match stapleIn dis pers resp iic nb na now sf with
    | none => bad
    | some i =>
      if !genCurrentAgrees i then reply "translated-definition-differs-from-model" "-" "!" else
      let o := staple i
      let direct := via = "direct"
      let model := showOptResp o.ocspSet ++ " " ++ showOptResp (o.stapled.map (·.2)) ++ " " ++
        showPersisted (storedAfter i o) ++ " " ++ (if o.contacted then "1" else "0") ++ " " ++
        (if direct then b01 o.err else "-") ++ " " ++ (if direct then "-" else "1")
      let spec := match impl with
        | [_, st, _, req, _, cached] =>
          match decOptResp st with
          | none => "bad-op"
          | some st =>
            let v := match st with
              | some r => stapleVerdict i r
              | none => "ok"
            if v ≠ "ok" then v
            else if cached = "0" then "bad:certificate-not-cached"
            else if mustReuse i && req ≠ "0" then "bad:responder-contacted-despite-fresh-staple"
            else "ok"
        | _ => "-"
      reply model spec (via ++ ":" ++ respTag i ++ (if o.stapled.isSome then "=S" else "") ++ (if o.err then "!" else ""))
  | ["maint", mg, ex, eo, es, dis, pers, resp, iic, nb, na, now, sf, sc, rn] =>
    match stapleIn dis pers resp iic nb na now sf, decOptResp eo, decOptResp es with
    | some i, some eo, some es =>
      let e : Entry := { leafNil := false, expired := ex = "1", managed := mg = "1", hasNames := true, ocsp := eo, staple := es }
      let renew : Renew := if rn = "ok" then .ok else if rn = "giveup" then .gaveUp else .fail
      -- the TRANSLATED `certShouldBeForceRenewed` (CM/Generated/Fn) beside the model's `shouldForce`
      let code : Status → Int := fun st => match st with | .good => 0 | .revoked => 1 | .unknown => 2
      let genForce := CM.Gen.Fn.certShouldBeForceRenewed
        ⟨(if e.hasNames then ["n".toList] else []), e.managed,
         e.ocsp.map (fun r => ⟨r.thisUpdate, r.nextUpdate.getD 0, code r.status, none⟩)⟩
      if CM.Gen.Fn.translated.contains "certShouldBeForceRenewed" && genForce != shouldForce e.managed e.hasNames e.ocsp then
        reply "translated-definition-differs-from-model" "-" "!" else
      let m := maintain e i (sc = "1") renew
      let showAfter : After → String
        | .kept a b => "kept/" ++ showOptResp a ++ "/" ++ showOptResp b
        | .replaced => "replaced"
        | .removed => "removed"
      let model := showAfter m.after ++ " " ++ showPersisted (storedAfter i m.out) ++ " " ++
        (if m.out.contacted then "1" else "0") ++ " " ++ b01 m.forced
      -- the certificate has been REPORTED Revoked to the implementation: its attached response
      -- already is, or the implementation asked the responder during this pass (observed) and the
      -- answer is a Revoked response that is valid for this certificate now
      let reported (req : String) : Bool := e.managed && !e.expired &&
        ((match e.ocsp with | some r => decide (r.status = .revoked) | none => false) ||
         (req != "0" && !i.disabled && (match i.responder with
            | .answer r => decide (r.status = .revoked) && answerVerifies r && current i.now r && !pastExpiry i r
            | _ => false)))
      let spec := match impl with
        | [after, _, req, _] =>
          if reported req && after ≠ "replaced" && after ≠ "removed" then "bad:revoked-still-served"
          else if reported req && renew = .ok && after ≠ "replaced" then "bad:revoked-not-replaced"
          else match after.splitOn "/" with
            | ["kept", _, st] =>
              (match decOptResp st with
              | none => "bad-op"
              | some none => "ok"
              | some (some r) => if some r = e.staple then "ok" else stapleVerdict i r)
            | _ => if !e.managed && after ≠ "" && (after = "replaced" || after = "removed") then "bad:unmanaged-entry-dropped" else "ok"
        | _ => "-"
      let tag := (match m.decision with | .skip => "skip" | .refresh => "refresh" | .forceRenew => "force") ++ ":" ++
        respTag i ++ (match m.after with | .kept _ _ => "" | .replaced => "=replaced" | .removed => "=removed") ++
        (if m.forced then "!" else "")
      reply model spec (if m.decision = .skip then "" else tag)
    | _, _, _ => bad
  | _ => bad

end CM.Drv.C14
