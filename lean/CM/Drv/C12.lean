import CM.Lib.Wire
import CM.Model.Cache
/-!
Driver handler for C12.

Request:  `trace <capacity> <event>… => <state>…`   (one implementation state per event)
  certificate  `hash/names/tags/managed/issuer/ari`   lists comma-separated, `-` = empty
  events       `add:<cert>:<victim|->`  `rm:<hash,…>`  `rmm:<name@issuer,…>`
               `rep:<old cert>:<new cert>:<victim|->`  `rmc:<cert>`  `ari:<hash>:<stamp>`  `hs:<cert>`
  state        `<key/cert;…>#<name=hash,hash;…>`  both sides sorted by key, `-` = empty
Answer: the model's states after each event (same rendering) | `Inv` evaluated on the
IMPLEMENTATION's states (`bad:<part of Inv>` for the first state violating it) | branches taken.
-/
namespace CM.Drv.C12
open CM.Wire CM.Cache

def dash (s : String) : String := if s = "-" then "" else s
def undash (s : String) : String := if s = "" then "-" else s
def optList (s : String) (sep : String) : List String := if s = "-" then [] else s.splitOn sep
def showList (l : List String) (sep : String) : String := if l = [] then "-" else sep.intercalate l

def parseCertFields : List String → Option Cert
  | [h, ns, ts, m, iss, ari] =>
    ari.toNat?.map fun a =>
      { hash := dash h, names := (optList ns ",").map String.toList, tags := optList ts ",",
        managed := m = "1", issuer := dash iss, ari := a }
  | _ => none

def parseCert (t : String) : Option Cert := parseCertFields (t.splitOn "/")

def showCert (c : Cert) : String :=
  "/".intercalate [undash c.hash, showList (c.names.map String.ofList) ",", showList c.tags ",",
    (if c.managed then "1" else "0"), undash c.issuer, toString c.ari]

def parseVictim (s : String) : Option Hash := if s = "-" then none else some s

def parseEv (t : String) : Option Ev :=
  match t.splitOn ":" with
  | ["add", c, v] => (parseCert c).map fun c => .add c (parseVictim v)
  | ["rm", hs] => some (.remove ((optList hs ",").map dash))
  | ["rmm", subs] =>
    some (.removeManaged ((optList subs ",").map fun p =>
      match p.splitOn "@" with
      | [n, i] => (n.toList, dash i)
      | _ => (p.toList, "")))
  | ["rep", o, n, v] =>
    match parseCert o, parseCert n with
    | some o, some n => some (.replace o n (parseVictim v))
    | _, _ => none
  | ["rmc", c] => (parseCert c).map .removeCopy
  | ["ari", h, k] => k.toNat?.map fun k => .ariWB h k
  | ["hs", c] => (parseCert c).map .hsWB
  | _ => none

def sortStrings (l : List String) : List String := (l.toArray.qsort (fun a b => a < b)).toList

def showState (s : State) : String :=
  let cs := sortStrings (s.cache.map fun p => undash p.1 ++ "/" ++ showCert p.2)
  let is := sortStrings (s.index.map fun p => String.ofList p.1 ++ "=" ++ showList p.2 ",")
  showList cs ";" ++ "#" ++ showList is ";"

def parseState (cap : Nat) (t : String) : Option State :=
  match t.splitOn "#" with
  | [cs, is] =>
    let centries := (optList cs ";").map fun e =>
      match e.splitOn "/" with
      | k :: rest => (parseCertFields rest).map fun c => (dash k, c)
      | [] => none
    let ientries := (optList is ";").map fun e =>
      match e.splitOn "=" with
      | [n, hs] => some (n.toList, (optList hs ",").map dash)
      | _ => none
    if centries.all Option.isSome && ientries.all Option.isSome then
      some { cache := centries.filterMap id, index := ientries.filterMap id, cap := cap }
    else none
  | _ => none

/-- which branch of the code an event takes in state `s` -/
def branch (s : State) : Ev → String
  | .add c _ =>
    match get? c.hash s.cache with
    | some _ => if c.tags = [] then "d" else "M"
    | none => if atCapacity s then "E" else "A"
  | .remove hs => if hs.any (fun h => (get? h s.cache).isSome) then "R" else "r"
  | .removeManaged subs => if (subs.flatMap (managedQueue s)) = [] then "g" else "G"
  | .replace o n _ =>
    (if (get? o.hash s.cache).isSome then "P" else "p") ++
    (match get? n.hash (removeCert o s).cache with
     | some _ => "M"
     | none => if atCapacity (removeCert o s) then "E" else "")
  | .removeCopy c => if (get? c.hash s.cache).isSome then "C" else "c"
  | .ariWB h _ => if (get? h s.cache).isSome then "W" else "w"
  | .hsWB c => if (get? c.hash s.cache).isSome then "H" else "h"

/-- run the model, collecting the rendering of every intermediate state and the branches -/
def replay : State → List Ev → List String × List String
  | _, [] => ([], [])
  | s, e :: es =>
    match step s e with
    | none => (["!disabled"], [])
    | some s' =>
      let (o, b) := replay s' es
      (showState s' :: o, branch s e :: b)

/-- what the statement promises about single operations, judged on the implementation's
states before and after the event (independent of the model's `step`) -/
def postCheck (prev cur : State) : Ev → Option String
  | .add c _ =>
    match get? c.hash cur.cache with
    | none => some "added-cert-not-cached"
    | some e' =>
      match get? c.hash prev.cache with
      | none => none
      | some e =>
        if (e.tags ++ c.tags).all (fun t => decide (t ∈ e'.tags)) then none else some "tags-not-merged"
  | .remove hs =>
    if hs.any (fun h => (get? h cur.cache).isSome) then some "removed-cert-still-cached"
    -- tags are merged in, never lost: an entry that stays cached across an operation that is not
    -- about it (here also: a staple maintenance pass, recorded as the removal of nothing) keeps them
    else if prev.cache.any (fun p => match get? p.1 cur.cache with
        | some e' => !(p.2.tags.all (fun t => decide (t ∈ e'.tags)))
        | none => false) then some "tags-lost"
    else none
  | .replace o n _ =>
    if (get? n.hash cur.cache).isNone then some "replacement-not-cached"
    else if o.hash ≠ n.hash && (get? o.hash cur.cache).isSome then some "replaced-cert-still-cached"
    else none
  | .removeCopy c => if (get? c.hash cur.cache).isSome then some "removed-cert-still-cached" else none
  | .removeManaged subs =>
    if cur.cache.any (fun p => p.2.managed && subs.any (fun sb => decide (sb.1 ∈ p.2.names) && (sb.2 = "" || p.2.issuer = sb.2)))
    then some "managed-cert-still-cached" else none
  | _ => none

def postChecks : State → List State → List Ev → Option String
  | prev, cur :: rest, e :: es =>
    match postCheck prev cur e with
    | some r => some r
    | none => postChecks cur rest es
  | _, _, _ => none

def handle (args impl : List String) : String :=
  match args with
  | "trace" :: cap :: evs =>
    match cap.toNat?, evs.map parseEv with
    | some cap, pevs =>
      if !(pevs.all Option.isSome) then bad else
      let es := pevs.filterMap id
      let (outs, brs) := replay (init cap) es
      let model := " ".intercalate outs
      let spec :=
        if impl.length ≠ es.length then "bad:state-count"
        else
          let verdicts := impl.map fun t =>
            match parseState cap t with
            | none => some "unparsable-state"
            | some s => invCheck s
          match verdicts.find? Option.isSome with
          | some (some r) => "bad:" ++ r
          | _ =>
            match postChecks (init cap) (impl.filterMap (parseState cap)) es with
            | some r => "bad:" ++ r
            | none => "ok"
      let tag := String.join (sortStrings (dedup brs))
      reply model spec tag
    | _, _ => bad
  | ["quiesce", cap, st] =>
    -- a state reached by concurrent operations under the real scheduler: only judged
    match cap.toNat? with
    | none => bad
    | some cap =>
      match parseState cap st with
      | none => reply "-" "bad:unparsable-state" "Q"
      | some s =>
        match invCheck s with
        | some r => reply "-" ("bad:" ++ r) "Q"
        | none => reply "-" "ok" "Q"
  | _ => bad

end CM.Drv.C12
