import CM.Lib.Wire
import CM.Model.SingleFlight
/-! Driver handler for C13.

`sf <kind> <outcome> <hold> <holdFor ns> <b> <d> <a> => <issues> <loads> <gates> <mapsEmpty> ; <phase 1> ; <phase 2> ; <phase 3>`

The driver runs the single-flight LTS (`CM.SingleFlight.step`, the definition the theorems
are about) on the same script as the harness: every thread is run to its next blocking point
("run thread t to its next yield or block", DESIGN 2.2), the environment (cache, storage,
policy, issuer) is a small record updated by the events, virtual time moves only between
the phases. Every event must be enabled (otherwise the answer is `invalid-trace`); the answer
is the predicted observables in the harness's format.
-/
namespace CM.Drv.C13
open CM.Wire CM.SingleFlight

structure Env where
  cached : Bool := false
  expired : Bool := false
  revoked : Bool := false
  due : Bool := false
  fresh : Bool := false
  stored : Bool := false
  sExpired : Bool := false
  sDue : Bool := false
  sFresh : Bool := false
  permit : Bool := true

structure Sim where
  s : State := init
  env : Env := {}
  now : Int := 0
  phaseOf : List (Nat × Nat) := []           -- thread ↦ phase (calls only; goroutines have none)
  order : List Nat := []                      -- threads in start order (goroutines included)
  waitSince : List (Nat × Int) := []
  cls : List (Nat × String) := []
  fin : List (Nat × String × Int) := []
  gateDone : List Nat := []                   -- renewers whose policy gate has been passed
  inHand : List (Nat × Bool) := []            -- threads maintaining a certificate they hold: is it expired?
  issues : Nat := 0
  loads : Nat := 0
  gates : Nat := 0
  held : Option Nat := none
  holdKind : String := ""                     -- issue | gate | load | exists | "" (nothing is held)
  nextG : Nat := 1000
  valid : Bool := true

def lookupD {α : Type} (l : List (Nat × α)) (k : Nat) (d : α) : α :=
  match l.find? (fun x => x.1 == k) with
  | some x => x.2
  | none => d

def setL {α : Type} (l : List (Nat × α)) (k : Nat) (v : α) : List (Nat × α) :=
  (k, v) :: l.filter (fun x => x.1 != k)

def Sim.fire (m : Sim) (e : Ev) : Sim :=
  match step true m.s e with
  | some s' => { m with s := s' }
  | none => { m with valid := false }

def Sim.setCls (m : Sim) (t : Nat) (c : String) : Sim := { m with cls := setL m.cls t c }

/-- is the thread at the yield point at which the scenario holds the worker? -/
def atHold (m : Sim) (t : Nat) : Bool :=
  match m.s.pc t with
  | .obtaining => m.holdKind == "issue"
  | .renewing _ => if m.gateDone.contains t then m.holdKind == "issue" else m.holdKind == "gate"
  | .gate _ => m.holdKind == "gate"
  | .loading => m.holdKind == "load"
  | .maint _ rv => m.holdKind == "exists" || (m.holdKind == "gate" && !rv && !m.env.stored)
  | _ => false

/-- outcome of the issuer as the worker sees it -/
structure Outcome where
  ok : Bool
  issues : Nat       -- issuer calls it makes
  attempts : Nat     -- runs of the renew closure (each loads the bundle)

/-- one step of thread t (not held, not blocked); `oc`: what the issuer does -/
def stepThread (m : Sim) (t : Nat) (oc : Outcome) : Option Sim :=
  let env := m.env
  match m.s.pc t with
  | .idle => none
  | .done _ => none
  | .lookup load =>
    let mt := env.due || env.revoked
    let m1 := m.fire (.look t env.cached mt (!env.expired) env.revoked)
    some (if env.cached && !(load && mt) then m1.setCls t (if env.fresh then "new" else "cur")
          else if env.cached then { m1 with inHand := setL m1.inHand t env.expired } else m1)
  | .loadSF _ =>
    let m1 := m.fire (.enterLoad t)
    some { m1 with waitSince := setL m1.waitSince t m.now }
  | .waitLoad c => if m.s.closedL c then some (m.fire (.wake t)) else none
  | .waitObtain c => if m.s.closedO c then some (m.fire (.wake t)) else none
  | .gate load =>
    let m1 := { m with gates := m.gates + 1 }
    let m2 := m1.fire (.gated t env.permit .err)
    some (if load && env.permit then m2 else m2.setCls t "err")
  | .loading =>
    if env.stored then
      let env' := { env with cached := true, expired := env.sExpired, due := env.sDue || env.sExpired,
                             fresh := env.sFresh, revoked := false }
      let mt := env'.due
      let m1 := { m with env := env', loads := m.loads + 1 }
      let m2 := m1.fire (.loaded t true mt (!env'.expired) false)
      some (if mt then { m2 with inHand := setL m2.inHand t env'.expired } else m2.setCls t (if env'.fresh then "new" else "cur"))
    else
      some ({ m with loads := m.loads + 2 }.fire (.loaded t false false false false))
  | .maint tl rv =>
    let missing := !env.stored
    let m1 := if !rv && missing then { m with gates := m.gates + 1 } else m
    let m2 := m1.fire (.maintGo t missing env.permit)
    some (if !rv && missing && !env.permit then m2.setCls t (if tl then "cur" else "err") else m2)
  | .obtainSF =>
    let m1 := m.fire (.enterObtain t)
    some { m1 with waitSince := setL m1.waitSince t m.now }
  | .renewSF tl rv =>
    let u := m.nextG
    let inFlight := m.s.obtCh.isSome
    let m1 := m.fire (.enterRenew t u)
    let m2 := { m1 with waitSince := setL m1.waitSince t m.now }
    match decision tl rv inFlight with
    | .serveCurrent => some (m2.setCls t "cur")
    | .serveAndRenewInBackground => some ({ m2 with nextG := u + 1, order := m2.order ++ [u] }.setCls t "cur")
    | _ => some m2
  | .obtaining =>
    if oc.ok then
      let env' := { env with stored := true, sExpired := false, sDue := false, sFresh := true, cached := true,
                             expired := false, due := false, revoked := false, fresh := true }
      -- (storeTx reads the previous values, then the new bundle is loaded)
      some (({ m with env := env', issues := m.issues + oc.issues, loads := m.loads + 2 }.fire (.finish t true)).setCls t "new")
    else
      some (({ m with issues := m.issues + oc.issues }.fire (.finish t false)).setCls t "err")
  | .renewing _ =>
    if !m.gateDone.contains t then
      -- the policy gate of renewAndReload
      let m1 := { m with gates := m.gates + 1 }
      if env.permit then some { m1 with gateDone := t :: m1.gateDone }
      else some (({ m1 with env := { env with cached := false } }.fire (.finish t false)).setCls t "err")
    else if oc.ok then
      let env' := { env with stored := true, sExpired := false, sDue := false, sFresh := true, cached := true,
                             expired := false, due := false, revoked := false, fresh := true }
      some (({ m with env := env', issues := m.issues + oc.issues, loads := m.loads + oc.attempts + 2 }.fire (.finish t true)).setCls t "new")
    else
      -- a failed forced renewal of a revoked certificate removes it from the cache
      let env' := if env.revoked then { env with cached := false } else env
      some (({ m with env := env', issues := m.issues + oc.issues, loads := m.loads + oc.attempts }.fire (.finish t false)).setCls t "err")
  | .unwind r =>
    let m1 := m.fire (.ret t)
    -- optionalMaintenance / loadCertFromStorage: a failed maintenance still serves the certificate
    -- in hand unless it is expired
    let c := match r with
      | .err => if lookupD m.inHand t true then "err" else "cur"
      | _ => lookupD m.cls t "?"
    some { m1 with fin := m1.fin ++ [(t, c, m.now)] }

/-- run thread t until it blocks, is held at the scenario's yield point, or is done -/
def advance (oc : Outcome) : Nat → Sim → Nat → Sim
  | 0, m, _ => { m with valid := false }
  | fuel + 1, m, t =>
    if m.held.isNone && m.holdKind != "" && atHold m t then { m with held := some t }
    else if m.held == some t then m
    else match stepThread m t oc with
      | none => m
      | some m' => advance oc fuel m' t

/-- all threads, in start order, until nothing moves (a woken thread may wake others) -/
def settle (oc : Outcome) : Nat → Sim → Sim
  | 0, m => m
  | fuel + 1, m =>
    let m' := m.order.foldl (fun acc t => advance oc 200 acc t) m
    if m'.fin.length == m.fin.length && m'.order.length == m.order.length && m'.gates == m.gates &&
       m'.issues == m.issues && m'.loads == m.loads then m' else settle oc fuel m'

def startCalls (oc : Outcome) (m : Sim) (phase n : Nat) : Sim :=
  (List.range n).foldl (fun acc _ =>
    let t := acc.phaseOf.length
    let acc1 := { acc with phaseOf := acc.phaseOf ++ [(t, phase)], order := acc.order ++ [t] }.fire (.begin t)
    let acc2 := advance oc 200 acc1 t
    -- goroutines it has started run as well
    (acc2.order.filter (· ≥ 1000)).foldl (fun a u => advance oc 200 a u) acc2) m

/-- waiters whose 2-minute timer fires before `limit` (exclusive unless `incl`) time out -/
def timeouts (oc : Outcome) (m : Sim) (limit : Int) (incl : Bool) : Sim :=
  m.order.foldl (fun acc t =>
    let waiting := match acc.s.pc t with
      | .waitLoad c => !acc.s.closedL c
      | .waitObtain c => !acc.s.closedO c
      | _ => false
    let dl := lookupD acc.waitSince t 0 + waiterTimeout
    if waiting && (dl < limit || (incl && dl == limit)) then
      let saved := acc.now
      let acc1 := ({ acc with now := dl }.fire (.timeout t)).setCls t "err"
      { advance oc 200 acc1 t with now := saved }
    else acc) m

def fmtGroup (m : Sim) (phase : Nat) : String :=
  let xs := m.fin.filterMap (fun (t, c, tm) =>
    if lookupD m.phaseOf t 0 == phase && t < 1000 then some (c ++ "@" ++ toString tm) else none)
  let sorted := xs.mergeSort (fun a b => decide (a ≤ b))
  sorted.foldl (fun acc x => acc ++ " " ++ x) " ;"

def initialEnv (kind : String) (permit : Bool) : Env :=
  match kind with
  | "load" => { stored := true, permit := permit }
  | "renewExpired" => { stored := true, sExpired := true, cached := true, expired := true, due := true, permit := permit }
  | "obtainMissing" => { cached := true, expired := true, due := true, permit := permit }
  | "d9" => { stored := true, sExpired := true, permit := true }
  | "renewWindow" => { stored := true, sDue := true, cached := true, due := true, permit := permit }
  | "renewRevoked" => { stored := true, cached := true, revoked := true, permit := permit }
  | _ => { permit := permit }

def simulate (kind outcome hold : String) (holdFor : Int) (b d a : Nat) : Sim :=
  let outcome0 := outcome
  let background := kind == "renewWindow" || kind == "renewRevoked"
  -- a cancelled caller context does not reach a goroutine's renewal
  let outcome := if outcome == "cancel" && background then "ok" else outcome
  let deadline : Int := if kind == "obtain" || kind == "obtainMissing" then obtainTimeout else if background then renewBgTimeout else renewFgTimeout
  -- issuer error with retries: the first attempt ends at holdFor, the next ones follow the retry
  -- intervals (1 min, 2 min, …) as long as they start before the deadline
  let retryIssues : Nat := if holdFor + 60000000000 < deadline then (if holdFor + 180000000000 < deadline then 3 else 2) else 1
  -- a worker held beyond its own deadline fails (its context has expired)
  let outcome := if outcome == "ok" && holdFor ≥ deadline then "err" else outcome
  let oc : Outcome := match outcome with
    | "ok" => ⟨true, 1, 1⟩
    | "errRetry" => ⟨false, retryIssues, retryIssues⟩
    | _ => ⟨false, 1, 1⟩
  let ocLater : Outcome := if outcome0 == "ok" then ⟨true, 1, 1⟩ else ⟨false, 1, 1⟩
  let m0 : Sim := { env := initialEnv kind (outcome != "deny"), holdKind := hold }
  if kind == "d9" then
    -- A becomes load worker and is held at the existence check; B becomes the renewer, held at its gate
    let m1 := startCalls oc { m0 with holdKind := "exists" } 1 1
    let m2 := startCalls oc { m1 with held := none, holdKind := "gate", env := { m1.env with permit := false } } 1 1
    let heldB := m2.held
    -- A is released: it finds the renewal in flight and waits
    let m3 := advance oc 200 { m2 with held := none, holdKind := "" } 0
    -- B is released after holdFor and is denied
    let m4 := { m3 with now := holdFor, held := none }
    let m5 := settle oc 50 (match heldB with | some t => advance oc 200 m4 t | none => { m4 with valid := false })
    timeouts oc m5 (m5.now + 100 * waiterTimeout) true
  else
  -- phase 1 and 2: all at time 0
  let m1 := startCalls oc m0 1 (b + 1)
  let m2 := startCalls oc m1 2 d
  let heldT := m2.held
  -- when does the worker leave? at its release, or (retries) at its deadline
  let tw : Int := if outcome == "errRetry" then deadline else holdFor
  let m3 := timeouts oc m2 tw false
  -- release
  let m4 := { m3 with now := tw, held := none, holdKind := "" }
  let m5 := match heldT with
    | some t => advance oc 200 m4 t
    | none => { m4 with valid := false }
  let m6 := settle ocLater 100 m5
  -- phase 3: just after the worker has finished
  -- (the first of them that has to work is held until all have arrived)
  let m7 := startCalls ocLater { m6 with holdKind := hold, held := none } 3 a
  let held3 := m7.held
  let m8 := { m7 with held := none, holdKind := "" }
  let m9 := settle ocLater 100 (match held3 with | some t => advance ocLater 200 m8 t | none => m8)
  timeouts ocLater m9 (m9.now + 100 * waiterTimeout) true

def handle (args impl : List String) : String :=
  match args with
  | ["sf", kind, outcome, hold, hf, b, d, a] =>
    match hf.toInt?, b.toNat?, d.toNat?, a.toNat? with
    | some hf, some b, some d, some a =>
      -- `loadStatic`: on-demand TLS off, the certificate is loaded from storage because the bounded
      -- cache is almost full — the same single-flight around the load, but no decision function to
      -- consult
      let static := kind == "loadStatic"
      let m := simulate (if static then "load" else kind) outcome hold hf b d a
      let m := if static then { m with gates := 0 } else m
      let mapsEmpty := m.s.loadCh.isNone && m.s.obtCh.isNone
      let allDone := m.order.all (fun t => match m.s.pc t with | .done _ => true | _ => false)
      let out := toString m.issues ++ " " ++ toString m.loads ++ " " ++ toString m.gates ++ " " ++
        (if mapsEmpty then "1" else "0") ++ fmtGroup m 1 ++ fmtGroup m 2 ++ fmtGroup m 3
      let model := if m.valid && allDone then out else "invalid-trace " ++ out
      -- executable specification on the implementation's observables: every call completed
      -- (the harness reports the others), maps empty, at most the issuer calls one worker per
      -- round can make
      let implMaps := impl.getD 3 "?"
      let spec := if implMaps == "1" then "ok" else "bad:maps-not-empty-at-quiescence"
      let k := b + d + a + 1
      reply model spec (kind ++ "/" ++ outcome ++ "/" ++ (if hf < waiterTimeout then "short" else "long") ++ "/" ++
        (if k == 1 then "1" else if k ≤ 4 then "few" else "many"))
    | _, _, _, _ => bad
  | _ => bad

end CM.Drv.C13
