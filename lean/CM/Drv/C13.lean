import CM.Lib.Wire
/-! Driver handler for C13 (stub: not built yet). -/
namespace CM.Drv.C13
open CM.Wire

def handle (_args _impl : List String) : String := bad

end CM.Drv.C13
