import CM.Lib.Wire
import CM.Model.Bundle
/-! Driver handler for C06: which key identifier each successful operation of a history
leaves in storage (fresh / reused / never a quarantined one), and which issuer's bundle
is loaded. The byte-level facts (documented keys, key matches leaf, reload equal, names)
are judged by Go-side oracles. -/
namespace CM.Drv.C06
open CM.Wire CM.Bundle

/-- replay a history on the model; key ids are numbered in order of first appearance, as
the harness numbers the real public keys -/
def replay (reuse : Bool) : List String → Slots → Nat → List String → List String
  | [], _, _, acc => acc.reverse
  | op :: rest, s, nextKey, acc =>
    let e : Env := { reuse := reuse, fresh := nextKey, ser := nextKey + 100, now := acc.length }
    if op.endsWith ":err" then replay reuse rest s nextKey ("-" :: acc)
    else if op = "dropcert" then replay reuse rest { s with crt := none, mta := none } nextKey ("-" :: acc)
    else if op = "dropall" then replay reuse rest Slots.empty nextKey ("-" :: acc)  -- RevokeCert deleted the assets
    else
      let s' :=
        if op = "obtain" || op = "obtain:noop" then obtain e s
        else if op = "renew" then (match renew e s with | some t => t | none => s)
        else if op = "compromise" then replaceCompromised e s
        else s
      let used := match s'.key with | some k => k | none => 0
      let nextKey' := if used = nextKey then nextKey + 1 else nextKey
      replay reuse rest s' nextKey' (toString used :: acc)

def handle (args impl : List String) : String :=
  match args with
  | ["hist", reuse, ops] =>
    let obs := replay (reuse = "1") (ops.splitOn ",") Slots.empty 1 []
    reply (String.intercalate "," obs) (if impl.isEmpty then "-" else "ok") (reuse ++ ":" ++ ops)
  | ["newest", items] =>
    let slots := (items.splitOn ",").filterMap (fun it =>
      match it.splitOn ":" with
      | [st, nb] => match nb.toNat? with
        | some nb =>
          let c : Crt := { pub := 1, ser := 1, nb := nb }
          if st = "ok" then some { key := some 1, crt := some c, mta := some 1, compromised := none }
          else if st = "nokey" then some { key := none, crt := some c, mta := some 1, compromised := none }
          else if st = "nometa" then some { key := some 1, crt := some c, mta := none, compromised := none }
          else some Slots.empty
        | none => none
      | _ => none)
    let m := match newest slots with | some c => toString c.nb | none => "none"
    -- the specification on the implementation's answer alone: a loadable bundle of maximal NotBefore
    let loadable := slots.filterMap (fun s => match load s with | .ok _ c => some c.nb | _ => none)
    let best := loadable.foldl max 0
    let spec := match impl with
      | [o] =>
        if loadable.isEmpty then (if o = "none" then "ok" else "bad:loaded-from-nothing")
        else if o = toString best then "ok" else "bad:not-newest-issuer"
      | _ => "-"
    reply m spec items
  | _ => bad

end CM.Drv.C06
