import CM.Lib.Wire
import CM.Model.Issue
/-! Driver handler for C01: validates an implementation history as a run of the LTS
(every event enabled, observables equal) and judges it by the executable specification. -/
namespace CM.Drv.C01
open CM.Wire CM.Issue

inductive Item | ev (e : Ev) | fin (p : Nat) (ok : Bool) | problem | begin (p : Nat) | torn

def parseItem (s : String) : Option Item :=
  match s.splitOn ":" with
  | ["pre", p] => p.toNat?.map (fun p => .ev (.pre p))
  | ["acq", p] => p.toNat?.map (fun p => .ev (.acq p))
  | ["recheck", p] => p.toNat?.map (fun p => .ev (.recheck p))
  | ["issueBegin", p] => p.toNat?.map (fun p => .ev (.issueBegin p))
  | ["issueEnd", p, ok] => p.toNat?.map (fun p => .ev (.issueEnd p (ok = "1")))
  | ["saveOk", p] => p.toNat?.map (fun p => .ev (.saveOk p))
  | ["saveFail", p, k] => match p.toNat?, k.toNat? with
      | some p, some k => some (.ev (.saveFail p k))
      | _, _ => none
  | ["retry", p] => p.toNat?.map (fun p => .ev (.retry p))
  | ["giveUp", p] => p.toNat?.map (fun p => .ev (.giveUp p))
  | ["rel", p] => p.toNat?.map (fun p => .ev (.rel p))
  | ["fin", p, o] => p.toNat?.map (fun p => .fin p (o = "ok"))
  | ["PROBLEM"] => some .problem
  | ["begin", p] => p.toNat?.map (fun p => .begin p)
  | ["TORN"] => some .torn
  | _ => none

def parseKind (s : String) : Option (Kind × Bool) :=
  if s = "obtains" then some (.obtain, false) else if s = "obtaina" then some (.obtain, true)
  else if s = "renews" then some (.renew, false) else if s = "renewa" then some (.renew, true)
  else if s = "manages" then some (.manage, false) else none

def mkInit (initial : String) (kinds : List (Kind × Bool)) : St :=
  { lock := none, stored := if initial = "none" then none else some 0, next := 1
    pc := fun _ => .start
    kind := fun p => match kinds[p - 1]? with | some (k, _) => k | none => .obtain
    async := fun p => match kinds[p - 1]? with | some (_, a) => a | none => false
    budget := fun _ => 100000
    contacted := fun _ => false, issuedBy := fun _ => 0 }

/-- run the LTS over the items; `fin p ok` must find p finished with that outcome -/
def replay (due : Ver → Bool) : St → List Item → Nat → Except String St
  | s, [], _ => .ok s
  | s, .ev e :: r, i =>
    match step due s e with
    | some s' => replay due s' r (i + 1)
    | none => .error s!"stuck@{i}"
  | s, .fin p ok :: r, i =>
    if s.pc p = .done ok then replay due s r (i + 1) else .error s!"fin-mismatch@{i}"
  | _, .problem :: _, i => .error s!"untranslatable@{i}"
  | s, .begin _ :: r, i => replay due s r (i + 1)
  | _, .torn :: _, _ => .error "*"

/-- executable specification on the implementation's history alone (no model state):
issuer calls never overlap; after a complete save of a fresh bundle nobody asks the issuer
again, and every request that was waiting for the lock at that moment or that arrives
later finishes successfully. (A request that was in the middle of reading the three-key
bundle while it was being saved is "in flight": it is neither waiting nor arriving later
and is not judged here — see DESIGN, C07 notes on the non-atomic bundle.)
State: who is inside the issuer; is a fresh bundle stored; the in-flight requests. -/
def specTrace : List Item → Option Nat → Bool → List Nat → List Nat → String
  | [], _, _, _, _ => "ok"
  | .begin p :: r, inIssue, fresh, active, exempt => specTrace r inIssue fresh (p :: active) exempt
  | .ev (.pre p) :: r, inIssue, fresh, active, exempt =>
    -- after its (last) pre-check a request is waiting for the lock, no longer reading
    specTrace r inIssue fresh (active.erase p) exempt
  | .ev (.issueBegin p) :: r, inIssue, fresh, active, exempt =>
    if inIssue.isSome then "bad:overlapping-issuance"
    else if fresh then "bad:issuance-after-fresh-save"
    else specTrace r (some p) fresh active exempt
  | .ev (.issueEnd _ _) :: r, _, fresh, active, exempt => specTrace r none fresh active exempt
  | .ev (.saveOk _) :: r, inIssue, _, active, exempt => specTrace r inIssue true active (active ++ exempt)
  | .fin p ok :: r, inIssue, fresh, active, exempt =>
    if fresh && !ok && !exempt.contains p then "bad:request-failed-after-fresh-save"
    else specTrace r inIssue fresh (active.erase p) exempt
  | _ :: r, inIssue, fresh, active, exempt => specTrace r inIssue fresh active exempt

def handle (args impl : List String) : String :=
  match args with
  | ["trace", initial, kinds, evs] =>
    let ks := (kinds.splitOn ",").filterMap parseKind
    let items := (evs.splitOn ",").filterMap parseItem
    if ks.length ≠ (kinds.splitOn ",").length ∨ items.length ≠ (evs.splitOn ",").length then bad else
    -- version 0 (present initially) is due iff the scenario says so; issued versions are fresh
    let due : Ver → Bool := fun v => v = 0 && initial = "due"
    let s0 := mkInit initial ks
    let model := match replay due s0 items 0 with
      | .error e => e
      | .ok s =>
        let st := match s.stored with | some v => s!"s{v}" | none => "s-"
        let obs := (List.range ks.length).map (fun i =>
          let p := i + 1
          let d := match s.pc p with | .done true => "d1" | .done false => "d0" | _ => "d?"
          d ++ (if s.contacted p then "c1" else "c0"))
        st ++ " " ++ String.intercalate "," obs
    let spec := if impl.isEmpty then "-" else specTrace items none (initial = "fresh") [] []
    let nIssue := (items.filter (fun | .ev (.issueBegin _) => true | _ => false)).length
    let nFail := (items.filter (fun | .ev (.issueEnd _ false) => true | .ev (.saveFail _ _) => true | _ => false)).length
    let nRetry := (items.filter (fun | .ev (.retry _) => true | _ => false)).length
    reply model spec s!"{initial}:n{ks.length}:i{nIssue}:f{nFail}:r{nRetry}"
  | _ => bad

end CM.Drv.C01
