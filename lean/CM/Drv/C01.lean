import CM.Lib.Wire
import CM.Model.Issue
/-! Driver handler for C01: validates an implementation history as a run of the LTS
(every event enabled, observables equal) and judges it by the executable specification. -/
namespace CM.Drv.C01
open CM.Wire CM.Issue

inductive Item | ev (e : Ev) | fin (p : Nat) (ok : Bool) | problem | begin (p : Nat) | torn (p : Nat)

def parseItem (s : String) : Option Item :=
  match s.splitOn ":" with
  | ["pre", p] => p.toNat?.map (fun p => .ev (.pre p))
  | ["acq", p] => p.toNat?.map (fun p => .ev (.acq p))
  | ["recheck", p] => p.toNat?.map (fun p => .ev (.recheck p))
  | ["issueBegin", p] => p.toNat?.map (fun p => .ev (.issueBegin p))
  | ["issueEnd", p, ok] => p.toNat?.map (fun p => .ev (.issueEnd p (ok = "1")))
  | ["saveOk", p] => p.toNat?.map (fun p => .ev (.saveOk p))
  | ["saveFail", p, k] => match p.toNat?, k.toNat? with
      | some p, some k => some (.ev (.saveFail p k))
      | _, _ => none
  | ["retry", p] => p.toNat?.map (fun p => .ev (.retry p))
  | ["giveUp", p] => p.toNat?.map (fun p => .ev (.giveUp p))
  | ["rel", p] => p.toNat?.map (fun p => .ev (.rel p))
  | ["die", p] => p.toNat?.map (fun p => .ev (.die p))
  | ["fin", p, o] => p.toNat?.map (fun p => .fin p (o = "ok"))
  | ["PROBLEM"] => some .problem
  | ["begin", p] => p.toNat?.map (fun p => .begin p)
  | ["TORN", p] => p.toNat?.map (fun p => .torn p)
  | _ => none

def parseKind (s : String) : Option (Kind × Bool) :=
  if s = "obtains" then some (.obtain, false) else if s = "obtaina" then some (.obtain, true)
  else if s = "renews" then some (.renew, false) else if s = "renewa" then some (.renew, true)
  else if s = "manages" then some (.manage, false) else if s = "managea" then some (.manage, true) else none

def mkInit (initial : String) (kinds : List (Kind × Bool)) : St :=
  { lock := none, stored := if initial = "none" then none else some 0, next := 1
    pc := fun _ => .start
    kind := fun p => match kinds[p - 1]? with | some (k, _) => k | none => .obtain
    async := fun p => match kinds[p - 1]? with | some (_, a) => a | none => false
    budget := fun _ => 100000
    contacted := fun _ => false, issuedBy := fun _ => 0 }

/-- run the LTS over the items; `fin p ok` must find p finished with that outcome -/
def replay (due : Ver → Bool) : St → List Item → Nat → Except String St
  | s, [], _ => .ok s
  | s, .ev e :: r, i =>
    match step due s e with
    | some s' => replay due s' r (i + 1)
    | none => .error s!"stuck@{i}"
  | s, .fin p ok :: r, i =>
    -- (a request whose Lock was refused has left the scene while waiting: `dead`, a failure)
    if s.pc p = .done ok ∨ (s.pc p = .dead ∧ ok = false) then replay due s r (i + 1) else .error s!"fin-mismatch@{i}"
  | _, .problem :: _, i => .error s!"untranslatable@{i}"
  | s, .begin _ :: r, i => replay due s r (i + 1)
  | _, .torn _ :: _, _ => .error "*"

/-- executable specification on the implementation's history alone (no model state):
issuer calls never overlap; after a complete save of a fresh bundle nobody asks the issuer
again, and every request that was waiting for the lock at that moment or that arrives
later finishes successfully. (A request that was in the middle of reading the three-key
bundle while it was being saved is "in flight": it is neither waiting nor arriving later
and is not judged here — see DESIGN, C07 notes on the non-atomic bundle.)
State: who is inside the issuer; is a fresh bundle stored; the in-flight requests. -/
def specTrace : List Item → Option Nat → Bool → List Nat → List Nat → String
  | [], _, _, _, _ => "ok"
  | .begin p :: r, inIssue, fresh, active, exempt => specTrace r inIssue fresh (p :: active) exempt
  | .ev (.pre p) :: r, inIssue, fresh, active, exempt =>
    -- after its (last) pre-check a request is waiting for the lock, no longer reading
    specTrace r inIssue fresh (active.erase p) exempt
  | .torn p :: r, inIssue, fresh, active, exempt =>
    -- its read of the three-key bundle overlapped another request's save: in flight, whatever
    -- the order of the linearisation points chosen for the two
    specTrace r inIssue fresh active (p :: exempt)
  | .ev (.die p) :: r, inIssue, fresh, active, exempt =>
    -- its own Lock call was refused by the storage (injected outage): its failure is the storage's
    specTrace r inIssue fresh (active.erase p) (p :: exempt)
  | .ev (.issueBegin p) :: r, inIssue, fresh, active, exempt =>
    if inIssue.isSome then "bad:overlapping-issuance"
    else if fresh then "bad:issuance-after-fresh-save"
    else specTrace r (some p) fresh active exempt
  | .ev (.issueEnd _ _) :: r, _, fresh, active, exempt => specTrace r none fresh active exempt
  | .ev (.saveOk _) :: r, inIssue, _, active, exempt => specTrace r inIssue true active (active ++ exempt)
  | .fin p ok :: r, inIssue, fresh, active, exempt =>
    if fresh && !ok && !exempt.contains p then "bad:request-failed-after-fresh-save"
    else specTrace r inIssue fresh (active.erase p) exempt
  | _ :: r, inIssue, fresh, active, exempt => specTrace r inIssue fresh active exempt

/-- executable specification on the final observables: a request that reported success has a
stored certificate to show for it — at the end of the history the subject's bundle can be
loaded (`s-` = it cannot). Within a history nothing removes a complete bundle (a roll-back
removes only what its own half-finished save added), so "complete when the request returned"
implies "complete at the end". A leader whose save was left half-finished (storage outage:
its roll-back fails too) leaves no loadable certificate: the next holder of the turn has to
obtain one, not report success on the strength of the fragments. -/
def specStored : List String → String
  | [st, obs] =>
    if st = "s-" && (obs.splitOn ",").any (fun o => o.startsWith "d1") then "bad:success-but-no-loadable-certificate"
    else "ok"
  | _ => "ok"

/-! ### OS-process rig (`proc`): issuer intervals, kills and results of K real processes -/

inductive PItem
  | ib (i : Nat) | ie (i : Nat) (ok : Bool) | kill (i : Nat) | fin (i : Nat) (ok : Bool) (h : String)
  | stored (h : String) | hang

def parsePItem (s : String) : Option PItem :=
  match s.splitOn ":" with
  | ["ib", i] => i.toNat?.map .ib
  | ["ie", i, ok] => i.toNat?.map (fun i => .ie i (ok = "1"))
  | ["kill", i] => i.toNat?.map .kill
  | ["fin", i, r, h] => i.toNat?.map (fun i => .fin i (r = "ok") h)
  | ["stored", h] => some (.stored h)
  | ["HANG"] => some .hang
  | _ => none

def killedOf : List PItem → List Nat
  | [] => []
  | .kill i :: r => i :: killedOf r
  | _ :: r => killedOf r

structure PSt where
  inIssue : Option Nat := none
  okBy : List Nat := []            -- surviving processes that have been issued a certificate
  failed : List Nat := []          -- processes whose own issuer call failed
  fins : List (Nat × String) := [] -- successful finishes with the certificate they see
  finished : List Nat := []
  dead : List Nat := []            -- killed so far

/-- executable specification of the process history (wall-clock order): issuer intervals of
different processes never overlap (a killed process's interval ends with its death); once a
surviving process has been issued a certificate nobody enters the issuer again; a process
fails only if its own issuer call failed; nobody hangs; every surviving process finishes; all
successful ones end up with the one stored certificate. Overlap / repetition AFTER a holder
has been killed carries its own reason (`…-after-stale-lock-takeover`): that is the
documented race of two contenders for one stale lock file (finding D27). -/
def specProc (k : Nat) (killed : List Nat) : List PItem → PSt → String
  | [], _ => "bad:no-stored-record"
  | .hang :: _, _ => "bad:hang"
  | .ib i :: r, s =>
    if s.inIssue.isSome then
      (if s.dead.isEmpty then "bad:overlapping-issuance" else "bad:overlapping-issuance-after-stale-lock-takeover")
    else if !s.okBy.isEmpty then
      (if s.dead.isEmpty then "bad:issuance-after-fresh-save" else "bad:repeated-issuance-after-stale-lock-takeover")
    else specProc k killed r { s with inIssue := some i }
  | .ie i ok :: r, s =>
    specProc k killed r { s with inIssue := none
                                 okBy := if ok && !killed.contains i then i :: s.okBy else s.okBy
                                 failed := if ok then s.failed else i :: s.failed }
  | .kill i :: r, s =>
    specProc k killed r { s with inIssue := if s.inIssue = some i then none else s.inIssue, dead := i :: s.dead }
  | .fin i ok h :: r, s =>
    if !ok && !s.failed.contains i then "bad:request-failed-without-issuer-failure"
    else specProc k killed r { s with fins := if ok then (i, h) :: s.fins else s.fins, finished := i :: s.finished }
  | .stored h :: _, s =>
    if (List.range k).any (fun j => !killed.contains (j + 1) && !s.finished.contains (j + 1)) then "bad:request-never-finished"
    else if !s.fins.isEmpty && h = "-" then "bad:success-but-nothing-stored"
    else if s.fins.any (fun f => f.2 != h) then "bad:callers-see-different-certificates"
    else "ok"

def handle (args impl : List String) : String :=
  match args with
  | ["proc", initial, k, fails, evs] =>
    let items := (evs.splitOn ",").filterMap parsePItem
    match k.toNat? with
    | none => bad
    | some k =>
    if items.length ≠ (evs.splitOn ",").length ∨ fails.length ≠ k then bad else
    let killed := killedOf items
    let failing : Nat → Bool := fun i => fails.toList[i - 1]? = some '1'
    -- a killed process that had already been issued a certificate may or may not have saved it
    let unclear := items.any (fun | .ie i true => killed.contains i | _ => false)
    let good := (List.range k).any (fun j => !killed.contains (j + 1) && !failing (j + 1))
    let spec := if impl.isEmpty then "-" else specProc k killed items {}
    -- the prediction presumes H_lock (one live holder at a time); a history in which the
    -- stale-lock race (D27) shows says nothing about the model
    let raced := spec = "bad:overlapping-issuance-after-stale-lock-takeover" ∨ spec = "bad:repeated-issuance-after-stale-lock-takeover"
    let model := if unclear ∨ raced then "*" else if good then "1" else "0"
    reply model spec s!"proc:{initial}:k{k}:killed{killed.length}:f{(fails.toList.filter (· = '1')).length}"
  | ["trace", initial, kinds, evs] =>
    let ks := (kinds.splitOn ",").filterMap parseKind
    let items := (evs.splitOn ",").filterMap parseItem
    if ks.length ≠ (kinds.splitOn ",").length ∨ items.length ≠ (evs.splitOn ",").length then bad else
    -- version 0 (present initially) is due iff the scenario says so; issued versions are fresh
    let due : Ver → Bool := fun v => v = 0 && initial = "due"
    let s0 := mkInit initial ks
    let model := match replay due s0 items 0 with
      | .error e => e
      | .ok s =>
        let st := match s.stored with | some v => s!"s{v}" | none => "s-"
        let obs := (List.range ks.length).map (fun i =>
          let p := i + 1
          let d := match s.pc p with | .done true => "d1" | .done false => "d0" | .dead => "d0" | _ => "d?"
          d ++ (if s.contacted p then "c1" else "c0"))
        st ++ " " ++ String.intercalate "," obs
    let spec := if impl.isEmpty then "-" else
      match specTrace items none (initial = "fresh") [] [] with
      | "ok" => specStored impl
      | v => v
    let nIssue := (items.filter (fun | .ev (.issueBegin _) => true | _ => false)).length
    let nFail := (items.filter (fun | .ev (.issueEnd _ false) => true | .ev (.saveFail _ _) => true | _ => false)).length
    let nRetry := (items.filter (fun | .ev (.retry _) => true | _ => false)).length
    reply model spec s!"{initial}:n{ks.length}:i{nIssue}:f{nFail}:r{nRetry}"
  | _ => bad

end CM.Drv.C01
