import CM.Lib.Wire
/-! Driver handler for C09: the model's prediction for every (operation, fault point, fault
kind) is that nothing is left held (CM/Props/C09 + CM/Tie/C09); the spec judges the
implementation's leftovers. -/
namespace CM.Drv.C09
open CM.Wire

def handle (args impl : List String) : String :=
  match args with
  | ["run", scn, site, _k, kind, outcome] =>
    let spec := match impl with
      | [held, inMap] =>
        if held ≠ "0" then "bad:lock-held-in-storage-after-return"
        else if inMap ≠ "0" then "bad:process-lock-record-not-empty"
        else "ok"
      | _ => "-"
    reply "0 0" spec (scn ++ ":" ++ site ++ ":" ++ kind ++ ":" ++ outcome)
  | _ => bad

end CM.Drv.C09
