import CM.Lib.Wire
/-! Driver handler for C09 (stub: not built yet). -/
namespace CM.Drv.C09
open CM.Wire

def handle (_args _impl : List String) : String := bad

end CM.Drv.C09
