import CM.Lib.Wire
/-! Driver handler for C20 (stub: not built yet). -/
namespace CM.Drv.C20
open CM.Wire

def handle (_args _impl : List String) : String := bad

end CM.Drv.C20
